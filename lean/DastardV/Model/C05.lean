/-
C05 — output files (LJH 2.2, LJH 3, OFF).

* record encoders transcribed from `ljh/ljh.go` (`Writer.WriteRecord`, `Writer3.WriteRecord`) and
  `off/off.go` (`Writer.WriteRecord`), and the record conversions of `DataPublisher.PublishData`;
* INDEPENDENT parsers written from the documentation: `doc/LJH.md` (LJH 2.2 header grammar and
  record layout), the LJH3 record description in `ljh/ljh.go`, the OFF layout comment of
  `off/off.go` (both as it stood — `parseOFFComment`, the pre-0.3.0 record — and with the
  pretrigger-delta field that 0.3.0 files carry — `parseOFF`);
* headers: key/value text for LJH 2.2, a JSON-subset reader for LJH3/OFF, the binary
  projector/basis block of OFF;
* the file-writer state machine (header once, pending/flushed bytes, close flushes) and the
  publisher (`start / publish / flush / pause / unpause / stop`).

Bytes are `Nat`s (0..255) in lists; floats are opaque IEEE bit patterns.  Core Lean only.
-/
import DastardV.Proto
namespace DastardV.C05

abbrev Bytes := List Nat

/-- ASCII string literal as bytes -/
def b (s : String) : Bytes := s.toList.map Char.toNat

/-! ### little-endian integers -/

/-- little-endian bytes of `n mod 256^w` -/
def le : Nat → Nat → Bytes
  | 0, _ => []
  | w + 1, n => (n % 256) :: le w (n / 256)

/-- value of little-endian bytes -/
def unle : Bytes → Nat
  | [] => 0
  | x :: xs => x + 256 * unle xs

/-- two's complement image of an `Int` in `w` bytes (Go's `uintN(x)` / `intN(x)` bit pattern) -/
def twos (w : Nat) (x : Int) : Nat := (x % (256 ^ w : Nat)).toNat

/-- signed reading of a `w`-byte image -/
def toSigned (w : Nat) (n : Nat) : Int :=
  if 2 * n < 256 ^ w then (n : Int) else (n : Int) - (256 ^ w : Nat)

/-- every element as `w` little-endian bytes -/
def leWords (w : Nat) : List Nat → Bytes
  | [] => []
  | x :: xs => le w x ++ leWords w xs

/-- exactly `k` words of `w` bytes each -/
def unWords (w : Nat) : Nat → Bytes → List Nat
  | 0, _ => []
  | k + 1, bs => unle (bs.take w) :: unWords w k (bs.drop w)

/-! ### records as the writers receive them, and the encoders (transcribed from the Go code) -/

/-- arguments of `ljh.Writer.WriteRecord` -/
structure W22 where
  frame : Int
  ts : Int            -- POSIX microseconds
  data : List Nat     -- 16-bit samples
deriving Repr, DecidableEq

/-- arguments of `ljh.Writer3.WriteRecord` -/
structure W3 where
  frs : Int           -- firstRisingSample
  frame : Int
  ts : Int
  data : List Nat
deriving Repr, DecidableEq

/-- arguments of `off.Writer.WriteRecord`; float32 values are bit patterns -/
structure WO where
  nsamp : Int
  npre : Int
  frame : Int
  ts : Int            -- nanoseconds
  ptm : Nat
  pd : Nat
  resid : Nat
  coefs : List Nat
deriving Repr, DecidableEq

/-- `ljh.Writer.WriteRecord`: subframe count (int64 arithmetic wraps), microsecond time, samples -/
def encodeLJH22 (subdiv suboff : Int) (r : W22) : Bytes :=
  le 8 (twos 8 (r.frame * subdiv + suboff)) ++ le 8 (twos 8 r.ts) ++ leWords 2 r.data

/-- `ljh.Writer3.WriteRecord` -/
def encodeLJH3 (r : W3) : Bytes :=
  le 4 (twos 4 r.data.length) ++ le 4 (twos 4 r.frs) ++ le 8 (twos 8 r.frame) ++ le 8 (twos 8 r.ts) ++
    leWords 2 r.data

/-- `off.Writer.WriteRecord` (file format version 0.3.0) -/
def encodeOFF (r : WO) : Bytes :=
  le 4 (twos 4 r.nsamp) ++ le 4 (twos 4 r.npre) ++ le 8 (twos 8 r.frame) ++ le 8 (twos 8 r.ts) ++
    le 4 r.ptm ++ le 4 r.pd ++ le 4 r.resid ++ leWords 4 r.coefs

/-! ### what a reader must recover, and the doc-derived record parsers -/

/-- LJH 2.2 record per doc/LJH.md: 8-byte subframe counter, 8-byte POSIX µs, L words of M bytes -/
structure R22 where
  subframe : Nat
  timeUs : Nat
  samples : List Nat
deriving Repr, DecidableEq

def parseLJH22 (L M : Nat) (bs : Bytes) : Option (R22 × Bytes) :=
  if bs.length < 16 + L * M then none else
  some ({ subframe := unle (bs.take 8), timeUs := unle ((bs.drop 8).take 8),
          samples := unWords M L (bs.drop 16) }, bs.drop (16 + L * M))

def expect22 (subdiv suboff : Int) (r : W22) : R22 :=
  { subframe := twos 8 (r.frame * subdiv + suboff), timeUs := twos 8 r.ts,
    samples := r.data.map (· % 65536) }

/-- LJH3 record: int32 sample count, int32 first rising sample, int64 frame count, int64 POSIX µs,
then that many 16-bit samples (variable length, self-delimiting) -/
structure R3 where
  nsamp : Nat
  frs : Nat
  frame : Nat
  timeUs : Nat
  samples : List Nat
deriving Repr, DecidableEq

def parseLJH3 (bs : Bytes) : Option (R3 × Bytes) :=
  if bs.length < 24 then none else
  let n := unle (bs.take 4)
  if 2 ^ 31 ≤ n then none else            -- a negative int32 length
  if bs.length < 24 + 2 * n then none else
  some ({ nsamp := n, frs := unle ((bs.drop 4).take 4), frame := unle ((bs.drop 8).take 8),
          timeUs := unle ((bs.drop 16).take 8), samples := unWords 2 n (bs.drop 24) },
        bs.drop (24 + 2 * n))

def expect3 (r : W3) : R3 :=
  { nsamp := r.data.length, frs := twos 4 r.frs, frame := twos 8 r.frame, timeUs := twos 8 r.ts,
    samples := r.data.map (· % 65536) }

/-- OFF record, version 0.3.0: the layout comment of off/off.go plus the float32 `pretriggerDelta`
that the 0.3.0 writer puts at bytes 28-31 (residual at 32, coefficients from 36) -/
structure ROff where
  nsamp : Nat
  npre : Nat
  frame : Nat
  timeNs : Nat
  ptm : Nat
  pdelta : Nat
  resid : Nat
  coefs : List Nat
deriving Repr, DecidableEq

def parseOFF (nb : Nat) (bs : Bytes) : Option (ROff × Bytes) :=
  if bs.length < 36 + 4 * nb then none else
  some ({ nsamp := unle (bs.take 4), npre := unle ((bs.drop 4).take 4),
          frame := unle ((bs.drop 8).take 8), timeNs := unle ((bs.drop 16).take 8),
          ptm := unle ((bs.drop 24).take 4), pdelta := unle ((bs.drop 28).take 4),
          resid := unle ((bs.drop 32).take 4), coefs := unWords 4 nb (bs.drop 36) },
        bs.drop (36 + 4 * nb))

def expectOFF (r : WO) : ROff :=
  { nsamp := twos 4 r.nsamp, npre := twos 4 r.npre, frame := twos 8 r.frame, timeNs := twos 8 r.ts,
    ptm := r.ptm % 2 ^ 32, pdelta := r.pd % 2 ^ 32, resid := r.resid % 2 ^ 32,
    coefs := r.coefs.map (· % 2 ^ 32) }

/-- the record exactly as the layout comment at the top of off/off.go described it before it was
corrected (the pre-0.3.0 record: residual at 28, coefficients from 32, `Z = 31+4*NumberOfBases`) -/
def parseOFFComment (nb : Nat) (bs : Bytes) : Option (ROff × Bytes) :=
  if bs.length < 32 + 4 * nb then none else
  some ({ nsamp := unle (bs.take 4), npre := unle ((bs.drop 4).take 4),
          frame := unle ((bs.drop 8).take 8), timeNs := unle ((bs.drop 16).take 8),
          ptm := unle ((bs.drop 24).take 4), pdelta := 0,
          resid := unle ((bs.drop 28).take 4), coefs := unWords 4 nb (bs.drop 32) },
        bs.drop (32 + 4 * nb))

/-- a body is a sequence of records up to the end of the file; a trailing partial record is an error -/
def parseMany {α} (pr : Bytes → Option (α × Bytes)) : Nat → Bytes → Option (List α)
  | _, [] => some []
  | 0, _ :: _ => none
  | fuel + 1, x :: xs =>
    match pr (x :: xs) with
    | none => none
    | some (a, rest) =>
      match parseMany pr fuel rest with
      | none => none
      | some as => some (a :: as)

def parseBody {α} (pr : Bytes → Option (α × Bytes)) (bs : Bytes) : Option (List α) :=
  parseMany pr bs.length bs

/-! ### what `PublishData` hands to each writer -/

/-- the fields of a `DataRecord` that reach a file; float32 values already converted (bit patterns) -/
structure Rec where
  npre : Int
  frame : Int
  timeNs : Int
  ptm : Nat
  pd : Nat
  resid : Nat
  data : List Nat
  coefs : List Nat
deriving Repr, DecidableEq

def toW22 (r : Rec) : W22 := { frame := r.frame, ts := r.timeNs.tdiv 1000, data := r.data }
def toW3 (r : Rec) : W3 := { frs := r.npre + 1, frame := r.frame, ts := r.timeNs.tdiv 1000, data := r.data }
def toWO (r : Rec) : WO :=
  { nsamp := r.data.length, npre := r.npre, frame := r.frame, ts := r.timeNs,
    ptm := r.ptm, pd := r.pd, resid := r.resid, coefs := r.coefs }

/-! ### one output format as the publisher sees it, the file writer and the publisher -/

structure Fmt (ρ : Type) where
  header : Bytes
  accept : ρ → Bool             -- WriteRecord returns nil
  enc : ρ → Bytes
  stopAtReject : Bool           -- PublishData returns the writer's error (OFF) instead of ignoring it (LJH 2.2)

/-- the records of one `PublishData` batch that reach the writer and are accepted by it -/
def taken {ρ} (F : Fmt ρ) (batch : List ρ) : List ρ :=
  if F.stopAtReject then batch.takeWhile F.accept else batch.filter F.accept

/-- does `PublishData` return this writer's error for the batch? -/
def batchErr {ρ} (F : Fmt ρ) (batch : List ρ) : Bool :=
  F.stopAtReject && batch.any (fun r => !F.accept r)

/-- an output file behind the asynchronous buffered writer -/
structure FileSt where
  created : Bool := false
  hdr : Bool := false           -- HeaderWritten
  disk : Bytes := []            -- bytes that reached the file
  pending : Bytes := []         -- bytes queued / buffered, not yet in the file
  closed : Bool := false
deriving Repr, DecidableEq

def FileSt.write (f : FileSt) (bs : Bytes) : FileSt := { f with pending := f.pending ++ bs }
def FileSt.flush (f : FileSt) : FileSt := { f with disk := f.disk ++ f.pending, pending := [] }
/-- `Close`: the asynchronous writer drains its queue and flushes, then the file is closed -/
def FileSt.close (f : FileSt) : FileSt := { f.flush with closed := true }

inductive Phase where
  | idle | active | stopped
deriving Repr, DecidableEq

inductive Op (ρ : Type) where
  | start (sel : Bool) (resetPause : Bool)   -- Set<format> calls of START; every setter clears the pause flag (SetOFF too since fix 29d6aef)
  | publish (batch : List ρ)
  | flush
  | pause
  | unpause
  | stop

/-- the control part of one format's `DataPublisher`: is its writer set, and the `WritingPaused` flag -/
structure Ctl where
  phase : Phase := .idle
  sel : Bool := false           -- this format's writer is set
  paused : Bool := false        -- `WritingPaused`
deriving Repr, DecidableEq

def ctlStep {ρ} (c : Ctl) : Op ρ → Ctl
  | .start sel reset =>
    if c.phase = .idle then { phase := .active, sel := sel, paused := if reset then false else c.paused } else c
  | .publish _ => c
  | .flush => c
  | .pause => { c with paused := true }
  | .unpause => { c with paused := false }
  | .stop => if c.phase = .active then { c with phase := .stopped } else c

/-- `PublishData` reaches this format's writer -/
def writing (c : Ctl) : Bool := c.phase == .active && c.sel && !c.paused

/-- the writer exists and has a file (Flush / Close act on it) -/
def live (c : Ctl) (f : FileSt) : Bool := c.phase == .active && c.sel && f.created

/-- what one operation does to the format's file -/
def fileStep {ρ} (F : Fmt ρ) (c : Ctl) (f : FileSt) : Op ρ → FileSt
  | .start _ _ => f
  | .publish batch =>
    -- PublishData: nothing for an empty batch, while paused, or without a writer;
    -- the file is created and the header written by the first batch that gets through
    if writing c && !batch.isEmpty then
      let f1 := if f.hdr then f else { (f.write F.header) with created := true, hdr := true }
      f1.write ((taken F batch).flatMap F.enc)
    else f
  | .flush => if live c f then f.flush else f
  | .pause => if live c f then f.flush else f          -- SetPause flushes
  | .unpause => if live c f then f.flush else f
  | .stop => if live c f then f.close else f           -- Remove<format> closes the file

/-- one format's view of a `DataPublisher` -/
structure PubSt where
  ctl : Ctl := {}
  f : FileSt := {}
deriving Repr, DecidableEq

def step {ρ} (F : Fmt ρ) (s : PubSt) (op : Op ρ) : PubSt :=
  { ctl := ctlStep s.ctl op, f := fileStep F s.ctl s.f op }

def run {ρ} (F : Fmt ρ) (s : PubSt) (ops : List (Op ρ)) : PubSt := ops.foldl (step F) s

/-- the file after STOP: `none` when it was never created -/
def fileOf (s : PubSt) : Option Bytes := if s.f.created then some s.f.disk else none

/-! #### the specification side: which records were accepted while active and unpaused -/

/-- the records one operation adds to the file: those of a batch published while writing that the
writer accepts -/
def accStep {ρ} (F : Fmt ρ) (c : Ctl) : Op ρ → List ρ
  | .publish batch => if writing c then taken F batch else []
  | _ => []

/-- does the operation bring the file into existence (a non-empty batch while writing) -/
def touchStep {ρ} (c : Ctl) : Op ρ → Bool
  | .publish batch => writing c && !batch.isEmpty
  | _ => false

/-- records accepted for the file while writing was active and unpaused, in order -/
def accepted {ρ} (F : Fmt ρ) : Ctl → List (Op ρ) → List ρ
  | _, [] => []
  | c, op :: ops => accStep F c op ++ accepted F (ctlStep c op) ops

/-- was any non-empty batch published while writing (the file is created lazily by the first one) -/
def touched {ρ} : Ctl → List (Op ρ) → Bool
  | _, [] => false
  | c, op :: ops => touchStep c op || touched (ctlStep c op) ops

/-! ### channel parameters and headers -/

structure Params where
  ci : Int
  npre : Int
  nsamp : Int
  fps : Int
  tbBits : Nat
  tsoff : Int
  nrows : Int
  ncols : Int
  nchans : Int
  subdiv : Int
  row : Int
  col : Int
  suboff : Int
  chnum : Int
  px : Int
  py : Int
  src : Bytes
  chname : Bytes
  pxname : Bytes
  dver : Bytes
  ghash : Bytes
  desc : Bytes
  projR : Nat
  projC : Nat
  proj : List Nat
  basR : Nat
  basC : Nat
  bas : List Nat
deriving Repr

/-- decimal text of a natural number / an integer (`%d`) -/
def decNat (n : Nat) : Bytes := (Nat.toDigits 10 n).map Char.toNat
def decInt (i : Int) : Bytes :=
  match i with
  | .ofNat n => decNat n
  | .negSucc n => 45 :: decNat (n + 1)

/-- Go `int` arithmetic wraps at 64 bits -/
def wrap64 (x : Int) : Int := toSigned 8 (twos 8 x)

/-- a header value: literal text, or a field whose text comes from Go's float / date formatting -/
inductive HV where
  | txt (v : Bytes)
  | sci (bits : Nat)       -- `%e` of a float64
  | secs (ns : Int)        -- `%.6f` of float64(ns)/1e9
  | date                   -- a formatted date (not compared)
deriving Repr

/-- the key doc/LJH.md defines for the word size ("Capitalization must be matched") -/
def docWordSizeKey : Bytes := b "Digitized Word Size in Bytes"

/-- the key `ljh.Writer.WriteHeader` writes (before the fix recorded in known_findings.jsonl it was
`Digitized Word Size In Bytes`, which a reader following the document does not find) -/
def wordSizeKey : Bytes := b "Digitized Word Size in Bytes"

/-- `ljh.Writer.WriteHeader`: the `Key: value` lines between the first line and `#End of Header` -/
def header22 (p : Params) : List (Bytes × HV) :=
  [ (b "Save File Format Version", .txt (b "2.2.1")),
    (b "Software Version", .txt (b "DASTARD version " ++ p.dver)),
    (b "Software Git Hash", .txt p.ghash),
    (b "Data source", .txt p.src),
    (b "Number of rows", .txt (decInt p.nrows)),
    (b "Number of columns", .txt (decInt p.ncols)),
    (b "Row number (from 0-" ++ decInt (wrap64 (p.nrows - 1)) ++ b " inclusive)", .txt (decInt p.row)),
    (b "Column number (from 0-" ++ decInt (wrap64 (p.ncols - 1)) ++ b " inclusive)", .txt (decInt p.col)),
    (b "Number of channels", .txt (decInt p.nchans)),
    (b "Channel name", .txt p.chname),
    (b "Channel", .txt (decInt p.chnum)),
    (b "ChannelIndex (in dastard)", .txt (decInt p.ci)),
    (b "Subframe divisions", .txt (decInt p.subdiv)),
    (b "Subframe offset", .txt (decInt p.suboff)),
    (wordSizeKey, .txt (b "2")),
    (b "Presamples", .txt (decInt p.npre)),
    (b "Total Samples", .txt (decInt p.nsamp)),
    (b "Number of samples per point", .txt (decInt p.fps)),
    (b "Timestamp offset (s)", .secs p.tsoff),
    (b "Server Start Time", .date),
    (b "First Record Time", .date),
    (b "Pixel X Position", .txt (decInt p.px)),
    (b "Pixel Y Position", .txt (decInt p.py)),
    (b "Pixel Name", .txt p.pxname),
    (b "Timebase", .sci p.tbBits) ]

def magic22 : Bytes := b "#LJH Memorial File Format"
def endTag22 : Bytes := b "#End of Header"

/-- the header text for given value texts -/
def renderHeader22 (kvs : List (Bytes × Bytes)) : Bytes :=
  magic22 ++ [10] ++ kvs.flatMap (fun kv => kv.1 ++ [58, 32] ++ kv.2 ++ [10]) ++ endTag22 ++ [10]

/-! #### LJH 2.2 header reader written from doc/LJH.md

`Key: value`, one pair per line; lines end with LF, CR or CRLF; one space follows the colon and
further spaces belong to the value; `#End of Header` ends the header; other lines starting with `#`
and lines without `: ` are ignored; capitalisation must match. -/

/-- read one line: (line, rest after its terminator); `none` when no terminator is left -/
def readLine : Bytes → Option (Bytes × Bytes)
  | [] => none
  | 10 :: rest => some ([], rest)
  | 13 :: 10 :: rest => some ([], rest)
  | 13 :: rest => some ([], rest)
  | c :: rest =>
    match readLine rest with
    | none => none
    | some (l, r) => some (c :: l, r)

/-- split at the first `": "` -/
def splitKV : Bytes → Option (Bytes × Bytes)
  | [] => none
  | 58 :: 32 :: v => some ([], v)
  | c :: rest =>
    match splitKV rest with
    | none => none
    | some (k, v) => some (c :: k, v)

def headerLines : Nat → Bytes → Option (List (Bytes × Bytes) × Bytes)
  | 0, _ => none
  | fuel + 1, bs =>
    match readLine bs with
    | none => none
    | some (line, rest) =>
      if line = endTag22 then some ([], rest) else
      match headerLines fuel rest with
      | none => none
      | some (kvs, body) =>
        if line.head? = some 35 then some (kvs, body) else
        match splitKV line with
        | none => some (kvs, body)
        | some kv => some (kv :: kvs, body)

def parseHeader22 (bs : Bytes) : Option (List (Bytes × Bytes) × Bytes) :=
  match readLine bs with
  | none => none
  | some (l, rest) => if l = magic22 then headerLines bs.length rest else none

def lookup (k : Bytes) : List (Bytes × Bytes) → Option Bytes
  | [] => none
  | (k', v) :: r => if k' = k then some v else lookup k r

/-! #### exact decimal arithmetic for the numeric header texts -/

/-- a rational as numerator / positive denominator -/
structure Q where
  num : Int
  den : Nat
deriving Repr

def Q.sub (a c : Q) : Q := { num := a.num * c.den - c.num * a.den, den := a.den * c.den }
def Q.abs (a : Q) : Q := { a with num := a.num.natAbs }
def Q.add (a c : Q) : Q := { num := a.num * c.den + c.num * a.den, den := a.den * c.den }
def Q.le (a c : Q) : Bool := a.num * c.den ≤ c.num * a.den
def Q.pow2 (e : Int) : Q := if e ≥ 0 then { num := 2 ^ e.toNat, den := 1 } else { num := 1, den := 2 ^ (-e).toNat }
def Q.pow10 (e : Int) : Q := if e ≥ 0 then { num := 10 ^ e.toNat, den := 1 } else { num := 1, den := 10 ^ (-e).toNat }
def Q.mul (a c : Q) : Q := { num := a.num * c.num, den := a.den * c.den }

/-- exact value of a finite float64 bit pattern, and its unit in the last place -/
def f64Value (bits : Nat) : Option (Q × Q) :=
  let e : Nat := bits / 2 ^ 52 % 2048
  let m : Nat := bits % 2 ^ 52
  let neg : Bool := bits / 2 ^ 63 % 2 == 1
  if e = 2047 then none else
  let mant : Int := if e = 0 then (m : Int) else ((2 ^ 52 + m : Nat) : Int)
  let ex : Int := (if e = 0 then 1 else (e : Int)) - 1075
  let v := Q.mul { num := if neg then -mant else mant, den := 1 } (Q.pow2 ex)
  some (v, Q.pow2 ex)

def digitsVal : Bytes → Option Nat
  | [] => some 0
  | ds => ds.foldl (fun acc c => match acc with
      | none => none
      | some a => if 48 ≤ c ∧ c ≤ 57 then some (a * 10 + (c - 48)) else none) (some 0)

/-- decimal text `[-]ddd[.ddd][e[+-]dd]` → (exact value, one unit of the last printed digit) -/
def decValue (t : Bytes) : Option (Q × Q) :=
  let (neg, t) := match t with
    | 45 :: r => (true, r)
    | r => (false, r)
  let mant := t.takeWhile (fun c => c ≠ 101 ∧ c ≠ 69)
  let ex := (t.dropWhile (fun c => c ≠ 101 ∧ c ≠ 69)).drop 1
  let ip := mant.takeWhile (· ≠ 46)
  let fp := (mant.dropWhile (· ≠ 46)).drop 1
  if ip.isEmpty then none else
  let exv : Option Int := match ex with
    | [] => some 0
    | 45 :: r => if r.isEmpty then none else (digitsVal r).map (fun n => -(n : Int))
    | 43 :: r => if r.isEmpty then none else (digitsVal r).map (fun n => (n : Int))
    | r => (digitsVal r).map (fun n => (n : Int))
  match digitsVal (ip ++ fp), exv with
  | some m, some e =>
    let sc := Q.pow10 (e - fp.length)
    some (Q.mul { num := if neg then -(m : Int) else m, den := 1 } sc, sc)
  | _, _ => none

/-- printed text `t` states float64 `bits` to within half a unit of its last printed digit, or —
for shortest round-trip output — to within half a unit in the last place of the double -/
def textStatesF64 (t : Bytes) (bits : Nat) : Bool :=
  match decValue t, f64Value bits with
  | some (q, u), some (v, ulp) =>
    let d := (q.sub v).abs
    Q.le (Q.add d d) u || Q.le (Q.add d d) ulp
  | _, _ => false

/-- `%.6f` of `float64(ns)/1e9`: within half a printed unit plus the two float64 roundings -/
def textStatesSecs (t : Bytes) (ns : Int) : Bool :=
  match decValue t with
  | some (q, u) =>
    let v : Q := { num := ns, den := 1000000000 }
    let d := (q.sub v).abs
    Q.le (Q.add d d) (Q.add u (Q.mul (Q.mul v.abs (Q.pow2 (-52))) { num := 2, den := 1 }))
  | none => false

def hvMatches (e : HV) (t : Bytes) : Bool :=
  match e with
  | .txt v => v == t
  | .sci bits => textStatesF64 t bits
  | .secs ns => textStatesSecs t ns
  | .date => true

def isDigitB (c : Nat) : Bool := 48 ≤ c && c ≤ 57

/-- the shape `fmt` gives the text: `%e` = `[-]d.dddddde±dd[d]`, `%.6f` = `[-]d+.dddddd` (model = code; the
oracle itself only asks that the text states the value to its printed precision) -/
def hvShape (e : HV) (t : Bytes) : Bool :=
  let t := match t with
    | 45 :: r => r
    | r => r
  match e with
  | .sci _ =>
    match t with
    | d :: 46 :: r =>
      isDigitB d && (r.take 6).all isDigitB && (r.take 6).length == 6 &&
      (match r.drop 6 with
       | 101 :: sg :: ex => (sg == 43 || sg == 45) && ex.all isDigitB && 2 ≤ ex.length
       | _ => false)
    | _ => false
  | .secs _ =>
    let ip := t.takeWhile (· ≠ 46)
    let fp := (t.dropWhile (· ≠ 46)).drop 1
    !ip.isEmpty && ip.all isDigitB && fp.all isDigitB && fp.length == 6
  | _ => true

/-- field-wise comparison of a parsed LJH 2.2 header with the expected one, in order -/
def kvsMatch : List (Bytes × HV) → List (Bytes × Bytes) → Bool
  | [], [] => true
  | (k, e) :: es, (k', t) :: ts => k == k' && hvMatches e t && hvShape e t && kvsMatch es ts
  | _, _ => false

/-! #### JSON subset reader (objects, arrays, strings, numbers as text, literals) -/

inductive J where
  | str (s : Bytes)
  | num (raw : Bytes)
  | lit (s : Bytes)
  | arr (xs : List J)
  | obj (kvs : List (Bytes × J))
deriving Repr

def isWs (c : Nat) : Bool := c = 32 || c = 10 || c = 13 || c = 9

def skipWs : Bytes → Bytes
  | [] => []
  | c :: r => if isWs c then skipWs r else c :: r

def hexVal (c : Nat) : Option Nat :=
  if 48 ≤ c ∧ c ≤ 57 then some (c - 48)
  else if 97 ≤ c ∧ c ≤ 102 then some (c - 87)
  else if 65 ≤ c ∧ c ≤ 70 then some (c - 55)
  else none

/-- string body after the opening quote → (unescaped bytes, rest after the closing quote) -/
def jString : Nat → Bytes → Option (Bytes × Bytes)
  | 0, _ => none
  | _ + 1, [] => none
  | _ + 1, 34 :: r => some ([], r)
  | f + 1, 92 :: 117 :: a :: b' :: c :: d :: r =>
    match hexVal a, hexVal b', hexVal c, hexVal d with
    | some a, some b', some c, some d =>
      let cp := ((a * 16 + b') * 16 + c) * 16 + d
      if cp < 128 then (jString f r).map (fun (s, t) => (cp :: s, t)) else none
    | _, _, _, _ => none
  | f + 1, 92 :: e :: r =>
    let ch : Option Nat := match e with
      | 34 => some 34 | 92 => some 92 | 47 => some 47 | 98 => some 8 | 102 => some 12
      | 110 => some 10 | 114 => some 13 | 116 => some 9 | _ => none
    match ch with
    | none => none
    | some ch => (jString f r).map (fun (s, t) => (ch :: s, t))
  | f + 1, c :: r => if c < 32 then none else (jString f r).map (fun (s, t) => (c :: s, t))

def isNumChar (c : Nat) : Bool := (48 ≤ c && c ≤ 57) || c = 45 || c = 43 || c = 46 || c = 101 || c = 69

def isAlpha (c : Nat) : Bool := 97 ≤ c && c ≤ 122

mutual
  /-- one JSON value (leading white space allowed) → (value, rest) -/
  def jValue : Nat → Bytes → Option (J × Bytes)
    | 0, _ => none
    | f + 1, bs =>
      match skipWs bs with
      | [] => none
      | 34 :: r => (jString (r.length + 1) r).map (fun (s, t) => (J.str s, t))
      | 123 :: r =>
        match skipWs r with
        | 125 :: t => some (J.obj [], t)
        | r' => (jMembers f r').map (fun (kvs, t) => (J.obj kvs, t))
      | 91 :: r =>
        match skipWs r with
        | 93 :: t => some (J.arr [], t)
        | r' => (jElems f r').map (fun (xs, t) => (J.arr xs, t))
      | c :: r =>
        if isNumChar c then
          some (J.num ((c :: r).takeWhile isNumChar), (c :: r).dropWhile isNumChar)
        else if isAlpha c then
          some (J.lit ((c :: r).takeWhile isAlpha), (c :: r).dropWhile isAlpha)
        else none
  /-- `"key": value (, "key": value)* }` -/
  def jMembers : Nat → Bytes → Option (List (Bytes × J) × Bytes)
    | 0, _ => none
    | f + 1, bs =>
      match skipWs bs with
      | 34 :: r =>
        match jString (r.length + 1) r with
        | none => none
        | some (k, t) =>
          match skipWs t with
          | 58 :: t' =>
            match jValue f t' with
            | none => none
            | some (v, t'') =>
              match skipWs t'' with
              | 44 :: u => (jMembers f u).map (fun (kvs, w) => ((k, v) :: kvs, w))
              | 125 :: u => some ([(k, v)], u)
              | _ => none
          | _ => none
      | _ => none
  /-- `value (, value)* ]` -/
  def jElems : Nat → Bytes → Option (List J × Bytes)
    | 0, _ => none
    | f + 1, bs =>
      match jValue f bs with
      | none => none
      | some (v, t) =>
        match skipWs t with
        | 44 :: u => (jElems f u).map (fun (xs, w) => (v :: xs, w))
        | 93 :: u => some ([v], u)
        | _ => none
end

/-- a JSON header: one object at the start of the file, followed by exactly one newline -/
def parseJsonHeader (bs : Bytes) : Option (J × Bytes) :=
  match jValue (bs.length + 1) bs with
  | some (J.obj kvs, 10 :: rest) => some (J.obj kvs, rest)
  | _ => none

def J.get (k : Bytes) : J → Option J
  | .obj kvs => (kvs.find? (fun kv => kv.1 == k)).map (·.2)
  | _ => none

def J.path : List Bytes → J → Option J
  | [], j => some j
  | k :: ks, j => match j.get k with
    | none => none
    | some v => J.path ks v

/-- expectation tree for a JSON header -/
inductive JE where
  | str (s : Bytes)
  | int (i : Int)
  | f64 (bits : Nat)
  | any
  | obj (kvs : List (Bytes × JE))

mutual
  def jMatch : JE → J → Bool
    | .str s, .str t => s == t
    | .int i, .num raw => raw == decInt i
    | .f64 bits, .num raw => textStatesF64 raw bits
    | .any, _ => true
    | .obj es, .obj kvs => jMatchKVs es kvs
    | _, _ => false
  def jMatchKVs : List (Bytes × JE) → List (Bytes × J) → Bool
    | [], [] => true
    | (k, e) :: es, (k', v) :: kvs => k == k' && jMatch e v && jMatchKVs es kvs
    | _, _ => false
end

/-- `ljh.Writer3.WriteHeader`; `row`/`col` are what the writer's Row/Column fields hold -/
def header3 (p : Params) (row col : Int) : JE :=
  .obj [ (b "frameperiod", .f64 p.tbBits),
         (b "File Format", .str (b "LJH3")),
         (b "File Format Version", .str (b "3.0.0")),
         (b "TDM", .obj [ (b "NumberOfRows", .int p.nrows), (b "NumberOfColumns", .int p.ncols),
                          (b "SubframeDivisions", .int p.subdiv), (b "Row", .int row),
                          (b "Column", .int col), (b "SubframeOffset", .int p.suboff) ]) ]

def savedAs : Bytes :=
  b "float64 binary data after header and before records. projectors first then basis, nbytes = rows*cols*8 for each projectors and basis"

/-- `off.Writer.WriteHeader` (JSON part) -/
def headerOff (p : Params) : JE :=
  .obj [ (b "ChannelIndex", .int p.ci), (b "ChannelName", .str p.chname),
         (b "ChannelNumberMatchingName", .int p.chnum),
         (b "MaxPresamples", .int p.npre), (b "MaxSamples", .int p.nsamp),
         (b "FramePeriodSeconds", .f64 p.tbBits),
         (b "FileFormat", .str (b "OFF")), (b "FileFormatVersion", .str (b "0.3.0")),
         (b "NumberOfBases", .int p.projR),
         (b "ModelInfo", .obj [
            (b "Projectors", .obj [ (b "Rows", .int p.projR), (b "Cols", .int p.projC), (b "SavedAs", .str savedAs) ]),
            (b "Basis", .obj [ (b "Rows", .int p.basR), (b "Cols", .int p.basC), (b "SavedAs", .str savedAs) ]),
            (b "Description", .str p.desc) ]),
         (b "CreationInfo", .obj [ (b "DastardVersion", .str p.dver), (b "GitHash", .str p.ghash),
                                   (b "SourceName", .str p.src), (b "CreationTime", .any) ]),
         (b "ReadoutInfo", .obj [ (b "NumberOfRows", .int p.nrows), (b "NumberOfColumns", .int p.ncols),
                                  (b "NumberOfChans", .int p.nchans), (b "SubframeDivisions", .int p.subdiv),
                                  (b "ColumnNum", .int p.col), (b "RowNum", .int p.row),
                                  (b "SubframeOffset", .int p.suboff) ]),
         (b "PixelInfo", .obj [ (b "XPosition", .int p.px), (b "YPosition", .int p.py), (b "Name", .str p.pxname) ]) ]

/-- the binary block of an OFF header: projectors then basis, row-major float64 -/
def offMatrixBlock (proj bas : List Nat) : Bytes := leWords 8 proj ++ leWords 8 bas

/-- read it back, given the shapes stated in the JSON part -/
def parseOffMatrices (pr pc br bc : Nat) (bs : Bytes) : Option (List Nat × List Nat × Bytes) :=
  if bs.length < 8 * (pr * pc) + 8 * (br * bc) then none else
  some (unWords 8 (pr * pc) bs, unWords 8 (br * bc) (bs.drop (8 * (pr * pc))),
        bs.drop (8 * (pr * pc) + 8 * (br * bc)))

def J.natAt (j : J) (path : List Bytes) : Option Nat :=
  match j.path path with
  | some (.num raw) => if raw.isEmpty then none else digitsVal raw
  | _ => none

/-! ### the three concrete formats of a channel -/

def fmt22 (p : Params) (hdr : Bytes) : Fmt W22 :=
  { header := hdr, accept := fun r => (r.data.length : Int) == p.nsamp,
    enc := encodeLJH22 p.subdiv p.suboff, stopAtReject := false }

def fmt3 (hdr : Bytes) : Fmt W3 :=
  { header := hdr, accept := fun _ => true, enc := encodeLJH3, stopAtReject := false }

def fmtOff (p : Params) (hdr : Bytes) : Fmt WO :=
  { header := hdr, accept := fun r => r.coefs.length == p.projR, enc := encodeOFF, stopAtReject := true }

/-! ### oracle: the property's statement evaluated on a file -/

inductive Mode where
  | dir22 | dir3 | diroff | pub | wc | rd
deriving Repr, DecidableEq

/-- LJH 2.2 file against the expected header fields and the accepted records.  Returns the clause that fails. -/
def chk22 (p : Params) (recs : List W22) (file : Bytes) : Option String :=
  match parseHeader22 file with
  | none => some "C05:ljh22-header-unparsable the header does not follow the key/value grammar of doc/LJH.md"
  | some (kvs, body) =>
    match lookup docWordSizeKey kvs with
    | none => some "C05:ljh22-wordsize-key the header has no `Digitized Word Size in Bytes` key (doc/LJH.md: capitalization must be matched)"
    | some ws =>
    match digitsVal ws, lookup (b "Total Samples") kvs with
    | some M, some lt =>
      if ws.isEmpty || lt != decInt p.nsamp then some "C05:ljh22-header-length Total Samples is not the channel's record length" else
      -- every documented key states the channel's value
      let want := (header22 p).filter (fun kv => kv.1 != wordSizeKey)
      let bad := want.filter (fun (k, e) => match lookup k kvs with
        | none => true
        | some t => !hvMatches e t)
      match bad with
      | (k, _) :: _ =>
        some ("C05:ljh22-header-field " ++ String.ofList (k.map Char.ofNat) ++ " does not state the channel's value")
      | [] =>
      match parseBody (parseLJH22 p.nsamp.toNat M) body with
      | none => some "C05:ljh22-body-partial the body is not a whole number of records of 16+L*M bytes"
      | some rs =>
        if rs != recs.map (expect22 p.subdiv p.suboff) then
          some "C05:ljh22-body-records the parsed records are not the accepted records"
        else if body.length != recs.length * (16 + p.nsamp.toNat * M) then
          some "C05:ljh22-length file length is not header + sum of record sizes"
        else none
    | _, _ => some "C05:ljh22-header-length Total Samples / word size missing or not a number"

def chk3 (p : Params) (rowcol : Option (Int × Int)) (recs : List W3) (file : Bytes) : Option String :=
  match parseJsonHeader file with
  | none => some "C05:ljh3-header-unparsable the file does not start with a JSON object followed by one newline"
  | some (j, body) =>
    let fld (path : List Bytes) (e : JE) : Bool := match j.path path with
      | some v => jMatch e v
      | none => false
    if !(fld [b "File Format"] (.str (b "LJH3")) && fld [b "frameperiod"] (.f64 p.tbBits)) then
      some "C05:ljh3-header-field format name or frame period does not state the channel's value"
    else if !(fld [b "TDM", b "NumberOfRows"] (.int p.nrows) && fld [b "TDM", b "NumberOfColumns"] (.int p.ncols) &&
              fld [b "TDM", b "SubframeDivisions"] (.int p.subdiv) && fld [b "TDM", b "SubframeOffset"] (.int p.suboff)) then
      some "C05:ljh3-header-field a TDM geometry / sub-frame field does not state the channel's value"
    else if (match rowcol with
        | some (r, c) => !(fld [b "TDM", b "Row"] (.int r) && fld [b "TDM", b "Column"] (.int c))
        | none => false) then
      some "C05:ljh3-header-rowcol TDM Row/Column are not the channel's row and column"
    else
    match parseBody parseLJH3 body with
    | none => some "C05:ljh3-body-partial the body is not a sequence of whole LJH3 records"
    | some rs =>
      if rs != recs.map expect3 then some "C05:ljh3-body-records the parsed records are not the accepted records"
      else if body.length != (recs.map (fun r => 24 + 2 * r.data.length)).sum then
        some "C05:ljh3-length file length is not header + sum of record sizes"
      else none

def chkOff (p : Params) (recs : List WO) (file : Bytes) : Option String :=
  match parseJsonHeader file with
  | none => some "C05:off-header-unparsable the file does not start with a JSON object followed by one newline"
  | some (j, rest) =>
    let fld (path : List Bytes) (e : JE) : Bool := match j.path path with
      | some v => jMatch e v
      | none => false
    if !(fld [b "FileFormat"] (.str (b "OFF")) && fld [b "FramePeriodSeconds"] (.f64 p.tbBits) &&
         fld [b "MaxPresamples"] (.int p.npre) && fld [b "MaxSamples"] (.int p.nsamp) &&
         fld [b "ChannelIndex"] (.int p.ci) && fld [b "ChannelName"] (.str p.chname) &&
         fld [b "ChannelNumberMatchingName"] (.int p.chnum) && fld [b "NumberOfBases"] (.int p.projR)) then
      some "C05:off-header-field record length / time base / channel identity / number of bases does not state the channel's value"
    else if !(fld [b "ReadoutInfo"] (.obj [ (b "NumberOfRows", .int p.nrows), (b "NumberOfColumns", .int p.ncols),
                (b "NumberOfChans", .int p.nchans), (b "SubframeDivisions", .int p.subdiv),
                (b "ColumnNum", .int p.col), (b "RowNum", .int p.row), (b "SubframeOffset", .int p.suboff) ])) then
      some "C05:off-header-field ReadoutInfo does not state the channel's geometry"
    else
    match j.natAt [b "ModelInfo", b "Projectors", b "Rows"], j.natAt [b "ModelInfo", b "Projectors", b "Cols"],
          j.natAt [b "ModelInfo", b "Basis", b "Rows"], j.natAt [b "ModelInfo", b "Basis", b "Cols"],
          j.natAt [b "NumberOfBases"] with
    | some pr, some pc, some br, some bc, some nb =>
      match parseOffMatrices pr pc br bc rest with
      | none => some "C05:off-matrices-short the binary projector/basis block is shorter than the header states"
      | some (pm, bm, body) =>
        if !(pr == p.projR && pc == p.projC && br == p.basR && bc == p.basC && pm == p.proj && bm == p.bas) then
          some "C05:off-matrices the projector / basis block is not the channel's matrices"
        else
        match parseBody (parseOFF nb) body with
        | none => some "C05:off-body-partial the body is not a whole number of records of 36+4*NumberOfBases bytes"
        | some rs =>
          if rs != recs.map expectOFF then
            -- classify: does the file follow the (stale) layout comment instead?
            some "C05:off-body-records the parsed records are not the accepted records"
          else if body.length != recs.length * (36 + 4 * nb) then
            some "C05:off-length file length is not header + sum of record sizes"
          else none
    | _, _, _, _, _ => some "C05:off-header-field matrix shapes missing from ModelInfo"

/-! ### the repository's own LJH reader (`ljh.OpenReader`, `parseHeader`, `NextPulse`), transcribed

This is NOT the doc-derived reader above: it is the Go code as written, quirks included.
* the header is scanned with `bufio.ScanLines` (split at LF, one trailing CR dropped); the first line must be the magic
  line; a line CONTAINING `Save File Format Version:` sets the version; `#End of Header` ends the scan; every other line is
  tried against six `fmt.Sscanf` patterns (`extract` always returns false, so all six are tried):
  `Digitized Word Size in Bytes: %d`, `Presamples: %d`, `Total Samples: %d`, `Channel: %d` (→ `ChannelIndex`!),
  `Timestamp offset (s): %f`, `Timebase: %f`;
* the header length is found by re-reading 1024 bytes from (sum of the line lengths) and looking for the end tag, then
  ALL following CR / LF bytes are consumed — body bytes too when the first sub-frame count starts with 0x0a / 0x0d;
* `NextPulse` reads 8 + 8 + 2·Samples bytes with three `binary.Read`s: nothing left at the start of ANY of the three reads
  is `io.EOF`, a partial read is `io.ErrUnexpectedEOF`. -/

def isSpaceB (c : Nat) : Bool := c = 32 || c = 9 || c = 10 || c = 11 || c = 12 || c = 13

def dropCR (l : Bytes) : Bytes := if l.getLast? = some 13 then l.dropLast else l

/-- `bufio.ScanLines`: the next line and what follows its LF; the unterminated rest of the input is a last line -/
def scanLine : Bytes → Option (Bytes × Bytes)
  | [] => none
  | bs => some (dropCR (bs.takeWhile (· ≠ 10)), (bs.dropWhile (· ≠ 10)).drop 1)

/-- the literal part of a `Sscanf` format (`advance` in fmt/scan.go): characters must match; a space in the format
needs at least one space in the input (or its end) and swallows all that follow.  Returns the remaining input. -/
def scanLit : Bytes → Bytes → Option Bytes
  | [], inp => some inp
  | f :: fs, inp =>
    if f = 32 then
      match inp with
      | [] => scanLit fs []
      | c :: r => if isSpaceB c && c ≠ 10 then scanLit fs ((c :: r).dropWhile (fun x => isSpaceB x && x ≠ 10)) else none
    else
      match inp with
      | [] => none
      | c :: r => if c = f then scanLit fs r else none

/-- `%d`: leading spaces skipped, optional sign, decimal digits (an underscore is taken into the token and then refused
by ParseInt), value must fit an int64 -/
def scanD (inp : Bytes) : Option Int :=
  let inp := inp.dropWhile isSpaceB
  let (neg, r) := match inp with
    | 45 :: r => (true, r)
    | 43 :: r => (false, r)
    | r => (false, r)
  let tok := r.takeWhile (fun c => isDigitB c || c = 95)
  if tok.isEmpty || tok.any (· = 95) then none else
  match digitsVal tok with
  | none => none
  | some n =>
    let v : Int := if neg then -(n : Int) else n
    if -(2 ^ 63 : Int) ≤ v ∧ v < 2 ^ 63 then some v else none

/-- `%f`: the float token `[sign] digits [. digits] [e|E [sign] digits]` (NaN / Inf / hex / `p` exponents, which the
writer never prints for the fields read here, are not modelled); conversion is strconv.ParseFloat (trusted) -/
def scanFTok (inp : Bytes) : Option Bytes :=
  let inp := inp.dropWhile isSpaceB
  let (sg, r) := match inp with
    | 45 :: r => ([45], r)
    | 43 :: r => ([43], r)
    | r => ([], r)
  let ip := r.takeWhile isDigitB
  let r := r.dropWhile isDigitB
  let (fp, r) := match r with
    | 46 :: r' => (46 :: r'.takeWhile isDigitB, r'.dropWhile isDigitB)
    | _ => ([], r)
  let ex := match r with
    | e :: r' =>
      if e = 101 || e = 69 then
        match r' with
        | 45 :: r'' => e :: 45 :: r''.takeWhile isDigitB
        | 43 :: r'' => e :: 43 :: r''.takeWhile isDigitB
        | _ => e :: r'.takeWhile isDigitB
      else []
    | [] => []
  let tok := sg ++ ip ++ fp ++ ex
  -- ParseFloat needs a digit in the mantissa and, after an `e`, a digit in the exponent
  if (ip.isEmpty && fp.length ≤ 1) || (match ex.getLast? with | some c => !isDigitB c | none => false) then none
  else some tok

def isPrefix : Bytes → Bytes → Bool
  | [], _ => true
  | _ :: _, [] => false
  | a :: as, c :: cs => a == c && isPrefix as cs

/-- `strings.Contains` -/
def containsB (pat : Bytes) : Bytes → Bool
  | [] => pat.isEmpty
  | c :: cs => isPrefix pat (c :: cs) || containsB pat cs

/-- `strings.Index` -/
def indexOfB (pat : Bytes) : Bytes → Option Nat
  | [] => if pat.isEmpty then some 0 else none
  | c :: cs => if isPrefix pat (c :: cs) then some 0 else (indexOfB pat cs).map (· + 1)

def splitOnB (sep : Nat) (l : Bytes) : List Bytes :=
  l.foldr (fun c acc => if c = sep then [] :: acc else match acc with
    | [] => [[c]]
    | h :: t => (c :: h) :: t) [[]]

inductive RErr where
  | magic | version | noend
deriving Repr, DecidableEq

structure RHdr where
  version : Nat := 0            -- VersionCode: 0 invalid, 1 = 2.1, 2 = 2.2
  recLen : Int := 0
  wordSize : Int := 0
  presamples : Int := 0
  samples : Int := 0
  channel : Int := 0            -- `Reader.ChannelIndex`, read from the `Channel:` line
  tsoffTok : Option Bytes := none
  tbTok : Option Bytes := none
deriving Repr, DecidableEq

def versionTag : Bytes := b "Save File Format Version:"

/-- `setVersionNumber` -/
def setVersion (h : RHdr) (line : Bytes) : Except RErr RHdr :=
  let pre := b "Save File Format Version: "
  let s := if isPrefix pre line then line.drop pre.length else line
  match splitOnB 46 s with
  | [p0, p1, p2] =>
    if p0 ≠ b "2" then .error .version
    else if p1 = b "1" ∧ p2 = b "1" then .ok { h with version := 1, recLen := 6 }
    else if p1 = b "2" then .ok { h with version := 2, recLen := 16 }
    else .error .version
  | _ => .error .version

/-- the six `Sscanf` attempts on an ordinary header line -/
def extractLine (h : RHdr) (line : Bytes) : RHdr :=
  let intAt (pat : String) (old : Int) : Int :=
    match scanLit (b pat) line with
    | some rest => (scanD rest).getD old
    | none => old
  let tokAt (pat : String) (old : Option Bytes) : Option Bytes :=
    match scanLit (b pat) line with
    | some rest => match scanFTok rest with
      | some t => some t
      | none => old
    | none => old
  { h with wordSize := intAt "Digitized Word Size in Bytes: " h.wordSize,
           presamples := intAt "Presamples: " h.presamples,
           samples := intAt "Total Samples: " h.samples,
           channel := intAt "Channel: " h.channel,
           tsoffTok := tokAt "Timestamp offset (s): " h.tsoffTok,
           tbTok := tokAt "Timebase: " h.tbTok }

/-- the scan loop of `parseHeader`: (fields, textLength after the loop) -/
def scanHeader : Nat → Nat → Nat → RHdr → Bytes → Except RErr (RHdr × Nat)
  | 0, _, tl, h, _ => .ok (h, tl)
  | fuel + 1, lnum, tl, h, bs =>
    match scanLine bs with
    | none => .ok (h, tl)
    | some (line, rest) =>
      let tl := tl + line.length
      if lnum = 0 then
        if line ≠ magic22 then .error .magic else scanHeader fuel 1 tl h rest
      else if containsB versionTag line then
        match setVersion h line with
        | .error e => .error e
        | .ok h' => scanHeader fuel (lnum + 1) tl h' rest
      else if line = endTag22 then .ok (h, tl)
      else scanHeader fuel (lnum + 1) tl (extractLine h line) rest

/-- the header length: re-find the end tag in the 1024 bytes at `textLength - len(tag)`, then consume every CR / LF -/
def locateBody (file : Bytes) (tl : Nat) : Option Nat :=
  if tl < endTag22.length then none else      -- ReadAt at a negative offset fails: the buffer stays zero
  let off := tl - endTag22.length
  let w := (file.drop off).take 1024
  match indexOfB endTag22 w with
  | none => none
  | some idx =>
    let idx := idx + endTag22.length
    some (off + idx + ((w.drop idx).takeWhile (fun c => c = 10 || c = 13)).length)

inductive REnd where
  | eof | ueof
deriving Repr, DecidableEq

structure Pulse where
  sub : Int
  ts : Int
  samples : List Nat
deriving Repr, DecidableEq

/-- `NextPulse` until the first error -/
def readPulses (L : Nat) : Nat → Bytes → List Pulse × REnd
  | 0, _ => ([], .eof)
  | fuel + 1, bs =>
    if bs.isEmpty then ([], .eof) else
    if bs.length < 8 then ([], .ueof) else
    let r1 := bs.drop 8
    if r1.isEmpty then ([], .eof) else
    if r1.length < 8 then ([], .ueof) else
    let r2 := r1.drop 8
    if L ≠ 0 ∧ r2.isEmpty then ([], .eof) else
    if r2.length < 2 * L then ([], .ueof) else
    let pl : Pulse := { sub := toSigned 8 (unle (bs.take 8)), ts := toSigned 8 (unle (r1.take 8)),
                        samples := unWords 2 L r2 }
    let (ps, e) := readPulses L fuel (r2.drop (2 * L))
    (pl :: ps, e)

structure ReaderOut where
  hdr : RHdr
  headerLength : Nat
  recordLength : Int
  pulses : List Pulse
  fin : REnd
deriving Repr, DecidableEq

/-- `OpenReader` + `NextPulse` to the end -/
def readerParse (file : Bytes) : Except RErr ReaderOut :=
  match scanHeader (file.length + 1) 0 0 {} file with
  | .error e => .error e
  | .ok (h, tl) =>
    match locateBody file tl with
    | none => .error .noend
    | some hl =>
      let (ps, e) := readPulses h.samples.toNat (file.length + 1) (file.drop hl)
      .ok { hdr := h, headerLength := hl, recordLength := h.recLen + h.wordSize * h.samples, pulses := ps, fin := e }

/-- what the reader must return for a file the writer wrote: the parameters and the accepted records -/
def readerExpect (p : Params) (hdrLen : Nat) (recs : List W22) (o : ReaderOut) : Bool :=
  o.hdr.version == 2 && o.hdr.wordSize == 2 && o.hdr.presamples == p.npre && o.hdr.samples == p.nsamp &&
  o.hdr.channel == p.chnum && o.headerLength == hdrLen && o.recordLength == 16 + 2 * p.nsamp &&
  o.pulses == recs.map (fun r => { sub := toSigned 8 (twos 8 (r.frame * p.subdiv + p.suboff)),
                                   ts := toSigned 8 (twos 8 r.ts), samples := r.data.map (· % 65536) }) &&
  o.fin == .eof

/-- the double the reader stored is a nearest double to the text it scanned (ParseFloat is trusted) -/
def nearestDouble (t : Bytes) (bits : Nat) : Bool :=
  match decValue t, f64Value bits with
  | some (q, _), some (v, ulp) => let d := (q.sub v).abs; Q.le (Q.add d d) ulp
  | _, _ => false

/-! ### driver -/

inductive POp where
  | c | h | f | x | z | u
  | s (sel : Nat)
  | w22 (r : W22)
  | w3 (r : W3)
  | wo (r : WO)
  | p (batch : List Rec)
  | m (nb : Nat)      -- the channel's model is set again while writing: no effect on a file already started
deriving Repr

def be16s : Bytes → List Nat
  | a :: c :: r => (a * 256 + c) :: be16s r
  | _ => []

open P in
def pData : P (List Nat) := do
  let bs ← bytes
  pure (be16s bs)

open P in
def pParams : P Params := do
  let ci ← int; let npre ← int; let nsamp ← int; let fps ← int
  let tbBits ← nat; let tsoff ← int
  let nrows ← int; let ncols ← int; let nchans ← int; let subdiv ← int
  let row ← int; let col ← int; let suboff ← int; let chnum ← int; let px ← int; let py ← int
  let src ← bytes; let chname ← bytes; let pxname ← bytes; let dver ← bytes; let ghash ← bytes; let desc ← bytes
  kw "proj"; let projR ← nat; let projC ← nat; let proj ← list nat
  kw "basis"; let basR ← nat; let basC ← nat; let bas ← list nat
  pure { ci, npre, nsamp, fps, tbBits, tsoff, nrows, ncols, nchans, subdiv, row, col, suboff, chnum, px, py,
         src, chname, pxname, dver, ghash, desc, projR, projC, proj, basR, basC, bas }

open P in
def pRec : P Rec := do
  kw "R"
  let npre ← int; let frame ← int; let timeNs ← int
  let ptm ← nat; let pd ← nat; let resid ← nat
  let data ← pData
  let coefs ← list nat
  pure { npre, frame, timeNs, ptm, pd, resid, data, coefs }

open P in
def pOp : P POp := do
  let t ← tok
  match t with
  | "C" => pure .c
  | "H" => pure .h
  | "F" => pure .f
  | "X" => pure .x
  | "Z" => pure .z
  | "U" => pure .u
  | "M" => do let nb ← nat; pure (.m nb)
  | "S" => do let s ← nat; pure (.s s)
  | "W22" => do
    let frame ← int; let ts ← int; let data ← pData
    pure (.w22 { frame, ts, data })
  | "W3" => do
    let frs ← int; let frame ← int; let ts ← int; let data ← pData
    pure (.w3 { frs, frame, ts, data })
  | "WO" => do
    let nsamp ← int; let npre ← int; let frame ← int; let ts ← int
    let ptm ← nat; let pd ← nat; let resid ← nat; let coefs ← list nat
    pure (.wo { nsamp, npre, frame, ts, ptm, pd, resid, coefs })
  | "P" => do
    let batch ← list pRec
    pure (.p batch)
  | _ => fail s!"bad op {t}"

open P in
def pFile : P (Option Bytes) := do
  let t ← peek
  if t == some "A" then
    let _ ← tok
    pure none
  else
    let bs ← bytes
    pure (some bs)

/-- what the real reader reported -/
structure ImplReader where
  openRes : String
  ver : Nat := 0
  ws : Int := 0
  npre : Int := 0
  ns : Int := 0
  ch : Int := 0
  tso : Nat := 0
  tb : Nat := 0
  hl : Nat := 0
  rl : Int := 0
  pulses : List Pulse := []
  fin : String := ""

structure Case where
  mode : Mode
  p : Params
  ops : List POp
  res : String
  f22 : Option Bytes
  f3 : Option Bytes
  foff : Option Bytes
  cut : Nat × Nat := (0, 0)
  rdr : Option ImplReader := none

open P in
def pImplReader : P ImplReader := do
  let st ← tok
  if st != "ok" then pure { openRes := st } else
  let ver ← nat; let ws ← int; let npre ← int; let ns ← int; let ch ← int
  let tso ← nat; let tb ← nat; let hl ← nat; let rl ← int
  let pulses ← list (do
    let sub ← int; let ts ← int; let d ← pData
    pure ({ sub, ts, samples := d } : Pulse))
  let fin ← tok
  pure { openRes := "ok", ver, ws, npre, ns, ch, tso, tb, hl, rl, pulses, fin }

open P in
def pCase : P Case := do
  let m ← tok
  let mode ← match m with
    | "dir22" => pure Mode.dir22
    | "dir3" => pure Mode.dir3
    | "diroff" => pure Mode.diroff
    | "pub" => pure Mode.pub
    | "wc" => pure Mode.wc
    | "rd" => pure Mode.rd
    | _ => fail s!"bad mode {m}"
  kw "P"; let p ← pParams
  kw "OPS"; let ops ← list pOp
  let cut ← if mode = .rd then (do kw "CUT"; let k ← nat; let a ← nat; pure (k, a)) else pure (0, 0)
  kw "OUT"; kw "res"; let res ← tok
  kw "f22"; let f22 ← pFile
  kw "f3"; let f3 ← pFile
  kw "foff"; let foff ← pFile
  let rdr ← if mode = .rd then (do kw "rdr"; let r ← pImplReader; pure (some r)) else pure none
  pure { mode, p, ops, res, f22, f3, foff, cut, rdr }

/-- a direct writer driven by `C H (W|F|H)* X`: (result bits, file, accepted records) -/
def runDirect {ρ} (F : Fmt ρ) (refuseSecondHeader : Bool) (ops : List (Option (Option ρ) × Char)) :
    String × FileSt × List ρ :=
  ops.foldl (fun (acc : String × FileSt × List ρ) op =>
    let (res, f, recs) := acc
    match op.2, op.1 with
    | 'C', _ => (res.push '0', { f with created := true }, recs)
    | 'H', _ =>
      if f.hdr && refuseSecondHeader then (res.push '1', f, recs)
      else (res.push '0', { (f.write F.header) with hdr := true }, recs)
    | 'F', _ => (res, f.flush, recs)
    | 'X', _ => (res, f.close, recs)
    | 'W', some (some r) =>
      if F.accept r then (res.push '0', f.write (F.enc r), recs ++ [r]) else (res.push '1', f, recs)
    | _, _ => (res, f, recs)) ("", {}, [])

/-- does START clear `WritingPaused`: every Set<format> called does (LJH 2.2, LJH3, and OFF since fix 29d6aef) -/
def resetOf (sel : Nat) : Bool := sel % 2 = 1 || sel / 2 % 2 = 1 || sel / 4 % 2 = 1

/-- project the case's ops for one format of the publisher.  `M` (the model set again on the channel) maps to
nothing: the OFF writer keeps the matrices and the number of bases it was created with at START. -/
def projOps {ρ} (conv : Rec → ρ) (bit : Nat) (ops : List POp) : List (Op ρ) :=
  ops.filterMap (fun o => match o with
    | .s sel => some (.start (sel / bit % 2 = 1) (resetOf sel))
    | .p batch => some (.publish (batch.map conv))
    | .f => some .flush
    | .z => some .pause
    | .u => some .unpause
    | .x => some .stop
    | _ => none)

def splitHeader22 (file : Bytes) : Bytes :=
  match parseHeader22 file with
  | some (_, body) => file.take (file.length - body.length)
  | none => []

def splitHeaderJson (file : Bytes) : Bytes :=
  match parseJsonHeader file with
  | some (_, body) => file.take (file.length - body.length)
  | none => []

def fileTag (name : String) (f : Option Bytes) (n : Nat) : List String :=
  match f with
  | none => [name ++ "-absent"]
  | some _ => [name, if n = 0 then name ++ "-empty" else if n ≥ 100 then name ++ "-100+" else name ++ "-records"]

/-- header comparison of model and implementation (field-wise) for the three formats -/
def hdr22Agrees (p : Params) (file : Bytes) : Bool :=
  match parseHeader22 file with
  | some (kvs, _) => kvsMatch (header22 p) kvs
  | none => false

def hdr3Agrees (p : Params) (row col : Int) (file : Bytes) : Bool :=
  match parseJsonHeader file with
  | some (j, _) => jMatch (header3 p row col) j
  | none => false

def hdrOffAgrees (p : Params) (file : Bytes) : Bool :=
  match parseJsonHeader file with
  | some (j, rest) => jMatch (headerOff p) j && rest.take (8 * (p.proj.length + p.bas.length)) == offMatrixBlock p.proj p.bas
  | none => false

def offHeaderLen (p : Params) (file : Bytes) : Bytes :=
  (splitHeaderJson file) ++ offMatrixBlock p.proj p.bas

/-- judge one file: oracle first (the property on the implementation's bytes), then model = implementation -/
def judge {ρ} (name : String) (implFile : Option Bytes) (modelFile : Option Bytes) (hdrLen : Nat)
    (oracle : Bytes → Option String) (hdrAgrees : Bytes → Bool) (nrec : Nat) (_recs : List ρ) : Except Verdict (List String) :=
  match implFile, modelFile with
  | none, none => .ok (fileTag name none 0)
  | some file, some mf =>
    match oracle file with
    | some clause => .error (.viol clause)
    | none =>
      if !hdrAgrees file then .error (.diff (name ++ " header fields differ from the model's header"))
      else if file.drop hdrLen != mf.drop hdrLen || file.length != mf.length then
        .error (.diff (name ++ " body bytes differ from the model's file"))
      else .ok (fileTag name (some file) nrec)
  | some _, none => .error (.viol ("C05:" ++ name ++ "-file-unexpected a file exists although no record was accepted while writing was active and unpaused"))
  | none, some _ => .error (.viol ("C05:" ++ name ++ "-file-missing no file although records were accepted while writing was active and unpaused"))

/-- where the model was re-sent relative to the OFF file's first record, and pauses issued before START -/
def historyTags (ops : List POp) : List String :=
  let r := ops.foldl (fun (acc : Ctl × Bool × List String) o =>
    let (c, t, tags) := acc
    match o with
    | .m _ =>
      if c.phase == .active && c.sel then (c, t, tags ++ [if t then "remodel-after-first" else "remodel-before-first"])
      else (c, t, tags)
    | .p batch => (c, t || (writing c && !batch.isEmpty), tags)
    | .s sel => (ctlStep (ρ := WO) c (.start (sel / 4 % 2 = 1) (resetOf sel)), t,
                 if c.phase == .idle && c.paused then tags ++ [if sel = 4 then "paused-before-start-off-only" else "paused-before-start"] else tags)
    | .z => (ctlStep (ρ := WO) c .pause, t, tags)
    | .u => (ctlStep (ρ := WO) c .unpause, t, tags)
    | .x => (ctlStep (ρ := WO) c .stop, t, tags)
    | _ => (c, t, tags)) (({} : Ctl), false, [])
  -- a re-sent model before the first record only matters when a file followed
  (if r.2.1 then r.2.2 else r.2.2.filter (· != "remodel-before-first")).eraseDups

def opsTags (ops : List POp) : List String :=
  historyTags ops ++
  (if ops.any (fun o => match o with | .f => true | _ => false) then ["flush"] else []) ++
  (if ops.any (fun o => match o with | .z => true | _ => false) then ["pause"] else []) ++
  (if ops.any (fun o => match o with | .u => true | _ => false) then ["unpause"] else [])

def runCase (c : Case) : Verdict :=
  let p := c.p
  match c.mode with
  | .dir22 =>
    let implHdr := (c.f22.map splitHeader22).getD []
    let F := fmt22 p implHdr
    let dops := c.ops.map (fun o => match o with
      | .c => (none, 'C') | .h => (none, 'H') | .f => (none, 'F') | .x => (none, 'X')
      | .w22 r => (some (some r), 'W') | _ => (none, '?'))
    let (res, f, recs) := runDirect F false dops
    match judge "ljh22" c.f22 (some f.disk) implHdr.length (chk22 p recs) (hdr22Agrees p) recs.length recs with
    | .error v => v
    | .ok tags =>
      if res != c.res then .diff s!"WriteRecord results {c.res} differ from the model's {res}"
      else .ok (["dir22"] ++ tags ++ opsTags c.ops ++ (if res.contains '1' then ["rejected"] else []))
  | .rd =>
    -- the uncut file is judged exactly like a `dir22` case; then the real reader's report on the (cut) file
    let implHdr := (c.f22.map splitHeader22).getD []
    let F := fmt22 p implHdr
    let dops := c.ops.map (fun o => match o with
      | .c => (none, 'C') | .h => (none, 'H') | .f => (none, 'F') | .x => (none, 'X')
      | .w22 r => (some (some r), 'W') | _ => (none, '?'))
    let (res, f, recs) := runDirect F false dops
    match judge "ljh22" c.f22 (some f.disk) implHdr.length (chk22 p recs) (hdr22Agrees p) recs.length recs with
    | .error v => v
    | .ok tags =>
      if res != c.res then .diff s!"WriteRecord results {c.res} differ from the model's {res}" else
      match c.f22, c.rdr with
      | some file, some ir =>
        let cutAt := match c.cut with
          | (1, a) => a * file.length / 1000
          | (2, a) => file.length - a
          | _ => file.length
        let cf := file.take cutAt
        let errName (e : RErr) : String := match e with
          | .magic => "magic" | .version => "version" | .noend => "noend"
        match readerParse cf with
        | .error e =>
          if ir.openRes != errName e then .diff s!"OpenReader: real {ir.openRes}, model {errName e}"
          else .ok (["rd", "reader-open-" ++ errName e] ++ tags)
        | .ok o =>
          if ir.openRes != "ok" then .diff s!"OpenReader: real {ir.openRes}, model ok" else
          let fin := match o.fin with | .eof => "eof" | .ueof => "ueof"
          let fOk (tok : Option Bytes) (bits : Nat) : Bool := match tok with
            | some t => nearestDouble t bits
            | none => bits == 0
          if !(ir.ver == o.hdr.version && ir.ws == o.hdr.wordSize && ir.npre == o.hdr.presamples &&
               ir.ns == o.hdr.samples && ir.ch == o.hdr.channel) then
            .diff "reader header fields (version, word size, presamples, samples, channel) differ from the model reader"
          else if !(fOk o.hdr.tsoffTok ir.tso && fOk o.hdr.tbTok ir.tb) then
            .diff "reader timestamp offset / timebase is not a nearest double of the text the model reader scanned"
          else if ir.hl != o.headerLength || ir.rl != o.recordLength then
            .diff s!"reader header/record length {ir.hl}/{ir.rl} differ from the model reader's {o.headerLength}/{o.recordLength}"
          else if ir.pulses != o.pulses then .diff "the pulses NextPulse returned differ from the model reader's"
          else if ir.fin != fin then .diff s!"NextPulse ended with {ir.fin}, the model reader with {fin}"
          else
            let recsize := 16 + 2 * p.nsamp.toNat
            if cutAt == file.length then
              if readerExpect p implHdr.length recs o then .ok (["rd", "reader-exact"] ++ tags)
              else if o.headerLength > implHdr.length then .ok (["rd", "reader-ate-body-bytes"] ++ tags)
              else .diff "the reader (real = model) does not return what the writer wrote, and no CR/LF byte at the start of the body explains it"
            else
              .ok (["rd", "reader-cut-record", "reader-end-" ++ fin] ++
                   (if (cf.length - o.headerLength) % recsize != 0 && o.fin == .eof then ["reader-eof-on-partial-record"] else []) ++
                   (if o.headerLength > implHdr.length then ["reader-ate-body-bytes"] else []) ++ tags)
      | _, _ => .bad "rd case without file or reader report"
  | .dir3 =>
    let implHdr := (c.f3.map splitHeaderJson).getD []
    let F := fmt3 implHdr
    let dops := c.ops.map (fun o => match o with
      | .c => (none, 'C') | .h => (none, 'H') | .f => (none, 'F') | .x => (none, 'X')
      | .w3 r => (some (some r), 'W') | _ => (none, '?'))
    let (res, f, recs) := runDirect F true dops
    match judge "ljh3" c.f3 (some f.disk) implHdr.length (chk3 p (some (p.row, p.col)) recs) (hdr3Agrees p p.row p.col) recs.length recs with
    | .error v => v
    | .ok tags =>
      if res != c.res then .diff s!"WriteRecord results {c.res} differ from the model's {res}"
      else .ok (["dir3"] ++ tags ++ opsTags c.ops ++ (if res.contains '1' then ["rejected"] else []))
  | .diroff =>
    let implHdr := (c.foff.map (offHeaderLen p)).getD []
    let F := fmtOff p implHdr
    let dops := c.ops.map (fun o => match o with
      | .c => (none, 'C') | .h => (none, 'H') | .f => (none, 'F') | .x => (none, 'X')
      | .wo r => (some (some r), 'W') | _ => (none, '?'))
    let (res, f, recs) := runDirect F true dops
    match judge "off" c.foff (some f.disk) implHdr.length (chkOff p recs) (hdrOffAgrees p) recs.length recs with
    | .error v => v
    | .ok tags =>
      if res != c.res then .diff s!"WriteRecord results {c.res} differ from the model's {res}"
      else .ok (["diroff"] ++ tags ++ opsTags c.ops ++ (if res.contains '1' then ["rejected"] else []))
  | mode =>
    -- publisher: three format machines over the same history
    let h22 := (c.f22.map splitHeader22).getD []
    let h3 := (c.f3.map splitHeaderJson).getD []
    let hoff := (c.foff.map (offHeaderLen p)).getD []
    let F22 := fmt22 p h22
    let F3 := fmt3 h3
    let FO := fmtOff p hoff
    let o22 := projOps toW22 1 c.ops
    let o3 := projOps toW3 2 c.ops
    let oo := projOps toWO 4 c.ops
    let s22 := run F22 {} o22
    let s3 := run F3 {} o3
    let so := run FO {} oo
    let a22 := accepted F22 {} o22
    let a3 := accepted F3 {} o3
    let ao := accepted FO {} oo
    -- PublishData's result per publish op: the OFF writer's refusal, when OFF is writing
    let res := (c.ops.foldl (fun (acc : String × Ctl) o =>
      let (s, ctl) := acc
      match o with
      | .p batch =>
        let e := writing ctl && batchErr FO (batch.map toWO)
        (s.push (if e then '1' else '0'), ctl)
      | .s sel => (s, ctlStep (ρ := WO) ctl (.start (sel / 4 % 2 = 1) (resetOf sel)))
      | .z => (s, ctlStep (ρ := WO) ctl .pause)
      | .u => (s, ctlStep (ρ := WO) ctl .unpause)
      | .x => (s, ctlStep (ρ := WO) ctl .stop)
      | _ => (s, ctl)) ("", ({} : Ctl))).1
    let res := if res.isEmpty then "-" else res
    -- SetLJH3 has no row/column parameters: through the publisher alone the LJH3 writer's Row/Column stay 0;
    -- writeControlStart fills them in from the channel's row/column code
    let rc3 : Int × Int := if mode = .wc then (p.row, p.col) else (0, 0)
    let orc3 : Option (Int × Int) := if mode = .wc then some (p.row, p.col) else none
    match judge "ljh22" c.f22 (fileOf s22) h22.length (chk22 p a22) (hdr22Agrees p) a22.length a22 with
    | .error v => v
    | .ok t22 =>
    match judge "ljh3" c.f3 (fileOf s3) h3.length (chk3 p orc3 a3) (hdr3Agrees p rc3.1 rc3.2) a3.length a3 with
    | .error v => v
    | .ok t3 =>
    match judge "off" c.foff (fileOf so) hoff.length (chkOff p ao) (hdrOffAgrees p) ao.length ao with
    | .error v => v
    | .ok toff =>
      if res != c.res then .diff s!"PublishData results {c.res} differ from the model's {res}"
      else .ok ([if mode = .wc then "wc" else "pub"] ++ t22 ++ t3 ++ toff ++ opsTags c.ops ++
                (if res.contains '1' then ["off-refused"] else []))

def runLine (ts : List String) : Verdict :=
  match P.run pCase ts with
  | .error e => .bad e
  | .ok c => runCase c

end DastardV.C05
