/-
C07 — record-atomic, order-preserving file writing under any disk timing.

Model of `asyncbufio.Writer` (bounded channel of byte chunks, non-blocking `Write`, consumer
goroutine `writeLoop`/`flush`, `Flush`/`Close` rendezvous) and of the way the file writers
(`ljh.Writer`, `ljh.Writer3`, `off.Writer`) use it: a record is a list of chunk writes issued in
order, aborted at the first error (`if _, err := w.writer.Write(..); err != nil { return err }`).

A *schedule* is an explicit list of `Op`s: producer actions (`w`, `endRec`, `flush`, `close`) and
consumer actions (`pop n` = the writer goroutine moves chunks from the channel into the
`bufio.Writer`; `sync n` = `bufio` hands `n` buffered bytes to the file) in any interleaving.
`tick` / `tickDone` = the PERIODIC flush of `writeLoop` (ticker branch): `tick` drains the channel
into bufio and enters `bufio.Flush`; until `tickDone` the writer goroutine is busy (the disk may stall
there) while the producer may write, flush or close.  A disk stall is a stretch of the schedule
without `pop`/`sync`/`tickDone`.

Model assumptions (not verified): Go buffered-channel semantics (`select`/`default` send fails iff
the channel holds `cap` elements; FIFO), `bufio.Writer` (bytes leave in order; `Flush` empties it),
one producer goroutine per writer (dastard: the channel's processing goroutine), `cap ≥ 1`.
-/
import DastardV.Proto
namespace DastardV.C07

abbrev Chunk := List Nat

/-- `asyncbufio.Writer` + its `bufio.Writer` + the file. -/
structure Q where
  cap : Nat
  q : List Chunk          -- `datachannel`, oldest first
  buf : List Chunk        -- handed to `bufio` by the writer goroutine, not yet in the file
  file : List Nat         -- the underlying writer's content
  closed : Bool           -- `Close` has returned (writer goroutine gone)
  inTick : Bool           -- the writer goroutine is inside the PERIODIC flush (ticker branch), in `bufio.Flush`
deriving Repr, DecidableEq

def Q.init (cap : Nat) : Q := { cap, q := [], buf := [], file := [], closed := false, inTick := false }

/-- `Writer.Write`: `select { case datachannel <- p: ok; default: io.ErrShortWrite }`.
After `Close` the channel still exists: a write is still "accepted" while there is room (and lost). -/
def Q.write (s : Q) (c : Chunk) : Q × Bool :=
  if s.q.length < s.cap then ({ s with q := s.q ++ [c] }, true) else (s, false)

/-- the writer goroutine receives up to `n` chunks and `bufio.Write`s them; returns how many. -/
def Q.pop (s : Q) (n : Nat) : Q × Nat :=
  if s.closed || s.inTick then (s, 0) else
  ({ s with q := s.q.drop n, buf := s.buf ++ s.q.take n }, min n s.q.length)

/-- `bufio` passes up to `n` buffered bytes on to the file; returns how many. -/
def Q.sync (s : Q) (n : Nat) : Q × Nat :=
  if s.closed || s.inTick then (s, 0) else
  ({ s with file := s.file ++ s.buf.flatten.take n, buf := [s.buf.flatten.drop n] },
   min n s.buf.flatten.length)

/-- `flush()` run to completion while the producer waits: empty the channel, `bufio.Flush`. -/
def Q.drain (s : Q) : Q :=
  { s with file := s.file ++ s.buf.flatten ++ s.q.flatten, buf := [], q := [], inTick := false }

/-- the ticker fires: `case <-ticker.C: aw.flush()` — the drain loop empties the channel into bufio and
`bufio.Flush` is entered.  Until `tickDone` the writer goroutine does nothing else (the disk may stall
here for any time) while the producer keeps writing.  Returns the number of chunks drained. -/
def Q.tick (s : Q) : Q × Nat :=
  if s.closed || s.inTick then (s, 0) else
  ({ s with q := [], buf := s.buf ++ s.q, inTick := true }, s.q.length)

/-- the periodic flush's `bufio.Flush` returns: what bufio held is in the file.  Returns the bytes. -/
def Q.tickDone (s : Q) : Q × Nat :=
  if s.inTick then ({ s with file := s.file ++ s.buf.flatten, buf := [], inTick := false }, s.buf.flatten.length)
  else (s, 0)

/-- everything accepted and not yet lost: file, then bufio, then channel (FIFO order). -/
def Q.stream (s : Q) : List Nat := s.file ++ s.buf.flatten ++ s.q.flatten

/-- One step of a schedule. -/
inductive Op where
  | w (c : Chunk)      -- producer: next `writer.Write(c)` of the current record (skipped once the record has failed)
  | endRec             -- producer: `WriteRecord` returns (nil, or the first error)
  | pop (n : Nat)      -- consumer: n channel receives
  | sync (n : Nat)     -- bufio → file, n bytes
  | tick               -- consumer: the periodic (ticker) flush starts: drain the channel, enter `bufio.Flush`
  | tickDone           -- consumer: the periodic flush's `bufio.Flush` returns (an unstalled tick = `tick, tickDone`)
  | flush              -- producer: `Flush()` (blocks until done)
  | close              -- producer: `Close()`
  | snap               -- observer: look at the file now
deriving Repr, DecidableEq

/-- What one step shows to the outside (the protocol tokens of the case lines). -/
inductive Tok where
  | w (c : Chunk) (ok : Bool)          -- a chunk write was issued; accepted?
  | e (ok : Bool)                      -- the record call returned; nil?
  | R (bytes : List Nat) (ok : Bool)   -- a whole record call whose chunking is not visible (real writers, k>1)
  | p (n : Nat)
  | y (n : Nat)
  | tb (n : Nat)                       -- periodic flush began, n chunks drained from the channel
  | te (n : Nat)                       -- periodic flush done, n bytes reached the file
  | f (qlen : Nat) (delta : List Nat)  -- Flush returned; queue length seen; file bytes since the last look
  | c (qlen : Nat) (delta : List Nat)  -- Close returned
  | z (delta : List Nat)               -- a look at the file
  | fx                                 -- Flush after Close: Go panics (send on closed channel)
  | cx                                 -- Close after Close: Go panics (close of closed channel)
deriving Repr, DecidableEq

structure Sys where
  s : Q
  recOk : Bool       -- no write of the current record has failed yet
  seen : Nat         -- file length at the last look
deriving Repr, DecidableEq

def Sys.init (cap : Nat) : Sys := { s := Q.init cap, recOk := true, seen := 0 }

def step (y : Sys) : Op → Sys × List Tok
  | .w c =>
    if y.recOk then
      ({ y with s := (y.s.write c).1, recOk := (y.s.write c).2 }, [.w c (y.s.write c).2])
    else (y, [])
  | .endRec => ({ y with recOk := true }, [.e y.recOk])
  | .pop n => ({ y with s := (y.s.pop n).1 }, [.p (y.s.pop n).2])
  | .sync n => ({ y with s := (y.s.sync n).1 }, [.y (y.s.sync n).2])
  | .tick => ({ y with s := y.s.tick.1 }, [.tb y.s.tick.2])
  | .tickDone => ({ y with s := y.s.tickDone.1 }, [.te y.s.tickDone.2])
  | .flush =>
    if y.s.closed then (y, [.fx]) else
    ({ y with s := y.s.drain, seen := y.s.drain.file.length }, [.f 0 (y.s.drain.file.drop y.seen)])
  | .close =>
    if y.s.closed then (y, [.cx]) else
    ({ y with s := { y.s.drain with closed := true }, seen := y.s.drain.file.length },
     [.c 0 (y.s.drain.file.drop y.seen)])
  | .snap => ({ y with seen := y.s.file.length }, [.z (y.s.file.drop y.seen)])

def runOps : Sys → List Op → Sys × List Tok
  | y, [] => (y, [])
  | y, o :: os => ((runOps (step y o).1 os).1, (step y o).2 ++ (runOps (step y o).1 os).2)

/-- chunks the writer accepted, in order (ghost stream of `q_fifo`). -/
def accOf (ts : List Tok) : List Chunk :=
  ts.filterMap fun t => match t with | .w c true => some c | _ => none

/-! ### The oracle: the property statement on what can be observed

`whole` = bytes of every record whose call returned nil, in order (the header is the first
record).  At every `Flush`/`Close` return the file must be exactly `whole` (each record fully in
or not at all, in order, nothing missing); at any other look it must be a prefix of `whole`
followed by the record in progress.  Steps after `Close` are outside the statement. -/

inductive Bad where
  | partialRecord      -- at a flush/close return the file is not the accepted records (holds foreign/partial bytes)
  | flushIncomplete    -- at a flush/close return accepted data is missing from the file
  | notPrefix          -- at some moment the file is not a prefix of the accepted data
deriving Repr, DecidableEq

structure OSt where
  whole : List Chunk     -- accepted records
  cur : List Chunk       -- chunks issued for the record in progress
  file : List Chunk      -- file contents seen so far (deltas)
  closed : Bool
deriving Repr, DecidableEq

def OSt.init : OSt := { whole := [], cur := [], file := [], closed := false }

def flushChk (o : OSt) (d : List Nat) (cl : Bool) : Except Bad OSt :=
  let o' := { o with file := o.file ++ [d], closed := cl }
  if o.cur ≠ [] then .ok o'          -- producer is sequential: no flush inside a record call (not judged)
  else if o'.file.flatten = o.whole.flatten then .ok o'
  else if o'.file.flatten.isPrefixOf o.whole.flatten then .error .flushIncomplete
  else .error .partialRecord

def ostep (o : OSt) (t : Tok) : Except Bad OSt :=
  if o.closed then .ok o else
  match t with
  | .w c _ => .ok { o with cur := o.cur ++ [c] }
  | .e ok => .ok { o with whole := if ok then o.whole ++ [o.cur.flatten] else o.whole, cur := [] }
  | .R b ok => .ok { o with whole := if ok then o.whole ++ [b] else o.whole }
  | .f _ d => flushChk o d false
  | .c _ d => flushChk o d true
  | .z d =>
    if (o.file ++ [d]).flatten.isPrefixOf (o.whole ++ o.cur).flatten
    then .ok { o with file := o.file ++ [d] } else .error .notPrefix
  | _ => .ok o

def chkToks : OSt → List Tok → Except Bad OSt
  | o, [] => .ok o
  | o, t :: ts => match ostep o t with
    | .ok o' => chkToks o' ts
    | .error e => .error e

/-- the oracle of the property: `true` = the observation satisfies C07. -/
def chkC07 (ts : List Tok) : Bool := (chkToks OSt.init ts).isOk

/-! ### How `PublishData` / `processSegment` treat the writers' results

`publish_data.go`: the results of `LJH22.WriteRecord` and `LJH3.WriteRecord` are dropped; an error
of `OFF.WriteRecord` is returned, and `processSegment` does `panic(err)`. -/

inductive PubOut where
  | done | crash
deriving Repr, DecidableEq

/-- one record through `PublishData`+`processSegment`; arguments: did each active writer accept it
(`none` = writer not active). -/
def publishOne (ljh22 ljh3 off : Option Bool) : PubOut :=
  match ljh22, ljh3, off with
  | _, _, some false => .crash
  | _, _, _ => .done

/-! ### Driver -/

def opOf : Tok → List Op
  | .w c _ => [.w c]
  | .e _ => [.endRec]
  | .R _ _ => []
  | .p n => [.pop n]
  | .y n => [.sync n]
  | .tb _ => [.tick]
  | .te _ => [.tickDone]
  | .f _ _ => [.flush]
  | .c _ _ => [.close]
  | .z _ => [.snap]
  | .fx => [.flush]
  | .cx => [.close]

/-- byte strings of the C07 lines: `-` (empty), or segments joined by `.`, each plain lowercase hex or
`xx*count` (a run of `count` equal bytes) — long records of constant samples stay short on the line. -/
def segBytes (seg : String) : Option (List Nat) :=
  match seg.splitOn "*" with
  | [h] => P.hexBytesAux h.toList
  | [h, n] =>
    match P.hexBytesAux h.toList, n.toNat? with
    | some [b], some k => some (List.replicate k b)
    | _, _ => none
  | _ => none

def bytesRL : P (List Nat) := do
  let t ← P.tok
  if t == "-" then pure [] else
  let rec go : List String → Option (List (List Nat))
    | [] => some []
    | s :: r => do
      let a ← segBytes s
      let b ← go r
      pure (a :: b)
  match go (t.splitOn ".") with
  | some bs => pure bs.flatten
  | none => P.fail s!"bad bytes {t.take 40}"

open P in
def parseTok : P Tok := do
  let t ← tok
  match t with
  | "w" => do let c ← bytesRL; let ok ← bool; pure (.w c ok)
  | "e" => do let ok ← bool; pure (.e ok)
  | "R" => do let c ← bytesRL; let ok ← bool; pure (.R c ok)
  | "p" => do let n ← nat; pure (.p n)
  | "y" => do let n ← nat; pure (.y n)
  | "tb" => do let n ← nat; pure (.tb n)
  | "te" => do let n ← nat; pure (.te n)
  | "f" => do let q ← nat; let d ← bytesRL; pure (.f q d)
  | "c" => do let q ← nat; let d ← bytesRL; pure (.c q d)
  | "z" => do let d ← bytesRL; pure (.z d)
  | "fx" => pure .fx
  | "cx" => pure .cx
  | _ => fail s!"bad token {t}"

/-- tokens up to the end of the line (fuel = number of remaining strings) -/
def parseToks : Nat → P (List Tok)
  | 0 => pure []
  | fuel + 1 => do
    if (← P.atEnd) then pure [] else
    let t ← parseTok
    let r ← parseToks fuel
    pure (t :: r)

structure Hdr where
  kind : String
  cap : Nat
  wpr : Nat          -- `writer.Write` calls per `WriteRecord`, re-counted from the source by the harness
  hdrw : Nat         -- same for `WriteHeader`
  chk : Bool         -- the records of this line are issued the way the real writers issue them

def parseHdr : P Hdr := do
  let kind ← P.tok
  P.kw "cap"; let cap ← P.nat
  P.kw "wpr"; let wpr ← P.nat
  P.kw "hdrw"; let hdrw ← P.nat
  P.kw "chk"; let chk ← P.bool
  pure { kind, cap, wpr, hdrw, chk }

def splitOut : List String → List String × List String
  | [] => ([], [])
  | "OUT" :: r => ([], r)
  | t :: r => let (a, b) := splitOut r; (t :: a, b)

def site (kind : String) : String := kind.toLower

def badName : Bad → String
  | .partialRecord => "partial-record"
  | .flushIncomplete => "flush-incomplete"
  | .notPrefix => "not-prefix"

def badText : Bad → String
  | .partialRecord => "after Flush/Close returned the file is not header ++ whole accepted records in order (it holds part of a record that was rejected with an error, or foreign bytes)"
  | .flushIncomplete => "data accepted before Flush/Close returned is missing from the file when the call returned"
  | .notPrefix => "the file is not a prefix of the accepted data (order not preserved)"

def firstDiffTok : List Tok → List Tok → Nat → Option Nat
  | [], [], _ => none
  | a :: as, b :: bs, i => if a = b then firstDiffTok as bs (i + 1) else some i
  | _, _, i => some i

def isRej : Tok → Bool | .w _ false => true | _ => false
def isRecRej : Tok → Bool | .e false => true | .R _ false => true | _ => false
def isFlush : Tok → Bool | .f _ _ => true | _ => false
def isClose : Tok → Bool | .c _ _ => true | _ => false
def isMisuse : Tok → Bool | .fx => true | .cx => true | _ => false
def isSync : Tok → Bool | .y _ => true | _ => false
def isTick : Tok → Bool | .tb _ => true | _ => false

/-- a chunk was accepted while a periodic flush was stalled, and the next producer rendezvous after the
periodic flush ended is an explicit Flush (no Write in between) -/
def tickWriteFlush : Nat → List Tok → Bool   -- state: 0 idle, 1 in tick, 2 in tick + write seen, 3 tick over, flush pending
  | _, [] => false
  | _, .tb _ :: r => tickWriteFlush 1 r
  | 1, .w _ true :: r => tickWriteFlush 2 r
  | 2, .te _ :: r => tickWriteFlush 3 r
  | 1, .te _ :: r => tickWriteFlush 0 r
  | 3, .w _ _ :: r => tickWriteFlush 0 r
  | 3, .f _ _ :: _ => true
  | 2, .f _ _ :: _ => true
  | n, _ :: r => tickWriteFlush n r

/-- number of chunks in the longest record of the observation -/
def maxChunks : Nat → Nat → List Tok → Nat
  | m, _, [] => m
  | m, k, .w _ _ :: r => maxChunks (max m (k + 1)) (k + 1) r
  | m, _, .e _ :: r => maxChunks m 0 r
  | m, k, _ :: r => maxChunks m k r

def runQ (h : Hdr) (ins outs : List String) : Verdict :=
  match outs with
  | "PANIC" :: cls => .viol s!"C07:crash-{site h.kind} the real code crashed ({" ".intercalate cls})"
  | "HANG" :: _ => .viol s!"C07:hang-{site h.kind} the real code did not return"
  | _ =>
  match P.run (do P.kw "T"; let _ ← P.nat; parseToks outs.length) outs with
  | .error e => .bad e
  | .ok toks =>
    match (if h.chk then chkToks OSt.init toks else .ok OSt.init) with
    | .error b => .viol s!"C07:{badName b}-{site h.kind} {badText b}"
    | .ok _ =>
      if h.chk && h.wpr != 1 then
        .diff s!"wpr the model of the {h.kind} writer assumes ONE Write per record (C07_whole_records_only needs it); the source now issues {h.wpr}"
      else if toks.any (fun t => match t with | .R _ _ => true | _ => false) then
        .diff "opaque multi-chunk record on a line the model is asked to reproduce"
      else
        let m := (runOps (Sys.init h.cap) (toks.flatMap opOf)).2
        match firstDiffTok m toks 0 with
        | some i => .diff s!"token {i}: model and implementation disagree (accept/reject, pop/sync bookkeeping or file bytes)"
        | none =>
          let tags := [site h.kind] ++
            (if toks.any isRej then ["full"] else []) ++
            (if toks.any isRecRej then ["rejected-record"] else []) ++
            (if toks.any isFlush then ["flush"] else []) ++
            (if toks.any isClose then ["close"] else []) ++
            (if toks.any isMisuse then ["use-after-close"] else []) ++
            (if toks.any isSync then ["partial-sync"] else []) ++
            (if toks.any isTick then ["tick-stall"] else []) ++
            (if toks.any (fun t => match t with | .w c _ => c.length ≥ 65536 | _ => false) then ["write-64k-plus"] else []) ++
            (if toks.any (fun t => match t with | .w c false => c.length ≥ 65536 | _ => false) then ["write-64k-plus-rejected"] else []) ++
            (if ins.any (fun t => t.startsWith "CL:" || t.startsWith "FL:") then ["stalled-seconds-across-close"] else []) ++
            (if tickWriteFlush 0 toks then ["write-in-tick-then-flush"] else []) ++
            (if maxChunks 0 0 toks > 1 then ["multichunk"] else []) ++
            (if h.hdrw > 1 && h.kind != "AB" then ["multichunk-header"] else [])
          .ok tags

/-- `PD` lines: records pushed through the real `processSegment`/`PublishData` with the writers on
stalled pipes.  Input: which writers are active; OUT: `PANIC …` | `D <per writer: T toks>`. -/
def runPD (ins outs : List String) : Verdict :=
  let hasOff := ins.contains "off"
  match outs with
  | "PANIC" :: cls =>
    -- model: the OFF writer rejects a record once its queue is full -> PublishData returns it -> panic
    if hasOff then .viol s!"C07:stall-crash-off a stalled disk filled the OFF write queue; PublishData returned the writer's error and processSegment panicked ({" ".intercalate cls})"
    else .viol s!"C07:crash-pd the real code crashed ({" ".intercalate cls})"
  | "HANG" :: _ => .viol "C07:hang-pd the real code did not return"
  | _ =>
    let p : P (List (String × List Tok)) := do
      P.kw "D"
      P.list (do let k ← P.tok; P.kw "T"; let ts ← P.list parseTok; pure (k, ts))  -- PD: exact counts
    match P.run p outs with
    | .error e => .bad e
    | .ok ws =>
      match ws.findSome? (fun (k, ts) => match chkToks OSt.init ts with | .error b => some (k, b) | .ok _ => none) with
      | some (k, b) => .viol s!"C07:{badName b}-pd-{k} {badText b}"
      | none =>
        if hasOff && ws.any (fun (k, ts) => k == "off" && ts.any isRecRej) then
          .diff "an OFF record was rejected but processSegment did not panic (model of publish_data.go/process_data.go is stale)"
        else .ok (["pd"] ++ (if ws.any (fun (_, ts) => ts.any isRecRej) then ["full", "rejected-record"] else []))

/-- `PUB` lines: the real `DataPublisher` (PublishData / Flush / SetPause / Remove*) with real writers on
regular files; the file is read immediately after every Flush / SetPause / Remove* return.  Judged by the
same oracle per writer: at each of those returns the file = header ++ whole records accepted so far. -/
def runPUB (outs : List String) : Verdict :=
  match outs with
  | "PANIC" :: cls => .viol s!"C07:crash-publisher the real code crashed ({" ".intercalate cls})"
  | "HANG" :: _ => .viol "C07:hang-publisher the real code did not return"
  | _ =>
    let p : P (List (String × List Tok)) := do
      P.kw "D"
      P.list (do let k ← P.tok; P.kw "T"; let ts ← P.list parseTok; pure (k, ts))
    match P.run p outs with
    | .error e => .bad e
    | .ok ws =>
      match ws.findSome? (fun (k, ts) => match chkToks OSt.init ts with | .error b => some (k, b) | .ok _ => none) with
      | some (k, b) => .viol s!"C07:{badName b}-publisher ({k} file, DataPublisher.Flush/SetPause/Remove*) {badText b}"
      | none =>
        let nrec := (ws.map fun (_, ts) => (ts.filter fun t => match t with | .R _ true => true | _ => false).length).foldl max 0
        .ok (["publisher"] ++ (if nrec > 0 then ["publisher-records"] else []))

def runLine (ts : List String) : Verdict :=
  let (ins, outs) := splitOut ts
  match ins with
  | "PD" :: _ => runPD ins outs
  | "PUB" :: _ => runPUB outs
  | _ =>
    match P.run parseHdr ins with
    | .error e => .bad e
    | .ok h => runQ h ins outs

end DastardV.C07
