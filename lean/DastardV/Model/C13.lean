/-
C13 — per-record analysis values (`AnalyzeData`, `SetProjectorsBasis`, `stdDev` in `process_data.go`).

Everything is exact arithmetic over `Rat` (core Lean).  Two layers:

* `Spec.*`   the mathematical DEFINITIONS the property statement names (mean, least-squares slope ×
             span, mean / mean-square / maximum of the baseline-subtracted pulse, `P·x`, population
             variance of `x − B·c`), written as sums over lists, no loops, no accumulators;
* `code*`    the one-pass FORMULAS of the Go code, transcribed loop for loop (running sums, running
             maximum, the `12/(n(n+1))` slope shortcut, `Σy²/N − 2m·Σy/N + m²`, two-pass `stdDev`).

`Props/C13.lean` proves `code* = Spec.*` for all records, lengths and matrices.  IEEE rounding and
gonum's kernels are NOT modelled: the driver converts the implementation's float64 results (bit
patterns) to exact rationals and compares them with the definitions within the tolerances below.
-/
import DastardV.Proto
namespace DastardV.C13

abbrev Q := Rat

def absQ (x : Q) : Q := if x < 0 then -x else x

def maxQ (a b : Q) : Q := if a < b then b else a

def sumQ : List Q → Q
  | [] => 0
  | x :: xs => x + sumQ xs

/-- arithmetic mean (`0/0 = 0` in `Rat`: every use is under a non-empty guard) -/
def meanQ (xs : List Q) : Q := sumQ xs / (xs.length : Q)

/-- `Σ_k f (i+k) y_k` : a sum over a list that also sees the sample index -/
def isum (f : Q → Q → Q) : Nat → List Q → Q
  | _, [] => 0
  | i, y :: ys => f (i : Q) y + isum f (i + 1) ys

/-! ## Samples: `float64(v)` or `float64(int16(v))` -/

/-- the value the code analyses for raw sample `v` (a uint16) -/
def sampleVal (signed : Bool) (v : Nat) : Int :=
  if signed then toInt16 (v : Int) else (v : Int)

def dataVec (signed : Bool) (data : List Nat) : List Q :=
  data.map fun v => ((sampleVal signed v : Int) : Q)

/-! ## Definitions (what the property statement says the values are) -/
namespace Spec

/-- pre-trigger mean -/
def pretrigMean (pre : List Q) : Q := meanQ pre

/-- ordinary least-squares slope of `ys` against the sample index `0,1,…,n−1` -/
def lsSlope (ys : List Q) : Q :=
  let n : Q := (ys.length : Q)
  let xbar := isum (fun i _ => i) 0 ys / n
  let ybar := meanQ ys
  isum (fun i y => (i - xbar) * (y - ybar)) 0 ys / isum (fun i _ => (i - xbar) * (i - xbar)) 0 ys

/-- pre-trigger delta: least-squares slope times the pre-trigger span (first to last sample) -/
def pretrigDelta (pre : List Q) : Q := lsSlope pre * ((pre.length : Q) - 1)

/-- pulse average relative to the pre-trigger mean `m` -/
def pulseAverage (m : Q) (post : List Q) : Q := meanQ (post.map fun y => y - m)

/-- square of the pulse RMS relative to `m` -/
def pulseMeanSquare (m : Q) (post : List Q) : Q := meanQ (post.map fun y => (y - m) * (y - m))

/-- `p` is the peak value relative to `m`: attained by a post-trigger sample, and no sample is higher -/
def IsPeak (m : Q) (post : List Q) (p : Q) : Prop :=
  (∃ y ∈ post, p = y - m) ∧ ∀ y ∈ post, y - m ≤ p

/-- executable form of the peak (`none` when there is no post-trigger sample) -/
def peak (m : Q) : List Q → Option Q
  | [] => none
  | y :: ys => some (ys.foldl maxQ y - m)

/-- inner product `Σ_j a_j b_j` -/
def dot (a b : List Q) : Q := sumQ (List.zipWith (· * ·) a b)

/-- matrix (list of rows) times vector -/
def matVec (M : List (List Q)) (x : List Q) : List Q := M.map fun row => dot row x

/-- model coefficients: projectors × record -/
def coefs (P : List (List Q)) (x : List Q) : List Q := matVec P x

/-- record − basis × coefficients -/
def residual (x : List Q) (B : List (List Q)) (c : List Q) : List Q :=
  List.zipWith (· - ·) x (matVec B c)

/-- population variance `(1/L) Σ (r_i − r̄)²` -/
def popVar (r : List Q) : Q :=
  let mu := meanQ r
  meanQ (r.map fun v => (v - mu) * (v - mu))

/-- square of the residual standard deviation -/
def residVar (P B : List (List Q)) (x : List Q) : Q := popVar (residual x B (coefs P x))

end Spec

/-! ## The code's formulas -/

/-- first loop of `AnalyzeData` over samples `i, i+1, …`: `(val, valPTDelta)` -/
def preLoop (d0 xmean : Q) : Nat → List Q → Q × Q → Q × Q
  | _, [], acc => acc
  | i, y :: ys, (val, ptd) => preLoop d0 xmean (i + 1) ys (val + y, ptd + (y - d0) * ((i : Q) - xmean))

/-- `ptm := val / float64(npre)` -/
def codePtm (pre : List Q) : Q :=
  (preLoop (pre.headD 0) (((pre.length : Q) - 1) * (1 / 2)) 0 pre (0, 0)).1 / (pre.length : Q)

/-- `valPTDelta * 12.0 / float64(npre*(npre+1))` (the code reports NaN when `npre ≤ 1`) -/
def codePtd (pre : List Q) : Option Q :=
  if pre.length ≤ 1 then none else
  some ((preLoop (pre.headD 0) (((pre.length : Q) - 1) * (1 / 2)) 0 pre (0, 0)).2 * 12
        / ((pre.length * (pre.length + 1) : Nat) : Q))

structure PostAcc where
  sum : Q
  sum2 : Q
  mx : Option Q        -- `none` = −∞ (the initial value of the running maximum)
deriving Repr, DecidableEq

def postStep (a : PostAcc) (v : Q) : PostAcc :=
  { sum := a.sum + v, sum2 := a.sum2 + v * v,
    mx := match a.mx with
      | none => some v
      | some m => if v > m then some v else some m }

/-- second loop of `AnalyzeData` (post-trigger samples) -/
def postLoop : List Q → PostAcc → PostAcc
  | [], a => a
  | v :: vs, a => postLoop vs (postStep a v)

/-- `sum/N - ptm` -/
def codeAvg (ptm : Q) (post : List Q) : Q :=
  (postLoop post ⟨0, 0, none⟩).sum / (post.length : Q) - ptm

/-- `meanSquare := sum2/N - 2*ptm*(sum/N) + ptm*ptm`, clamped at 0 before the square root -/
def codeMeanSquareRaw (ptm : Q) (post : List Q) : Q :=
  let a := postLoop post ⟨0, 0, none⟩
  a.sum2 / (post.length : Q) - 2 * ptm * (a.sum / (post.length : Q)) + ptm * ptm

def codeMeanSquare (ptm : Q) (post : List Q) : Q :=
  let ms := codeMeanSquareRaw ptm post
  if ms < 0 then 0 else ms

/-- `max - ptm`, running maximum started at −∞ (`none` only without post-trigger samples) -/
def codePeak (ptm : Q) (post : List Q) : Option Q :=
  (postLoop post ⟨0, 0, none⟩).mx.map (· - ptm)

/-- The formula of the tree before the `fix:` commit: running maximum started at the pre-trigger mean. -/
def codePeakOld (ptm : Q) (post : List Q) : Q :=
  post.foldl (fun mx v => if v > mx then v else mx) ptm - ptm

/-- a dense matrix: `r × c`, as a list of `r` rows of length `c` -/
structure Mat where
  r : Nat
  c : Nat
  rows : List (List Q)
deriving Repr

def Mat.wf (M : Mat) : Prop := M.rows.length = M.r ∧ ∀ row ∈ M.rows, row.length = M.c

/-- `SetProjectorsBasis` accepts exactly these shapes (`nsamp = dsp.NSamples`) -/
def setPBok (nsamp : Nat) (P B : Mat) : Bool :=
  P.c == nsamp && B.c == P.r && B.r == nsamp

/-- inner loop of a matrix-vector product: `acc += a[j]*x[j]` -/
def dotLoop : List Q → List Q → Q → Q
  | a :: as, b :: bs, acc => dotLoop as bs (acc + a * b)
  | _, _, acc => acc

/-- `MulVec` -/
def codeMulVec (M : List (List Q)) (x : List Q) : List Q := M.map fun row => dotLoop row x 0

/-- `SubVec` -/
def codeSubVec : List Q → List Q → List Q
  | a :: as, b :: bs => (a - b) :: codeSubVec as bs
  | _, _ => []

/-- `stdDev` squared (two passes); `none` = NaN for an empty slice -/
def codeStdDevSq (a : List Q) : Option Q :=
  if a.length = 0 then none else
  let s := a.foldl (fun s v => s + v) 0
  let mean := s / (a.length : Q)
  let s2 := a.foldl (fun s2 v => s2 + (v - mean) * (v - mean)) 0
  some (s2 / (a.length : Q))

/-! ## One call of `AnalyzeData` on one record -/

structure Input where
  npre : Nat                   -- rec.presamples: the RECORD's own pre-trigger length
  cfgNpre : Nat                -- dsp.NPresamples: the processor's configured pre-trigger length.  Edge-multi
                               -- variable-length records have `npre < cfgNpre` (and `data.length < nsamp`);
                               -- no analysis value may depend on it (`analyze_record_only`)
  nsamp : Nat                  -- dsp.NSamples (what `SetProjectorsBasis` validates against)
  signed : Bool
  data : List Nat              -- raw uint16 samples
  pb : Option (Mat × Mat)      -- projectors, basis handed to `SetProjectorsBasis` (if any)
deriving Repr

/-- exact results; `ms`, `rvar` are the SQUARES of `pulseRMS`, `residualStdDev` -/
structure Out where
  setErr : Bool                -- `SetProjectorsBasis` returned an error
  ptm : Q
  ptd : Option Q               -- `none` = NaN
  avg : Q
  ms : Q
  peak : Q
  coefs : Option (List Q)      -- `none` = no projectors loaded (fields left untouched)
  rvar : Option Q
deriving Repr

inductive Err where
  | badRecord        -- no samples, presamples = 0 or no post-trigger sample: NaNs / index panic in Go
  | varLenPanic      -- `panic("projections for variable length records not implemented")`
  | nanStd           -- cannot happen for a non-empty record
deriving Repr, DecidableEq

def analyze (inp : Input) : Except Err Out :=
  let x := dataVec inp.signed inp.data
  if inp.npre = 0 ∨ x.length ≤ inp.npre then .error .badRecord else
  let pre := x.take inp.npre
  let post := x.drop inp.npre
  let ptm := codePtm pre
  match codePeak ptm post with
  | none => .error .badRecord
  | some pk =>
    let base : Out := { setErr := false, ptm := ptm, ptd := codePtd pre, avg := codeAvg ptm post,
                        ms := codeMeanSquare ptm post, peak := pk, coefs := none, rvar := none }
    match inp.pb with
    | none => .ok base
    | some (P, B) =>
      if !setPBok inp.nsamp P B then .ok { base with setErr := true } else
      if P.c ≠ x.length then .error .varLenPanic else
      let c := codeMulVec P.rows x
      let full := codeMulVec B.rows c
      let resid := codeSubVec x full
      match codeStdDevSq resid with
      | none => .error .nanStd
      | some v => .ok { base with coefs := some c, rvar := some v }

/-! ## Request histories on one processor

What `SetProjectorsBasis`, `removeProjectorsBasis` and `ConfigurePulseLengths` do to the model a processor
analyses with.  A request that is REFUSED leaves the processor exactly as it was. -/

structure Proc where
  nsamp : Nat
  npre : Nat
  model : Option (Mat × Mat)       -- the last ACCEPTED projectors / basis, if any

inductive Req where
  | load (P B : Mat)               -- SetProjectorsBasis
  | remove                         -- removeProjectorsBasis
  | lengths (nsamp npre : Nat)     -- ConfigurePulseLengths (edge-multi validation aside: never refused here)

/-- one request: the new state and whether the request was refused -/
def Proc.step (p : Proc) : Req → Proc × Bool
  | .load P B => if setPBok p.nsamp P B then ({ p with model := some (P, B) }, false) else (p, true)
  | .remove => ({ p with model := none }, false)
  | .lengths ns np =>
    (if ns = p.nsamp ∧ np = p.npre then p else { nsamp := ns, npre := np, model := none }, false)

def Proc.run (p : Proc) : List Req → Proc
  | [] => p
  | q :: qs => (p.step q).1.run qs

/-- analysis of one record by a processor in state `p` -/
def Proc.analyze (p : Proc) (recNpre : Nat) (signed : Bool) (data : List Nat) : Except Err Out :=
  C13.analyze { npre := recNpre, cfgNpre := p.npre, nsamp := p.nsamp, signed := signed, data := data, pb := p.model }

/-! ## Floating-point values as exact rationals -/

inductive FV where
  | fin (q : Q)
  | nan
  | inf (neg : Bool)
deriving Repr

def pow2 (e : Int) : Q := if e ≥ 0 then ((2 ^ e.toNat : Nat) : Q) else mkRat 1 (2 ^ (-e).toNat)

/-- `m · 2^e` -/
def scale2 (m : Nat) (e : Int) : Q := if e ≥ 0 then ((m * 2 ^ e.toNat : Nat) : Q) else mkRat m (2 ^ (-e).toNat)

/-- the exact value of an IEEE-754 binary64 bit pattern -/
def f64OfBits (b : Nat) : FV :=
  let sign : Nat := b / 2 ^ 63 % 2
  let e : Nat := b / 2 ^ 52 % 2048
  let f : Nat := b % 2 ^ 52
  if e = 2047 then (if f = 0 then .inf (sign = 1) else .nan) else
  let m : Nat := if e = 0 then f else 2 ^ 52 + f
  let ex : Int := (if e = 0 then 1 else (e : Int)) - 1075
  let q : Q := scale2 m ex
  .fin (if sign = 1 then -q else q)

/-- the exact value of an IEEE-754 binary32 bit pattern -/
def f32OfBits (b : Nat) : FV :=
  let sign : Nat := b / 2 ^ 31 % 2
  let e : Nat := b / 2 ^ 23 % 256
  let f : Nat := b % 2 ^ 23
  if e = 255 then (if f = 0 then .inf (sign = 1) else .nan) else
  let m : Nat := if e = 0 then f else 2 ^ 23 + f
  let ex : Int := (if e = 0 then 1 else (e : Int)) - 150
  let q : Q := scale2 m ex
  .fin (if sign = 1 then -q else q)

#guard (match f64OfBits 0x3FF0000000000000 with | .fin q => q == 1 | _ => false)
#guard (match f64OfBits 0xC008000000000000 with | .fin q => q == -3 | _ => false)
#guard (match f64OfBits 0x3FB999999999999A with | .fin q => q == (3602879701896397 : Q) / 36028797018963968 | _ => false)
#guard (match f64OfBits 1 with | .fin q => q == pow2 (-1074) | _ => false)
#guard (match f64OfBits 0x7FF0000000000000 with | .inf false => true | _ => false)
#guard (match f64OfBits 0x7FF8000000000001 with | .nan => true | _ => false)
#guard (match f32OfBits 0x3FC00000 with | .fin q => q == (3 : Q) / 2 | _ => false)

/-! ## Tolerances

`u = 2⁻⁵³` is the unit round-off of binary64.  With 16-bit samples every running sum of the code
(`Σy`, `Σy²`, `Σ(y−y₀)(i−x̄)`) is an exactly representable integer or half-integer as long as
`npre ≤ 2¹⁷` and `N ≤ 2²⁰` (the generator stays below), so the only roundings are the final
divisions, products and subtractions.  Each tolerance is the standard forward error bound of those
few operations with a safety factor of 2–4; quantities that are differences of rounded operands
get an ABSOLUTE tolerance proportional to the operands (that is what "to floating-point accuracy"
can mean for them), never a constant.

* `ptm`   one division:                              `2u·|m|`
* `ptd`   one product, one division:                 `4u·|d|`
* `avg`   `fl(fl(S/N) − fl(m))`:                      `4u·(|S/N| + |m|)`
* `peak`  `fl(max − fl(m))`:                          `4u·(|max| + |m|)`
* `rms²`  `fl(Σy²/N) − fl(2m̂·fl(S/N)) + fl(m̂²)`:        `16u·(Σy²/N + 2|m·S/N| + m²)`, and the square
          root adds a relative `4u` on the reported value's square
* `coef`  a length-`L` inner product in any order:    `2(L+2)u·Σ_j |P_kj x_j|`
* `resid` the rounding of the CORRECT algorithm (`MulVec`, `SubVec`, two-pass `stdDev`), see `residBand`:
          relative `≈ L·u` on the standard deviation plus the (tiny, measured) effect of the legitimately
          rounded coefficients — NOT an absolute tolerance proportional to the residual's mean.  Compared
          as `lo² ≤ var ≤ hi²` (no square root of a rational is ever taken).
-/

def u53 : Q := 1 / ((2 ^ 53 : Nat) : Q)

def within (impl dfn tol : Q) : Bool := absQ (impl - dfn) ≤ tol

def sumAbsProd (a b : List Q) : Q := sumQ (List.zipWith (fun p q => absQ (p * q)) a b)

def maxAbs (xs : List Q) : Q := xs.foldl (fun m v => maxQ m (absQ v)) 0

/-- error bound of one computed coefficient -/
def coefTol (row x : List Q) : Q := 2 * ((x.length : Q) + 2) * u53 * sumAbsProd row x

/-- The band `[lo, hi]` in which the true residual standard deviation `σ = √var` must lie when a CORRECT
float64 implementation (matrix-vector product, subtraction, two-pass `stdDev`) reports `s`.

Notation: `c` exact coefficients `P·x`, `ĉ` the coefficients the implementation reported (already judged
within `coefTol`), `r = x − B·c` the exact residual, `r̂` the computed one, `u = 2⁻⁵³`.

1. *Rounded coefficients.*  `r̃ = x − B·ĉ` differs from `r` by `B·(ĉ − c)`; the standard deviation is a
   seminorm, so `|σ(r̃) − σ(r)| ≤ max_i |Σ_k B_ik (ĉ_k − c_k)| =: D` — computed EXACTLY from the reported
   coefficients (it is of the order of the actual rounding of the coefficients, ~`√L·u·|P||x||B|`).
2. *`MulVec` and `SubVec` on `ĉ`.*  `|r̂_i − r̃_i| ≤ 2(K+2)u·Σ_k|B_ik ĉ_k| + u|r̂_i| ≤ 2(K+3)u·g_i + 2u|x_i|`
   with `g_i = Σ_k|B_ik ĉ_k|`; `E₂ := max_i` of that; again `|σ(r̂) − σ(r̃)| ≤ E₂`.  `A := D + E₂`.
3. *Two-pass `stdDev` of `r̂`.*  The computed mean is off by `|δ| ≤ 2(L+2)u·max|r̂|`; then
   `Σ(r̂_i − mean)² /L = var(r̂) + δ²` — the error of the mean enters only QUADRATICALLY (that is the point of
   the second pass) — and the sums, the division and the square root add a relative `ε = 2(L+6)u`.
   Hence `σ(r̂)(1−ε) ≤ s ≤ √(σ(r̂)² + δ²)·(1+ε)`.

Solving for `σ`:  `σ ≤ s(1+2ε) + A =: hi`  (using `1/(1−ε) ≤ 1+2ε`, `ε ≤ ½`, i.e. `L < 2⁵⁰`), and
`σ ≥ √(s₁² − δ²) − A ≥ s₁ − δ²/s₁ − A =: lo` with `s₁ = s(1−ε) ≤ s/(1+ε)` (`t ↦ t − δ²/t` is increasing).
For a residual with mean 60000 and spread 0.3 over 1000 samples this is a relative tolerance of about
`10⁻⁹` on `σ`; a one-pass `√(<a²> − <a>²)` is off by `10⁻⁵ … 10⁻³` there. -/
def residBand (B : List (List Q)) (x c chat r : List Q) (s : Q) : Q × Q :=
  let K : Q := (c.length : Q)
  let L : Q := (x.length : Q)
  let dc := List.zipWith (fun a b => a - b) chat c
  let D := maxAbs (B.map fun row => Spec.dot row dc)
  let g := B.map fun row => sumAbsProd row chat
  let E2 := maxAbs (List.zipWith (fun gi xi => 2 * (K + 3) * u53 * gi + 2 * u53 * absQ xi) g x)
  let A := D + E2
  let Rm := maxAbs r + A
  let dl := 2 * (L + 2) * u53 * Rm
  let ep := 2 * (L + 6) * u53
  let s1 := s * (1 - ep)
  let lo0 := if s1 ≤ 0 then 0 else s1 - dl * dl / s1 - A
  (if lo0 < 0 then 0 else lo0, s * (1 + 2 * ep) + A)

/-- The exact reference values of the linear-model part, from the DEFINITIONS, with their tolerances. -/
structure MatRef where
  B : List (List Q)
  x : List Q
  c : List Q        -- `Spec.coefs P x`
  ec : List Q       -- per-coefficient tolerance
  r : List Q        -- `Spec.residual x B c`
  rvar : Q          -- `Spec.residVar P B x`
deriving Repr

def mkMatRef (P B : List (List Q)) (x : List Q) : MatRef :=
  let c := Spec.coefs P x
  let ec := P.map fun row => coefTol row x
  let r := Spec.residual x B c
  { B := B, x := x, c := c, ec := ec, r := r, rvar := Spec.popVar r }

/-- the finite values of the reported coefficients -/
def finVals : List FV → List Q
  | [] => []
  | .fin q :: r => q :: finVals r
  | _ :: r => finVals r

/-! ## The implementation's output and the oracle -/

structure ImplOut where
  setErr : Bool
  ptm : FV
  ptd : FV
  avg : FV
  rms : FV
  peak : FV
  coefs : List FV
  rsd : FV
  -- the five float32 header fields of the summary message (ptm, peak, rms, avg, resid) and its
  -- float64 payload, when the harness sent them
  summary : Option (List FV × List Nat)
  coefBits : List Nat
deriving Repr

/-- a reported value must be finite and within `tol` of its definition -/
def chkVal (sig : String) (impl : FV) (dfn tol : Q) : Option String :=
  match impl with
  | .fin q => if within q dfn tol then none
              else some s!"{sig} reported value differs from its definition by more than the rounding tolerance"
  | .nan => some s!"{sig}-nan NaN reported where the definition is finite"
  | .inf _ => some s!"{sig}-inf infinity reported where the definition is finite"

/-- a reported non-negative root `s` of a quantity whose exact square is `v`: `lo² ≤ v ≤ hi²` for the band of `s` -/
def chkRoot (sig : String) (impl : FV) (v : Q) (band : Q → Q × Q) : Option String :=
  match impl with
  | .fin s =>
    let lo := (band s).1
    let hi := (band s).2
    if s ≥ 0 ∧ lo * lo ≤ v ∧ v ≤ hi * hi then none
    else some s!"{sig} reported value differs from its definition by more than the rounding tolerance"
  | .nan => some s!"{sig}-nan NaN reported where the definition is finite"
  | .inf _ => some s!"{sig}-inf infinity reported where the definition is finite"

def firstSome : List (Option String) → Option String
  | [] => none
  | some s :: _ => some s
  | none :: r => firstSome r

/-- Everything the oracle needs, computed from the DEFINITIONS only. -/
structure Ref where
  m : Q
  d : Option Q
  a : Q            -- S/N
  q2 : Q           -- Σy²/N
  ms : Q
  mx : Q           -- max of the post-trigger samples
  deriving Repr

def mkRef (pre post : List Q) : Option Ref :=
  match post with
  | [] => none
  | y :: ys =>
    let m := Spec.pretrigMean pre
    some { m := m, d := if pre.length ≤ 1 then none else some (Spec.pretrigDelta pre),
           a := meanQ post, q2 := meanQ (post.map fun v => v * v),
           ms := Spec.pulseMeanSquare m post, mx := ys.foldl maxQ y }

/-- reference values of the linear-model part, when projectors of a compatible shape are loaded -/
def matRefOf (inp : Input) : Option MatRef :=
  match inp.pb with
  | none => none
  | some (P, B) =>
    if !setPBok inp.nsamp P B ∨ P.c ≠ inp.data.length then none
    else some (mkMatRef P.rows B.rows (dataVec inp.signed inp.data))

/-- The oracle, given the (shared) reference values `mr = matRefOf inp`. -/
def chkC13With (mr : Option MatRef) (inp : Input) (o : ImplOut) : Option String :=
  let x := dataVec inp.signed inp.data
  if inp.npre = 0 ∨ x.length ≤ inp.npre then none else
  let pre := x.take inp.npre
  let post := x.drop inp.npre
  match mkRef pre post with
  | none => none
  | some r =>
    let u := u53
    let scalar := firstSome [
      chkVal "C13:pretrig-mean" o.ptm r.m (2 * u * absQ r.m),
      (match r.d with
       | none => none       -- npre = 1: no slope is defined, nothing is demanded
       | some d => chkVal "C13:pretrig-delta" o.ptd d (4 * u * absQ d)),
      chkVal "C13:pulse-average" o.avg (r.a - r.m) (4 * u * (absQ r.a + absQ r.m)),
      (match o.peak with
       | .fin p => if r.mx - r.m < 0 ∧ p = 0 then
                     some "C13:peak-clamped peak value reported as 0 although every post-trigger sample is below the pre-trigger mean (definition: max(post) - mean < 0)"
                   else chkVal "C13:peak" o.peak (r.mx - r.m) (4 * u * (absQ r.mx + absQ r.m))
       | _ => chkVal "C13:peak" o.peak (r.mx - r.m) (4 * u * (absQ r.mx + absQ r.m))),
      (match o.rms with
       | .fin s => if s ≥ 0 ∧ within (s * s) r.ms (16 * u * (r.q2 + 2 * absQ (r.m * r.a) + r.m * r.m) + 4 * u * (s * s))
                   then none
                   else some "C13:pulse-rms reported value differs from its definition by more than the rounding tolerance"
       | .nan => some "C13:pulse-rms-nan NaN reported where the definition is finite"
       | .inf _ => some "C13:pulse-rms-inf infinity reported where the definition is finite")]
    match scalar with
    | some s => some s
    | none =>
      match mr with
      | none => none
      | some t =>
        if o.coefs.length ≠ t.c.length then
          some "C13:coef-count number of model coefficients differs from the number of projector rows"
        else
          let cc := firstSome (List.zipWith (fun (cv : FV × Q) tol =>
                      chkVal "C13:model-coef" cv.1 cv.2 tol) (o.coefs.zip t.c) t.ec)
          match cc with
          | some s => some s
          | none => chkRoot "C13:resid-stddev" o.rsd t.rvar (residBand t.B t.x t.c (finVals o.coefs) t.r)

/-- The property oracle: the implementation's values against the definitions.
`none` = satisfied; `some "<signature> <detail>"` = violated.  Domain: `1 ≤ npre < len(data)`;
shapes that `SetProjectorsBasis` must reject impose nothing on the analysis values. -/
def chkC13 (inp : Input) (o : ImplOut) : Option String := chkC13With (matRefOf inp) inp o

/-- float32 conversion of a float64 value as it appears in the summary message:
finite ↦ within half a unit in the last place of binary32 (or the subnormal spacing), NaN ↦ NaN. -/
def chkF32 (v64 v32 : FV) : Bool :=
  match v64, v32 with
  | .fin a, .fin b => within b a (absQ a * pow2 (-24) + pow2 (-150))
  | .nan, .nan => true
  | .inf s, .inf t => s == t
  | .fin a, .inf t => absQ a ≥ pow2 127 ∧ (t == (a < 0))      -- overflow of binary32 only
  | _, _ => false

def chkSummary (o : ImplOut) : Option String :=
  match o.summary with
  | none => none
  | some (hdr, payload) =>
    match hdr with
    | [ptm, peak, rms, avg, rsd] =>
      if !(chkF32 o.ptm ptm && chkF32 o.peak peak && chkF32 o.rms rms && chkF32 o.avg avg && chkF32 o.rsd rsd) then
        some "C13:summary-float32 a summary-message header value is not the float32 rounding of the record's analysis value"
      else if payload ≠ o.coefBits then
        some "C13:summary-coefs the summary-message payload is not the record's model coefficients"
      else none
    | _ => some "C13:summary-float32 malformed summary header"

/-! ## Driver -/

def fvEqTol (impl : FV) (model tol : Q) : Bool :=
  match impl with
  | .fin q => within q model tol
  | _ => false

open P in
def parseMat : P Mat := do
  let r ← nat
  let c ← nat
  let mut rows : List (List Q) := []
  for _ in [0:r] do
    let bits ← rep nat c
    let mut row : List Q := []
    for b in bits do
      match f64OfBits b with
      | .fin q => row := q :: row
      | _ => fail "non-finite matrix entry"
    rows := row.reverse :: rows
  pure { r := r, c := c, rows := rows.reverse }

open P in
def parseLine : P (String × Input × ImplOut) := do
  kw "src"; let src ← tok
  kw "npre"; let npre ← nat
  kw "cfgnpre"; let cfgNpre ← nat
  kw "nsamp"; let nsamp ← nat
  kw "signed"; let signed ← bool
  kw "data"; let data ← list nat
  if data.any (· ≥ 65536) then fail "sample out of uint16 range"
  kw "pb"; let has ← nat
  let pb ← if has == 0 then pure none else do
    let Pm ← parseMat
    let Bm ← parseMat
    pure (some (Pm, Bm))
  kw "OUT"
  kw "seterr"; let setErr ← bool
  kw "ptm"; let ptm ← nat
  kw "ptd"; let ptd ← nat
  kw "avg"; let avg ← nat
  kw "rms"; let rms ← nat
  kw "peak"; let peak ← nat
  kw "coefs"; let coefBits ← list nat
  kw "rsd"; let rsd ← nat
  kw "sum"; let hs ← nat
  let summary ← if hs == 0 then pure none else do
    let hdr ← rep nat 5
    let pl ← list nat
    pure (some (hdr.map f32OfBits, pl))
  pure (src, { npre, cfgNpre, nsamp, signed, data, pb },
        { setErr, ptm := f64OfBits ptm, ptd := f64OfBits ptd, avg := f64OfBits avg, rms := f64OfBits rms,
          peak := f64OfBits peak, coefs := coefBits.map f64OfBits, rsd := f64OfBits rsd, summary, coefBits })

def isNaN : FV → Bool
  | .nan => true
  | _ => false

/-- model (the code's formulas, exact) against the implementation, same tolerances as the oracle -/
def cmpModel (mr : Option MatRef) (inp : Input) (m : Out) (o : ImplOut) : Option String :=
  let x := dataVec inp.signed inp.data
  let post := x.drop inp.npre
  let u := u53
  let a := meanQ post
  let q2 := meanQ (post.map fun v => v * v)
  if m.setErr != o.setErr then some "seterr (SetProjectorsBasis accept/reject differs from the shape rule)" else
  if !fvEqTol o.ptm m.ptm (2 * u * absQ m.ptm) then some "ptm" else
  if !(match m.ptd with
       | none => isNaN o.ptd
       | some d => fvEqTol o.ptd d (4 * u * absQ d)) then some "ptd" else
  if !fvEqTol o.avg m.avg (4 * u * (absQ a + absQ m.ptm)) then some "avg" else
  if !fvEqTol o.peak m.peak (4 * u * (absQ (m.peak + m.ptm) + absQ m.ptm)) then some "peak" else
  if !(match o.rms with
       | .fin s => s ≥ 0 ∧ within (s * s) m.ms (16 * u * (q2 + 2 * absQ (m.ptm * a) + m.ptm * m.ptm) + 4 * u * (s * s))
       | _ => false) then some "rms" else
  match m.coefs, m.rvar, mr with
  | some c, some v, some t =>
    if c.length != o.coefs.length then some "coef-count" else
    if !(List.zipWith (fun (cv : FV × Q) tol => fvEqTol cv.1 cv.2 tol) (o.coefs.zip c) t.ec).all id then some "coefs" else
    (match chkRoot "rsd" o.rsd v (residBand t.B t.x t.c (finVals o.coefs) t.r) with
     | none => none
     | some _ => some "rsd")
  | none, none, none =>
    -- no projectors loaded: the code leaves modelCoefs nil and residualStdDev 0
    if o.coefs.length != 0 then some "coefs-present-without-projectors" else
    (match o.rsd with
     | .fin q => if q = 0 then none else some "rsd-nonzero-without-projectors"
     | _ => some "rsd-nonzero-without-projectors")
  | _, _, _ => some "model and reference disagree on whether projectors are loaded"

/-- short form of the `src` token for the evidence tags (`hist:<step>:<kind>:<history>` ↦ `hist:<step>`) -/
def srcTag (src : String) : String := ":".intercalate ((src.splitOn ":").take 2)

/-- A case of a request history that follows a REFUSED `SetProjectorsBasis` request (nothing accepted or removed
in between): its model is the last accepted one (or none), so any disagreement in the linear-model values means the
refused request changed the analysis. -/
def afterRefused (src : String) : Bool := src.startsWith "hist-after-refused:"

def refusedSig : String :=
  "C13:refused-model-changed-analysis after a REFUSED SetProjectorsBasis request the record is not analysed with the last accepted model (history in the src token)"

def runLine (ts : List String) : Verdict :=
  -- a panic inside AnalyzeData (caught by the harness) is an observed output
  match ts, ts.dropWhile (· != "OUT") with
  | "src" :: src :: _, "OUT" :: "PANIC" :: cls =>
    if afterRefused src then .viol s!"{refusedSig}: AnalyzeData panicked ({" ".intercalate cls})"
    else .viol s!"C13:analysis-panic AnalyzeData panicked ({" ".intercalate cls})"
  | _, _ =>
  match P.run parseLine ts with
  | .error e => .bad e
  | .ok (src0, inp, o) =>
    let src := srcTag src0
    let isModelPart (v : String) : Bool :=
      v.startsWith "C13:model-coef" || v.startsWith "C13:coef-count" || v.startsWith "C13:resid-stddev"
    let mr := matRefOf inp
    match chkC13With mr inp o with
    | some v => if afterRefused src0 && isModelPart v then .viol s!"{refusedSig}: {v}" else .viol v
    | none =>
    match chkSummary o with
    | some v => .viol v
    | none =>
    -- nothing is loaded (no request was ever accepted, or the model was removed) and the last request was refused:
    -- the definitions in force say "no model", so reported coefficients / a residual are a violation
    let noModelInForce : Bool := match inp.pb with
      | none => afterRefused src0                       -- history: nothing accepted / removed, last request refused
      | some (P, B) => !setPBok inp.nsamp P B            -- fresh processor whose only request must be refused
    if noModelInForce && (o.coefs.length != 0 || (match o.rsd with | .fin q => q != 0 | _ => true)) then
      .viol s!"{refusedSig}: model coefficients / residual reported although no model is loaded"
    else
    match analyze inp with
    | .error .badRecord =>
      -- presamples = 0 or no post-trigger sample (possible for edge-multi variable-length records): the
      -- definitions do not exist (0/0), the property demands nothing, the code reports NaN
      .ok [s!"src-{src}", "out-of-domain-record"]
    | .error e => .diff s!"model rejects the input ({repr e}) but the implementation returned values"
    | .ok m =>
      match cmpModel mr inp m o with
      | some w => .diff w
      | none =>
        let x := dataVec inp.signed inp.data
        let post := x.drop inp.npre
        let varied := match inp.data with
          | [] => false
          | d :: ds => ds.any (· != d)
        let tags := [s!"src-{src}", if inp.signed then "signed" else "unsigned"] ++
          (if varied then ["varied"] else ["constant"]) ++
          (if inp.signed && inp.data.any (· ≥ 32768) then ["negative-samples"] else []) ++
          (if inp.data.any (fun v => v == 0 || v == 65535 || v == 32767 || v == 32768) then ["full-scale"] else []) ++
          (if m.peak < 0 then ["all-below-baseline"] else []) ++
          (if varied && m.ms * 1000000 < 1 then ["near-constant"] else []) ++
          (if inp.npre ≤ 3 then [s!"npre-{inp.npre}"] else []) ++
          (if inp.npre < inp.cfgNpre then ["npre<configured"] else if inp.npre > inp.cfgNpre then ["npre>configured"] else []) ++
          (if inp.data.length != inp.nsamp then ["len!=configured"] else []) ++
          (if post.length == 1 then ["npost-1"] else []) ++
          (match m.ptd with | none => ["ptd-nan"] | some _ => []) ++
          (match m.coefs with | some c => ["proj", s!"nbases-{c.length}"] | none => []) ++
          (if m.setErr then ["shape-rejected"] else []) ++
          (if afterRefused src0 then ["after-refused-request"] else []) ++
          (match o.summary with | some _ => ["summary-msg"] | none => []) ++
          (if inp.data.length ≥ 1000 then ["len>=1000"] else if inp.data.length ≥ 100 then ["len>=100"] else ["len<100"])
        .ok tags

end DastardV.C13
