/-
Trigger pipeline model shared by C01, C02, C08 (and the record side of C09).
Transcription of `data_source.go` (DataStream.AppendSegment / TrimKeepingN / TimeOf,
PrepareRun, ChangeTriggerState, ConfigurePulseLengths, ProcessSegments),
`process_data.go` (ConfigureTrigger, ConfigurePulseLengths, processSegment),
`triggering.go` (all trigger passes) and `edge_multi_trigger.go`.

Go panics are values: every slice/array access goes through `rd`, `cut`, which return
`none` when Go would panic.  Decimation is unreachable from any API and is not modelled.
-/
import DastardV.Proto
namespace DastardV.Trig

inductive Err where
  | oob (site : String)        -- index / slice bounds out of range (Go run-time panic)
deriving Repr, DecidableEq

/-- EMT record modes -/
inductive EMTMode where
  | twoFull | variable | isolated
deriving Repr, DecidableEq

/-- `EMTState` -/
structure EMT where
  mode : EMTMode := .twoFull
  threshold : Int := 0
  nmonotone : Int := 0
  npre : Int := 0            -- the EMT state's own copy of the record lengths
  nsamp : Int := 0
  enableZT : Bool := false
  sentinel : Bool := false
  next : Int := 0            -- nextFrameIndexToInspect
  t : Int := 0
  u : Int := 0
  v : Int := 0
deriving Repr, DecidableEq

def EMT.reset (s : EMT) : EMT := { s with next := 0, t := 0, u := 0, v := 0, sentinel := false }

def EMT.valid (s : EMT) : Bool :=
  !(s.enableZT && s.npre < 4) && !(s.enableZT && s.nsamp - s.npre < 4) && !(s.nmonotone > s.nsamp - s.npre)

/-- `TriggerState` (auto delay already converted to samples) -/
structure TS where
  auto : Bool := false
  autoDelay : Int := 0        -- int(AutoDelay.Seconds()*SampleRate + 0.5)
  autoVeto : Nat := 0
  level : Bool := false
  levelRising : Bool := false
  levelLevel : Nat := 0
  edge : Bool := false
  edgeRising : Bool := false
  edgeFalling : Bool := false
  edgeLevel : Int := 0
  edgeMulti : Bool := false
deriving Repr, DecidableEq

/-- one `DataStreamProcessor` with its `DataStream` -/
structure Chan where
  npre : Int
  nsamp : Int
  buf : List Nat := []
  first : Int := 0
  t0 : Int := 0               -- ns
  period : Int := 1000000     -- stream.framePeriod (ns); 1 ms initially
  signed : Bool := false
  lastTrig : Int := -2305843009213693952   -- MinInt64/4
  ts : TS := {}
  emt : EMT := {}
deriving Repr, DecidableEq

structure Rec where
  frame : Int
  time : Int
  npre : Int
  data : List Nat
  signed : Bool
deriving Repr, DecidableEq

/-- `raw[i]` for a Go `int` index -/
def rd (raw : List Nat) (i : Int) : Option Nat := if 0 ≤ i then raw[i.toNat]? else none

/-- `raw[a:b]` for Go `int` bounds (panics unless `0 ≤ a ≤ b ≤ len`) -/
def sliceI (raw : List Nat) (a b : Int) : Option (List Nat) :=
  if 0 ≤ a ∧ a ≤ b ∧ b ≤ raw.length then some ((raw.drop a.toNat).take (b.toNat - a.toNat)) else none

/-- `DataStream.AppendSegment` (framesPerSample = 1) -/
def append (c : Chan) (seg : List Nat) (segFirst segT0 segPeriod : Int) (signed : Bool) : Chan :=
  let n : Int := c.buf.length
  { c with period := segPeriod, first := segFirst - n, t0 := segT0 - n * c.period,
           buf := c.buf ++ seg, signed := signed }

/-- `DataStream.TrimKeepingN` with N = `EMTState.NToKeepOnTrim` -/
def trim (c : Chan) : Chan :=
  let keep : Int := 2 * c.emt.nsamp + 10
  let L : Int := c.buf.length
  if keep ≥ L then c else
  -- keep may be negative only if the EMT copy is negative; Go would panic on the slice
  let k := keep.toNat
  { c with buf := c.buf.drop (c.buf.length - k), first := c.first + (L - keep),
           t0 := c.t0 + (L - keep) * c.period }

def timeOf (c : Chan) (i : Int) : Int := c.t0 + i * c.period

/-- `triggerAtSpecificSamples` -/
def cut (c : Chan) (i npre nsamp : Int) : Option Rec :=
  if nsamp < 0 then none else           -- make([]RawType, NSamples) panics for negative length
  match sliceI c.buf (i - npre) (i + nsamp - npre) with
  | some d => some { frame := c.first + i, time := timeOf c i, npre := npre, data := d, signed := c.signed }
  | none => none

/-- the sample as the criteria see it: signed data are shifted up by 2^15 (uint16 wrap) -/
def shifted (signed : Bool) (x : Nat) : Nat := if signed then (x + 32768) % 65536 else x

/-- `firstPotentialTriggerFrame` -/
def fpt (c : Chan) : Int :=
  let n := (c.lastTrig - c.first) + c.nsamp
  if n < c.npre then c.npre else n

/-- `firstPotentialAutoTriggerFrame` -/
def fpta (c : Chan) : Int :=
  let mind := if c.ts.autoDelay > c.nsamp then c.ts.autoDelay else c.nsamp
  let n := (c.lastTrig - c.first) + mind
  if n < c.npre then c.npre else n

/-! ### Edge pass -/

def edgeCrit (c : Chan) (a b cc d : Nat) : Bool :=
  let s := shifted c.signed
  let diff := toInt32 ((s a : Int) + s b - s cc - s d)
  (c.ts.edgeRising && diff ≥ c.ts.edgeLevel) || (c.ts.edgeFalling && diff ≤ -c.ts.edgeLevel)

/-- the edge loop from index `i`; returns trigger indices (ascending) or `none` on a panic -/
def edgeLoop (c : Chan) (hi : Int) (i : Int) (acc : List Int) : Option (List Int) :=
  if i < hi then
    match rd c.buf i, rd c.buf (i - 1), rd c.buf (i - 2), rd c.buf (i - 3) with
    | some a, some b, some cc, some d =>
      if edgeCrit c a b cc d then
        if c.nsamp < 0 then none else
        edgeLoop c hi (i + c.nsamp + 1) (acc ++ [i])
      else edgeLoop c hi (i + 1) acc
    | _, _, _, _ => none
  else some acc
termination_by (hi - i).toNat
decreasing_by all_goals omega

def edgePass (c : Chan) : Option (List Int) :=
  if !c.ts.edge then some [] else
  edgeLoop c ((c.buf.length : Int) + c.npre - c.nsamp) (fpt c) []

/-! ### Level pass -/

def levelCrit (c : Chan) (x xm1 : Nat) : Bool :=
  let thr := if c.signed then (c.ts.levelLevel + 32768) % 65536 else c.ts.levelLevel
  let s := shifted c.signed
  (c.ts.levelRising && s x ≥ thr && s xm1 < thr) || (!c.ts.levelRising && s x ≤ thr && s xm1 > thr)

/-- the level loop; `found` = remaining already-found (edge) trigger indices, ascending -/
def levelLoop (c : Chan) (hi : Int) (i : Int) (found : List Int) (acc : List Int) :
    Option (List Int) :=
  if i < hi then
    match found with
    | nf :: rest =>
      if i + c.nsamp > nf then
        -- skip around the found trigger: continue with i = nf + nsamp
        if c.nsamp ≤ 0 ∧ nf + c.nsamp ≤ i then none   -- no progress: the Go loop would not end (never with nsamp ≥ 1)
        else if nf + c.nsamp ≤ i then levelLoop c hi (i + 1) rest acc
        else levelLoop c hi (nf + c.nsamp) rest acc
      else
        match rd c.buf i, rd c.buf (i - 1) with
        | some x, some y =>
          if levelCrit c x y then levelLoop c hi (i + 1) (nf :: rest) (acc ++ [i])
          else levelLoop c hi (i + 1) (nf :: rest) acc
        | _, _ => none
    | [] =>
      match rd c.buf i, rd c.buf (i - 1) with
      | some x, some y =>
        if levelCrit c x y then levelLoop c hi (i + 1) [] (acc ++ [i])
        else levelLoop c hi (i + 1) [] acc
      | _, _ => none
  else some acc
termination_by ((hi - i).toNat, found.length)
decreasing_by all_goals simp_wf; all_goals omega

/-- merge two ascending index lists (sort.Sort of the records by frame) -/
def insertAsc (x : Int) : List Int → List Int
  | [] => [x]
  | y :: ys => if x ≤ y then x :: y :: ys else y :: insertAsc x ys

def sortAsc : List Int → List Int
  | [] => []
  | x :: xs => insertAsc x (sortAsc xs)

def levelPass (c : Chan) (found : List Int) : Option (List Int) :=
  if !c.ts.level then some found else
  match levelLoop c ((c.buf.length : Int) + c.npre - c.nsamp) (fpt c) found [] with
  | some new => some (sortAsc (found ++ new))
  | none => none

/-! ### Auto pass -/

/-- (max − min) of `rawData[begin:finish]`, as the code computes it (`none` = index panic) -/
def spanOf (raw : List Nat) (b f : Int) : Option Nat :=
  match rd raw b with
  | none => none
  | some x0 =>
    if f ≤ b + 1 then some 0 else
    match sliceI raw (b + 1) f with
    | none => none
    | some xs =>
      let mx := xs.foldl (fun m d => if d > m then d else m) x0
      let mn := xs.foldl (fun m d => if d < m then d else m) x0
      some (mx - mn)

/-- the auto loop.  Terminates because every iteration either consumes a found trigger or advances
`npt` by `delay > 0` towards the loop bound (the Go loop has the same structure). -/
def autoLoop (c : Chan) (ndata : Int) (delay : Int) (hd : 0 < delay) (npt : Int) (found : List Int)
    (acc : List Int) : Option (List Int) :=
  if npt + c.nsamp - c.npre < ndata then
    match found with
    | nf :: rest =>
      if npt + c.nsamp ≤ nf then
        if c.ts.autoVeto > 0 then
          match spanOf c.buf (npt - c.npre) (npt - c.npre + c.nsamp) with
          | none => none
          | some sp =>
            if sp ≥ c.ts.autoVeto then autoLoop c ndata delay hd (npt + delay) (nf :: rest) acc
            else autoLoop c ndata delay hd (npt + delay) (nf :: rest) (acc ++ [npt])
        else autoLoop c ndata delay hd (npt + delay) (nf :: rest) (acc ++ [npt])
      else autoLoop c ndata delay hd (nf + delay) rest acc
    | [] =>
      if c.ts.autoVeto > 0 then
        match spanOf c.buf (npt - c.npre) (npt - c.npre + c.nsamp) with
        | none => none
        | some sp =>
          if sp ≥ c.ts.autoVeto then autoLoop c ndata delay hd (npt + delay) [] acc
          else autoLoop c ndata delay hd (npt + delay) [] (acc ++ [npt])
      else autoLoop c ndata delay hd (npt + delay) [] (acc ++ [npt])
  else some acc
termination_by (found.length, (ndata + c.npre - c.nsamp - npt).toNat)
decreasing_by all_goals simp_wf; all_goals omega

def autoPass (c : Chan) (found : List Int) : Option (List Int) :=
  if !c.ts.auto then some found else
  let delay := if c.ts.autoDelay < c.nsamp then c.nsamp else c.ts.autoDelay
  if hd : delay ≤ 0 then none else   -- the Go loop would not terminate (never with nsamp ≥ 1)
  match autoLoop c c.buf.length delay (by omega) (fpta c) found [] with
  | some new => some (sortAsc (found ++ new))
  | none => none

/-! ### Edge-multi -/

/-- the kink-model refinement is an oracle: `zt pos` ∈ {−1,0,+1} is the shift the real
`zeroThreshold` applies at absolute frame `pos`; it still reads `raw[i−4 .. i+3]`. -/
abbrev ZT := Int → Int

def ztApply (raw : List Nat) (first : Int) (zt : ZT) (enable : Bool) (i : Int) : Option Int :=
  if !enable then some i else
  -- reads raw[i-4] .. raw[i+3]
  match rd raw (i - 4), rd raw (i + 3) with
  | some _, some _ => some (i + zt (first + i))
  | _, _ => none

/-- monotone run length from `i` (the inner `for` of `edgeMultiFindNextTriggerInd`): counts up
from `j` while the samples keep rising (falling) and `j < maxN`. -/
def monoRun (raw : List Nat) (rising : Bool) (i : Int) (maxN : Int) (j : Int) : Option Int :=
  match rd raw (i + j), rd raw (i + j - 1) with
  | some a, some b =>
    let isMono := (rising && a > b) || (!rising && a < b)
    if !isMono || j ≥ maxN then some j else monoRun raw rising i maxN (j + 1)
  | _, _ => none
termination_by (maxN - j).toNat
decreasing_by
  simp only [Bool.or_eq_true, Bool.not_eq_true', decide_eq_true_eq, not_or] at *
  omega

structure Found where
  trig : Int
  found : Bool
  nextI : Int
deriving Repr, DecidableEq

/-- `edgeMultiFindNextTriggerInd` -/
def findNext (raw : List Nat) (first : Int) (zt : ZT) (iFirst iLast thr nmono maxN : Int) (ezt : Bool)
    (i : Int) : Option Found :=
  if i ≤ iLast then
    match rd raw i, rd raw (i - 1) with
    | some a, some b =>
      let rising := thr ≥ 1
      let diff : Int := (a : Int) - b
      if (rising && diff ≥ thr) || (!rising && diff ≤ thr) then
        match monoRun raw rising i maxN 1 with
        | none => none
        | some fm =>
          if fm ≥ nmono then
            match ztApply raw first zt ezt i with
            | some ti => some { trig := ti, found := true, nextI := i + fm + 1 }
            | none => none
          else findNext raw first zt iFirst iLast thr nmono maxN ezt (i + 1)
      else findNext raw first zt iFirst iLast thr nmono maxN ezt (i + 1)
    | _, _ => none
  else some { trig := 0, found := false, nextI := if iLast + 1 ≥ iFirst then iLast + 1 else iFirst }
termination_by (iLast + 1 - i).toNat
decreasing_by all_goals omega

structure Spec where
  frame : Int
  npre : Int
  nsamp : Int
deriving Repr, DecidableEq

def imin (a b : Int) : Int := if a ≤ b then a else b

/-- `edgeMultiShouldRecord` -/
def shouldRecord (t u v npreIn nsampIn : Int) (mode : EMTMode) : Option Spec :=
  let lastNPost := imin (nsampIn - npreIn) (u - t)
  let npre := imin npreIn (u - t - lastNPost)
  let npost := imin (nsampIn - npreIn) (v - u)
  if u = 0 ∨ u = v ∨ u = t then none else
  match mode with
  | .variable => some { frame := u, npre := npre, nsamp := npre + npost }
  | .twoFull => some { frame := u, npre := npreIn, nsamp := nsampIn }
  | .isolated => if npre ≥ npreIn ∧ npre + npost ≥ nsampIn then some { frame := u, npre := npreIn, nsamp := nsampIn } else none

/-- the search loop of `edgeMultiComputeRecordSpecs`.  The progress guard is always true (a
trigger found at `i ≥ iFirst` gives `nextI = i + run + 1` with `1 ≤ run ≤ maxN`, `i ≤ iLast`; proved in
`Lemmas/Emt.lean`); it makes the recursion well founded without a fuel argument. -/
def emtLoop (raw : List Nat) (first : Int) (zt : ZT) (s : EMT) (iLast maxN : Int)
    (iFirst : Int) (t u v : Int) (acc : List Spec) : Option (Int × Int × Int × Int × List Spec) :=
  match findNext raw first zt iFirst iLast s.threshold s.nmonotone maxN s.enableZT iFirst with
  | none => none
  | some x =>
    if !x.found then some (x.nextI, t, u, v, acc) else
    if _h : iFirst < x.nextI ∧ x.nextI ≤ iLast + maxN + 1 then
      let t' := u; let u' := v; let v' := x.trig + first
      let acc' := match shouldRecord t' u' v' s.npre s.nsamp s.mode with
        | some sp => acc ++ [sp]
        | none => acc
      emtLoop raw first zt s iLast maxN x.nextI t' u' v' acc'
    else none
termination_by (iLast + maxN + 2 - iFirst).toNat
decreasing_by omega

/-- `edgeMultiComputeRecordSpecs` -/
def emtSpecs (raw : List Nat) (first : Int) (zt : ZT) (s : EMT) : Option (EMT × List Spec) :=
  let maxLookback := s.npre
  let maxLookahead := s.nsamp - s.npre
  let iFirst0 := s.next - first
  let (s1, iFirst) := if iFirst0 < maxLookback then
      ({ s.reset with sentinel := true }, if s.enableZT then maxLookback + 1 else maxLookback)
    else (s, iFirst0)
  let iLast : Int := (raw.length : Int) - 1 - maxLookahead
  match emtLoop raw first zt s1 iLast maxLookahead iFirst s1.t s1.u s1.v [] with
  | none => none
  | some (iF, t, u, v, specs) =>
    let nfi := iF + first
    let (specs2, u2) :=
      if 0 < v ∧ v < nfi - s1.nsamp then
        (match shouldRecord u v nfi s1.npre s1.nsamp s1.mode with
          | some sp => specs ++ [sp]
          | none => specs, v)
      else (specs, u)
    some ({ s1 with t := t, u := u2, v := v, next := nfi }, specs2)

/-! ### TriggerData and block processing for one channel -/

def cutAll (c : Chan) : List Int → Option (List Rec)
  | [] => some []
  | i :: is => do
    let r ← cut c i c.npre c.nsamp
    let rs ← cutAll c is
    pure (r :: rs)

def cutSpecs (c : Chan) : List Spec → Option (List Rec)
  | [] => some []
  | sp :: sps => do
    let r ← cut c (sp.frame - c.first) sp.npre sp.nsamp
    let rs ← cutSpecs c sps
    pure (r :: rs)

/-- `TriggerData`: returns the channel (LastTrigger / EMT state updated) and the primary records -/
def triggerData (c : Chan) (zt : ZT) : Option (Chan × List Rec) :=
  if c.ts.edgeMulti then
    match emtSpecs c.buf c.first zt c.emt with
    | none => none
    | some (emt', specs) =>
      match cutSpecs c specs with
      | none => none
      | some recs =>
        let lt := match recs.getLast? with | some r => r.frame | none => c.lastTrig
        some ({ c with emt := emt', lastTrig := lt }, recs)
  else
    match edgePass c with
    | none => none
    | some e =>
      -- the records exist as soon as an index is found: cut them pass by pass
      match cutAll c e with
      | none => none
      | some _ =>
      match levelPass c e with
      | none => none
      | some el =>
        match cutAll c el with
        | none => none
        | some _ =>
        match autoPass c el with
        | none => none
        | some all =>
          match cutAll c all with
          | none => none
          | some recs =>
            let lt := match recs.getLast? with | some r => r.frame | none => c.lastTrig
            some ({ c with lastTrig := lt }, recs)

/-- `TriggerDataSecondary` -/
def secondaries (c : Chan) (frames : List Int) : Option (List Rec) :=
  cutAll c (frames.map (· - c.first))

/-! ### Control operations -/

/-- `DataStreamProcessor.ConfigureTrigger`; the Bool = returned an error (nothing changed) -/
def configureTrigger (c : Chan) (ts : TS) (emt : EMT) : Chan × Bool :=
  let e1 := { emt with nsamp := c.nsamp, npre := c.npre }
  if ts.edgeMulti && !e1.valid then (c, true)
  else ({ c with ts := ts, lastTrig := -2305843009213693952, emt := e1.reset }, false)

/-- `DataStreamProcessor.checkPulseLengths` -/
def checkLengths (c : Chan) (nsamp npre : Int) : Bool :=
  c.ts.edgeMulti && !({ c.emt with nsamp := nsamp, npre := npre } : EMT).valid

/-- `DataStreamProcessor.ConfigurePulseLengths` -/
def configureLengths (c : Chan) (nsamp npre : Int) : Chan × Bool :=
  if checkLengths c nsamp npre then (c, true) else
  ({ c with nsamp := nsamp, npre := npre, emt := { c.emt.reset with nsamp := nsamp, npre := npre } }, false)

end DastardV.Trig
