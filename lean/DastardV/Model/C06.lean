/-
C06 — write control.  Transcription of `AnySource.WriteControl` / `writeControlStart` /
`makeDirectory` (data_source.go), `WritingState.Start/Stop` (writing_state.go) and of the
`DataPublisher` methods `SetPause`, `SetLJH22`, `SetLJH3`, `SetOFF`, `Remove*`, `PublishData`
(publish_data.go).

* Requests are byte strings (ASCII); `classify` transcribes the prefix match on the upper-cased
  request and the `"UNPAUSE label"` format rule (which looks at the ORIGINAL string).
* A run directory is `(pid, num)`: `pid` names the base path, `num` the 4-digit counter.
  `dirs` is the set of existing run directories; `makeDirectory` picks the first unused number.
* The data files are an event log `files`: one entry `(key, n)` per batch of `n` records appended
  to file `key = (run, channel, type)`.  `stored files key` = number of records in that file.
  Files are created lazily by the code; a file without records is not distinguished from no file.
* `Chan.elig` is a ghost field: whether the channel had projectors at the last successful START
  (what makes it eligible for OFF output).  No transition reads it.
* I/O failures inside START/STOP are outside the property's quantifier (not modelled).
-/
import DastardV.Proto
namespace DastardV.C06

inductive FT where
  | ljh22 | ljh3 | off
deriving Repr, DecidableEq

structure Run where
  pid : Nat
  num : Nat
deriving Repr, DecidableEq

structure FKey where
  run : Run
  ch : Nat
  ft : FT
deriving Repr, DecidableEq

abbrev Files := List (FKey × Nat)

/-- number of records in file `k` -/
def stored : Files → FKey → Nat
  | [], _ => 0
  | (k', n) :: r, k => (if k' = k then n else 0) + stored r k

/-- per-channel `DataPublisher` state -/
structure Chan where
  paused : Bool          -- WritingPaused
  w22 : Option Run       -- LJH22 writer (the run directory its file belongs to)
  w3 : Option Run        -- LJH3 writer
  woff : Option Run      -- OFF writer
  proj : Bool            -- HasProjectors()
  elig : Bool            -- ghost: had projectors at the last successful START
  nw : Nat               -- numberWritten
deriving Repr, DecidableEq

def Chan.new (proj : Bool) : Chan :=
  { paused := false, w22 := none, w3 := none, woff := none, proj, elig := false, nw := 0 }

def Chan.writer (c : Chan) : FT → Option Run
  | .ljh22 => c.w22
  | .ljh3 => c.w3
  | .off => c.woff

def Chan.hasWriter (c : Chan) : Bool := c.w22.isSome || c.w3.isSome || c.woff.isSome

/-- the source-level `WritingState` (every field here is reported to clients) -/
structure WS where
  active : Bool
  paused : Bool
  base : Option Nat      -- BasePath (`none` = "")
  pat : Option Run       -- FilenamePattern (`none` = "")
  l22 : Bool
  off : Bool
  l3 : Bool
deriving Repr, DecidableEq

def WS.enabled (w : WS) : FT → Bool
  | .ljh22 => w.l22
  | .ljh3 => w.l3
  | .off => w.off

structure St where
  ws : WS
  chans : List Chan
  dirs : List Run
  files : Files
  nums : List Int        -- chanNumbers: the channel number of each channel (fixed once the source runs)
  running : Bool         -- the source runs (a CoreLoop serves requests and blocks)
  blocked : List Nat     -- base paths below which no directory can be made (e.g. below a regular file)
  lens : Int × Int       -- configured record length (samples, presamples): server status = every processor
  startLens : Int × Int  -- ghost: the record length when the last START was accepted (the fixed length of its LJH 2.2 / OFF files)
deriving Repr, DecidableEq

def St.init (proj : List Bool) (pre : List Run) (nums : List Int) (blocked : List Nat := [])
    (lens : Int × Int := (8, 3)) : St :=
  { ws := { active := false, paused := false, base := none, pat := none, l22 := false, off := false, l3 := false },
    chans := proj.map Chan.new, dirs := pre, files := [], nums, running := true, blocked, lens, startLens := lens }

/-! ### Request strings -/

def upper (b : Nat) : Nat := if 97 ≤ b ∧ b ≤ 122 then b - 32 else b

def sPAUSE : List Nat := [80, 65, 85, 83, 69]
def sUNPAUSE : List Nat := [85, 78, 80, 65, 85, 83, 69]
def sSTOP : List Nat := [83, 84, 79, 80]
def sSTART : List Nat := [83, 84, 65, 82, 84]

inductive Kind where
  | pause
  | unpause (label : Option (List Nat))
  | unpauseBad
  | stop
  | start
  | invalid
deriving Repr, DecidableEq

/-- the `switch` of `WriteControl` -/
def classify (req : List Nat) : Kind :=
  let u := req.map upper
  if sPAUSE.isPrefixOf u then .pause
  else if sUNPAUSE.isPrefixOf u then
    if req.length > 7 then
      if req[7]? ≠ some 32 ∨ req.length = 8 then .unpauseBad else .unpause (some (req.drop 8))
    else .unpause none
  else if sSTOP.isPrefixOf u then .stop
  else if sSTART.isPrefixOf u then .start
  else .invalid

/-- the label contains a line break (refused by `SetExperimentStateLabel` since fix 00d4efc) -/
def multiLine (l : List Nat) : Bool := l.any fun b => b == 10 || b == 13

/-- `SetExperimentStateLabel` refuses: no active run, or a label that is not a single line -/
def labelRefused (active : Bool) : Option (List Nat) → Bool
  | none => false
  | some l => !active || multiLine l

/-! ### makeDirectory -/

/-- first `i` in `[i, i+fuel)` such that run directory `(pid, i)` does not exist -/
def firstUnusedFrom (dirs : List Run) (pid : Nat) : Nat → Nat → Option Nat
  | _, 0 => none
  | i, fuel + 1 => if dirs.contains ⟨pid, i⟩ then firstUnusedFrom dirs pid (i + 1) fuel else some i

/-- `makeDirectory`: `none` = "out of 4-digit ID numbers" -/
def makeDirectory (dirs : List Run) (pid : Nat) : Option Nat := firstUnusedFrom dirs pid 0 10000

/-! ### Channel operations -/

def Chan.setPause (c : Chan) (p : Bool) : Chan := { c with paused := p }

/-- `RemoveLJH22; RemoveOFF; RemoveLJH3` -/
def Chan.removeAll (c : Chan) : Chan := { c with w22 := none, w3 := none, woff := none, nw := 0 }

/-- `SetLJH22` -/
def Chan.setLJH22 (c : Chan) (r : Run) : Chan := { c with w22 := some r, paused := false, nw := 0 }
/-- `SetLJH3` -/
def Chan.setLJH3 (c : Chan) (r : Run) : Chan := { c with w3 := some r, paused := false, nw := 0 }
/-- `SetOFF` (resets the pause flag like the other two since fix 29d6aef) -/
def Chan.setOFF (c : Chan) (r : Run) : Chan := { c with woff := some r, paused := false, nw := 0 }

/-- the per-channel body of the loop in `writeControlStart` -/
def Chan.start (c : Chan) (r : Run) (l22 off l3 : Bool) : Chan :=
  let c1 := if l22 then c.setLJH22 r else c
  let c2 := if off && c1.proj then c1.setOFF r else c1
  let c3 := if l3 then c2.setLJH3 r else c2
  { c3 with elig := c3.proj }

def addFor (fs : Files) (c : Chan) (ch n : Nat) (t : FT) : Files :=
  match c.writer t with
  | some r => (⟨r, ch, t⟩, n) :: fs
  | none => fs

/-- `PublishData` of `n` records on channel number `ch` -/
def pubChan (fs : Files) (ch : Nat) (c : Chan) (n : Nat) : Chan × Files :=
  if n = 0 then (c, fs)
  else if c.paused then (c, fs)
  else if !c.hasWriter then (c, fs)
  else ({ c with nw := c.nw + n },
        addFor (addFor (addFor fs c ch n .ljh22) c ch n .ljh3) c ch n .off)

/-- records published on every channel (`ns`: one count per channel, missing = 0) -/
def pubAll : Nat → List Chan → List Nat → Files → List Chan × Files
  | _, [], _, fs => ([], fs)
  | i, c :: cs, ns, fs =>
    let r1 := pubChan fs i c (ns.headD 0)
    let r2 := pubAll (i + 1) cs ns.tail r1.2
    (r1.1 :: r2.1, r2.2)

def setProj : List Chan → Nat → List Chan
  | [], _ => []
  | c :: cs, 0 => { c with proj := true } :: cs
  | c :: cs, i + 1 => c :: setProj cs i

/-! ### Operations -/

inductive Op where
  | req (r : List Nat) (path : Option Nat) (l22 off l3 : Bool) (map : Option Nat)
      -- `map`: number of pixels of the map the server holds when the request arrives (`none`: no map)
  | pub (counts : List Nat)
  | proj (ch : Nat)
  | lens (nsamp npre : Int)   -- the RPC `SourceControl.ConfigurePulseLengths`
  | srcEnd       -- the source ends BY ITSELF (the producer reports an error, CoreLoop returns)
  | srcStart     -- the source is started (again): real `Start`, fresh processors
deriving Repr, DecidableEq

/-- `WritingState.Stop` -/
def WS.stop (w : WS) : WS := { w with active := false, paused := false, pat := none }

/-- `path := ws.BasePath; if len(config.Path) > 0 { path = config.Path }` -/
def pathOr (path base : Option Nat) : Option Nat :=
  match path with
  | some p => some p
  | none => base

/-- the pixel-map validation of `writeControlStart` (channelsPerPixel = 1): the map has one pixel per
channel and every channel number `n` has its pixel `Pixels[n-1]` -/
def mapOk (s : St) : Option Nat → Bool
  | none => true
  | some npix => npix == s.chans.length && s.nums.all fun n => 1 ≤ n && n ≤ npix

/-- the checks of `writeControlStart` and `makeDirectory`: the run directory an accepted START
creates, `none` when the request is refused.  Every check comes before the first change. -/
def startTarget (s : St) (path : Option Nat) (l22 off l3 : Bool) (map : Option Nat) : Option Run :=
  if !(l22 || off || l3) then none                       -- all three file types false
  else if s.chans.any (·.hasWriter) then none            -- writing already in progress
  else if off && !s.chans.any (·.proj) then none         -- OFF requires projectors on some channel
  else if !mapOk s map then none                         -- map error (length, or a channel number without pixel)
  else
    match pathOr path s.ws.base with
    | none => none                                       -- BasePath is the empty string
    | some p =>
      if s.blocked.contains p then none                  -- makeDirectory: MkdirAll fails
      else
      match makeDirectory s.dirs p with
      | none => none                                     -- out of 4-digit numbers
      | some i => some ⟨p, i⟩

/-- `writeControlStart`; the Bool is "returned an error" -/
def startReq (s : St) (path : Option Nat) (l22 off l3 : Bool) (map : Option Nat) : St × Bool :=
  match startTarget s path l22 off l3 map with
  | none => (s, true)
  | some r =>
    ({ s with chans := s.chans.map (·.start r l22 off l3),
              dirs := r :: s.dirs, startLens := s.lens,
              ws := { active := true, paused := false, base := some r.pid, pat := some r, l22, off, l3 } }, false)

/-- a `WriteControl` request that reaches the running source -/
def reqStep (s : St) (r : List Nat) (path : Option Nat) (l22 off l3 : Bool) (map : Option Nat) : St × Bool :=
    match classify r with
    | .pause =>
      ({ s with chans := s.chans.map (·.setPause true), ws := { s.ws with paused := true } }, false)
    | .unpause lbl =>
      if labelRefused s.ws.active lbl then (s, true)    -- SetExperimentStateLabel refuses
      else ({ s with chans := s.chans.map (·.setPause false), ws := { s.ws with paused := false } }, false)
    | .unpauseBad => (s, true)
    | .stop => ({ s with chans := s.chans.map (·.removeAll), ws := s.ws.stop }, false)
    | .start => startReq s path l22 off l3 map
    | .invalid => (s, true)

/-- one step; the Bool is "the request returned an error" -/
def step (s : St) : Op → St × Bool
  | .req r path l22 off l3 map =>
    if s.running then reqStep s r path l22 off l3 map
    else (s, true)                                     -- "no source is active": refused by the RPC layer
  | .pub counts =>
    let r := pubAll 0 s.chans counts s.files
    ({ s with chans := r.1, files := r.2 }, false)
  | .proj ch => ({ s with chans := setProj s.chans ch }, false)
  | .lens n p =>
    -- `SourceControl.ConfigurePulseLengths`, then `AnySource.ConfigurePulseLengths` inside the loop
    if !s.running then (s, true)                       -- no source is active
    else if n ≤ 0 ∨ p ≤ 0 then (s, true)               -- non-positive values
    else if (n, p) = s.lens then (s, false)            -- no change requested
    else if s.ws.active then (s, true)                 -- "stop writing before changing record lengths" (paused or not)
    else if p < 3 ∨ n < p + 1 then (s, true)           -- invalid lengths
    else ({ s with lens := (n, p),                     -- every processor drops its projectors
                   chans := s.chans.map fun c => { c with proj := false } }, false)
  | .srcEnd =>
    -- CoreLoop's deferred clean-up: `if ds.WritingIsActive() { ds.WriteControl(STOP) }`
    if s.running && s.ws.active then
      ({ s with running := false, chans := s.chans.map (·.removeAll), ws := s.ws.stop }, false)
    else ({ s with running := false }, false)
  | .srcStart =>
    -- `Start`: refused unless the source is inactive; `PrepareRun` makes fresh processors
    -- (no writers, no projectors, not paused); the WritingState object lives on
    if s.running then (s, true)
    else ({ s with running := true, chans := s.chans.map fun _ => Chan.new false }, false)

/-! ### Observations -/

def FT.all : List FT := [.ljh22, .ljh3, .off]

/-- number of data files a channel holds open: writers whose file has been created -/
def Chan.openFiles (fs : Files) (ch : Nat) (c : Chan) : Nat :=
  (FT.all.filter fun t => match c.writer t with
    | some r => stored fs ⟨r, ch, t⟩ > 0
    | none => false).length

def openFilesFrom (fs : Files) : Nat → List Chan → Nat
  | _, [] => 0
  | i, c :: cs => c.openFiles fs i + openFilesFrom fs (i + 1) cs

structure Obs where
  ws : WS
  nw : List Nat
  files : Files
  fds : Nat             -- files held open below the output directory
deriving Repr

def obs (s : St) : Obs :=
  { ws := s.ws, nw := s.chans.map (·.nw), files := s.files,
    fds := (if s.ws.active then 1 else 0) + openFilesFrom s.files 0 s.chans }

/-- the model's run: after every op, (error flag, observation) -/
def runModel : St → List Op → List (Bool × Obs)
  | _, [] => []
  | s, o :: os => ((step s o).2, obs (step s o).1) :: runModel (step s o).1 os

def runOps : St → List Op → St
  | s, [] => s
  | s, o :: os => runOps (step s o).1 os

/-! ### The oracle: the property statement, evaluated on observations only -/

/-- records the file `k` must gain when channel number `ch` (OFF-eligible iff `e`) publishes `n` records
while the reported state is `w` -/
def exp1 (w : WS) (e : Bool) (ch n : Nat) (k : FKey) : Nat :=
  if w.active && !w.paused && decide (w.pat = some k.run) && w.enabled k.ft
      && (decide (k.ft ≠ .off) || e) && decide (k.ch = ch) then n else 0

/-- summed over the channels (`es`: OFF eligibility per channel, `ns`: records published per channel) -/
def expAll (w : WS) : Nat → List Bool → List Nat → FKey → Nat
  | _, [], _, _ => 0
  | i, e :: es, ns, k => exp1 w e i (ns.headD 0) k + expAll w (i + 1) es ns.tail k

structure OSt where
  prev : Obs
  elig : List Bool     -- per channel: had projectors at the last accepted START
  proj : List Bool     -- per channel: has projectors now
  dirs : List Run      -- run directories known to exist
  lens : Int × Int     -- configured record length (a change of it drops every channel's projectors)
deriving Repr

inductive Bad where
  | rejectedChanged            -- a rejected request changed the reported state or the files
  | requestTouchedFiles        -- an accepted request changed the number of stored records
  | startNotFresh              -- accepted START: pattern missing, not under the requested path, or an existing directory
  | stopLeftOpen               -- accepted STOP: files still open
  | notStored (k : FKey)       -- fewer records than the reported state demands
  | storedUnexpectedly (k : FKey)  -- more records than the reported state allows
deriving Repr, DecidableEq

def keysOf (fs : Files) : List FKey := fs.map (·.1)

def sameFiles (a b : Files) : Bool :=
  (keysOf a ++ keysOf b).all fun k => stored a k == stored b k

def setTrue : List Bool → Nat → List Bool
  | [], _ => []
  | _ :: bs, 0 => true :: bs
  | b :: bs, i + 1 => b :: setTrue bs i

/-- keys of the current run that may be written: every channel, every type -/
def runKeys (w : WS) (nch : Nat) : List FKey :=
  match w.pat with
  | none => []
  | some r => (List.range nch).flatMap fun ch => FT.all.map fun t => ⟨r, ch, t⟩

def firstBad (before after : Files) (want : FKey → Nat) : List FKey → Option Bad
  | [] => none
  | k :: ks =>
    if stored after k < stored before k + want k then some (.notStored k)
    else if stored after k > stored before k + want k then some (.storedUnexpectedly k)
    else firstBad before after want ks

def chkStep (o : OSt) (op : Op) (err : Bool) (after : Obs) : Except Bad OSt :=
  match op with
  | .req r path _ _ _ _ =>
    if err then
      if after.ws = o.prev.ws ∧ sameFiles o.prev.files after.files then .ok { o with prev := after }
      else .error .rejectedChanged
    else if !sameFiles o.prev.files after.files then .error .requestTouchedFiles
    else match classify r with
      | .start =>
        match after.ws.pat with
        | none => .error .startNotFresh
        | some run =>
          if o.dirs.contains run ∨ some run.pid ≠ pathOr path o.prev.ws.base
          then .error .startNotFresh
          else .ok { o with prev := after, elig := o.proj, dirs := run :: o.dirs }
      | .stop => if after.fds = 0 then .ok { o with prev := after } else .error .stopLeftOpen
      | _ => .ok { o with prev := after }
  | .pub counts =>
    let keys := keysOf o.prev.files ++ keysOf after.files ++ runKeys o.prev.ws o.elig.length
    match firstBad o.prev.files after.files (expAll o.prev.ws 0 o.elig counts) keys with
    | some b => .error b
    | none => .ok { o with prev := after }
  | .proj ch =>
    if sameFiles o.prev.files after.files then .ok { o with prev := after, proj := setTrue o.proj ch }
    else .error .requestTouchedFiles
  | .lens n p =>
    if !sameFiles o.prev.files after.files then .error .requestTouchedFiles
    else if err then
      if after.ws = o.prev.ws then .ok { o with prev := after } else .error .rejectedChanged
    else if (n, p) = o.lens then .ok { o with prev := after }
    else .ok { o with prev := after, proj := o.proj.map fun _ => false, lens := (n, p) }
  | .srcEnd =>
    if sameFiles o.prev.files after.files then .ok { o with prev := after }
    else .error .requestTouchedFiles
  | .srcStart =>
    if !sameFiles o.prev.files after.files then .error .requestTouchedFiles
    else if err then .ok { o with prev := after }
    else .ok { o with prev := after, elig := o.elig.map fun _ => false, proj := o.proj.map fun _ => false }

def chkRun : OSt → List Op → List (Bool × Obs) → Except Bad OSt
  | o, [], _ => .ok o
  | o, _, [] => .ok o
  | o, op :: ops, (e, ob) :: rest =>
    match chkStep o op e ob with
    | .ok o' => chkRun o' ops rest
    | .error b => .error b

def OSt.init (proj : List Bool) (pre : List Run) (lens : Int × Int := (8, 3)) : OSt :=
  { prev := obs (St.init proj pre []), elig := proj.map fun _ => false, proj, dirs := pre, lens }

/-! ### Driver -/

def ftOfNat : Nat → FT
  | 0 => .ljh22
  | 1 => .ljh3
  | _ => .off

def ftName : FT → String
  | .ljh22 => "ljh"
  | .ljh3 => "ljh3"
  | .off => "off"

def keyStr (k : FKey) : String := s!"p{k.run.pid}/run{k.run.num}/chan{k.ch}.{ftName k.ft}"

/-- input op as written by the harness (B carries only the block length: its counts are in the output) -/
inductive InOp where
  | q (r : List Nat) (path : Option Nat) (l22 off l3 : Bool)
  | b
  | d (ch n : Nat)
  | p (ch : Nat)
  | m
  | x
  | r
  | l (nsamp npre : Int)

def optOfInt (i : Int) : Option Nat := if i < 0 then none else some i.toNat

open P in
def parseInOp : P InOp := do
  let t ← tok
  match t with
  | "Q" => do
    let r ← bytes
    let pid ← int
    let a ← bool; let b ← bool; let c ← bool
    pure (.q r (optOfInt pid) a b c)
  | "B" => do let _ ← nat; pure .b
  | "D" => do let ch ← nat; let n ← nat; pure (.d ch n)
  | "P" => do let ch ← nat; pure (.p ch)
  | "M" => do let _ ← int; pure .m
  | "L" => do let n ← int; let p ← int; pure (.l n p)
  | "X" => pure .x
  | "R" => pure .r
  | _ => fail s!"bad op {t}"

/-- what the implementation reported after one op -/
structure ImplRes where
  err : Bool
  counts : List Nat
  ws : WS
  nw : List Nat
  fds : Nat
  delta : List (FKey × Nat)
  map : Option Nat := none     -- Q: pixels of the map the server held when the request arrived
  lens : Int × Int := (0, 0)   -- record length the server reports

def runOfInts (p r : Int) : Option Run :=
  if p = -1 then none else if p < 0 ∨ r < 0 then some ⟨777777, 777777⟩ else some ⟨p.toNat, r.toNat⟩

open P in
def parseRes (op : InOp) : P ImplRes := do
  let t ← tok
  let (err, counts, map) ← (match op, t with
    | .q .., "E" => do let e ← bool; let m ← int; pure (e, ([] : List Nat), optOfInt m)
    | .p .., "E" => do let e ← bool; pure (e, [], none)
    | .b, "R" => do let cs ← list nat; pure (false, cs, none)
    | .d ch n, "-" => pure (false, List.replicate ch 0 ++ [n], none)
    | .m, "-" => pure (false, [], none)
    | .x, "-" => pure (false, [], none)
    | .r, "E" => do let e ← bool; pure (e, [], none)
    | .l .., "E" => do let e ← bool; pure (e, [], none)
    | _, _ => fail s!"bad result {t}" : P (Bool × List Nat × Option Nat))
  kw "S"
  let a ← bool; let p ← bool; let l22 ← bool; let off ← bool; let l3 ← bool
  let base ← int; let pp ← int; let pr ← int
  kw "NW"; let nw ← list nat
  kw "FD"; let fds ← nat
  kw "LEN"; let ln ← int; let lp ← int
  kw "F"
  let delta ← list (do
    let pid ← nat; let run ← nat; let ch ← nat; let ty ← nat; let n ← nat
    pure ((⟨⟨pid, run⟩, ch, ftOfNat ty⟩ : FKey), n))
  pure { err, counts, nw, fds, delta, map, lens := (ln, lp),
         ws := { active := a, paused := p, l22, off, l3,
                 base := if base = -1 then none else if base < 0 then some 777777 else some base.toNat,
                 pat := runOfInts pp pr } }

def applyDelta (fs : Files) (delta : List (FKey × Nat)) : Files :=
  delta ++ fs.filter fun p => !(delta.any fun d => d.1 == p.1)

def modelOp : InOp → ImplRes → Op
  | .q r path a b c, res => .req r path a b c res.map
  | .m, _ => .pub []                       -- loading / unloading a map: no effect on the writing state
  | .b, res => .pub res.counts
  | .d .., res => .pub res.counts
  | .p ch, _ => .proj ch
  | .l n p, _ => .lens n p
  | .x, _ => .srcEnd
  | .r, _ => .srcStart

def badMsg (k : Nat) : Bad → String
  | .rejectedChanged => s!"C06:rejected-not-noop a rejected request (op {k}) changed the reported state or the stored records"
  | .requestTouchedFiles => s!"C06:request-changed-files a request (op {k}) changed the number of stored records"
  | .startNotFresh => s!"C06:start-not-fresh accepted START (op {k}) did not report a new run directory under the requested path"
  | .stopLeftOpen => s!"C06:stop-left-open accepted STOP (op {k}) left files open"
  | .notStored key => s!"C06:not-stored op {k}: reported active and not paused, type enabled, channel eligible, yet records published were not stored in {keyStr key}"
  | .storedUnexpectedly key => s!"C06:stored-unexpectedly op {k}: records stored in {keyStr key} although the reported state does not allow it"

def opTag (op : Op) (err : Bool) : List String :=
  match op with
  | .req r path l22 off l3 map =>
    match classify r, err with
    | .start, false => ["start-ok"] ++ (if off && !l22 && !l3 then ["start-off-only"] else []) ++ (if map.isSome then ["start-with-map"] else [])
    | .start, true => ["start-rejected"] ++ (if map.isSome then ["start-rejected-with-map"] else [])
                        ++ (if path == some 2 then ["start-rejected-blocked-path"] else [])
    | .stop, _ => ["stop"]
    | .pause, _ => ["pause"]
    | .unpause none, _ => ["unpause"]
    | .unpause (some _), false => ["unpause-label"]
    | .unpause (some _), true => ["unpause-label-rejected"]
    | .unpauseBad, _ => ["unpause-malformed"]
    | .invalid, _ => ["invalid-request"]
  | .pub _ => []
  | .proj _ => ["load-projectors"]
  | .lens .. => if err then ["lengths-refused"] else ["lengths-accepted"]
  | .srcEnd => ["source-ended"]
  | .srcStart => if err then ["source-start-refused"] else ["source-restarted"]

def parseAll : List InOp → P (List (InOp × ImplRes))
  | [] => pure []
  | o :: os => do
    let r ← parseRes o
    let rest ← parseAll os
    pure ((o, r) :: rest)

/-- the oracle over a whole history of implementation observations: first violated clause, if any -/
def oracleAll (o : OSt) (implFiles : Files) : List (InOp × ImplRes) → Nat → Option String
  | [], _ => none
  | (iop, res) :: rest, k =>
    let op := modelOp iop res
    let files' := applyDelta implFiles res.delta
    let after : Obs := { ws := res.ws, nw := res.nw, files := files', fds := res.fds }
    match chkStep o op res.err after with
    | .error b => some (badMsg k b)
    | .ok o' => oracleAll o' files' rest (k + 1)

def runLine (ts : List String) : Verdict :=
  let p : P (List Bool × List Run × List Int × List Nat × (Int × Int) × List (InOp × ImplRes)) := do
    P.kw "nch"; let nch ← P.nat
    P.kw "npre"; let npre ← P.int
    P.kw "nsamp"; let nsamp ← P.int
    P.kw "proj"; let proj ← P.rep P.bool nch
    P.kw "nums"; let nums ← P.rep P.int nch
    P.kw "pre"; let pre ← P.list (do let a ← P.nat; let b ← P.nat; pure (⟨a, b⟩ : Run))
    P.kw "blocked"; let blocked ← P.list P.nat
    P.kw "ops"; let ops ← P.list parseInOp
    P.kw "OUT"
    let t ← P.peek
    if t == some "PANIC" || t == some "HANG" then
      let a ← P.tok
      let b ← (do let e ← P.atEnd; if e then pure "" else P.tok)
      P.fail s!"CRASH {a} {b}"
    let n ← P.nat
    if n != ops.length then P.fail "op count mismatch"
    let rs ← parseAll ops
    pure (proj, pre, nums, blocked, (nsamp, npre), rs)
  match P.run p ts with
  | .error e =>
    if e.startsWith "CRASH" then .viol s!"C06:crash the implementation crashed or hung: {e}" else .bad e
  | .ok (proj, pre, nums, blocked, lens, rs) =>
    -- 1. the oracle over the whole history (implementation's observations only)
    match oracleAll (OSt.init proj pre lens) [] rs 0 with
    | some m => .viol m
    | none =>
    -- 2. the model must reproduce every observation
    let rec go (s : St) (implFiles : Files) (rest : List (InOp × ImplRes)) (k : Nat)
        (tags : List String) : Verdict :=
      match rest with
      | [] =>
        let t := tags.eraseDups
        .ok (t ++ (if t.contains "stored" && t.contains "withheld" then ["both"] else []))
      | (iop, res) :: rest' =>
        let op := modelOp iop res
        let files' := applyDelta implFiles res.delta
        let sm := step s op
        let s' := sm.1
        let mo := obs s'
        if sm.2 != res.err then .diff s!"error flag differs at op {k}: model {sm.2} impl {res.err}"
        else if mo.ws != res.ws then .diff s!"reported writing state differs at op {k}"
        else if s'.lens != res.lens then .diff s!"reported record lengths differ at op {k}: model {s'.lens} impl {res.lens}"
        else if mo.nw != res.nw then .diff s!"written counters differ at op {k}: model {mo.nw} impl {res.nw}"
        else if !((keysOf mo.files ++ keysOf files').all fun key => stored mo.files key == stored files' key) then
          .diff s!"stored record counts differ at op {k}"
        else if !s'.ws.active && res.fds != 0 then .diff s!"files open while not active at op {k}"
        else
          let t := match op with
            | .pub counts =>
              if (match iop with | .m => true | _ => false) then ["map-change"]
              else if counts.all (· == 0) then ["publish-empty"]
              else if (keysOf files').any (fun key => stored files' key != stored implFiles key) then
                ["stored"] ++ (if res.ws.off && !res.ws.l22 && !res.ws.l3 then ["stored-off-only"] else [])
              else ["withheld"] ++ (if res.ws.active && res.ws.paused then ["withheld-paused"] else [])
                    ++ (if !res.ws.active then ["withheld-inactive"] else [])
            | _ => opTag op res.err
          go s' files' rest' (k + 1) (tags ++ t)
    go (St.init proj pre nums blocked lens) [] rs 0 []

end DastardV.C06
