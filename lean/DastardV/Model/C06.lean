/- C06: model not built yet (stub so that the per-property driver links). -/
import DastardV.Proto
namespace DastardV.C06

def runLine (_ts : List String) : Verdict := .bad "C06: model not built yet"

end DastardV.C06
