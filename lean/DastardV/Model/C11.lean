/-
C11 — control requests.  The synchronisation skeleton (RPC callers, `runLaterIfActive` rendezvous,
closures run by the core loop) is the transition system of `Model/C10.lean`.  This file adds

* the closure table: for every closure handed to `runLaterIfActive` the list of its acyclic paths,
  each a straight-line program over reply / notify / call (regenerated from rpc_server.go by the
  harness on every run and checked by `chkTable`);
* the argument validators of the request handlers as pure functions `accept | reject | panic`
  (transcribed from data_source.go, group_trigger.go, lancero_source.go, rpc_server.go);
* the acceptance semantics of a request history on a generic source (what the caller is told),
  used to compare the real `SourceControl` methods reply by reply.
-/
import DastardV.Model.C10
namespace DastardV.C11
open DastardV.C10 (Tok Fin Line)

/-! ### Closure table -/

inductive Act where
  | reply | notify | call | unknown
deriving DecidableEq, Repr

structure Closure where
  name : String
  paths : List (List Act)
deriving Repr

def actOfChar : Char → Act
  | 'r' => .reply
  | 'n' => .notify
  | 'c' => .call
  | _ => .unknown

def parsePath (s : String) : List Act := if s == "-" then [] else s.toList.map actOfChar

def replies (p : List Act) : Nat := (p.filter (· == .reply)).length

def pathOk (p : List Act) : Bool := replies p == 1 && !p.contains .unknown

/-- every path of every closure sends exactly one result and uses no construct the reader cannot follow -/
def chkTable (t : List Closure) : Bool := t.all fun c => !c.paths.isEmpty && c.paths.all pathOk

/-! ### Validators -/

inductive V where
  | accept | reject | panic
deriving DecidableEq, Repr

def inRange (n : Nat) (i : Int) : Bool := 0 ≤ i && i < n

/-- `AnySource.ChangeTriggerState`: no indices → error; any index ≥ nchan or < 0 → error -/
def vTrig (nchan : Nat) (idx : List Int) : V :=
  if idx.isEmpty then .reject
  else if idx.any (fun i => i ≥ nchan || i < 0) then .reject
  else .accept

/-- `AnySource.ConfigureProjectorsBases` + `SetProjectorsBasis`: index, then matrix shapes -/
def vProj (nproc : Nat) (nsamp : Int) (idx : Int) (rows cols brows bcols : Int) : V :=
  if idx ≥ nproc || idx < 0 then .reject
  else if nsamp ≠ cols then .reject
  else if bcols ≠ rows then .reject
  else if brows ≠ nsamp then .reject
  else .accept

/-- `AnySource.ConfigurePulseLengths` -/
def vLen (nsamp npre : Int) : V :=
  if npre < 3 || nsamp < 1 || nsamp < npre + 1 then .reject else .accept

/-- `AnySource.ArchiveDataBlock` (sample count of a raw-block request) -/
def vRaw (n : Int) : V := if n < 0 then .reject else .accept

/-- pixel map at `writeControlStart`: map length (= number of pixels of the source, `nchan / channelsPerPixel`), then
every channel number must have a pixel -/
def vPix (nchan : Nat) (nums : List Int) (npix : Nat) : V :=
  if npix ≠ nchan then .reject
  else if nums.any (fun c => c < 1 || c > npix) then .reject
  else .accept

/-- `LanceroSource.ConfigureMixFraction`: one fraction per index; indices in range and odd.  The consumer
then reads `MixFractions[i]` and `Mix[index]` for every position `i`. -/
def vMix (nmix : Nat) (idx : List Int) (nfrac : Nat) : V :=
  if nfrac ≠ idx.length then .reject
  else if idx.any (fun i => i ≥ nmix || i < 0 || i % 2 == 0) then .reject
  else .accept

/-- what the consumer of an accepted mix request indexes: position `i < idx.length` of the fractions, entry `idx[i]` of Mix -/
def mixAccessesOk (nmix : Nat) (idx : List Int) (nfrac : Nat) : Bool :=
  idx.length ≤ nfrac && idx.all (inRange nmix)

/-- `TriggerBroker.AddConnection` / `DeleteConnection` for one pair: accept = table edited (or no-op), reject = error ignored by the caller -/
def vPair (n : Nat) (add : Bool) (s r : Int) : V :=
  if add then
    if s = r then .accept
    else if !inRange n r then .reject
    else if !inRange n s then .reject
    else .accept
  else if !inRange n r then .reject else .accept

/-- the indices a pair edit uses to index the per-receiver tables -/
def pairIndexesOk (n : Nat) (add : Bool) (s r : Int) : Bool :=
  if add then s = r || (inRange n r && inRange n s) else inRange n r

/-- `WriteControl` request strings used by the generator: 0 START 1 STOP 2 PAUSE 3 UNPAUSE 4 "UNPAUSE lbl"
5 "UNPAUSEx" 6 "UNPAUSE " 7 "bogus" 8 "" 9 "start" -/
inductive WReq where
  | start | stop | pause | unpause | unpauseLabel | malformed | other
deriving DecidableEq, Repr

def wreqOf : Nat → WReq
  | 0 | 9 => .start
  | 1 => .stop
  | 2 => .pause
  | 3 => .unpause
  | 4 => .unpauseLabel
  | 5 | 6 => .malformed
  | _ => .other

/-! ### Request histories on a generic source -/

structure RS where
  nchan : Nat
  active : Bool          -- a core loop runs
  flag : Bool            -- `isSourceActive`
  nsamp : Int
  npre : Int
  wActive : Bool
  wPaused : Bool
  basePath : Bool        -- writingState.BasePath is non-empty
  writers : Bool         -- some channel has a file writer
  proj : List Bool       -- channel has projectors
  archive : Option (Int × Int)   -- (requested, collected) samples of the raw block being acquired
  cpp : Nat := 1         -- `channelsPerPixel` of the source kind (2 for Lancero: error and feedback; else 1)
  nums : List Int := []  -- the channels' numbers (`chanNumbers`)
  map : Option Nat := none   -- the map server holds a pixel map of that many pixels
deriving Repr

def RS.init (nchan : Nat) : RS :=
  { nchan, active := true, flag := true, nsamp := 32, npre := 8, wActive := false, wPaused := false,
    basePath := false, writers := false, proj := List.replicate nchan false, archive := none,
    nums := (List.range nchan).map fun (i : Nat) => (i : Int) + 1 }

/-- channels per pixel by source kind: `NewLanceroSource`/`LanceroSource.PrepareChannels` 2, every other source 1 -/
def srcCpp (src : String) : Nat := if src == "lancero" then 2 else 1

/-- channel numbers by source kind, first number `chan0` (ROACH: always 0; Abaco: the channel offset of the packets;
Lancero: `firstRowChanNum`, error and feedback channel of a pixel share the number; simulated sources: 0, as
`AnySource.PrepareChannels` numbers them at Start) -/
def srcNums (src : String) (nchan : Nat) (chan0 : Int) : List Int :=
  if src == "lancero" then (List.range nchan).map fun (i : Nat) => chan0 + ((i / 2 : Nat) : Int)
  else (List.range nchan).map fun (i : Nat) => chan0 + (i : Int)

def RS.initSrc (src : String) (nchan : Nat) (chan0 : Int) : RS :=
  { RS.init nchan with cpp := srcCpp src, nums := srcNums src nchan chan0 }

inductive Req where
  | trig (idx : List Int)
  | len (ns np : Int)
  | proj (idx : Int) (bad : Nat) (rows cols brows bcols : Int)
  | write (req path flags : Nat)
  | label (k : Nat)
  | comment (k : Nat)
  | couple (which : Nat) (b : Bool)
  | group (add : Bool) (flat : List Int)
  | stopCoupling
  | raw (n : Int)
  | loadMap (npix : Nat)
  | block | stop | selfEnd | refresh | start
deriving Repr

/-- reply seen by the caller: 0 ok, 1 error -/
abbrev Ret := Nat

/-- a block of 64 samples reaches the core loop -/
def RS.onBlock (s : RS) : RS :=
  match s.archive with
  | some (n, got) => if got + 64 ≥ n then { s with archive := none } else { s with archive := some (n, got + 64) }
  | none => s

def setAt (l : List Bool) (i : Nat) : List Bool := l.set i true

/-- requests that go through `runLaterIfActive`: error unless the flag is set and a core loop takes the request -/
def queued (s : RS) (k : RS → RS × Ret) : RS × Ret :=
  if !s.flag then (s, 1) else if !s.active then (s, 1) else k s

def reqStep (s : RS) : Req → RS × Ret
  | .trig idx => queued s fun s => (s, if vTrig s.nchan idx == .accept then 0 else 1)
  | .len ns np =>
    if !s.flag then (s, 1)
    else if ns ≤ 0 || np ≤ 0 then (s, 1)
    else if s.npre == np && s.nsamp == ns then (s, 0)
    else if s.wActive then (s, 1)
    else queued s fun s =>
      if vLen ns np == .accept then ({ s with nsamp := ns, npre := np, proj := s.proj.map fun _ => false }, 0) else (s, 1)
  | .proj idx bad rows cols brows bcols =>
    if bad != 0 then (s, 1)
    else queued s fun s =>
      if vProj s.nchan s.nsamp idx rows cols brows bcols == .accept then ({ s with proj := setAt s.proj idx.toNat }, 0) else (s, 1)
  | .write req path flags => queued s fun s =>
    match wreqOf req with
    | .pause => ({ s with wPaused := true }, 0)
    | .unpause => ({ s with wPaused := false }, 0)
    | .unpauseLabel => if s.wActive then ({ s with wPaused := false }, 0) else (s, 1)
    | .malformed => (s, 1)
    | .other => (s, 1)
    | .stop => ({ s with writers := false, wActive := false, wPaused := false }, 0)
    | .start =>
      if flags == 0 then (s, 1)
      else if s.writers then (s, 1)
      else if flags / 2 % 2 == 1 && !s.proj.any id then (s, 1)
      -- a loaded pixel map must fit the source: `nchan / channelsPerPixel` pixels, a pixel for every channel number;
      -- a map error is answered as an error AND unloads the map (`SourceControl.WriteControl`)
      else if s.map.any (fun npix => vPix (s.nchan / s.cpp) s.nums npix == .reject) then ({ s with map := none }, 1)
      else if path == 1 && !s.basePath then (s, 1)
      else if path == 2 then (s, 1)
      else ({ s with writers := true, wActive := true, wPaused := false, basePath := true }, 0)
  | .label k => if k == 0 then (s, 1) else queued s fun s => (s, if s.wActive then 0 else 1)
  | .comment k => if k == 0 then (s, 1) else queued s fun s => (s, 0)
  | .couple _ b => queued s fun s => (s, if b then 1 else 0)
  | .group _ _ => queued s fun s => (s, 0)
  | .stopCoupling => queued s fun s => (s, 0)
  | .raw n => queued s fun s =>
    if s.archive.isSome then (s, 1)
    else if vRaw n == .accept then (({ s with archive := some (n, 0) }).onBlock, 0) else (s, 1)
  | .loadMap npix => ({ s with map := some npix }, 0)     -- the map server's own RPC: not queued, always answered
  | .block => if s.active then (s.onBlock, 0) else (s, 1)
  | .stop =>
    if s.active then ({ s with active := false, flag := false, wActive := false, wPaused := false, writers := false, archive := s.archive }, 0)
    else ({ s with flag := false }, 1)
  | .selfEnd =>
    if s.active then ({ s with active := false, wActive := false, wPaused := false, writers := false }, 0) else (s, 1)
  | .refresh => ({ s with flag := s.flag && s.active }, 0)
  -- `SourceControl.Start` on the same source: refused while it runs; otherwise a new run with the record lengths
  -- the RPC layer has on record (= the lengths of the last ACCEPTED request: a refused one changed nothing),
  -- fresh processors (no projectors, default triggers), nothing being written
  | .start =>
    if s.active then (s, 1)
    else ({ s with active := true, flag := true, proj := s.proj.map fun _ => false, writers := false,
                   wActive := false, wPaused := false }, 0)   -- (a raw-block archive in progress survives: it lives in the source)

def runReqs (s : RS) : List Req → RS × List Ret
  | [] => (s, [])
  | r :: rs =>
    let (s1, x) := reqStep s r
    let (s2, xs) := runReqs s1 rs
    (s2, x :: xs)

/-! ### Whose reply?  The hand-over of results with caller identities

The counters of `Model/C10.lean` say how many callers wait; this refinement names them.  `queuedRequests` and
`queuedResults` are unbuffered: `take` is the rendezvous on the first, `reply` the rendezvous on the second, and the
receiver of a result is ANY caller that is blocked in `<-queuedResults` at that moment. -/

structure HS where
  loop : Option Nat            -- the request (= its caller's id) whose closure is running and has not replied yet
  sending : List Nat           -- callers blocked in `queuedRequests <- f`
  waiting : List Nat           -- callers blocked in `<-queuedResults`
  got : List (Nat × Nat)       -- (caller, the request whose result it received)
deriving Repr, DecidableEq

def HS.init : HS := { loop := none, sending := [], waiting := [], got := [] }

inductive HEv where
  | call (id : Nat)            -- a caller passes the flag test and starts sending its closure
  | take (id : Nat)            -- the core loop receives the closure of `id` in its select and runs it
  | reply (rcv : Nat)          -- the closure's send on `queuedResults` meets the receive of caller `rcv`
deriving Repr, DecidableEq

def hstep (s : HS) : HEv → Option HS
  | .call id => some { s with sending := id :: s.sending }
  | .take id =>
    if s.loop = none ∧ id ∈ s.sending then
      some { s with loop := some id, sending := s.sending.erase id, waiting := id :: s.waiting } else none
  | .reply rcv =>
    match s.loop with
    | some o => if rcv ∈ s.waiting then
        some { s with loop := none, waiting := s.waiting.erase rcv, got := (rcv, o) :: s.got } else none
    | none => none

def hrun (s : HS) : List HEv → Option HS
  | [] => some s
  | e :: es => match hstep s e with
    | some s' => hrun s' es
    | none => none

/-- the same with a one-slot buffer on the result channel: the closure's send completes without a receiver
(`park`), the loop goes on, and a waiting caller later takes whatever is in the slot (`fetch`) -/
structure HB where
  loop : Option Nat
  slot : Option Nat            -- the request whose result sits in the buffer
  sending : List Nat
  waiting : List Nat
  got : List (Nat × Nat)
deriving Repr, DecidableEq

inductive HBEv where
  | call (id : Nat) | take (id : Nat) | park | fetch (rcv : Nat)
deriving Repr, DecidableEq

def hbstep (s : HB) : HBEv → Option HB
  | .call id => some { s with sending := id :: s.sending }
  | .take id =>
    if s.loop = none ∧ id ∈ s.sending then
      some { s with loop := some id, sending := s.sending.erase id, waiting := id :: s.waiting } else none
  | .park =>
    match s.loop, s.slot with
    | some o, none => some { s with loop := none, slot := some o }
    | _, _ => none
  | .fetch rcv =>
    match s.slot with
    | some o => if rcv ∈ s.waiting then
        some { s with slot := none, waiting := s.waiting.erase rcv, got := (rcv, o) :: s.got } else none
    | none => none

def hbrun (s : HB) : List HBEv → Option HB
  | [] => some s
  | e :: es => match hbstep s e with
    | some s' => hbrun s' es
    | none => none

/-! ### Line parser -/

open P in
def parseReq : P Req := do
  let t ← tok
  match t with
  | "T" => do let idx ← list int; pure (.trig idx)
  | "L" => do let a ← int; let b ← int; pure (.len a b)
  | "P" => do
    let idx ← int; let bad ← nat; let r ← int; let c ← int; let br ← int; let bc ← int
    pure (.proj idx bad r c br bc)
  | "W" => do let a ← nat; let b ← nat; let c ← nat; pure (.write a b c)
  | "S" => do let k ← nat; pure (.label k)
  | "C" => do let k ← nat; pure (.comment k)
  | "E" => do let w ← nat; let b ← bool; pure (.couple w b)
  | "G" => do let a ← bool; let fl ← list int; pure (.group a fl)
  | "X" => pure .stopCoupling
  | "R" => do let n ← int; pure (.raw n)
  | "M" => do let n ← nat; pure (.loadMap n)
  | "B" => pure .block
  | "K" => pure .stop
  | "Z" => pure .selfEnd
  | "F" => pure .refresh
  | "A" => pure .start
  | _ => fail s!"bad request {t}"

inductive Kind where
  | facts
  | hist (nchan : Nat) (reqs : List Req)
  | pair (nchan : Nat) (reqs : List Req)
  | hw (src : String) (nchan : Nat) (chan0 : Int) (ending : String) (reqs : List Req)
  | timing
  | commentFail | dropFail | longPath
  | mapPix (nchan npix : Nat)
  | mix (nmix : Nat) (idx : List Int) (nfrac : Nat)

open P in
def parseKind : P Kind := do
  kw "kind"
  let k ← tok
  match k with
  | "facts" => pure .facts
  | "hist" => do
    kw "nchan"; let n ← nat
    kw "ops"; let reqs ← list parseReq
    pure (.hist n reqs)
  | "pair" => do
    kw "nchan"; let n ← nat
    kw "gated"; let _ ← nat
    kw "reqs"; let reqs ← list parseReq
    pure (.pair n reqs)
  | "hw" => do
    kw "src"; let src ← tok
    kw "nchan"; let n ← nat
    kw "chan0"; let c0 ← int
    kw "end"; let e ← tok
    kw "reqs"; let reqs ← list parseReq
    pure (.hw src n c0 e reqs)
  | "timing" => pure .timing
  | "fault" => do
    let f ← tok
    match f with
    | "commentFail" => pure .commentFail
    | "dropFail" => pure .dropFail
    | "longPath" => do kw "len"; let _ ← nat; pure .longPath
    | "mapPix" => do kw "nchan"; let n ← nat; kw "npix"; let p ← nat; pure (.mapPix n p)
    | "mix" => do kw "nmix"; let n ← nat; kw "idx"; let idx ← list int; kw "nfrac"; let f ← nat; pure (.mix n idx f)
    | _ => fail s!"bad fault {f}"
  | _ => fail s!"bad kind {k}"

structure RunOut where
  nums : List Int
  rets : List Nat
  probe : Nat
  toks : List Tok
  calls : List (String × Nat)
  fin : Fin

inductive Out where
  | panic (cls : String)
  | hang
  | facts (t : List Closure)
  | acc (b : Bool)
  | run (r : RunOut)

open P in
def parseRunTail (nums : List Int) (rets : List Nat) (probe : Nat) : P Out := do
  kw "TR"
  let ts ← list tok
  let toks ← ts.mapM fun x => match C10.parseTok x with
    | some k => pure k
    | none => fail s!"bad trace token {x}"
  kw "CALLS"
  let calls ← list (do let r ← tok; let v ← nat; pure (r, v))
  kw "FIN"
  kw "st"; let st ← nat
  kw "go"; let go ← nat
  kw "wr"; let wr ← nat
  kw "res"; let res ← nat
  kw "hang"; let hang ← nat
  pure (.run { nums, rets, probe, toks, calls, fin := { st, go, wr, res, hang } })

open P in
def parseOut : P Out := do
  let t ← tok
  match t with
  | "PANIC" => do let c ← tok; pure (.panic c)
  | "HANG" => pure .hang
  | "facts" => do
    let cs ← list (do
      let name ← tok
      let ps ← list tok
      pure ({ name, paths := ps.map parsePath } : Closure))
    pure (.facts cs)
  | "ACC" => do let b ← bool; pure (.acc b)
  | "NUMS" => do
    let nums ← list int
    kw "RET"; let rets ← list nat
    kw "PROBE"; let p ← nat
    parseRunTail nums rets p
  | "RET" => do
    let rets ← list nat
    kw "PROBE"; let p ← nat
    parseRunTail [] rets p
  | "TR" => fun ts => parseRunTail [] [] 9 ("TR" :: ts)
  | _ => fail s!"bad OUT marker {t}"

open P in
def parseLine : P (Kind × Out) := do
  let k ← parseKind
  C10.skipToOut
  let o ← parseOut
  pure (k, o)

/-! ### Oracle and `runLine` -/

def panicSig (cls : String) : String :=
  if (cls.splitOn "index-range").length > 1 then "C11:panic-index-range"
  else if (cls.splitOn "makeslice").length > 1 then "C11:panic-makeslice"
  else if (cls.splitOn "Panic_to_stop_source").length > 1 then "C11:block-io-failure-panic"
  else if (cls.splitOn "deadlock").length > 1 then "C11:wedge"
  else s!"C11:panic-{cls}"

/-- life-cycle part of a line, judged by the C10 machinery; a request caller that never returns is this
property's wedge -/
def judgeSkeletonOf (kind : String) (opens : Bool) (sched : String) (r : RunOut) : Verdict :=
  let ln : Line := { kind, opens, sched, out := .hang }
  if r.calls.any (fun c => C10.roleLetter c.1 == "R" && c.2 == 2) then
    .viol "C11:wedge a control request never returned (nobody receives the request, or the core loop is blocked on a reply nobody reads)"
  else match C10.judgeRun ln r.toks r.calls r.fin with
    | .viol v =>
      if (v.splitOn "C10:cleanup-overlaps-run").length > 1 then .viol ("C11:effect-outside-loop " ++ v)
      else if (v.splitOn "C10:hang").length > 1 then .viol "C11:wedge a call did not return while requests were being served"
      else .viol v
    | x => x

def judgeSkeleton (sched : String) (r : RunOut) : Verdict := judgeSkeletonOf "loop" false sched r

def chkRets (model impl : List Nat) : Option String :=
  if impl.contains 2 then some "C11:wedge a control request got no reply (watchdog)"
  else none

def runLine (ts : List String) : Verdict :=
  match P.run parseLine ts with
  | .error e => .bad e
  | .ok (kind, out) =>
    match kind, out with
    | _, .hang => .viol "C11:wedge the case did not finish (watchdog)"
    | .facts, .facts t =>
      if t.isEmpty then .viol "C11:closure-table-empty no closure passed to runLaterIfActive was recognised in rpc_server.go"
      else
        -- a path the reader followed completely must send exactly one result; a path with a construct it could not
        -- follow is only wrong for sure when it already sends two
        let definitelyBad := fun (p : List Act) => if p.contains .unknown then replies p ≥ 2 else replies p != 1
        match t.find? (fun c => c.paths.any definitelyBad) with
        | some c =>
          match c.paths.find? definitelyBad with
          | some p => .viol s!"C11:reply-count {c.name}: a path sends {replies p} results on queuedResults (must be exactly 1)"
          | none => .bad "unreachable"
        | none =>
          let unrec := t.filter fun c => c.paths.isEmpty || c.paths.any (·.contains .unknown)
          -- closures the static reader cannot classify are covered by the behavioural tie only (every request type
          -- is exercised on its validation paths and must yield exactly one reply): reported, not alarmed
          if unrec.isEmpty then .ok ["facts", s!"closures{t.length}"]
          else .ok (["facts", s!"closures{t.length}", "static-reader-unrecognised"] ++ unrec.map fun c => s!"unrecognised:{c.name}")
    | .mix nmix idx nfrac, .acc b =>
      let v := vMix nmix idx nfrac
      if b != (v == .accept) then .diff s!"mix request: impl accepted={b} model {repr v}"
      else if b && !mixAccessesOk nmix idx nfrac then .viol "C11:validator-accepts-bad-index an accepted mix request indexes out of range"
      else .ok ["mix", if b then "accepted" else "rejected"]
    | .mix _ _ _, .panic cls => .viol s!"{panicSig cls} the consumer of an accepted Lancero mix request crashed"
    | .dropFail, .panic cls => .viol s!"{panicSig cls} file creation failed while a block was processed: CoreLoop panics deliberately (server exits)"
    | _, .panic cls => .viol s!"{panicSig cls} a control request crashed the server"
    | .timing, .run r => judgeSkeleton "timing" r
    | .hist nchan reqs, .run r =>
      (match chkRets [] r.rets with
      | some v => .viol v
      | none =>
        let (s, model) := runReqs (RS.init nchan) reqs
        if r.rets.length != model.length then .diff s!"history cut short: {r.rets.length} of {model.length} replies"
        else match firstDiff model r.rets 0 with
          | some i =>
            -- a request the semantics refuses (invalid arguments, no source, I/O failure) that the server accepted
            if r.rets.getD i 9 == 0 && model.getD i 9 == 1 then
              .viol s!"C11:invalid-request-accepted request {i} of the history must be answered with an error (invalid arguments / no running source) but was accepted"
            else .diff s!"reply {i}: impl {r.rets.getD i 9} model {model.getD i 9}"
          | none =>
            if r.probe == 1 then .viol "C11:data-stalled the source is active but a block fed after the requests was not processed"
            else if (r.probe != 0) != s.active then .diff s!"source active: impl probe {r.probe} model {s.active}"
            else match judgeSkeleton "hist" r with
              | .ok tags =>
                let rej := (model.zip reqs).any fun (x, q) => x == 1 && (match q with | .block | .stop | .selfEnd | .refresh | .start => false | _ => true)
                .ok ((tags ++ (if rej then ["rejected"] else []) ++ (if !s.flag || !s.active then ["afterEnd"] else [])).eraseDups)
              | v => v)
    | .pair nchan reqs, .run r =>
      -- two callers at once: every caller's reply must be the reply to ITS request
      if r.rets.contains 2 then .viol "C11:wedge a control request got no reply (watchdog)"
      else
        let model := (runReqs (RS.init nchan) reqs).2
        if r.rets.length != model.length then .diff s!"pair history cut short: {r.rets.length} of {model.length} replies"
        else match firstDiff model r.rets 0 with
          | some i =>
            let j := if i % 2 == 0 then i + 1 else i - 1
            if r.rets.getD i 9 == model.getD j 9 && r.rets.getD j 9 == model.getD i 9 then
              .viol s!"C11:reply-not-own request {i} (of two in flight at once) was answered with the other request's result: got {r.rets.getD i 9}, its own closure's result is {model.getD i 9}"
            else .diff s!"pair reply {i}: impl {r.rets.getD i 9} model {model.getD i 9}"
          | none =>
            if r.probe == 1 then .viol "C11:data-stalled the source is active but a block fed after the requests was not processed"
            else match judgeSkeleton "pair" r with
              | .ok tags => .ok ((tags ++ ["pair", "rejected", "gated"]).eraseDups)
              | v => v
    | .hw src nchan chan0 ending reqs, .run r =>
      -- requests served by the core loop of a real source kind (Abaco/Lancero: one assembler goroutine per getNextBlock;
      -- ROACH over UDP; simulated sources), incl. pixel-map histories whose answers depend on the source kind
      if r.rets.contains 2 then .viol "C11:wedge a control request got no reply (watchdog)"
      else
        let model := (runReqs (RS.initSrc src nchan chan0) reqs).2
        if r.rets.length != model.length then .diff s!"hw history cut short: {r.rets.length} of {model.length} replies (probe {r.probe})"
        else if r.nums != srcNums src nchan chan0 then .diff s!"hw source {src}: channel numbers {r.nums}, the model numbers them {srcNums src nchan chan0}"
        else match firstDiff model r.rets 0 with
          | some i =>
            if r.rets.getD i 9 == 0 && model.getD i 9 == 1 then
              .viol s!"C11:invalid-request-accepted request {i} must be answered with an error but was accepted"
            else .diff s!"hw reply {i}: impl {r.rets.getD i 9} model {model.getD i 9}"
          | none =>
            if r.probe == 1 then .viol "C11:data-stalled requests were served but no further block was processed afterwards"
            else match judgeSkeletonOf src (src == "abaco") "hw" r with
              | .ok tags =>
                let mapped := reqs.any fun q => match q with | .loadMap _ => true | _ => false
                let rej := (model.zip reqs).any fun (x, q) => x == 1 && (match q with | .write 0 _ _ => true | _ => false)
                .ok ((tags ++ ["hw", src, "end-" ++ ending, "gated", "request"] ++ (if mapped then ["map"] else [])
                       ++ (if mapped && rej then ["map-refused"] else [])).eraseDups)
              | v => v
    | .commentFail, .run r =>
      if r.rets.contains 2 then .viol "C11:wedge a control request got no reply (watchdog)"
      else if r.probe == 1 then .viol "C11:data-stalled WriteComment with an uncreatable comment file blocked the core loop (second reply nobody reads)"
      else if r.rets != [0, 1] then .diff s!"commentFail replies {r.rets} expected [0, 1]"
      else (match judgeSkeleton "fault" r with
        | .ok tags => .ok (tags ++ ["ioFail", "rejected"])
        | v => v)
    | .longPath, .run r =>
      -- WriteControl START below a base path of `len` characters (r.nums = [len]).  The run directory is
      -- base/YYYYMMDD/NNNN (len + 14), the state file …/YYYYMMDD_runNNNN_experiment_state.txt (len + 52); a path of
      -- more than 4095 characters cannot be created.  What the code does: directory fails → error, nothing changed;
      -- only the state file fails → error, but the writers are installed and the writing state is left Active
      -- (so a second START is refused "already in progress"); both fit → writing starts.
      if r.rets.contains 2 then .viol "C11:wedge a control request got no reply (watchdog)"
      else
        let len := (r.nums.headD 0).toNat
        let want : List Nat :=
          if len + 14 > 4095 then [1, 0, 0]
          else if len + 52 > 4095 then [1, 0, 1]
          else [0, 0, 1]
        if r.rets != want then .diff s!"longPath len {len}: replies {r.rets} model {want}"
        else if r.probe == 1 then .viol "C11:data-stalled a failed WriteControl START stopped block processing"
        else (match judgeSkeleton "fault" r with
          | .ok tags => .ok (tags ++ ["ioFail", "rejected", if len + 14 > 4095 then "dirFails" else if len + 52 > 4095 then "stateFileFails" else "pathFits"])
          | v => v)
    | .dropFail, .run _ => .diff "dropFail: the model predicts the deliberate panic of CoreLoop, the implementation survived"
    | .mapPix nchan npix, .run r =>
      if r.rets.contains 2 then .viol "C11:wedge a control request got no reply (watchdog)"
      else
        let v := vPix nchan r.nums npix
        let want := if v == .accept then 0 else 1
        if r.rets != [want] then .diff s!"mapPix reply {r.rets} model {want}"
        else if r.probe == 1 then .viol "C11:data-stalled"
        else (match judgeSkeleton "fault" r with
          | .ok tags => .ok (tags ++ ["mapPix"] ++ (if want == 1 then ["rejected"] else []))
          | v => v)
    | _, _ => .bad "kind and output do not match"

end DastardV.C11
