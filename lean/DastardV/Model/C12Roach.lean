/-
The ROACH device (roach.go): `parsePacket` and the block assembly of `RoachDevice.readPackets` — the
datagrams of one 100 ms bundle become one data block: per channel the de-interleaved samples of all packets,
run through that channel's unwrapper (state carried from block to block), first frame index = the sample
number of the bundle's first packet.
-/
import DastardV.Model.C12
namespace DastardV.Roach
open C12

structure Hdr where
  nchan : Nat
  nsamp : Nat
  flags : Nat
  sampnum : Nat
deriving Repr, DecidableEq

def be16 (a b : Nat) : Nat := a * 256 + b

def beNat : List Nat → Nat
  | [] => 0
  | b :: bs => b * 256 ^ bs.length + beNat bs

/-- big-endian 16-bit words of a byte string (`binary.Read` into `[]RawType`) -/
def words16 : Nat → List Nat → List Nat
  | 0, _ => []
  | n + 1, a :: b :: r => be16 a b :: words16 n r
  | _ + 1, _ => []

def everyOther : List Nat → List Nat
  | a :: _ :: r => a :: everyOther r
  | _ => []

/-- the 16384-byte receive buffer holding the datagram (a longer datagram is cut) -/
def bufOf (dg : List Nat) : List Nat := (dg ++ List.replicate (16384 - dg.length) 0).take 16384

/-- `parsePacket` on the receive buffer; `none` = the Go code panics (`binary.Read` past the end of the
buffer, or a word length other than 2 or 4).  `Nchan*Nsamp` is a uint16 product. -/
def parsePacket (dg : List Nat) : Option (Hdr × List Nat) :=
  match bufOf dg with
  | _ :: _ :: c0 :: c1 :: n0 :: n1 :: f0 :: f1 :: rest =>
    let h : Hdr := { nchan := be16 c0 c1, nsamp := be16 n0 n1, flags := be16 f0 f1, sampnum := beNat (rest.take 8) }
    let body := rest.drop 8
    let n := (h.nchan * h.nsamp) % 65536
    match h.flags % 4 with
    | 1 => if body.length < 2 * n then none else some (h, words16 n body)
    | 2 => if body.length < 4 * n then none else some (h, everyOther (words16 (2 * n) body))
    | _ => none
  | _ => none

/-- sample `j` of channel `i` of a packet's data -/
def chanOf (nchan i : Nat) (h : Hdr) (data : List Nat) : List Nat :=
  (List.range h.nsamp).map fun j => data.getD (i + nchan * j) 0

/-- one bundle → the raw (not yet unwrapped) samples per channel and the first frame index; only for bundles
whose headers all carry the device's channel count (anything else is reported as an error by the code) -/
def assemble (nchan : Nat) (dgs : List (List Nat)) : Option (Nat × List (List Nat)) :=
  match dgs.mapM parsePacket with
  | none => none
  | some ps =>
    if ps.any (fun x => x.1.nchan ≠ nchan) ∨ nchan = 0 then none else
    match ps with
    | [] => none
    | (h0, _) :: _ =>
      some (h0.sampnum, (List.range nchan).map fun i => (ps.map fun (h, d) => chanOf nchan i h d).flatten)

/-- the device over a run: per channel unwrapper states, a block per bundle -/
def runDev (nchan : Nat) (p : Params) : List St → List (List (List Nat)) → Option (List (Nat × List (List Nat)))
  | _, [] => some []
  | sts, b :: bs =>
    match assemble nchan b with
    | none => none
    | some (first, raws) =>
      let res := (raws.zip sts).map fun (raw, s) => unwrapCall p s raw
      match runDev nchan p (res.map (·.1)) bs with
      | none => none
      | some r => some ((first, res.map (·.2)) :: r)

/-! ### driver: `rdev biasopt B sign S nchan N bundles K (npk hex…)… OUT K (first nch (n v…)…)…` -/

def runLine (ts : List String) : Verdict :=
  let pr : P (Bool × Int × Nat × List (List (List Nat)) × List (Nat × List (List Nat))) := do
    P.kw "rdev"; P.kw "biasopt"; let b ← P.bool
    P.kw "sign"; let sg ← P.int
    P.kw "nchan"; let nchan ← P.nat
    P.kw "bundles"; let bs ← P.list (P.list P.bytes)
    P.kw "OUT"; let outs ← P.list (do let f ← P.nat; let d ← P.list (P.list P.nat); pure (f, d))
    pure (b, sg, nchan, bs, outs)
  match P.run pr ts with
  | .error e => .bad e
  | .ok (b, sg, nchan, bs, outs) =>
    match roachMk b sg with
    | none => .bad "constructor"
    | some (p, s0) =>
      match runDev nchan p (List.replicate nchan s0) bs with
      | none => .bad "the model's device panics or reports an error on this input (outside the generated domain)"
      | some mo =>
        if mo.map (·.1) ≠ outs.map (·.1) then .diff s!"first frame indices of the blocks differ: model {mo.map (·.1)}, implementation {outs.map (·.1)}"
        else if mo ≠ outs then
          -- does the implementation's output violate the property on some channel?
          let bad := (List.range nchan).any fun i =>
            let raws := bs.filterMap fun b => (assemble nchan b).map fun x => x.2.getD i []
            let os := outs.map fun o => o.2.getD i []
            !(chk p s0 (raws.flatten.map (pre p)) os.flatten)
          if bad then .viol "C12 oracle (ROACH device): output not input+k*quantum / step rule / reset rule"
          else .diff "ROACH device blocks differ from the model"
        else
          .ok (["roach-device"] ++ (if bs.length > 1 then ["roach-multiblock"] else []) ++
            (if bs.any (fun b => b.any fun dg => (be16 (dg.getD 6 0) (dg.getD 7 0)) % 4 == 2) then ["roach-4byte"] else []))

end DastardV.Roach
