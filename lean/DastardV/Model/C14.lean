/-
C14 — published record / summary messages.  Encoders transcribed from `messageRecords` and
`messageSummaries` (`publish_data.go`); decoders written from `doc/BINARY_FORMATS.md`.
Floats are opaque bit patterns (32 or 64 bit naturals).
-/
import DastardV.Proto
namespace DastardV.C14

/-- little-endian bytes of `n mod 256^w` -/
def le : Nat → Nat → List Nat
  | 0, _ => []
  | w + 1, n => (n % 256) :: le w (n / 256)

/-- value of little-endian bytes -/
def unle : List Nat → Nat
  | [] => 0
  | b :: bs => b + 256 * unle bs

/-- two's complement image of an `Int` in `w` bytes (Go's `uintN(x)`) -/
def twos (w : Nat) (x : Int) : Nat := (x % (256 ^ w : Nat)).toNat

/-- signed reading of a 64-bit image -/
def toInt64 (n : Nat) : Int := if n < 2 ^ 63 then (n : Int) else (n : Int) - 2 ^ 64

structure Rec where
  channel : Int            -- rec.channelIndex (Go int)
  signed : Bool
  presamples : Int
  data : List Nat          -- 16-bit samples
  sampPeriodBits : Nat     -- float32 bits
  voltsPerArbBits : Nat    -- float32 bits
  timeNs : Int             -- trigTime.UnixNano()
  frame : Int
  -- summary fields, float32 bits (already converted from float64 by the publisher)
  ptmBits : Nat
  peakBits : Nat
  rmsBits : Nat
  avgBits : Nat
  residBits : Nat
  coefBits : List Nat      -- float64 bits
deriving Repr, DecidableEq

def le16s : List Nat → List Nat
  | [] => []
  | x :: xs => le 2 x ++ le16s xs

def le64s : List Nat → List Nat
  | [] => []
  | x :: xs => le 8 x ++ le64s xs

/-- `messageRecords` -/
def encRecord (r : Rec) : List Nat × List Nat :=
  (le 2 (twos 2 r.channel) ++ le 1 0 ++ le 1 (if r.signed then 2 else 3) ++
   le 4 (twos 4 r.presamples) ++ le 4 (r.data.length % 2 ^ 32) ++
   le 4 r.sampPeriodBits ++ le 4 r.voltsPerArbBits ++
   le 8 (twos 8 r.timeNs) ++ le 8 (twos 8 r.frame),
   le16s r.data)

/-- `messageSummaries` -/
def encSummary (r : Rec) : List Nat × List Nat :=
  (le 2 (twos 2 r.channel) ++ le 2 0 ++
   le 4 (twos 4 r.presamples) ++ le 4 (r.data.length % 2 ^ 32) ++
   le 4 r.ptmBits ++ le 4 r.peakBits ++ le 4 r.rmsBits ++ le 4 r.avgBits ++ le 4 r.residBits ++
   le 8 (twos 8 r.timeNs) ++ le 8 (twos 8 r.frame),
   le64s r.coefBits)

/-! ### Decoders written from doc/BINARY_FORMATS.md (offset, width) -/

def field (hdr : List Nat) (off w : Nat) : Nat := unle ((hdr.drop off).take w)

structure RecMsg where
  channel : Nat
  version : Nat
  dtype : Nat
  presamples : Nat
  nsamples : Nat
  periodBits : Nat
  vpaBits : Nat
  timeNs : Nat      -- as unsigned 64-bit image
  frame : Nat
  samples : List Nat
deriving Repr, DecidableEq

def un16s : List Nat → List Nat
  | a :: b :: r => (a + 256 * b) :: un16s r
  | _ => []

def un64s : (fuel : Nat) → List Nat → List Nat
  | 0, _ => []
  | f + 1, bs => if bs.length < 8 then [] else unle (bs.take 8) :: un64s f (bs.drop 8)

/-- Record message per the document: 36-byte header then samples. -/
def decRecord (hdr payload : List Nat) : Option RecMsg :=
  if hdr.length ≠ 36 then none else
  some { channel := field hdr 0 2, version := field hdr 2 1, dtype := field hdr 3 1,
         presamples := field hdr 4 4, nsamples := field hdr 8 4,
         periodBits := field hdr 12 4, vpaBits := field hdr 16 4,
         timeNs := field hdr 20 8, frame := field hdr 28 8,
         samples := un16s payload }

structure SumMsg where
  channel : Nat
  version : Nat
  presamples : Nat
  nsamples : Nat
  ptm : Nat
  peak : Nat
  rms : Nat
  avg : Nat
  resid : Nat
  timeNs : Nat
  frame : Nat
  coefs : List Nat
deriving Repr, DecidableEq

def decSummary (hdr payload : List Nat) : Option SumMsg :=
  if hdr.length ≠ 48 then none else
  some { channel := field hdr 0 2, version := field hdr 2 2,
         presamples := field hdr 4 4, nsamples := field hdr 8 4,
         ptm := field hdr 12 4, peak := field hdr 16 4, rms := field hdr 20 4,
         avg := field hdr 24 4, resid := field hdr 28 4,
         timeNs := field hdr 32 8, frame := field hdr 40 8,
         coefs := un64s payload.length payload }

/-- what a reader of the document must recover from a record message -/
def expectRecord (r : Rec) : RecMsg :=
  { channel := twos 2 r.channel, version := 0, dtype := if r.signed then 2 else 3,
    presamples := twos 4 r.presamples, nsamples := r.data.length % 2 ^ 32,
    periodBits := r.sampPeriodBits % 2 ^ 32, vpaBits := r.voltsPerArbBits % 2 ^ 32,
    timeNs := twos 8 r.timeNs, frame := twos 8 r.frame,
    samples := r.data.map (· % 65536) }

def expectSummary (r : Rec) : SumMsg :=
  { channel := twos 2 r.channel, version := 0,
    presamples := twos 4 r.presamples, nsamples := r.data.length % 2 ^ 32,
    ptm := r.ptmBits % 2 ^ 32, peak := r.peakBits % 2 ^ 32, rms := r.rmsBits % 2 ^ 32,
    avg := r.avgBits % 2 ^ 32, resid := r.residBits % 2 ^ 32,
    timeNs := twos 8 r.timeNs, frame := twos 8 r.frame,
    coefs := r.coefBits.map (· % 2 ^ 64) }

/-! ### Driver -/

open P in
def parse : P (Rec × List Nat × List Nat × List Nat × List Nat) := do
  kw "ch"; let channel ← int
  kw "signed"; let signed ← P.bool
  kw "npre"; let presamples ← int
  kw "data"; let data ← list nat
  kw "period"; let sampPeriodBits ← nat
  kw "vpa"; let voltsPerArbBits ← nat
  kw "time"; let timeNs ← int
  kw "frame"; let frame ← int
  kw "sum"; let ptmBits ← nat; let peakBits ← nat; let rmsBits ← nat; let avgBits ← nat
  let residBits ← nat
  kw "coefs"; let coefBits ← list nat
  kw "OUT"
  kw "rh"; let rh ← bytes
  kw "rp"; let rp ← bytes
  kw "sh"; let sh ← bytes
  kw "sp"; let sp ← bytes
  pure ({ channel, signed, presamples, data, sampPeriodBits, voltsPerArbBits, timeNs, frame,
          ptmBits, peakBits, rmsBits, avgBits, residBits, coefBits }, rh, rp, sh, sp)

/-- judge one record with the bytes the message builders made for it -/
def judgeOne (x : Rec × List Nat × List Nat × List Nat × List Nat) : Verdict :=
  let (r, rh, rp, sh, sp) := x
    -- oracle on the implementation's bytes: decode per the document, compare with the record
    let okR := decRecord rh rp == some (expectRecord r) && rp.length == 2 * r.data.length
    let okS := decSummary sh sp == some (expectSummary r) && sp.length == 8 * r.coefBits.length
    let sub := rh.take 2 == le 2 (twos 2 r.channel) && sh.take 2 == le 2 (twos 2 r.channel)
    if !okR then .viol "C14:record-layout decoding the published record message per BINARY_FORMATS.md does not recover the record"
    else if !okS then .viol "C14:summary-layout decoding the published summary message per BINARY_FORMATS.md does not recover the fields"
    else if !sub then .viol "C14:subscription-prefix first two bytes are not the channel number"
    else
      let (mrh, mrp) := encRecord r
      let (msh, msp) := encSummary r
      if mrh != rh || mrp != rp then .diff "record message bytes differ from the model encoder"
      else if msh != sh || msp != sp then .diff "summary message bytes differ from the model encoder"
      else .ok ((if r.signed then ["signed"] else ["unsigned"]) ++
                (if r.data.isEmpty then ["empty"] else []) ++
                (if r.coefBits.isEmpty then [] else ["coefs"]) ++
                (if r.frame < 0 || r.timeNs < 0 then ["negative"] else []) ++
                (if r.channel ≥ 32768 then ["bigchan"] else []))

/-- a batch sent through the real publisher goroutine and what a subscriber received: one message per
record, in order, each with exactly the two parts of that record's message -/
def judgeWire (summaries : Bool) (recs : List (Rec × List Nat × List Nat × List Nat × List Nat))
    (msgs : List (List (List Nat))) : Verdict :=
  match recs.findSome? (fun x => match judgeOne x with | .ok _ => none | v => some v) with
  | some v => v
  | none =>
    let want : List (List (List Nat)) := recs.map fun (_, rh, rp, sh, sp) => if summaries then [sh, sp] else [rh, rp]
    if msgs.length < want.length then
      .viol s!"C14:wire-missing a batch of {want.length} records put only {msgs.length} messages on the wire"
    else if msgs.length > want.length then
      .viol s!"C14:wire-framing a batch of {want.length} records put {msgs.length} messages on the wire"
    else match (msgs.zip want).zipIdx.find? (fun ((m, w), _) => m != w) with
      | some ((m, _), i) =>
        .viol s!"C14:wire-framing record {i} of a batch of {want.length} arrived as a {m.length}-part message that is not its header and payload"
      | none => .ok (["wire"] ++ (if want.length > 1 then ["batch"] else []) ++ (if summaries then ["wire-summaries"] else ["wire-records"]))

open P in
def parseWire : P (Bool × List (Rec × List Nat × List Nat × List Nat × List Nat) × Option (List (List (List Nat)))) := do
  kw "sum"; let sm ← P.bool
  kw "n"; let k ← nat
  let recs ← rep parse k
  let t ← tok
  if t == "WIRE-NOT-JOINED" then pure (sm, recs, none) else
  if t != "WIRE" then fail s!"expected WIRE got {t}" else
  let m ← nat
  let msgs ← rep (do let p ← nat; rep bytes p) m
  pure (sm, recs, some msgs)

def runLine (ts : List String) : Verdict :=
  -- a panic inside a message builder is an observed output: no record may make the builders panic
  match ts.dropWhile (· != "PANIC") with
  | "PANIC" :: which :: _ =>
    .viol s!"C14:panic the {which} message builder panicked on a record ({(ts.dropWhile (· != "data")).getD 1 "?"} samples)"
  | _ =>
  match ts with
  | ["conc", "iters", n, "badrec", b1, "badsum", b2, "frame1", _, "frame2", _] =>
    -- the two builders run concurrently in dastard (record port and summary port): each must return what
    -- it returns when called alone
    if b1 == "0" && b2 == "0" then .ok ["concurrent-builders"]
    else .viol s!"C14:concurrent-builders with the record builder and the summary builder running at the same time ({n} calls each) {b1} record messages and {b2} summary messages differed from what the same builder returns alone for the same record"
  | "wire" :: rest =>
    match P.run parseWire rest with
    | .error e => .bad e
    | .ok (_, _, none) => .bad "the subscriber never received a warm-up message (harness problem)"
    | .ok (sm, recs, some msgs) => judgeWire sm recs msgs
  | _ =>
  match P.run parse ts with
  | .error e => .bad e
  | .ok x => judgeOne x

end DastardV.C14
