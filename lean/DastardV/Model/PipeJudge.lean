/-
Judges for the pipeline properties.  Each judge (1) evaluates the property oracle on the
IMPLEMENTATION's output only, (2) compares the implementation's output with the model's.
-/
import DastardV.Model.Pipe
namespace DastardV.Pipe
open Trig

/-- ground truth accumulated by the oracle while walking the ops -/
structure Truth where
  streams : List (List Nat)      -- per channel: all samples delivered so far
  nblocks : Nat := 0
  npre : Int
  nsamp : Int
  lenKnown : Bool := true        -- false after a failed length request (partial application)
  emtVariable : List Bool        -- per channel: EMT variable-length mode may be active
  contiguous : Bool := true
  nextFrame : Option Int := none
deriving Repr

/-- C01 oracle for one record of channel `ch` emitted while processing a block whose first
sample is stream position `start`, frame `first`, time `t0`. -/
def chkRec (tr : Truth) (ch : Nat) (start : Nat) (first t0 period : Int) (signed : Bool) (r : Rec) :
    Option String :=
  let G := tr.streams[ch]?.getD []
  let pos : Int := (start : Int) + (r.frame - first)
  let a := pos - r.npre
  let n : Int := r.data.length
  if a < 0 ∨ a + n > G.length then some "record extends outside the delivered stream"
  else if (G.drop a.toNat).take r.data.length != r.data then some "samples are not the stream samples around the trigger frame"
  else if r.time ≠ t0 + (r.frame - first) * period then some "trigger time is not the time the block stamp assigns to the trigger sample"
  else if r.signed != signed then some "signedness differs from the source's"
  else if r.npre < 0 ∨ r.npre > n then some "pre-trigger length outside the record"
  else if tr.lenKnown ∧ !(tr.emtVariable[ch]?.getD false) ∧ (r.npre ≠ tr.npre ∨ n ≠ tr.nsamp) then
    some s!"record / pre-trigger length ({n}/{r.npre}) differ from the configured ones ({tr.nsamp}/{tr.npre}) in a fixed-length mode"
  else none

def firstSome {α} (xs : List α) (f : α → Option String) : Option String :=
  xs.foldl (fun acc x => match acc with | some e => some e | none => f x) none

/-- walk ops and implementation outputs together; returns the first C01 violation -/
def chkC01 (tr : Truth) : List Op → List Out → Option String
  | [], _ => none
  | _, [] => none
  | op :: ops, out :: outs =>
    match op, out with
    | .block first t0 period signed data, .recs rs =>
      let starts := tr.streams.map List.length
      let streams' := (tr.streams.zip data).map fun (g, d) => g ++ d
      let tr' := { tr with streams := streams', nblocks := tr.nblocks + 1 }
      let bad := firstSome ((rs.zipIdx)) fun (recs, ch) =>
        firstSome recs fun r =>
          (chkRec tr' ch (starts[ch]?.getD 0) first t0 period (signed[ch]?.getD false) r).map
            fun e => s!"block {tr.nblocks} ch{ch} frame {r.frame}: {e}"
      match bad with
      | some e => some e
      | none => chkC01 tr' ops outs
    | .len ns np, .err e =>
      if e then chkC01 { tr with lenKnown := false } ops outs
      else if ns ≤ 0 ∨ np ≤ 0 then chkC01 tr ops outs
      else chkC01 { tr with npre := np, nsamp := ns, lenKnown := true } ops outs
    | .trig _, .err true => chkC01 tr ops outs      -- rejected request: nothing changes
    | .trig r, .err false =>
      -- which channels may now be in EMT variable mode
      let var := r.ts.edgeMulti && r.compat.short
      let ev := tr.emtVariable.mapIdx fun i v => if r.chans.contains (i : Int) then var else v
      chkC01 { tr with emtVariable := ev } ops outs
    | _, _ => chkC01 tr ops outs

def caseTags (c : Case) (outs : List Out) : List String :=
  let nrec := (outs.map fun o => match o with | .recs r => (r.map List.length).sum | _ => 0).sum
  let blocks := c.ops.filterMap fun o => match o with | .block _ _ _ _ d => some ((d.head?.getD []).length) | _ => none
  let short := blocks.any fun l => (l : Int) < c.nsamp
  let anyTrig (f : TS → Bool) := (c.ops.any fun o => match o with | .trig r => f r.ts | _ => false) || c.saved.any (fun p => f p.2)
  (if nrec > 0 then ["records"] else ["norecords"]) ++
  (if short then ["shortblocks"] else []) ++
  (if blocks.length > 1 then ["multiblock"] else []) ++
  (if anyTrig (·.edge) then ["edge"] else []) ++
  (if anyTrig (·.level) then ["level"] else []) ++
  (if anyTrig (·.auto) then ["auto"] else []) ++
  (if anyTrig (·.edgeMulti) then ["emt"] else []) ++
  (if c.saved.isEmpty then [] else ["restored"]) ++
  (if c.ops.any (fun o => match o with | .gadd _ => true | _ => false) then ["group"] else []) ++
  (if c.ops.any (fun o => match o with | .len _ _ => true | _ => false) then ["relen"] else [])

def initTruth (c : Case) : Truth :=
  { streams := List.replicate c.nch [], npre := c.npre, nsamp := c.nsamp,
    emtVariable := List.replicate c.nch false }

/-- shared: run model, compare, judge with `oracle` -/
def judgeWith (prop : String) (c : Case) (oracle : Case → List Out → Option String) : Verdict :=
  let model := runOps c.zts (prepare c.nch c.npre c.nsamp c.saved) c.ops
  -- hypothesis of the no-out-of-range / no-crash theorems, checked on what the real `zeroThreshold`
  -- returned: the kink fit moves a trigger by at most one sample
  match (c.zts.flatten.find? fun e => e.2 < -1 || e.2 > 1) with
  | some e => .viol s!"{prop}:kink-shift-range the kink-model fit moved the trigger at frame {e.1} by {e.2} samples (zeroThreshold promises at most one)"
  | none =>
  match c.outs with
  | none =>
    -- the implementation crashed: that alone violates "no stream content ... makes processing crash"
    .viol s!"{prop}:panic-{c.panicClass} processing crashed (model {if model.isNone then "also predicts a panic" else "predicts no panic"})"
  | some outs =>
    match oracle c outs with
    | some e => .viol s!"{prop}:{e}"
    | none =>
      match model with
      | none => .diff "model predicts a panic, implementation did not crash"
      | some mo =>
        match diffOuts mo outs 0 with
        | some d => .diff d
        | none => .ok (caseTags c outs)

def runLineC01 (ts : List String) : Verdict :=
  match P.run parseCase ts with
  | .error e => .bad e
  | .ok c => judgeWith "C01" c fun c outs => (chkC01 (initTruth c) c.ops outs).map fun e => "record-not-exact " ++ e

end DastardV.Pipe
