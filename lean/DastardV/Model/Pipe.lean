/-
Source-level pipeline model: several channels + trigger broker + the control requests that
reach them (`SourceControl.ConfigureTriggers`, `ConfigurePulseLengths`, group-trigger edits),
with the case-line parser and the model runner used by the C01 / C02 / C08 judges.
-/
import DastardV.Model.Trig
import DastardV.Model.C09
namespace DastardV.Pipe
open Trig

structure Src where
  chans : List Chan
  broker : C09.Broker
  statusNpre : Int          -- the RPC layer's idea of the record lengths
  statusNsamp : Int
deriving Repr

/-- the EdgeMulti* compatibility fields of the RPC message -/
structure Compat where
  noise : Bool
  contaminated : Bool
  short : Bool
  disableZT : Bool
  level : Int
  nmono : Int
deriving Repr, DecidableEq

/-- `EMTBackwardCompatibleRPCFields.toEMTState`; `none` = error -/
def toEMT (b : Compat) : Option EMT :=
  if b.noise then none
  else if b.contaminated && b.short then none
  else
    let mode := if b.contaminated then EMTMode.twoFull else if b.short then .variable else .isolated
    some { mode, threshold := b.level, nmonotone := b.nmono, enableZT := !b.disableZT }

/-- a trigger-state request as it arrives by RPC -/
structure TrigReq where
  chans : List Int
  ts : TS
  compat : Compat
deriving Repr

inductive Op where
  | trig (r : TrigReq)
  | len (nsamp npre : Int)
  | gadd (ps : List (Int × Int))
  | gdel (ps : List (Int × Int))
  | gstop
  | block (first t0 period : Int) (signed : List Bool) (data : List (List Nat))
deriving Repr

inductive Out where
  | err (e : Bool)                       -- a request's reply: error or not
  | recs (r : List (List Rec))           -- records published per channel for a block
deriving Repr, DecidableEq

/-- `PrepareRun`: fresh processors; restored trigger settings (EdgeMulti forced off, EMT state
zero except for its copy of the record lengths, which is synced) or the all-disabled default. -/
def prepare (nch : Nat) (npre nsamp : Int) (saved : List (Nat × TS)) : Src :=
  let mk (i : Nat) : Chan :=
    let ts := match saved.find? (·.1 == i) with
      | some (_, ts) => { ts with edgeMulti := false }
      | none => {}
    { npre, nsamp, ts, emt := { npre := npre, nsamp := nsamp } }
  { chans := (List.range nch).map mk, broker := C09.Broker.new nch, statusNpre := npre, statusNsamp := nsamp }

def ztOf (tbl : List (Int × Int)) : ZT := fun pos =>
  match tbl.find? (·.1 == pos) with
  | some (_, s) => s
  | none => 0

/-- apply `f` to channel `i` -/
def modifyChan (cs : List Chan) (i : Nat) (f : Chan → Chan) : List Chan :=
  cs.mapIdx fun j c => if j = i then f c else c

/-- `AnySource.ChangeTriggerState`: (new channels, error?, panic?) -/
def changeTrig (cs : List Chan) (idxs : List Int) (ts : TS) (emt : EMT) : Option (List Chan × Bool) :=
  if idxs.isEmpty then some (cs, true)
  else if idxs.any (fun i => i ≥ cs.length || i < 0) then some (cs, true)   -- both bounds since fix 0d7f1f3
  else
    let rec go (cs : List Chan) : List Int → Option (List Chan × Bool)
      | [] => some (cs, false)
      | i :: rest =>
        if i < 0 then none else     -- processors[-1]: index out of range panic
        match cs[i.toNat]? with
        | none => none
        | some c =>
          let (c', e) := configureTrigger c ts emt
          let cs' := modifyChan cs i.toNat (fun _ => c')
          if e then some (cs', true) else go cs' rest
    go cs idxs

/-- `SourceControl.ConfigureTriggers` + `ChangeTriggerState` -/
def opTrig (s : Src) (r : TrigReq) : Option (Src × Bool) :=
  -- the compat fields are converted only when EdgeMulti is requested (EMTState arrives zero)
  let emt? : Option EMT := if r.ts.edgeMulti then toEMT r.compat else some {}
  match emt? with
  | none => some (s, true)
  | some emt =>
    match changeTrig s.chans r.chans r.ts emt with
    | none => none
    | some (cs, e) => some ({ s with chans := cs }, e)

/-- `SourceControl.ConfigurePulseLengths` + `AnySource.ConfigurePulseLengths` -/
def opLen (s : Src) (nsamp npre : Int) : Src × Bool :=
  if nsamp ≤ 0 ∨ npre ≤ 0 then (s, true)
  else if s.statusNpre = npre ∧ s.statusNsamp = nsamp then (s, false)
  else if npre < 3 ∨ nsamp < 1 ∨ nsamp < npre + 1 then (s, true)
  else if s.chans.any (fun c => checkLengths c nsamp npre) then (s, true)
  else
    ({ s with chans := s.chans.map (fun c => (configureLengths c nsamp npre).1),
              statusNpre := npre, statusNsamp := nsamp }, false)

/-- first phase of `ProcessSegments` for every channel -/
def phase1 (first t0 period : Int) :
    List Chan → List Bool → List (List Nat) → List (List (Int × Int)) → Option (List (Chan × List Rec))
  | [], _, _, _ => some []
  | c :: cs, sg, d :: ds, zts => do
    let signed := sg.head?.getD false
    let c1 := append c d first t0 period signed
    let (c2, recs) ← triggerData c1 (ztOf (zts.head?.getD []))
    let rest ← phase1 first t0 period cs sg.tail ds zts.tail
    pure ((c2, recs) :: rest)
  | _ :: _, _, [], _ => none     -- block with fewer segments than processors: Go panics

def phase2 (secMap : List (Nat × List Int)) : List (Chan × List Rec) → Nat → Option (List (Chan × List Rec))
  | [], _ => some []
  | (c, prim) :: rest, idx => do
    let fl := match secMap.find? (·.1 == idx) with | some (_, f) => f | none => []
    let sec ← secondaries c fl
    let tl ← phase2 secMap rest (idx + 1)
    pure ((trim c, prim ++ sec) :: tl)

/-- `ProcessSegments` -/
def opBlock (s : Src) (first t0 period : Int) (signed : List Bool) (data : List (List Nat))
    (zts : List (List (Int × Int))) : Option (Src × List (List Rec)) := do
  if data.length ≠ s.chans.length then none
  let p1 ← phase1 first t0 period s.chans signed data zts
  let prim := p1.map fun (_, recs) => recs.map (·.frame)
  let (b', dres) := C09.distribute s.broker prim
  match dres with
  | .panic => none
  | .ok secMap =>
    let p2 ← phase2 secMap p1 0
    pure ({ s with chans := p2.map (·.1), broker := b' }, p2.map (·.2))

/-- one operation: `none` = the real code panics -/
def stepOp (zts : List (List (Int × Int))) (s : Src) : Op → Option (Src × Out)
  | .trig r => do let (s', e) ← opTrig s r; pure (s', .err e)
  | .len ns np => let (s', e) := opLen s ns np; some (s', .err e)
  | .gadd ps => some ({ s with broker := C09.applyAll C09.add s.broker ps }, .err false)
  | .gdel ps => some ({ s with broker := C09.applyAll C09.del s.broker ps }, .err false)
  | .gstop => some ({ s with broker := C09.stopAll s.broker }, .err false)
  | .block f t p sg d => do let (s', r) ← opBlock s f t p sg d zts; pure (s', .recs r)

def runOps (zts : List (List (Int × Int))) : Src → List Op → Option (List Out)
  | _, [] => some []
  | s, o :: os => do
    let (s', out) ← stepOp zts s o
    let rest ← runOps zts s' os
    pure (out :: rest)

/-! ### Case lines -/

structure Case where
  nch : Nat
  npre : Int
  nsamp : Int
  saved : List (Nat × TS)
  zts : List (List (Int × Int))   -- per channel: (absolute frame, shift) where the kink fit moves the trigger
  ops : List Op
  outs : Option (List Out)      -- `none` = the implementation panicked
  panicClass : String
  outsOne : Option (List Out) := none   -- C08: the same stream delivered as ONE block (implementation's output)

open P in
def parseTS : P TS := do
  let auto ← P.bool; let autoDelay ← int; let autoVeto ← nat
  let level ← P.bool; let levelRising ← P.bool; let levelLevel ← nat
  let edge ← P.bool; let edgeRising ← P.bool; let edgeFalling ← P.bool; let edgeLevel ← int
  let edgeMulti ← P.bool
  pure { auto, autoDelay, autoVeto, level, levelRising, levelLevel, edge, edgeRising, edgeFalling, edgeLevel, edgeMulti }

open P in
def parseCompat : P Compat := do
  let noise ← P.bool; let contaminated ← P.bool; let short ← P.bool; let disableZT ← P.bool
  let level ← int; let nmono ← int
  pure { noise, contaminated, short, disableZT, level, nmono }

open P in
def parsePairs : P (List (Int × Int)) := list (do let a ← int; let b ← int; pure (a, b))

open P in
def parseOp (nch : Nat) : P Op := do
  let t ← tok
  match t with
  | "T" => do
    let chans ← list int
    let ts ← parseTS
    let compat ← parseCompat
    pure (.trig { chans, ts, compat })
  | "L" => do let ns ← int; let np ← int; pure (.len ns np)
  | "GA" => do let ps ← parsePairs; pure (.gadd ps)
  | "GD" => do let ps ← parsePairs; pure (.gdel ps)
  | "GS" => pure .gstop
  | "B" => do
    let first ← int; let t0 ← int; let period ← int
    let signed ← rep P.bool nch
    let data ← rep (list nat) nch
    pure (.block first t0 period signed data)
  | _ => fail s!"bad op {t}"

open P in
def parseRec : P Rec := do
  let frame ← int; let time ← int; let npre ← int; let signed ← P.bool
  let data ← list nat
  pure { frame, time, npre, data, signed }

open P in
def parseOut (nch : Nat) : P Out := do
  let t ← tok
  match t with
  | "E" => do let e ← P.bool; pure (.err e)
  | "R" => do let r ← rep (list parseRec) nch; pure (.recs r)
  | _ => fail s!"bad out {t}"

open P in
def parseCase : P Case := do
  kw "nch"; let nch ← nat
  kw "npre"; let npre ← int
  kw "nsamp"; let nsamp ← int
  kw "saved"; let saved ← list (do let ch ← nat; let ts ← parseTS; pure (ch, ts))
  kw "zt"; let zts ← rep parsePairs nch
  kw "ops"; let ops ← list (parseOp nch)
  kw "OUT"
  let pk ← peek
  if pk == some "PANIC" then
    let _ ← tok
    let cls ← tok
    pure { nch, npre, nsamp, saved, zts, ops, outs := none, panicClass := cls }
  else
    let outs ← list (parseOut nch)
    let pk2 ← peek
    if pk2 == some "ONE" then
      let _ ← tok
      let one ← list (parseOut nch)
      pure { nch, npre, nsamp, saved, zts, ops, outs := some outs, panicClass := "", outsOne := some one }
    else
      pure { nch, npre, nsamp, saved, zts, ops, outs := some outs, panicClass := "" }

/-- index of the first differing output, with a short description -/
def diffOuts : List Out → List Out → Nat → Option String
  | [], [], _ => none
  | a :: as, b :: bs, i =>
    if a == b then diffOuts as bs (i + 1) else
    match a, b with
    | .recs ra, .recs rb =>
      let perCh := (ra.zip rb).zipIdx.filterMap fun ((x, y), ch) =>
        if x == y then none else
          some s!"ch{ch}: model {x.length} recs {x.map (·.frame)} impl {y.length} recs {y.map (·.frame)}"
      some s!"op {i}: {perCh.head?.getD "record lists differ"}"
    | .err ea, .err eb => some s!"op {i}: reply error model={ea} impl={eb}"
    | _, _ => some s!"op {i}: different kind of output"
  | _, _, i => some s!"op {i}: output count differs"

end DastardV.Pipe
