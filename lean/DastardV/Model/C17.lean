/-
C17 — a running acquisition is free of data races: the skeleton's contracts (`mkSpec`), the parser of
the harness lines and `runLine`.  Core Lean only.

Encoding shared with harness/c17_canon.go:
  thread = (b*n + i)*16 + kind  kinds 0 R (control client) 1 L (core loop) 2 P (producer / reader) 3 S (status thread)
           4 A (block assembly of block b) 5 AW (assembly worker b,i) 6 W1a 7 W1b (first-wave worker b,i, spawned
           before / after the core loop took its first request) 8 W2a 9 W2b (second wave) 10 AR (archive writer j)
  var    = idx*16 + class        1 nfn 2 etq 3 blk 4 seg 5 arch 6 afill 7 pst 8 ptrig 9 bcon 10 trs 11 wsa 12 wsc 13 vip 14 bst 15 lastm 0 rloc
  object = idx*16 + class        1 nb 2 bufc 3 qreq 4 qres 5 cm 6 cmpl 7 fl 8 wsm 9 cfg 10 wga 11 wgp 12 rund 13 abort 14 rundone
  token  = var*2 + share        (ptrig, bcon, wsa have two shares: a read needs one, a write both)
-/
import DastardV.Proto
import DastardV.Model.C17Sys
namespace DastardV.C17

/-- ids are `idx * 16 + class` (threads: `idx = b * n + i`), injective for every number of blocks and channels -/
def enc (cls idx : Nat) : Nat := idx * 16 + cls
def clsOf (x : Nat) : Nat := x % 16
def idxOf (x : Nat) : Nat := x / 16

def mkVar (cls idx : Nat) : Var := enc cls idx
def tk (cls idx share : Nat) : Tok := enc cls idx * 2 + share

/-- classes with two shares -/
def twoShares (cls : Nat) : Bool := cls == 8 || cls == 9 || cls == 11

/-- parameters of a run: channels, blocks built by a free-running producer, trigger-rate messages, archive requests,
    source kind (0 = simulated: blocks are fresh objects, 1 = Abaco, 2 = Lancero: block objects merged) -/
structure Par where
  n : Nat
  nblk : Nat
  ntrs : Nat
  narch : Nat
  src : Nat
  deriving Repr

def Par.merged (p : Par) : Bool := p.src != 0

def rng (n : Nat) : List Nat := List.range n

/-- block `b` + its segments (`b` = 0 for the merged block of Abaco / Lancero) -/
def blockToks (p : Par) (b : Nat) : List Tok :=
  tk 3 b 0 :: (rng p.n).map (fun i => tk 4 (b * p.n + i) 0)

def procToks (i : Nat) (both : Bool) : List Tok :=
  if both then [tk 7 i 0, tk 8 i 0, tk 8 i 1] else [tk 7 i 0, tk 8 i 0]

def nfnTok : Tok := tk 1 0 0

/-- channel index of a worker thread -/
def chanOf (p : Par) (u : Tid) : Nat := if p.n == 0 then 0 else idxOf u % p.n

def spawnPayOf (p : Par) (u : Tid) : List Tok :=
  let i := chanOf p u
  match clsOf u with
  | 1 => -- the core loop
    (rng p.n).flatMap (fun i => procToks i false) ++ [tk 9 0 0, tk 14 0 0, tk 5 0 0, tk 11 0 0, tk 12 0 0]
      ++ (rng p.narch).map (fun j => tk 6 j 0) ++ (rng p.ntrs).map (fun m => tk 10 m 0)
      ++ (if p.merged then blockToks p 0 else []) ++ (if p.src == 2 then [nfnTok] else [])
  | 2 => -- producer: a free-running producer owns the frame counter and every block it will build
    -- the Abaco reader loop owns its working state (variable class 0)
    if p.merged then (if p.src == 1 then [tk 0 0 0] else []) else nfnTok :: (rng p.nblk).flatMap (fun b => blockToks p (b + 1))
  | 4 => (if p.merged then blockToks p 0 else []) ++ (if p.src == 2 then [nfnTok] else [])
  | 5 => [tk 4 i 0]
  | 6 => procToks i false
  | 7 => procToks i true
  | 8 => procToks i false
  | 9 => procToks i true
  | _ => []

/-- the tokens that exist in a run with parameters `p` (everything else is parked in a mutex of its own, class 15,
    that nothing ever locks: an access to a variable outside the run's universe is never permitted) -/
def used (p : Par) (k : Tok) : Bool :=
  let x := k / 2
  let sh := k % 2
  let cls := clsOf x
  let idx := idxOf x
  if cls == 0 || cls == 1 || cls == 2 || cls == 5 || cls == 12 || cls == 13 || cls == 14 || cls == 15 then idx == 0 && sh == 0
  else if cls == 9 || cls == 11 then idx == 0
  else if cls == 7 then decide (idx < p.n) && sh == 0
  else if cls == 8 then decide (idx < p.n)
  else if cls == 6 then decide (idx < p.narch) && sh == 0
  else if cls == 10 then decide (idx < p.ntrs) && sh == 0
  else if cls == 3 then sh == 0 && (if p.merged then idx == 0 else decide (1 ≤ idx ∧ idx ≤ p.nblk))
  else if cls == 4 then sh == 0 && (if p.merged then decide (idx < p.n) else decide (p.n ≤ idx ∧ idx < (p.nblk + 1) * p.n))
  else false

def mkSpec (p : Par) : Spec where
  toks := fun x => if twoShares (clsOf x) then [x * 2, x * 2 + 1] else [x * 2]
  varOf := fun k => k / 2
  chanPay := fun c =>
    let cls := clsOf c
    let idx := idxOf c
    if cls == 1 then
      (if p.merged then (if idx == 0 then blockToks p 0 ++ (if p.src == 2 then [nfnTok] else []) else [])
       else (if idx == 0 then [] else blockToks p idx))
    else if cls == 3 then (if idx == 1 then (rng p.n).map (fun i => tk 8 i 1) ++ [tk 9 0 1] else [])
    else if cls == 5 then [tk 10 idx 0]
    else if cls == 6 then [tk 6 idx 0]
    else []
  -- the close of the per-run channel `rundone` (class 14) hands the writing state to the Stop caller that waits for it
  closePay := fun c => if c == enc 14 0 then [tk 11 0 0, tk 12 0 0] else []
  mtxPay := fun m =>
    if clsOf m == 15 then (if used p (idxOf m) then [] else [idxOf m])
    else if m == enc 7 0 then (if p.src == 1 then [nfnTok, tk 2 0 0] else [])
    else if m == enc 8 0 then [tk 11 0 1]
    else if m == enc 9 0 then [tk 13 0 0]
    else []
  donePay := fun w t =>
    let cls := clsOf w
    let kind := clsOf t
    if cls == 10 then (if kind == 5 then spawnPayOf p t else [])
    else if cls == 11 then (if 6 ≤ kind ∧ kind ≤ 9 then spawnPayOf p t else [])
    else []
  spawnPay := spawnPayOf p
  init := fun k =>
    if !used p k then .mtx (enc 15 k)
    else if k == tk 13 0 0 then .mtx (enc 9 0)
    else if k == tk 11 0 1 then .mtx (enc 8 0)
    else if p.src == 1 && (k == nfnTok || k == tk 2 0 0) then .mtx (enc 7 0)
    else if k == tk 15 0 0 then .thr (enc 3 0)  -- the status thread's table of last messages
    else .thr 0

/-! ### parsing -/

def evOf (code arg : Nat) : Option Ev :=
  match code with
  | 0 => some (.rd arg) | 1 => some (.wr arg) | 2 => some (.send arg) | 3 => some (.recv arg)
  | 4 => some (.close arg) | 5 => some (.recvC arg) | 6 => some (.lock arg) | 7 => some (.unlock arg)
  | 8 => some (.wgAdd arg) | 9 => some (.wgDone arg) | 10 => some (.wgWait arg) | 11 => some (.spawn arg)
  | 12 => some .start
  | _ => none

def pEvent : P (Tid × Ev) := do
  let t ← P.nat
  let c ← P.nat
  let a ← P.nat
  match evOf c a with
  | some e => pure (t, e)
  | none => P.fail s!"bad event code {c}"

def className (cls : Nat) : String :=
  match cls with
  | 0 => "rloc" | 1 => "nfn" | 2 => "etq" | 3 => "blk" | 4 => "seg" | 5 => "arch" | 6 => "afill" | 7 => "pst" | 8 => "ptrig"
  | 9 => "bcon" | 10 => "trs" | 11 => "wsa" | 12 => "wsc" | 13 => "vip" | 14 => "bst" | 15 => "lastm" | _ => "var" ++ toString cls

def showEv (te : Tid × Ev) : String := s!"{te.1}:{repr te.2}"

def srcCode (s : String) : Nat := if s == "abaco" then 1 else if s == "lancero" then 2 else 0

def feasFailFrom : FSt → Trace → Nat → Option Nat
  | _, [], _ => none
  | s, te :: r, i => match stepF s te with
    | none => some i
    | some s' => feasFailFrom s' r (i + 1)

/-- Thread ids of the harness encoding are sparse (kind*M + ...); vector clocks are lists indexed by thread id.
    The race analysis therefore runs on the trace with thread ids renumbered densely in order of first appearance
    (an injective renaming: it changes neither the events' order nor which events belong to the same thread). -/
def denseId (m : List (Nat × Nat)) (t : Tid) : List (Nat × Nat) × Nat :=
  match m.lookup t with
  | some d => (m, d)
  | none => ((t, m.length) :: m, m.length)

def denseFrom : List (Nat × Nat) → Trace → Trace
  | _, [] => []
  | m, (t, e) :: r =>
    let (m1, t') := denseId m t
    match e with
    | .spawn u =>
      let (m2, u') := denseId m1 u
      (t', .spawn u') :: denseFrom m2 r
    | e => (t', e) :: denseFrom m1 r

def dense (tr : Trace) : Trace := denseFrom [] tr

/-- the oracle for a logged trace: (1) no race by the vector-clock analysis, (2) a feasible linearisation,
    (3) accepted by the ownership contracts of the skeleton -/
def judgeTrace (p : Par) (tr : Trace) : Verdict :=
  match firstRace (dense tr) with
  | some (i, x) => .viol s!"C17:race-{className (clsOf x)} unordered access at event {i} of the logged trace: {(tr[i]?).map showEv}"
  | none =>
    match feasFailFrom FSt.init tr 0 with
    | some i => .diff s!"trace-infeasible at event {i}: {(tr[i]?).map showEv}"
    | none =>
      match ownFail (mkSpec p) tr with
      | some i =>
        -- an access without permission is reported with its variable; it is a departure from the skeleton's discipline,
        -- not by itself a race (the access may be ordered by something the skeleton does not name): the race verdict
        -- above is what decides `viol`
        match tr[i]? with
        | some (t, .rd x) => .diff s!"skeleton-conformance: unowned-access-{className (clsOf x)}: thread {t} reads without holding a share (event {i})"
        | some (t, .wr x) => .diff s!"skeleton-conformance: unowned-access-{className (clsOf x)}: thread {t} writes without holding every share (event {i})"
        | e => .diff s!"skeleton-conformance: event {i} is not permitted by the ownership contracts: {e.map showEv}"
      | none =>
        let has (f : Tid × Ev → Bool) (tag : String) : List String := if tr.any f then [tag] else []
        .ok (["traced", "src" ++ toString p.src]
          ++ has (fun te => clsOf te.1 == 8 || clsOf te.1 == 9) "secondWave"
          ++ has (fun te => clsOf te.1 == 10) "archived"
          ++ has (fun te => (match te.2 with | .recv c => clsOf c == 5 | _ => false)) "trigRate"
          ++ has (fun te => match te.2 with | .recv c => clsOf c == 3 | _ => false) "requests"
          ++ has (fun te => match te.2 with | .wr x => clsOf x == 11 | _ => false) "writing"
          ++ has (fun te => match te.2 with | .wr x => clsOf x == 13 | _ => false) "stateSaved")

def pLine : P Verdict := do
  P.kw "kind"
  let kind ← P.tok
  P.kw "src"
  let src ← P.tok
  P.kw "nchan"; let _ ← P.nat
  P.kw "runms"; let _ ← P.nat
  P.kw "yield"; let _ ← P.nat
  P.kw "savegap"; let _ ← P.nat
  P.kw "narch"; let _ ← P.nat
  P.kw "long"; let _ ← P.nat
  P.kw "quiet"; let _ ← P.nat
  P.kw "groups"; let _ ← P.nat
  P.kw "stall"; let _ ← P.nat
  P.kw "restart"; let _ ← P.nat
  P.kw "OUT"
  match (← P.peek) with
  | some "PANIC" =>
    let _ ← P.tok
    let cls := (← P.peek).getD "?"
    -- the Go runtime's own detection of unsynchronised use: two goroutines closing one channel, concurrent map access
    if (cls.splitOn "close_of_closed_channel").length > 1 || (cls.splitOn "concurrent_map").length > 1 then
      return .viol s!"C17:sync-fault-{cls} the Go runtime stopped the run: {cls} (two goroutines used the same object without synchronisation)"
    return .diff s!"the real code panicked during the run ({cls}; not a verdict on races; see the case)"
  | some "HANG" => return .diff "the run did not finish (watchdog)"
  | _ => pure ()
  if kind == "trace" then
    P.kw "n"; let n ← P.nat
    P.kw "nblk"; let nblk ← P.nat
    P.kw "ntrs"; let ntrs ← P.nat
    P.kw "narch"; let narch ← P.nat
    P.kw "merged"; let _ ← P.nat
    P.kw "EVS"
    let tr ← P.list pEvent
    P.kw "RUN"
    let run ← P.tok
    if !(run.startsWith "start=ok") then
      return .diff s!"run-failed {run}"
    if n == 0 then  -- the skeleton theorem assumes at least one channel (PrepareRun rejects a source without channels)
      return .bad "a traced run without per-channel events (n = 0)"
    return judgeTrace { n := n, nblk := nblk, ntrs := ntrs, narch := narch, src := srcCode src } tr
  else
    let t ← P.tok
    if t == "RACE" then
      let k ← P.nat
      if k == 0 then
        return .ok ["raceSearch", "src" ++ toString (srcCode src)]
      let s1 ← P.tok; let k1 ← P.tok; let f1 ← P.tok
      let s2 ← P.tok; let k2 ← P.tok; let f2 ← P.tok
      return .viol s!"C17:race-{s1} Go race detector: {k1} at {s1} ({f1}) unordered with {k2} at {s2} ({f2}); {k} distinct site pair(s) in this run"
    else
      return .diff s!"race-run {t}"

def runLine (ts : List String) : Verdict :=
  match P.run pLine ts with
  | .ok v => v
  | .error e => .bad e

end DastardV.C17
