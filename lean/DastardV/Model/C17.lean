/- C17: model not built yet (stub so that the per-property driver links). -/
import DastardV.Proto
namespace DastardV.C17

def runLine (_ts : List String) : Verdict := .bad "C17: model not built yet"

end DastardV.C17
