/-
C17 — ownership (permission-token) discipline over the synchronisation events (core Lean only).

Every named shared variable `x` has a fixed list of permission tokens `toks x`.  A read of `x` needs
one of them, a write all of them.  Tokens are linear: each is at exactly one location — held by a
thread, travelling in the k-th message of a channel, attached to a close, kept by a free mutex,
deposited in a wait group by a `Done`, or handed to a thread that was spawned and has not started.
Tokens move only at synchronisation events:

  send c    : the sender puts `chanPay c` into the message          recv c  : the receiver takes what message k carries
  close c   : the closer deposits `closePay c`                       recvC c : takes what was deposited
  unlock m  : the holder returns `mtxPay m`                          lock m  : takes what the mutex keeps
  wgDone w  : thread t deposits `donePay w t`                        wgWait w: takes everything deposited
  spawn u   : the parent hands over `spawnPay u`                     start   : the child takes it

`ownRun` runs a global trace against this discipline (the machine REJECTS an access without
permission and a release of a token the thread does not hold).  `typed` is the thread-LOCAL version:
it checks one thread's program on its own, assuming every acquire delivers what the contract says.
-/
import DastardV.Model.C17Core
namespace DastardV.C17

abbrev Tok := Nat

inductive Loc where
  | thr (t : Tid)
  | msg (c : Obj) (k : Nat)
  | clo (c : Obj)
  | mtx (m : Obj)
  | wgb (w : Obj)
  | spw (t : Tid)
  deriving DecidableEq, Repr

structure Spec where
  toks : Var → List Tok            -- the permission tokens of a variable (a write needs all, a read one)
  varOf : Tok → Var
  chanPay : Obj → List Tok         -- carried by EVERY message on the channel
  closePay : Obj → List Tok
  mtxPay : Obj → List Tok          -- what the mutex protects
  donePay : Obj → Tid → List Tok   -- what thread t gives back with its Done on w
  spawnPay : Tid → List Tok        -- what thread t is given when it is spawned
  init : Tok → Loc                 -- where every token is at the beginning

/-- every token is listed under its variable -/
def Spec.WF (sp : Spec) : Prop := ∀ k, k ∈ sp.toks (sp.varOf k)

structure OSt where
  loc : Tok → Loc
  nsend : Obj → Nat
  nrecv : Obj → Nat

def OSt.init (sp : Spec) : OSt := { loc := sp.init, nsend := fun _ => 0, nrecv := fun _ => 0 }

/-- all of `ks` are at location `l` -/
def allAt (loc : Tok → Loc) (ks : List Tok) (l : Loc) : Bool := ks.all (fun k => loc k == l)

/-- move the tokens `ks` to `l` -/
def moveL (loc : Tok → Loc) (ks : List Tok) (l : Loc) : Tok → Loc := fun k => if k ∈ ks then l else loc k

/-- move everything that is at `src` to `dst` -/
def moveAll (loc : Tok → Loc) (src dst : Loc) : Tok → Loc := fun k => if loc k = src then dst else loc k

/-- release: thread `t` must hold `ks`; they go to `dst` -/
def release (s : OSt) (t : Tid) (ks : List Tok) (dst : Loc) : Option OSt :=
  if allAt s.loc ks (.thr t) then some { s with loc := moveL s.loc ks dst } else none

def stepO (sp : Spec) (s : OSt) (te : Tid × Ev) : Option OSt :=
  let t := te.1
  match te.2 with
  | .rd x => if (sp.toks x).any (fun k => s.loc k == .thr t) then some s else none
  | .wr x => if !(sp.toks x).isEmpty && allAt s.loc (sp.toks x) (.thr t) then some s else none
  | .send c =>
    (release s t (sp.chanPay c) (.msg c (s.nsend c))).map (fun s' => { s' with nsend := upd s.nsend c (s.nsend c + 1) })
  | .recv c =>
    some { s with loc := moveAll s.loc (.msg c (s.nrecv c)) (.thr t), nrecv := upd s.nrecv c (s.nrecv c + 1) }
  | .close c => release s t (sp.closePay c) (.clo c)
  | .recvC c => some { s with loc := moveAll s.loc (.clo c) (.thr t) }
  | .lock m => some { s with loc := moveAll s.loc (.mtx m) (.thr t) }
  | .unlock m => release s t (sp.mtxPay m) (.mtx m)
  | .wgAdd _ => some s
  | .wgDone w => release s t (sp.donePay w t) (.wgb w)
  | .wgWait w => some { s with loc := moveAll s.loc (.wgb w) (.thr t) }
  | .spawn u => release s t (sp.spawnPay u) (.spw u)
  | .start => some { s with loc := moveAll s.loc (.spw t) (.thr t) }

def ownRunFrom (sp : Spec) : OSt → Trace → Bool
  | _, [] => true
  | s, te :: r => match stepO sp s te with
    | none => false
    | some s' => ownRunFrom sp s' r

/-- the trace respects the ownership discipline of `sp` -/
def ownRun (sp : Spec) (tr : Trace) : Bool := ownRunFrom sp (OSt.init sp) tr

/-- position of the first event the discipline rejects -/
def ownFailFrom (sp : Spec) : OSt → Trace → Nat → Option Nat
  | _, [], _ => none
  | s, te :: r, i => match stepO sp s te with
    | none => some i
    | some s' => ownFailFrom sp s' r (i + 1)

def ownFail (sp : Spec) (tr : Trace) : Option Nat := ownFailFrom sp (OSt.init sp) tr 0

/-! ### thread-local typing -/

def subsetB (a b : List Tok) : Bool := a.all (fun k => b.contains k)
def minus (a b : List Tok) : List Tok := a.filter (fun k => !b.contains k)

/-- everything the children of wait group `w` give back -/
def waitPay (sp : Spec) (kids : Obj → List Tid) (w : Obj) : List Tok := (kids w).flatMap (sp.donePay w)

/-- one event of thread `t` holding `H`; `none` = not permitted -/
def typeEv (sp : Spec) (kids : Obj → List Tid) (t : Tid) (H : List Tok) (e : Ev) : Option (List Tok) :=
  let give (ks : List Tok) : Option (List Tok) := if subsetB ks H then some (minus H ks) else none
  match e with
  | .rd x => if (sp.toks x).any (fun k => H.contains k) then some H else none
  | .wr x => if !(sp.toks x).isEmpty && subsetB (sp.toks x) H then some H else none
  | .send c => give (sp.chanPay c)
  | .recv c => some (H ++ sp.chanPay c)
  | .close c => give (sp.closePay c)
  | .recvC c => some (H ++ sp.closePay c)
  | .lock m => some (H ++ sp.mtxPay m)
  | .unlock m => give (sp.mtxPay m)
  | .wgAdd _ => some H
  | .wgDone w => give (sp.donePay w t)
  | .wgWait w => some (H ++ waitPay sp kids w)
  | .spawn u => give (sp.spawnPay u)
  | .start => some (H ++ sp.spawnPay t)

def typedFrom (sp : Spec) (kids : Obj → List Tid) (t : Tid) : List Tok → List Ev → Option (List Tok)
  | H, [] => some H
  | H, e :: r => match typeEv sp kids t H e with
    | none => none
    | some H' => typedFrom sp kids t H' r

/-! ### programs and their interleavings -/

abbrev Prog := Tid → List Ev

/-- the events of thread `t` in a trace, in order -/
def proj (tr : Trace) (t : Tid) : List Ev := (tr.filter (fun te => te.1 == t)).map (·.2)

/-- `tr` interleaves prefixes of the threads' programs -/
def Interleaving (P : Prog) (tr : Trace) : Prop := ∀ t, proj tr t <+: P t

end DastardV.C17
