/-
C20 — run-log side files.  Transcription of the side-file part of `WritingState`
(writing_state.go: `Start`, `Stop`, `SetExperimentStateLabel`/`setExperimentStateLabel`) and of
`AnySource.HandleExternalTriggers` / `HandleDataDrop` (data_source.go), driven by the request
dispatch of `WriteControl` (`C06.classify`, shared with the C06 model) and by the
`SourceControl.SetExperimentStateLabel` RPC (empty label refused before it is queued).

* The three files of the current run are `ext`, `drop`, `st`: `none` = not created (the code
  creates each lazily), `some content` = created, `content` = what follows the header line.
  Buffered writers and the ticker-driven flushes do not change the logical content and are not
  modelled; `Stop` flushes and closes, which moves the content to `done` (the closed files of the
  finished runs, oldest first).  Time stamps of state lines are not modelled (a line is its label).
* START is `valid` when the request selects a file type the source can write (the remaining
  START checks - path, projectors - are C06's subject); with a valid START "writing already in
  progress" is exactly `active`.
-/
import DastardV.Proto
import DastardV.Model.C06
namespace DastardV.C20

abbrev Label := List Nat

/-- one line of the experiment-state file: its time stamp and its label.  `none` = stamped with the
wall clock by the code itself (`time.Now()`: START, STOP, `UNPAUSE label`, the RPC on receipt);
`some t` = the time stamp handed to `AnySource.SetExperimentStateLabel` by its caller. -/
abbrev Line := Option Int × Label

def lSTART : Line := (none, C06.sSTART)
def lSTOP : Line := (none, C06.sSTOP)

/-- the content of the three side files of one finished run (`st = none`: no state file) -/
structure RunFiles where
  ext : List Int
  drop : List (Int × Int)          -- (first frame after the drop, dropped frames)
  st : Option (List Line)
deriving Repr, DecidableEq

structure S where
  active : Bool                    -- WritingState.Active
  extName : Bool                   -- ExternalTriggerFilename != ""
  ext : Option (List Int)          -- externalTriggerFile / its buffered writer
  drop : Option (List (Int × Int)) -- dataDropFile / its buffered writer
  st : Option (List Line)          -- experimentStateFile
  done : List RunFiles
deriving Repr, DecidableEq

def S.init : S := { active := false, extName := false, ext := none, drop := none, st := none, done := [] }

inductive Op where
  | block (ext : List Int) (dropped first : Int)
  | req (r : List Nat) (valid : Bool)
  | label (l : Label)                      -- the RPC: stamped on receipt, empty label refused
  | labelAt (ts : Int) (l : Label)         -- `AnySource.SetExperimentStateLabel(ts, l)` called directly
deriving Repr, DecidableEq

/-- `setExperimentStateLabel`: create the file on first use, append one line -/
def setLabel (st : Option (List Line)) (l : Line) : Option (List Line) :=
  match st with
  | none => some [l]
  | some ls => some (ls ++ [l])

/-- `HandleExternalTriggers` -/
def handleExt (s : S) (e : List Int) : S :=
  let ext1 := if s.ext.isNone && !e.isEmpty && s.extName then some [] else s.ext
  let ext2 := match ext1 with
    | some c => if !e.isEmpty then some (c ++ e) else some c
    | none => none
  { s with ext := ext2 }

/-- `HandleDataDrop` -/
def handleDrop (s : S) (dropped first : Int) : S :=
  if dropped > 0 then
    if s.active then
      let cur := match s.drop with | none => [] | some c => c
      { s with drop := some (cur ++ [(first, dropped)]) }
    else s
  else s

def contentOf {α} : Option (List α) → List α
  | none => []
  | some c => c

/-- `WritingState.Stop` -/
def stop (s : S) : S :=
  let rf : RunFiles := { ext := contentOf s.ext, drop := contentOf s.drop,
                         st := match s.st with | none => none | some ls => some (ls ++ [lSTOP]) }
  { active := false, extName := false, ext := none, drop := none, st := none,
    done := if s.active then s.done ++ [rf] else s.done }

/-- a `WriteControl` request of kind `k` -/
def stepReq (s : S) (valid : Bool) : C06.Kind → S × Bool
  | .pause => (s, false)
  | .unpause none => (s, false)
  | .unpause (some l) =>
    if s.active && !C06.multiLine l then ({ s with st := setLabel s.st (none, l) }, false) else (s, true)
  | .unpauseBad => (s, true)
  | .stop => (stop s, false)
  | .start =>
    if !valid || s.active then (s, true)
    else ({ s with active := true, extName := true, st := setLabel s.st lSTART }, false)
  | .invalid => (s, true)

/-- one step; the Bool is "the request returned an error" -/
def step (s : S) : Op → S × Bool
  | .block e d f => (handleDrop (handleExt s e) d f, false)
  | .req r valid => stepReq s valid (C06.classify r)
  | .label l =>
    if l.isEmpty then (s, true)                        -- refused by the RPC layer
    else if s.active && !C06.multiLine l then ({ s with st := setLabel s.st (none, l) }, false)
    else (s, true)
  | .labelAt ts l =>
    -- no ordering rule: the line is written with the caller's time stamp whatever the previous one was
    if s.active && !C06.multiLine l then ({ s with st := setLabel s.st (some ts, l) }, false)
    else (s, true)

def runOps : S → List Op → S
  | s, [] => s
  | s, o :: os => runOps (step s o).1 os

/-- error flags of a run -/
def runErrs : S → List Op → List Bool
  | _, [] => []
  | s, o :: os => (step s o).2 :: runErrs (step s o).1 os

/-! ### The oracle: the property statement as a specification machine over (op, accepted?) -/

/-- what the files of the current run must contain -/
structure Cur where
  ext : List Int
  drop : List (Int × Int)
  labels : List Line
deriving Repr, DecidableEq

inductive Bad where
  | labelAcceptedInactive      -- a label was accepted while no run was active: its line went nowhere
  | startAcceptedActive        -- a START was accepted while a run was active
deriving Repr, DecidableEq

structure Spec where
  cur : Option Cur
  done : List RunFiles
deriving Repr, DecidableEq

def Spec.init : Spec := { cur := none, done := [] }

def specLabel (sp : Spec) (l : Line) (err : Bool) : Except Bad Spec :=
  if err then .ok sp
  else match sp.cur with
    | none => .error .labelAcceptedInactive
    | some c => .ok { sp with cur := some { c with labels := c.labels ++ [l] } }

def specReq (sp : Spec) (err : Bool) : C06.Kind → Except Bad Spec
  | .start =>
    if err then .ok sp
    else match sp.cur with
      | none => .ok { sp with cur := some { ext := [], drop := [], labels := [lSTART] } }
      | some _ => .error .startAcceptedActive
  | .stop =>
    match sp.cur with
    | none => .ok sp
    | some c => .ok { cur := none, done := sp.done ++ [{ ext := c.ext, drop := c.drop, st := some (c.labels ++ [lSTOP]) }] }
  | .unpause (some l) => specLabel sp (none, l) err
  | .unpause none => .ok sp
  | .pause => .ok sp
  | .unpauseBad => .ok sp
  | .invalid => .ok sp

def specStep (sp : Spec) (op : Op) (err : Bool) : Except Bad Spec :=
  match op with
  | .block e d f =>
    match sp.cur with
    | none => .ok sp
    | some c => .ok { sp with cur := some { c with ext := c.ext ++ e,
                                                   drop := if d > 0 then c.drop ++ [(f, d)] else c.drop } }
  | .req r _ => specReq sp err (C06.classify r)
  | .label l => specLabel sp (none, l) err
  | .labelAt ts l => specLabel sp (some ts, l) err

def specRun : Spec → List Op → List Bool → Except Bad Spec
  | sp, [], _ => .ok sp
  | sp, _, [] => .ok sp
  | sp, o :: os, e :: es =>
    match specStep sp o e with
    | .ok sp' => specRun sp' os es
    | .error b => .error b

/-- the oracle: the finished runs' files are exactly what the specification machine demands -/
def chkC20 (ops : List Op) (errs : List Bool) (observed : List RunFiles) : Bool :=
  match specRun Spec.init ops errs with
  | .ok sp => sp.done == observed
  | .error _ => false

/-! ### Driver -/

inductive ObsLine where
  | ok (l : Line)
  | malformed
deriving Repr, DecidableEq

/-- one run's files as read back from disk -/
structure RunObs where
  extPresent : Bool
  extHdr : Bool
  ext : List Int
  dropPresent : Bool
  dropHdr : Bool
  drop : List (Int × Int)
  stPresent : Bool
  stHdr : Bool
  st : List ObsLine
deriving Repr, DecidableEq

def RunObs.wellFormed (o : RunObs) : Bool :=
  (!o.extPresent || o.extHdr) && (!o.dropPresent || o.dropHdr) && (!o.stPresent || o.stHdr) &&
    o.st.all (fun l => l != .malformed)

def RunObs.files (o : RunObs) : RunFiles :=
  { ext := o.ext, drop := o.drop,
    st := if o.stPresent then some (o.st.filterMap fun l => match l with | .ok x => some x | .malformed => none) else none }

open P in
/-- a state line: `b<hex>` = not of the form `<digits>, <label>`; otherwise two tokens, the time stamp
(`w` = inside the wall-clock window of the case, else its decimal value) and the label in hex -/
def parseLine : P ObsLine := do
  let t ← tok
  if t.startsWith "b" then pure .malformed
  else
    let ts ← (if t == "w" then pure none else match t.toInt? with
      | some i => pure (some i)
      | none => fail s!"bad time stamp token {t}" : P (Option Int))
    let l ← bytes
    pure (.ok (ts, l))

open P in
def parseRun : P RunObs := do
  kw "X"; let xp ← bool; let xh ← bool; let xs ← list int
  kw "P"; let pp ← bool; let ph ← bool; let ps ← list (do let a ← int; let b ← int; pure (a, b))
  kw "T"; let tp ← bool; let th ← bool; let ls ← list parseLine
  pure { extPresent := xp, extHdr := xh, ext := xs, dropPresent := pp, dropHdr := ph, drop := ps,
         stPresent := tp, stHdr := th, st := ls }

inductive InOp where
  | q (r : List Nat) (valid : Bool)
  | l (lab : Label)
  | t (ts : Int) (lab : Label)
  | b (first dropped : Int) (ext : List Int)

open P in
def parseInOp : P InOp := do
  let t ← tok
  match t with
  | "Q" => do
    let r ← bytes; let v ← bool
    let _ ← bool; let _ ← bool; let _ ← bool     -- the file types asked for (LJH2.2, OFF, LJH3): `v` sums them up
    pure (.q r v)
  | "L" => do let l ← bytes; pure (.l l)
  | "T" => do let ts ← int; let l ← bytes; pure (.t ts l)
  | "B" => do let f ← int; let d ← int; let e ← list int; pure (.b f d e)
  | _ => fail s!"bad op {t}"

def InOp.op : InOp → Op
  | .q r v => .req r v
  | .l lab => .label lab
  | .t ts lab => .labelAt ts lab
  | .b f d e => .block e d f

structure ImplRes where
  err : Bool
  run : Option (RunObs × Nat)     -- files of the run that this op ended, open descriptors afterwards

open P in
def parseRes (op : InOp) : P ImplRes := do
  let t ← tok
  match op, t with
  | .b .., "-" => pure { err := false, run := none }
  | .q .., "E" | .l .., "E" | .t .., "E" => do
    let e ← bool
    let nx ← peek
    if nx == some "RUN" then
      let _ ← tok
      let r ← parseRun
      kw "FD"; let fd ← nat
      pure { err := e, run := some (r, fd) }
    else pure { err := e, run := none }
  | _, _ => fail s!"bad result {t}"

def parseAll : List InOp → P (List (InOp × ImplRes))
  | [] => pure []
  | o :: os => do
    let r ← parseRes o
    let rest ← parseAll os
    pure ((o, r) :: rest)

/-- some line carries a caller's time stamp that is not later than an explicit stamp before it, or
follows a clock-stamped line while lying in the past (explicit stamps < 2^61 are "past", the rest "future") -/
def backdated : List Line → Bool
  | [] => false
  | (t, _) :: rest =>
    (match t with
      | some a => rest.any (fun l => match l.1 with | some b => b ≤ a | none => a ≥ 2305843009213693952)
      | none => rest.any (fun l => match l.1 with | some b => b < 2305843009213693952 | none => false)) || backdated rest

def isStopOp : Op → Bool
  | .req r _ => C06.classify r == .stop
  | _ => false

/-- which ops end a run, according to the model -/
def runEnds : S → List Op → List Bool
  | _, [] => []
  | s, o :: os => (isStopOp o && s.active) :: runEnds (step s o).1 os

def runLine (ts : List String) : Verdict :=
  let p : P (List (InOp × ImplRes) × List RunObs) := do
    P.kw "nch"; let nch ← P.nat
    P.kw "proj"; let _ ← P.rep P.bool nch        -- which channels have projectors (enters through `valid`)
    P.kw "ops"; let ops ← P.list parseInOp
    P.kw "OUT"
    let t ← P.peek
    if t == some "PANIC" || t == some "HANG" then
      let a ← P.tok
      let b ← (do let e ← P.atEnd; if e then pure "" else P.tok)
      P.fail s!"CRASH {a} {b}"
    let n ← P.nat
    if n != ops.length then P.fail "op count mismatch"
    let rs ← parseAll ops
    P.kw "FINAL"
    let fin ← P.list (do P.kw "RUN"; parseRun)
    pure (rs, fin)
  match P.run p ts with
  | .error e =>
    if e.startsWith "CRASH" then .viol s!"C20:crash the implementation crashed or hung: {e}" else .bad e
  | .ok (rs, fin) =>
    let ops := rs.map (·.1.op)
    let errs := rs.map (·.2.err)
    let runs := rs.filterMap (·.2.run)
    let observed := runs.map (·.1.files)
    -- 1. the oracle on the implementation's files
    if (runs.any (fun r => !r.1.wellFormed) || fin.any (fun r => !r.wellFormed)) &&
        (ops.zip errs).any (fun (o, e) => !e && match o with
          | .label l => C06.multiLine l
          | .labelAt _ l => C06.multiLine l
          | .req r _ => (match C06.classify r with | .unpause (some l) => C06.multiLine l | _ => false)
          | _ => false) then
      .viol "C20:label-line-break an accepted state label containing a line break put an untimestamped line into the experiment-state file"
    else if runs.any (fun r => !r.1.wellFormed) || fin.any (fun r => !r.wellFormed) then
      .viol "C20:malformed-file a side file has no header line, a truncated record, or a state line that is not '<time>, <label>'"
    else if runs.any (fun r => r.2 != 0) then
      .viol "C20:left-open a side file was still open after the STOP that ended its run"
    else if fin.map (·.files) != observed then
      .viol "C20:changed-after-stop the files of a finished run changed after its STOP"
    else match specRun Spec.init ops errs with
    | .error .labelAcceptedInactive => .viol "C20:label-accepted-inactive a state label was accepted while no run was active"
    | .error .startAcceptedActive => .viol "C20:start-accepted-active a START was accepted while a run was active"
    | .ok sp =>
      if sp.done.length != observed.length then
        .viol s!"C20:run-count {observed.length} runs were ended by a STOP, the history has {sp.done.length}"
      else if sp.done.map (·.ext) != observed.map (·.ext) then
        .viol "C20:ext-exact the external-trigger file is not exactly the counts delivered between START and STOP"
      else if sp.done.map (·.drop) != observed.map (·.drop) then
        .viol "C20:drop-lines the data-drop file is not one line per block that reported dropped frames"
      else if sp.done.map (·.st) != observed.map (·.st) then
        .viol "C20:state-file the experiment-state file is not START, one line per accepted label request (each with its own time stamp, in acceptance order), STOP"
      else
        -- 2. the model must reproduce error flags, run boundaries and contents
        let merrs := runErrs S.init ops
        let m := runOps S.init ops
        if merrs != errs then
          .diff s!"error flags differ at op {(firstDiff merrs errs 0).getD 0}"
        else if runEnds S.init ops != rs.map (·.2.run.isSome) then
          .diff "the ops that ended a run differ"
        else if m.done != observed then .diff "closed files differ from the model"
        else
            let tags :=
              (if observed.any (fun r => !r.ext.isEmpty) then ["ext"] else []) ++
              (if observed.any (fun r => !r.drop.isEmpty) then ["drop"] else []) ++
              (if observed.any (fun r => match r.st with | some ls => ls.length > 2 | none => false) then ["labels"] else []) ++
              (if observed.length ≥ 2 then ["restart"] else []) ++
              (if observed.length ≥ 1 then ["run"] else ["no-run"]) ++
              (if (ops.zip errs).any (fun (o, e) => e && match o with | .label _ => true | .labelAt .. => true | _ => false) then ["label-rejected"] else []) ++
              (if observed.any (fun r => match r.st with | some ls => ls.any (fun l => l.1.isSome) | none => false) then ["stamped"] else []) ++
              (if observed.any (fun r => match r.st with | some ls => backdated ls | none => false) then ["backdated"] else []) ++
              (if (ops.zip errs).any (fun (o, e) => e && match o with | .req .. => true | _ => false) then ["request-rejected"] else []) ++
              (if observed.any (fun r => r.ext.isEmpty && r.drop.isEmpty) then ["empty-run"] else [])
            .ok tags

end DastardV.C20
