/- C20: model not built yet (stub so that the per-property driver links). -/
import DastardV.Proto
namespace DastardV.C20

def runLine (_ts : List String) : Verdict := .bad "C20: model not built yet"

end DastardV.C20
