/-
C09 at the level of the whole pipeline: the secondary (group-trigger) records the REAL `ProcessSegments`
publishes.  `Pipe.C09_source_level` proves for the source model that, in every processing cycle, a
channel's secondaries sit exactly at the primary trigger frames of the channels connected to it as
sources (as a multiset).  This oracle evaluates that statement on the implementation's output of every
block of a pipeline case: what channel `j` published beyond its own primaries must be exactly the
primaries of its sources.  The primaries are taken from the model's trigger pass on the same data (the
pipeline check C01 compares them record for record; when the implementation's own primaries are not all
there, the case is left to the correspondence difference and not blamed on the group triggers).
-/
import DastardV.Model.PipeJudge
namespace DastardV.Pipe
open Trig

/-- remove one occurrence -/
def eraseOne (x : Int) : List Int → Option (List Int)
  | [] => none
  | y :: ys => if x == y then some ys else (eraseOne x ys).map (y :: ·)

/-- multiset difference `a − b`; `none` when `b` is not contained in `a` -/
def msSub (a : List Int) : List Int → Option (List Int)
  | [] => some a
  | x :: xs => match eraseOne x a with
    | none => none
    | some a' => msSub a' xs

def sameMs (a b : List Int) : Bool := a.length == b.length && (msSub a b) == some []

/-- the C09 clause on one block's output -/
def chkC09Block (s : Src) (zts : List (List (Int × Int))) (f t p : Int) (sg : List Bool) (d : List (List Nat))
    (rs : List (List Rec)) : Option String :=
  match phase1 f t p s.chans sg d zts with
  | none => none
  | some p1 =>
    let prims : List (List Int) := p1.map fun x => x.2.map (·.frame)
    (List.range s.chans.length).findSome? fun j =>
      let all := (rs.getD j []).map (·.frame)
      let want := (C09.sourcesOf s.broker j).flatMap fun src => prims[src.toNat]?.getD []
      match msSub all (prims.getD j []) with
      | none => none                                   -- its own primaries differ: not this property's business
      | some rest =>
        if sameMs rest want then none
        else some s!"pipeline-secondaries channel {j} published secondary records at frames {rest} in a cycle in which its connected sources {C09.sourcesOf s.broker j} triggered at {want}"

def chkC09Run (zts : List (List (Int × Int))) : Src → List Op → List Out → Option String
  | _, [], _ => none
  | _, _, [] => none
  | s, op :: ops, out :: outs =>
    match stepOp zts s op with
    | none => none
    | some (s', _) =>
      let bad := match op, out with
        | .block f t p sg d, .recs rs => chkC09Block s zts f t p sg d rs
        | _, _ => none
      match bad with
      | some e => some e
      | none => chkC09Run zts s' ops outs

def runLineC09Pipe (ts : List String) : Verdict :=
  match P.run parseCase ts with
  | .error e => .bad e
  | .ok c =>
    match judgeWith "C09" c fun c outs => chkC09Run c.zts (prepare c.nch c.npre c.nsamp c.saved) c.ops outs with
    | .ok tags =>
      let nsec := match c.outs with
        | some outs => (chkC09Count c outs)
        | none => 0
      .ok (["pipeline"] ++ (if nsec > 0 then ["pipeline-secondaries"] else []) ++ tags)
    | v => v
where
  /-- number of secondary records the model publishes in the case (for the coverage tags) -/
  chkC09Count (c : Case) (_outs : List Out) : Nat :=
    let rec go (s : Src) : List Op → Nat
      | [] => 0
      | op :: ops =>
        match stepOp c.zts s op with
        | none => 0
        | some (s', out) =>
          let here := match op, out with
            | .block f t p sg d, .recs rs =>
              (match phase1 f t p s.chans sg d c.zts with
               | some p1 => (rs.map List.length).sum - (p1.map fun x => x.2.length).sum
               | none => 0)
            | _, _ => 0
          here + go s' ops
    go (prepare c.nch c.npre c.nsamp c.saved) c.ops

/-- the C09 driver: broker-level lines and pipeline lines -/
def runLineC09All (ts : List String) : Verdict :=
  match ts with
  | "pipe" :: rest => runLineC09Pipe rest
  | _ => C09.runLine ts

end DastardV.Pipe
