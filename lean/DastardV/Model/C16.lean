/-
C16 — status replay, configuration persistence, crash safety.

(i)  The replay cache of `RunClientUpdater` (client_updater.go): `lastMessages` (keys) and
     `lastMessageStrings` (JSON text per tag, Go map semantics: a missing key reads as ""),
     `update`, `SENDALL`, the no-publish / no-save tag sets, and what `saveState` hands to viper.
(ii) `saveOps`: the ordered file-system steps of `saveState` over a three-file model
     (`main`, `tmp`, `bak`) with a NON-atomic write (a kill inside it leaves any prefix) and atomic
     `remove` / `rename` / `link`; a crash stops after any number of completed steps; the next
     start-up (`makeFileExist` + read in cmd/dastard/dastard.go) creates an empty file if none exists.

The constants `saveOps`, `noPublish`, `noSave`, `saveAdds` are compared on every run with the facts
the harness re-reads from the Go source (`F` line).  Core Lean only.
-/
import DastardV.Proto
namespace DastardV.C16

abbrev Tag := String
/-- JSON text of a status message (opaque). The empty string is what Go yields for a missing map key. -/
abbrev Msg := String

/-! ## Facts regenerated from the source (checked against the `F` line of every run) -/

/-- `nopublishMessages` -/
def noPublish : List Tag := ["CURRENTTIME", "___1", "___2", "___3", "___4", "___5"]
/-- `nosaveMessages` (compared with the lower-cased tag) -/
def noSave : List String :=
  ["alive", "channelnames", "externaltrigger", "newdastard", "numberwritten", "tesmap", "triggerrate"]
/-- the keys `saveState` inserts into the cache map before saving -/
def saveAdds : List Tag := ["CURRENTTIME", "___1", "___2"]

inductive Name where
  | main | tmp | bak
deriving DecidableEq, Repr

/-- what the code does with an error of a step: return (`abort`), ignore a not-exist error and return
on any other (`ne`), or only log (`log`). -/
inductive Pol where
  | abort | ne | log
deriving DecidableEq, Repr

inductive FsOp where
  | write (n : Name) (p : Pol)          -- viper.WriteConfigAs(n): create/truncate, then the bytes
  | remove (n : Name) (p : Pol)         -- os.Remove
  | rename (a b : Name) (p : Pol)       -- os.Rename (atomic replace)
  | link (a b : Name) (p : Pol)         -- os.Link (fails if b exists)
deriving DecidableEq, Repr

/-- The file-system steps of `saveState`, in source order (after the repair: the standard file is only
ever replaced by one atomic rename; the backup is a hard link). -/
def saveOps : List FsOp :=
  [.write .tmp .abort, .remove .bak .ne, .link .main .bak .log, .rename .tmp .main .log]

/-- The steps as they were before the repair (kept to state the finding). -/
def saveOpsBeforeFix : List FsOp :=
  [.write .tmp .abort, .remove .bak .ne, .rename .main .bak .ne, .rename .tmp .main .log]

/-! ## (i) the replay cache -/

structure Cache where
  keys : List Tag               -- keys of `lastMessages`
  strs : List (Tag × Msg)       -- `lastMessageStrings`; the first entry of a tag is the current one
  vip  : List (String × Msg)    -- viper: config file as read at start-up + every `viper.Set` so far
  pending : Bool                -- the delayed-save timer is armed (a save will fire within the debounce)
deriving Repr

/-- the timer is armed when the updater starts -/
def Cache.init (cfg : List (String × Msg)) : Cache := { keys := [], strs := [], vip := cfg, pending := true }

/-- `lastMessageStrings[t]` -/
def strOf (strs : List (Tag × Msg)) (t : Tag) : Msg := (strs.lookup t).getD ""

def insertKey (keys : List Tag) (t : Tag) : List Tag := if keys.contains t then keys else t :: keys

inductive Ev where
  | upd (t : Tag) (m : Msg)     -- one message taken from clientMessageChan (m = JSON text of its state)
  | save                        -- a save timer fired: `saveState(lastMessages)`
deriving Repr

inductive Out where
  | live (t : Tag) (m : Msg)                 -- published at once
  | replay (l : List (Tag × Msg))            -- published in answer to SENDALL (map order: a set)
  | saved (l : List (String × Msg))          -- settings handed to the config file by a save
deriving Repr, DecidableEq

/-- what SENDALL publishes: every key of `lastMessages` except the no-publish tags -/
def replay (c : Cache) : List (Tag × Msg) :=
  (c.keys.filter (fun k => !noPublish.contains k)).map (fun k => (k, strOf c.strs k))

/-- value `saveState` stores for a cache key (bookkeeping keys hold constants / the wall clock) -/
def savedVal (c : Cache) (k : Tag) : Msg := if saveAdds.contains k then "*" else strOf c.strs k

/-- `low` is the key normalisation of viper and of the no-save test (`strings.ToLower`); the theorems
hold for any function, the driver uses `String.toLower`. -/
def vipSet (low : String → String) (c : Cache) (v : List (String × Msg)) (k : Tag) : List (String × Msg) :=
  if noSave.contains (low k) then v else (low k, savedVal c k) :: v

/-- the cache part of `saveState`: insert the bookkeeping keys, `viper.Set` every key not on the
no-save list -/
def saveStep (low : String → String) (c : Cache) : Cache :=
  let keys := saveAdds.foldl insertKey c.keys
  { c with keys := keys, vip := keys.foldl (vipSet low c) c.vip, pending := false }

/-- the settings a save writes, without the bookkeeping keys; first entry of a key wins -/
def dedupKeys : List (String × Msg) → List String → List (String × Msg)
  | [], _ => []
  | (k, v) :: r, seen => if seen.contains k then dedupKeys r seen else (k, v) :: dedupKeys r (k :: seen)

def savedView (low : String → String) (vip : List (String × Msg)) : List (String × Msg) :=
  (dedupKeys vip []).filter (fun kv => !(saveAdds.map low).contains kv.1)

def step (low : String → String) (c : Cache) : Ev → Cache × List Out
  | .upd t m =>
    if t == "SENDALL" then (c, [.replay (replay c)]) else
    -- `m = ""` stands for a state that json.Marshal rejects: nothing is published, but the comparison
    -- below still sees the empty string (outside the domain of the theorems: hypothesis `Valid`)
    let out := if noPublish.contains t || m == "" then [] else [Out.live t m]
    if t == "NEWDASTARD" then (c, out) else
    if strOf c.strs t != m then
      -- a changed topic that is not on the no-save list (re)arms the delayed-save timer
      ({ c with keys := insertKey c.keys t, strs := (t, m) :: c.strs,
                pending := c.pending || !noSave.contains (low t) }, out)
    else (c, out)
  | .save => let c' := saveStep low c; (c', [.saved (savedView low c'.vip)])

def run (low : String → String) (c : Cache) : List Ev → Cache × List Out
  | [] => (c, [])
  | e :: r => let (c1, o1) := step low c e; let (c2, o2) := run low c1 r; (c2, o1 ++ o2)

/-! ### The property oracles (evaluated on the model's output in the theorems and on the
implementation's output at run time) -/

/-- `rl` = live messages so far, most recent first.  A SENDALL reply is right when it has one message
per topic, every message is the most recent live message of its topic, and every topic ever published
(except the NEWDASTARD event) is there. -/
def chkSendAll (rl : List (Tag × Msg)) (rep : List (Tag × Msg)) : Bool :=
  decide (rep.map (·.1)).Nodup &&
  rep.all (fun tm => rl.lookup tm.1 == some tm.2 && tm.1 != "NEWDASTARD") &&
  rl.all (fun tm => tm.1 == "NEWDASTARD" || (rep.map (·.1)).contains tm.1)

def chkTrace (rl : List (Tag × Msg)) : List Out → Bool
  | [] => true
  | .live t m :: r => chkTrace ((t, m) :: rl) r
  | .replay l :: r => chkSendAll rl l && chkTrace rl r
  | .saved _ :: r => chkTrace rl r

/-- last update of tag `t` in a history (most recent first search) -/
def lastUpd : List Ev → Tag → Option Msg
  | [], _ => none
  | .upd t' m :: r, t => match lastUpd r t with
      | some x => some x
      | none => if t' == t then some m else none
  | .save :: r, t => lastUpd r t

def tagsOf : List Ev → List Tag
  | [] => []
  | .upd t _ :: r => t :: tagsOf r
  | .save :: r => tagsOf r

/-- a topic whose latest value must be in the saved file -/
def persistent (low : String → String) (t : Tag) : Bool :=
  t != "SENDALL" && t != "NEWDASTARD" && !noSave.contains (low t) && !saveAdds.contains t

/-- the saved settings hold the latest value of every persistent topic updated in `h` -/
def chkSaved (low : String → String) (h : List Ev) (view : List (String × Msg)) : Bool :=
  (tagsOf h).all (fun t => !persistent low t || view.lookup (low t) == lastUpd h t)

/-- tags (and the bookkeeping keys) stay distinct under the key normalisation -/
def lowerInjB (low : String → String) (ts : List Tag) : Bool :=
  ts.all (fun a => ts.all (fun b => low a != low b || a == b))

/-! ## (ii) file system, save steps, crash, start-up -/

abbrev Content := List Nat

structure FS where
  main : Option Content
  tmp : Option Content
  bak : Option Content
deriving DecidableEq, Repr

def FS.get (fs : FS) : Name → Option Content
  | .main => fs.main | .tmp => fs.tmp | .bak => fs.bak

def FS.set (fs : FS) (n : Name) (v : Option Content) : FS :=
  match n with
  | .main => { fs with main := v } | .tmp => { fs with tmp := v } | .bak => { fs with bak := v }

inductive Err where
  | ok | notExist | other
deriving DecidableEq, Repr

/-- one complete step writing content `c` -/
def execOp (c : Content) (fs : FS) : FsOp → FS × Err
  | .write n _ => (fs.set n (some c), .ok)
  | .remove n _ => match fs.get n with
      | none => (fs, .notExist)
      | some _ => (fs.set n none, .ok)
  | .rename a b _ => match fs.get a with
      | none => (fs, .notExist)
      | some x => if a = b then (fs, .ok) else ((fs.set b (some x)).set a none, .ok)
  | .link a b _ => match fs.get a with
      | none => (fs, .notExist)
      | some x => match fs.get b with
          | some _ => (fs, .other)
          | none => (fs.set b (some x), .ok)

def polOf : FsOp → Pol
  | .write _ p => p | .remove _ p => p | .rename _ _ p => p | .link _ _ p => p

/-- does `saveState` go on to the next step after this result? -/
def continues (p : Pol) (e : Err) : Bool :=
  match e, p with
  | .ok, _ => true
  | _, .log => true
  | .notExist, .ne => true
  | _, _ => false

/-- The process is killed after `k` completed steps (`k ≥` the number of steps: not at all).  With
`j = some n` the kill comes inside the next step if that is a write: the file then holds the first `n`
bytes (`n = 0`: created empty; `n ≥ length`: complete but not yet returned). -/
def crashRun (c : Content) : List FsOp → FS → Nat → Option Nat → FS
  | [], fs, _, _ => fs
  | op :: _, fs, 0, j =>
    match j, op with
    | some n, .write nm _ => fs.set nm (some (c.take n))
    | _, _ => fs
  | op :: rest, fs, k + 1, j =>
    let r := execOp c fs op
    if continues (polOf op) r.2 then crashRun c rest r.1 k j else r.1

/-- a step whose write FAILS after `j` bytes (the file was created/truncated first); other steps as usual -/
def execFail (c : Content) (fs : FS) (j : Nat) : FsOp → FS × Err
  | .write n _ => (fs.set n (some (c.take j)), .other)
  | op => execOp c fs op

/-- A save in which step number `w` fails if it is a write (disk full, quota, I/O error, a value the
encoder refuses); what happens next is decided by the step's error policy, the remaining steps run
normally.  No kill. -/
def failRun (c : Content) : List FsOp → FS → Nat → Nat → FS
  | [], fs, _, _ => fs
  | op :: rest, fs, 0, j =>
    let r := execFail c fs j op
    if continues (polOf op) r.2 then crashRun c rest r.1 rest.length none else r.1
  | op :: rest, fs, w + 1, j =>
    let r := execOp c fs op
    if continues (polOf op) r.2 then failRun c rest r.1 w j else r.1

/-- a save that is not interrupted -/
def saveAll (c : Content) (ops : List FsOp) (fs : FS) : FS := crashRun c ops fs ops.length none

/-- next start-up: `(did the config file exist?, what is read, directory afterwards)` -/
def startup (fs : FS) : Bool × Content × FS :=
  match fs.main with
  | some x => (true, x, fs)
  | none => (false, [], { fs with main := some [] })

/-- the property: the file start-up reads existed and is the complete old or the complete new version -/
def chkCrash (old new : Content) (s : Bool × Content × FS) : Bool :=
  s.1 && (s.2.1 == old || s.2.1 == new)

/-- steps that change the standard file -/
def touchesMain : FsOp → Bool
  | .write n _ => n == .main
  | .remove n _ => n == .main
  | .rename a b _ => a == .main || b == .main
  | .link _ b _ => b == .main

def touchesTmp : FsOp → Bool
  | .write n _ => n == .tmp
  | .remove n _ => n == .tmp
  | .rename a b _ => a == .tmp || b == .tmp
  | .link _ b _ => b == .tmp

def isWriteTmp : FsOp → Bool
  | .write .tmp _ => true
  | _ => false

def isRenameTmpMain : FsOp → Bool
  | .rename .tmp .main _ => true
  | _ => false

/-- Decidable shape that makes a step list crash safe: the standard file is changed by exactly one
step, an atomic `rename tmp main`, reached only with a completely written `tmp`. `full` = tmp is
known to hold the complete new content. -/
def safeShape (full : Bool) : List FsOp → Bool
  | [] => true
  | op :: r =>
    if touchesMain op then isRenameTmpMain op && full && r.all (fun o => !touchesMain o)
    else safeShape (if isWriteTmp op then true else if touchesTmp op then false else full) r

/-! ## Line protocol -/

def insSorted (x : String × String) : List (String × String) → List (String × String)
  | [] => [x]
  | y :: r => if x.1 < y.1 || (x.1 == y.1 && x.2 < y.2) || x == y then x :: y :: r else y :: insSorted x r

def sortPairs (l : List (String × String)) : List (String × String) := l.foldr insSorted []

def canonOut : Out → Out
  | .replay l => .replay (sortPairs l)
  | .saved l => .saved (sortPairs l)
  | o => o

def unhex (s : String) : String := if s == "-" then "" else s
def rehex (s : String) : String := if s == "" then "-" else s

def showOut : Out → String
  | .live t m => s!"L {t} {rehex m}"
  | .replay l => s!"A {l.length}" ++ String.join (l.map fun p => s!" {p.1} {rehex p.2}")
  | .saved l => s!"S {l.length}" ++ String.join (l.map fun p => s!" {p.1} {rehex p.2}")

inductive HOp where
  | u (t : Tag) (m : Msg) | a | s
deriving Repr

def parsePair : P (String × String) := do
  let k ← P.tok
  let v ← P.tok
  pure (k, unhex v)

def parseHOp : P HOp := do
  let k ← P.tok
  match k with
  | "U" => do let t ← P.tok; let m ← P.tok; pure (.u t (unhex m))
  | "A" => pure .a
  | "S" => pure .s
  | _ => P.fail s!"bad op {k}"

partial def parseOuts : P (List Out) := do
  if (← P.atEnd) then return []
  let k ← P.tok
  let o ← match k with
    | "L" => do let t ← P.tok; let m ← P.tok; pure (Out.live t (unhex m))
    | "A" => do let l ← P.list parsePair; pure (Out.replay l)
    | "S" => do
        if (← P.peek) == some "NOSAVE" then
          let _ ← P.tok
          pure (Out.saved [("!nosave", "")])      -- the updater did not save within the waiting time
        else
          let l ← P.list parsePair; pure (Out.saved l)
    | _ => P.fail s!"bad output event {k}"
  let r ← parseOuts
  pure (o :: r)

def evsOf : List HOp → List Ev
  | [] => []
  | .u t m :: r => .upd t m :: evsOf r
  | .a :: r => .upd "SENDALL" "0" :: evsOf r
  | .s :: r => .save :: evsOf r

/-- histories up to and including each save -/
def savePrefixes : List Ev → List Ev → List (List Ev)
  | _, [] => []
  | acc, .save :: r => (acc ++ [.save]) :: savePrefixes (acc ++ [.save]) r
  | acc, e :: r => savePrefixes (acc ++ [e]) r

def savedOuts : List Out → List (List (String × Msg))
  | [] => []
  | .saved l :: r => l :: savedOuts r
  | _ :: r => savedOuts r

/-- first persistent topic whose latest value is not in the saved view: `(tag, saved, latest)` -/
def savedMiss (low : String → String) (h : List Ev) (view : List (String × Msg)) : Option (Tag × String × String) :=
  ((tagsOf h).find? (fun t => persistent low t && view.lookup (low t) != lastUpd h t)).map
    fun t => (t, rehex ((view.lookup (low t)).getD "<absent>"), rehex ((lastUpd h t).getD ""))

/-- what the save windows of a history exercised: (several persistent topics changed in one window,
a topic returned to its saved value inside a window in which another topic changed) -/
def windowStats (low : String → String) : List HOp → List (Tag × Msg) → List (Tag × Msg) → List Tag → Bool →
    Bool × Bool → Bool × Bool
  | [], _, _, _, _, acc => acc
  | .s :: r, cur, _, changed, rev, acc =>
      windowStats low r cur cur [] false (acc.1 || changed.length ≥ 2, acc.2 || (rev && changed.length ≥ 1))
  | .a :: r, cur, sv, changed, rev, acc => windowStats low r cur sv changed rev acc
  | .u t m :: r, cur, sv, changed, rev, acc =>
      if !persistent low t || cur.lookup t == some m then windowStats low r cur sv changed rev acc else
      let back := sv.lookup t == some m
      let changed' := if back then changed.filter (· != t) else if changed.contains t then changed else t :: changed
      windowStats low r ((t, m) :: cur) sv changed' (rev || back) acc

def runH (cfg : List (String × Msg)) (ops : List HOp) (impl : List Out) : Verdict :=
  let evs := evsOf ops
  let mo := (run String.toLower (Cache.init cfg) evs).2.map canonOut
  let io := impl.map canonOut
  -- the domain of the property (and of the theorems): every status value has a JSON text
  let valid := ops.all fun o => match o with | .u _ m => m != "" | _ => true
  -- oracle on the implementation's output
  if (savedOuts io).any (fun l => l == [("!nosave", "")]) then
    .viol "C16:not-saved no configuration file was saved within 6 s of a change of a persistent topic"
  else if valid && !chkTrace [] io then
    .viol "C16:sendall-not-latest a SENDALL reply is not exactly the latest message of every published topic"
  else if valid && lowerInjB String.toLower (tagsOf evs ++ saveAdds) &&
      !((savePrefixes [] evs).zip (savedOuts io)).all (fun hv => chkSaved String.toLower hv.1 hv.2) then
    let bad := ((savePrefixes [] evs).zip (savedOuts io)).findSome? fun hv => savedMiss String.toLower hv.1 hv.2
    let d := match bad with
      | some (t, sv, lt) => s!" (topic {t}: file has {sv}, latest is {lt})"
      | none => ""
    .viol ("C16:saved-not-latest after the save points the configuration file lacks the latest value of a persistent topic" ++ d)
  else if mo != io then
    let i := (firstDiff mo io 0).getD 0
    .diff s!"history event {i}: model=[{(mo[i]?.map showOut).getD "-"}] impl=[{(io[i]?.map showOut).getD "-"}]"
  else
    let replies := io.filterMap fun o => match o with | .replay l => some l | _ => none
    let ups := ops.filterMap fun o => match o with | .u t m => some (t, m) | _ => none
    let changed := (ups.zip (ups.drop 1)).any fun (x, y) => x.1 == y.1 && x.2 != y.2
    let rec hasRepeat : List (String × String) → Bool
      | [] => false
      | x :: r => r.contains x || hasRepeat r
    .ok (["H"] ++ (if valid then [] else ["marshal-fail"]) ++ (if replies.any (fun l => l.length > 0) then ["replay"] else [])
      ++ (if replies.any (fun l => l.length > 1) && hasRepeat ups then ["replay-multi-repeat"] else [])
      ++ (if changed then ["changed"] else [])
      ++ (if hasRepeat ups then ["repeat"] else [])
      ++ (if ups.any (fun u => noPublish.contains u.1) then ["nopub"] else [])
      ++ (if ups.any (fun u => noSave.contains u.1.toLower) then ["nosave"] else [])
      ++ (if ups.any (fun u => u.1 == "NEWDASTARD") then ["newdastard"] else [])
      ++ (if (savedOuts io).length > 0 then ["saved"] else [])
      ++ (let w := windowStats String.toLower ops [] [] [] false (false, false)
          (if w.1 then ["window-multi"] else []) ++ (if w.2 then ["window-revert"] else []))
      ++ (if cfg.length > 0 then ["oldcfg"] else []))

/-! ### crash cases -/

def contentOf (s : String) : Option (Option Content) :=
  if s == "-" then some none
  else if s == "E" then some (some [])
  else if s == "B" then some (some [5, 5, 5, 5])
  else if s == "T" then some (some [6, 6, 6, 6])
  else if s == "TP" then some (some [6, 6])
  else if s.startsWith "C" then (s.drop 1).toNat?.map fun i => some (List.replicate 4 (10 + i))
  else if s.startsWith "P" then
    match (s.drop 1).toString.splitOn ":" with
    | [a, b] => match a.toNat?, b.toNat? with
        | some i, some q => some (some ((List.replicate 4 (10 + i)).take q))
        | _, _ => none
    | _ => none
  else none

def labelOf : Option Content → String
  | none => "-"
  | some [] => "E"
  | some [5, 5, 5, 5] => "B"
  | some [6, 6, 6, 6] => "T"
  | some [6, 6] => "TP"
  | some (x :: r) =>
    if x ≥ 10 && r.all (· == x) then
      (if r.length == 3 then s!"C{x - 10}" else s!"P{x - 10}:{r.length + 1}")
    else "X"

def newC (i : Nat) : Content := List.replicate 4 (10 + i)

def preSaves (ops : List FsOp) : Nat → Nat → FS → FS
  | 0, _, fs => fs
  | n + 1, i, fs => preSaves ops n (i + 1) (saveAll (newC i) ops fs)

structure KIn where
  main : String
  bak : String
  tmp : String
  pre : Nat
  k : Nat
  j : Option Nat
  crashed : Bool
  fail : Bool := false      -- not a kill: the write at step `k` fails after `j` quarters of its bytes

structure KOut where
  exit : Nat
  fsMain : String
  fsTmp : String
  fsBak : String
  existed : Bool
  after : String
  read : String

def parseK : P (KIn × KOut) := do
  P.kw "main"; let m ← P.tok
  P.kw "bak"; let b ← P.tok
  P.kw "tmp"; let t ← P.tok
  P.kw "pre"; let pre ← P.nat
  P.kw "crash"
  let c ← P.tok
  let (k, j, crashed, fail) ← match c with
    | "none" => pure (1000, none, false, false)
    | "at" => do let k ← P.nat; let _ ← P.tok; pure (k, none, true, false)
    | "inw" => do let k ← P.nat; let q ← P.nat; pure (k, some q, true, false)
    | "fail" => do let k ← P.nat; let q ← P.nat; pure (k, some q, false, true)
    | _ => P.fail s!"bad crash spec {c}"
  P.kw "OUT"
  P.kw "exit"; let ex ← P.nat
  P.kw "fs"; let fm ← P.tok; let ft ← P.tok; let fb ← P.tok
  P.kw "su"; let e ← P.bool; let af ← P.tok; let rd ← P.tok
  pure ({ main := m, bak := b, tmp := t, pre, k, j, crashed, fail },
        { exit := ex, fsMain := fm, fsTmp := ft, fsBak := fb, existed := e, after := af, read := rd })

def runK (i : KIn) (o : KOut) : Verdict :=
  match contentOf i.main, contentOf i.bak, contentOf i.tmp with
  | some m, some b, some t =>
    let fs0 : FS := { main := m, tmp := t, bak := b }
    let fs1 := preSaves saveOps i.pre 1 fs0
    let new := newC (i.pre + 1)
    let fs2 := if i.fail then failRun new saveOps fs1 i.k (i.j.getD 0) else crashRun new saveOps fs1 i.k i.j
    let su := startup fs2
    -- oracle on the implementation's observation
    let oldL := labelOf fs1.main     -- the complete old version (the previous save's, or the initial file)
    let newL := labelOf (some new)
    if !o.existed then
      .viol s!"C16:crash-no-config no configuration file after a kill of saveState (directory: main={o.fsMain} tmp={o.fsTmp} bak={o.fsBak}); start-up created an empty one"
    else if !(o.read == oldL || o.read == newL) || !(o.after == oldL || o.after == newL) then
      .viol s!"C16:crash-config-damaged after {if i.fail then "a FAILED write in" else "a kill of"} saveState start-up read {o.read} (file {o.after}), neither the complete old ({oldL}) nor the complete new ({newL}) version"
    else
      let ms := s!"{labelOf fs2.main} {labelOf fs2.tmp} {labelOf fs2.bak} su {if su.1 then 1 else 0} {labelOf su.2.2.main} {labelOf (some su.2.1)}"
      let is := s!"{o.fsMain} {o.fsTmp} {o.fsBak} su {if o.existed then 1 else 0} {o.after} {o.read}"
      if ms != is then .diff s!"crash case: model=[{ms}] impl=[{is}]"
      else if i.crashed != (o.exit == 77) then .diff s!"crash case: requested kill={i.crashed} but exit status {o.exit}"
      else
        .ok (["K"] ++ (if i.crashed && i.k > 0 && i.k < saveOps.length then ["crash-mid"] else [])
          ++ (if i.j.isSome && !i.fail then ["inwrite"] else [])
          ++ (if i.fail then ["write-fails"] else [])
          ++ (if !i.crashed then ["complete"] else [])
          ++ (if i.pre > 0 then ["after-saves"] else [])
          ++ (if i.tmp != "-" then ["stale-tmp"] else [])
          ++ (if i.main == "E" then ["fresh"] else [])
          ++ (if o.read == newL then ["reads-new"] else ["reads-old"]))
  | _, _, _ => .bad "bad content label"

/-! ### round trip of the persisted structures (viper / YAML / mapstructure: a trusted parameter of the
model — the model takes "read back = what was written"; the harness exercises it on the real path) -/

/-- a pair of record lengths `ConfigurePulseLengths` accepts -/
def legalLengths (npre nsamp : Int) : Bool := 0 < npre && npre < nsamp

/-- What `RunRPCServer` does with the saved record lengths at start-up ("set some defaults that won't
cause problems down the line"): a non-positive pre-trigger length becomes 400, then a total length that
does not exceed the pre-trigger length becomes twice the pre-trigger length. -/
def sanitizeLengths (npre nsamp : Int) : Int × Int :=
  let npre' := if npre ≤ 0 then 400 else npre
  let nsamp' := if nsamp ≤ npre' then 2 * npre' else nsamp
  (npre', nsamp')

def parseLengths (s : String) : Option (Int × Int) :=
  match s.splitOn "/" with
  | [a, b] => match a.toInt?, b.toInt? with
      | some x, some y => some (x, y)
      | _, _ => none
  | _ => none

def runR (ts : List String) : Verdict :=
  let p : P (Int × Int × String × List String × List String) := do
    P.kw "old"; let _ ← P.nat
    P.kw "nch"; let _ ← P.nat
    P.kw "ntrig"; let _ ← P.nat
    P.kw "st"; let npre ← P.int; let nsamp ← P.int
    P.kw "rej"; let rej ← P.tok
    P.kw "have"; let hv ← P.list P.tok
    P.kw "h"; let _ ← P.tok
    P.kw "OUT"
    let rest ← get
    pure (npre, nsamp, rej, hv, rest)
  match P.run p ts with
  | .error e => .bad e
  | .ok (npre, nsamp, rej, hv, out) =>
    match out with
    | "CRASH" :: cls => .viol s!"C16:restore-crash start-up crashed while restoring a saved configuration ({" ".intercalate cls})"
    | ["ERR"] => .viol "C16:restore-error start-up could not read a saved configuration"
    | _ =>
      let rec pairs : List String → List (String × String)
        | a :: b :: r => (a, b) :: pairs r
        | _ => []
      let got := pairs out
      -- a saved REJECTED request was never the configuration of a source: only "start-up survives" is demanded
      let judged := hv.filter (fun k => k != "status" &&
        !((k == "triangle" && rej.startsWith "tri") || (k == "simpulse" && rej.startsWith "sim")))
      -- record lengths: a legal saved pair must come back unchanged (the property); an illegal one gets the
      -- start-up's documented defaults (the model's rule)
      let stGot := if hv.contains "status" then (got.lookup "status").bind parseLengths else some (sanitizeLengths npre nsamp)
      if hv.contains "status" && legalLengths npre nsamp && stGot != some (npre, nsamp) then
        .viol s!"C16:restore-mismatch-STATUS the record lengths restored at the next start-up ({(got.lookup "status").getD "?"}) differ from the saved legal pair {npre}/{nsamp}"
      else if stGot != some (sanitizeLengths npre nsamp) then
        .diff s!"restore of illegal saved record lengths {npre}/{nsamp}: model={(sanitizeLengths npre nsamp).1}/{(sanitizeLengths npre nsamp).2} impl={(got.lookup "status").getD "?"}"
      else
      match judged.find? (fun k => got.lookup k != some "1") with
      | some k => .viol s!"C16:roundtrip-{k} the {k} settings restored at the next start-up differ from the ones saved"
      | none =>
        if out != ["none"] && got.length != hv.length then .diff "restore report does not match the saved topics"
        else .ok (["R"] ++ hv.map (fun k => "rt-" ++ k) ++ (if rej == "-" then [] else ["rejected-request"])
          ++ (if hv.contains "status" && nsamp == npre + 1 && npre > 0 then ["lengths-boundary"] else [])
          ++ (if hv.contains "status" && !legalLengths npre nsamp then ["lengths-illegal"] else []))

/-! ### a source started while a save is in progress

The configuration store is guarded by one lock that `saveState` holds for its whole duration and that the
start of a source (`PrepareRun`) takes to read the saved trigger settings: a start that arrives during a
save is serialised after it — it never skips the read.  In the model the start therefore reads viper's
settings as the save leaves them. -/

/-- what a starting source reads for `tag` from the configuration store; `inSave` = a save is in progress
when the start arrives (the start blocks on the lock and reads afterwards) -/
def startRestore (low : String → String) (c : Cache) (inSave : Bool) (tag : Tag) : Option Msg :=
  (savedView low (if inSave then (saveStep low c).vip else c.vip)).lookup (low tag)

def runT (ts : List String) : Verdict :=
  let p : P (Bool × Bool × Bool × Bool) := do
    P.kw "nch"; let _ ← P.nat
    P.kw "ngroups"; let _ ← P.nat
    P.kw "nset"; let _ ← P.nat
    P.kw "site"; let _ ← P.tok
    P.kw "h"; let _ ← P.tok
    P.kw "OUT"
    P.kw "waited"; let w ← P.bool
    P.kw "started"; let st ← P.bool
    P.kw "trig"; let tr ← P.bool
    P.kw "persisted"; let pe ← P.bool
    pure (w, st, tr, pe)
  match P.run p ts with
  | .error e => .bad e
  | .ok (w, st, tr, pe) =>
    if !st then .viol "C16:start-during-save-hangs a source started during a configuration save did not come up after the save had finished"
    else if !tr then
      .viol "C16:saved-triggers-not-restored a source started while a configuration save was in progress came up without the saved trigger settings"
    else if !pe then
      .viol "C16:saved-triggers-overwritten after a source was started during a save, the configuration file no longer holds the saved trigger settings"
    else .ok (["T", "start-during-save"] ++ (if w then ["start-waited-for-save"] else []))

/-! ### facts -/

def nameTok : Name → String
  | .main => "main" | .tmp => "tmp" | .bak => "bak"
def polTok : Pol → String
  | .abort => "abort" | .ne => "ne" | .log => "log"
def opTok : FsOp → String
  | .write n p => s!"W:{nameTok n}:{polTok p}"
  | .remove n p => s!"RM:{nameTok n}:{polTok p}"
  | .rename a b p => s!"RN:{nameTok a}:{nameTok b}:{polTok p}"
  | .link a b p => s!"LN:{nameTok a}:{nameTok b}:{polTok p}"

/-- step without its error policy (what the behaviour-level discovery can see) -/
def kindTok : FsOp → String
  | .write n _ => s!"W:{nameTok n}"
  | .remove n _ => s!"RM:{nameTok n}"
  | .rename a b _ => s!"RN:{nameTok a}:{nameTok b}"
  | .link a b _ => s!"LN:{nameTok a}:{nameTok b}"

/-- The F line.  Primary tie (`dyn …`): the steps one real `saveState` was OBSERVED to take (directory
photographed at every crash site), the keys it inserted, the probe tags it did / did not write — compared
with `saveOps`, `saveAdds`, `noSave`.  Secondary (`static ok …`): the go/ast reading of the source, compared
in full (error policies, no-publish set) when it recognises the code; `static unrecognised` is only a tag. -/
def runF (ts : List String) : Verdict :=
  let pdyn : P (List String × List String × List String × List String) := do
    P.kw "OUT"; P.kw "dyn"; P.kw "steps"; let steps ← P.list P.tok
    P.kw "sites"; let _ ← P.list (do let s ← P.tok; let _ ← P.nat; pure s)
    P.kw "adds"; let ad ← P.list P.tok
    P.kw "notsaved"; let ns ← P.list P.tok
    P.kw "saved"; let sv ← P.list P.tok
    pure (steps, ad, ns, sv)
  let pstat : P (Option (List String × List String × List String × List String)) := do
    P.kw "static"
    let k ← P.tok
    if k == "ok" then
      P.kw "ops"; let ops ← P.list P.tok
      P.kw "nopub"; let np ← P.list P.tok
      P.kw "nosave"; let ns ← P.list P.tok
      P.kw "adds"; let ad ← P.list P.tok
      pure (some (ops, np, ns, ad))
    else pure none
  match (do let d ← pdyn; let st ← pstat; pure (d, st) : P _) ts with
  | .error e => .diff s!"facts: the behaviour-level discovery of saveState's steps failed ({e}; line: {" ".intercalate ts})"
  | .ok (((steps, ad, ns, sv), st), _) =>
    if steps != saveOps.map kindTok then
      .diff s!"facts: file-system steps observed in a real saveState: code=[{" ".intercalate steps}] model=[{" ".intercalate (saveOps.map kindTok)}]"
    else if ad != saveAdds then .diff s!"facts: keys inserted by saveState (observed): code=[{" ".intercalate ad}] model=[{" ".intercalate saveAdds}]"
    else if ns.any (fun k => !noSave.contains k) then
      .diff s!"facts: a save did not write probe topic(s) [{" ".intercalate (ns.filter fun k => !noSave.contains k)}] that the model's no-save list does not contain"
    else if sv.any (fun k => noSave.contains k) then
      .diff s!"facts: a save wrote probe topic(s) [{" ".intercalate (sv.filter fun k => noSave.contains k)}] that are on the model's no-save list"
    else match st with
    | none => .ok ["F", "dynamic-steps", "static-reader-unrecognised"]
    | some (ops, np, nsS, adS) =>
      let stepsS := ops.filter (fun t => !t.startsWith "P:")
      if stepsS != saveOps.map opTok then
        .diff s!"facts: file-system steps of saveState as read from the source: code=[{" ".intercalate stepsS}] model=[{" ".intercalate (saveOps.map opTok)}]"
      else if np != noPublish then .diff s!"facts: no-publish set: code=[{" ".intercalate np}] model=[{" ".intercalate noPublish}]"
      else if nsS != noSave then .diff s!"facts: no-save set: code=[{" ".intercalate nsS}] model=[{" ".intercalate noSave}]"
      else if adS != saveAdds then .diff s!"facts: keys inserted by saveState: code=[{" ".intercalate adS}] model=[{" ".intercalate saveAdds}]"
      else .ok ["F", "dynamic-steps", "static-reader-agrees"]

def crashedOut : List String → Option String
  | [] => none
  | "OUT" :: "PANIC" :: r => some ("PANIC " ++ " ".intercalate r)
  | "OUT" :: "HANG" :: _ => some "HANG"
  | _ :: r => crashedOut r

def runLine (ts : List String) : Verdict :=
  match crashedOut ts with
  | some what => .viol s!"C16:crash-{(ts.head?).getD "?"} the real code crashed or hung in this case: {what}"
  | none =>
  match ts with
  | "F" :: r => runF r
  | "H" :: r =>
    let p : P (List (String × Msg) × List HOp × List Out) := do
      P.kw "cfg"; let cfg ← P.list parsePair
      P.kw "ops"; let ops ← P.list parseHOp
      P.kw "OUT"
      let outs ← parseOuts
      pure (cfg, ops, outs)
    match P.run p r with
    | .error e => .bad e
    | .ok (cfg, ops, outs) => runH cfg ops outs
  | "K" :: r =>
    match P.run parseK r with
    | .error e => .bad e
    | .ok (i, o) => runK i o
  | "R" :: r => runR r
  | "T" :: r => runT r
  | _ => .bad "unknown case kind"

end DastardV.C16
