/-
C18 — shared-memory ring buffer.  Transcription of `ringbuffer/ringbuffer.go`
(`Write`, `Read`, `ReadMultipleOf`, `ReadAll`, `BytesReadable`, `DiscardStride`), including
the split-at-wrap copies.  Pointers are `Nat` (the code uses uint64; guard `< 2^64`).
-/
import DastardV.Proto
namespace DastardV.C18

structure RB where
  cap : Nat
  w : Nat
  r : Nat
  mem : List Nat        -- the raw region, `mem.length = cap`
deriving Repr, DecidableEq

def RB.create (cap : Nat) : RB := { cap, w := 0, r := 0, mem := List.replicate cap 0 }

/-- `copy(raw[start:start+src.length], src)` -/
def blit (mem : List Nat) (start : Nat) (src : List Nat) : List Nat :=
  mem.take start ++ src ++ mem.drop (start + src.length)

/-- `Write`: returns the new buffer and the number of bytes accepted.
`none` when `available` is negative (only reachable after a rewinding discard; the Go code
then misbehaves — outside the modelled domain). -/
def write (b : RB) (data : List Nat) : Option (RB × Nat) :=
  let occupied := b.w - b.r + 1
  if b.cap < occupied then none else
  let available := b.cap - occupied
  let written := if data.length > available then available else data.length
  let wAfter := b.w + written
  let dataWraps := wAfter / b.cap > b.w / b.cap
  let rawbegin := b.w % b.cap
  let rawend := if dataWraps then b.cap else wAfter % b.cap
  let firstblocksize := rawend - rawbegin
  let mem1 := blit b.mem rawbegin (data.take firstblocksize)
  let mem2 := if dataWraps then blit mem1 0 ((data.drop firstblocksize).take (written - firstblocksize))
              else mem1
  some ({ b with w := wAfter, mem := mem2 }, written)

/-- `raw[a:b]` -/
def slice (mem : List Nat) (a b : Nat) : List Nat := (mem.drop a).take (b - a)

/-- `Read(size)` (size is a Go `int`, may be negative) -/
def read (b : RB) (size : Int) : RB × List Nat :=
  let available : Int := (b.w : Int) - b.r
  let bytesRead : Int := if size > available then available else size
  if bytesRead ≤ 0 then (b, []) else
  let k := bytesRead.toNat
  let rAfter := b.r + k
  let dataWraps := rAfter / b.cap > b.r / b.cap
  let rawbegin := b.r % b.cap
  let rawend := if dataWraps then b.cap else rAfter % b.cap
  let data := slice b.mem rawbegin rawend
  let data2 := if dataWraps ∧ k > data.length then data ++ b.mem.take (k - data.length) else data
  ({ b with r := rAfter }, data2)

def bytesReadable (b : RB) : Nat :=
  if b.w - b.r ≥ b.cap then b.cap - 1 else b.w - b.r

/-- `ReadMultipleOf(chunksize)`; `none` = the call returns an error.  `chunksize ≥ 1`
(0 divides by zero in the Go code: outside the property's domain). -/
def readMultipleOf (b : RB) (chunk : Nat) : Option (RB × List Nat) :=
  if chunk ≥ b.cap then none else
  let nchunks := bytesReadable b / chunk
  some (read b (chunk * nchunks : Nat))

def readAll (b : RB) : RB × List Nat := read b b.cap

/-- `ReadMinimum(minimum)`: an error when `minimum ≥ size`; otherwise it sleeps until `minimum` bytes are readable
(no model of time here: the precondition `bytesReadable b ≥ minimum` is the caller's) and reads everything -/
def readMinimum (b : RB) (minimum : Nat) : Option (RB × List Nat) :=
  if minimum ≥ b.cap then none else some (readAll b)


/-- `DiscardStride(stride)`, `stride ≥ 1` -/
def discardStride (b : RB) (stride : Nat) : RB :=
  let newRp := if b.w % stride > 0 then b.w - b.w % stride else b.w
  { b with r := newRp }

/-- `DiscardAll()` -/
def discardAll (b : RB) : RB := discardStride b 1

/-! ### Operations, runs -/

inductive Op where
  | write (data : List Nat)
  | read (n : Int)
  | readMult (k : Nat)
  | readAll
  | discard (k : Nat)
  | reopen               -- the reader handle is closed and a new one opened on the same region
deriving Repr, DecidableEq

inductive Res where
  | wrote (n : Nat)
  | bytes (bs : List Nat)
  | err
  | unit
  | unmodelled
deriving Repr, DecidableEq

def step (b : RB) : Op → RB × Res
  | .write d => match write b d with
    | some (b', n) => (b', .wrote n)
    | none => (b, .unmodelled)
  | .read n => let (b', bs) := read b n; (b', .bytes bs)
  | .readMult k => match readMultipleOf b k with
    | some (b', bs) => (b', .bytes bs)
    | none => (b, .err)
  | .readAll => let (b', bs) := readAll b; (b', .bytes bs)
  | .discard k => (discardStride b k, .unit)
  | .reopen => (b, .unit)          -- both pointers live in the shared description: nothing changes

def runOps : RB → List Op → RB × List Res
  | b, [] => (b, [])
  | b, o :: os =>
    let (b1, r) := step b o
    let (b2, rs) := runOps b1 os
    (b2, r :: rs)

/-! ### Oracle: FIFO on observable results.

Replays the results against the logical stream of accepted bytes.  `W` = all bytes accepted
so far, `pos` = logical read position.  A read must return exactly `W[pos, pos+len)`; a
discard to stride `k` must land on a stride boundary without moving backwards.
The oracle needs only the accepted counts and the returned bytes, not the model. -/
structure Ab where
  W : List Nat
  pos : Nat
  rew : Bool := false     -- a (coherent) backwards discard has happened: the known finding
deriving Repr

inductive Bad where
  | readNotWindow | multNotMultiple | rewind | overAccept
deriving Repr, DecidableEq

def chkStep (cap : Nat) (a : Ab) : Op → Res → Except Bad Ab
  | .write d, .wrote n =>
    if n ≤ d.length ∧ (a.W.length + n) - a.pos ≤ cap - 1
    then .ok { a with W := a.W ++ d.take n } else .error .overAccept
  | .read _, .bytes bs =>
    if (a.W.drop a.pos).take bs.length = bs ∧ a.pos + bs.length ≤ a.W.length
    then .ok { a with pos := a.pos + bs.length } else .error .readNotWindow
  | .readAll, .bytes bs =>
    if (a.W.drop a.pos).take bs.length = bs ∧ a.pos + bs.length ≤ a.W.length
    then .ok { a with pos := a.pos + bs.length } else .error .readNotWindow
  | .readMult k, .bytes bs =>
    if bs.length % k ≠ 0 then .error .multNotMultiple
    else if (a.W.drop a.pos).take bs.length = bs ∧ a.pos + bs.length ≤ a.W.length
    then .ok { a with pos := a.pos + bs.length } else .error .readNotWindow
  | .readMult _, .err => .ok a
  | .discard k, .unit =>
    let np := a.W.length - a.W.length % k
    if np < a.pos then
      -- the known finding.  When the bytes from the boundary on are all still in the ring (fewer than
      -- `cap`), the buffer remains a coherent FIFO that re-delivers them: keep judging from the new
      -- position, so that a DIFFERENT failure later in the history is still seen
      if a.W.length - np ≤ cap - 1 then .ok { a with pos := np, rew := true } else .error .rewind
    else .ok { a with pos := np }
  | _, _ => .ok a

def chkRun (cap : Nat) : Ab → List Op → List Res → Except Bad Ab
  | a, [], _ => .ok a
  | a, _, [] => .ok a
  | a, o :: os, r :: rs =>
    match chkStep cap a o r with
    | .ok a' => chkRun cap a' os rs
    | .error e => .error e

/-! ### Driver -/

open P in
def parseOp : P (Op × Res) := do
  let t ← tok
  match t with
  | "W" => do
    let d ← bytes
    let n ← nat
    pure (.write d, .wrote n)
  | "R" => do
    let n ← int
    let bs ← bytes
    pure (.read n, .bytes bs)
  | "M" => do
    let k ← nat
    let t2 ← tok
    if t2 == "E" then pure (.readMult k, .err) else
    if t2 == "-" then pure (.readMult k, .bytes []) else
    match hexBytesAux t2.toList with
    | some bs => pure (.readMult k, .bytes bs)
    | none => fail "bad hex"
  | "A" => do
    let bs ← bytes
    pure (.readAll, .bytes bs)
  | "D" => do
    let k ← nat
    pure (.discard k, .unit)
  | "O" => pure (.reopen, .unit)
  | "N" => do
    -- `ReadMinimum(k)`: refused like `ReadMultipleOf` when k ≥ size, otherwise (once k bytes are readable: the
    -- harness only calls it then, the call would block) it is `Read(size)` = `ReadAll` (see `readMinimum`)
    let k ← nat
    let t2 ← tok
    if t2 == "E" then pure (.readMult k, .err) else
    if t2 == "-" then pure (.readAll, .bytes []) else
    match hexBytesAux t2.toList with
    | some bs => pure (.readAll, .bytes bs)
    | none => fail "bad hex"
  | "X" => pure (.discard 1, .unit)        -- `DiscardAll()` = `DiscardStride(1)`
  | _ => fail s!"bad op {t}"

open P in
/-- an operation with its result and, for a discard, the number of readable bytes the real buffer
reported right after it (`BytesReadable`) -/
def parseOpObs : P (Op × Res × Option Nat) := do
  let (o, r) ← parseOp
  match o with
  | .discard _ | .reopen => do
    let pk ← peek
    match pk.bind String.toNat? with
    | some n => do let _ ← tok; pure (o, r, some n)
    | none => pure (o, r, none)
  | _ => pure (o, r, none)

/-- where did a discard leave the REAL read position?  `|W| − readable` (unless the count is clamped).
It must be the last stride boundary; staying where it was, off the boundary, is the other way to fail
the clause (the known finding is the backwards move). -/
def chkObs (cap : Nat) (a : Ab) : List (Op × Res × Option Nat) → Option String
  | [] => none
  | (o, r, ob) :: rest =>
    match o, ob with
    | .reopen, some rd =>
      -- a reader that attaches again must find exactly the bytes that were readable before
      let want := if a.W.length - a.pos ≥ cap then cap - 1 else a.W.length - a.pos
      if rd = want then chkObs cap a rest
      else some s!"C18:reopen-lost-data after the reader handle was closed and opened again {rd} bytes are readable, {want} were accepted and not yet read (ring of {cap} bytes)"
    | .discard k, some rd =>
      let np := a.W.length - a.W.length % k
      if rd + 1 ≥ cap ∨ rd > a.W.length then none else
      let posImpl := a.W.length - rd
      if posImpl = np then (if np < a.pos then none else chkObs cap { a with pos := np } rest)
      else if posImpl = a.pos ∧ np < a.pos then
        some s!"C18:discard-off-boundary DiscardStride({k}) left the read position at {posImpl}, not on a stride boundary (last boundary {np}, {a.W.length} bytes accepted)"
      else
        some s!"C18:discard-wrong-position DiscardStride({k}) left the read position at {posImpl}; the last stride boundary is {np} (read position before: {a.pos}, {a.W.length} bytes accepted)"
    | _, _ =>
      match chkStep cap a o r with
      | .ok a' => chkObs cap a' rest
      | .error _ => none

/-! ### Large rings: the same model at the level of LENGTHS, contents by generator + hash

A ring of several megabytes cannot be shipped byte by byte through the line protocol.  For such cases the
harness writes bytes from a fixed recurrence (`nextB`), reports every write as `start length accepted` and
every read as `length hash`; the oracle regenerates the accepted stream (a `ByteArray`), and compares the
hash of the window `W[pos, pos+length)` — FIFO content up to collisions of the 32-bit polynomial hash — and
the lengths with the length-level model `L.*` below (theorems `Props/C18Len`: the lengths of the full
model's results are exactly these). -/
namespace L

structure LB where
  cap : Nat
  w : Nat
  r : Nat
deriving Repr, DecidableEq

def write (b : LB) (len : Nat) : Option (LB × Nat) :=
  let occupied := b.w - b.r + 1
  if b.cap < occupied then none else
  let available := b.cap - occupied
  let written := if len > available then available else len
  some ({ b with w := b.w + written }, written)

def read (b : LB) (size : Int) : LB × Nat :=
  let available : Int := (b.w : Int) - b.r
  let bytesRead : Int := if size > available then available else size
  if bytesRead ≤ 0 then (b, 0) else ({ b with r := b.r + bytesRead.toNat }, bytesRead.toNat)

def bytesReadable (b : LB) : Nat :=
  if b.w - b.r ≥ b.cap then b.cap - 1 else b.w - b.r

def readMultipleOf (b : LB) (chunk : Nat) : Option (LB × Nat) :=
  if chunk ≥ b.cap then none else
  some (read b (chunk * (bytesReadable b / chunk) : Nat))

def readAll (b : LB) : LB × Nat := read b b.cap

def discardStride (b : LB) (stride : Nat) : LB :=
  { b with r := if b.w % stride > 0 then b.w - b.w % stride else b.w }

inductive Op where
  | write (start len : Nat)
  | read (n : Int)
  | readMult (k : Nat)
  | readAll
  | discard (k : Nat)
  | reopen
deriving Repr, DecidableEq

/-- what the implementation reported: accepted count; length and hash of the returned bytes; error; the
readable count after a discard / re-open -/
inductive Res where
  | wrote (n : Nat)
  | got (len hash : Nat)
  | err
  | readable (n : Nat)
deriving Repr, DecidableEq

def nextB (b : Nat) : Nat := (b * 31 + 7) % 256

def hashStep (h b : Nat) : Nat := (h * 131 + b + 1) % 4294967296

/-- append `n` generated bytes starting with `b` -/
def pushGen : Nat → Nat → ByteArray → ByteArray
  | 0, _, a => a
  | n + 1, b, a => pushGen n (nextB b) (a.push b.toUInt8)

def winHash (a : ByteArray) (pos len : Nat) : Nat :=
  Nat.fold len (fun i _ h => hashStep h (a.get! (pos + i)).toNat) 0

structure St where
  b : LB
  W : ByteArray
  pos : Nat

inductive V where
  | ok | viol (m : String) | diff (m : String)

/-- one operation with its reported result: property clauses first (violations), then the exact
length-level correspondence -/
def chk (cap : Nat) (s : St) : Op → Res → Except V St
  | .write start len, .wrote n =>
    if ¬ (n ≤ len ∧ (s.W.size + n) - s.pos ≤ cap - 1) then
      .error (.viol "C18:over-accept Write accepted more than the free space")
    else match write s.b len with
      | none => .error (.diff "write with negative room")
      | some (b', m) =>
        if m ≠ n then .error (.diff s!"Write({len}) accepted {n}, model {m}")
        else .ok { s with b := b', W := pushGen n start s.W }
  | op, .got len hash =>
    let isRead := match op with | .read _ | .readMult _ | .readAll => true | _ => false
    if !isRead then .error (.diff "result kind") else
    if (match op with | .readMult k => decide (len % k ≠ 0) | _ => false) then
      .error (.viol "C18:not-multiple ReadMultipleOf returned a non-multiple of the chunk size")
    else if s.pos + len > s.W.size ∨ winHash s.W s.pos len ≠ hash then
      .error (.viol "C18:read-not-fifo a read returned bytes that are not the next bytes of the accepted stream")
    else
      let (b', m) := match op with
        | .read n => read s.b n
        | .readMult k => (readMultipleOf s.b k).getD (s.b, 0)
        | _ => readAll s.b
      if (match op with | .readMult k => (readMultipleOf s.b k).isNone | _ => false) then
        .error (.diff "ReadMultipleOf succeeded, model reports an error")
      else if m ≠ len then .error (.diff s!"a read returned {len} bytes, model {m}")
      else .ok { s with b := b', pos := s.pos + len }
  | .readMult k, .err =>
    if (readMultipleOf s.b k).isSome then .error (.diff "ReadMultipleOf failed, model succeeds") else .ok s
  | .discard k, .readable rd =>
    let np := s.W.size - s.W.size % k
    if np < s.pos then .error (.viol "C18:discard-rewind DiscardStride moved the read position backwards (bytes re-delivered)")
    else
      let b' := discardStride s.b k
      if s.W.size - rd ≠ np then
        .error (.viol s!"C18:discard-wrong-position DiscardStride({k}) left the read position at {s.W.size - rd}; the last stride boundary is {np}")
      else .ok { s with b := b', pos := np }
  | .reopen, .readable rd =>
    let want := bytesReadable s.b
    if rd = want then .ok s
    else .error (.viol s!"C18:reopen-lost-data after the reader handle was closed and opened again {rd} bytes are readable, {want} were accepted and not yet read (ring of {cap} bytes)")
  | _, _ => .error (.diff "result kind")

def chkAll (cap : Nat) : St → List (Op × Res) → Except V St
  | s, [] => .ok s
  | s, (o, r) :: rest =>
    match chk cap s o r with
    | .ok s' => chkAll cap s' rest
    | .error e => .error e

open P in
def parseOp : P (Op × Res) := do
  let t ← tok
  match t with
  | "W" => do
    let st ← nat; let len ← nat; let n ← nat
    pure (.write st len, .wrote n)
  | "R" => do
    let n ← int; let len ← nat; let h ← nat
    pure (.read n, .got len h)
  | "M" => do
    let k ← nat
    let pk ← peek
    if pk == some "E" then do let _ ← tok; pure (.readMult k, .err)
    else do let len ← nat; let h ← nat; pure (.readMult k, .got len h)
  | "A" => do
    let len ← nat; let h ← nat
    pure (.readAll, .got len h)
  | "D" => do
    let k ← nat; let rd ← nat
    pure (.discard k, .readable rd)
  | "O" => do
    let rd ← nat
    pure (.reopen, .readable rd)
  | _ => fail s!"bad op {t}"

def runLine (ts : List String) : Verdict :=
  let p : P (Nat × List (Op × Res) × Option String) := do
    P.kw "lens"; P.kw "cap"; let cap ← P.nat
    P.kw "ops"; let ops ← P.list parseOp
    let pk ← P.peek
    if pk == some "PANIC" then
      let _ ← P.tok
      let what ← P.tok
      pure (cap, ops, some what)
    else pure (cap, ops, none)
  match P.run p ts with
  | .error e => .bad e
  | .ok (cap, ors, panicked) =>
    match chkAll cap { b := { cap, w := 0, r := 0 }, W := ByteArray.empty, pos := 0 } ors with
    | .error (.viol m) => .viol m
    | .error (.diff m) => .diff m
    | .error .ok => .bad "internal"
    | .ok s =>
      if let some what := panicked then
        .viol s!"C18:panic a ring-buffer operation ({what}) panicked after {ors.length} property-conforming operations on a buffer of {cap} bytes"
      else
        let backlog := ors.any fun (o, r) => match o, r with
          | .readMult _, .got len _ => len > 4194304
          | .read _, .got len _ => len > 4194304
          | .readAll, .got len _ => len > 4194304
          | _, _ => false
        .ok ((if s.W.size ≥ cap then ["wrap"] else []) ++ ["large-ring"] ++ (if backlog then ["read-over-4MiB"] else []) ++
          (if ors.any (fun (o, _) => match o with | .readMult _ => true | _ => false) then ["mult"] else []))

end L

def resEq : Res → Res → Bool
  | .unmodelled, _ => true
  | a, b => a == b

def runLine (ts : List String) : Verdict :=
  if ts.head? == some "lens" then L.runLine ts else
  let p : P (Nat × List (Op × Res × Option Nat) × Option String) := do
    P.kw "cap"; let cap ← P.nat
    P.kw "ops"; let ops ← P.list parseOpObs
    let pk ← P.peek
    if pk == some "PANIC" then
      let _ ← P.tok
      let what ← P.tok
      pure (cap, ops, some what)
    else pure (cap, ops, none)
  match P.run p ts with
  | .error e => .bad e
  | .ok (cap, orsObs, panicked) =>
    match chkObs cap { W := [], pos := 0 } orsObs with
    | some e => .viol e
    | none =>
    let ors := orsObs.map fun x => (x.1, x.2.1)
    let ops := ors.map (·.1)
    let impl := ors.map (·.2)
    let (_, mres) := runOps (RB.create cap) ops
    let oracle := chkRun cap { W := [], pos := 0 } ops impl
    match oracle with
    | .error .rewind => .viol "C18:discard-rewind DiscardStride moved the read position backwards (bytes re-delivered)"
    | .error .readNotWindow => .viol "C18:read-not-fifo a read returned bytes that are not the next bytes of the accepted stream"
    | .error .multNotMultiple => .viol "C18:not-multiple ReadMultipleOf returned a non-multiple of the chunk size"
    | .error .overAccept => .viol "C18:over-accept Write accepted more than the free space"
    | .ok a =>
      if a.rew then .viol "C18:discard-rewind DiscardStride moved the read position backwards (bytes re-delivered)" else
      -- the operations completed so far satisfy the property; if the next one panicked inside the real
      -- ring buffer that is the violation (no sequence of writes and reads may do that)
      if let some what := panicked then
        .viol s!"C18:panic a ring-buffer operation ({what}) panicked after {ors.length} property-conforming operations on a buffer of {cap} bytes"
      else
      if !(List.zipWith resEq mres impl).all id || mres.length != impl.length then
        .diff s!"results differ at op {(firstDiff (mres.map fun r => if r == .unmodelled then none else some r) (impl.zip mres |>.map fun (i, m) => if m == .unmodelled then none else some i) 0).getD 0}"
      else
        let wrapped := a.W.length ≥ cap
        let tags := (if wrapped then ["wrap"] else []) ++
          (if ops.any (fun o => match o with | .discard _ => true | _ => false) then ["discard"] else []) ++
          (if ops.any (fun o => match o with | .readMult _ => true | _ => false) then ["mult"] else []) ++
          (if (ors.any fun (o, r) => match o, r with | .write d, .wrote n => n < d.length | _, _ => false) then ["full"] else []) ++
          (if (ors.any fun (o, r) => match o, r with | .read n, .bytes bs => n > 0 && bs.isEmpty | _, _ => false) then ["empty"] else [])
        .ok tags

end DastardV.C18
