/-
C19 — channel identity.  Transcription of

* `rcCode` and the `RowColCode` accessors (data_source.go),
* `LanceroSource.PrepareChannels` (validation of the card/column separations, the state change a
  rejection makes, and the numbering loop),
* the group bookkeeping of `AbacoSource.Sample` (map of groups, overlap check, sort) and
  `AbacoSource.PrepareChannels`,
* `TriangleSource/SimPulseSource.Sample` + the default `AnySource.PrepareChannels`,
* `RoachSource.PrepareChannels`,
* channel-name and output-file-name formation (`fmt.Sprintf("err%d"/"chan%d")`, the `%s.%s` tail of the
  file-name pattern in `writeControlStart`) and the identity handed to the file writers.

Go `int` is modelled as `Int` (no 64-bit overflow), geometry sizes as `Nat`.
Core Lean only.
-/
import DastardV.Proto
namespace DastardV.C19

/-! ### Row/column code -/

/-- `rcCode(row, col, rows, cols)`: four 16-bit fields, `cols` highest. -/
def rcCode (row col rows cols : Nat) : Nat :=
  (((cols % 65536) * 65536 + rows % 65536) * 65536 + col % 65536) * 65536 + row % 65536

def rcRow (c : Nat) : Nat := c % 65536
def rcCol (c : Nat) : Nat := c / 65536 % 65536
def rcRows (c : Nat) : Nat := c / 4294967296 % 65536
def rcCols (c : Nat) : Nat := c / 281474976710656 % 65536

/-! ### Names -/

def digitChar (d : Nat) : Char := Char.ofNat (48 + d)

/-- decimal digits, least significant first (`fuel > n` is always enough) -/
def natDigitsRev : Nat → Nat → List Char
  | 0, _ => []
  | f + 1, n => if n < 10 then [digitChar n] else digitChar (n % 10) :: natDigitsRev f (n / 10)

def natDigits (n : Nat) : List Char := (natDigitsRev (n + 1) n).reverse

/-- Go's `%d` -/
def fmtInt (i : Int) : List Char :=
  if i < 0 then '-' :: natDigits i.natAbs else natDigits i.toNat

def errPfx : List Char := ['e', 'r', 'r']
def chanPfx : List Char := ['c', 'h', 'a', 'n']

/-- `fmt.Sprintf("err%d", n)` / `fmt.Sprintf("chan%d", n)` -/
def chanName (isErr : Bool) (num : Int) : List Char :=
  (if isErr then errPfx else chanPfx) ++ fmtInt num

def extLJH : List Char := ['l', 'j', 'h']
def extOFF : List Char := ['o', 'f', 'f']
def extLJH3 : List Char := ['l', 'j', 'h', '3']

/-- `fmt.Sprintf(filenamePattern, name, ext)` with `filenamePattern = pfx ++ "%s.%s"` -/
def fileName (pfx name ext : List Char) : List Char := pfx ++ name ++ '.' :: ext

/-! ### Tables -/

structure Stream where
  name : List Char
  num : Int
  code : Nat
deriving DecidableEq, Repr

structure Group where
  first : Int
  n : Nat
deriving DecidableEq, Repr

structure Tables where
  nchan : Nat
  streams : List Stream
  groups : List Group
deriving DecidableEq, Repr

def Group.range (g : Group) : List Int := (List.range g.n).map (fun (r : Nat) => g.first + (r : Int))

def mkStream (isErr : Bool) (num : Int) (row col rows cols : Nat) : Stream :=
  { name := chanName isErr num, num := num, code := rcCode row col rows cols }

/-! ### Lancero -/

structure Dev where
  devnum : Int
  ncols : Nat
  nrows : Nat
deriving DecidableEq, Repr

structure LCfg where
  firstRow : Int
  sepCards : Int
  sepCols : Int
  devs : List Dev
deriving DecidableEq, Repr

inductive LErr where
  | negCards | negCols | rowsExceedColSep | colsExceedCardSep
deriving DecidableEq, Repr

/-- column separation used for the card-separation check -/
def colsep (sepCols : Int) (d : Dev) : Int := if sepCols > 0 then sepCols else d.nrows

/-- the validation at the top of `PrepareChannels`; `none` = accepted -/
def lanceroValidate (c : LCfg) : Option LErr :=
  if c.sepCards < 0 then some .negCards
  else if c.sepCols < 0 then some .negCols
  else if c.sepCols > 0 ∧ c.devs.any (fun d => decide ((d.nrows : Int) > c.sepCols)) then some .rowsExceedColSep
  else if c.sepCards > 0 ∧ c.devs.any (fun d => decide (colsep c.sepCols d * d.ncols > c.sepCards)) then
    some .colsExceedCardSep
  else none

/-- the configuration the source is left with after a rejection (`ls.chanSepColumns = 0` on both
size errors) -/
def afterReject (c : LCfg) : LErr → LCfg
  | .rowsExceedColSep => { c with sepCols := 0 }
  | .colsExceedCardSep => { c with sepCols := 0 }
  | _ => c

/-- one detector pixel = an error stream and a feedback stream -/
structure Pixel where
  card : Nat
  col : Nat
  row : Nat
  nrows : Nat
  ncols : Nat
  num : Int
deriving DecidableEq, Repr

/-- `for row := 0; row < nrows; row++ { … cnum++ }`: pixels and the final `cnum` -/
def rowLoop (card col nrows ncols : Nat) : Nat → Nat → Int → List Pixel × Int
  | 0, _, cnum => ([], cnum)
  | k + 1, row, cnum =>
    let r := rowLoop card col nrows ncols k (row + 1) (cnum + 1)
    ({ card, col, row, nrows, ncols, num := cnum } :: r.1, r.2)

/-- loop state: `cnum`, `thisColFirstCnum` -/
structure St where
  cnum : Int
  tcf : Int
deriving DecidableEq, Repr

structure Acc where
  groups : List Group
  pixels : List Pixel
deriving DecidableEq, Repr

/-- `for col := 0; col < ncols; col++ { … }` of one device -/
def colLoop (sepCols : Int) (card nrows ncols : Nat) : Nat → Nat → St → Acc × St
  | 0, _, s => (⟨[], []⟩, s)
  | k + 1, col, s =>
    let cnum1 := if sepCols > 0 then s.tcf + sepCols else s.cnum
    let rows := rowLoop card col nrows ncols nrows 0 cnum1
    let rest := colLoop sepCols card nrows ncols k (col + 1) { cnum := rows.2, tcf := cnum1 }
    (⟨{ first := cnum1, n := nrows } :: rest.1.groups, rows.1 ++ rest.1.pixels⟩, rest.2)

/-- `for _, device := range ls.active { … }` -/
def devLoop (c : LCfg) : List Dev → Nat → St → Acc
  | [], _, _ => ⟨[], []⟩
  | d :: ds, card, s =>
    let s1 : St := if c.sepCards > 0 then
        { cnum := d.devnum * c.sepCards + c.firstRow, tcf := d.devnum * c.sepCards + c.firstRow - c.sepCols }
      else s
    let cl := colLoop c.sepCols card d.nrows d.ncols d.ncols 0 s1
    let rest := devLoop c ds (card + 1) cl.2
    ⟨cl.1.groups ++ rest.groups, cl.1.pixels ++ rest.pixels⟩

/-- the numbering loop without the validation in front of it -/
def lanceroLoop (c : LCfg) : Acc :=
  devLoop c c.devs 0 { cnum := c.firstRow, tcf := c.firstRow - c.sepCols }

def Pixel.streams (p : Pixel) : List Stream :=
  [mkStream true p.num p.row p.col p.nrows p.ncols, mkStream false p.num p.row p.col p.nrows p.ncols]

def lanceroNchan (devs : List Dev) : Nat := (devs.map (fun d => d.ncols * d.nrows * 2)).sum

def lanceroTables (c : LCfg) : Tables :=
  let a := lanceroLoop c
  { nchan := lanceroNchan c.devs, streams := a.pixels.flatMap Pixel.streams, groups := a.groups }

/-- `LanceroSource.PrepareChannels` -/
def lanceroPrepare (c : LCfg) : Except LErr Tables :=
  match lanceroValidate c with
  | some e => .error e
  | none => .ok (lanceroTables c)

/-- the configuration after one call -/
def lanceroNext (c : LCfg) : LCfg :=
  match lanceroValidate c with
  | some e => afterReject c e
  | none => c

/-! #### One `LanceroSource` object across calls

The RPC server keeps one `LanceroSource` for its whole life; `PrepareChannels` runs again on it after every
(re)configuration and after a failed or self-terminated start.  What survives between calls: the numbering
parameters (changed by a size rejection) and the slice `groupKeysSorted`, which an accepted call re-initialises
(`ls.groupKeysSorted = make([]GroupIndex, 0)`) before appending one group per column. -/

structure LObj where
  cfg : LCfg
  groups : List Group       -- `ls.groupKeysSorted` as the previous calls left it
deriving DecidableEq, Repr

/-- `PrepareChannels` on the object -/
def lanceroObjPrepare (o : LObj) : LObj × Option Tables :=
  match lanceroValidate o.cfg with
  | some e => ({ o with cfg := afterReject o.cfg e }, none)      -- returns before any table is touched
  | none =>
    let kept : List Group := []                                   -- the re-initialisation
    let t := lanceroTables o.cfg
    let t' : Tables := { t with groups := kept ++ t.groups }
    ({ o with groups := t'.groups }, some t')

inductive LStep where
  | configure (c : LCfg)     -- Configure + Sample (new active cards, geometry, numbering parameters), then PrepareChannels
  | retry                    -- PrepareChannels again
deriving Repr

def lanceroObjStep (o : LObj) : LStep → LObj × Option Tables
  | .configure c => lanceroObjPrepare { o with cfg := c }
  | .retry => lanceroObjPrepare o

/-- the configuration a step's call sees -/
def lanceroStepCfg (o : LObj) : LStep → LCfg
  | .configure c => c
  | .retry => o.cfg

def lanceroRun (o : LObj) : List LStep → List (Option Tables)
  | [] => []
  | s :: ss => (lanceroObjStep o s).2 :: lanceroRun (lanceroObjStep o s).1 ss

def LObj.fresh : LObj := { cfg := { firstRow := 0, sepCards := 0, sepCols := 0, devs := [] }, groups := [] }

/-! #### `LanceroSource.Configure`: which cards become active

`ActiveCards` is any list of integers.  The loop activates the cards in list order and stops with an error at the
first entry that names no device or names a device that is already active (`contains(ls.active, dev)`: ANY earlier
position, not only the previous one).  The numbering parameters are stored, and `ls.active` reset, before the loop:
a refused request leaves the new parameters and the cards activated before the offending entry. -/

structure LReq where
  active : List Int
  firstRow : Int
  sepCards : Int
  sepCols : Int
deriving Repr

/-- the loop over `config.ActiveCards`; `acc` = `ls.active` so far; `avail` = `ls.devices` (keyed by device number) -/
def activateLoop (avail : List Dev) : List Int → List Dev → List Dev × Bool
  | [], acc => (acc, true)
  | c :: cs, acc =>
    match avail.find? (fun d => d.devnum == c) with
    | none => (acc, false)
    | some d =>
      if acc.any (fun a => a.devnum == c) then (acc, false)
      else activateLoop avail cs (acc ++ [d])

def lanceroConfigure (avail : List Dev) (o : LObj) (r : LReq) : LObj × Bool :=
  let res := activateLoop avail r.active []
  ({ o with cfg := { firstRow := r.firstRow, sepCards := r.sepCards, sepCols := r.sepCols, devs := res.1 } }, res.2)

/-- the true geometry of stream positions: (row, col, rows, cols), one entry per pixel -/
def devGeom (d : Dev) : List (Nat × Nat × Nat × Nat) :=
  (List.range d.ncols).flatMap fun col => (List.range d.nrows).map fun row => (row, col, d.nrows, d.ncols)

def lanceroGeom (devs : List Dev) : List (Nat × Nat × Nat × Nat) := devs.flatMap devGeom

/-! ### Sorting, duplicate detection -/

def insertG (g : Group) : List Group → List Group
  | [] => [g]
  | h :: t => if g.first ≤ h.first then g :: h :: t else h :: insertG g t

/-- `sort.Sort(ByGroup(keys))` — by first channel (the result is unique when first channels differ) -/
def sortG : List Group → List Group
  | [] => []
  | g :: t => insertG g (sortG t)

def strictAdj : List Int → Bool
  | a :: b :: r => decide (a < b) && strictAdj (b :: r)
  | _ => true

/-- no value occurs twice (sort, then compare neighbours) -/
def dupFree (l : List Int) : Bool := strictAdj (l.mergeSort (fun a b => decide (a ≤ b)))

def dedupAdj : List Int → List Int
  | a :: b :: r => if a = b then dedupAdj (b :: r) else a :: dedupAdj (b :: r)
  | l => l

/-- the two lists have the same set of values -/
def sameSet (a b : List Int) : Bool :=
  dedupAdj (a.mergeSort (fun x y => decide (x ≤ y))) == dedupAdj (b.mergeSort (fun x y => decide (x ≤ y)))

/-- the two lists hold the same values the same number of times -/
def sameBag (a b : List Int) : Bool :=
  a.mergeSort (fun x y => decide (x ≤ y)) == b.mergeSort (fun x y => decide (x ≤ y))

/-! ### Abaco -/

/-- keys of the `groups` map after all sampled packets were seen (first occurrence order; the order is
irrelevant for everything that follows) -/
def abacoKeys : List Group → List Group
  | [] => []
  | g :: t => g :: (abacoKeys t).filter (fun h => h != g)

def allChans (gs : List Group) : List Int := gs.flatMap Group.range

/-- "Verify that no channel # appears in 2 groups." -/
def abacoOverlap (keys : List Group) : Bool := !dupFree (allChans keys)

def abacoCols (ncol : Nat) : List Group → Nat → List Stream
  | [], _ => []
  | g :: gs, col =>
    (List.range g.n).map (fun (row : Nat) => mkStream false ((row : Int) + g.first) row col g.n ncol)
      ++ abacoCols ncol gs (col + 1)

def abacoNchan (keys : List Group) : Nat := (keys.map (·.n)).sum

/-- `Sample` (group bookkeeping) then `PrepareChannels`; `none` = rejected by the overlap check -/
def abacoPrepare (pkts : List Group) : Option Tables :=
  let keys := abacoKeys pkts
  if abacoOverlap keys then none else
  let sorted := sortG keys
  some { nchan := abacoNchan keys, streams := abacoCols keys.length sorted 0, groups := sorted }

def abacoGeomAux (ncol : Nat) : List Group → Nat → List (Nat × Nat × Nat × Nat)
  | [], _ => []
  | g :: gs, col => (List.range g.n).map (fun row => (row, col, g.n, ncol)) ++ abacoGeomAux ncol gs (col + 1)

/-- the true geometry: each group is a column, groups ordered by first channel -/
def abacoGeom (pkts : List Group) : List (Nat × Nat × Nat × Nat) :=
  let keys := abacoKeys pkts
  abacoGeomAux keys.length (sortG keys) 0

/-! ### Simulated sources (default `AnySource.PrepareChannels`) and ROACH -/

/-- `Sample` of a simulated source holding `n` channels, then `AnySource.PrepareChannels` -/
def genericTables (n : Nat) : Tables :=
  { nchan := n,
    streams := (List.range n).map (fun (i : Nat) => mkStream false (i : Int) 0 i 1 n),
    groups := [{ first := 0, n := n }] }

/-- `Configure` (rejects `nchan < 1`), `Sample`, `AnySource.PrepareChannels` -/
def genericPrepare (nchan : Int) : Option Tables :=
  if nchan < 1 then none else some (genericTables nchan.toNat)

/-! #### One simulated source object across requests

`Configure` refuses `Nchan < 1` at once; otherwise it stores the channel count and only then may refuse the
request because one buffer would last more than 4 s (`late`).  A later `Start` runs `Sample` (which builds
names, numbers and row/column codes for the stored count) and `PrepareChannels`. -/

/-- the channel count the object holds (0 = Go zero value, never configured) -/
abbrev GObj := Nat

/-- a `Configure` request: new state and whether it was accepted -/
def genericConfigure (g : GObj) (nchan : Int) (late : Bool) : GObj × Bool :=
  if nchan < 1 then (g, false) else (nchan.toNat, !late)

/-- the table-building part of `Start` -/
def genericStart (g : GObj) : Tables := genericTables g

def genericGeom (n : Nat) : List (Nat × Nat × Nat × Nat) := (List.range n).map fun i => (0, i, 1, n)

/-- `RoachSource.PrepareChannels` -/
def roachPrepare (n : Nat) : Tables :=
  { nchan := n,
    streams := (List.range n).map (fun (i : Nat) => mkStream false (i : Int) i 0 n 1),
    groups := [{ first := 0, n := n }] }

def roachGeom (n : Nat) : List (Nat × Nat × Nat × Nat) := (List.range n).map fun i => (i, 0, n, 1)

/-! ### What a START hands to the file writers -/

structure FileId where
  ljh : List Char       -- file names without the directory/date/run prefix
  ljh3 : List Char
  chanName : List Char
  chanNum : Int
  row : Nat
  col : Nat
  rows : Nat
  cols : Nat
deriving DecidableEq, Repr

/-- `writeControlStart`: names from `dsp.Name = chanNames[i]`, geometry decoded from `rowColCodes[i]` -/
def startFiles (pfx : List Char) (t : Tables) : List FileId :=
  t.streams.map fun s =>
    { ljh := fileName pfx s.name extLJH, ljh3 := fileName pfx s.name extLJH3, chanName := s.name, chanNum := s.num,
      row := rcRow s.code, col := rcCol s.code, rows := rcRows s.code, cols := rcCols s.code }

/-! ### Inputs, outputs, oracle -/

inductive Input where
  | lancero (c : LCfg)
  | abaco (pkts : List Group)
  | generic (nchan : Int)
  | roach (nchan : Nat)
deriving Repr

def Input.isTDM : Input → Bool
  | .lancero _ => true
  | _ => false

/-- true geometry per *pixel* (Lancero: two streams per pixel) -/
def Input.geom : Input → List (Nat × Nat × Nat × Nat)
  | .lancero c => lanceroGeom c.devs
  | .abaco p => abacoGeom p
  | .generic n => genericGeom n.toNat
  | .roach n => roachGeom n

/-- the model: `none` = configuration rejected -/
def Input.model : Input → Option Tables
  | .lancero c => (lanceroPrepare c).toOption
  | .abaco p => abacoPrepare p
  | .generic n => genericPrepare n
  | .roach n => some (roachPrepare n)

/-- every dimension of the geometry fits the 16-bit fields of the row/column code -/
def Input.fits16 : Input → Bool
  | .lancero c => c.devs.all fun d => decide (d.nrows < 65536) && decide (d.ncols < 65536)
  | .abaco p => decide ((abacoKeys p).length < 65536) && (abacoKeys p).all fun g => decide (g.n < 65536)
  | .generic n => decide (n < 65536)
  | .roach n => decide (n < 65536)

def evens {α} : List α → List α
  | a :: _ :: r => a :: evens r
  | l => l

def odds {α} : List α → List α
  | _ :: b :: r => b :: odds r
  | _ => []

def dup2 {α} (l : List α) : List α := l.flatMap fun x => [x, x]

/-- injective code of a name as a number (for fast duplicate detection) -/
def encName (cs : List Char) : Nat := cs.foldr (fun c acc => acc * 2097152 + (c.toNat + 1)) 0

def decoded (s : Stream) : Nat × Nat × Nat × Nat := (rcRow s.code, rcCol s.code, rcRows s.code, rcCols s.code)

inductive Bad where
  | tableLengths | partners | numberCollision | nameCollision | groupsCover | geometry
  | fileCollision | headerIdentity
deriving DecidableEq, Repr

/-- The property, clause by clause, on identity tables of an ACCEPTED configuration.
`tdm` = two streams (error, feedback) per pixel; `geom` = the true geometry per pixel; `dec` = what the
row/column code of each stream decodes to (by the real accessors when judging the implementation). -/
def chkTables (tdm : Bool) (geom : List (Nat × Nat × Nat × Nat)) (t : Tables)
    (dec : List (Nat × Nat × Nat × Nat)) : Option Bad :=
  let nums := t.streams.map (·.num)
  let pix := if tdm then evens nums else nums
  if t.streams.length ≠ t.nchan then some .tableLengths
  -- TDM error/feedback partners share one channel number
  else if tdm ∧ (evens nums ≠ odds nums) then some .partners
  -- channel numbers of different (card, column, row) never collide
  else if !dupFree pix then some .numberCollision
  -- each stream has its own name
  else if !dupFree (t.streams.map fun s => (encName s.name : Int)) then some .nameCollision
  -- the reported groups cover exactly the channel numbers in use: every number in use lies in exactly one
  -- reported group and no group has a member that is not in use (the members of all groups, with
  -- multiplicity, are a rearrangement of the numbers in use)
  else if !sameBag pix (allChans t.groups) then some .groupsCover
  -- the row/column codes decode to the true geometry
  else if dec ≠ (if tdm then dup2 geom else geom) then some .geometry
  else none

/-- The property on what a START gave the file writers, relative to the tables reported as status. -/
def chkFiles (t : Tables) (fs : List FileId) : Option Bad :=
  if ¬ (fs.map (·.ljh) ++ fs.map (·.ljh3)).Nodup then some .fileCollision
  else if fs.map (fun f => (f.chanName, f.chanNum, f.row, f.col, f.rows, f.cols)) ≠
      t.streams.map (fun s => (s.name, s.num, rcRow s.code, rcCol s.code, rcRows s.code, rcCols s.code)) then
    some .headerIdentity
  else none

/-- the whole oracle: a rejected configuration satisfies the property vacuously -/
def chkC19 (inp : Input) (out : Option Tables) : Option Bad :=
  match out with
  | none => none
  | some t => chkTables inp.isTDM inp.geom t (t.streams.map decoded)

def Bad.sig : Bad → String
  | .tableLengths => "C19:table-lengths identity tables of unequal length / not nchan entries"
  | .partners => "C19:partners an error/feedback pair does not share one channel number"
  | .numberCollision => "C19:number-collision two different (card,column,row) got the same channel number in an accepted configuration"
  | .nameCollision => "C19:name-collision two streams share a name (and so an output file name)"
  | .groupsCover => "C19:groups-cover the reported channel groups do not cover exactly the channel numbers in use (a number in no group, in two groups, or a group member not in use)"
  | .geometry => "C19:rccode-geometry a row/column code does not decode to the true geometry although every dimension fits 16 bits"
  | .fileCollision => "C19:filename-collision two output files share a name"
  | .headerIdentity => "C19:header-identity file header identity differs from the reported tables"

/-! ### Driver -/

structure RStream where
  s : Stream
  dec : Nat × Nat × Nat × Nat      -- decoded by the real accessors
deriving Repr

structure ROut where
  nchanI : Int
  rs : List RStream
  groups : List Group
deriving Repr

def ROut.tables (o : ROut) : Tables :=
  { nchan := o.nchanI.toNat, streams := o.rs.map (·.s), groups := o.groups }

open P in
def pName : P (List Char) := do
  let t ← tok
  pure t.toList

open P in
def pStream : P RStream := do
  let nm ← pName
  let num ← int
  let code ← nat
  let r ← nat; let c ← nat; let rows ← nat; let cols ← nat
  pure { s := { name := nm, num, code }, dec := (r, c, rows, cols) }

open P in
def pGroup : P Group := do
  let f ← int
  let n ← nat
  pure { first := f, n }

inductive RRes where
  | rejected
  | configOk
  | conf (ok : Bool) (active : List Int)     -- a Lancero Configure answer and the active cards it left
  | panic
  | tables (o : ROut)
deriving Repr

open P in
def pRes : P RRes := do
  let t ← tok
  match t with
  | "E" => pure .rejected
  | "K" => pure .configOk
  | "KA" => do let l ← list int; pure (.conf true l)
  | "EA" => do let l ← list int; pure (.conf false l)
  | "PANIC" => pure .panic
  | "T" => do
    let nchan ← int
    let _cpp ← int
    let rs ← list pStream
    kw "G"
    let gs ← list pGroup
    pure (.tables { nchanI := nchan, rs, groups := gs })
  | _ => fail s!"bad result {t}"

inductive RFiles where
  | none
  | err
  | panic
  | files (fs : List FileId)
deriving Repr

open P in
def pFile : P FileId := do
  let a ← pName; let b ← pName; let c ← pName
  let num ← int
  let r ← nat; let cl ← nat; let rows ← nat; let cols ← nat
  pure { ljh := a, ljh3 := b, chanName := c, chanNum := num, row := r, col := cl, rows, cols }

open P in
def pFiles : P RFiles := do
  let e ← atEnd
  if e then pure .none else
  let t ← tok
  match t with
  | "FERR" => pure .err
  | "PANIC" => pure .panic
  | "F" => do
    let fs ← list pFile
    if fs.isEmpty then pure .none else pure (.files fs)
  | _ => fail s!"bad files {t}"

open P in
def pDev : P Dev := do
  let d ← int
  let nc ← nat
  let nr ← nat
  pure { devnum := d, ncols := nc, nrows := nr }

/-- judge one reported result against the oracle and the model -/
def judge (inp : Input) (mres : Option Tables) (res : RRes) (what : String) : Except Verdict (Option Tables) :=
  match res with
  | .panic => .error (.viol s!"C19:panic the real code panicked ({what})")
  | .configOk => .error (.bad s!"{what}: a Configure answer where tables are expected")
  | .conf _ _ => .error (.bad s!"{what}: a Configure answer where tables are expected")
  | .rejected =>
    match mres with
    | none => .ok none
    | some _ => .error (.diff s!"{what}: implementation rejected, model accepts")
  | .tables o =>
    let t := o.tables
    if o.nchanI < 0 then .error (.viol (Bad.sig .tableLengths)) else
    match chkTables inp.isTDM inp.geom t (o.rs.map (·.dec)) with
    | some .geometry =>
      -- a dimension beyond 16 bits is the recorded finding; a wrong code within the limits is not
      if inp.fits16 then .error (.viol (Bad.sig .geometry))
      else .error (.viol "C19:rccode-overflow16 a dimension above 65535 does not fit the 16-bit fields of the row/column code: it decodes to the wrong geometry")
    | some b => .error (.viol (b.sig ++ s!" [{what}]"))
    | none =>
      match mres with
      | none => .error (.diff s!"{what}: implementation accepted, model rejects")
      | some m =>
        if m.nchan ≠ t.nchan then .error (.diff s!"{what}: nchan model {m.nchan} impl {t.nchan}")
        else if m.groups ≠ t.groups then .error (.diff s!"{what}: groups differ")
        else if m.streams ≠ t.streams then
          .error (.diff s!"{what}: streams differ at {(firstDiff m.streams t.streams 0).getD 0}")
        else if o.rs.any (fun r => decoded r.s != r.dec) then .error (.diff s!"{what}: accessor decode differs")
        else .ok (some t)

def judgeFiles (t : Option Tables) (f : RFiles) : Except Verdict (List String) :=
  match f, t with
  | .none, _ => .ok []
  | .panic, _ => .error (.viol "C19:panic the real code panicked (START)")
  | .err, _ => .error (.diff "START returned an error")
  | .files _, none => .error (.diff "files without tables")
  | .files fs, some t =>
    match chkFiles t fs with
    | some b => .error (.viol b.sig)
    | none =>
      if startFiles [] t ≠ fs then .error (.diff "file identity differs from model")
      else .ok ["start"]

def sizeTag (t : Option Tables) : List String :=
  match t with
  | none => []
  | some t => if t.streams.length ≥ 4 then ["multi"] else if t.streams.length ≥ 1 then ["few"] else ["empty"]

def lanceroTags (c : LCfg) (t1 t2 : Option Tables) : List String :=
  let v := lanceroValidate c
  let raw := (lanceroLoop c).pixels.map (·.num)
  let collide := !dupFree raw
  (match v with
    | none => ["accepted"]
    | some .negCards => ["rej-negcards"]
    | some .negCols => ["rej-negcols"]
    | some .rowsExceedColSep => ["rej-colsep-small"]
    | some .colsExceedCardSep => ["rej-cardsep-small"]) ++
  (if v.isSome ∧ collide then ["would-collide"] else []) ++
  (if v.isSome ∧ !collide then ["rejected-safe"] else []) ++
  (if c.sepCards > 0 then ["sepcards"] else []) ++
  (if c.sepCols > 0 then ["sepcols"] else []) ++
  (if c.devs.length > 1 then ["multicard"] else []) ++
  (if c.sepCards > 0 ∧ ¬ (c.devs.map (·.devnum)).Pairwise (· < ·) then ["cards-unordered"] else []) ++
  (if c.firstRow ≤ 0 then ["firstrow<=0"] else []) ++
  (if t1.isNone ∧ t2.isSome then ["retry-accepted"] else []) ++
  sizeTag t1

/-- one step of a history on one source object -/
inductive HStep where
  | l (s : LStep)
  | other (inp : Input)
  | gconf (nchan : Int) (late : Bool)     -- a Configure request to a simulated source
  | gstart                                 -- Sample + PrepareChannels of a simulated source
  | devs (avail : List Dev)                -- the devices a LanceroSource has
  | lreq (r : LReq)                        -- a Configure request to the LanceroSource
  | lprep                                  -- Sample-equivalent + PrepareChannels of the LanceroSource
deriving Repr

open P in
def pLCfg : P LCfg := do
  let fr ← int; let sc ← int; let sl ← int
  let devs ← list pDev
  pure { firstRow := fr, sepCards := sc, sepCols := sl, devs }

open P in
def pHStep : P HStep := do
  let k ← tok
  match k with
  | "L" => do let c ← pLCfg; pure (.l (.configure c))
  | "Y" => pure (.l .retry)
  | "A" => do let prods ← list (list pGroup); pure (.other (.abaco prods.flatten))
  | "S" => do let _kind ← nat; let n ← int; pure (.other (.generic n))
  | "R" => do let n ← nat; pure (.other (.roach n))
  | "C" => do let _kind ← nat; let n ← int; let late ← bool; pure (.gconf n late)
  | "P" => pure .gstart
  | "D" => do
    let nrows ← nat
    let ds ← list (do let d ← int; let nc ← nat; pure ({ devnum := d, ncols := nc, nrows := nrows } : Dev))
    pure (.devs ds)
  | "Q" => do
    let fr ← int; let sc ← int; let sl ← int
    let l ← list int
    pure (.lreq { active := l, firstRow := fr, sepCards := sc, sepCols := sl })
  | "PL" => pure .lprep
  | _ => fail s!"bad step {k}"

/-- run a history through the model and judge the implementation's result after EVERY step;
returns the inputs and accepted tables per step -/
structure HSt where
  l : LObj := LObj.fresh
  g : GObj := 0
  avail : List Dev := []
  /-- set while the implementation holds an active-card list with a device in it twice -/
  implDup : Option (List Dev) := none

def judgeHistory : HSt → Nat → List HStep → List RRes → Except Verdict (List (Input × Option Tables))
  | _, _, [], _ => .ok []
  | _, _, _ :: _, [] => .error (.bad "fewer results than steps")
  | st, k, .devs a :: sts, _ :: rs => judgeHistory { st with avail := a } (k + 1) sts rs
  | st, k, .gconf n late :: sts, r :: rs =>
    let (g', ok) := genericConfigure st.g n late
    match r with
    | .panic => .error (.viol s!"C19:panic the real code panicked (Configure, step {k + 1})")
    | .rejected => if ok then .error (.diff s!"step {k + 1}: Configure refused, model accepts") else judgeHistory { st with g := g' } (k + 1) sts rs
    | .configOk => if ok then judgeHistory { st with g := g' } (k + 1) sts rs else .error (.diff s!"step {k + 1}: Configure accepted, model refuses")
    | _ => .error (.bad "tables where a Configure answer is expected")
  | st, k, .lreq rq :: sts, r :: rs =>
    let (o', mok) := lanceroConfigure st.avail st.l rq
    match r with
    | .panic => .error (.viol s!"C19:panic the real code panicked (Configure, step {k + 1})")
    | .conf ok act =>
      if ok == mok && act == o'.cfg.devs.map (·.devnum) then
        judgeHistory { st with l := o', implDup := none } (k + 1) sts rs
      else if ok ∧ ¬ act.Nodup then
        -- the implementation activated a device twice: follow ITS state to the next Start and judge the tables it reports
        let devs := act.filterMap fun c => st.avail.find? (fun d => d.devnum == c)
        let oi : LObj := { o' with cfg := { o'.cfg with devs := devs } }
        match judgeHistory { st with l := oi, implDup := some devs } (k + 1) sts rs with
        | .error v => .error v
        | .ok _ => .error (.diff s!"step {k + 1}: Configure accepted a card list with a repeated card (no Start followed)")
      else .error (.diff s!"step {k + 1}: Configure answer/active cards differ: model ok={mok} active={o'.cfg.devs.map (·.devnum)}, impl ok={ok} active={act}")
    | _ => .error (.bad "tables where a Configure answer is expected")
  | st, k, .lprep :: sts, r :: rs =>
    match st.implDup, r with
    | some devs, .tables o =>
      let t := o.tables
      match chkTables true (lanceroGeom devs) t (o.rs.map (·.dec)) with
      | some b => .error (.viol (b.sig ++ s!" [step {k + 1}: a device is active twice]"))
      | none => .error (.viol s!"C19:card-twice Start accepted a configuration in which one device is active twice: the same (card, column, row) is reported as two different channels [step {k + 1}]")
    | _, _ =>
      let (o', m) := lanceroObjPrepare st.l
      let inp := Input.lancero st.l.cfg
      match judge inp m r s!"step {k + 1}" with
      | .error v => .error v
      | .ok t =>
        match judgeHistory { st with l := o' } (k + 1) sts rs with
        | .error v => .error v
        | .ok rest => .ok ((inp, t) :: rest)
  | st, k, hs :: sts, r :: rs =>
    let (st', inp, m) : HSt × Input × Option Tables := match hs with
      | .l ls => ({ st with l := (lanceroObjStep st.l ls).1 }, .lancero (lanceroStepCfg st.l ls), (lanceroObjStep st.l ls).2)
      | .other (.generic n) => ({ st with g := (genericConfigure st.g n false).1 }, .generic n, genericPrepare n)
      | .other i => (st, i, i.model)
      | .gstart => (st, .generic st.g, some (genericStart st.g))
      | _ => (st, .generic st.g, none)   -- not reached
    match judge inp m r s!"step {k + 1}" with
    | .error v => .error v
    | .ok t =>
      match judgeHistory st' (k + 1) sts rs with
      | .error v => .error v
      | .ok rest => .ok ((inp, t) :: rest)

def historyTags (steps : List (Input × Option Tables)) : List String :=
  let acc := steps.filterMap (·.2)
  let groupsChange := (acc.zip acc.tail).any fun (a, b) => a.groups != b.groups
  let sameAgain := (acc.zip acc.tail).any fun (a, b) => a.groups == b.groups && !a.groups.isEmpty
  (if groupsChange then ["regroup"] else []) ++ (if sameAgain then ["reprepare-same"] else []) ++
  (if steps.any (·.2.isNone) ∧ acc.length ≥ 1 then ["reject-between"] else [])

def kindTags (inp : Input) (t : Option Tables) : List String :=
  match inp with
  | .lancero c => ["lancero"] ++ lanceroTags c t none
  | .abaco p =>
    ["abaco"] ++ (if (abacoKeys p).length > 1 then ["multigroup"] else []) ++
    (if t.isNone then ["would-collide", "rej-overlap"] else ["accepted"]) ++
    (if (abacoKeys p) ≠ sortG (abacoKeys p) then ["keys-unsorted"] else []) ++ sizeTag t
  | .generic _ => ["generic"] ++ (if t.isNone then ["rejected-safe"] else ["accepted"]) ++ sizeTag t
  | .roach _ => ["roach"] ++ (if t.isNone then ["rejected-safe"] else ["accepted"]) ++ sizeTag t

def runLine (ts : List String) : Verdict :=
  let p : P (List HStep × Bool × List RRes × RFiles) := do
    let k ← P.peek
    let (steps, hist) ← match k with
      | some "H" => do
        let _ ← P.tok
        let ss ← P.list pHStep
        pure (ss, true)
      | some "L" => do
        let s ← pHStep
        pure ([s, HStep.l .retry], false)
      | _ => do
        let s ← pHStep
        pure ([s], false)
    let _start ← P.nat
    P.kw "OUT"
    let t ← P.peek
    if t == some "PANIC" then
      pure (steps, hist, [.panic], .none)
    else
      let rs ← P.rep pRes steps.length
      let f ← pFiles
      pure (steps, hist, rs, f)
  match P.run p ts with
  | .error e => .bad e
  | .ok (steps, hist, ress, files) =>
    match ress with
    | [.panic] => .viol "C19:panic the real code panicked (prepare)"
    | _ =>
    match judgeHistory {} 0 steps ress with
    | .error v => v
    | .ok js =>
      match judgeFiles ((js.getLast?.map (·.2)).join) files with
      | .error v => v
      | .ok ft =>
        let first := match js with
          | (inp, t) :: _ => kindTags inp t
          | [] => []
        let retry := match js with
          | [(_, none), (_, some _)] => if hist then [] else ["retry-accepted"]
          | _ => []
        let later := if hist then (js.drop 1).flatMap (fun (inp, t) => (kindTags inp t).filter
            (fun s => s == "would-collide" || s == "multi" || s == "cards-unordered")) else []
        let conf := (if steps.any (fun s => match s with | .gconf n true => decide (n ≥ 1) | _ => false) then ["late-refused"] else []) ++
          (if steps.any (fun s => match s with | .gstart => true | _ => false) then ["start-after-configure"] else []) ++
          (if steps.any (fun s => match s with | .lreq r => !decide r.active.Nodup | _ => false) then ["cards-repeated"] else []) ++
          (if steps.any (fun s => match s with | .lreq r => decide r.active.Nodup && !decide (r.active.Pairwise (· < ·)) | _ => false) then ["cards-unsorted-list"] else []) ++
          (if steps.any (fun s => match s with | .lreq _ => true | _ => false) then ["real-configure"] else [])
        .ok ((first ++ retry ++ later ++ conf ++ (if hist then ["history"] ++ historyTags js else []) ++ ft).eraseDups)

end DastardV.C19
