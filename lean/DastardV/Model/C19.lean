/- C19: model not built yet (stub so that the per-property driver links). -/
import DastardV.Proto
namespace DastardV.C19

def runLine (_ts : List String) : Verdict := .bad "C19: model not built yet"

end DastardV.C19
