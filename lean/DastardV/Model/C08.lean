/-
C08 — edge-multi triggering is block-boundary independent and never indexes outside.
The harness runs the REAL pipeline twice on the same stream: cut into the generated blocks,
and as one single block.  Oracle (on the implementation's outputs only):
* the per-channel record sequences (frame, pre-trigger length, length, samples) are identical;
* frames strictly increase (each edge yields at most one record);
* fixed-length modes give full-length records (part of the C01 oracle, run here too);
* variable-length records do not overlap and do not extend past the next trigger;
* no crash (a `PANIC` output is a violation).
-/
import DastardV.Model.PipeJudge
namespace DastardV.C08
open Trig Pipe

/-- all records of channel `ch`, in emission order -/
def recsOf (outs : List Out) (ch : Nat) : List Rec :=
  outs.flatMap fun o => match o with | .recs r => r[ch]?.getD [] | _ => []

def sameRec (a b : Rec) : Bool :=
  a.frame == b.frame && a.npre == b.npre && a.data == b.data && a.signed == b.signed

def firstMismatch : List Rec → List Rec → Option String
  | [], [] => none
  | a :: as, b :: bs =>
    if sameRec a b then firstMismatch as bs
    else some s!"many-block record (frame {a.frame} npre {a.npre} len {a.data.length}) vs one-block record (frame {b.frame} npre {b.npre} len {b.data.length})"
  | a :: _, [] => some s!"many-block run has an extra record at frame {a.frame}"
  | [], b :: _ => some s!"one-block run has an extra record at frame {b.frame}"

def increasing : List Rec → Option String
  | a :: b :: r => if a.frame < b.frame then increasing (b :: r) else some s!"frames {a.frame} then {b.frame}"
  | _ => none

/-- records neither overlap nor extend past the next trigger -/
def noOverlap : List Rec → Option String
  | a :: b :: r =>
    let aEnd := a.frame - a.npre + a.data.length     -- one past the last sample of `a`
    if aEnd > b.frame - b.npre then some s!"record at {a.frame} (npre {a.npre} len {a.data.length}) overlaps the record at {b.frame} (npre {b.npre})"
    else if aEnd > b.frame then some s!"record at {a.frame} extends past the next edge at {b.frame}"
    else noOverlap (b :: r)
  | _ => none

/-- is every trigger request of the case an edge-multi one in variable-length mode? -/
def variableOnly (c : Case) : Bool :=
  c.ops.all fun o => match o with | .trig r => r.ts.edgeMulti && r.compat.short && !r.compat.contaminated | _ => true

def emtOnly (c : Case) : Bool :=
  c.saved.isEmpty && c.ops.all fun o => match o with | .trig r => r.ts.edgeMulti | _ => true

/-- does a request follow a data block?  (reconfiguration in mid-stream: the search starts over on the retained
history, so "strictly increasing / no overlap" are statements per configuration and are not demanded across it) -/
def midRequests : List Op → Bool → Bool
  | [], _ => false
  | .block .. :: r, _ => midRequests r true
  | _ :: r, seen => seen || midRequests r seen

def chkC08 (c : Case) (outs : List Out) : Option String :=
  let reconf := midRequests c.ops false
  firstSome (List.range c.nch) fun ch =>
    let many := recsOf outs ch
    match (if reconf then none else increasing many) with
    | some e => some s!"not-increasing ch{ch}: {e}"
    | none =>
    match (if variableOnly c && !reconf then noOverlap many else none) with
    | some e => some s!"variable-overlap ch{ch}: {e}"
    | none =>
    match c.outsOne with
    | none => none
    | some one =>
      (firstMismatch many (recsOf one ch)).map fun e => s!"block-dependent ch{ch}: {e}"

def runLine (ts : List String) : Verdict :=
  match P.run parseCase ts with
  | .error e => .bad e
  | .ok c =>
    let v := judgeWith "C08" c fun c outs =>
      match chkC01 (initTruth c) c.ops outs with
      | some e => some ("record-not-exact " ++ e)
      | none => chkC08 c outs
    match v with
    | .ok tags => .ok (tags ++ (if c.outsOne.isSome then ["oneblock"] else []) ++ (if variableOnly c then ["variable"] else []) ++ (if midRequests c.ops false then ["reconfigured"] else []))
    | v => v

end DastardV.C08
