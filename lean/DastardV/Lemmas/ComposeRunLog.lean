/-
Composition of the Lancero ingest model with the run-log model (C04 → C20): the external-trigger and
data-drop side files of a run hold exactly what the card's byte stream says.

`distributeData` hands every block's external-trigger row counts and its dropped-frame estimate to
`ProcessSegments`, which (`handleExternalTriggers`, `handleDataDrop`) appends them to the side files of the
active run.  `C04_ext_trigger` says what the counts of ALL blocks are — `edgeSpec`: one count per rising
edge of the external-trigger flag over all frames in scan order, the previous flag carried across block
boundaries — and `C20_ext_exact` says the file of a run is exactly the counts of the blocks between its
START and its STOP.
-/
import DastardV.Props.C04
import DastardV.Props.C03
import DastardV.Props.C20
namespace DastardV.Compose

/-- a Lancero block as the run-log model sees it -/
def logOp (b : C04.Block) : C20.Op := .block b.ext b.dropped b.first

theorem extOf_blocks : ∀ (bs : List C04.Block), C20.extOf (bs.map logOp) = bs.flatMap (·.ext)
  | [] => rfl
  | b :: bs => by simp [C20.extOf, logOp, extOf_blocks bs]

theorem dropOf_blocks : ∀ (bs : List C04.Block),
    C20.dropOf (bs.map logOp) = bs.flatMap fun b => if b.dropped > 0 then [(b.first, b.dropped)] else []
  | [] => rfl
  | b :: bs => by simp [C20.dropOf, logOp, dropOf_blocks bs]

theorem noStop_blocks (bs : List C04.Block) : C20.NoStop (bs.map logOp) := by
  intro o ho
  obtain ⟨b, _, rfl⟩ := List.mem_map.mp ho
  rfl

variable {σ ρ : Type}

/-- **Lancero external triggers, from the card's words to the run's side file.**  For every geometry,
every history of reads (`steps`: any chunking, any losses) processed between a START and a STOP (after
any earlier history `pre` that left writing inactive): the external-trigger file of that run holds exactly
`edgeSpec` of the flags of all frames delivered in the run — one row count per rising edge, in order, the
flag state carried across block boundaries, nothing else — and its data-drop file has one line
`(first frame, dropped)` per block whose loss estimate is positive. -/
theorem lancero_ext_triggers_to_file (ops : C04.FloatOps σ ρ) (zero : σ) (scaleOf : Nat → σ)
    (g : C04.Geom) (hg : C04.geomOK g = true) (steps : List C04.FStep) (st : C04.DState σ)
    (pre : List C20.Op) (rStart rStop : List Nat) (v : Bool)
    (hpre : (C20.runOps C20.S.init pre).active = false)
    (hs : C06.classify rStart = .start) (hp : C06.classify rStop = .stop) :
    let blocks := C04.blocksOf (C04.runSteps ops zero scaleOf g st (steps.map (C04.FStep.toStep g)))
    let fin := C20.runOps C20.S.init (pre ++ [.req rStart true] ++ blocks.map logOp ++ [.req rStop v])
    fin.done.getLast?.map (·.ext) = some (C04.edgeSpec st.extLast (C04.specItems g st.next st.prevT steps)) ∧
    fin.done.getLast?.map (·.drop) =
      some (blocks.flatMap fun b => if b.dropped > 0 then [(b.first, b.dropped)] else []) := by
  intro blocks fin
  have hn := noStop_blocks blocks
  refine ⟨?_, ?_⟩
  · have := C20.C20_ext_exact pre (blocks.map logOp) rStart rStop v hpre hs hp hn
    rw [this, extOf_blocks]
    exact congrArg some (C04.C04_ext_trigger ops zero scaleOf g hg steps st).1
  · have := C20.C20_drop_lines pre (blocks.map logOp) rStart rStop v hpre hs hp hn
    rw [this, dropOf_blocks]

/-! ### Abaco: the data-drop file -/

/-- an Abaco block as the run-log model sees it (Abaco sources deliver no external triggers) -/
def alogOp (b : C03.Block) : C20.Op := .block [] b.dropped b.first

theorem dropOf_ablocks : ∀ (bs : List C03.Block),
    C20.dropOf (bs.map alogOp) = bs.flatMap fun b => if (b.dropped : Int) > 0 then [(b.first, (b.dropped : Int))] else []
  | [] => rfl
  | b :: bs => by simp [C20.dropOf, alogOp, dropOf_ablocks bs]

theorem extOf_ablocks : ∀ (bs : List C03.Block), C20.extOf (bs.map alogOp) = []
  | [] => rfl
  | b :: bs => by simp [C20.extOf, alogOp, extOf_ablocks bs]

/-- **Abaco packet loss, from the packet history to the run's data-drop file.**  For every packet history
processed between a START and a STOP: the data-drop file has exactly one line `(first frame, frames
filled in)` per emitted block that reports filled-in frames, in order — and by `C03_dropped_count` those
counts add up to exactly `fpp` per lost packet of every group —; the external-trigger file stays empty. -/
theorem abaco_drops_to_file (blocks : List C03.Block)
    (pre : List C20.Op) (rStart rStop : List Nat) (v : Bool)
    (hpre : (C20.runOps C20.S.init pre).active = false)
    (hs : C06.classify rStart = .start) (hp : C06.classify rStop = .stop) :
    let fin := C20.runOps C20.S.init (pre ++ [.req rStart true] ++ blocks.map alogOp ++ [.req rStop v])
    fin.done.getLast?.map (·.drop) =
      some (blocks.flatMap fun b => if (b.dropped : Int) > 0 then [(b.first, (b.dropped : Int))] else []) ∧
    fin.done.getLast?.map (·.ext) = some [] := by
  intro fin
  have hn : C20.NoStop (blocks.map alogOp) := by
    intro o ho
    obtain ⟨b, _, rfl⟩ := List.mem_map.mp ho
    rfl
  refine ⟨?_, ?_⟩
  · have := C20.C20_drop_lines pre (blocks.map alogOp) rStart rStop v hpre hs hp hn
    rw [this, dropOf_ablocks]
  · have := C20.C20_ext_exact pre (blocks.map alogOp) rStart rStop v hpre hs hp hn
    rw [this, extOf_ablocks]

end DastardV.Compose
