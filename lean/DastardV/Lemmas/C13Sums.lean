/-
C13 — helper lemmas: sums over lists in `Rat`, closed forms of the index sums, loop invariants of the
two loops of `AnalyzeData`, running maximum.  Core Lean only.
-/
import DastardV.Model.C13
namespace DastardV.C13

/-! ### casts and order -/

theorem natCast_succ (n : Nat) : ((n + 1 : Nat) : Q) = (n : Q) + 1 := by
  rw [Rat.natCast_add]; rfl

theorem natCast_ne_zero {n : Nat} (h : n ≠ 0) : (n : Q) ≠ 0 := by
  intro h0; exact h (Rat.natCast_eq_zero_iff.mp h0)

theorem natCast_ge_two {n : Nat} (h : 2 ≤ n) : (2 : Q) ≤ (n : Q) := by
  have := (Rat.natCast_le_natCast (a := 2) (b := n)).mpr h
  simpa using this

theorem mul_self_nonneg (x : Q) : 0 ≤ x * x := by
  rcases Rat.le_total (a := 0) (b := x) with h | h
  · exact Rat.mul_nonneg h h
  · have h' : 0 ≤ -x := by grind
    have := Rat.mul_nonneg h' h'
    grind

theorem absQ_nonneg (x : Q) : 0 ≤ absQ x := by
  unfold absQ; split <;> grind

theorem absQ_self_sub (x : Q) : absQ (x - x) = 0 := by
  unfold absQ; split <;> grind

/-! ### `sumQ` -/

theorem sumQ_append (xs ys : List Q) : sumQ (xs ++ ys) = sumQ xs + sumQ ys := by
  induction xs with
  | nil => simp [sumQ] <;> grind
  | cons x xs ih => simp only [List.cons_append, sumQ, ih]; grind

theorem foldl_add_eq (xs : List Q) (acc : Q) : xs.foldl (fun s v => s + v) acc = acc + sumQ xs := by
  induction xs generalizing acc with
  | nil => simp [sumQ] <;> grind
  | cons x xs ih => simp only [List.foldl_cons, sumQ, ih]; grind

theorem foldl_sq_eq (xs : List Q) (mu acc : Q) :
    xs.foldl (fun s v => s + (v - mu) * (v - mu)) acc = acc + sumQ (xs.map fun v => (v - mu) * (v - mu)) := by
  induction xs generalizing acc with
  | nil => simp [sumQ] <;> grind
  | cons x xs ih => simp only [List.foldl_cons, List.map_cons, sumQ, ih]; grind

theorem sumQ_map_sub (xs : List Q) (m : Q) :
    sumQ (xs.map fun y => y - m) = sumQ xs - (xs.length : Q) * m := by
  induction xs with
  | nil => simp [sumQ] <;> grind
  | cons x xs ih =>
    simp only [List.map_cons, sumQ, ih, List.length_cons, natCast_succ]; grind

theorem sumQ_map_sq_sub (xs : List Q) (m : Q) :
    sumQ (xs.map fun y => (y - m) * (y - m)) =
      sumQ (xs.map fun y => y * y) - 2 * m * sumQ xs + (xs.length : Q) * (m * m) := by
  induction xs with
  | nil => simp [sumQ] <;> grind
  | cons x xs ih =>
    simp only [List.map_cons, sumQ, ih, List.length_cons, natCast_succ]; grind

theorem sumQ_sq_nonneg (xs : List Q) (m : Q) : 0 ≤ sumQ (xs.map fun y => (y - m) * (y - m)) := by
  induction xs with
  | nil => simp [sumQ] <;> grind
  | cons x xs ih =>
    simp only [List.map_cons, sumQ]
    exact Rat.add_nonneg (mul_self_nonneg _) ih

/-! ### index sums -/

/-- `Σ_{k<n} (i₀ + k − c) = n(i₀ − c) + n(n−1)/2` -/
theorem isum_idx (c : Q) (i0 : Nat) (ys : List Q) :
    isum (fun i _ => i - c) i0 ys =
      (ys.length : Q) * ((i0 : Q) - c) + (ys.length : Q) * ((ys.length : Q) - 1) / 2 := by
  induction ys generalizing i0 with
  | nil => simp [isum] <;> grind
  | cons y ys ih =>
    simp only [isum, ih, List.length_cons, natCast_succ]; grind

/-- `Σ_{k<n} (i₀ + k − c)² = n(i₀−c)² + (i₀−c)·n(n−1) + (n−1)n(2n−1)/6` -/
theorem isum_idx_sq (c : Q) (i0 : Nat) (ys : List Q) :
    isum (fun i _ => (i - c) * (i - c)) i0 ys =
      (ys.length : Q) * (((i0 : Q) - c) * ((i0 : Q) - c))
        + ((i0 : Q) - c) * ((ys.length : Q) * ((ys.length : Q) - 1))
        + ((ys.length : Q) - 1) * (ys.length : Q) * (2 * (ys.length : Q) - 1) / 6 := by
  induction ys generalizing i0 with
  | nil => simp [isum] <;> grind
  | cons y ys ih =>
    simp only [isum, ih, List.length_cons, natCast_succ]; grind

/-- the weighted sum is linear in the samples: subtracting a constant `d` from every sample -/
theorem isum_shift_y (c d : Q) (i0 : Nat) (ys : List Q) :
    isum (fun i y => (y - d) * (i - c)) i0 ys =
      isum (fun i y => y * (i - c)) i0 ys - d * isum (fun i _ => i - c) i0 ys := by
  induction ys generalizing i0 with
  | nil => simp [isum] <;> grind
  | cons y ys ih => simp only [isum, ih]; grind

theorem isum_shift_y' (c d : Q) (i0 : Nat) (ys : List Q) :
    isum (fun i y => (i - c) * (y - d)) i0 ys =
      isum (fun i y => y * (i - c)) i0 ys - d * isum (fun i _ => i - c) i0 ys := by
  induction ys generalizing i0 with
  | nil => simp [isum] <;> grind
  | cons y ys ih => simp only [isum, ih]; grind

/-- `Σ_{k<n} k = n(n−1)/2` -/
theorem isum_index (ys : List Q) :
    isum (fun i _ => i) 0 ys = (ys.length : Q) * ((ys.length : Q) - 1) / 2 := by
  have h := isum_idx 0 0 ys
  have e : (fun (i : Q) (_ : Q) => i - 0) = (fun i _ => i) := by funext i _; grind
  rw [e] at h
  rw [h]; simp; grind

/-! ### the first loop -/

theorem preLoop_eq (d0 xm : Q) (i : Nat) (ys : List Q) (v p : Q) :
    preLoop d0 xm i ys (v, p) = (v + sumQ ys, p + isum (fun i y => (y - d0) * (i - xm)) i ys) := by
  induction ys generalizing i v p with
  | nil => simp [preLoop, sumQ, isum] <;> grind
  | cons y ys ih =>
    simp only [preLoop, ih, sumQ, isum]
    refine Prod.ext ?_ ?_ <;> simp <;> grind

/-! ### the second loop -/

/-- running maximum of the second loop, started from `mx` -/
def runMax : Option Q → List Q → Option Q
  | mx, [] => mx
  | none, v :: vs => runMax (some v) vs
  | some m, v :: vs => runMax (some (maxQ m v)) vs

theorem postLoop_eq (vs : List Q) (a : PostAcc) :
    postLoop vs a = ⟨a.sum + sumQ vs, a.sum2 + sumQ (vs.map fun v => v * v), runMax a.mx vs⟩ := by
  induction vs generalizing a with
  | nil =>
    cases a with
    | mk s s2 mx => simp only [postLoop, sumQ, runMax, List.map_nil]; congr 1 <;> grind
  | cons v vs ih =>
    simp only [postLoop, ih, postStep, sumQ, List.map_cons]
    cases hm : a.mx with
    | none => simp only [runMax]; congr 1 <;> grind
    | some m =>
      simp only [runMax, maxQ]
      have : (if v > m then some v else some m) = some (if m < v then v else m) := by
        split <;> rfl
      rw [this]; congr 1 <;> grind

theorem runMax_some (m : Q) (vs : List Q) : runMax (some m) vs = some (vs.foldl maxQ m) := by
  induction vs generalizing m with
  | nil => rfl
  | cons v vs ih => simp only [runMax, List.foldl_cons, ih]

theorem runMax_none_cons (v : Q) (vs : List Q) : runMax none (v :: vs) = some (vs.foldl maxQ v) := by
  simp only [runMax, runMax_some]

/-! ### maximum -/

theorem le_foldl_maxQ (m : Q) (vs : List Q) : m ≤ vs.foldl maxQ m := by
  induction vs generalizing m with
  | nil => simp only [List.foldl_nil]; grind
  | cons v vs ih =>
    simp only [List.foldl_cons]
    have h1 := ih (maxQ m v)
    have h2 : m ≤ maxQ m v := by unfold maxQ; split <;> grind
    grind

theorem mem_le_foldl_maxQ (m : Q) (vs : List Q) : ∀ y ∈ vs, y ≤ vs.foldl maxQ m := by
  induction vs generalizing m with
  | nil => intro y hy; cases hy
  | cons v vs ih =>
    intro y hy
    simp only [List.foldl_cons]
    rcases List.mem_cons.mp hy with rfl | hy'
    · have h1 := le_foldl_maxQ (maxQ m y) vs
      have h2 : y ≤ maxQ m y := by unfold maxQ; split <;> grind
      grind
    · exact ih _ y hy'

theorem foldl_maxQ_mem (m : Q) (vs : List Q) : vs.foldl maxQ m = m ∨ vs.foldl maxQ m ∈ vs := by
  induction vs generalizing m with
  | nil => left; rfl
  | cons v vs ih =>
    simp only [List.foldl_cons]
    rcases ih (maxQ m v) with h | h
    · rw [h]; unfold maxQ; split
      · right; exact List.mem_cons_self
      · left; rfl
    · right; exact List.mem_cons_of_mem _ h

/-! ### inner products -/

theorem dotLoop_eq (a b : List Q) (acc : Q) : dotLoop a b acc = acc + Spec.dot a b := by
  induction a generalizing b acc with
  | nil => simp [dotLoop, Spec.dot, sumQ] <;> grind
  | cons x xs ih =>
    cases b with
    | nil => simp [dotLoop, Spec.dot, sumQ] <;> grind
    | cons y ys =>
      simp only [dotLoop, ih, Spec.dot, List.zipWith_cons_cons, sumQ]; grind

theorem codeSubVec_eq (a b : List Q) : codeSubVec a b = List.zipWith (· - ·) a b := by
  induction a generalizing b with
  | nil => simp [codeSubVec] <;> grind
  | cons x xs ih =>
    cases b with
    | nil => simp [codeSubVec] <;> grind
    | cons y ys => simp [codeSubVec, ih]

end DastardV.C13
