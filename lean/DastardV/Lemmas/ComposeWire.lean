/-
Composition of the pipeline model with the message model (C01/C02 → C14): what subscribers of the
pulse-record port receive for a channel is, message by message, what the pipeline published for it.

The publisher goroutine (`startSocket`) takes batches of records from its channel and sends, for every
record in order, one two-part message `[header, payload]` (`messageRecords`).  With `C14_record_roundtrip`
and `runOps_chan_len`: for any run of blocks, decoding the messages of channel `j` at the documented
offsets gives back, in order, exactly the records the pipeline published for `j` — channel number, record
length and pre-trigger length as configured, frame, time stamp and samples as cut from the stream.
-/
import DastardV.Lemmas.ComposeFile
import DastardV.Props.C14
namespace DastardV.Compose
open Pipe Trig

/-- the fields of a published record that reach the record message; the two float32 constants of the
channel (sample period, volts per arbitrary unit) and the analysis values travel as opaque bit patterns -/
def toMsgRec (j : Nat) (periodBits vpaBits : Nat) (r : Rec) : C14.Rec :=
  { channel := j, signed := r.signed, presamples := r.npre, data := r.data,
    sampPeriodBits := periodBits, voltsPerArbBits := vpaBits, timeNs := r.time, frame := r.frame,
    ptmBits := 0, peakBits := 0, rmsBits := 0, avgBits := 0, residBits := 0, coefBits := [] }

/-- the messages the publisher goroutine sends for a sequence of batches: one per record, in order -/
def wireOf (batches : List (List C14.Rec)) : List (List Nat × List Nat) :=
  batches.flatten.map C14.encRecord

/-- **every message decodes to its record, in order, for any batching** -/
theorem wire_decodes (batches : List (List C14.Rec)) :
    (wireOf batches).map (fun m => C14.decRecord m.1 m.2) = batches.flatten.map (fun r => some (C14.expectRecord r)) := by
  simp only [wireOf, List.map_map]
  apply List.map_congr_left
  intro r _
  exact C14.C14_record_roundtrip r

/-- **From the trigger pipeline to the wire.**  Channel `j` (not in edge-multi mode) of any source processes
any run of blocks; its records reach the publisher goroutine in any batching.  Then the messages on the
pulse-record port, decoded at the documented offsets, are — one per published record, in order —
channel number `j`, the configured pre-trigger length and record length, data type by signedness, and the
record's frame, time stamp and samples. -/
theorem pipeline_to_wire (zts : List (List (Int × Int))) (j : Nat) (sg : Bool) (tp : Nat → Int × Int)
    (ops : List Op) (n : Nat) (first : Int) (segs : List (List Nat)) (s : Src) (c : Chan) (outs : List Out)
    (hb : BlocksFor j sg tp n first ops segs) (hc : s.chans[j]? = some c) (hem : c.ts.edgeMulti = false)
    (hrun : runOps zts s ops = some outs) (periodBits vpaBits : Nat)
    (batches : List (List C14.Rec)) (hbat : batches.flatten = (chanRecs j outs).map (toMsgRec j periodBits vpaBits)) :
    (wireOf batches).map (fun m => C14.decRecord m.1 m.2) =
      (chanRecs j outs).map (fun r => some (C14.expectRecord (toMsgRec j periodBits vpaBits r))) ∧
    ∀ r ∈ chanRecs j outs,
      (C14.expectRecord (toMsgRec j periodBits vpaBits r)).channel = C14.twos 2 j ∧
      (C14.expectRecord (toMsgRec j periodBits vpaBits r)).presamples = C14.twos 4 c.npre ∧
      ((C14.expectRecord (toMsgRec j periodBits vpaBits r)).nsamples : Int) = c.nsamp % 2 ^ 32 ∧
      (C14.expectRecord (toMsgRec j periodBits vpaBits r)).frame = C14.twos 8 r.frame ∧
      (C14.expectRecord (toMsgRec j periodBits vpaBits r)).samples = r.data.map (· % 65536) := by
  refine ⟨?_, ?_⟩
  · rw [wire_decodes, hbat, List.map_map]
    rfl
  · obtain ⟨parts, hof, _, hall⟩ := runOps_chan_len zts j sg tp ops n first segs s c outs hb hc hem hrun
    have hcr := outsFor_chanRecs j outs parts hof
    intro r hr
    rw [hcr, List.mem_flatMap] at hr
    obtain ⟨pr, hpr, hrr⟩ := hr
    obtain ⟨hl, hp⟩ := hall pr hpr r hrr
    refine ⟨rfl, by simp [C14.expectRecord, toMsgRec, hp], ?_, rfl, rfl⟩
    simp only [C14.expectRecord, toMsgRec]
    rw [← hl]
    omega

end DastardV.Compose
