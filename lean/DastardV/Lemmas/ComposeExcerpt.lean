/-
"The samples in the file are the samples of the stream" (C01 ∘ C05).

`C01_run_exact` says of every record the source publishes that it is the excerpt of the stream delivered
to its channel SO FAR; `prepared_source_to_ljh22_file` says that a channel's LJH 2.2 file, read back with
the documented layout, is exactly the channel's published records.  Here the two are composed, for a source
from `PrepareRun`, every channel and any history of blocks with group-trigger requests woven in:

* `chanStream j ops`         the stream delivered to channel `j` over the whole history — the concatenation
                             of the channel's block segments (`foldl_deliver_chanStream`: it is what C01's
                             `deliver`, folded over the history, ends with);
* `chanRecs_excerpts`        every record published for channel `j` is an excerpt of `chanStream j ops`
                             (an excerpt of a prefix is an excerpt of every extension);
* `file_samples_are_stream_excerpts`
                             the `k`-th record parsed back from channel `j`'s file has exactly `nsamp`
                             samples, they are the `nsamp` consecutive samples of `chanStream j ops` that
                             start `npre` samples before the record's trigger frame (each reduced mod 65536
                             by the 16-bit encoding), and its subframe field is that frame's
                             `twos 8 (frame * subdiv + suboff)`.  No hypothesis about the run succeeding
                             is left (`C01_no_crash`).
* `file_samples_are_stream_excerpts_of_blocks`
                             the same with the contiguity hypothesis `Contig` derived from `OpsOK`
                             (`contig_of_opsOK`): all that is asked is that the blocks carry one sample period.
-/
import DastardV.Lemmas.ComposeEndToEnd
import DastardV.Lemmas.EmtRecs
import DastardV.Props.C01
namespace DastardV.Compose
open Pipe Trig C01

/-- the segment a block delivers to channel `j` (requests deliver nothing) -/
def segOf (j : Nat) : Op → List Nat
  | .block _ _ _ _ data => data[j]?.getD []
  | _ => []

/-- the stream delivered to channel `j` over a history: its block segments, concatenated -/
def chanStream (j : Nat) (ops : List Op) : List Nat := (ops.map (segOf j)).flatten

theorem chanStream_cons (j : Nat) (o : Op) (os : List Op) :
    chanStream j (o :: os) = segOf j o ++ chanStream j os := by
  simp [chanStream]

/-- `chanStream` is what C01's bookkeeping of the delivered streams (`deliver`, block after block) ends
with, for blocks that carry one segment per channel -/
theorem foldl_deliver_chanStream (nch j : Nat) (hj : j < nch) :
    ∀ (ops : List Op) (F : Int) (Gs : List (List Nat)) (G : List Nat),
      OpsOK nch F ops → Gs[j]? = some G → (ops.foldl deliver Gs)[j]? = some (G ++ chanStream j ops)
  | [], _, Gs, G, _, hG => by simp [chanStream, hG]
  | o :: os, F, Gs, G, hok, hG => by
    rw [List.foldl_cons, chanStream_cons]
    cases o with
    | block first t0 period signed data =>
      obtain ⟨hdl, n, _, _, _, hrest⟩ := hok
      have hjd : j < data.length := by omega
      have hd : data[j]? = some data[j] := List.getElem?_eq_getElem hjd
      have hG' : (deliver Gs (.block first t0 period signed data))[j]? = some (G ++ data[j]) := by
        simp [deliver, List.getElem?_zipWith, hG, hd]
      rw [foldl_deliver_chanStream nch j hj os (F + n) _ _ hrest hG']
      simp [segOf, hd]
    | trig r => exact foldl_deliver_chanStream nch j hj os F Gs G hok hG
    | len a b => exact foldl_deliver_chanStream nch j hj os F Gs G hok hG
    | gadd ps => exact foldl_deliver_chanStream nch j hj os F Gs G hok hG
    | gdel ps => exact foldl_deliver_chanStream nch j hj os F Gs G hok hG
    | gstop => exact foldl_deliver_chanStream nch j hj os F Gs G hok hG

/-- from the per-block judgement `OutsOK` (each record an excerpt of what was delivered up to its block) to
one statement about the whole run: every record published for channel `j` is an excerpt of the stream
delivered to the channel over the whole history -/
theorem chanRecs_excerpts_aux (zts : List (List (Int × Int))) (per f0 : Int) (nch j : Nat) (hj : j < nch) :
    ∀ (ops : List Op) (F : Int) (Gs : List (List Nat)) (s : Src) (outs : List Out) (G : List Nat),
      OpsOK nch F ops → Gs[j]? = some G → runOps zts s ops = some outs →
      OutsOK zts per f0 Gs s ops outs →
      ∀ r ∈ chanRecs j outs, Excerpt (G ++ chanStream j ops) f0 r
  | [], _, _, _, outs, _, _, _, h, _ => by
    simp only [runOps, Option.some.injEq] at h
    subst h
    intro r hr; simp [chanRecs] at hr
  | op :: ops, F, Gs, s, outs, G, hok, hG, h, ho => by
    simp only [runOps, bind, Option.bind_eq_some_iff, pure, Option.some.injEq] at h
    obtain ⟨⟨s', out⟩, hstep, rest, hrest, rfl⟩ := h
    obtain ⟨hstepok, hnext⟩ := ho
    rw [hstep] at hnext
    simp only at hnext
    rw [chanStream_cons]
    cases op with
    | block first t0 period signed data =>
      simp only [stepOp, bind, Option.bind_eq_some_iff, pure, Option.some.injEq, Prod.mk.injEq] at hstep
      obtain ⟨⟨s1, rs⟩, hb, rfl, rfl⟩ := hstep
      obtain ⟨hdl, n, _, _, _, hrest'⟩ := hok
      have hjd : j < data.length := by omega
      have hd : data[j]? = some data[j] := List.getElem?_eq_getElem hjd
      have hG' : (deliver Gs (.block first t0 period signed data))[j]? = some (G ++ data[j]) := by
        simp [deliver, List.getElem?_zipWith, hG, hd]
      have ih := chanRecs_excerpts_aux zts per f0 nch j hj ops (F + n) _ s1 rest _ hrest' hG' hrest hnext
      intro r hr
      simp only [chanRecs, List.mem_append] at hr
      simp only [segOf, hd, Option.getD_some]
      rcases hr with hr | hr
      · cases hrj : rs[j]? with
        | none => simp [hrj] at hr
        | some recs =>
          simp only [hrj, Option.getD_some] at hr
          obtain ⟨G', d, c, hG'', hd', _, hall⟩ := hstepok j recs hrj
          rw [hG] at hG''; rw [hd] at hd'
          simp only [Option.some.injEq] at hG'' hd'
          subst hG''; subst hd'
          have := (hall r hr).1.excerpt.extend (chanStream j ops)
          simpa [List.append_assoc] using this
      · have := ih r hr
        simpa [List.append_assoc] using this
    | trig rq =>
      simp only [stepOp, bind, Option.bind_eq_some_iff, pure, Option.some.injEq, Prod.mk.injEq] at hstep
      obtain ⟨⟨s1, e⟩, _, rfl, rfl⟩ := hstep
      simpa [segOf, chanRecs] using
        chanRecs_excerpts_aux zts per f0 nch j hj ops F _ _ rest G hok hG hrest hnext
    | len a b =>
      simp only [stepOp, Option.some.injEq, Prod.mk.injEq] at hstep
      obtain ⟨rfl, rfl⟩ := hstep
      simpa [segOf, chanRecs] using
        chanRecs_excerpts_aux zts per f0 nch j hj ops F _ _ rest G hok hG hrest hnext
    | gadd ps =>
      simp only [stepOp, Option.some.injEq, Prod.mk.injEq] at hstep
      obtain ⟨rfl, rfl⟩ := hstep
      simpa [segOf, chanRecs] using
        chanRecs_excerpts_aux zts per f0 nch j hj ops F _ _ rest G hok hG hrest hnext
    | gdel ps =>
      simp only [stepOp, Option.some.injEq, Prod.mk.injEq] at hstep
      obtain ⟨rfl, rfl⟩ := hstep
      simpa [segOf, chanRecs] using
        chanRecs_excerpts_aux zts per f0 nch j hj ops F _ _ rest G hok hG hrest hnext
    | gstop =>
      simp only [stepOp, Option.some.injEq, Prod.mk.injEq] at hstep
      obtain ⟨rfl, rfl⟩ := hstep
      simpa [segOf, chanRecs] using
        chanRecs_excerpts_aux zts per f0 nch j hj ops F _ _ rest G hok hG hrest hnext

/-- **Every record of a channel is an excerpt of the channel's whole delivered stream.**  A source from
`PrepareRun`, ANY operation history (requests of every kind, blocks of any lengths carrying one segment per
channel, contiguous, one sample period) on which the model does not panic: every record published for
channel `j`, in any block, is the excerpt of `chanStream j ops` (sample 0 = frame `f0`) that starts `npre`
samples before the record's trigger frame. -/
theorem chanRecs_excerpts (zts : List (List (Int × Int))) (per f0 : Int) (nch : Nat) (npre nsamp : Int)
    (saved : List (Nat × TS)) (hn : 0 ≤ nsamp) (ops : List Op) (F : Int) (outs : List Out)
    (hok : OpsOK nch F ops) (hcont : Contig per f0 (List.replicate nch []) ops)
    (h : runOps zts (prepare nch npre nsamp saved) ops = some outs) (j : Nat) (hj : j < nch) :
    ∀ r ∈ chanRecs j outs, Excerpt (chanStream j ops) f0 r := by
  have ho := C01_run_exact zts per f0 nch npre nsamp saved hn ops outs hcont h
  have := chanRecs_excerpts_aux zts per f0 nch j hj ops F _ _ outs [] hok (by simp [hj]) h ho
  simpa using this

/-- **The samples in the file are the samples of the stream.**  A source from `PrepareRun` (any restored
trigger settings, valid record lengths), any history `ops` of blocks as a data source delivers them
(`OpsOK`: one segment per channel, equal lengths, consecutive frame numbers), contiguous from frame `f0`
with one sample period (`Contig`), with group-trigger requests woven in (`KeepsSettings`): the source does
not crash, and for every channel `j` whose LJH 2.2 writer (record length `nsamp`) writes over that period —
the channel's records reaching it in any batching —, the file body read back with the documented layout is
a list `parsed` with one entry per published record, and its `k`-th entry, `r` being the `k`-th record the
source published for the channel,

* has exactly `nsamp` samples,
* they are the `nsamp` consecutive samples of the stream delivered to the channel, `chanStream j ops`
  (sample 0 = frame `f0`), from position `a = r.frame − f0 − npre` on — i.e. starting `npre` samples before
  the record's trigger frame, all inside the stream —, each reduced mod 65536 by the 16-bit encoding,
* carries `twos 8 (r.frame * subdiv + suboff)` in its subframe field, for that same frame, and the record's
  time (µs) in its time field. -/
theorem file_samples_are_stream_excerpts (nch : Nat) (npre nsamp : Int) (saved : List (Nat × TS))
    (hv : 3 ≤ npre ∧ npre < nsamp) (zts : List (List (Int × Int)))
    (hzt : ∀ (j : Nat) (p : Int), -1 ≤ ztOf (zts[j]?.getD []) p ∧ ztOf (zts[j]?.getD []) p ≤ 1)
    (per f0 F : Int) (ops : List Op) (hok : OpsOK nch F ops)
    (hcont : Contig per f0 (List.replicate nch []) ops) (hk : ∀ o ∈ ops, KeepsSettings o) :
    ∃ outs, runOps zts (prepare nch npre nsamp saved) ops = some outs ∧
      ∀ (j : Nat), j < nch →
        ∀ (p : C05.Params) (hdr : C05.Bytes), p.nsamp = nsamp →
        ∀ (batches : List (List C05.W22)), batches.flatten = (chanRecs j outs).map toW22 →
          let recs := chanRecs j outs
          let S := chanStream j ops
          let fin := C05.run (C05.fmt22 p hdr) {} (fileOps batches)
          (recs = [] → C05.fileOf fin = none) ∧
          (recs ≠ [] → ∃ file parsed, C05.fileOf fin = some file ∧ file.take hdr.length = hdr ∧
            C05.parseBody (C05.parseLJH22 p.nsamp.toNat 2) (file.drop hdr.length) = some parsed ∧
            parsed.length = recs.length ∧
            ∀ (k : Nat) (R : C05.R22), parsed[k]? = some R →
              ∃ r, recs[k]? = some r ∧
                (R.samples.length : Int) = nsamp ∧
                (∃ a : Nat, (a : Int) = r.frame - f0 - npre ∧ a + nsamp.toNat ≤ S.length ∧
                  R.samples = ((S.drop a).take nsamp.toNat).map (· % 65536)) ∧
                R.subframe = C05.twos 8 (r.frame * p.subdiv + p.suboff) ∧
                R.timeUs = C05.twos 8 (r.time.tdiv 1000)) := by
  obtain ⟨outs, hrun, hall⟩ := prepared_source_to_ljh22_file nch npre nsamp saved hv zts hzt ops F hok hk
  refine ⟨outs, hrun, ?_⟩
  intro j hj p hdr hp batches hbat
  obtain ⟨hlen, hfile⟩ := hall j hj
  obtain ⟨hnil, hne⟩ := hfile p hdr hp batches hbat
  have hex := chanRecs_excerpts zts per f0 nch npre nsamp saved (by omega) ops F outs hok hcont hrun j hj
  simp only at hnil hne ⊢
  refine ⟨hnil, ?_⟩
  intro hrne
  obtain ⟨file, hf, htake, hparse, _⟩ := hne hrne
  refine ⟨file, _, hf, htake, hparse, by simp, ?_⟩
  intro k R hR
  rw [List.getElem?_map] at hR
  cases hr : (chanRecs j outs)[k]? with
  | none => simp [hr] at hR
  | some r =>
    simp only [hr, Option.map_some, Option.some.injEq] at hR
    subst hR
    have hmem : r ∈ chanRecs j outs := List.mem_of_getElem? hr
    obtain ⟨hl, hnp⟩ := hlen r hmem
    obtain ⟨a, ha, hle, hdata⟩ := hex r hmem
    have hln : r.data.length = nsamp.toNat := by omega
    refine ⟨r, rfl, ?_, ⟨a, ?_, ?_, ?_⟩, rfl, rfl⟩
    · simp only [C05.expect22, toW22, List.length_map]; exact hl
    · rw [ha, hnp]
    · rw [← hln]; exact hle
    · simp only [C05.expect22, toW22]
      rw [← hln, ← hdata]

/-! ### Contiguity from `OpsOK` -/

/-- every block of the history carries the sample period `per` -/
def OnePeriod (per : Int) : Op → Prop
  | .block _ _ period _ _ => period = per
  | _ => True

/-- blocks as a data source delivers them (`OpsOK`: consecutive frame numbers, equal segment lengths) with
one sample period are contiguous in the sense of C01 (`Contig`) -/
theorem contig_of_opsOK_aux (per f0 : Int) (nch : Nat) :
    ∀ (ops : List Op) (F : Int) (Gs : List (List Nat)) (m : Nat),
      OpsOK nch F ops → (∀ o ∈ ops, OnePeriod per o) → Gs.length = nch → (∀ G ∈ Gs, G.length = m) →
      F = f0 + m → Contig per f0 Gs ops
  | [], _, _, _, _, _, _, _, _ => trivial
  | o :: os, F, Gs, m, hok, hp, hl, hm, hF => by
    have hpo := hp o (by simp)
    have hpos : ∀ o' ∈ os, OnePeriod per o' := fun o' ho' => hp o' (by simp [ho'])
    cases o with
    | block first t0 period signed data =>
      obtain ⟨hdl, n, hdn, _, hfF, hrest⟩ := hok
      refine ⟨⟨hpo, ?_⟩, ?_⟩
      · intro G hG; rw [hm G hG]; omega
      · refine contig_of_opsOK_aux per f0 nch os (F + n) _ (m + n) hrest hpos ?_ ?_ (by omega)
        · simp [deliver, hl, hdl]
        · intro G hG
          simp only [deliver] at hG
          obtain ⟨i, hi, rfl⟩ := List.getElem_of_mem hG
          simp only [List.length_zipWith] at hi
          simp only [List.getElem_zipWith, List.length_append]
          rw [hm _ (List.getElem_mem _), hdn _ (List.getElem_mem _)]
    | trig r => exact ⟨trivial, contig_of_opsOK_aux per f0 nch os F Gs m hok hpos hl hm hF⟩
    | len a b => exact ⟨trivial, contig_of_opsOK_aux per f0 nch os F Gs m hok hpos hl hm hF⟩
    | gadd ps => exact ⟨trivial, contig_of_opsOK_aux per f0 nch os F Gs m hok hpos hl hm hF⟩
    | gdel ps => exact ⟨trivial, contig_of_opsOK_aux per f0 nch os F Gs m hok hpos hl hm hF⟩
    | gstop => exact ⟨trivial, contig_of_opsOK_aux per f0 nch os F Gs m hok hpos hl hm hF⟩

theorem contig_of_opsOK (per f0 : Int) (nch : Nat) (ops : List Op) (hok : OpsOK nch f0 ops)
    (hp : ∀ o ∈ ops, OnePeriod per o) : Contig per f0 (List.replicate nch []) ops :=
  contig_of_opsOK_aux per f0 nch ops f0 _ 0 hok hp (by simp)
    (by intro G hG; rw [List.eq_of_mem_replicate hG]; rfl) (by simp)

/-- **The samples in the file are the samples of the stream** — hypotheses on the history reduced to what a
data source guarantees: blocks with one segment per channel, equal lengths, consecutive frame numbers
starting at `f0` (`OpsOK`), one sample period; requests: group-trigger edits only. -/
theorem file_samples_are_stream_excerpts_of_blocks (nch : Nat) (npre nsamp : Int) (saved : List (Nat × TS))
    (hv : 3 ≤ npre ∧ npre < nsamp) (zts : List (List (Int × Int)))
    (hzt : ∀ (j : Nat) (p : Int), -1 ≤ ztOf (zts[j]?.getD []) p ∧ ztOf (zts[j]?.getD []) p ≤ 1)
    (per f0 : Int) (ops : List Op) (hok : OpsOK nch f0 ops)
    (hper : ∀ o ∈ ops, OnePeriod per o) (hk : ∀ o ∈ ops, KeepsSettings o) :
    ∃ outs, runOps zts (prepare nch npre nsamp saved) ops = some outs ∧
      ∀ (j : Nat), j < nch →
        ∀ (p : C05.Params) (hdr : C05.Bytes), p.nsamp = nsamp →
        ∀ (batches : List (List C05.W22)), batches.flatten = (chanRecs j outs).map toW22 →
          let recs := chanRecs j outs
          let S := chanStream j ops
          let fin := C05.run (C05.fmt22 p hdr) {} (fileOps batches)
          (recs = [] → C05.fileOf fin = none) ∧
          (recs ≠ [] → ∃ file parsed, C05.fileOf fin = some file ∧ file.take hdr.length = hdr ∧
            C05.parseBody (C05.parseLJH22 p.nsamp.toNat 2) (file.drop hdr.length) = some parsed ∧
            parsed.length = recs.length ∧
            ∀ (k : Nat) (R : C05.R22), parsed[k]? = some R →
              ∃ r, recs[k]? = some r ∧
                (R.samples.length : Int) = nsamp ∧
                (∃ a : Nat, (a : Int) = r.frame - f0 - npre ∧ a + nsamp.toNat ≤ S.length ∧
                  R.samples = ((S.drop a).take nsamp.toNat).map (· % 65536)) ∧
                R.subframe = C05.twos 8 (r.frame * p.subdiv + p.suboff) ∧
                R.timeUs = C05.twos 8 (r.time.tdiv 1000)) :=
  file_samples_are_stream_excerpts nch npre nsamp saved hv zts hzt per f0 f0 ops hok
    (contig_of_opsOK per f0 nch ops hok hper) hk

/-- non-vacuity: the hypotheses on the history are met by an ordinary one (two channels, two blocks with a
connection request in between, frames from 100 on, sample period 1000) -/
example : OpsOK 2 100 [.block 100 0 1000 [false, false] [[1, 2, 3], [4, 5, 6]], .gadd [(0, 1)],
      .block 103 3000 1000 [false, false] [[7], [8]]] ∧
    Contig 1000 100 (List.replicate 2 []) [.block 100 0 1000 [false, false] [[1, 2, 3], [4, 5, 6]], .gadd [(0, 1)],
      .block 103 3000 1000 [false, false] [[7], [8]]] ∧
    (∀ o ∈ [Op.block 100 0 1000 [false, false] [[1, 2, 3], [4, 5, 6]], .gadd [(0, 1)],
      .block 103 3000 1000 [false, false] [[7], [8]]], OnePeriod 1000 o) ∧
    (∀ o ∈ [Op.block 100 0 1000 [false, false] [[1, 2, 3], [4, 5, 6]], .gadd [(0, 1)],
      .block 103 3000 1000 [false, false] [[7], [8]]], KeepsSettings o) ∧
    chanStream 1 [.block 100 0 1000 [false, false] [[1, 2, 3], [4, 5, 6]], .gadd [(0, 1)],
      .block 103 3000 1000 [false, false] [[7], [8]]] = [4, 5, 6, 8] := by
  have hok : OpsOK 2 100 [.block 100 0 1000 [false, false] [[1, 2, 3], [4, 5, 6]], .gadd [(0, 1)],
      .block 103 3000 1000 [false, false] [[7], [8]]] := by
    refine ⟨rfl, 3, by simp, by decide, rfl, ?_⟩
    exact ⟨rfl, 1, by simp, by decide, rfl, trivial⟩
  have hper : ∀ o ∈ [Op.block 100 0 1000 [false, false] [[1, 2, 3], [4, 5, 6]], .gadd [(0, 1)],
      .block 103 3000 1000 [false, false] [[7], [8]]], OnePeriod 1000 o := by
    intro o ho
    simp only [List.mem_cons, List.not_mem_nil, or_false] at ho
    rcases ho with rfl | rfl | rfl <;> first | rfl | trivial
  refine ⟨hok, contig_of_opsOK _ _ _ _ hok hper, hper, ?_, by decide⟩
  intro o ho
  simp only [List.mem_cons, List.not_mem_nil, or_false] at ho
  rcases ho with rfl | rfl | rfl <;> trivial

end DastardV.Compose
