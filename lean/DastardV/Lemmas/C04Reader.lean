/-
C04 helper lemmas, part 2: the reader tick and the reader loop on a stream of well-formed frames.
-/
import DastardV.Lemmas.C04Bits
namespace DastardV.C04

/-! ### 16-bit view of encoded words -/

/-- the 16-bit samples of a word list in buffer order: err, fb, err, fb, … -/
def flat (ws : List Word) : List Nat := ws.flatMap fun w => [w.1, w.2]

@[simp] theorem flat_nil : flat [] = [] := rfl
@[simp] theorem flat_cons (w : Word) (ws : List Word) : flat (w :: ws) = w.1 :: w.2 :: flat ws := by simp [flat]
@[simp] theorem flat_append (a b : List Word) : flat (a ++ b) = flat a ++ flat b := by simp [flat]
@[simp] theorem flat_length (ws : List Word) : (flat ws).length = 2 * ws.length := by
  induction ws with
  | nil => rfl
  | cons w ws ih => simp [ih]; omega

theorem u16s_words (ws : List Word) (X : List Nat) : u16s (encWords ws ++ X) = flat ws ++ u16s X := by
  induction ws with
  | nil => simp
  | cons w ws ih =>
    rw [encWords_cons, List.append_assoc]
    simp only [encWord, List.cons_append, List.nil_append, u16s, flat_cons]
    rw [ih]
    have e1 : w.1 % 256 + 256 * (w.1 / 256) = w.1 := by omega
    have e2 : w.2 % 256 + 256 * (w.2 / 256) = w.2 := by omega
    rw [e1, e2]

/-! ### indexing a concatenation of equally long pieces -/

theorem getD_flatten_uniform {α} (n : Nat) (d : α) :
    ∀ (ls : List (List α)) (Y : List α) (i j : Nat), (∀ l ∈ ls, l.length = n) → i < n → j < ls.length →
      (ls.flatten ++ Y).getD (i + j * n) d = (ls.getD j []).getD i d := by
  intro ls
  induction ls with
  | nil => intro Y i j _ _ hj; simp at hj
  | cons l ls ih =>
    intro Y i j hall hi hj
    have hl : l.length = n := hall l (by simp)
    cases j with
    | zero =>
      simp only [Nat.zero_mul, Nat.add_zero, List.flatten_cons, List.append_assoc]
      rw [List.getD_eq_getElem?_getD, List.getElem?_append_left (by omega)]
      simp [List.getD_eq_getElem?_getD]
    | succ j =>
      simp only [List.flatten_cons, List.append_assoc]
      rw [List.getD_eq_getElem?_getD, List.getElem?_append_right (by rw [hl, Nat.succ_mul]; omega)]
      have : i + (j + 1) * n - l.length = i + j * n := by rw [hl, Nat.succ_mul]; omega
      rw [this, ← List.getD_eq_getElem?_getD]
      rw [ih Y i j (fun l' h' => hall l' (by simp [h'])) hi (by simpa using hj)]
      simp

theorem map_range_getD {α β} (l : List α) (d : α) (f : α → β) :
    (List.range l.length).map (fun j => f (l.getD j d)) = l.map f := by
  apply List.ext_getElem
  · simp
  · intro i h1 h2
    simp at h1
    simp [List.getD_eq_getElem?_getD, List.getElem?_eq_getElem h1]

theorem flat_flatten (frs : List Frame) : flat frs.flatten = (frs.map flat).flatten := by
  induction frs with
  | nil => rfl
  | cons fr frs ih => simp [ih]

/-- readout-order slices of a list of frames: slice `i` holds 16-bit sample `i` of every frame -/
def sliced (g : Geom) (frs : List Frame) : List (List Nat) :=
  (List.range g.nchan).map fun i => frs.map fun fr => (flat fr).getD i 0

theorem nchan_eq (g : Geom) : g.nchan = 2 * g.F := by unfold Geom.nchan Geom.F; omega
theorem fs_eq (g : Geom) : g.fs = 4 * g.F := by unfold Geom.fs Geom.F; omega

theorem arr_getD (l : List Nat) (k : Nat) : l.toArray.getD k 0 = l.getD k 0 := by simp

theorem demux_sliced (g : Geom) (frs : List Frame) (hlen : ∀ fr ∈ frs, fr.length = g.F) (X : List Nat) :
    demux g.nchan frs.length (u16s (encFrames frs ++ X)) = sliced g frs := by
  unfold demux sliced
  apply List.map_congr_left
  intro i hi
  simp only [List.mem_range] at hi
  rw [← map_range_getD frs [] (fun fr => (flat fr).getD i 0)]
  apply List.map_congr_left
  intro j hj
  simp only [List.mem_range] at hj
  rw [arr_getD]
  unfold encFrames
  rw [u16s_words, flat_flatten]
  rw [getD_flatten_uniform g.nchan 0 (frs.map flat) (u16s X) i j ?_ hi (by simpa using hj)]
  · congr 1
    simp [List.getD_eq_getElem?_getD, List.getElem?_map]
    cases frs[j]? <;> simp
  · intro l hl
    simp only [List.mem_map] at hl
    obtain ⟨fr, hfr, rfl⟩ := hl
    rw [flat_length, hlen fr hfr, nchan_eq]

@[simp] theorem encFrames_nil : encFrames [] = [] := rfl
theorem encFrames_cons (fr : Frame) (frs : List Frame) : encFrames (fr :: frs) = encWords fr ++ encFrames frs := by
  simp [encFrames]
theorem encFrames_append (a b : List Frame) : encFrames (a ++ b) = encFrames a ++ encFrames b := by
  simp [encFrames]

theorem encFrames_length (g : Geom) (frs : List Frame) (hlen : ∀ fr ∈ frs, fr.length = g.F) :
    (encFrames frs).length = frs.length * g.fs := by
  induction frs with
  | nil => simp
  | cons fr frs ih =>
    rw [encFrames_cons, List.length_append, encWords_length, hlen fr (by simp),
      ih (fun f h => hlen f (by simp [h])), fs_eq]
    simp [Nat.succ_mul]; omega

theorem encFrames_take (g : Geom) (frs : List Frame) (hlen : ∀ fr ∈ frs, fr.length = g.F) (m : Nat) (hm : m ≤ frs.length) :
    (encFrames frs).take (m * g.fs) = encFrames (frs.take m) := by
  conv => lhs; rw [← List.take_append_drop m frs, encFrames_append]
  apply List.take_left'
  rw [encFrames_length g _ (fun f h => hlen f (List.mem_of_mem_take h))]
  simp [Nat.min_eq_left hm]

theorem encFrames_drop (g : Geom) (frs : List Frame) (hlen : ∀ fr ∈ frs, fr.length = g.F) (m : Nat) (hm : m ≤ frs.length) :
    (encFrames frs).drop (m * g.fs) = encFrames (frs.drop m) := by
  conv => lhs; rw [← List.take_append_drop m frs, encFrames_append]
  apply List.drop_left'
  rw [encFrames_length g _ (fun f h => hlen f (List.mem_of_mem_take h))]
  simp [Nat.min_eq_left hm]

theorem tdiv_cast (a b : Nat) : Int.tdiv (a : Int) (b : Int) = ((a / b : Nat) : Int) := by
  simp [Int.tdiv]


theorem readerTick_prefix (g : Geom) (hg : geomOK g = true) (rem : List Frame)
    (hwf : ∀ fr ∈ rem, frameWF g fr = true) (L : Nat) (hL : L ≤ (encFrames rem).length) :
    readerTick g ((encFrames rem).take L) =
      if L < 3 * g.fs then .small
      else .deliver false (L / g.fs * g.fs) (u16s ((encFrames rem).take L)) (L / g.fs) := by
  have ⟨hc, hr, hF⟩ := geom_facts g hg
  have hlen : ∀ fr ∈ rem, fr.length = g.F := fun fr h => frameWF_length g fr (hwf fr h)
  have hfs := fs_eq g
  have hblen : ((encFrames rem).take L).length = L := by simp [Nat.min_eq_left hL]
  by_cases hsmall : L < 3 * g.fs
  · unfold readerTick
    simp [hblen, hsmall]
  · rw [if_neg hsmall]
    rw [encFrames_length g rem hlen] at hL
    have h3 : 3 ≤ rem.length := by
      by_cases h : 3 ≤ rem.length
      · exact h
      · exfalso
        have : rem.length * g.fs ≤ 2 * g.fs := Nat.mul_le_mul_right _ (by omega)
        omega
    match rem, hwf, hlen, hL, h3 with
    | fr0 :: fr1 :: fr2 :: rest, hwf, hlen, hL, _ =>
      have l0 := hlen fr0 (by simp)
      have l1 := hlen fr1 (by simp)
      have l2 := hlen fr2 (by simp)
      have hsplit : (encFrames (fr0 :: fr1 :: fr2 :: rest)).take L =
          encWords (fr0.drop 0 ++ fr1 ++ fr2) ++ (encFrames rest).take (L - 12 * g.F) := by
        rw [encFrames_cons, encFrames_cons, encFrames_cons, List.drop_zero]
        rw [← List.append_assoc, ← List.append_assoc, ← encWords_append, ← encWords_append]
        rw [List.take_append]
        have : (encWords (fr0 ++ fr1 ++ fr2)).length = 12 * g.F := by simp [l0, l1, l2]; omega
        rw [this, List.take_of_length_le (by omega)]
      have hffb := ffb_phase g hg fr0 fr1 fr2 (hwf fr0 (by simp)) (hwf fr1 (by simp)) (hwf fr2 (by simp))
        0 (by omega) ((encFrames rest).take (L - 12 * g.F))
      rw [← hsplit] at hffb
      have hnr : g.F / g.nc = g.nr := by unfold Geom.F; exact Nat.mul_div_cancel_left _ (by omega)
      have hcast : ((2 * g.F - 0 : Nat) : Int) - ((g.F - 0 : Nat) : Int) = ((g.F : Nat) : Int) := by omega
      have hpos : 0 < g.fs := by omega
      have hdiv : L / g.fs ≠ 0 := by
        have : 1 ≤ L / g.fs := (Nat.le_div_iff_mul_le hpos).mpr (by omega)
        omega
      unfold readerTick
      simp only [hblen, hsmall, ↓reduceIte, hffb, hcast, tdiv_cast, hnr]
      have hF' : g.F = g.nc * g.nr := rfl
      simp [hF', hdiv]
      omega

/-- the buffers the reader produces from frame groups `parts` at times `ts` on a loss-free stream -/
def cleanBufs (g : Geom) (parts : List (List Frame)) (ts : List Int) : List Buf :=
  List.zipWith (fun p t => ({ dc := sliced g p, t := t, drop := false } : Buf)) parts ts

theorem runReader_wf (g : Geom) (hg : geomOK g = true) :
    ∀ (ticks : List (Nat × Int)) (rem : List Frame) (pending future : List Nat),
    (∀ fr ∈ rem, frameWF g fr = true) → pending ++ future = encFrames rem → pending.length < 3 * g.fs →
    ∃ (parts : List (List Frame)) (ts : List Int),
      runReader g { pending := pending, future := future } false ticks = .ok (cleanBufs g parts ts)
      ∧ parts.length = ts.length
      ∧ (∀ p ∈ parts, p ≠ [])
      ∧ parts.flatten <+: rem
      ∧ min (pending.length + (ticks.map (·.1)).sum) (encFrames rem).length < (parts.flatten.length + 3) * g.fs := by
  have ⟨hc, hr, hF⟩ := geom_facts g hg
  have hfs := fs_eq g
  have hpos : 0 < g.fs := by omega
  intro ticks
  induction ticks with
  | nil =>
    intro rem pending future _ _ hp
    refine ⟨[], [], by simp [runReader, cleanBufs], rfl, by simp, by simp, ?_⟩
    simp; omega
  | cons tk rest ih =>
    obtain ⟨chunk, t⟩ := tk
    intro rem pending future hwf hS hp
    have hlen : ∀ fr ∈ rem, fr.length = g.F := fun fr h => frameWF_length g fr (hwf fr h)
    obtain ⟨b, hb⟩ : ∃ b, b = pending ++ future.take chunk := ⟨_, rfl⟩
    obtain ⟨L, hLdef⟩ : ∃ L, L = b.length := ⟨_, rfl⟩
    have hLval : L = pending.length + min chunk future.length := by
      rw [hLdef, hb]; simp
    have hbS : b = (encFrames rem).take L := by
      rw [← hS, hLval, hb, List.take_append]
      congr 1
      · rw [List.take_of_length_le (by omega)]
      · simp [List.take_eq_take_iff]
    have hLS : L ≤ (encFrames rem).length := by
      rw [← hS, hLval]
      simp; omega
    have hSsplit : b ++ future.drop chunk = encFrames rem := by
      rw [← hS, hb]
      simp
    have htick := readerTick_prefix g hg rem hwf L hLS
    rw [← hbS] at htick
    have hSlen : (encFrames rem).length = pending.length + future.length := by rw [← hS]; simp
    by_cases hsmall : L < 3 * g.fs
    · rw [if_pos hsmall] at htick
      obtain ⟨parts, ts, hrun, hl, hne, hpre, hav⟩ := ih rem b (future.drop chunk) hwf hSsplit (hLdef ▸ hsmall)
      refine ⟨parts, ts, ?_, hl, hne, hpre, ?_⟩
      · simp only [runReader]
        rw [← hb, htick]
        exact hrun
      · simp only [List.map_cons, List.sum_cons]
        have : min (pending.length + (chunk + (rest.map (·.1)).sum)) (encFrames rem).length
            = min (L + (rest.map (·.1)).sum) (encFrames rem).length := by
          rw [hLval, hSlen]; omega
        rw [this, hLdef]; exact hav
    · rw [if_neg hsmall] at htick
      obtain ⟨m, hmdef⟩ : ∃ m, m = L / g.fs := ⟨_, rfl⟩
      rw [← hmdef] at htick
      have hmL : m * g.fs ≤ L := by rw [hmdef]; exact Nat.div_mul_le_self L g.fs
      have hrlen : (encFrames rem).length = rem.length * g.fs := encFrames_length g rem hlen
      have hm : m ≤ rem.length := by
        have : m * g.fs ≤ rem.length * g.fs := by omega
        exact Nat.le_of_mul_le_mul_right this hpos
      have hrem' : b.drop (m * g.fs) ++ future.drop chunk = encFrames (rem.drop m) := by
        rw [← encFrames_drop g rem hlen m hm, ← hSsplit, List.drop_append_of_le_length (hLdef ▸ hmL)]
      have hp' : (b.drop (m * g.fs)).length < 3 * g.fs := by
        have : L % g.fs < g.fs := Nat.mod_lt _ hpos
        have h2 : L = m * g.fs + L % g.fs := by
          have := Nat.div_add_mod L g.fs
          rw [Nat.mul_comm, ← hmdef] at this; omega
        simp only [List.length_drop, ← hLdef]
        omega
      obtain ⟨parts, ts, hrun, hl, hne, hpre, hav⟩ :=
        ih (rem.drop m) (b.drop (m * g.fs)) (future.drop chunk)
          (fun fr h => hwf fr (List.mem_of_mem_drop h)) hrem' hp'
      have hbsplit : b = encFrames (rem.take m) ++ ((encFrames rem).drop (m * g.fs)).take (L - m * g.fs) := by
        rw [hbS, ← encFrames_take g rem hlen m hm]
        have : L = m * g.fs + (L - m * g.fs) := by omega
        conv => lhs; rw [this, List.take_add]
      have hdc : demux g.nchan m (u16s b) = sliced g (rem.take m) := by
        have hl' : (rem.take m).length = m := by simp [Nat.min_eq_left hm]
        have := demux_sliced g (rem.take m) (fun f h => hlen f (List.mem_of_mem_take h))
          (((encFrames rem).drop (m * g.fs)).take (L - m * g.fs))
        rw [hl'] at this
        rw [hbsplit]; exact this
      have hm0 : m ≠ 0 := by
        have : 1 ≤ m := by rw [hmdef]; exact (Nat.le_div_iff_mul_le hpos).mpr (by omega)
        omega
      refine ⟨rem.take m :: parts, t :: ts, ?_, by simp [hl], ?_, ?_, ?_⟩
      · simp only [runReader]
        rw [← hb, htick]
        simp only []
        rw [hrun, hdc]
        simp [cleanBufs]
      · intro p hp
        simp at hp
        rcases hp with rfl | hp
        · intro h
          have : (rem.take m).length = m := by simp [Nat.min_eq_left hm]
          rw [h] at this; simp at this; omega
        · exact hne p hp
      · rw [List.flatten_cons]
        conv => rhs; rw [← List.take_append_drop m rem]
        exact (List.prefix_append_right_inj _).mpr hpre
      · simp only [List.map_cons, List.sum_cons, List.flatten_cons, List.length_append]
        have hl' : (rem.take m).length = m := by simp [Nat.min_eq_left hm]
        rw [hl']
        have hdl : (encFrames (rem.drop m)).length = (encFrames rem).length - m * g.fs := by
          rw [encFrames_length g _ (fun f h => hlen f (List.mem_of_mem_drop h)), hrlen]
          simp [Nat.sub_mul]
        rw [hdl] at hav
        simp only [List.length_drop, ← hLdef] at hav
        have : (m + parts.flatten.length + 3) * g.fs = m * g.fs + (parts.flatten.length + 3) * g.fs := by
          simp [Nat.add_mul]; omega
        rw [this, hSlen]
        rw [hSlen] at hav
        omega

/-- A read that starts `k` words into a frame (0 < k < F): flagged as a data drop, the rest of the broken
frame is released, whole frames are delivered from the next frame boundary on, and what stays on the
card again starts on a frame boundary. -/
theorem readerTick_misaligned (g : Geom) (hg : geomOK g = true) (fr0 : Frame) (rem : List Frame)
    (h0 : frameWF g fr0 = true) (hwf : ∀ fr ∈ rem, frameWF g fr = true)
    (k : Nat) (hk0 : 0 < k) (hk : k < g.F) (L : Nat)
    (hL : L ≤ (encWords (fr0.drop k) ++ encFrames rem).length) (h3 : 3 * g.fs ≤ L) :
    let m := (L - g.fs) / g.fs
    readerTick g ((encWords (fr0.drop k) ++ encFrames rem).take L) =
      .deliver true (4 * (g.F - k) + m * g.fs) (u16s ((encFrames rem).take (L - g.fs))) m
    ∧ 2 ≤ m ∧ m ≤ rem.length
    ∧ demux g.nchan m (u16s ((encFrames rem).take (L - g.fs))) = sliced g (rem.take m)
    ∧ (encWords (fr0.drop k) ++ encFrames rem).drop (4 * (g.F - k) + m * g.fs) = encFrames (rem.drop m) := by
  intro m
  have ⟨hc, hr, hF⟩ := geom_facts g hg
  have hfs := fs_eq g
  have hpos : 0 < g.fs := by omega
  have hlen : ∀ fr ∈ rem, fr.length = g.F := fun fr h => frameWF_length g fr (hwf fr h)
  have l0 := frameWF_length g fr0 h0
  have hd0 : (encWords (fr0.drop k)).length = 4 * (g.F - k) := by simp [l0]
  have hrl := encFrames_length g rem hlen
  rw [List.length_append, hd0, hrl] at hL
  have hmdef : m = (L - g.fs) / g.fs := rfl
  have hm2 : 2 ≤ m := by rw [hmdef]; exact (Nat.le_div_iff_mul_le hpos).mpr (by omega)
  have hmL : m * g.fs ≤ L - g.fs := by rw [hmdef]; exact Nat.div_mul_le_self _ _
  have hm : m ≤ rem.length := by
    have : m * g.fs ≤ rem.length * g.fs := by omega
    exact Nat.le_of_mul_le_mul_right this hpos
  have h3r : 3 ≤ rem.length := by
    by_cases h : 3 ≤ rem.length
    · exact h
    · exfalso
      have : rem.length * g.fs ≤ 2 * g.fs := Nat.mul_le_mul_right _ (by omega)
      omega
  have hblen : ((encWords (fr0.drop k) ++ encFrames rem).take L).length = L := by
    simp [l0, hrl]; omega
  have hdc : demux g.nchan m (u16s ((encFrames rem).take (L - g.fs))) = sliced g (rem.take m) := by
    have hl' : (rem.take m).length = m := by simp [Nat.min_eq_left hm]
    have := demux_sliced g (rem.take m) (fun f h => hlen f (List.mem_of_mem_take h))
      (((encFrames rem).drop (m * g.fs)).take (L - g.fs - m * g.fs))
    rw [hl'] at this
    rw [← this, encFrames_take g rem hlen m hm |>.symm]
    have : L - g.fs = m * g.fs + (L - g.fs - m * g.fs) := by omega
    conv => lhs; rw [this, List.take_add]
  have hrest : (encWords (fr0.drop k) ++ encFrames rem).drop (4 * (g.F - k) + m * g.fs) = encFrames (rem.drop m) := by
    rw [← hd0, List.drop_append, List.drop_of_length_le (by omega)]
    simp only [List.nil_append]
    have : (encWords (fr0.drop k)).length + m * g.fs - (encWords (fr0.drop k)).length = m * g.fs := by omega
    rw [this, encFrames_drop g rem hlen m hm]
  refine ⟨?_, hm2, hm, hdc, hrest⟩
  match rem, hwf, hlen, hL, h3r, hrl with
  | fr1 :: fr2 :: fr3 :: rest, hwf, hlen, hL, _, hrl =>
    have l1 := hlen fr1 (by simp)
    have l2 := hlen fr2 (by simp)
    have hsplit : (encWords (fr0.drop k) ++ encFrames (fr1 :: fr2 :: fr3 :: rest)).take L =
        encWords (fr0.drop k ++ fr1 ++ fr2) ++ (encFrames (fr3 :: rest)).take (L - (4 * (g.F - k) + 8 * g.F)) := by
      rw [encFrames_cons, encFrames_cons]
      rw [← List.append_assoc, ← List.append_assoc, ← encWords_append, ← encWords_append]
      rw [List.take_append]
      have : (encWords (fr0.drop k ++ fr1 ++ fr2)).length = 4 * (g.F - k) + 8 * g.F := by simp [l0, l1, l2]; omega
      rw [this, List.take_of_length_le (by omega)]
    have hffb := ffb_phase g hg fr0 fr1 fr2 h0 (hwf fr1 (by simp)) (hwf fr2 (by simp))
      k hk ((encFrames (fr3 :: rest)).take (L - (4 * (g.F - k) + 8 * g.F)))
    rw [← hsplit] at hffb
    have hnr : g.F / g.nc = g.nr := by unfold Geom.F; exact Nat.mul_div_cancel_left _ (by omega)
    have hcast : ((2 * g.F - k : Nat) : Int) - ((g.F - k : Nat) : Int) = ((g.F : Nat) : Int) := by omega
    have hb' : (((encWords (fr0.drop k) ++ encFrames (fr1 :: fr2 :: fr3 :: rest)).take L).drop ((g.F - k) * 4)).take
        (L - (g.fs - (g.F - k) * 4) - (g.F - k) * 4) = (encFrames (fr1 :: fr2 :: fr3 :: rest)).take (L - g.fs) := by
      have e1 : (g.F - k) * 4 = (encWords (fr0.drop k)).length := by rw [hd0]; omega
      rw [e1, List.drop_take, List.drop_left, List.take_take]
      congr 1
      rw [hd0]; omega
    have hns : ¬ L < 3 * g.fs := by omega
    unfold readerTick
    simp only [hblen, hns, ↓reduceIte, hffb, hcast, tdiv_cast, hnr]
    have hF' : g.F = g.nc * g.nr := rfl
    have hq : g.F - k ≠ g.nc * g.nr := by omega
    have hne : ¬ (g.F - k = 0) := by omega
    have hfsq : ¬ (g.fs ≤ (g.F - k) * 4) := by omega
    simp only [hb']
    have hlen2 : ((encFrames (fr1 :: fr2 :: fr3 :: rest)).take (L - g.fs)).length = L - g.fs := by
      rw [List.length_take, hrl]
      apply Nat.min_eq_left
      omega
    simp only [hlen2, ← hmdef]
    have hm0 : ¬ (m = 0) := by omega
    have hc0 : ¬ (g.nc = 0) := by omega
    have hnd : ¬ (g.nc * g.nr < g.F - k) := by omega
    simp [hq, hne, hfsq, hm0, hc0, hnd]
    omega

/-- The reader loop on a stream that starts `k` words into a frame (what is left after a loss that a
read boundary falls on), for every schedule of reads: nothing is delivered until 3 frames are visible;
the first delivered buffer carries the data-drop flag and holds whole frames from the next frame
boundary on; every later buffer is unflagged; together they are a prefix of the frames after the
broken one, in order. -/
theorem runReader_misaligned (g : Geom) (hg : geomOK g = true) (fr0 : Frame) (rem : List Frame)
    (h0 : frameWF g fr0 = true) (hwf : ∀ fr ∈ rem, frameWF g fr = true)
    (k : Nat) (hk0 : 0 < k) (hk : k < g.F) :
    ∀ (ticks : List (Nat × Int)) (pending future : List Nat),
    pending ++ future = encWords (fr0.drop k) ++ encFrames rem → pending.length < 3 * g.fs →
    runReader g { pending := pending, future := future } false ticks = .ok [] ∨
    ∃ (p : List Frame) (t : Int) (parts : List (List Frame)) (ts : List Int),
      runReader g { pending := pending, future := future } false ticks =
        .ok ({ dc := sliced g p, t := t, drop := true } :: cleanBufs g parts ts) ∧
      p ≠ [] ∧ (p :: parts).flatten <+: rem := by
  have hfs := fs_eq g
  intro ticks
  induction ticks with
  | nil => intro _ _ _ _; left; simp [runReader]
  | cons tk rest ih =>
    obtain ⟨chunk, t⟩ := tk
    intro pending future hS hp
    obtain ⟨b, hb⟩ : ∃ b, b = pending ++ future.take chunk := ⟨_, rfl⟩
    obtain ⟨L, hLdef⟩ : ∃ L, L = b.length := ⟨_, rfl⟩
    have hLval : L = pending.length + min chunk future.length := by rw [hLdef, hb]; simp
    have hbS : b = (encWords (fr0.drop k) ++ encFrames rem).take L := by
      rw [← hS, hLval, hb, List.take_append]
      congr 1
      · rw [List.take_of_length_le (by omega)]
      · simp [List.take_eq_take_iff]
    have hLS : L ≤ (encWords (fr0.drop k) ++ encFrames rem).length := by
      rw [← hS, hLval]; simp; omega
    have hSsplit : b ++ future.drop chunk = encWords (fr0.drop k) ++ encFrames rem := by
      rw [← hS, hb]; simp
    by_cases hsmall : L < 3 * g.fs
    · have htick : readerTick g b = .small := by
        unfold readerTick; rw [← hLdef]; simp [hsmall]
      have := ih b (future.drop chunk) hSsplit (hLdef ▸ hsmall)
      simp only [runReader]
      rw [← hb, htick]
      exact this
    · right
      have ⟨htick, hm2, hm, hdc, hrest⟩ := readerTick_misaligned g hg fr0 rem h0 hwf k hk0 hk L hLS (by omega)
      rw [← hbS] at htick
      obtain ⟨m, hmdef⟩ : ∃ m, m = (L - g.fs) / g.fs := ⟨_, rfl⟩
      simp only [← hmdef] at htick hm2 hm hdc hrest
      have hlen : ∀ fr ∈ rem, fr.length = g.F := fun fr h => frameWF_length g fr (hwf fr h)
      have hrel : 4 * (g.F - k) + m * g.fs ≤ L := by
        have : m * g.fs ≤ L - g.fs := by rw [hmdef]; exact Nat.div_mul_le_self _ _
        omega
      have hrem' : b.drop (4 * (g.F - k) + m * g.fs) ++ future.drop chunk = encFrames (rem.drop m) := by
        rw [← hrest, ← hSsplit, List.drop_append_of_le_length (hLdef ▸ hrel)]
      have hp' : (b.drop (4 * (g.F - k) + m * g.fs)).length < 3 * g.fs := by
        have hpos : 0 < g.fs := by have := geom_facts g hg; omega
        have h1 : L - g.fs < (m + 1) * g.fs := by
          rw [hmdef]
          have := Nat.lt_div_mul_add (a := L - g.fs) hpos
          rw [Nat.succ_mul]; omega
        simp only [List.length_drop, ← hLdef]
        rw [Nat.succ_mul] at h1
        omega
      obtain ⟨parts, ts, hrun, _, _, hpre, _⟩ :=
        runReader_wf g hg rest (rem.drop m) (b.drop (4 * (g.F - k) + m * g.fs)) (future.drop chunk)
          (fun fr h => hwf fr (List.mem_of_mem_drop h)) hrem' hp'
      refine ⟨rem.take m, t, parts, ts, ?_, ?_, ?_⟩
      · simp only [runReader]
        rw [← hb, htick]
        simp only []
        rw [hrun, hdc]
        simp
      · intro h
        have : (rem.take m).length = m := by simp [Nat.min_eq_left hm]
        rw [h] at this; simp at this; omega
      · rw [List.flatten_cons]
        conv => rhs; rw [← List.take_append_drop m rem]
        exact (List.prefix_append_right_inj _).mpr hpre

end DastardV.C04
