/-
Composition of the Lancero ingest model (`C04`) with the pipeline model (`Pipe`, `C01`): the blocks
that the reader loop + `distributeData` emit on a loss-free stream (one slice per channel, all of the
block's length, numbered contiguously) are exactly what the pipeline theorems ask of their input
(`Pipe.OpsOK`), so the no-crash theorem of the whole source applies to every stream of well-formed
frames and every way of reading it: card bytes → records, never a panic.
-/
import DastardV.Props.C04
import DastardV.Lemmas.Compose
namespace DastardV.Compose
open Pipe

/-- a block of the Lancero ingest model as a block operation of the pipeline model (time stamp, period
and signedness flags are irrelevant to `OpsOK` and chosen by `mk`) -/
def lblockOp (mk : C04.Block → Int × Int × List Bool) (b : C04.Block) : Op :=
  .block b.first (mk b).1 (mk b).2.1 (mk b).2.2 b.data

/-- Lancero blocks that pass the shape check and are numbered contiguously (no loss reported) are valid
pipeline input -/
theorem lancero_blocks_opsOK (mk : C04.Block → Int × Int × List Bool) (g : C04.Geom) :
    ∀ (bs : List C04.Block) (f : Int), 0 ≤ f → C04.shapeOK g bs = true → C04.contiguous f bs = true →
      OpsOK g.nchan f (bs.map (lblockOp mk))
  | [], _, _, _, _ => trivial
  | b :: bs, f, hf, hs, hc => by
    simp only [C04.shapeOK, List.all_cons, Bool.and_eq_true, beq_iff_eq, List.all_eq_true] at hs
    obtain ⟨⟨hlen, hall⟩, hrest⟩ := hs
    simp only [C04.contiguous, Bool.and_eq_true, decide_eq_true_eq] at hc
    obtain ⟨⟨hfirst, _⟩, hc'⟩ := hc
    refine ⟨hlen, b.nframes, hall, by rw [hfirst]; exact hf, hfirst, ?_⟩
    exact lancero_blocks_opsOK mk g bs (f + b.nframes) (by omega)
      (by simp only [C04.shapeOK, List.all_eq_true, Bool.and_eq_true, beq_iff_eq]; exact hrest) hc'

/-- **Lancero ingest feeds the pipeline safely: card bytes → records, never a panic.**  For every
geometry (≥ 1 column, ≥ 2 rows), every list of well-formed frames, EVERY schedule of reads of the card's
byte stream, every mixer state and every non-negative frame counter: the reader loop does not crash, and
the blocks `distributeData` makes from its buffers, handed to a source as `PrepareRun` leaves it (any
restored trigger settings, valid record lengths), are processed without a panic, whatever control
requests (ConfigureTriggers incl. edge-multi, ConfigurePulseLengths, group-trigger edits) arrive in
between (`Weave`). -/
theorem lancero_blocks_never_crash {σ ρ : Type} (fops : C04.FloatOps σ ρ) (zero : σ) (scaleOf : Nat → σ)
    (g : C04.Geom) (hg : C04.geomOK g = true) (frames : List C04.Frame)
    (hwf : ∀ fr ∈ frames, C04.frameWF g fr = true) (ticks : List (Nat × Int))
    (st : C04.DState σ) (hnext : 0 ≤ st.next)
    (mk : C04.Block → Int × Int × List Bool)
    (npre nsamp : Int) (hlen : 3 ≤ npre ∧ npre < nsamp) (saved : List (Nat × Trig.TS))
    (zts : List (List (Int × Int)))
    (hzt : ∀ (j : Nat) (p : Int), -1 ≤ ztOf (zts[j]?.getD []) p ∧ ztOf (zts[j]?.getD []) p ≤ 1) :
    ∃ bufs, C04.runReader g { pending := [], future := C04.encFrames frames } false ticks = .ok bufs ∧
      ∀ ops, Weave ((C04.blocksOf (C04.runSteps fops zero scaleOf g st (bufs.map C04.Step.buf))).map (lblockOp mk)) ops →
        ∃ res, runOps zts (prepare g.nchan npre nsamp saved) ops = some res := by
  obtain ⟨bufs, hrun, _, hrest⟩ := C04.C04_chunking_independent fops zero scaleOf g hg frames hwf ticks st
  obtain ⟨_, _, hcont, _, hshape, _⟩ := hrest
  refine ⟨bufs, hrun, ?_⟩
  intro ops hw
  exact C01.C01_no_crash _ npre nsamp saved hlen zts hzt _ st.next
    (opsOK_weave _ hw st.next (lancero_blocks_opsOK mk g _ st.next hnext hshape hcont))

end DastardV.Compose
