/-
Composition of the Lancero ingest model (`C04`) with the pipeline model (`Pipe`, `C01`): the blocks
that the reader loop + `distributeData` emit on a loss-free stream (one slice per channel, all of the
block's length, numbered contiguously) are exactly what the pipeline theorems ask of their input
(`Pipe.OpsOK`), so the no-crash theorem of the whole source applies to every stream of well-formed
frames and every way of reading it: card bytes → records, never a panic.
-/
import DastardV.Props.C04
import DastardV.Lemmas.Compose
namespace DastardV.Compose
open Pipe

/-- a block of the Lancero ingest model as a block operation of the pipeline model (time stamp, period
and signedness flags are irrelevant to `OpsOK` and chosen by `mk`) -/
def lblockOp (mk : C04.Block → Int × Int × List Bool) (b : C04.Block) : Op :=
  .block b.first (mk b).1 (mk b).2.1 (mk b).2.2 b.data

/-- Lancero blocks that pass the shape check and are numbered contiguously (no loss reported) are valid
pipeline input -/
theorem lancero_blocks_opsOK (mk : C04.Block → Int × Int × List Bool) (g : C04.Geom) :
    ∀ (bs : List C04.Block) (f : Int), 0 ≤ f → C04.shapeOK g bs = true → C04.contiguous f bs = true →
      OpsOK g.nchan f (bs.map (lblockOp mk))
  | [], _, _, _, _ => trivial
  | b :: bs, f, hf, hs, hc => by
    simp only [C04.shapeOK, List.all_cons, Bool.and_eq_true, beq_iff_eq, List.all_eq_true] at hs
    obtain ⟨⟨hlen, hall⟩, hrest⟩ := hs
    simp only [C04.contiguous, Bool.and_eq_true, decide_eq_true_eq] at hc
    obtain ⟨⟨hfirst, _⟩, hc'⟩ := hc
    refine ⟨hlen, b.nframes, hall, by rw [hfirst]; exact hf, hfirst, ?_⟩
    exact lancero_blocks_opsOK mk g bs (f + b.nframes) (by omega)
      (by simp only [C04.shapeOK, List.all_eq_true, Bool.and_eq_true, beq_iff_eq]; exact hrest) hc'

/-- **Lancero ingest feeds the pipeline safely: card bytes → records, never a panic.**  For every
geometry (≥ 1 column, ≥ 2 rows), every list of well-formed frames, EVERY schedule of reads of the card's
byte stream, every mixer state and every non-negative frame counter: the reader loop does not crash, and
the blocks `distributeData` makes from its buffers, handed to a source as `PrepareRun` leaves it (any
restored trigger settings, valid record lengths), are processed without a panic, whatever control
requests (ConfigureTriggers incl. edge-multi, ConfigurePulseLengths, group-trigger edits) arrive in
between (`Weave`). -/
theorem lancero_blocks_never_crash {σ ρ : Type} (fops : C04.FloatOps σ ρ) (zero : σ) (scaleOf : Nat → σ)
    (g : C04.Geom) (hg : C04.geomOK g = true) (frames : List C04.Frame)
    (hwf : ∀ fr ∈ frames, C04.frameWF g fr = true) (ticks : List (Nat × Int))
    (st : C04.DState σ) (hnext : 0 ≤ st.next)
    (mk : C04.Block → Int × Int × List Bool)
    (npre nsamp : Int) (hlen : 3 ≤ npre ∧ npre < nsamp) (saved : List (Nat × Trig.TS))
    (zts : List (List (Int × Int)))
    (hzt : ∀ (j : Nat) (p : Int), -1 ≤ ztOf (zts[j]?.getD []) p ∧ ztOf (zts[j]?.getD []) p ≤ 1) :
    ∃ bufs, C04.runReader g { pending := [], future := C04.encFrames frames } false ticks = .ok bufs ∧
      ∀ ops, Weave ((C04.blocksOf (C04.runSteps fops zero scaleOf g st (bufs.map C04.Step.buf))).map (lblockOp mk)) ops →
        ∃ res, runOps zts (prepare g.nchan npre nsamp saved) ops = some res := by
  obtain ⟨bufs, hrun, _, hrest⟩ := C04.C04_chunking_independent fops zero scaleOf g hg frames hwf ticks st
  obtain ⟨_, _, hcont, _, hshape, _⟩ := hrest
  refine ⟨bufs, hrun, ?_⟩
  intro ops hw
  exact C01.C01_no_crash _ npre nsamp saved hlen zts hzt _ st.next
    (opsOK_weave _ hw st.next (lancero_blocks_opsOK mk g _ st.next hnext hshape hcont))

/-! ### no pulse lost, end to end -/

/-- Lancero blocks with the right shape and contiguous frame numbers are, for every pipeline channel, a
run of blocks in the sense of the per-channel projection (`Pipe.BlocksFor`), provided the signedness
flag handed over with the blocks is the same for all of them; `tp` lists the stamps the blocks carry -/
theorem lancero_blocks_blocksFor (mk : C04.Block → Int × Int × List Bool) (g : C04.Geom) (j : Nat) (sg : Bool)
    (hsg : ∀ b, ((mk b).2.2)[j]?.getD false = sg) (tp : Nat → Int × Int) :
    ∀ (bs : List C04.Block) (n : Nat) (f : Int), C04.shapeOK g bs = true → C04.contiguous f bs = true →
      j < g.nchan →
      (∀ (i : Nat) (b : C04.Block), bs[i]? = some b → tp (n + i) = ((mk b).1, (mk b).2.1)) →
      BlocksFor j sg tp n f (bs.map (lblockOp mk)) (bs.map fun b => b.data.getD j [])
  | [], _, _, _, _, _, _ => rfl
  | b :: bs, n, f, hs, hc, hj, htp => by
    simp only [C04.shapeOK, List.all_cons, Bool.and_eq_true, beq_iff_eq, List.all_eq_true] at hs
    obtain ⟨⟨hlen, hall⟩, hrest⟩ := hs
    simp only [C04.contiguous, Bool.and_eq_true, decide_eq_true_eq] at hc
    obtain ⟨⟨hfirst, _⟩, hc'⟩ := hc
    have hjl : j < b.data.length := by rw [hlen]; exact hj
    have hd : b.data[j]? = some b.data[j] := List.getElem?_eq_getElem hjl
    have hdl : (b.data[j]).length = b.nframes := hall _ (List.getElem_mem hjl)
    refine ⟨(mk b).1, (mk b).2.1, b.data[j], bs.map (fun b => b.data.getD j []), ?_, ?_, ?_, ?_⟩
    · simp only [lblockOp, blockOf, hsg b, hd, Option.getD_some, hfirst]
    · have := htp 0 b (by simp)
      simpa using this
    · simp [List.getD_eq_getElem?_getD, hd]
    · rw [hdl]
      exact lancero_blocks_blocksFor mk g j sg hsg tp bs (n + 1) (f + b.nframes)
        (by simp only [C04.shapeOK, List.all_eq_true, Bool.and_eq_true, beq_iff_eq]; exact hrest) hc' hj
        (by
          intro i b' hb'
          have := htp (i + 1) b' (by simpa using hb')
          rw [show n + 1 + i = n + (i + 1) by omega]
          exact this)

theorem concatChan_eq_flatten (bs : List C04.Block) (j : Nat) :
    C04.concatChan bs j = (bs.map fun b => b.data.getD j []).flatten := by
  simp [C04.concatChan, List.flatMap_def]

/-- **No pulse lost, end to end (Lancero).**  For every geometry, every list of well-formed frames, EVERY
schedule of reads, every mixer state, every pipeline channel `j`, any trigger settings restored at
`PrepareRun` (`saved`) and valid record lengths: the reader does not crash, and on the stream channel `j`
receives — `concatChan blocks j`, which `C04_chunking_independent` identifies with the card's words — the
primary records the source publishes satisfy the clauses of C02 (`C02_source_level`: edge and level
completeness, soundness). -/
theorem lancero_no_pulse_lost {σ ρ : Type} (fops : C04.FloatOps σ ρ) (zero : σ) (scaleOf : Nat → σ)
    (g : C04.Geom) (hg : C04.geomOK g = true) (frames : List C04.Frame)
    (hwf : ∀ fr ∈ frames, C04.frameWF g fr = true) (ticks : List (Nat × Int))
    (st : C04.DState σ) (hf0 : -2305843009213693952 + nsamp ≤ st.next)
    (mk : C04.Block → Int × Int × List Bool) (j : Nat) (hj : j < g.nchan) (sg : Bool)
    (hsg : ∀ b, ((mk b).2.2)[j]?.getD false = sg)
    (npre : Int) (hlen : 3 ≤ npre ∧ npre < nsamp) (saved : List (Nat × Trig.TS))
    (zts : List (List (Int × Int))) :
    ∃ bufs, C04.runReader g { pending := [], future := C04.encFrames frames } false ticks = .ok bufs ∧
      let blocks := C04.blocksOf (C04.runSteps fops zero scaleOf g st (bufs.map C04.Step.buf))
      ∀ res, runOps zts (prepare g.nchan npre nsamp saved) (blocks.map (lblockOp mk)) = some res →
      ∃ (c : Trig.Chan) (parts : List (List Trig.Rec × List Trig.Rec)),
        (prepare g.nchan npre nsamp saved).chans[j]? = some c ∧ OutsFor j res parts ∧
        let prims := ((parts.map (·.1)).flatten).map (·.frame)
        let S := C04.concatChan blocks j
        (c.ts.edge = true → ∀ p : Int, npre ≤ p → p + (nsamp - npre) < (S.length : Int) →
          Trig.edgeAtG (Trig.cfgChan c.ts sg) S p = true → Trig.Cov nsamp st.next prims p) ∧
        (c.ts.level = true → ∀ p : Int, npre ≤ p → p + (nsamp - npre) < (S.length : Int) →
          Trig.levelAtG (Trig.cfgChan c.ts sg) S p = true → Trig.Near nsamp st.next prims p) ∧
        (∀ T ∈ prims, Trig.SoundAt c.ts sg S st.next T) := by
  obtain ⟨bufs, hrun, _, hrest⟩ := C04.C04_chunking_independent fops zero scaleOf g hg frames hwf ticks st
  obtain ⟨_, _, hcont, _, hshape, _⟩ := hrest
  refine ⟨bufs, hrun, ?_⟩
  intro blocks res hres
  have hjn : j < (prepare g.nchan npre nsamp saved).chans.length := by simp [prepare]; exact hj
  obtain ⟨c, hc⟩ : ∃ c, (prepare g.nchan npre nsamp saved).chans[j]? = some c :=
    ⟨_, List.getElem?_eq_getElem hjn⟩
  obtain ⟨hfresh, hem⟩ := C02.prepare_fresh (f0 := st.next) hc hf0
  have hb := lancero_blocks_blocksFor mk g j sg hsg
    (fun m => match blocks[m]? with | some b => ((mk b).1, (mk b).2.1) | none => (0, 0))
    blocks 0 st.next hshape hcont hj (by intro i b hb; simp [hb])
  obtain ⟨parts, hof, he, hl, _, _, hs⟩ := C02.C02_source_level hb hc hres hlen hem hfresh
  rw [← concatChan_eq_flatten] at he hl hs
  exact ⟨c, parts, hc, hof, he, hl, hs⟩

/-- **Every edge in the card's error words is triggered or in dead time, whatever the read schedule.**
The corollary of `lancero_no_pulse_lost` for the error channel `2(c·nrows+r)` of word (row r, column c):
the stream the clauses speak about is literally the `err` component of word (r, c) of frames `0..N-1`
of the card's byte stream (`N` = frames delivered; all but the last < 3 visible frames). -/
theorem lancero_error_edges_never_lost {σ ρ : Type} (fops : C04.FloatOps σ ρ) (zero : σ) (scaleOf : Nat → σ)
    (g : C04.Geom) (hg : C04.geomOK g = true) (frames : List C04.Frame)
    (hwf : ∀ fr ∈ frames, C04.frameWF g fr = true) (ticks : List (Nat × Int))
    (st : C04.DState σ) (hf0 : -2305843009213693952 + nsamp ≤ st.next)
    (mk : C04.Block → Int × Int × List Bool) (r c : Nat) (hr : r < g.nr) (hcc : c < g.nc) (sg : Bool)
    (hsg : ∀ b, ((mk b).2.2)[2 * (c * g.nr + r)]?.getD false = sg)
    (npre : Int) (hlen : 3 ≤ npre ∧ npre < nsamp) (saved : List (Nat × Trig.TS))
    (zts : List (List (Int × Int))) :
    ∃ bufs, C04.runReader g { pending := [], future := C04.encFrames frames } false ticks = .ok bufs ∧
      let blocks := C04.blocksOf (C04.runSteps fops zero scaleOf g st (bufs.map C04.Step.buf))
      let N := C04.totalFrames blocks
      N ≤ frames.length ∧
      min ((ticks.map (·.1)).sum) (C04.encFrames frames).length < (N + 3) * g.fs ∧
      ∀ res, runOps zts (prepare g.nchan npre nsamp saved) (blocks.map (lblockOp mk)) = some res →
      ∃ (ch : Trig.Chan) (parts : List (List Trig.Rec × List Trig.Rec)),
        (prepare g.nchan npre nsamp saved).chans[2 * (c * g.nr + r)]? = some ch ∧
        OutsFor (2 * (c * g.nr + r)) res parts ∧
        let prims := ((parts.map (·.1)).flatten).map (·.frame)
        let S := (frames.take N).map fun fr => (fr.getD (r * g.nc + c) (0, 0)).1
        (ch.ts.edge = true → ∀ p : Int, npre ≤ p → p + (nsamp - npre) < (S.length : Int) →
          Trig.edgeAtG (Trig.cfgChan ch.ts sg) S p = true → Trig.Cov nsamp st.next prims p) ∧
        (ch.ts.level = true → ∀ p : Int, npre ≤ p → p + (nsamp - npre) < (S.length : Int) →
          Trig.levelAtG (Trig.cfgChan ch.ts sg) S p = true → Trig.Near nsamp st.next prims p) ∧
        (∀ T ∈ prims, Trig.SoundAt ch.ts sg S st.next T) := by
  obtain ⟨bufs, hrun, _, hrest⟩ := C04.C04_chunking_independent fops zero scaleOf g hg frames hwf ticks st
  obtain ⟨hN, hav, hcont, _, hshape, herr, _⟩ := hrest
  refine ⟨bufs, hrun, hN, hav, ?_⟩
  intro res hres
  have hlt := C04.lt_mul_of_parts c g.nc r g.nr hcc hr
  have hj : 2 * (c * g.nr + r) < g.nchan := by unfold C04.Geom.nchan; omega
  have hjn : 2 * (c * g.nr + r) < (prepare g.nchan npre nsamp saved).chans.length := by simp [prepare]; exact hj
  obtain ⟨ch, hc⟩ : ∃ ch, (prepare g.nchan npre nsamp saved).chans[2 * (c * g.nr + r)]? = some ch :=
    ⟨_, List.getElem?_eq_getElem hjn⟩
  obtain ⟨hfresh, hem⟩ := C02.prepare_fresh (f0 := st.next) hc hf0
  have hb := lancero_blocks_blocksFor mk g (2 * (c * g.nr + r)) sg hsg
    (fun m => match (C04.blocksOf (C04.runSteps fops zero scaleOf g st (bufs.map C04.Step.buf)))[m]? with
      | some b => ((mk b).1, (mk b).2.1) | none => (0, 0))
    _ 0 st.next hshape hcont hj (by intro i b hb; simp [hb])
  obtain ⟨parts, hof, he, hl, _, _, hs⟩ := C02.C02_source_level hb hc hres hlen hem hfresh
  rw [← concatChan_eq_flatten, herr r c hr hcc] at he hl hs
  exact ⟨ch, parts, hc, hof, he, hl, hs⟩

end DastardV.Compose
