/-
C15 — packets built through the public constructors (`Built`), their invariant (`Good`), and the
TLV-by-TLV evaluation of `parseTLV` on what `Bytes()` writes.
-/
import DastardV.Lemmas.C15Acc
namespace DastardV.C15

/-! ### Constructible packets -/

def ValidData : Data → Prop
  | .i16 xs => ∀ x ∈ xs, InRange 2 x
  | .i32 xs => ∀ x ∈ xs, InRange 4 x
  | .i64 xs => ∀ x ∈ xs, InRange 8 x
  | _ => True

def ValidDims (dims : List Int) : Prop := ∀ d ∈ dims, -32768 ≤ d ∧ d < 32768

def ValidTS (t : TS) : Prop := t.t < 18446744073709551616 ∧ t.num < 65536 ∧ t.den < 65536

/-- packets reachable through `NewPacket`, `SetTimestamp`, `ResetTimestamp`, `ClearData` and successful
`NewData` calls with arguments of the Go types (uint8/uint32 header fields, intN payload values,
int16 dims, uint64 counter; the two unit words are whatever 16-bit values the float code produces). -/
inductive Built : Packet → Prop where
  | new (v src seq : Nat) (off : Int) : v < 256 → src < 4294967296 → seq < 4294967296 →
      Built (newPacket v src seq off)
  | setTs {p : Packet} (t : TS) : Built p → ValidTS t → Built (setTimestamp p t)
  | resetTs {p : Packet} : Built p → Built (resetTimestamp p)
  | clear {p : Packet} : Built p → Built (clearData p)
  | data {p p' : Packet} (d : Data) (dims : List Int) : Built p → d.typed = true → ValidData d →
      ValidDims dims → newData p d dims = .ok p' → Built p'
  | pretend {p q : Packet} (seq : Nat) (nchan : Int) : Built p → seq < 4294967296 →
      makePretend p seq nchan = .ok q → Built q

structure Good (p : Packet) : Prop where
  v : p.version < 256
  src : p.src < 4294967296
  seq : p.seq < 4294967296
  off : p.offset < 4294967296
  ts : ∀ t, p.ts = some t → ValidTS t
  body : (p.data = .none ∧ p.shape = none ∧ p.format = none ∧ p.pl = 0 ∧ p.hl = baseLen p) ∨
    (∃ dims, p.data.typed = true ∧ ValidData p.data ∧ ValidDims dims ∧ p.shape = some dims ∧
      p.format = some (fmtOf p.data) ∧ 48 + 8 * (1 + dims.length / 4) ≤ 255 ∧
      p.hl = baseLen p + 8 + 8 * (1 + dims.length / 4) ∧ p.pl = p.data.wsize * p.data.len ∧ p.pl < 65536)

theorem fmtOf_wordlen (d : Data) (h : d.typed = true) : (fmtOf d).wordlen = d.wsize := by
  cases d <;> simp_all [fmtOf, Data.wsize, Data.typed]

theorem pickAll_mem (xs : List Int) (k : Nat) (idxs : List Nat) (ys : List Int)
    (h : pickAll xs k idxs = .ok ys) : ys.length = idxs.length ∧ ∀ y ∈ ys, y ∈ xs := by
  induction idxs generalizing ys with
  | nil => simp only [pickAll, Res.ok.injEq] at h; subst h; simp
  | cons i r ih =>
    simp only [pickAll] at h
    split at h
    · cases h
    · rename_i v hv
      cases hr : pickAll xs k r with
      | pan c => rw [hr] at h; cases h
      | ok vs =>
        rw [hr] at h
        simp only [Res.bind, Res.ok.injEq] at h
        subst h
        obtain ⟨hl, hm⟩ := ih vs hr
        refine ⟨by simp [hl], ?_⟩
        intro y hy
        simp only [List.mem_cons] at hy
        rcases hy with rfl | hy
        · exact List.mem_of_getElem? hv
        · exact hm y hy

theorem pretendVals_mem (xs : List Int) (n : Int) (ys : List Int) (h : pretendVals xs n = .ok ys) :
    ys.length = xs.length ∧ ∀ y ∈ ys, y ∈ xs := by
  unfold pretendVals at h
  split at h
  · rename_i hx; cases h; subst hx; simp
  · split at h
    · cases h
    · have := pickAll_mem _ _ _ _ h
      simpa using this

theorem built_good (p : Packet) (h : Built p) : Good p := by
  induction h with
  | new v src seq off hv hs hq =>
    refine ⟨hv, hs, hq, ?_, ?_, Or.inl ⟨rfl, rfl, rfl, rfl, rfl⟩⟩
    · simp only [newPacket]; omega
    · intro t ht; simp [newPacket] at ht
  | @setTs p t _ ht ih =>
    obtain ⟨hv, hs, hq, ho, hts, hb⟩ := ih
    unfold setTimestamp
    cases hpt : p.ts with
    | none =>
      simp only [Option.isNone_none, if_true]
      refine ⟨hv, hs, hq, ho, ?_, ?_⟩
      · intro t' ht'; simp only [Option.some.injEq] at ht'; exact ht' ▸ ht
      · rcases hb with ⟨h1, h2, h3, h4, h5⟩ | ⟨dims, h1, h2, h3, h4, h5, h6, h7, h8, h9⟩
        · left
          refine ⟨h1, h2, h3, h4, ?_⟩
          simp only [baseLen, hpt, Option.isSome_none, Option.isSome_some] at h5 ⊢
          simp [h5]
        · right
          refine ⟨dims, h1, h2, h3, h4, h5, h6, ?_, h8, h9⟩
          simp only [baseLen, hpt, Option.isSome_none, Option.isSome_some] at h7 ⊢
          simp only [h7, Bool.false_eq_true, if_false, if_true]
          omega
    | some t0 =>
      simp only [Option.isNone_some, Bool.false_eq_true, if_false]
      refine ⟨hv, hs, hq, ho, ?_, ?_⟩
      · intro t' ht'; simp only [Option.some.injEq] at ht'; exact ht' ▸ ht
      · rcases hb with ⟨h1, h2, h3, h4, h5⟩ | ⟨dims, h1, h2, h3, h4, h5, h6, h7, h8, h9⟩
        · left
          refine ⟨h1, h2, h3, h4, ?_⟩
          simp only [baseLen, hpt, Option.isSome_some] at h5 ⊢
          exact h5
        · right
          refine ⟨dims, h1, h2, h3, h4, h5, h6, ?_, h8, h9⟩
          simp only [baseLen, hpt, Option.isSome_some] at h7 ⊢
          exact h7
  | @resetTs p _ ih =>
    obtain ⟨hv, hs, hq, ho, hts, hb⟩ := ih
    unfold resetTimestamp
    cases hpt : p.ts with
    | none =>
      simp only [Option.isSome_none, Bool.false_eq_true, if_false]
      exact ⟨hv, hs, hq, ho, hts, hb⟩
    | some t0 =>
      simp only [Option.isSome_some, if_true]
      refine ⟨hv, hs, hq, ho, by intro t' ht'; simp at ht', ?_⟩
      rcases hb with ⟨h1, h2, h3, h4, h5⟩ | ⟨dims, h1, h2, h3, h4, h5, h6, h7, h8, h9⟩
      · left
        refine ⟨h1, h2, h3, h4, ?_⟩
        simp only [baseLen, hpt, Option.isSome_some, Option.isSome_none, if_true] at h5 ⊢
        simp [h5]
      · right
        refine ⟨dims, h1, h2, h3, h4, h5, h6, ?_, h8, h9⟩
        simp only [baseLen, hpt, Option.isSome_some, Option.isSome_none, if_true] at h7 ⊢
        simp only [h7, Bool.false_eq_true, if_false]
        omega
  | @clear p _ ih =>
    obtain ⟨hv, hs, hq, ho, hts, hb⟩ := ih
    exact ⟨hv, hs, hq, ho, hts, Or.inl ⟨rfl, rfl, rfl, rfl, rfl⟩⟩
  | @data p p' d dims _ hty hvd hdims hnd ih =>
    obtain ⟨hv, hs, hq, ho, hts, hb⟩ := ih
    unfold newData at hnd
    simp only at hnd
    split at hnd
    · cases hnd
    rename_i hnd1
    split at hnd
    · cases hnd
    rename_i hnd2
    simp only [Except.ok.injEq] at hnd
    subst hnd
    have hq4 : 1 + dims.length / 4 ≤ 25 := by omega
    have hwl := fmtOf_wordlen d hty
    have hhl : (baseLen p + 8 + 8 * ((1 + dims.length / 4) % 256) % 256) % 256
        = baseLen p + 8 + 8 * (1 + dims.length / 4) := by
      have : baseLen p ≤ 40 := by unfold baseLen; split <;> omega
      omega
    rw [hhl, hwl, maxPacketLength] at hnd2
    refine ⟨hv, hs, by simp only; omega, ho, hts, Or.inr ⟨dims, hty, hvd, hdims, rfl, rfl, by omega, ?_, ?_, ?_⟩⟩
    · exact hhl
    · simp only [hwl]; omega
    · simp only; omega
  | @pretend p q sq nchan _ hsq hmk ih =>
    obtain ⟨hv, hs, hq, ho, hts, hb⟩ := ih
    have key : ∀ (mk : List Int → Data) (xs ys : List Int), p.data = mk xs →
        (∀ l, (mk l).typed = true) → (∀ l, (mk l).len = l.length) → (∀ l, (mk l).wsize = (mk xs).wsize) →
        (∀ l, fmtOf (mk l) = fmtOf (mk xs)) → (ValidData (mk xs) → (∀ y ∈ ys, y ∈ xs) → ValidData (mk ys)) →
        ys.length = xs.length ∧ (∀ y ∈ ys, y ∈ xs) → Good { p with seq := sq, data := mk ys } := by
      intro mk xs ys hd hty hlen hws hfm hval hys
      refine ⟨hv, hs, hsq, ho, hts, ?_⟩
      rcases hb with ⟨h1, _⟩ | ⟨dims, h1, h2, h3, h4, h5, h6, h7, h8, h9⟩
      · rw [hd] at h1; have := hty xs; rw [h1] at this; simp [Data.typed] at this
      · right
        rw [hd] at h2 h5 h8
        refine ⟨dims, hty ys, hval h2 hys.2, h3, h4, ?_, h6, h7, ?_, h9⟩
        · simp only [hfm ys]; exact h5
        · simp only [hws ys, hlen ys, hys.1]; rw [h8, hlen xs]
    unfold makePretend at hmk
    cases hd : p.data with
    | none =>
      rw [hd] at hmk; simp only [Res.ok.injEq] at hmk; subst hmk
      refine ⟨hv, hs, hsq, ho, hts, ?_⟩
      rcases hb with ⟨h1, h2, h3, h4, h5⟩ | ⟨dims, h1, _⟩
      · exact Or.inl ⟨rfl, h2, h3, h4, h5⟩
      · rw [hd] at h1; simp [Data.typed] at h1
    | raw bs =>
      exfalso
      rcases hb with ⟨h1, _⟩ | ⟨dims, h1, _⟩
      · rw [hd] at h1; cases h1
      · rw [hd] at h1; simp [Data.typed] at h1
    | i16 xs =>
      rw [hd] at hmk
      cases hpv : pretendVals xs nchan with
      | pan c => simp [hpv, Res.bind] at hmk
      | ok ys =>
        simp only [hpv, Res.bind, Res.ok.injEq] at hmk; subst hmk
        exact key .i16 xs ys hd (fun _ => rfl) (fun _ => rfl) (fun _ => rfl) (fun _ => rfl)
          (fun hvx hm y hy => hvx y (hm y hy)) (pretendVals_mem xs nchan ys hpv)
    | i32 xs =>
      rw [hd] at hmk
      cases hpv : pretendVals xs nchan with
      | pan c => simp [hpv, Res.bind] at hmk
      | ok ys =>
        simp only [hpv, Res.bind, Res.ok.injEq] at hmk; subst hmk
        exact key .i32 xs ys hd (fun _ => rfl) (fun _ => rfl) (fun _ => rfl) (fun _ => rfl)
          (fun hvx hm y hy => hvx y (hm y hy)) (pretendVals_mem xs nchan ys hpv)
    | i64 xs =>
      rw [hd] at hmk
      cases hpv : pretendVals xs nchan with
      | pan c => simp [hpv, Res.bind] at hmk
      | ok ys =>
        simp only [hpv, Res.bind, Res.ok.injEq] at hmk; subst hmk
        exact key .i64 xs ys hd (fun _ => rfl) (fun _ => rfl) (fun _ => rfl) (fun _ => rfl)
          (fun hvx hm y hy => hvx y (hm y hy)) (pretendVals_mem xs nchan ys hpv)

/-! ### The TLV loop, block by block -/

theorem parseTLVf_nil (f : Nat) : parseTLVf f [] = .ok [] := by cases f <;> rfl

/-- enough fuel is enough -/
theorem parseTLVf_fuel (f : Nat) : ∀ (data : List Nat) (g : Nat), data.length ≤ f → data.length ≤ g →
    parseTLVf f data = parseTLVf g data := by
  induction f with
  | zero =>
    intro data g h _
    have : data = [] := List.eq_nil_of_length_eq_zero (by omega)
    subst this
    rw [parseTLVf_nil, parseTLVf_nil]
  | succ f ih =>
    intro data g h hg
    match data, h, hg with
    | [], _, _ => rw [parseTLVf_nil, parseTLVf_nil]
    | [a], _, hg =>
      cases g with
      | zero => simp at hg
      | succ g => rfl
    | t :: l :: more, h, hg =>
      cases g with
      | zero => simp at hg
      | succ g =>
        simp only [List.length_cons] at h hg
        have e := ih (more.drop (8 * l - 2)) g (by simp; omega) (by simp; omega)
        simp only [parseTLVf, e]

/-- prepend a parsed TLV to the result of the rest of the loop -/
def consOk (x : Except Err TLV) (r : Except Err (List TLV)) : Except Err (List TLV) :=
  match x with
  | .error e => .error e
  | .ok x => match r with
    | .error e => .error e
    | .ok l => .ok (x :: l)

theorem parseTLV_block (t l : Nat) (body rest : List Nat) (hl : 0 < l) (hb : body.length + 2 = 8 * l) :
    parseTLV (t :: l :: (body ++ rest)) = consOk (parseOne t (8 * l) body) (parseTLV rest) := by
  unfold parseTLV
  have hlen : (t :: l :: (body ++ rest)).length = (body.length + rest.length + 1) + 1 := by
    simp only [List.length_cons, List.length_append]
  rw [hlen]
  have htake : List.take (8 * l - 2) (body ++ rest) = body := List.take_left' (by omega)
  have hdrop : List.drop (8 * l - 2) (body ++ rest) = rest := List.drop_left' (by omega)
  have hfuel := parseTLVf_fuel (body.length + rest.length + 1) rest rest.length (by omega) (Nat.le_refl _)
  simp only [parseTLVf, List.length_append, htake, hdrop, hfuel]
  rw [if_neg (by omega), if_neg (by omega), if_neg (by omega)]
  unfold consOk
  rfl

theorem parseTLV_nil : parseTLV [] = .ok [] := rfl

/-! ### What `Bytes()` writes, TLV by TLV -/

theorem beBytes_two (n : Nat) : beBytes 2 n = [n / 256 % 256, n % 256] := by
  simp [beBytes, leBytes]

theorem beBytes_four (n : Nat) :
    beBytes 4 n = [n / 256 / 256 / 256 % 256, n / 256 / 256 % 256, n / 256 % 256, n % 256] := by
  simp [beBytes, leBytes]

theorem parse_off (o : Nat) (ho : o < 4294967296) :
    parseOne 0x23 (8 * 1) ([0, 0] ++ beBytes 4 o) = .ok (.off o) := by
  rw [beBytes_four]
  simp only [List.cons_append, List.nil_append, parseOne]
  have : be32 (o / 256 / 256 / 256 % 256) (o / 256 / 256 % 256) (o / 256 % 256) (o % 256) = o := by
    unfold be32; omega
  simp [this, be16]

theorem parse_ts (t : TS) (ht : ValidTS t) :
    parseOne 0x13 (8 * 2) ([64, 0xf5] ++ beBytes 2 t.num ++ beBytes 2 t.den ++ beBytes 8 t.t) = .ok (.ts t) := by
  obtain ⟨h1, h2, h3⟩ := ht
  rw [beBytes_two, beBytes_two]
  simp only [List.cons_append, List.nil_append, parseOne]
  have e1 : be16 (t.num / 256 % 256) (t.num % 256) = t.num := by unfold be16; omega
  have e2 : be16 (t.den / 256 % 256) (t.den % 256) = t.den := by unfold be16; omega
  have e3 : List.take 8 (beBytes 8 t.t) = beBytes 8 t.t := List.take_of_length_le (by simp [beBytes_length])
  have e4 : beNat (beBytes 8 t.t) = t.t := by
    rw [beNat_beBytes]
    have : (256 : Nat) ^ 8 = 18446744073709551616 := by decide
    rw [this]; exact Nat.mod_eq_of_lt h1
  simp [e1, e2, e3, e4]

theorem parse_fmt (d : Data) (hd : d.typed = true) :
    ∃ f, parseOne 0x21 (8 * 1) (padTo6 (fmtOf d).raw) = .ok (.fmt f) ∧ f.kinds = (fmtOf d).kinds ∧
      f.wordlen = (fmtOf d).wordlen ∧ f.endian = 1 := by
  cases d with
  | none => simp [Data.typed] at hd
  | raw _ => simp [Data.typed] at hd
  | i16 xs => exact ⟨_, rfl, rfl, rfl, rfl⟩
  | i32 xs => exact ⟨_, rfl, rfl, rfl, rfl⟩
  | i64 xs => exact ⟨_, rfl, rfl, rfl, rfl⟩

/-! ### The shape TLV -/

theorem shapeBytes_length (sz : List Int) :
    (sz.flatMap fun s => beBytes 2 (twos 16 s)).length = 2 * sz.length := by
  induction sz with
  | nil => rfl
  | cons x r ih => simp only [List.flatMap_cons, List.length_append, beBytes_length, ih, List.length_cons]; omega

theorem pairs16_zeros (k : Nat) : pairs16 (List.replicate (2 * k) 0) = List.replicate k 0 := by
  induction k with
  | zero => rfl
  | succ k ih =>
    have : 2 * (k + 1) = (2 * k + 1) + 1 := by omega
    rw [this, List.replicate_succ, List.replicate_succ, List.replicate_succ]
    simp only [pairs16, ih]
    rfl

theorem pairs16_shape (sz : List Int) (hv : ValidDims sz) (k : Nat) :
    pairs16 ((sz.flatMap fun s => beBytes 2 (twos 16 s)) ++ List.replicate (2 * k) 0)
      = sz ++ List.replicate k 0 := by
  induction sz with
  | nil => simpa using pairs16_zeros k
  | cons x r ih =>
    have hx := hv x (by simp)
    have hr : ValidDims r := fun d hd => hv d (by simp [hd])
    have hlt := twos16_lt x
    have e : be16 (twos 16 x / 256 % 256) (twos 16 x % 256) = twos 16 x := by unfold be16; omega
    rw [List.flatMap_cons, beBytes_two]
    simp only [List.cons_append, List.nil_append, pairs16, e, toSigned_twos16 x hx]
    rw [ih hr]

theorem filter_pos_mem (l : List Int) : ∀ x ∈ l.filter (· > 0), 0 < x := by
  intro x hx
  have := (List.mem_filter.mp hx).2
  simpa using this

theorem shapeLoop_filter (l acc : List Int) (n : Int) (hn : 1 ≤ n)
    (hb : n * prod (l.filter (· > 0)) ≤ 65535) :
    shapeLoop l acc n = some (acc ++ l.filter (· > 0)) := by
  induction l generalizing acc n with
  | nil => simp [shapeLoop]
  | cons d r ih =>
    have hP := prod_pos (r.filter (· > 0)) (filter_pos_mem r)
    by_cases hd : d > 0
    · have hf : (d :: r).filter (· > 0) = d :: r.filter (· > 0) := by simp [hd]
      rw [hf] at hb ⊢
      simp only [prod] at hb
      have h1 : 1 ≤ n * d := by
        have : n * 1 ≤ n * d := Int.mul_le_mul_of_nonneg_left (by omega) (by omega)
        omega
      have e : n * d * prod (r.filter (· > 0)) = n * (d * prod (r.filter (· > 0))) := Int.mul_assoc _ _ _
      have h2 : n * d ≤ 65535 := by
        have h3 : n * d * 1 ≤ n * d * prod (r.filter (· > 0)) := Int.mul_le_mul_of_nonneg_left hP (by omega)
        rw [Int.mul_one] at h3
        omega
      simp only [shapeLoop, hd, if_true]
      rw [if_neg (by omega), ih (acc ++ [d]) (n * d) h1 (by omega)]
      simp
    · have hf : (d :: r).filter (· > 0) = r.filter (· > 0) := by simp [hd]
      rw [hf] at hb ⊢
      simp only [shapeLoop, hd, if_false]
      exact ih acc n hn hb

theorem parseShape_enc (sz : List Int) (hv : ValidDims sz) (hwf : wfShape sz = true) (k : Nat) :
    parseShape ((sz.flatMap fun s => beBytes 2 (twos 16 s)) ++ List.replicate (2 * k) 0)
      = some (sz.filter (· > 0)) := by
  unfold wfShape at hwf
  simp only [Bool.and_eq_true, bne_iff_ne, ne_eq, decide_eq_true_eq] at hwf
  obtain ⟨hne, hp⟩ := hwf
  have hz : (List.replicate k (0 : Int)).filter (· > 0) = [] := by
    rw [List.filter_eq_nil_iff]
    intro x hx
    have := List.eq_of_mem_replicate hx
    simp [this]
  unfold parseShape
  rw [pairs16_shape sz hv k]
  rw [shapeLoop_filter _ [] 1 (by decide) (by rw [List.filter_append, hz, List.append_nil]; simpa using hp)]
  simp only [List.nil_append, List.filter_append, hz, List.append_nil]
  rw [if_neg hne]

theorem parseOne_shape (size : Nat) (body : List Nat) (h6 : 6 ≤ body.length) :
    parseOne 0x22 size body =
      match parseShape body with
      | some s => .ok (.shape s)
      | none => .error .bad := by
  obtain ⟨b2, r2, rfl, h2⟩ := exists_cons body 5 h6
  obtain ⟨b3, r3, rfl, h3⟩ := exists_cons r2 4 h2
  obtain ⟨b4, r4, rfl, h4⟩ := exists_cons r3 3 h3
  obtain ⟨b5, r5, rfl, h5⟩ := exists_cons r4 2 h4
  obtain ⟨b6, r6, rfl, h6'⟩ := exists_cons r5 1 h5
  obtain ⟨b7, r7, rfl, _⟩ := exists_cons r6 0 h6'
  simp only [parseOne]
  rw [if_neg (by decide), if_neg (by decide), if_neg (by decide), if_neg (by decide), if_neg (by decide),
    if_pos True.intro]
  generalize parseShape _ = o
  cases o <;> rfl

theorem encShape_parse (sz : List Int) (hv : ValidDims sz) (hwf : wfShape sz = true)
    (hn : 48 + 8 * (1 + sz.length / 4) ≤ 255) (rest : List Nat) :
    parseTLV (encShape sz ++ rest) = consOk (.ok (.shape (sz.filter (· > 0)))) (parseTLV rest) ∧
      (encShape sz).length = 8 * (1 + sz.length / 4) := by
  have hl : (1 + sz.length / 4) % 256 = 1 + sz.length / 4 := Nat.mod_eq_of_lt (by omega)
  have hblen : ((sz.flatMap fun s => beBytes 2 (twos 16 s)) ++ List.replicate (2 * (3 - sz.length % 4)) 0).length + 2
      = 8 * (1 + sz.length / 4) := by
    simp only [List.length_append, shapeBytes_length, List.length_replicate]
    omega
  have henc : encShape sz = 0x22 :: (1 + sz.length / 4) ::
      ((sz.flatMap fun s => beBytes 2 (twos 16 s)) ++ List.replicate (2 * (3 - sz.length % 4)) 0) := by
    simp [encShape, hl]
  constructor
  · rw [henc, List.cons_append, List.cons_append, parseTLV_block _ _ _ _ (by omega) hblen]
    rw [parseOne_shape _ _ (by omega), parseShape_enc sz hv hwf]
  · rw [henc]; simp only [List.length_cons]; omega

end DastardV.C15
