/-
C15 — packets built through the public constructors (`Built`), their invariant (`Good`), and the
TLV-by-TLV evaluation of `parseTLV` on what `Bytes()` writes.
-/
import DastardV.Lemmas.C15Acc
namespace DastardV.C15

/-! ### Constructible packets -/

def ValidData : Data → Prop
  | .i16 xs => ∀ x ∈ xs, InRange 2 x
  | .i32 xs => ∀ x ∈ xs, InRange 4 x
  | .i64 xs => ∀ x ∈ xs, InRange 8 x
  | _ => True

def ValidDims (dims : List Int) : Prop := ∀ d ∈ dims, -32768 ≤ d ∧ d < 32768

def ValidTS (t : TS) : Prop := t.t < 18446744073709551616 ∧ t.num < 65536 ∧ t.den < 65536

/-- packets reachable through `NewPacket`, `SetTimestamp`, `ResetTimestamp`, `ClearData` and successful
`NewData` calls with arguments of the Go types (uint8/uint32 header fields, intN payload values,
int16 dims, uint64 counter; the two unit words are whatever 16-bit values the float code produces). -/
inductive Built : Packet → Prop where
  | new (v src seq : Nat) (off : Int) : v < 256 → src < 4294967296 → seq < 4294967296 →
      Built (newPacket v src seq off)
  | setTs {p : Packet} (t : TS) : Built p → ValidTS t → Built (setTimestamp p t)
  | resetTs {p : Packet} : Built p → Built (resetTimestamp p)
  | clear {p : Packet} : Built p → Built (clearData p)
  | data {p p' : Packet} (d : Data) (dims : List Int) : Built p → d.typed = true → ValidData d →
      ValidDims dims → newData p d dims = .ok p' → Built p'

structure Good (p : Packet) : Prop where
  v : p.version < 256
  src : p.src < 4294967296
  seq : p.seq < 4294967296
  off : p.offset < 4294967296
  ts : ∀ t, p.ts = some t → ValidTS t
  body : (p.data = .none ∧ p.shape = none ∧ p.format = none ∧ p.pl = 0 ∧ p.hl = baseLen p) ∨
    (∃ dims, p.data.typed = true ∧ ValidData p.data ∧ ValidDims dims ∧ p.shape = some dims ∧
      p.format = some (fmtOf p.data) ∧ 48 + 8 * (1 + dims.length / 4) ≤ 255 ∧
      p.hl = baseLen p + 8 + 8 * (1 + dims.length / 4) ∧ p.pl = p.data.wsize * p.data.len ∧ p.pl < 65536)

theorem fmtOf_wordlen (d : Data) (h : d.typed = true) : (fmtOf d).wordlen = d.wsize := by
  cases d <;> simp_all [fmtOf, Data.wsize, Data.typed]

theorem built_good (p : Packet) (h : Built p) : Good p := by
  induction h with
  | new v src seq off hv hs hq =>
    refine ⟨hv, hs, hq, ?_, ?_, Or.inl ⟨rfl, rfl, rfl, rfl, rfl⟩⟩
    · simp only [newPacket]; omega
    · intro t ht; simp [newPacket] at ht
  | @setTs p t _ ht ih =>
    obtain ⟨hv, hs, hq, ho, hts, hb⟩ := ih
    unfold setTimestamp
    cases hpt : p.ts with
    | none =>
      simp only [Option.isNone_none, if_true]
      refine ⟨hv, hs, hq, ho, ?_, ?_⟩
      · intro t' ht'; simp only [Option.some.injEq] at ht'; exact ht' ▸ ht
      · rcases hb with ⟨h1, h2, h3, h4, h5⟩ | ⟨dims, h1, h2, h3, h4, h5, h6, h7, h8, h9⟩
        · left
          refine ⟨h1, h2, h3, h4, ?_⟩
          simp only [baseLen, hpt, Option.isSome_none, Option.isSome_some] at h5 ⊢
          simp [h5]
        · right
          refine ⟨dims, h1, h2, h3, h4, h5, h6, ?_, h8, h9⟩
          simp only [baseLen, hpt, Option.isSome_none, Option.isSome_some] at h7 ⊢
          simp only [h7, Bool.false_eq_true, if_false, if_true]
          omega
    | some t0 =>
      simp only [Option.isNone_some, Bool.false_eq_true, if_false]
      refine ⟨hv, hs, hq, ho, ?_, ?_⟩
      · intro t' ht'; simp only [Option.some.injEq] at ht'; exact ht' ▸ ht
      · rcases hb with ⟨h1, h2, h3, h4, h5⟩ | ⟨dims, h1, h2, h3, h4, h5, h6, h7, h8, h9⟩
        · left
          refine ⟨h1, h2, h3, h4, ?_⟩
          simp only [baseLen, hpt, Option.isSome_some] at h5 ⊢
          exact h5
        · right
          refine ⟨dims, h1, h2, h3, h4, h5, h6, ?_, h8, h9⟩
          simp only [baseLen, hpt, Option.isSome_some] at h7 ⊢
          exact h7
  | @resetTs p _ ih =>
    obtain ⟨hv, hs, hq, ho, hts, hb⟩ := ih
    unfold resetTimestamp
    cases hpt : p.ts with
    | none =>
      simp only [Option.isSome_none, Bool.false_eq_true, if_false]
      exact ⟨hv, hs, hq, ho, hts, hb⟩
    | some t0 =>
      simp only [Option.isSome_some, if_true]
      refine ⟨hv, hs, hq, ho, by intro t' ht'; simp at ht', ?_⟩
      rcases hb with ⟨h1, h2, h3, h4, h5⟩ | ⟨dims, h1, h2, h3, h4, h5, h6, h7, h8, h9⟩
      · left
        refine ⟨h1, h2, h3, h4, ?_⟩
        simp only [baseLen, hpt, Option.isSome_some, Option.isSome_none, if_true] at h5 ⊢
        simp [h5]
      · right
        refine ⟨dims, h1, h2, h3, h4, h5, h6, ?_, h8, h9⟩
        simp only [baseLen, hpt, Option.isSome_some, Option.isSome_none, if_true] at h7 ⊢
        simp only [h7, Bool.false_eq_true, if_false]
        omega
  | @clear p _ ih =>
    obtain ⟨hv, hs, hq, ho, hts, hb⟩ := ih
    exact ⟨hv, hs, hq, ho, hts, Or.inl ⟨rfl, rfl, rfl, rfl, rfl⟩⟩
  | @data p p' d dims _ hty hvd hdims hnd ih =>
    obtain ⟨hv, hs, hq, ho, hts, hb⟩ := ih
    unfold newData at hnd
    simp only at hnd
    split at hnd
    · cases hnd
    rename_i hnd1
    split at hnd
    · cases hnd
    rename_i hnd2
    simp only [Except.ok.injEq] at hnd
    subst hnd
    have hq4 : 1 + dims.length / 4 ≤ 25 := by omega
    have hwl := fmtOf_wordlen d hty
    have hhl : (baseLen p + 8 + 8 * ((1 + dims.length / 4) % 256) % 256) % 256
        = baseLen p + 8 + 8 * (1 + dims.length / 4) := by
      have : baseLen p ≤ 40 := by unfold baseLen; split <;> omega
      omega
    rw [hhl, hwl, maxPacketLength] at hnd2
    refine ⟨hv, hs, by simp only; omega, ho, hts, Or.inr ⟨dims, hty, hvd, hdims, rfl, rfl, by omega, ?_, ?_, ?_⟩⟩
    · exact hhl
    · simp only [hwl]; omega
    · simp only; omega

end DastardV.C15
