/-
C04 helper lemmas, part 4: whole histories of `getNextBlock` (mix requests and buffer messages).
-/
import DastardV.Lemmas.C04Dist
namespace DastardV.C04

variable {σ ρ : Type}

/-! ### histories of mix requests and buffer messages, at the level of frames -/

inductive FStep where
  | mix (req : List (Int × Nat))
  | buf (frs : List Frame) (t : Int) (drop : Bool)

def FStep.toStep (g : Geom) : FStep → Step
  | .mix req => Step.mix req
  | .buf frs t d => Step.buf { dc := sliced g frs, t := t, drop := d }

def blocksOf (res : List DRes) : List Block :=
  res.filterMap fun r => match r with
    | .blk b => some b
    | .mix _ => none

/-- a mix request is accepted iff every index is an odd channel index in range -/
def reqOK (g : Geom) (req : List (Int × Nat)) : Bool :=
  req.all (fun (i, _) => 0 ≤ i ∧ i < g.nchan ∧ i % 2 = 1)

def applyReq (scaleOf : Nat → σ) (sc : List σ) (req : List (Int × Nat)) : List σ :=
  req.foldl (fun sc (i, fr) => sc.set i.toNat (scaleOf fr)) sc

/-- all frames delivered by a history, in order -/
def specFrames : List FStep → List Frame
  | [] => []
  | .mix _ :: rest => specFrames rest
  | .buf frs _ _ :: rest => frs ++ specFrames rest

/-- first frame number of every block: the counter, advanced by each loss estimate -/
def specFirsts (next prevT : Int) : List FStep → List Int
  | [] => []
  | .mix _ :: rest => specFirsts next prevT rest
  | .buf frs t d :: rest =>
    (next + dropEst prevT t d) :: specFirsts (next + dropEst prevT t d + frs.length) t rest

def specDropped (prevT : Int) : List FStep → List Int
  | [] => []
  | .mix _ :: rest => specDropped prevT rest
  | .buf _ t d :: rest => dropEst prevT t d :: specDropped t rest

def specLens : List FStep → List Nat
  | [] => []
  | .mix _ :: rest => specLens rest
  | .buf frs _ _ :: rest => frs.length :: specLens rest

/-- (rowcount, flag) of every (frame, row) of the history, with the numbering of `specFirsts` -/
def specItems (g : Geom) (next prevT : Int) : List FStep → List (Int × Bool)
  | [] => []
  | .mix _ :: rest => specItems g next prevT rest
  | .buf frs t d :: rest =>
    flagItems g frs (next + dropEst prevT t d) ++ specItems g (next + dropEst prevT t d + frs.length) t rest

/-- the scale in force for channel `ch` at every sample of the history -/
def specScales (scaleOf : Nat → σ) (g : Geom) (zero : σ) (ch : Nat) : List σ → List FStep → List σ
  | _, [] => []
  | sc, .mix req :: rest =>
    specScales scaleOf g zero ch (if reqOK g req then applyReq scaleOf sc req else sc) rest
  | sc, .buf frs _ _ :: rest => List.replicate frs.length (sc.getD ch zero) ++ specScales scaleOf g zero ch sc rest

theorem chanTrue_append (g : Geom) (a b : List Frame) (ch : Nat) :
    chanTrue g (a ++ b) ch = chanTrue g a ch ++ chanTrue g b ch := by simp [chanTrue]

theorem configureMix_eq (g : Geom) (scaleOf : Nat → σ) (st : DState σ) (req : List (Int × Nat)) :
    configureMix g scaleOf st req =
      if reqOK g req then some { st with scale := applyReq scaleOf st.scale req } else none := rfl

theorem concatChan_cons (b : Block) (bs : List Block) (ch : Nat) :
    concatChan (b :: bs) ch = b.data.getD ch [] ++ concatChan bs ch := by simp [concatChan]

/-- Everything a history of `getNextBlock` delivers, in closed form. -/
theorem runSteps_spec (ops : FloatOps σ ρ) (zero : σ) (scaleOf : Nat → σ) (g : Geom) (hg : geomOK g = true) :
    ∀ (steps : List FStep) (st : DState σ),
    let blocks := blocksOf (runSteps ops zero scaleOf g st (steps.map (FStep.toStep g)))
    blocks.map (·.first) = specFirsts st.next st.prevT steps ∧
    blocks.map (·.dropped) = specDropped st.prevT steps ∧
    blocks.map (·.nframes) = specLens steps ∧
    blocks.flatMap (·.ext) = edgeSpec st.extLast (specItems g st.next st.prevT steps) ∧
    (∀ b ∈ blocks, b.data.length = g.nchan) ∧
    (∀ ch, ch < g.nchan → concatChan blocks ch =
      if ch % 2 = 1 then
        mixSpec ops (specScales scaleOf g zero ch st.scale steps) (chanTrue g (specFrames steps) (ch - 1))
          (chanTrue g (specFrames steps) ch) (st.lastFb.getD ch 0)
      else chanTrue g (specFrames steps) ch) := by
  intro steps
  induction steps with
  | nil =>
    intro st
    simp [runSteps, blocksOf, specFirsts, specDropped, specLens, specItems, specFrames, specScales, concatChan, chanTrue]
  | cons s rest ih =>
    intro st
    cases s with
    | mix req =>
      simp only [List.map_cons, FStep.toStep, runSteps, configureMix_eq]
      by_cases hok : reqOK g req = true
      · simp only [hok, ↓reduceIte]
        have := ih { st with scale := applyReq scaleOf st.scale req }
        simpa [blocksOf, specFirsts, specDropped, specLens, specItems, specFrames, specScales, hok] using this
      · simp only [hok]
        have := ih st
        simpa [blocksOf, specFirsts, specDropped, specLens, specItems, specFrames, specScales, hok] using this
    | buf frs t d =>
      obtain ⟨st', blk, hd, hfirst, hdrop, hnf, hext, hdl, hdata, hnext, hel, hpt, hsc, hlfl, hlf⟩ :=
        distribute_sliced ops zero g hg st frs t d
      have ⟨ih1, ih2, ih3, ih4, ih5, ih6⟩ := ih st'
      simp only [List.map_cons, FStep.toStep, runSteps, hd]
      have hb : blocksOf (DRes.blk blk :: runSteps ops zero scaleOf g st' (rest.map (FStep.toStep g))) =
          blk :: blocksOf (runSteps ops zero scaleOf g st' (rest.map (FStep.toStep g))) := by
        simp [blocksOf]
      simp only [hb, List.map_cons, List.flatMap_cons, specFirsts, specDropped, specLens, specItems]
      rw [ih1, ih2, ih3, ih4, hnext, hpt, hel, hfirst, hdrop, hnf, hext, hfirst]
      refine ⟨rfl, rfl, rfl, ?_, ?_, ?_⟩
      · rw [edgeSpec_append]
      · intro b hb'
        simp only [List.mem_cons] at hb'
        rcases hb' with rfl | hb'
        · exact hdl
        · exact ih5 b hb'
      · intro ch hch
        rw [concatChan_cons, hdata ch hch, ih6 ch hch, hsc, hlf ch hch]
        simp only [specFrames, specScales, chanTrue_append]
        by_cases hodd : ch % 2 = 1
        · simp only [hodd, ↓reduceIte]
          rw [mixSpec_append ops _ _ _ _ _ _ _ (by simp [chanTrue_length]) (by simp [chanTrue_length])]
        · simp [hodd]

/-! ### frame numbering -/

def monoFrom : Int → List (Int × Nat) → Prop
  | _, [] => True
  | lo, (f, n) :: rest => lo ≤ f ∧ monoFrom (f + n) rest

def monotoneP : List (Int × Nat) → Prop
  | a :: b :: rest => a.1 + a.2 ≤ b.1 ∧ monotoneP (b :: rest)
  | _ => True

theorem monotoneP_of_monoFrom : ∀ (ps : List (Int × Nat)) (lo : Int), monoFrom lo ps → monotoneP ps
  | [], _, _ => trivial
  | [_], _, _ => trivial
  | (f, n) :: (f2, n2) :: rest, lo, h => by
    obtain ⟨_, h2⟩ := h
    exact ⟨h2.1, monotoneP_of_monoFrom ((f2, n2) :: rest) (f + n) h2⟩

theorem monotone_iff : ∀ (bs : List Block), monotone bs = true ↔ monotoneP (bs.map fun b => (b.first, b.nframes))
  | [] => by simp [monotone, monotoneP]
  | [_] => by simp [monotone, monotoneP]
  | a :: b :: rest => by
    simp only [monotone, List.map_cons, monotoneP, Bool.and_eq_true, decide_eq_true_eq]
    rw [monotone_iff (b :: rest)]
    simp

theorem spec_monoFrom : ∀ (steps : List FStep) (next prevT : Int),
    (∀ x ∈ specDropped prevT steps, 0 ≤ x) →
    monoFrom next (List.zip (specFirsts next prevT steps) (specLens steps)) := by
  intro steps
  induction steps with
  | nil => intro _ _ _; simp [specFirsts, specLens, monoFrom]
  | cons s rest ih =>
    intro next prevT h
    cases s with
    | mix req => simpa [specFirsts, specLens] using ih next prevT (by simpa [specDropped] using h)
    | buf frs t d =>
      simp only [specDropped, List.mem_cons, forall_eq_or_imp] at h
      simp only [specFirsts, specLens, List.zip_cons_cons, monoFrom]
      exact ⟨by omega, ih _ _ h.2⟩

/-- without a data-drop flag the blocks are numbered contiguously from the counter -/
theorem spec_contiguous : ∀ (steps : List FStep) (next prevT : Int),
    (∀ x ∈ specDropped prevT steps, x = 0) →
    ∀ (bs : List Block), bs.map (·.first) = specFirsts next prevT steps →
      bs.map (·.dropped) = specDropped prevT steps → bs.map (·.nframes) = specLens steps →
      contiguous next bs = true := by
  intro steps
  induction steps with
  | nil =>
    intro next prevT _ bs h1 _ _
    simp [specFirsts] at h1; subst h1; simp [contiguous]
  | cons s rest ih =>
    intro next prevT h bs h1 h2 h3
    cases s with
    | mix req =>
      exact ih next prevT (by simpa [specDropped] using h) bs (by simpa [specFirsts] using h1)
        (by simpa [specDropped] using h2) (by simpa [specLens] using h3)
    | buf frs t d =>
      simp only [specDropped, List.mem_cons, forall_eq_or_imp] at h
      match bs, h1, h2, h3 with
      | b :: bs', h1, h2, h3 =>
        simp only [specFirsts, specDropped, specLens, List.map_cons, List.cons.injEq] at h1 h2 h3
        simp only [contiguous, Bool.and_eq_true, decide_eq_true_eq]
        refine ⟨⟨by rw [h1.1, h.1]; omega, by rw [h2.1, h.1]⟩, ?_⟩
        have := ih (next + dropEst prevT t d + frs.length) t h.2 bs' h1.2 h2.2 h3.2
        rw [h.1] at this
        rw [h3.1]
        simpa using this

theorem flagItems_eq (g : Geom) (frs : List Frame) (frame0 : Int) :
    flagItems g frs frame0 = (List.range frs.length).flatMap fun (f : Nat) =>
      (List.range g.nr).map fun (r : Nat) =>
        (((f : Int) + frame0) * (g.nr : Int) + (r : Int), rowFlag g (frs.getD f []) r) := by
  unfold flagItems
  rw [zip_range_eq frs [], List.flatMap_map]

theorem flagItems_append (g : Geom) (a b : List Frame) (frame0 : Int) :
    flagItems g (a ++ b) frame0 = flagItems g a frame0 ++ flagItems g b (frame0 + a.length) := by
  rw [flagItems_eq, flagItems_eq, flagItems_eq, List.length_append, List.range_add, List.flatMap_append,
    List.flatMap_map]
  congr 1
  · apply flatMap_congr'
    intro f hf
    simp only [List.mem_range] at hf
    simp [List.getD_eq_getElem?_getD, List.getElem?_append_left hf]
  · apply flatMap_congr'
    intro f hf
    apply List.map_congr_left
    intro r _
    simp only [List.getD_eq_getElem?_getD, List.getElem?_append_right (Nat.le_add_right _ _),
      Nat.add_sub_cancel_left]
    congr 1
    push_cast
    have : (a.length : Int) + f + frame0 = f + (frame0 + a.length) := by omega
    rw [this]

theorem flagItems_nil (g : Geom) (frame0 : Int) : flagItems g [] frame0 = [] := by simp [flagItems]

theorem specItems_lossfree (g : Geom) : ∀ (steps : List FStep) (next prevT : Int),
    (∀ x ∈ specDropped prevT steps, x = 0) →
    specItems g next prevT steps = flagItems g (specFrames steps) next := by
  intro steps
  induction steps with
  | nil => intro _ _ _; simp [specItems, specFrames, flagItems_nil]
  | cons s rest ih =>
    intro next prevT h
    cases s with
    | mix req => simpa [specItems, specFrames] using ih next prevT (by simpa [specDropped] using h)
    | buf frs t d =>
      simp only [specDropped, List.mem_cons, forall_eq_or_imp] at h
      simp only [specItems, specFrames, flagItems_append, h.1, Int.add_zero]
      rw [ih _ _ h.2]

/-- the frame-level history of a loss-free reader run: one buffer per group of frames -/
def cleanSteps (parts : List (List Frame)) (ts : List Int) : List FStep :=
  List.zipWith (fun p t => FStep.buf p t false) parts ts

theorem cleanSteps_toStep (g : Geom) : ∀ (parts : List (List Frame)) (ts : List Int),
    (cleanBufs g parts ts).map Step.buf = (cleanSteps parts ts).map (FStep.toStep g)
  | [], _ => by simp [cleanBufs, cleanSteps]
  | _ :: _, [] => by simp [cleanBufs, cleanSteps]
  | p :: ps, t :: ts => by
    have := cleanSteps_toStep g ps ts
    simp only [cleanBufs, cleanSteps] at this
    simp [cleanBufs, cleanSteps, FStep.toStep, this]

theorem cleanSteps_spec (scaleOf : Nat → σ) (g : Geom) (zero : σ) (ch : Nat) (sc : List σ) :
    ∀ (parts : List (List Frame)) (ts : List Int) (prevT : Int), parts.length = ts.length →
    specFrames (cleanSteps parts ts) = parts.flatten ∧
    (∀ x ∈ specDropped prevT (cleanSteps parts ts), x = 0) ∧
    (specLens (cleanSteps parts ts)).sum = parts.flatten.length ∧
    specScales scaleOf g zero ch sc (cleanSteps parts ts) = List.replicate parts.flatten.length (sc.getD ch zero)
  | [], [], _, _ => by simp [cleanSteps, specFrames, specDropped, specLens, specScales]
  | [], _ :: _, _, h => by simp at h
  | _ :: _, [], _, h => by simp at h
  | p :: ps, t :: ts, prevT, h => by
    have ⟨h1, h2, h3, h4⟩ := cleanSteps_spec scaleOf g zero ch sc ps ts t (by simpa using h)
    simp only [cleanSteps] at h1 h2 h3 h4
    simp only [cleanSteps, List.zipWith_cons_cons, specFrames, specDropped, specLens, specScales, h1, h3, h4,
      List.flatten_cons, List.length_append, List.sum_cons, List.mem_cons, forall_eq_or_imp]
    refine ⟨trivial, ⟨by simp [dropEst], h2⟩, trivial, ?_⟩
    simp [List.replicate_append_replicate]

/-! ### index forms of the closed-form specifications -/

/-- index form of `mixSpec`: sample `j` of the output is the feedback sample `j-1` with its two flag
bits cleared (the carried `lastFb` for `j = 0`), plus — when the scale in force is not zero — the
scaled error of sample `j`, saturated. -/
theorem mixSpec_getElem? (ops : FloatOps σ ρ) : ∀ (ss : List σ) (errs fbs : List Nat) (last : Nat) (j : Nat) (s : σ),
    errs.length = ss.length → fbs.length = ss.length → ss[j]? = some s →
    (mixSpec ops ss errs fbs last)[j]? =
      some (if ops.isZero s then (if j = 0 then last else mask (fbs.getD (j - 1) 0))
            else mixOne ops s (errs.getD j 0) (if j = 0 then last else mask (fbs.getD (j - 1) 0))) := by
  intro ss
  induction ss with
  | nil => intro _ _ _ j s _ _ h; simp at h
  | cons s0 ss ih =>
    intro errs fbs last j s he hf hs
    match errs, fbs, he, hf with
    | e :: es, f :: fs, he, hf =>
      rw [mixSpec_cons]
      cases j with
      | zero =>
        simp at hs; subst hs; simp
      | succ j =>
        simp only [List.getElem?_cons_succ] at hs ⊢
        rw [ih es fs (mask f) j s (by simpa using he) (by simpa using hf) hs]
        cases j with
        | zero => simp
        | succ j => simp

/-- edge index form -/
def risingAt (init : Bool) (items : List (Int × Bool)) (i : Nat) : Bool :=
  (items.getD i (0, false)).2 && !(if i = 0 then init else (items.getD (i - 1) (0, false)).2)

theorem edgeSpec_index (items : List (Int × Bool)) : ∀ (init : Bool),
    edgeSpec init items =
      ((List.range items.length).filter (risingAt init items)).map fun i => (items.getD i (0, false)).1 := by
  induction items with
  | nil => intro init; simp
  | cons it rest ih =>
    intro init
    obtain ⟨c, s⟩ := it
    rw [edgeSpec_cons, ih s, List.length_cons, List.range_succ_eq_map, List.filter_cons, List.filter_map]
    have h0 : risingAt init ((c, s) :: rest) 0 = (s && !init) := by simp [risingAt]
    have hs : (risingAt init ((c, s) :: rest) ∘ Nat.succ) = risingAt s rest := by
      funext i
      cases i with
      | zero => simp [risingAt]
      | succ i => simp [risingAt]
    rw [h0, hs]
    by_cases h : (s && !init) = true
    · simp [h, List.map_map, Function.comp]
    · simp [h, List.map_map, Function.comp]

/-! ### shape of the blocks -/

theorem mixSpec_length (ops : FloatOps σ ρ) (ss : List σ) (errs fbs : List Nat) (last : Nat) (n : Nat)
    (h1 : ss.length = n) (h2 : errs.length = n) (h3 : fbs.length = n) :
    (mixSpec ops ss errs fbs last).length = n := by
  simp [mixSpec, h1, h2, h3]

/-- every channel slice of a block made from a sliced buffer has the block's length -/
theorem distribute_sliced_shape (ops : FloatOps σ ρ) (zero : σ) (g : Geom) (hg : geomOK g = true) (st : DState σ)
    (frs : List Frame) (t : Int) (drop : Bool) (st' : DState σ) (blk : Block)
    (hd : distribute ops zero g st { dc := sliced g frs, t := t, drop := drop } = some (st', blk)) :
    blk.data.length = g.nchan ∧ ∀ d ∈ blk.data, d.length = blk.nframes := by
  obtain ⟨st2, blk2, hd2, _, _, hnf, _, hdl, hdata, _⟩ := distribute_sliced ops zero g hg st frs t drop
  rw [hd] at hd2
  simp only [Option.some.injEq, Prod.mk.injEq] at hd2
  obtain ⟨_, rfl⟩ := hd2
  refine ⟨hdl, ?_⟩
  intro d hd'
  obtain ⟨i, hi, rfl⟩ := List.mem_iff_getElem.mp hd'
  have := hdata i (hdl ▸ hi)
  rw [List.getD_eq_getElem?_getD, List.getElem?_eq_getElem hi] at this
  simp only [Option.getD_some] at this
  rw [this, hnf]
  by_cases hodd : i % 2 = 1
  · simp only [hodd, ↓reduceIte]
    exact mixSpec_length ops _ _ _ _ _ (by simp) (chanTrue_length _ _ _) (chanTrue_length _ _ _)
  · simp only [hodd, ↓reduceIte]
    exact chanTrue_length _ _ _

theorem runSteps_shape (ops : FloatOps σ ρ) (zero : σ) (scaleOf : Nat → σ) (g : Geom) (hg : geomOK g = true) :
    ∀ (steps : List FStep) (st : DState σ),
    shapeOK g (blocksOf (runSteps ops zero scaleOf g st (steps.map (FStep.toStep g)))) = true := by
  intro steps
  induction steps with
  | nil => intro st; simp [runSteps, blocksOf, shapeOK]
  | cons s rest ih =>
    intro st
    cases s with
    | mix req =>
      simp only [List.map_cons, FStep.toStep, runSteps, configureMix_eq]
      by_cases hok : reqOK g req = true
      · simp only [hok, ↓reduceIte]
        simpa [blocksOf] using ih { st with scale := applyReq scaleOf st.scale req }
      · simp only [hok]
        simpa [blocksOf] using ih st
    | buf frs t d =>
      obtain ⟨st', blk, hd, _⟩ := distribute_sliced ops zero g hg st frs t d
      have ⟨h1, h2⟩ := distribute_sliced_shape ops zero g hg st frs t d st' blk hd
      simp only [List.map_cons, FStep.toStep, runSteps, hd]
      have hb : blocksOf (DRes.blk blk :: runSteps ops zero scaleOf g st' (rest.map (FStep.toStep g))) =
          blk :: blocksOf (runSteps ops zero scaleOf g st' (rest.map (FStep.toStep g))) := by
        simp [blocksOf]
      rw [hb]
      have := ih st'
      simp only [shapeOK, List.all_cons, Bool.and_eq_true, beq_iff_eq, List.all_eq_true] at this ⊢
      exact ⟨⟨h1, h2⟩, this⟩

end DastardV.C04
