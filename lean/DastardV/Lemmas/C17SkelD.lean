/-
C17 — `skeleton_ok` (Lemmas/C17Skel.lean), part D: thread-local typing of the small programs of the skeleton
(status thread, producer / reader, block assembly and its workers, per-channel workers, archive writers).
Core Lean only.
-/
import DastardV.Lemmas.C17SkelC
namespace DastardV.C17
open Sched

/-! ### the payloads of the named objects -/

section named
variable (p : Par)

theorem rep_mtx_cfg : Rep ((mkSpec p).mtxPay oCfg) (OneS 13 0 0) := by
  unfold oCfg; rw [mtxPay_cfg]; exact Rep.one (by decide) (by decide)

theorem rep_mtx_wsm : Rep ((mkSpec p).mtxPay oWsm) (OneS 11 0 1) := by
  unfold oWsm; rw [mtxPay_wsm]; exact Rep.one (by decide) (by decide)

/-- the frame state of an Abaco source -/
@[c17set] def FlS (src : Nat) : TS := fun c i s => src = 1 ∧ (c = 1 ∨ c = 2) ∧ i = 0 ∧ s = 0

theorem rep_mtx_fl : Rep ((mkSpec p).mtxPay oFl) (FlS p.src) := by
  unfold oFl; rw [mtxPay_fl]
  intro k
  by_cases h : p.src = 1
  · simp only [h, BEq.rfl, if_true, List.mem_cons, List.mem_nil_iff, or_false, nfnTok, FlS, true_and,
      eq_tk_iff (c := 1) (s := 0) (by decide) (by decide), eq_tk_iff (c := 2) (s := 0) (by decide) (by decide)]
    omega
  · have : (p.src == 1) = false := by simpa using h
    simp [this, FlS, h]

theorem rep_chan_cm (m : Nat) : Rep ((mkSpec p).chanPay (oCm m)) (OneS 10 m 0) := by
  unfold oCm; rw [chanPay_cm]; exact Rep.one (by decide) (by decide)

theorem rep_chan_cmpl (j : Nat) : Rep ((mkSpec p).chanPay (oCmpl j)) (OneS 6 j 0) := by
  unfold oCmpl; rw [chanPay_cmpl]; exact Rep.one (by decide) (by decide)

/-- the client's shares of the trigger states and the group-trigger connections -/
@[c17set] def ClientS (n : Nat) : TS := fun c i s => (c = 8 ∧ i < n ∧ s = 1) ∨ (c = 9 ∧ i = 0 ∧ s = 1)

theorem rep_chan_qreq1 : Rep ((mkSpec p).chanPay (oQreq 1)) (ClientS p.n) := by
  unfold oQreq; rw [chanPay_qreq1]
  exact (Rep.append (Rep.mapTk (c0 := 8) (s0 := 1) (by decide) (by decide) p.n)
    (Rep.one (c := 9) (i := 0) (s := 1) (by decide) (by decide))).congr (fun c i s => by
      simp only [ClientS, OneS])

theorem chanPay_oQreq (j : Nat) (hj : j ≠ 1) : (mkSpec p).chanPay (oQreq j) = [] := chanPay_qreq p j hj
theorem chanPay_oQres : (mkSpec p).chanPay oQres = [] := chanPay_qres p
theorem chanPay_oBufc : (mkSpec p).chanPay oBufc = [] := chanPay_bufc p

theorem rep_nfn_if : Rep (if p.src == 2 then [nfnTok] else []) (fun c i s => p.src = 2 ∧ c = 1 ∧ i = 0 ∧ s = 0) :=
  ((Rep.one (c := 1) (i := 0) (s := 0) (by decide) (by decide)).ite (p.src == 2)).congr (fun c i s => by
    simp only [OneS, beq_iff_eq])

theorem rep_blkN (_h : p.merged = true) :
    Rep (blockToks p 0 ++ (if p.src == 2 then [nfnTok] else [])) (BlkNS p.n p.src) :=
  (Rep.append (rep_blockToks p 0) (rep_nfn_if p)).congr (fun c i s => by simp only [BlkNS])

end named

section sched
variable (s : Sched)

theorem par_n : s.par.n = s.n := rfl
theorem par_src : s.par.src = s.src := rfl
theorem par_nblk : s.par.nblk = s.k := rfl
theorem par_merged : s.par.merged = s.merged := rfl

theorem merged_of_ne {s : Sched} (h : s.src ≠ 0) : s.merged = true := by simp [Sched.merged, h]
theorem merged_zero {s : Sched} (h : s.src = 0) : s.merged = false := by simp [Sched.merged, h]

theorem phase_le (b : Nat) : s.phase b ≤ 1 := by unfold phase; split <;> omega

theorem rep_chan_nb_merged (h : s.merged = true) (b : Nat) :
    Rep ((mkSpec s.par).chanPay (s.oNb b)) (BlkNS s.n s.src) := by
  simp only [oNb, h, if_true]
  have h' : s.par.merged = true := h
  rw [chanPay_nb_merged s.par h']; exact rep_blkN s.par h'

theorem rep_chan_nb_sim (h : s.merged = false) (b : Nat) :
    Rep ((mkSpec s.par).chanPay (s.oNb b)) (BlkS s.n (b + 1)) := by
  simp only [oNb, h, Bool.false_eq_true, if_false]
  have h' : s.par.merged = false := h
  rw [chanPay_nb_sim s.par h']; exact rep_blockToks s.par (b + 1)

/-! ### thread ids of the workers -/

theorem chan_tid (hn : 0 < s.n) (c b i : Nat) (hc : c < 16) (hi : i < s.n) :
    chanOf s.par (enc c (b * s.n + i)) = i := by
  rw [chanOf_eq s.par hn, idxOf_enc hc]; exact mul_add_mod hi

theorem rep_spawn_W (hn : 0 < s.n) (t : Tid) (ph : Nat) (hph : ph ≤ 1) (hc : clsOf t = 6 + ph ∨ clsOf t = 8 + ph) :
    Rep (spawnPayOf s.par t) (ProcS (idxOf t % s.n) ph) := by
  have e : spawnPayOf s.par t = procToks (chanOf s.par t) (ph == 1) := by
    have : ph = 0 ∨ ph = 1 := by omega
    rcases this with rfl | rfl <;> rcases hc with hc | hc
    · exact spawnPayOf_6 _ _ hc
    · exact spawnPayOf_8 _ _ hc
    · exact spawnPayOf_7 _ _ hc
    · exact spawnPayOf_9 _ _ hc
  rw [e, chanOf_eq s.par hn]; exact rep_procToks _ ph hph

/-! ### small programs -/

variable {kids : Obj → List Tid} {t : Tid}

/-- a critical section of the configuration store -/
theorem HT.cfg {p : Par} {P : TS} (e : Ev) (he : e = .wr vVip ∨ e = .rd vVip) :
    HT (mkSpec p) kids t P [.lock oCfg, e, .unlock oCfg] (fun c i s => P c i s ∧ ¬ OneS 13 0 0 c i s) := by
  refine HT.cons (HT.lock (rep_mtx_cfg p)) (HT.cons (Q := fun c i s => P c i s ∨ OneS 13 0 0 c i s) ?_ ?_)
  · rcases he with rfl | rfl
    · exact HT.wrv1 (c := 13) 0 (by decide) rfl (by tokarith)
    · exact HT.rdv (c := 13) 0 0 (by decide) (by decide) (Or.inl rfl) (by tokarith)
  · exact (HT.unlock (rep_mtx_cfg p) (fun _ _ _ _ _ h => Or.inr h)).post
      (fun _ _ _ _ _ h => ⟨Or.inl h.1, h.2⟩)

/-- the status thread's critical section: it also updates its private table of last messages -/
theorem segS_cfg {p : Par} :
    HT (mkSpec p) kids t (OneS 15 0 0) [.lock oCfg, .wr vVip, .wr vLastm, .unlock oCfg] (OneS 15 0 0) := by
  refine HT.cons (HT.lock (rep_mtx_cfg p)) (HT.cons (HT.wrv1 (c := 13) 0 (by decide) rfl (by tokarith))
    (HT.cons (HT.wrv1 (c := 15) 0 (by decide) rfl (by tokarith)) ?_))
  exact (HT.unlock (rep_mtx_cfg p) (by toksub)).post (by toksub)

/-- the status thread owns its table of last messages (`tk 15 0 0`) from the beginning -/
theorem typedS : HT (mkSpec s.par) s.kids tS (OneS 15 0 0) s.progS (OneS 15 0 0) := by
  unfold progS
  refine HT.seq (Q := OneS 15 0 0) (HT.seq (Q := OneS 15 0 0) segS_cfg ?_) segS_cfg
  apply HT.range_const; intro m _
  refine HT.cons (HT.recv (rep_chan_cm _ m))
    (HT.cons (HT.rdv (c := 10) m 0 (by decide) (by decide) (Or.inl rfl) (by tokarith)) ?_)
  exact (HT.wrv1 (c := 15) 0 (by decide) rfl (by tokarith)).post (by toksub)

theorem typedAR (j : Nat) : HT (mkSpec s.par) s.kids t EmptyS (progAR j) EmptyS := by
  unfold progAR
  refine HT.cons HT.start0 (HT.cons (HT.recv (rep_chan_cmpl _ j)) ?_)
  exact (HT.rdv (c := 6) j 0 (by decide) (by decide) (Or.inl rfl) (by tokarith)).post (by toksub)

theorem typedAW (hn : 0 < s.n) (hsrc : s.src = 1) (hc : clsOf t = 5) (b : Nat) :
    HT (mkSpec s.par) s.kids t EmptyS (s.progAW b (idxOf t % s.n)) EmptyS := by
  have hm : s.merged = true := merged_of_ne (by omega)
  have hr : Rep (spawnPayOf s.par t) (OneS 4 (idxOf t % s.n) 0) := by
    rw [spawnPayOf_5 _ _ hc, chanOf_eq s.par hn]; exact Rep.one (by decide) (by decide)
  have hv : s.vSeg b (idxOf t % s.n) = mkVar 4 (idxOf t % s.n) := by
    simp only [vSeg, hm, if_true, Nat.zero_mul, Nat.zero_add]
  have hd : Rep ((mkSpec s.par).donePay (oWga b) t) (OneS 4 (idxOf t % s.n) 0) := by
    show Rep ((mkSpec s.par).donePay (enc 10 b) t) _
    rw [donePay_wga _ _ _ hc]; exact hr
  unfold progAW; rw [hv]
  refine HT.cons (HT.start hr) (HT.cons (HT.wrv1 (c := 4) _ (by decide) rfl (by tokarith)) ?_)
  exact (HT.wgDone hd (by toksub)).post (by toksub)

theorem typedW (hn : 0 < s.n) (b wave ph : Nat) (hph : s.phase b = ph)
    (hc : clsOf t = 6 + ph ∨ clsOf t = 8 + ph) :
    HT (mkSpec s.par) s.kids t EmptyS (s.progW b (idxOf t % s.n) wave) EmptyS := by
  have hle : ph ≤ 1 := hph ▸ phase_le s b
  have hr := rep_spawn_W s hn t ph hle hc
  have hd : Rep ((mkSpec s.par).donePay (oWgp (2 * b + wave)) t) (ProcS (idxOf t % s.n) ph) := by
    show Rep ((mkSpec s.par).donePay (enc 11 (2 * b + wave)) t) _
    rw [donePay_wgp _ _ _ (by omega)]; exact hr
  unfold progW
  refine HT.seq (Q := ProcS (idxOf t % s.n) ph) (HT.seq (Q := ProcS (idxOf t % s.n) ph) ?_ ?_) ?_
  · refine HT.cons (HT.start hr) (HT.cons (HT.wrv1 (c := 7) _ (by decide) rfl (by tokarith)) ?_)
    exact (HT.rdv (c := 8) _ 0 (by decide) (by decide) (Or.inl rfl) (by tokarith)).post (by toksub)
  · rw [hph]
    have : ph = 0 ∨ ph = 1 := by omega
    rcases this with rfl | rfl
    · exact HT.refl
    · exact HT.wrv2 (c := 8) _ (by decide) rfl (by tokarith) (by tokarith)
  · exact (HT.wgDone hd (by toksub)).post (by toksub)

/-! ### the producer / reader loop -/

/-- blocks `lo+1 .. hi` of a simulated source with their segments -/
@[c17set] def BlksS (n lo hi : Nat) : TS := fun c i s =>
  (c = 3 ∧ lo + 1 ≤ i ∧ i ≤ hi ∧ s = 0) ∨ (c = 4 ∧ (lo + 1) * n ≤ i ∧ i < (hi + 1) * n ∧ s = 0)

theorem seg_block {n i k : Nat} (h1 : n ≤ i) (h2 : i < (k + 1) * n) :
    ∃ b, b < k ∧ (b + 1) * n ≤ i ∧ i < (b + 1) * n + n := by
  have hn : 0 < n := by
    cases n with
    | zero => simp at h2
    | succ m => omega
  have q1 : 0 < i / n := Nat.div_pos h1 hn
  have q2 : i / n < k + 1 := Nat.div_lt_of_lt_mul (by rw [Nat.mul_comm]; exact h2)
  have q3 : i / n * n ≤ i := Nat.div_mul_le_self i n
  have q4 := div_mul_add_mod i n
  have q5 := Nat.mod_lt i hn
  refine ⟨i / n - 1, by omega, ?_, ?_⟩
  · have : i / n - 1 + 1 = i / n := by omega
    rw [this]; exact q3
  · have : i / n - 1 + 1 = i / n := by omega
    rw [this]; omega

theorem rep_blocks (p : Par) :
    Rep ((rng p.nblk).flatMap (fun b => blockToks p (b + 1))) (BlksS p.n 0 p.nblk) :=
  (Rep.flatMapRange (fun b => rep_blockToks p (b + 1)) p.nblk).congr (fun c i s => by
    constructor
    · rintro ⟨b, hb, h⟩
      have h1 : (b + 1 + 1) * p.n = (b + 1) * p.n + p.n := Nat.succ_mul _ _
      have h2 : (b + 1 + 1) * p.n ≤ (p.nblk + 1) * p.n := Nat.mul_le_mul_right _ (by omega)
      have h3 : 1 * p.n ≤ (b + 1) * p.n := Nat.mul_le_mul_right _ (by omega)
      tokarith
    · intro h
      simp only [BlksS] at h
      rcases h with ⟨h1, h2, h3, h4⟩ | ⟨h1, h2, h3, h4⟩
      · exact ⟨i - 1, by omega, Or.inl ⟨h1, by omega, h4⟩⟩
      · obtain ⟨b, hb, hb1, hb2⟩ := seg_block (by omega) h3
        exact ⟨b, hb, Or.inr ⟨h1, hb1, hb2, h4⟩⟩)

theorem rep_spawn_P_sim (h : s.src = 0) :
    Rep (spawnPayOf s.par tP) (fun c i s' => OneS 1 0 0 c i s' ∨ BlksS s.n 0 s.k c i s') := by
  have hm : s.par.merged = false := merged_zero h
  rw [spawnPayOf_2 _ _ (show clsOf tP = 2 from rfl)]
  simp only [hm, Bool.false_eq_true, if_false, nfnTok]
  exact Rep.cons (by decide) (by decide) (rep_blocks s.par)

/-- what the reader loop of a merged source is given: its working state (Abaco only) -/
theorem rep_spawn_P_merged (hm : s.merged = true) :
    Rep ((mkSpec s.par).spawnPay tP) (fun c i s' => s.src = 1 ∧ c = 0 ∧ i = 0 ∧ s' = 0) := by
  show Rep (spawnPayOf s.par tP) _
  have hm' : s.par.merged = true := hm
  rw [spawnPayOf_2 _ _ (show clsOf tP = 2 from rfl)]
  simp only [hm', if_true]
  exact ((Rep.one (c := 0) (i := 0) (s := 0) (by decide) (by decide)).ite (s.par.src == 1)).congr (fun c i s' => by
    simp only [OneS, beq_iff_eq, par_src])

/-- a critical section of the frame state of an Abaco source -/
theorem HT.fl {p : Par} {P : TS} (h : p.src = 1) (e : Ev) (he : e = .wr vNfn ∨ e = .rd vNfn) :
    HT (mkSpec p) kids t P [.lock oFl, .wr vEtq, e, .unlock oFl] (fun c i s => P c i s ∧ ¬ FlS p.src c i s) := by
  refine HT.cons (HT.lock (rep_mtx_fl p)) (HT.cons (Q := fun c i s => P c i s ∨ FlS p.src c i s) ?_
    (HT.cons (Q := fun c i s => P c i s ∨ FlS p.src c i s) ?_ ?_))
  · exact HT.wrv1 (c := 2) 0 (by decide) rfl (Or.inr ⟨h, Or.inr rfl, rfl, rfl⟩)
  · rcases he with rfl | rfl
    · exact HT.wrv1 (c := 1) 0 (by decide) rfl (Or.inr ⟨h, Or.inl rfl, rfl, rfl⟩)
    · exact HT.rdv (c := 1) 0 0 (by decide) (by decide) (Or.inl rfl) (Or.inr ⟨h, Or.inl rfl, rfl, rfl⟩)
  · exact (HT.unlock (rep_mtx_fl p) (fun _ _ _ _ _ h => Or.inr h)).post
      (fun _ _ _ _ _ h => ⟨Or.inl h.1, h.2⟩)

theorem typedP (hsrc : s.src ≤ 2) : HT (mkSpec s.par) s.kids tP EmptyS s.progP EmptyS := by
  unfold progP
  rcases (show s.src = 0 ∨ s.src = 1 ∨ s.src = 2 by omega) with h | h | h
  · -- simulated source
    have hm : s.merged = false := merged_zero h
    refine HT.seq (Q := EmptyS) (HT.seq (Q := EmptyS) (HT.seq (Q := fun c i s' => OneS 1 0 0 c i s' ∨ BlksS s.n 0 s.k c i s')
      ((HT.start (rep_spawn_P_sim s h)).post (by toksub)) ?_) (HT.recvC0 _)) ?_
    · refine (HT.range (fun b c i s' => OneS 1 0 0 c i s' ∨ BlksS s.n b s.k c i s') _ s.k ?_).post (by toksub)
      intro b hb
      have h1 : (b + 1 + 1) * s.n = (b + 1) * s.n + s.n := Nat.succ_mul _ _
      have h2 : (b + 1 + 1) * s.n ≤ (s.k + 1) * s.n := Nat.mul_le_mul_right _ (by omega)
      simp only [h, BEq.rfl, if_true, vBlk, vSeg, hm, Bool.false_eq_true, if_false, vNfn, perChan]
      refine HT.seq (Q := fun c i s' => OneS 1 0 0 c i s' ∨ BlksS s.n b s.k c i s')
        (HT.seq (Q := fun c i s' => OneS 1 0 0 c i s' ∨ BlksS s.n b s.k c i s') ?_ ?_) ?_
      · exact HT.cons (HT.wrv1 (c := 3) _ (by decide) rfl (by tokarith))
          (HT.wrv1 (c := 1) _ (by decide) rfl (by tokarith))
      · apply HT.range_const; intro i hi
        exact HT.wrv1 (c := 4) _ (by decide) rfl (by tokarith)
      · exact (HT.send (rep_chan_nb_sim s hm b) (by toksub)).post (by toksub)
    · simp only [h, BEq.rfl, if_true]; exact HT.close0 rfl
  · -- Abaco: the reader loop owns its working state
    have hr := rep_spawn_P_merged s (merged_of_ne (by omega))
    refine HT.seq (Q := EmptyS) (HT.seq (Q := EmptyS) (HT.seq (Q := OneS 0 0 0)
      ((HT.start hr).post (by toksub)) ?_) (HT.recvC0 _)) ?_
    · refine (HT.range_const (P := OneS 0 0 0) _ _ ?_).post (by toksub)
      intro b _
      simp only [h, Nat.reduceBEq, Bool.false_eq_true, if_false, BEq.rfl, if_true]
      refine HT.seq (a := [.lock oFl, .wr vEtq, .rd vNfn, .unlock oFl]) (b := [.wr vRloc, .rd vRloc, .send oBufc])
        (Q := OneS 0 0 0) ((HT.fl (p := s.par) h _ (Or.inr rfl)).post (by toksub)) ?_
      exact HT.cons (HT.wrv1 (c := 0) 0 (by decide) rfl (by tokarith))
        (HT.cons (HT.rdv (c := 0) 0 0 (by decide) (by decide) (Or.inl rfl) (by tokarith))
          (HT.send0 (chanPay_oBufc _)))
    · simp only [h, Nat.reduceBEq, Bool.false_eq_true, if_false]; exact HT.close0 rfl
  · -- Lancero
    refine HT.seq (Q := EmptyS) (HT.seq (Q := EmptyS) (HT.seq (Q := EmptyS) HT.start0 ?_) (HT.recvC0 _)) ?_
    · apply HT.range_const; intro b _
      simp only [h, Nat.reduceBEq, Bool.false_eq_true, if_false]
      exact HT.send0 (chanPay_oBufc _)
    · simp only [h, Nat.reduceBEq, Bool.false_eq_true, if_false]; exact HT.close0 rfl

/-! ### block assembly (Abaco, Lancero) -/

theorem rep_spawn_A (hm : s.merged = true) (hc : clsOf t = 4) : Rep (spawnPayOf s.par t) (BlkNS s.n s.src) := by
  have hm' : s.par.merged = true := hm
  rw [spawnPayOf_4 _ _ hc]; simp only [hm', if_true]; exact rep_blkN s.par hm'

theorem spawnPay_tAW (hn : 0 < s.n) (b i : Nat) (hi : i < s.n) : spawnPayOf s.par (s.tAW b i) = [tk 4 i 0] := by
  rw [spawnPayOf_5 _ _ (show clsOf (s.tAW b i) = 5 from clsOf_enc (by decide))]
  unfold tAW; rw [chan_tid s hn 5 b i (by decide) hi]

theorem kids_wga (hsrc : s.src = 1) (b : Nat) (hb : b < s.k) : s.kids (oWga b) = (rng s.n).map (s.tAW b) := by
  have h1 : clsOf (oWga b) = 10 := clsOf_enc (by decide)
  have h2 : idxOf (oWga b) = b := idxOf_enc (by decide)
  simp [kids, h1, h2, hsrc, hb]

theorem rep_wait_wga (hn : 0 < s.n) (hsrc : s.src = 1) (b : Nat) (hb : b < s.k) :
    Rep (waitPay (mkSpec s.par) s.kids (oWga b)) (fun c i s' => c = 4 ∧ i < s.n ∧ s' = 0) := by
  intro k
  rw [mem_waitPay, kids_wga s hsrc b hb]
  simp only [List.mem_map, rng, List.mem_range]
  constructor
  · rintro ⟨u, ⟨j, hj, rfl⟩, hk⟩
    rw [show oWga b = enc 10 b from rfl, donePay_wga _ _ _ (show clsOf (s.tAW b j) = 5 from clsOf_enc (by decide)),
      spawnPay_tAW s hn b j hj, List.mem_singleton] at hk
    subst hk
    rw [clsT_tk (by decide) (by decide), idxT_tk (by decide) (by decide), shT_tk (by decide)]
    exact ⟨rfl, hj, rfl⟩
  · rintro ⟨h1, h2, h3⟩
    refine ⟨s.tAW b (idxT k), ⟨_, h2, rfl⟩, ?_⟩
    rw [show oWga b = enc 10 b from rfl, donePay_wga _ _ _ (show clsOf (s.tAW b (idxT k)) = 5 from clsOf_enc (by decide)),
      spawnPay_tAW s hn b _ h2, List.mem_singleton, eq_tk_iff (by decide) (by decide)]
    exact ⟨h1, rfl, h3⟩

theorem typedA (hn : 0 < s.n) (hm : s.merged = true) (hsrc : s.src ≤ 2) (hc : clsOf t = 4) (b : Nat) :
    HT (mkSpec s.par) s.kids t EmptyS (s.progA b) EmptyS := by
  have h0 : s.src ≠ 0 := by
    intro h; rw [merged_zero h] at hm; cases hm
  unfold progA
  split
  next hb =>
    have hX : HT (mkSpec s.par) s.kids t EmptyS [.start, .recv oBufc, .wr (s.vBlk b)] (BlkNS s.n s.src) := by
      simp only [vBlk, hm, if_true]
      exact HT.cons (HT.start (rep_spawn_A s hm hc)) (HT.cons (HT.recv0 _)
        ((HT.wrv1 (c := 3) 0 (by decide) rfl (by tokarith)).post (by toksub)))
    have hZ : HT (mkSpec s.par) s.kids t (BlkNS s.n s.src) [.send (s.oNb b)] EmptyS :=
      (HT.send (rep_chan_nb_merged s hm b) (by toksub)).post (by toksub)
    refine HT.seq (HT.seq hX ?_) hZ
    rcases (show s.src = 1 ∨ s.src = 2 by omega) with h | h
    · simp only [h, BEq.rfl, if_true, perChan]
      refine HT.seq (Q := fun c i s' => BlkNS s.n s.src c i s' ∧ ¬ (c = 4 ∧ i < s.n ∧ s' = 0))
        (HT.seq (Q := BlkNS s.n s.src) ?_ ?_) ?_
      · exact (HT.fl (p := s.par) h _ (Or.inl rfl)).post (by toksub)
      · refine (HT.range (fun j c i s' => BlkNS s.n s.src c i s' ∧ ¬ (c = 4 ∧ i < j ∧ s' = 0)) _ s.n ?_).pre
          (by toksub)
        intro j hj
        have hr : Rep ((mkSpec s.par).spawnPay (s.tAW b j)) (OneS 4 j 0) := by
          show Rep (spawnPayOf s.par (s.tAW b j)) _
          rw [spawnPay_tAW s hn b j hj]; exact Rep.one (by decide) (by decide)
        exact HT.cons (HT.wgAdd _) ((HT.spawn hr (by toksub)).post (by toksub))
      · exact (HT.wgWait (rep_wait_wga s hn h b hb)).post (by toksub)
    · have e1 : (s.src == 1) = false := by simp [h]
      simp only [e1, Bool.false_eq_true, if_false, perChan, vSeg, hm, if_true, Nat.zero_mul, Nat.zero_add]
      refine HT.cons (Q := BlkNS s.n s.src) (HT.wrv1 (c := 1) 0 (by decide) rfl (by tokarith)) ?_
      apply HT.range_const; intro i hi
      exact HT.wrv1 (c := 4) _ (by decide) rfl (by tokarith)
  next hb =>
    exact HT.cons HT.start0 (HT.cons (HT.recvC0 _) (HT.close0 rfl))

end sched

end DastardV.C17
