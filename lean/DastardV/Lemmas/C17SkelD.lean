/-
C17 — `skeleton_ok` (Lemmas/C17Skel.lean), part D: thread-local typing of the small programs of the skeleton
(status thread, producer / reader, block assembly and its workers, per-channel workers, archive writers).
Core Lean only.
-/
import DastardV.Lemmas.C17SkelC
namespace DastardV.C17
open Sched

/-! ### the payloads of the named objects -/

section named
variable (p : Par)

theorem rep_mtx_cfg : Rep ((mkSpec p).mtxPay oCfg) (OneS 13 0 0) := by
  unfold oCfg; rw [mtxPay_cfg]; exact Rep.one (by decide) (by decide)

theorem rep_mtx_wsm : Rep ((mkSpec p).mtxPay oWsm) (OneS 11 0 1) := by
  unfold oWsm; rw [mtxPay_wsm]; exact Rep.one (by decide) (by decide)

/-- the frame state of an Abaco source -/
@[c17set] def FlS (src : Nat) : TS := fun c i s => src = 1 ∧ (c = 1 ∨ c = 2) ∧ i = 0 ∧ s = 0

theorem rep_mtx_fl : Rep ((mkSpec p).mtxPay oFl) (FlS p.src) := by
  unfold oFl; rw [mtxPay_fl]
  intro k
  by_cases h : p.src = 1
  · simp only [h, BEq.rfl, if_true, List.mem_cons, List.mem_nil_iff, or_false, nfnTok, FlS, true_and,
      eq_tk_iff (c := 1) (s := 0) (by decide) (by decide), eq_tk_iff (c := 2) (s := 0) (by decide) (by decide)]
    omega
  · have : (p.src == 1) = false := by simpa using h
    simp [this, FlS, h]

theorem rep_chan_cm (m : Nat) : Rep ((mkSpec p).chanPay (oCm m)) (OneS 10 m 0) := by
  unfold oCm; rw [chanPay_cm]; exact Rep.one (by decide) (by decide)

theorem rep_chan_cmpl (j : Nat) : Rep ((mkSpec p).chanPay (oCmpl j)) (OneS 6 j 0) := by
  unfold oCmpl; rw [chanPay_cmpl]; exact Rep.one (by decide) (by decide)

/-- the client's shares of the trigger states and the group-trigger connections -/
@[c17set] def ClientS (n : Nat) : TS := fun c i s => (c = 8 ∧ i < n ∧ s = 1) ∨ (c = 9 ∧ i = 0 ∧ s = 1)

theorem rep_chan_qreq1 : Rep ((mkSpec p).chanPay (oQreq 1)) (ClientS p.n) := by
  unfold oQreq; rw [chanPay_qreq1]
  exact (Rep.append (Rep.mapTk (c0 := 8) (s0 := 1) (by decide) (by decide) p.n)
    (Rep.one (c := 9) (i := 0) (s := 1) (by decide) (by decide))).congr (fun c i s => by
      simp only [ClientS, OneS])

theorem chanPay_oQreq (j : Nat) (hj : j ≠ 1) : (mkSpec p).chanPay (oQreq j) = [] := chanPay_qreq p j hj
theorem chanPay_oQres : (mkSpec p).chanPay oQres = [] := chanPay_qres p
theorem chanPay_oBufc : (mkSpec p).chanPay oBufc = [] := chanPay_bufc p

theorem rep_nfn_if : Rep (if p.src == 2 then [nfnTok] else []) (fun c i s => p.src = 2 ∧ c = 1 ∧ i = 0 ∧ s = 0) :=
  ((Rep.one (c := 1) (i := 0) (s := 0) (by decide) (by decide)).ite (p.src == 2)).congr (fun c i s => by
    simp only [OneS, beq_iff_eq])

theorem rep_blkN (_h : p.merged = true) :
    Rep (blockToks p 0 ++ (if p.src == 2 then [nfnTok] else [])) (BlkNS p.n p.src) :=
  (Rep.append (rep_blockToks p 0) (rep_nfn_if p)).congr (fun c i s => by simp only [BlkNS])

end named

section sched
variable (s : Sched)

theorem par_n : s.par.n = s.n := rfl
theorem par_src : s.par.src = s.src := rfl
theorem par_nblk : s.par.nblk = s.k := rfl
theorem par_merged : s.par.merged = s.merged := rfl

theorem merged_of_ne {s : Sched} (h : s.src ≠ 0) : s.merged = true := by simp [Sched.merged, h]
theorem merged_zero {s : Sched} (h : s.src = 0) : s.merged = false := by simp [Sched.merged, h]

theorem phase_le (b : Nat) : s.phase b ≤ 1 := by unfold phase; split <;> omega

theorem rep_chan_nb_merged (h : s.merged = true) (b : Nat) :
    Rep ((mkSpec s.par).chanPay (s.oNb b)) (BlkNS s.n s.src) := by
  simp only [oNb, h, if_true]
  have h' : s.par.merged = true := h
  rw [chanPay_nb_merged s.par h']; exact rep_blkN s.par h'

theorem rep_chan_nb_sim (h : s.merged = false) (b : Nat) :
    Rep ((mkSpec s.par).chanPay (s.oNb b)) (BlkS s.n (b + 1)) := by
  simp only [oNb, h, Bool.false_eq_true, if_false]
  have h' : s.par.merged = false := h
  rw [chanPay_nb_sim s.par h']; exact rep_blockToks s.par (b + 1)

/-! ### thread ids of the workers -/

theorem chan_tid (hn : 0 < s.n) (c b i : Nat) (hc : c < 16) (hi : i < s.n) :
    chanOf s.par (enc c (b * s.n + i)) = i := by
  rw [chanOf_eq s.par hn, idxOf_enc hc]; exact mul_add_mod hi

theorem rep_spawn_W (hn : 0 < s.n) (t : Tid) (ph : Nat) (hph : ph ≤ 1) (hc : clsOf t = 6 + ph ∨ clsOf t = 8 + ph) :
    Rep (spawnPayOf s.par t) (ProcS (idxOf t % s.n) ph) := by
  have e : spawnPayOf s.par t = procToks (chanOf s.par t) (ph == 1) := by
    have : ph = 0 ∨ ph = 1 := by omega
    rcases this with rfl | rfl <;> rcases hc with hc | hc
    · exact spawnPayOf_6 _ _ hc
    · exact spawnPayOf_8 _ _ hc
    · exact spawnPayOf_7 _ _ hc
    · exact spawnPayOf_9 _ _ hc
  rw [e, chanOf_eq s.par hn]; exact rep_procToks _ ph hph

end sched

end DastardV.C17
