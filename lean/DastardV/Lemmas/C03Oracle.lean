/-
C03 — what the run-time answer of `chkFrames` means.  The C03 oracle demands `chkFrames f0 blocks = true` of
the blocks the REAL `getNextBlock` emitted.  This is exactly continuous frame numbering: block number `k`
starts at `f0` plus the total number of frames of the blocks before it — for any number of blocks.
-/
import DastardV.Model.C03
namespace DastardV.C03

/-- total number of frames of a list of blocks -/
def framesOf (bs : List Block) : Int := (bs.map fun b => (b.nframes : Int)).sum

theorem chkFrames_iff : ∀ (bs : List Block) (f : Int),
    chkFrames f bs = true ↔ ∀ (k : Nat) (b : Block), bs[k]? = some b → b.first = f + framesOf (bs.take k)
  | [], f => by simp [chkFrames]
  | b :: bs, f => by
    simp only [chkFrames, Bool.and_eq_true, beq_iff_eq, chkFrames_iff bs (f + (b.nframes : Int))]
    constructor
    · rintro ⟨h0, hr⟩ k c hk
      cases k with
      | zero =>
        simp only [List.getElem?_cons_zero, Option.some.injEq] at hk
        subst hk; simp [framesOf, h0]
      | succ k =>
        simp only [List.getElem?_cons_succ] at hk
        have := hr k c hk
        simp only [framesOf, List.take_succ_cons, List.map_cons, List.sum_cons] at this ⊢
        omega
    · intro h
      refine ⟨by simpa [framesOf] using h 0 b (by simp), fun k c hk => ?_⟩
      have := h (k + 1) c (by simpa using hk)
      simp only [framesOf, List.take_succ_cons, List.map_cons, List.sum_cons] at this ⊢
      omega

/-- accepted ⇒ consecutive blocks abut: no frame number is skipped or repeated between two blocks -/
theorem chkFrames_abut {bs : List Block} {f : Int} (h : chkFrames f bs = true) (k : Nat) (a b : Block)
    (ha : bs[k]? = some a) (hb : bs[k + 1]? = some b) : b.first = a.first + (a.nframes : Int) := by
  have h1 := (chkFrames_iff bs f).1 h k a ha
  have h2 := (chkFrames_iff bs f).1 h (k + 1) b hb
  have ht : bs.take (k + 1) = bs.take k ++ [a] := by
    rw [List.take_add_one, ha]; rfl
  simp only [framesOf, ht, List.map_append, List.sum_append, List.map_cons, List.map_nil, List.sum_cons,
    List.sum_nil] at h1 h2
  omega

end DastardV.C03

namespace DastardV.C03

/-- accepted by `chkShape` ⇒ every emitted block has one channel list per group with that group's channel
count, and every channel of every group holds exactly `nframes` samples -/
theorem chkShape_sound {L : List GL} {bs : List Block} (h : chkShape L bs = true) (b : Block) (hb : b ∈ bs) :
    b.data.map (·.length) = L.map (·.nchan) ∧ ∀ g ∈ b.data, ∀ ch ∈ g, ch.length = b.nframes := by
  simp only [chkShape, List.all_eq_true, Bool.and_eq_true, beq_iff_eq] at h
  exact ⟨(h b hb).1, fun g hg ch hc => (h b hb).2 g hg ch hc⟩

end DastardV.C03

namespace DastardV.C03

/-- accepted by `chkStream` ⇒ for EVERY group and EVERY channel of it, the concatenation of the emitted blocks
is the expected (gap-filled) stream of the packets available from the common start -/
theorem chkStream_sound {fpp : Nat} {L : List GL} {H : List (List (List Pkt))} {bs : List Block}
    (h : chkStream fpp L H bs = true) (i : Nat) (g : GL) (hg : L[i]? = some g) (c : Nat) (hc : c < g.nchan) :
    streamOK fpp g.nchan c (((specOf g H i).drop (skipOf (startSN L) g)).take (navail L H)) (catChan bs i c) = true := by
  simp only [chkStream, List.all_eq_true, List.mem_range] at h
  have hi : i < L.length := by
    rcases List.getElem?_eq_some_iff.1 hg with ⟨hlt, _⟩; exact hlt
  have := h i hi
  simp only [hg, List.all_eq_true, List.mem_range] at this
  exact this c hc

/-- the whole C03 oracle, clause by clause -/
theorem chkC03_sound {fpp : Nat} {L : List GL} {f0 : Int} {H : List (List (List Pkt))} {out : List (Nat × Block)}
    (h : chkC03 fpp L f0 H out = true) :
    (∀ b ∈ out.map (·.2), b.data.map (·.length) = L.map (·.nchan) ∧ ∀ g ∈ b.data, ∀ ch ∈ g, ch.length = b.nframes) ∧
    (∀ (k : Nat) (b : Block), (out.map (·.2))[k]? = some b → b.first = f0 + framesOf ((out.map (·.2)).take k)) ∧
    (∀ (i : Nat) (g : GL), L[i]? = some g → ∀ c, c < g.nchan →
      streamOK fpp g.nchan c (((specOf g H i).drop (skipOf (startSN L) g)).take (navail L H))
        (catChan (out.map (·.2)) i c) = true) := by
  simp only [chkC03, Bool.and_eq_true] at h
  obtain ⟨⟨⟨hs, hf⟩, hst⟩, _⟩ := h
  exact ⟨fun b hb => chkShape_sound hs b hb, (chkFrames_iff _ _).1 hf, fun i g hg c hc => chkStream_sound hst i g hg c hc⟩

end DastardV.C03
