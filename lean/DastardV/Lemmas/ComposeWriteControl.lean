/-
Composition of the write-control model (C06) with the file-writer model (C05).

C06 reasons about the SOURCE: requests START / STOP / PAUSE / UNPAUSE, publications per channel, the
source ending and starting again; its files are record COUNTERS `stored files k`, one per file key
`k = (run directory, channel, file type)`.  C05 reasons about ONE channel's `DataPublisher` for ONE file
format: `start sel resetPause | publish batch | flush | pause | unpause | stop`, and proves what the file
CONTAINS (`header ++ encodings of accepted F {} ops`).

Here: for every file key `k` a projection `project k s ops` of a C06 history onto the C05 operations that
the publisher of channel `k.ch`, format `k.ft`, goes through as far as the file `k` is concerned, and the
proof, for ALL histories, that

* (simulation) the C05 control state reached by the projected operations agrees with C06's channel
  `k.ch` after the history (hence after every prefix: `project_append`): same pause flag, and
  "the C05 writer is set and active" ⇔ "the channel holds a writer of type `k.ft` into run `k.run`";
  so C05's `writing` ⇔ C06's REPORTED state says active, not paused, type enabled, pattern = `k.run`,
  channel eligible (`writeControl_simulates`);
* (counter = file) C06's counter `stored files k` is the number of records C05 says were published while
  writing (`publishedWhileWriting`), and — when the writer's filter passes every record — the length of
  `accepted`, i.e. the number of records in the file C05's content theorems describe.

Which C06 operation becomes which C05 operation (`emit`), seen from file `k` on channel `c = chans[k.ch]`:

| C06 op (in state `s`)                                  | C05 ops                                          |
|--------------------------------------------------------|--------------------------------------------------|
| request while the source is down, rejected request     | none (C06_rejected_is_noop)                      |
| PAUSE                                                  | `pause`   (SetPause(true) on every channel)      |
| accepted UNPAUSE                                       | `unpause`                                        |
| STOP; the source ends while writing is active          | `stop`    (Remove* on every channel)             |
| accepted START creating run `k.run`                    | `start sel reset`: `sel` = the setter of type `k.ft` is called on the channel (LJH: the type is requested; OFF: requested AND the channel has projectors), `reset` = some setter is called on the channel (every setter clears `WritingPaused`; a channel without projectors in an OFF-only START gets no setter call and keeps its flag) |
| accepted START creating another run                    | `unpause` if some setter is called on the channel (the flag is cleared), else none; the file `k` is not concerned: its writer is idle or stopped |
| publication `counts`                                   | `publish` of a batch of `counts[k.ch]` records   |
| projector load                                         | none                                             |
| the source ends while writing is not active            | none                                             |
| accepted source start (fresh `DataPublisher`s)         | `unpause` (a fresh publisher is not paused; it has no writer, and — invariant `Good` of C06 — neither had the old one) |

C06 histories carry record counts only; `project` therefore yields operations over `Unit` records.  Writer
histories over real records are tied in through their `shapes` (batch lengths; flushes, which C06 does not
see, dropped): every statement below holds for ANY C05 history `wops` with `shapes wops = project …`.

The pause flag.  C05's `start sel resetPause` leaves it to the caller whether the START clears the flag; C06
transcribes the code after fix 29d6aef, where ALL THREE setters (SetLJH22, SetOFF, SetLJH3) clear it.  The
projection therefore passes `resetPause = "some setter is called on this channel"`, which is false only for a
channel without projectors in an OFF-only START (no setter runs; the channel gets no writer either).  With
that argument the two models agree on every history; nothing in either model had to change.  (The C05
DRIVER's own `projOps` still passes `resetPause = false` for an OFF-only START, the behaviour before the
fix; its generated histories never pause before START, so the difference is not exercised there, and the
C05 theorems quantify over all operation lists, so they cover both.)
-/
import DastardV.Props.C06
import DastardV.Lemmas.ComposeFile
namespace DastardV.ComposeWC
open C06

/-- a C05 operation over records without content -/
abbrev WOp := C05.Op Unit

/-! ### the C05 side: control run, number of records published while writing, shapes -/

/-- the control state after a list of operations -/
def ctlRun {ρ} (c : C05.Ctl) (ws : List (C05.Op ρ)) : C05.Ctl := ws.foldl C05.ctlStep c

/-- number of records published while the writer is set, active and not paused -/
def written {ρ} : C05.Ctl → List (C05.Op ρ) → Nat
  | _, [] => 0
  | c, op :: ops =>
    (match op with
     | .publish b => if C05.writing c then b.length else 0
     | _ => 0) + written (C05.ctlStep c op) ops

/-- what C06 can see of a writer history: batch lengths; flushes dropped -/
def shapes {ρ} : List (C05.Op ρ) → List WOp
  | [] => []
  | .start a b :: r => .start a b :: shapes r
  | .publish b :: r => .publish (List.replicate b.length ()) :: shapes r
  | .flush :: r => shapes r
  | .pause :: r => .pause :: shapes r
  | .unpause :: r => .unpause :: shapes r
  | .stop :: r => .stop :: shapes r

theorem run_ctl {ρ} (F : C05.Fmt ρ) : ∀ (ws : List (C05.Op ρ)) (p : C05.PubSt),
    (C05.run F p ws).ctl = ctlRun p.ctl ws
  | [], _ => rfl
  | w :: ws, p => by
    have := run_ctl F ws (C05.step F p w)
    simpa [C05.run, ctlRun, C05.step] using this

theorem ctlRun_append {ρ} (c : C05.Ctl) (a b : List (C05.Op ρ)) :
    ctlRun c (a ++ b) = ctlRun (ctlRun c a) b := by
  simp [ctlRun, List.foldl_append]

theorem written_append {ρ} : ∀ (a b : List (C05.Op ρ)) (c : C05.Ctl),
    written c (a ++ b) = written c a + written (ctlRun c a) b
  | [], b, c => by simp [written, ctlRun]
  | x :: a, b, c => by
    simp only [List.cons_append, written, ctlRun, List.foldl_cons]
    rw [written_append a b]
    simp only [ctlRun]
    omega

theorem ctlRun_shapes {ρ} : ∀ (ws : List (C05.Op ρ)) (c : C05.Ctl), ctlRun c (shapes ws) = ctlRun c ws
  | [], _ => rfl
  | w :: ws, c => by
    have ih := ctlRun_shapes ws
    cases w <;> simp only [shapes, ctlRun, List.foldl_cons] <;> simp only [ctlRun] at ih
    all_goals first | exact ih _ | skip
    all_goals exact ih _

theorem written_shapes {ρ} : ∀ (ws : List (C05.Op ρ)) (c : C05.Ctl), written c (shapes ws) = written c ws
  | [], _ => rfl
  | w :: ws, c => by
    have ih := written_shapes ws
    cases w <;> simp only [shapes, written, List.length_replicate] <;> first | exact ih _ | (rw [ih]; rfl) | skip
    all_goals (simp only [Nat.zero_add]; exact ih _)

/-- the records C05 counts as "published while writing" are `written` many, whatever the format -/
theorem published_length {ρ} (F : C05.Fmt ρ) : ∀ (ws : List (C05.Op ρ)) (c : C05.Ctl),
    (Compose.publishedWhileWriting F c ws).length = written c ws
  | [], _ => rfl
  | w :: ws, c => by
    have ih := published_length F ws (C05.ctlStep c w)
    unfold Compose.publishedWhileWriting at ih ⊢
    simp only [C05.accepted, written, List.length_append, ih]
    congr 1
    cases w with
    | publish b =>
      simp only [C05.accStep]
      split
      · rw [Compose.taken_all _ b (fun _ _ => rfl)]
      · rfl
    | _ => rfl

theorem writing_iff (c : C05.Ctl) :
    C05.writing c = true ↔ c.phase = .active ∧ c.sel = true ∧ c.paused = false := by
  simp [C05.writing, and_assoc]

/-! ### the projection -/

/-- START calls the setter of type `t` on channel `c` -/
def setterCalled (c : Chan) (l22 off l3 : Bool) : FT → Bool
  | .ljh22 => l22
  | .ljh3 => l3
  | .off => off && c.proj

/-- START calls some setter on channel `c` (each of them clears the pause flag) -/
def anySetter (c : Chan) (l22 off l3 : Bool) : Bool := l22 || (off && c.proj) || l3

/-- a request that reaches the running source, seen from file `k` on channel `c` -/
def emitReq (k : FKey) (s : St) (c : Chan) (r : List Nat) (path : Option Nat) (l22 off l3 : Bool)
    (map : Option Nat) : List WOp :=
  match classify r with
  | .pause => [.pause]
  | .unpause lbl => if labelRefused s.ws.active lbl then [] else [.unpause]
  | .unpauseBad => []
  | .stop => [.stop]
  | .start =>
    match startTarget s path l22 off l3 map with
    | none => []
    | some run =>
      if run = k.run then [.start (setterCalled c l22 off l3 k.ft) (anySetter c l22 off l3)]
      else if anySetter c l22 off l3 then [.unpause] else []
  | .invalid => []

/-- one C06 operation in state `s`, seen from file `k` on channel `c` (the table in the file header) -/
def emit (k : FKey) (s : St) (c : Chan) : Op → List WOp
  | .req r path l22 off l3 map => if s.running then emitReq k s c r path l22 off l3 map else []
  | .pub counts => [.publish (List.replicate (counts[k.ch]?.getD 0) ())]
  | .proj _ => []
  | .lens .. => []      -- a record-length request touches no writer and no pause flag
  | .srcEnd => if s.running && s.ws.active then [.stop] else []
  | .srcStart => if s.running then [] else [.unpause]

/-- a channel that does not exist has no publisher: no operations -/
def emitAt (k : FKey) (s : St) (o : Op) : List WOp :=
  match s.chans[k.ch]? with
  | some c => emit k s c o
  | none => []

/-- **the projection**: the C05 operations the publisher of channel `k.ch`, format `k.ft`, file `k`,
goes through during the C06 history `ops` from state `s` -/
def project (k : FKey) : St → List Op → List WOp
  | _, [] => []
  | s, o :: os => emitAt k s o ++ project k (step s o).1 os

theorem runOps_append : ∀ (a b : List Op) (s : St), runOps s (a ++ b) = runOps (runOps s a) b
  | [], _, _ => rfl
  | _ :: a, b, _ => runOps_append a b _

/-- the projection of a prefix is a prefix of the projection -/
theorem project_append (k : FKey) : ∀ (a b : List Op) (s : St),
    project k s (a ++ b) = project k s a ++ project k (runOps s a) b
  | [], _, _ => rfl
  | o :: a, b, _ => by
    simp only [List.cons_append, project, runOps, List.append_assoc]
    rw [project_append k a b]

/-! ### channel lemmas -/

theorem writer_setPause (c : Chan) (p : Bool) (t : FT) : (c.setPause p).writer t = c.writer t := by
  cases t <;> rfl

theorem writer_removeAll (c : Chan) (t : FT) : c.removeAll.writer t = none := by
  cases t <;> rfl

theorem writer_none (c : Chan) (h : c.hasWriter = false) (t : FT) : c.writer t = none := by
  cases h1 : c.writer t with
  | none => rfl
  | some r => rw [hasWriter_of_writer c t r h1] at h; cases h

/-- what an accepted START leaves as the writer of type `t` -/
theorem start_writer (c : Chan) (h : c.hasWriter = false) (r : Run) (l22 off l3 : Bool) (t : FT) :
    (c.start r l22 off l3).writer t = if setterCalled c l22 off l3 t then some r else none := by
  have h1 : c.w22 = none := writer_none c h .ljh22
  have h2 : c.w3 = none := writer_none c h .ljh3
  have h3 : c.woff = none := writer_none c h .off
  cases t <;> cases l22 <;> cases off <;> cases l3 <;> cases hp : c.proj <;>
    simp [Chan.start, Chan.setLJH22, Chan.setLJH3, Chan.setOFF, Chan.writer, setterCalled, h1, h2, h3, hp]

/-- what an accepted START does to the channel's pause flag -/
theorem start_paused (c : Chan) (r : Run) (l22 off l3 : Bool) :
    (c.start r l22 off l3).paused = if anySetter c l22 off l3 then false else c.paused := by
  cases l22 <;> cases off <;> cases l3 <;> cases hp : c.proj <;>
    simp [Chan.start, Chan.setLJH22, Chan.setLJH3, Chan.setOFF, anySetter, hp]

theorem pubChan_same (fs : Files) (i : Nat) (c : Chan) (n : Nat) :
    (pubChan fs i c n).1.paused = c.paused ∧ ∀ t, (pubChan fs i c n).1.writer t = c.writer t := by
  unfold pubChan
  split
  · exact ⟨rfl, fun _ => rfl⟩
  · split
    · exact ⟨rfl, fun _ => rfl⟩
    · split
      · exact ⟨rfl, fun _ => rfl⟩
      · exact ⟨rfl, fun t => by cases t <;> rfl⟩

/-- a publication changes neither pause flags nor writers, channel by channel -/
theorem pubAll_get (cs : List Chan) : ∀ (i : Nat) (ns : List Nat) (fs : Files) (j : Nat) (c' : Chan),
    (pubAll i cs ns fs).1[j]? = some c' →
      ∃ c, cs[j]? = some c ∧ c'.paused = c.paused ∧ ∀ t, c'.writer t = c.writer t := by
  induction cs with
  | nil => intro i ns fs j c' h; simp [pubAll] at h
  | cons c cs ih =>
    intro i ns fs j c' h
    cases j with
    | zero =>
      simp only [pubAll, List.getElem?_cons_zero, Option.some.injEq] at h
      subst h
      exact ⟨c, rfl, pubChan_same fs i c _⟩
    | succ j =>
      simp only [pubAll, List.getElem?_cons_succ] at h
      exact ih _ _ _ j c' h

theorem setProj_get (cs : List Chan) : ∀ (i j : Nat) (c' : Chan), (setProj cs i)[j]? = some c' →
    ∃ c, cs[j]? = some c ∧ c'.paused = c.paused ∧ ∀ t, c'.writer t = c.writer t := by
  induction cs with
  | nil => intro i j c' h; simp [setProj] at h
  | cons c cs ih =>
    intro i j c' h
    cases i with
    | zero =>
      cases j with
      | zero =>
        simp only [setProj, List.getElem?_cons_zero, Option.some.injEq] at h
        subst h
        exact ⟨c, rfl, rfl, fun t => by cases t <;> rfl⟩
      | succ j =>
        simp only [setProj, List.getElem?_cons_succ] at h
        exact ⟨c', by simpa using h, rfl, fun _ => rfl⟩
    | succ i =>
      cases j with
      | zero =>
        simp only [setProj, List.getElem?_cons_zero, Option.some.injEq] at h
        subst h
        exact ⟨c, rfl, rfl, fun _ => rfl⟩
      | succ j =>
        simp only [setProj, List.getElem?_cons_succ] at h
        exact ih i j c' h

theorem map_get {α} {f : α → Chan} {cs : List α} {j : Nat} {c' : Chan} (h : (cs.map f)[j]? = some c') :
    ∃ c, cs[j]? = some c ∧ c' = f c := by
  rw [List.getElem?_map] at h
  cases hc : cs[j]? with
  | none => simp [hc] at h
  | some c => simp [hc] at h; exact ⟨c, rfl, h.symm⟩

/-! ### what one publication adds to file `k` -/

theorem contribAll_lt (cs : List Chan) : ∀ (i : Nat) (ns : List Nat) (k : FKey), k.ch < i →
    contribAll i cs ns k = 0 := by
  induction cs with
  | nil => intro i ns k _; rfl
  | cons c cs ih =>
    intro i ns k h
    simp only [contribAll]
    rw [ih (i + 1) _ k (by omega)]
    unfold contrib
    rw [if_neg (by intro ⟨_, _, h'⟩; omega)]

theorem contribAll_at (cs : List Chan) : ∀ (i j : Nat) (ns : List Nat) (k : FKey), k.ch = i + j →
    contribAll i cs ns k =
      match cs[j]? with
      | some c => contrib c k.ch (ns[j]?.getD 0) k
      | none => 0 := by
  induction cs with
  | nil => intro i j ns k _; rfl
  | cons c cs ih =>
    intro i j ns k h
    cases j with
    | zero =>
      simp only [contribAll, List.getElem?_cons_zero]
      rw [contribAll_lt cs (i + 1) _ k (by omega)]
      have : i = k.ch := by omega
      subst this
      cases ns <;> simp
    | succ j =>
      simp only [contribAll, List.getElem?_cons_succ]
      rw [ih (i + 1) j ns.tail k (by omega)]
      have : contrib c i (ns.headD 0) k = 0 := by
        unfold contrib
        rw [if_neg (by intro ⟨_, _, h'⟩; omega)]
      rw [this]
      cases ns <;> simp

/-! ### the simulation relation -/

/-- C05 control state `c` agrees with channel `k.ch` of the C06 state `s` as far as file `k` goes:
same pause flag; the writer is set and active exactly when the channel holds a writer of type `k.ft`
into run `k.run`; and once the writer has left `idle` the run directory exists (so no later START can
create it again) -/
structure Rel (k : FKey) (s : St) (c : C05.Ctl) : Prop where
  chan : ∀ cc, s.chans[k.ch]? = some cc →
    c.paused = cc.paused ∧ (cc.writer k.ft = some k.run ↔ (c.phase = .active ∧ c.sel = true))
  dirs : c.phase ≠ .idle → k.run ∈ s.dirs

/-- one step: the relation is kept and the counter of file `k` grows by what C05 counts -/
def StepOK (k : FKey) (s : St) (c : C05.Ctl) (o : Op) : Prop :=
  Rel k (step s o).1 (ctlRun c (emitAt k s o)) ∧
    stored (step s o).1.files k = stored s.files k + written c (emitAt k s o)

theorem emitAt_some {k : FKey} {s : St} {cc : Chan} (h : s.chans[k.ch]? = some cc) (o : Op) :
    emitAt k s o = emit k s cc o := by
  simp [emitAt, h]

theorem emitAt_none {k : FKey} {s : St} (h : s.chans[k.ch]? = none) (o : Op) : emitAt k s o = [] := by
  simp [emitAt, h]

theorem rel_of_chan {k : FKey} {s' : St} {c' : C05.Ctl} {cn : Chan} (hcn : s'.chans[k.ch]? = some cn)
    (hp : c'.paused = cn.paused)
    (hw : cn.writer k.ft = some k.run ↔ (c'.phase = .active ∧ c'.sel = true))
    (hd : c'.phase ≠ .idle → k.run ∈ s'.dirs) : Rel k s' c' := by
  refine ⟨?_, hd⟩
  intro cc h
  rw [hcn] at h
  cases h
  exact ⟨hp, hw⟩

/-! #### general facts about a step: channel count, directories, files -/

theorem pubAll_length (cs : List Chan) : ∀ (i : Nat) (ns : List Nat) (fs : Files),
    (pubAll i cs ns fs).1.length = cs.length := by
  induction cs with
  | nil => intro i ns fs; rfl
  | cons c cs ih => intro i ns fs; simp [pubAll, ih]

theorem setProj_length (cs : List Chan) : ∀ (i : Nat), (setProj cs i).length = cs.length := by
  induction cs with
  | nil => intro i; rfl
  | cons c cs ih => intro i; cases i <;> simp [setProj, ih]

theorem step_len (s : St) (o : Op) : (step s o).1.chans.length = s.chans.length := by
  cases o with
  | req q path l22 off l3 map =>
    simp only [step]
    split
    · simp only [reqStep]
      split
      · simp
      · split <;> simp
      · rfl
      · simp
      · simp only [startReq]
        split <;> simp
      · rfl
    · rfl
  | pub counts => simp [step, pubAll_length]
  | proj ch => simp [step, setProj_length]
  | srcEnd => simp only [step]; split <;> simp
  | srcStart => simp only [step]; split <;> simp
  | lens n p => rcases lens_step_cases s n p with h | ⟨h, _⟩ | ⟨h, _, _⟩ <;> rw [h] <;> simp

theorem step_dirs (s : St) (o : Op) : ∀ r ∈ s.dirs, r ∈ (step s o).1.dirs := by
  intro r hr
  cases o with
  | req q path l22 off l3 map =>
    simp only [step]
    split
    · simp only [reqStep]
      split
      · exact hr
      · split <;> exact hr
      · exact hr
      · exact hr
      · simp only [startReq]
        split
        · exact hr
        · simp [hr]
      · exact hr
    · exact hr
  | pub counts => exact hr
  | proj ch => exact hr
  | srcEnd => simp only [step]; split <;> exact hr
  | srcStart => simp only [step]; split <;> exact hr
  | lens n p => rcases lens_step_cases s n p with h | ⟨h, _⟩ | ⟨h, _, _⟩ <;> rw [h] <;> exact hr

/-- only publications touch the files -/
theorem step_files (s : St) (o : Op) (h : ∀ counts, o ≠ .pub counts) : (step s o).1.files = s.files := by
  cases o with
  | req q path l22 off l3 map => exact step_req_files s q path l22 off l3 map
  | pub counts => exact absurd rfl (h counts)
  | proj ch => rfl
  | srcEnd => simp only [step]; split <;> rfl
  | srcStart => simp only [step]; split <;> rfl
  | lens n p => rcases lens_step_cases s n p with h | ⟨h, _⟩ | ⟨h, _, _⟩ <;> rw [h]

/-- what a publication adds to file `k` -/
theorem stored_pub (s : St) (counts : List Nat) (k : FKey) :
    stored (step s (.pub counts)).1.files k = stored s.files k +
      match s.chans[k.ch]? with
      | some c => contrib c k.ch (counts[k.ch]?.getD 0) k
      | none => 0 := by
  show stored (pubAll 0 s.chans counts s.files).2 k = _
  rw [stored_pubAll, contribAll_at s.chans 0 k.ch counts k (by omega)]

/-- a channel that does not exist: nothing is emitted, nothing is stored -/
theorem stepOK_none (k : FKey) (s : St) (c : C05.Ctl) (o : Op) (hr : Rel k s c)
    (hn : s.chans[k.ch]? = none) : StepOK k s c o := by
  unfold StepOK
  rw [emitAt_none hn]
  refine ⟨⟨?_, fun hp => step_dirs s o _ (hr.dirs hp)⟩, ?_⟩
  · intro cc h
    have h1 : s.chans.length ≤ k.ch := List.getElem?_eq_none_iff.mp hn
    have h2 : (step s o).1.chans[k.ch]? = none := List.getElem?_eq_none_iff.mpr (by rw [step_len]; exact h1)
    rw [h2] at h
    cases h
  · show _ = _ + 0
    cases o with
    | pub counts => rw [stored_pub, hn]
    | req q path l22 off l3 map => rw [step_files _ _ (by intro _ h; cases h)]; rfl
    | proj ch => rw [step_files _ _ (by intro _ h; cases h)]; rfl
    | srcEnd => rw [step_files _ _ (by intro _ h; cases h)]; rfl
    | srcStart => rw [step_files _ _ (by intro _ h; cases h)]; rfl
    | lens n p => rw [step_files _ _ (by intro _ h; cases h)]; rfl

/-! #### the channel exists: one lemma per kind of step -/

theorem ctl_unpause (c : C05.Ctl) : ctlRun c ([.unpause] : List WOp) = { c with paused := false } := rfl
theorem ctl_stop (c : C05.Ctl) :
    ctlRun c ([.stop] : List WOp) = if c.phase = .active then { c with phase := .stopped } else c := rfl
theorem ctl_start (c : C05.Ctl) (a b : Bool) :
    ctlRun c ([.start a b] : List WOp) =
      if c.phase = .idle then { phase := .active, sel := a, paused := if b then false else c.paused } else c := rfl

/-- PAUSE / UNPAUSE -/
theorem stepOK_setPause (k : FKey) (s : St) (c : C05.Ctl) (o : Op) (p : Bool) (cc : Chan) (hr : Rel k s c)
    (hcc : s.chans[k.ch]? = some cc)
    (hs : (step s o).1 = { s with chans := s.chans.map (·.setPause p), ws := { s.ws with paused := p } })
    (he : emit k s cc o = [if p then .pause else .unpause]) : StepOK k s c o := by
  unfold StepOK
  obtain ⟨h1, h2⟩ := hr.chan cc hcc
  rw [emitAt_some hcc, he, hs]
  have hc : ctlRun c ([if p then .pause else .unpause] : List WOp) = { c with paused := p } := by
    cases p <;> rfl
  refine ⟨?_, by cases p <;> rfl⟩
  rw [hc]
  refine rel_of_chan (cn := cc.setPause p) (by simp [List.getElem?_map, hcc]) rfl ?_ hr.dirs
  rw [writer_setPause]
  exact h2

/-- STOP, and the source ending while writing is active -/
theorem stepOK_removeAll (k : FKey) (s s' : St) (c : C05.Ctl) (o : Op) (cc : Chan) (hr : Rel k s c)
    (hcc : s.chans[k.ch]? = some cc)
    (hs : (step s o).1 = s') (hch : s'.chans = s.chans.map (·.removeAll)) (hd : s'.dirs = s.dirs)
    (hf : s'.files = s.files)
    (he : emit k s cc o = [.stop]) : StepOK k s c o := by
  unfold StepOK
  obtain ⟨h1, h2⟩ := hr.chan cc hcc
  rw [emitAt_some hcc, he, hs, hf, ctl_stop]
  refine ⟨?_, rfl⟩
  refine rel_of_chan (cn := cc.removeAll) (by rw [hch]; simp [List.getElem?_map, hcc]) ?_ ?_ ?_
  · split <;> exact h1
  · rw [writer_removeAll]
    constructor
    · intro h; cases h
    · intro ⟨h, _⟩
      split at h
      · cases h
      · rename_i hne; exact absurd h hne
  · intro hp
    rw [hd]
    apply hr.dirs
    split at hp
    · rename_i ha; rw [ha]; intro h; cases h
    · exact hp

/-- channels, directories and files stay as they are, nothing is emitted -/
theorem stepOK_same (k : FKey) (s s' : St) (c : C05.Ctl) (o : Op) (hr : Rel k s c)
    (hs : (step s o).1 = s') (hch : s'.chans = s.chans) (hd : s'.dirs = s.dirs) (hf : s'.files = s.files)
    (he : emitAt k s o = []) : StepOK k s c o := by
  unfold StepOK
  rw [hs, he, hf]
  exact ⟨⟨by rw [hch]; exact hr.chan, by rw [hd]; exact hr.dirs⟩, rfl⟩

/-- an accepted START: no channel has a writer, the run directory is new -/
theorem stepOK_start (k : FKey) (s s' : St) (c : C05.Ctl) (o : Op) (cc : Chan) (hr : Rel k s c)
    (hcc : s.chans[k.ch]? = some cc) (run : Run) (l22 off l3 : Bool)
    (hnw : ∀ c ∈ s.chans, c.hasWriter = false) (hfresh : run ∉ s.dirs)
    (hs : (step s o).1 = s') (hch : s'.chans = s.chans.map (·.start run l22 off l3))
    (hd : s'.dirs = run :: s.dirs) (hf : s'.files = s.files)
    (he : emit k s cc o =
      if run = k.run then [.start (setterCalled cc l22 off l3 k.ft) (anySetter cc l22 off l3)]
      else if anySetter cc l22 off l3 then [.unpause] else []) : StepOK k s c o := by
  unfold StepOK
  obtain ⟨h1, h2⟩ := hr.chan cc hcc
  have hcw : cc.hasWriter = false := hnw cc (List.mem_of_getElem? hcc)
  have hwn : cc.writer k.ft = none := writer_none cc hcw k.ft
  have hnot : ¬ (c.phase = .active ∧ c.sel = true) := by
    intro h
    have := h2.mpr h
    rw [hwn] at this
    cases this
  have hcn : s'.chans[k.ch]? = some (cc.start run l22 off l3) := by
    rw [hch]; simp [List.getElem?_map, hcc]
  rw [emitAt_some hcc, he, hs, hf]
  by_cases hrun : run = k.run
  · subst hrun
    have hidle : c.phase = .idle := Classical.byContradiction fun h => hfresh (hr.dirs h)
    rw [if_pos rfl, ctl_start, if_pos hidle]
    refine ⟨rel_of_chan hcn ?_ ?_ ?_, rfl⟩
    · rw [start_paused, h1]
    · rw [start_writer cc hcw]
      cases setterCalled cc l22 off l3 k.ft <;> simp
    · intro _; rw [hd]; simp
  · rw [if_neg hrun]
    have hw' : ¬ ((cc.start run l22 off l3).writer k.ft = some k.run) := by
      rw [start_writer cc hcw]
      split
      · intro h; exact hrun (Option.some.inj h)
      · intro h; cases h
    cases ha : anySetter cc l22 off l3 with
    | true =>
      rw [if_pos rfl, ctl_unpause]
      refine ⟨rel_of_chan hcn ?_ ?_ ?_, rfl⟩
      · rw [start_paused, ha]; rfl
      · exact ⟨fun h => absurd h hw', fun h => absurd h hnot⟩
      · intro hp; rw [hd]; exact List.mem_cons_of_mem _ (hr.dirs hp)
    | false =>
      rw [if_neg (by simp)]
      refine ⟨rel_of_chan (c' := c) hcn ?_ ?_ ?_, rfl⟩
      · rw [start_paused, ha]; exact h1
      · exact ⟨fun h => absurd h hw', fun h => absurd h hnot⟩
      · intro hp; rw [hd]; exact List.mem_cons_of_mem _ (hr.dirs hp)

/-- an accepted source start: fresh publishers (not paused, no writers — and, by C06's invariant, the
publishers of a source that is down have no writers either) -/
theorem stepOK_srcStart (k : FKey) (s : St) (c : C05.Ctl) (cc : Chan) (hg : Good s) (hr : Rel k s c)
    (hcc : s.chans[k.ch]? = some cc) (hrun : s.running = false) : StepOK k s c .srcStart := by
  unfold StepOK
  obtain ⟨h1, h2⟩ := hr.chan cc hcc
  have ha : s.ws.active = false := hg.1.2 hrun
  have hcw : cc.hasWriter = false := by
    obtain ⟨g1, g2, g3, _⟩ := hg.2 cc (List.mem_of_getElem? hcc)
    simp [Chan.hasWriter, g1, g2, g3, ha]
  have hwn : cc.writer k.ft = none := writer_none cc hcw k.ft
  have hnot : ¬ (c.phase = .active ∧ c.sel = true) := by
    intro h
    have := h2.mpr h
    rw [hwn] at this
    cases this
  have hs : (step s .srcStart).1 = { s with running := true, chans := s.chans.map fun _ => Chan.new false } := by
    simp [step, hrun]
  have he : emit k s cc .srcStart = [.unpause] := by simp [emit, hrun]
  rw [emitAt_some hcc, he, hs, ctl_unpause]
  refine ⟨rel_of_chan (cn := Chan.new false) (by simp [List.getElem?_map, hcc]) rfl ?_ hr.dirs, rfl⟩
  have hnone : (Chan.new false).writer k.ft = none := by cases k.ft <;> rfl
  rw [hnone]
  exact ⟨fun h => (by cases h), fun h => absurd h hnot⟩

/-- a projector load -/
theorem stepOK_proj (k : FKey) (s : St) (c : C05.Ctl) (ch : Nat) (hr : Rel k s c) : StepOK k s c (.proj ch) := by
  unfold StepOK
  have he : emitAt k s (.proj ch) = [] := by
    unfold emitAt; split <;> rfl
  rw [he]
  refine ⟨⟨?_, hr.dirs⟩, rfl⟩
  intro cc' h
  obtain ⟨cc, hcc, e1, e2⟩ := setProj_get s.chans ch k.ch cc' h
  rw [e1, e2]
  exact hr.chan cc hcc

/-- an accepted record-length change drops the projectors: no writer, no pause flag is touched -/
theorem stepOK_lensChanged (k : FKey) (s : St) (c : C05.Ctl) (n p : Int) (hr : Rel k s c)
    (hs : step s (.lens n p) =
      ({ s with lens := (n, p), chans := s.chans.map fun c => { c with proj := false } }, false)) :
    StepOK k s c (.lens n p) := by
  unfold StepOK
  have he : emitAt k s (.lens n p) = [] := by
    unfold emitAt; split <;> rfl
  rw [he, hs]
  refine ⟨⟨?_, hr.dirs⟩, rfl⟩
  intro cc' h
  obtain ⟨cc, hcc, rfl⟩ := map_get (f := fun c : Chan => { c with proj := false }) (cs := s.chans) h
  exact hr.chan cc hcc

/-- a publication: the file gains the batch exactly when C05's writer is writing -/
theorem stepOK_pub (k : FKey) (s : St) (c : C05.Ctl) (counts : List Nat) (hr : Rel k s c) :
    StepOK k s c (.pub counts) := by
  unfold StepOK
  constructor
  · have hc : ctlRun c (emitAt k s (.pub counts)) = c := by
      unfold emitAt; split <;> rfl
    rw [hc]
    refine ⟨?_, hr.dirs⟩
    intro cc' h
    obtain ⟨cc, hcc, e1, e2⟩ := pubAll_get s.chans 0 counts s.files k.ch cc' h
    rw [e1, e2]
    exact hr.chan cc hcc
  · rw [stored_pub]
    cases hcc : s.chans[k.ch]? with
    | none => rw [emitAt_none hcc]; rfl
    | some cc =>
      obtain ⟨h1, h2⟩ := hr.chan cc hcc
      rw [emitAt_some hcc]
      simp only [emit, written, List.length_replicate, Nat.add_zero]
      congr 1
      unfold contrib
      by_cases hw : C05.writing c = true
      · obtain ⟨a, b, d⟩ := (writing_iff c).mp hw
        rw [if_pos hw, if_pos ⟨by rw [← h1]; exact d, h2.mpr ⟨a, b⟩, rfl⟩]
      · rw [if_neg hw, if_neg]
        intro ⟨a, b, _⟩
        apply hw
        obtain ⟨p, q⟩ := h2.mp b
        exact (writing_iff c).mpr ⟨p, q, by rw [h1]; exact a⟩

/-- **one step of the simulation**, any operation, any state satisfying C06's invariant -/
theorem rel_step (k : FKey) (s : St) (c : C05.Ctl) (o : Op) (hg : Good s) (hr : Rel k s c) : StepOK k s c o := by
  cases hcc : s.chans[k.ch]? with
  | none => exact stepOK_none k s c o hr hcc
  | some cc =>
    cases o with
    | pub counts => exact stepOK_pub k s c counts hr
    | proj ch => exact stepOK_proj k s c ch hr
    | lens n p =>
      rcases lens_step_cases s n p with h | ⟨h, _⟩ | ⟨h, _, _⟩
      · exact stepOK_same k s s c _ hr (by rw [h]) rfl rfl rfl (by rw [emitAt_some hcc]; rfl)
      · exact stepOK_same k s s c _ hr (by rw [h]) rfl rfl rfl (by rw [emitAt_some hcc]; rfl)
      · exact stepOK_lensChanged k s c n p hr h
    | srcStart =>
      cases hrun : s.running with
      | false => exact stepOK_srcStart k s c cc hg hr hcc hrun
      | true =>
        exact stepOK_same k s s c _ hr (by simp [step, hrun]) rfl rfl rfl
          (by rw [emitAt_some hcc]; simp [emit, hrun])
    | srcEnd =>
      by_cases hra : (s.running && s.ws.active) = true
      · exact stepOK_removeAll k s
            { s with running := false, chans := s.chans.map (·.removeAll), ws := s.ws.stop } c _ cc hr hcc
            (by simp only [step, hra, if_true]) rfl rfl rfl (by simp only [emit, hra, if_true])
      · exact stepOK_same k s { s with running := false } c _ hr (by simp [step, hra]) rfl rfl rfl
          (by rw [emitAt_some hcc]; simp [emit, hra])
    | req q path l22 off l3 map =>
      cases hrun : s.running with
      | false =>
        exact stepOK_same k s s c _ hr (by rw [step_req_down s q path l22 off l3 map hrun]) rfl rfl rfl
          (by rw [emitAt_some hcc]; simp [emit, hrun])
      | true =>
        have hst := step_req_run s q path l22 off l3 map hrun
        cases hk : classify q with
        | pause =>
          exact stepOK_setPause k s c _ true cc hr hcc (by rw [hst]; simp [reqStep, hk])
            (by simp [emit, emitReq, hrun, hk])
        | unpause lbl =>
          by_cases hl : labelRefused s.ws.active lbl = true
          · exact stepOK_same k s s c _ hr (by rw [hst]; simp [reqStep, hk, hl]) rfl rfl rfl
              (by rw [emitAt_some hcc]; simp [emit, emitReq, hrun, hk, hl])
          · exact stepOK_setPause k s c _ false cc hr hcc (by rw [hst]; simp [reqStep, hk, hl])
              (by simp [emit, emitReq, hrun, hk, hl])
        | unpauseBad =>
          exact stepOK_same k s s c _ hr (by rw [hst]; simp [reqStep, hk]) rfl rfl rfl
            (by rw [emitAt_some hcc]; simp [emit, emitReq, hrun, hk])
        | invalid =>
          exact stepOK_same k s s c _ hr (by rw [hst]; simp [reqStep, hk]) rfl rfl rfl
            (by rw [emitAt_some hcc]; simp [emit, emitReq, hrun, hk])
        | stop =>
          exact stepOK_removeAll k s { s with chans := s.chans.map (·.removeAll), ws := s.ws.stop } c _ cc hr hcc
            (by rw [hst]; simp only [reqStep, hk]) rfl rfl rfl
            (by simp [emit, emitReq, hrun, hk])
        | start =>
          cases ht : startTarget s path l22 off l3 map with
          | none =>
            exact stepOK_same k s s c _ hr (by rw [hst]; simp [reqStep, hk, startReq, ht]) rfl rfl rfl
              (by rw [emitAt_some hcc]; simp [emit, emitReq, hrun, hk, ht])
          | some run =>
            obtain ⟨_, hnw, _, hmk, _, _⟩ := startTarget_some s path l22 off l3 map run ht
            have hfresh := (firstUnused_spec s.dirs run.pid 10000 0 run.num hmk).1
            exact stepOK_start k s
              { s with chans := s.chans.map (·.start run l22 off l3), dirs := run :: s.dirs, startLens := s.lens,
                       ws := { active := true, paused := false, base := some run.pid, pat := some run, l22, off, l3 } }
              c _ cc hr hcc run l22 off l3 hnw hfresh
              (by rw [hst]; simp only [reqStep, hk, startReq, ht]) rfl rfl rfl
              (by simp [emit, emitReq, hrun, hk, ht])

/-! ### all histories -/

theorem rel_init (k : FKey) (proj : List Bool) (pre : List Run) (nums : List Int) (blocked : List Nat) (lens : Int × Int) :
    Rel k (St.init proj pre nums blocked lens) {} := by
  refine ⟨?_, fun h => absurd rfl h⟩
  intro cc h
  obtain ⟨p, _, rfl⟩ := map_get (f := Chan.new) (cs := proj) h
  have hnone : (Chan.new p).writer k.ft = none := by cases k.ft <;> rfl
  rw [hnone]
  exact ⟨rfl, fun h => (by cases h), fun h => (by cases h.1)⟩

/-- the simulation over a whole history, from any state satisfying C06's invariant -/
theorem sim_run (k : FKey) : ∀ (ops : List Op) (s : St) (c : C05.Ctl), Good s → Rel k s c →
    Rel k (runOps s ops) (ctlRun c (project k s ops)) ∧
      stored (runOps s ops).files k = stored s.files k + written c (project k s ops)
  | [], _, _, _, hr => ⟨hr, rfl⟩
  | o :: os, s, c, hg, hr => by
    obtain ⟨h1, h2⟩ := rel_step k s c o hg hr
    obtain ⟨i1, i2⟩ := sim_run k os (step s o).1 _ (good_step s o hg) h1
    simp only [project, runOps, ctlRun_append, written_append]
    exact ⟨i1, by rw [i2, h2]; omega⟩

/-- **writeControl_simulates.**  For every configuration, every C06 history `ops`, every file key `k` and
every C05 writer history `wops` (any record type, any format) whose shape is the projection of `ops`:
after the history, the C05 control state and channel `k.ch` of the C06 state agree —
same pause flag; the writer is set and active ⇔ the channel holds a writer of type `k.ft` into `k.run`;
and C05 is `writing` ⇔ the state C06 REPORTS is active, not paused, with `k.ft` enabled, pattern `k.run`,
and (OFF) the channel was eligible at START.  (Every prefix of a history is a history and
`project_append` says its projection is the corresponding prefix: the agreement holds throughout.) -/
theorem writeControl_simulates {ρ} (F : C05.Fmt ρ) (proj : List Bool) (pre : List Run) (nums : List Int)
    (blocked : List Nat) (lens : Int × Int) (ops : List Op) (k : FKey) (wops : List (C05.Op ρ))
    (hw : shapes wops = project k (St.init proj pre nums blocked lens) ops) :
    let s := runOps (St.init proj pre nums blocked lens) ops
    let c := (C05.run F {} wops).ctl
    ∀ cc, s.chans[k.ch]? = some cc →
      c.paused = cc.paused ∧
      ((c.phase = .active ∧ c.sel = true) ↔ cc.writer k.ft = some k.run) ∧
      (C05.writing c = true ↔
        (s.ws.active = true ∧ s.ws.paused = false ∧ s.ws.enabled k.ft = true ∧ s.ws.pat = some k.run ∧
          (k.ft = .off → cc.elig = true))) := by
  intro s c cc hcc
  have hg : Good s := good_runOps ops _ (good_init proj pre nums blocked lens)
  have hsim := (sim_run k ops _ {} (good_init proj pre nums blocked lens) (rel_init k proj pre nums blocked lens)).1
  have hc : c = ctlRun {} (project k (St.init proj pre nums blocked lens) ops) := by
    show (C05.run F {} wops).ctl = _
    rw [run_ctl, ← hw, ctlRun_shapes]
  rw [← hc] at hsim
  obtain ⟨h1, h2⟩ := hsim.chan cc hcc
  refine ⟨h1, h2.symm, ?_⟩
  rw [← agree_of_good s hg cc (List.mem_of_getElem? hcc) k.ft k.run, writing_iff, ← h1]
  constructor
  · intro ⟨a, b, d⟩; exact ⟨d, h2.mpr ⟨a, b⟩⟩
  · intro ⟨d, e⟩; obtain ⟨a, b⟩ := h2.mp e; exact ⟨a, b, d⟩

/-- **stored_eq_published.**  The counter C06 keeps for file `k` is the number of records C05 counts as
published while writing, for every history and every writer history of that shape. -/
theorem stored_eq_published {ρ} (F : C05.Fmt ρ) (proj : List Bool) (pre : List Run) (nums : List Int)
    (blocked : List Nat) (lens : Int × Int) (ops : List Op) (k : FKey) (wops : List (C05.Op ρ))
    (hw : shapes wops = project k (St.init proj pre nums blocked lens) ops) :
    stored (runOps (St.init proj pre nums blocked lens) ops).files k =
      (Compose.publishedWhileWriting F {} wops).length := by
  have h := (sim_run k ops _ {} (good_init proj pre nums blocked lens) (rel_init k proj pre nums blocked lens)).2
  rw [h, published_length, ← written_shapes wops, hw]
  show 0 + _ = _
  omega

/-- **stored_eq_accepted.**  When the writer's filter passes every published record (LJH3 always; LJH 2.2
for records of the configured length, `Compose.runOps_chanRecs_len`; OFF for one coefficient per basis),
C06's counter for file `k` is the number of records in the list `accepted` whose encodings, after the
header, ARE the file (`C05_file_is_header_plus_records`, `C05_disk_is_prefix`). -/
theorem stored_eq_accepted {ρ} (F : C05.Fmt ρ) (proj : List Bool) (pre : List Run) (nums : List Int)
    (blocked : List Nat) (lens : Int × Int) (ops : List Op) (k : FKey) (wops : List (C05.Op ρ))
    (hw : shapes wops = project k (St.init proj pre nums blocked lens) ops)
    (hacc : ∀ b, C05.Op.publish b ∈ wops → ∀ r ∈ b, F.accept r = true) :
    stored (runOps (St.init proj pre nums blocked lens) ops).files k = (C05.accepted F {} wops).length := by
  rw [Compose.accepted_eq_published F wops {} hacc]
  exact stored_eq_published F proj pre nums blocked lens ops k wops hw

/-- the two models side by side: once the writer is stopped, the file is the header followed by the
encodings of exactly as many records as C06's counter says -/
theorem file_holds_the_counted_records {ρ} (F : C05.Fmt ρ) (proj : List Bool) (pre : List Run)
    (nums : List Int) (blocked : List Nat) (lens : Int × Int) (ops : List Op) (k : FKey) (wops : List (C05.Op ρ))
    (hw : shapes wops = project k (St.init proj pre nums blocked lens) ops)
    (hacc : ∀ b, C05.Op.publish b ∈ wops → ∀ r ∈ b, F.accept r = true)
    (hstop : (C05.run F {} wops).ctl.phase = .stopped) :
    ∃ recs : List ρ, recs.length = stored (runOps (St.init proj pre nums blocked lens) ops).files k ∧
      C05.fileOf (C05.run F {} wops) =
        if C05.touched {} wops then some (F.header ++ recs.flatMap F.enc) else none :=
  ⟨C05.accepted F {} wops, (stored_eq_accepted F proj pre nums blocked lens ops k wops hw hacc).symm,
    C05.C05_file_is_header_plus_records F wops hstop⟩

/-! ### the hypothesis `shapes wops = project …` can always be met -/

theorem shapes_append {ρ} : ∀ (a b : List (C05.Op ρ)), shapes (a ++ b) = shapes a ++ shapes b
  | [], _ => rfl
  | x :: a, b => by
    have ih := shapes_append a b
    cases x <;> simp [shapes, ih]

theorem shapes_emitAt (k : FKey) (s : St) (o : Op) : shapes (emitAt k s o) = emitAt k s o := by
  unfold emitAt
  split
  · cases o with
    | pub counts => simp [emit, shapes]
    | proj ch => rfl
    | lens n p => rfl
    | srcEnd => simp only [emit]; split <;> rfl
    | srcStart => simp only [emit]; split <;> rfl
    | req q path l22 off l3 map =>
      simp only [emit]
      split
      · simp only [emitReq]
        split
        · rfl
        · split <;> rfl
        · rfl
        · rfl
        · split
          · rfl
          · split
            · rfl
            · split <;> rfl
        · rfl
      · rfl
  · rfl

/-- the projection is itself a C05 history (over records without content) of the right shape -/
theorem shapes_project (k : FKey) : ∀ (ops : List Op) (s : St), shapes (project k s ops) = project k s ops
  | [], _ => rfl
  | o :: os, s => by
    simp only [project, shapes_append, shapes_emitAt, shapes_project k os]

/-! ### a concrete history -/

/-- PAUSE before START; START (LJH 2.2 + LJH3) into run 0 of base 0; 3 records; PAUSE; 4 records (withheld);
UNPAUSE; 5 records; a second START (rejected); STOP; 7 records (no writer).  Both sides count 8 records in
`p0/run0/chan0.ljh`, and the projection is the expected writer history. -/
def exOps : List Op :=
  [.req sPAUSE none false false false none, .req sSTART (some 0) true false true none, .pub [3],
   .req sPAUSE none false false false none, .pub [4], .req sUNPAUSE none false false false none, .pub [5],
   .req sSTART (some 0) true false false none, .req sSTOP none false false false none, .pub [7]]

def exKey : FKey := ⟨⟨0, 0⟩, 0, .ljh22⟩

example : project exKey (St.init [false] [] [1]) exOps =
    [.pause, .start true true, .publish [(), (), ()], .pause, .publish [(), (), (), ()], .unpause,
     .publish [(), (), (), (), ()], .stop, .publish [(), (), (), (), (), (), ()]] := rfl

example : stored (runOps (St.init [false] [] [1]) exOps).files exKey = 8 ∧
    written {} (project exKey (St.init [false] [] [1]) exOps) = 8 := by
  decide

/-- a writer history over real records (numbers), with flushes, of that shape -/
def exWops : List (C05.Op Nat) :=
  [.pause, .start true true, .publish [1, 2, 3], .flush, .pause, .publish [4, 5, 6, 7], .unpause, .flush,
   .publish [8, 9, 10, 11, 12], .stop, .publish [13, 14, 15, 16, 17, 18, 19]]

def exFmt : C05.Fmt Nat := { header := [0], accept := fun _ => true, enc := fun r => [r], stopAtReject := false }

example : shapes exWops = project exKey (St.init [false] [] [1]) exOps := rfl

/-- the file holds the 8 records C06 counted: those published while active and not paused -/
example : C05.accepted exFmt {} exWops = [1, 2, 3, 8, 9, 10, 11, 12] ∧
    C05.fileOf (C05.run exFmt {} exWops) = some [0, 1, 2, 3, 8, 9, 10, 11, 12] ∧
    (C05.run exFmt {} exWops).ctl.phase = .stopped := by decide

/-- OFF only, PAUSE before START, channel 0 with projectors and channel 1 without: channel 0's setter clears
the pause flag (`start true true`) and its 3 records are stored; channel 1 gets no setter call
(`start false false`), keeps the flag, has no writer: nothing stored.  After STOP, PAUSE and a second START
(LJH 2.2, run 1): for the file of run 1 on channel 1 the first START emits nothing (it is for another run and
no setter was called on that channel), the second one is its `start true true`; for the files of run 0 the
second START is an `unpause` (SetLJH22 clears the flag). -/
def exOps2 : List Op :=
  [.req sPAUSE none false false false none, .req sSTART (some 0) false true false none, .pub [3, 5],
   .req sSTOP none false false false none, .req sSTART none true false false none, .pub [1, 2]]

example :
    project ⟨⟨0, 0⟩, 0, .off⟩ (St.init [true, false] [] [1, 2]) exOps2 =
      [.pause, .start true true, .publish [(), (), ()], .stop, .unpause, .publish [()]] ∧
    project ⟨⟨0, 0⟩, 1, .off⟩ (St.init [true, false] [] [1, 2]) exOps2 =
      [.pause, .start false false, .publish [(), (), (), (), ()], .stop, .unpause, .publish [(), ()]] ∧
    project ⟨⟨0, 1⟩, 1, .ljh22⟩ (St.init [true, false] [] [1, 2]) exOps2 =
      [.pause, .publish [(), (), (), (), ()], .stop, .start true true, .publish [(), ()]] :=
  ⟨rfl, rfl, rfl⟩

example :
    let s := runOps (St.init [true, false] [] [1, 2]) exOps2
    stored s.files ⟨⟨0, 0⟩, 0, .off⟩ = 3 ∧ written {} (project ⟨⟨0, 0⟩, 0, .off⟩ (St.init [true, false] [] [1, 2]) exOps2) = 3 ∧
    stored s.files ⟨⟨0, 0⟩, 1, .off⟩ = 0 ∧ written {} (project ⟨⟨0, 0⟩, 1, .off⟩ (St.init [true, false] [] [1, 2]) exOps2) = 0 ∧
    stored s.files ⟨⟨0, 1⟩, 1, .ljh22⟩ = 2 ∧ written {} (project ⟨⟨0, 1⟩, 1, .ljh22⟩ (St.init [true, false] [] [1, 2]) exOps2) = 2 := by
  decide

end DastardV.ComposeWC
