/-
From record SPECIFICATIONS to RECORDS: the real per-channel block step in edge-multi mode
(`stepFull` = append → `triggerData` → trim, with any time stamps) emits exactly the cuts of the
specifications the spec-level step `stepEmt` computes, and each is the excerpt of the delivered stream
its specification names.  This carries `C08_block_independent` (specifications) over to the records.
-/
import DastardV.Lemmas.EmtStep
import DastardV.Lemmas.Pipe4
namespace DastardV.Trig

/-- one block of the real per-channel pipeline: append, `TriggerData` (search + record cuts), trim -/
def stepFull (zt : ZT) (c : Chan) (seg : List Nat) (first t0 per : Int) (sg : Bool) : Option (Chan × List Rec) :=
  match triggerData (append c seg first t0 per sg) zt with
  | none => none
  | some (c', recs) => some (trim c', recs)

/-- consecutive blocks; block number `n` carries the time stamp and frame period `tp n` -/
def runFull (zt : ZT) (tp : Nat → Int × Int) (sg : Bool) : Nat → Chan → Int → List (List Nat) → Option (Chan × List Rec)
  | _, c, _, [] => some (c, [])
  | n, c, first, seg :: segs =>
    match stepFull zt c seg first (tp n).1 (tp n).2 sg with
    | none => none
    | some (c1, rs) =>
      match runFull zt tp sg (n + 1) c1 (first + seg.length) segs with
      | none => none
      | some (c2, rs2) => some (c2, rs ++ rs2)

/-- what the spec-level step reads of a channel -/
def EmtEq (c c' : Chan) : Prop := c'.buf = c.buf ∧ c'.first = c.first ∧ c'.emt = c.emt

theorem EmtEq.refl (c : Chan) : EmtEq c c := ⟨rfl, rfl, rfl⟩

theorem trim_emt_eq (c : Chan) : (trim c).emt = c.emt := by unfold trim; simp only; split <;> rfl
theorem trim_ts_eq (c : Chan) : (trim c).ts = c.ts := by unfold trim; simp only; split <;> rfl

theorem trim_emtEq {a b : Chan} (h : EmtEq a b) : EmtEq (trim a) (trim b) := by
  obtain ⟨hb, hf, he⟩ := h
  unfold trim
  simp only [hb, hf, he]
  split
  · exact ⟨hb, hf, he⟩
  · exact ⟨rfl, rfl, rfl⟩

/-- the spec-level step depends only on buffer, first frame and edge-multi state -/
theorem stepEmt_congr {c c' : Chan} (h : EmtEq c c') (zt : ZT) (seg : List Nat) (first per per' : Int)
    (sg sg' : Bool) {a : Chan} {sp : List Spec} (hs : stepEmt zt c seg first per sg = some (a, sp)) :
    ∃ a', stepEmt zt c' seg first per' sg' = some (a', sp) ∧ EmtEq a a' := by
  obtain ⟨hb, hf, he⟩ := h
  unfold stepEmt at hs ⊢
  simp only [append, hb, he] at hs ⊢
  split at hs
  · simp at hs
  rename_i emt' specs hsp
  simp only [Option.some.injEq, Prod.mk.injEq] at hs
  obtain ⟨ha, hsp'⟩ := hs
  refine ⟨_, by rw [hsp'], ?_⟩
  rw [← ha]
  exact trim_emtEq ⟨by simp [hb], rfl, rfl⟩

/-- the record a specification names -/
def specOf (r : Rec) : Spec := { frame := r.frame, npre := r.npre, nsamp := r.data.length }

/-- cutting specifications out of a buffer that represents the stream `G` gives records with exactly
those specifications, each the excerpt of `G` it names -/
theorem cutSpecs_specs {G : List Nat} {f0 : Int} {c : Chan} (hrep : Rep G f0 c) :
    ∀ {sps : List Spec} {rs : List Rec}, cutSpecs c sps = some rs →
      rs.map specOf = sps ∧ ∀ r ∈ rs, Excerpt G f0 r
  | [], rs, h => by
    simp [cutSpecs] at h; subst h; simp
  | sp :: sps, rs, h => by
    simp only [cutSpecs, bind, Option.bind_eq_some_iff, pure, Option.some.injEq] at h
    obtain ⟨r0, hr0, rs0, hrs0, rfl⟩ := h
    obtain ⟨ih1, ih2⟩ := cutSpecs_specs hrep hrs0
    obtain ⟨e1, e2, e3, _, _, e6⟩ := cut_exact hrep hr0
    refine ⟨?_, ?_⟩
    · simp only [List.map_cons, ih1]
      congr 1
      unfold specOf
      cases sp
      simp only [Spec.mk.injEq] at *
      exact ⟨by omega, e2, e3⟩
    · intro r hr
      rcases List.mem_cons.mp hr with rfl | hr
      · exact e6
      · exact ih2 r hr

/-- an excerpt of a stream is an excerpt of every extension of the stream -/
theorem Excerpt.extend {G : List Nat} {f0 : Int} {r : Rec} (h : Excerpt G f0 r) (more : List Nat) :
    Excerpt (G ++ more) f0 r := by
  obtain ⟨a, h1, h2, h3⟩ := h
  refine ⟨a, h1, by simp; omega, ?_⟩
  rw [h3, List.drop_append_of_le_length (by omega), List.take_append_of_le_length (by simp; omega)]
  simp

/-- one block in edge-multi mode: the real step emits the cuts of what the spec-level step computes -/
theorem stepFull_emt {zt : ZT} {c : Chan} {seg : List Nat} {first t0 per : Int} {sg : Bool} {c1 : Chan}
    {recs : List Rec} (hem : c.ts.edgeMulti = true)
    (h : stepFull zt c seg first t0 per sg = some (c1, recs)) :
    ∃ c1' sp, stepEmt zt c seg first per sg = some (c1', sp) ∧ EmtEq c1' c1 ∧ c1.ts = c.ts ∧
      c1.emt.nsamp = c.emt.nsamp ∧
      cutSpecs (append c seg first t0 per sg) sp = some recs := by
  unfold stepFull at h
  split at h
  · simp at h
  rename_i c2 recs' htd
  simp only [Option.some.injEq, Prod.mk.injEq] at h
  obtain ⟨hc1, hr⟩ := h
  subst hr
  unfold triggerData at htd
  have hem' : (append c seg first t0 per sg).ts.edgeMulti = true := hem
  simp only [hem', if_true] at htd
  split at htd
  · simp at htd
  rename_i emt' specs hsp
  split at htd
  · simp at htd
  rename_i rs hrs
  simp only [Option.some.injEq, Prod.mk.injEq] at htd
  obtain ⟨hc2, hrr⟩ := htd
  subst hrr
  have hns := Pipe.emtSpecs_nsamp hsp
  have c2_emt : c2.emt = emt' := by rw [← hc2]
  have c2_ts : c2.ts = c.ts := by rw [← hc2]; rfl
  refine ⟨trim { append c seg first 0 per sg with emt := emt' }, specs, ?_, ?_, ?_, ?_, hrs⟩
  · unfold stepEmt
    simp only
    have : emtSpecs (append c seg first 0 per sg).buf (append c seg first 0 per sg).first zt
        (append c seg first 0 per sg).emt = some (emt', specs) := hsp
    rw [this]
  · rw [← hc1]
    apply trim_emtEq
    rw [← hc2]
    exact ⟨rfl, rfl, rfl⟩
  · rw [← hc1, trim_ts_eq, c2_ts]
  · rw [← hc1, trim_emt_eq, c2_emt, hns]
    rfl

/-- the buffer represents the delivered stream, or nothing has been delivered yet -/
def RepOrFresh (G : List Nat) (f0 : Int) (c : Chan) : Prop := (c.buf = [] ∧ G = []) ∨ Rep G f0 c

/-- any number of blocks in edge-multi mode: the records are the cuts of the spec-level run's
specifications, and each is the excerpt of the delivered stream it names -/
theorem runFull_specs (zt : ZT) (tp : Nat → Int × Int) (per : Int) (sg sg' : Bool) (f0 : Int) :
    ∀ (segs : List (List Nat)) (n : Nat) (c c0 : Chan) (G : List Nat) (c' : Chan) (recs : List Rec),
      c.ts.edgeMulti = true → 0 ≤ c.emt.nsamp → EmtEq c0 c → RepOrFresh G f0 c →
      runFull zt tp sg n c (f0 + G.length) segs = some (c', recs) →
      ∃ c0' sp, runEmt zt per sg' c0 (f0 + G.length) segs = some (c0', sp) ∧ recs.map specOf = sp ∧
        ∀ r ∈ recs, Excerpt (G ++ segs.flatten) f0 r
  | [], n, c, c0, G, c', recs, _, _, _, _, h => by
    simp only [runFull, Option.some.injEq, Prod.mk.injEq] at h
    obtain ⟨_, rfl⟩ := h
    exact ⟨c0, [], rfl, rfl, by simp⟩
  | seg :: segs, n, c, c0, G, c', recs, hem, hns, heq, hrep, h => by
    unfold runFull at h
    split at h
    · simp at h
    rename_i c1 rs hstep
    split at h
    · simp at h
    rename_i c2 rs2 hrun
    simp only [Option.some.injEq, Prod.mk.injEq] at h
    obtain ⟨_, rfl⟩ := h
    obtain ⟨c1', sp, hse, heq1, hts1, hns1, hcut⟩ := stepFull_emt hem hstep
    -- the appended channel represents G ++ seg
    have hrepA : Rep (G ++ seg) f0 (append c seg (f0 + G.length) (tp n).1 (tp n).2 sg) := by
      rcases hrep with ⟨hb, hG⟩ | hrep
      · subst hG
        have := append_rep_first hb seg (f0 + ([] : List Nat).length) (tp n).1 (tp n).2 sg
        simpa using this
      · exact append_rep hrep seg _ _ _ _ rfl
    obtain ⟨hsp1, hex1⟩ := cutSpecs_specs hrepA hcut
    -- the spec-level step from c0
    obtain ⟨a0, hs0, heq0⟩ := stepEmt_congr (c := c) (c' := c0) ⟨heq.1.symm, heq.2.1.symm, heq.2.2.symm⟩ zt seg
      (f0 + G.length) (tp n).2 per sg sg' hse
    have heq01 : EmtEq a0 c1 := ⟨heq1.1.trans heq0.1.symm, heq1.2.1.trans heq0.2.1.symm, heq1.2.2.trans heq0.2.2.symm⟩
    -- the trimmed channel still represents G ++ seg
    have hrep1 : Rep (G ++ seg) f0 c1 := by
      unfold stepFull at hstep
      split at hstep
      · simp at hstep
      rename_i cc rr htd
      simp only [Option.some.injEq, Prod.mk.injEq] at hstep
      obtain ⟨hc1, _⟩ := hstep
      have hss := (triggerData_recs htd).1
      have hrepcc : Rep (G ++ seg) f0 cc := by
        obtain ⟨k, hk, hb, hf⟩ := hrepA
        exact ⟨k, hk, by rw [hss.1, hb], by rw [hss.2.1, hf]⟩
      rw [← hc1]
      have hccn : 0 ≤ cc.emt.nsamp := by
        rw [← trim_emt_eq cc, hc1, hns1]; exact hns
      exact trim_rep hrepcc hccn
    have hlen : f0 + (G.length : Int) + (seg.length : Int) = f0 + ((G ++ seg).length : Int) := by simp; omega
    rw [hlen] at hrun
    obtain ⟨c0', sp2, hr0, hsp2, hex2⟩ := runFull_specs zt tp per sg sg' f0 segs (n + 1) c1 a0 (G ++ seg) c2 rs2
      (by rw [hts1]; exact hem) (by rw [hns1]; exact hns) heq01 (Or.inr hrep1) hrun
    refine ⟨c0', sp ++ sp2, ?_, by simp [hsp1, hsp2], ?_⟩
    · unfold runEmt
      rw [hs0]
      simp only
      rw [hlen, hr0]
    · intro r hr
      rcases List.mem_append.mp hr with hr | hr
      · have := (hex1 r hr).extend segs.flatten
        simpa [List.append_assoc] using this
      · have := hex2 r hr
        simpa [List.append_assoc] using this

/-- what a record carries besides its time stamp -/
def coreOf (r : Rec) : Int × Int × List Nat := (r.frame, r.npre, r.data)

/-- two record lists with the same specifications, all excerpts of the same stream, are the same
records (frame, pre-trigger length, samples) -/
theorem cores_eq_of_specs {G : List Nat} {f0 : Int} : ∀ {r1 r2 : List Rec},
    r1.map specOf = r2.map specOf → (∀ r ∈ r1, Excerpt G f0 r) → (∀ r ∈ r2, Excerpt G f0 r) →
    r1.map coreOf = r2.map coreOf
  | [], [], _, _, _ => rfl
  | [], _ :: _, h, _, _ => by simp at h
  | _ :: _, [], h, _, _ => by simp at h
  | a :: as, b :: bs, h, h1, h2 => by
    simp only [List.map_cons, List.cons.injEq] at h
    obtain ⟨hab, hrest⟩ := h
    have ih := cores_eq_of_specs hrest (fun r hr => h1 r (List.mem_cons_of_mem _ hr))
      (fun r hr => h2 r (List.mem_cons_of_mem _ hr))
    simp only [List.map_cons, ih]
    congr 1
    unfold specOf at hab
    simp only [Spec.mk.injEq] at hab
    obtain ⟨hf, hp, hl⟩ := hab
    obtain ⟨x, hx1, _, hx3⟩ := h1 a (by simp)
    obtain ⟨y, hy1, _, hy3⟩ := h2 b (by simp)
    have hxy : x = y := by omega
    have hl' : a.data.length = b.data.length := by omega
    unfold coreOf
    rw [hx3, hy3, hxy, hl', hf, hp]

end DastardV.Trig
