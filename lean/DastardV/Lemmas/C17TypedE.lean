/-
C17 — the acquire events (recv, recvC, lock, Wait, start) and `Add` of `typed_interleavings_owned`.
-/
import DastardV.Lemmas.C17TypedD

namespace DastardV.C17

theorem step_recv {S : System} {pre : Trace} {o : OSt} {f f' : FSt} {t : Tid} {c : Obj} {H H' : List Tok}
    (g : GoodT S pre o f) (cx : Ctx S pre t (.recv c) H H') (hF : stepF f (t, .recv c) = some f') :
    ∃ o', stepO S.sp o (t, .recv c) = some o' ∧ GoodT S (pre ++ [(t, .recv c)]) o' f' := by
  obtain ⟨hlt, hf⟩ := stepF_recv hF
  subst hf
  have hE := cx.tE
  simp only [typeEv] at hE
  have hH' : H' = H ++ S.sp.chanPay c := (Option.some.inj hE).symm
  refine ⟨{ o with loc := moveAll o.loc (.msg c (o.nrecv c)) (.thr t),
                   nrecv := upd o.nrecv c (o.nrecv c + 1) }, rfl, ?_⟩
  have hw := wg_frame g t (.recv c) (f' := { f with nrecv := upd f.nrecv c (f.nrecv c + 1) }) rfl
    (fun _ => nofun) (fun _ => nofun) (fun _ => nofun)
  refine ⟨g.acquire_step (src := .msg c (o.nrecv c)) cx hH' nofun ?_ ?_ ?_, g.ns, ?_, ?_, g.ss, hw.1, hw.2, rc_frame g t _ _ (fun _ h => h) (fun _ => nofun)⟩
  · intro k
    simp only [Exp, g.nr c]
    constructor
    · intro h; exact ⟨⟨Nat.le_refl _, hlt⟩, h⟩
    · intro h; exact h.2
  · intro k
    simp only [Exp, g.nr c, upd_self]
    intro h
    omega
  · intro l hl1 hl2 k
    apply Exp_frame
    · exact thr_ne_of hl1
    · intro c' j hl
      subst hl
      show upd f.nrecv c (f.nrecv c + 1) c' ≤ j ∧ j < f.nsend c' ↔ _
      by_cases hc : c' = c
      · subst hc
        have : j ≠ f.nrecv c' := fun h => hl2 (by rw [h, g.nr])
        rw [upd_self]; omega
      · rw [upd_ne _ _ _ _ hc]
    · intro _ _; rfl
    · intro _ _; exact ⟨rfl, rfl⟩
    · intro _ _; exact ⟨nofun, nofun⟩
    · intro _ _; exact ⟨rfl, nofun⟩
  · intro c'
    show upd o.nrecv c (o.nrecv c + 1) c' = upd f.nrecv c (f.nrecv c + 1) c'
    by_cases hc : c' = c
    · subst hc; rw [upd_self, upd_self, g.nr]
    · rw [upd_ne _ _ _ _ hc, upd_ne _ _ _ _ hc, g.nr]
  · intro c'
    show upd f.nrecv c (f.nrecv c + 1) c' ≤ f.nsend c'
    by_cases hc : c' = c
    · subst hc; rw [upd_self]; omega
    · rw [upd_ne _ _ _ _ hc]; exact g.le c'

theorem step_recvC {S : System} (ok : S.OK) {pre : Trace} {o : OSt} {f f' : FSt} {t : Tid} {c : Obj}
    {H H' : List Tok}
    (g : GoodT S pre o f) (cx : Ctx S pre t (.recvC c) H H') (hF : stepF f (t, .recvC c) = some f') :
    ∃ o', stepO S.sp o (t, .recvC c) = some o' ∧ GoodT S (pre ++ [(t, .recvC c)]) o' f' := by
  obtain ⟨hcl, hf⟩ := stepF_recvC hF
  subst hf
  have hE := cx.tE
  simp only [typeEv] at hE
  have hH' : H' = H ++ S.sp.closePay c := (Option.some.inj hE).symm
  have hne : ∀ k, k ∈ S.sp.closePay c → S.sp.closePay c ≠ [] := by
    intro k hk h; rw [h] at hk; cases hk
  refine ⟨{ o with loc := moveAll o.loc (.clo c) (.thr t) }, rfl, ?_⟩
  have hw := wg_frame g t (.recvC c) (f' := f') rfl (fun _ => nofun) (fun _ => nofun) (fun _ => nofun)
  refine ⟨g.acquire_step (src := .clo c) cx hH' nofun ?_ ?_ ?_, g.ns, g.nr, g.le, g.ss, hw.1, hw.2,
    rc_frame g t (.recvC c) _ (fun _ h => h) ?_⟩
  · -- this is the first (and only) receive of the close, by the one receiver
    intro k
    simp only [Exp, hcl, true_and]
    constructor
    · intro hk; exact ⟨cx.recvc_fresh ok (hne k hk), hk⟩
    · intro h; exact h.2
  · -- afterwards the close has been received
    intro k h
    simp only [Exp] at h
    have ht := cx.recvc_waiter ok (hne k h.2)
    apply h.1.2
    rw [← ht]
    exact (mem_proj_snoc pre t t _ _).2 (Or.inr ⟨rfl, rfl⟩)
  · intro l hl1 hl2 k
    apply Exp_frame
    · exact thr_ne_of hl1
    · intro _ _ _; exact Iff.rfl
    · intro _ _; rfl
    · intro _ _; exact ⟨rfl, rfl⟩
    · intro _ _; exact ⟨nofun, nofun⟩
    · intro c' hl
      subst hl
      refine ⟨rfl, fun h => hl2 ?_⟩
      cases h; rfl
  · intro c' h
    cases h
    exact hcl

theorem step_lock {S : System} {pre : Trace} {o : OSt} {f f' : FSt} {t : Tid} {m : Obj} {H H' : List Tok}
    (g : GoodT S pre o f) (cx : Ctx S pre t (.lock m) H H') (hF : stepF f (t, .lock m) = some f') :
    ∃ o', stepO S.sp o (t, .lock m) = some o' ∧ GoodT S (pre ++ [(t, .lock m)]) o' f' := by
  obtain ⟨hheld, hf⟩ := stepF_lock hF
  subst hf
  have hE := cx.tE
  simp only [typeEv] at hE
  have hH' : H' = H ++ S.sp.mtxPay m := (Option.some.inj hE).symm
  refine ⟨{ o with loc := moveAll o.loc (.mtx m) (.thr t) }, rfl, ?_⟩
  have hw := wg_frame g t (.lock m) (f' := { f with held := upd f.held m true }) rfl
    (fun _ => nofun) (fun _ => nofun) (fun _ => nofun)
  refine ⟨g.acquire_step (src := .mtx m) cx hH' nofun ?_ ?_ ?_, g.ns, g.nr, g.le, g.ss, hw.1, hw.2, rc_frame g t _ _ (fun _ h => h) (fun _ => nofun)⟩
  · intro k
    simp only [Exp, hheld, true_and]
  · intro k
    simp only [Exp, upd_self]
    intro h
    exact absurd h.1 (by simp)
  · intro l hl1 hl2 k
    apply Exp_frame
    · exact thr_ne_of hl1
    · intro _ _ _; exact Iff.rfl
    · intro m' hl
      subst hl
      have hm : m' ≠ m := fun h => hl2 (by rw [h])
      exact upd_ne _ _ _ _ hm
    · intro _ _; exact ⟨rfl, rfl⟩
    · intro _ _; exact ⟨nofun, nofun⟩
    · intro _ _; exact ⟨rfl, nofun⟩

theorem step_start {S : System} {pre : Trace} {o : OSt} {f f' : FSt} {t : Tid} {H H' : List Tok}
    (g : GoodT S pre o f) (cx : Ctx S pre t .start H H') (hF : stepF f (t, .start) = some f') :
    ∃ o', stepO S.sp o (t, .start) = some o' ∧ GoodT S (pre ++ [(t, .start)]) o' f' := by
  obtain ⟨hs, hf⟩ := stepF_start hF
  subst hf
  have hE := cx.tE
  simp only [typeEv] at hE
  have hH' : H' = H ++ S.sp.spawnPay t := (Option.some.inj hE).symm
  refine ⟨{ o with loc := moveAll o.loc (.spw t) (.thr t) }, rfl, ?_⟩
  have hw := wg_frame g t .start (f' := { f with started := upd f.started t true }) rfl
    (fun _ => nofun) (fun _ => nofun) (fun _ => nofun)
  refine ⟨g.acquire_step (src := .spw t) cx hH' nofun ?_ ?_ ?_, g.ns, g.nr, g.le, ?_, hw.1, hw.2, rc_frame g t _ _ (fun _ h => h) (fun _ => nofun)⟩
  · intro k
    simp only [Exp, hs.1, hs.2, true_and]
  · intro k
    simp only [Exp, upd_self]
    intro h
    exact absurd h.1.2 (by simp)
  · intro l hl1 hl2 k
    apply Exp_frame
    · exact thr_ne_of hl1
    · intro _ _ _; exact Iff.rfl
    · intro _ _; rfl
    · intro u' hl
      subst hl
      have hu : u' ≠ t := fun h => hl2 (by rw [h])
      exact ⟨rfl, upd_ne _ _ _ _ hu⟩
    · intro _ _; exact ⟨nofun, nofun⟩
    · intro _ _; exact ⟨rfl, nofun⟩
  · intro u' h
    show f.spawned u' = true
    by_cases hu : u' = t
    · subst hu; exact hs.1
    · have h' : upd f.started t true u' = true := h
      rw [upd_ne _ _ _ _ hu] at h'
      exact g.ss u' h'

theorem step_wgWait {S : System} (ok : S.OK) {pre : Trace} {o : OSt} {f f' : FSt} {t : Tid} {w : Obj}
    {H H' : List Tok}
    (g : GoodT S pre o f) (cx : Ctx S pre t (.wgWait w) H H') (hF : stepF f (t, .wgWait w) = some f') :
    ∃ o', stepO S.sp o (t, .wgWait w) = some o' ∧ GoodT S (pre ++ [(t, .wgWait w)]) o' f' := by
  obtain ⟨hcnt, hf⟩ := stepF_wgWait hF
  subst hf
  have ht := cx.wait_adder ok
  have hnw := cx.wait_fresh ok
  have hall : ∀ u, u ∈ S.kids w → Ev.wgDone w ∈ proj pre u := by
    have h1 := g.wg w hnw
    rw [cx.wait_adds ok, hcnt, Nat.zero_add] at h1
    unfold doneCount at h1
    have h2 := List.countP_eq_length.1 h1
    intro u hu
    exact of_decide_eq_true (h2 u hu)
  have hw' : waited S (pre ++ [(t, .wgWait w)]) w := by
    unfold waited
    rw [← ht]
    exact (mem_proj_snoc pre t t _ _).2 (Or.inr ⟨rfl, rfl⟩)
  have hE := cx.tE
  simp only [typeEv] at hE
  have hH' : H' = H ++ waitPay S.sp S.kids w := (Option.some.inj hE).symm
  refine ⟨{ o with loc := moveAll o.loc (.wgb w) (.thr t) }, rfl, ?_⟩
  refine ⟨g.acquire_step (src := .wgb w) cx hH' nofun ?_ ?_ ?_, g.ns, g.nr, g.le, g.ss, ?_, ?_, rc_frame g t _ _ (fun _ h => h) (fun _ => nofun)⟩
  · intro k
    simp only [Exp]
    rw [mem_waitPay]
    constructor
    · rintro ⟨u, hu, hk⟩; exact ⟨hnw, u, hu, hall u hu, hk⟩
    · rintro ⟨_, u, hu, _, hk⟩; exact ⟨u, hu, hk⟩
  · intro k h
    exact h.1 hw'
  · intro l hl1 hl2 k
    apply Exp_frame
    · exact thr_ne_of hl1
    · intro _ _ _; exact Iff.rfl
    · intro _ _; rfl
    · intro _ _; exact ⟨rfl, rfl⟩
    · intro w1 hl
      subst hl
      refine ⟨fun h => hl2 ?_, nofun⟩
      cases h; rfl
    · intro _ _; exact ⟨rfl, nofun⟩
  · intro w1 hw1
    have hne : w1 ≠ w := fun h => hw1 (h ▸ hw')
    have hne' : Ev.wgWait w ≠ Ev.wgWait w1 := fun h => hne (by cases h; rfl)
    rw [waited_snoc_of_ne S pre t (.wgWait w) w1 hne'] at hw1
    rw [doneCount_snoc_of_ne S pre t (.wgWait w) w1 nofun,
      cnt_proj_snoc_of_ne pre t _ (.wgWait w) (.wgAdd w1) nofun]
    exact g.wg w1 hw1
  · intro w1 hw1 u hu
    apply mem_proj_snoc_mono
    by_cases hne : w1 = w
    · subst hne; exact hall u hu
    · have hne' : Ev.wgWait w ≠ Ev.wgWait w1 := fun h => hne (by cases h; rfl)
      rw [waited_snoc_of_ne S pre t (.wgWait w) w1 hne'] at hw1
      exact g.wd w1 hw1 u hu

theorem step_wgAdd {S : System} (ok : S.OK) {pre : Trace} {o : OSt} {f f' : FSt} {t : Tid} {w : Obj}
    {H H' : List Tok}
    (g : GoodT S pre o f) (cx : Ctx S pre t (.wgAdd w) H H') (hF : stepF f (t, .wgAdd w) = some f') :
    ∃ o', stepO S.sp o (t, .wgAdd w) = some o' ∧ GoodT S (pre ++ [(t, .wgAdd w)]) o' f' := by
  have hf := stepF_wgAdd hF
  subst hf
  have ht := cx.add_adder ok
  have hE := cx.tE
  simp only [typeEv] at hE
  have hH : H' = H := (Option.some.inj hE).symm
  refine ⟨o, rfl, ?_⟩
  refine ⟨?_, g.ns, g.nr, g.le, g.ss, ?_, ?_, rc_frame g t _ _ (fun _ h => h) (fun _ => nofun)⟩
  · apply g.same_loc cx (by rw [hH]; exact fun _ => Iff.rfl)
    intro l hl k
    apply Exp_frame
    · exact thr_ne_of hl
    · intro _ _ _; exact Iff.rfl
    · intro _ _; rfl
    · intro _ _; exact ⟨rfl, rfl⟩
    · intro _ _; exact ⟨nofun, nofun⟩
    · intro _ _; exact ⟨rfl, nofun⟩
  · intro w1 hw1
    rw [waited_snoc_of_ne S pre t (.wgAdd w) w1 nofun] at hw1
    rw [doneCount_snoc_of_ne S pre t (.wgAdd w) w1 nofun]
    show upd f.cnt w (f.cnt w + 1) w1 + _ = _
    have := g.wg w1 hw1
    by_cases hne : w1 = w
    · subst hne
      rw [upd_self, ← ht, cnt_proj_snoc_self]
      rw [← ht] at this
      omega
    · have hne' : Ev.wgAdd w1 ≠ Ev.wgAdd w := fun h => hne (by cases h; rfl)
      rw [upd_ne _ _ _ _ hne, cnt_proj_snoc_of_ne pre t _ (.wgAdd w) (.wgAdd w1) hne']
      exact this
  · intro w1 hw1 u hu
    rw [waited_snoc_of_ne S pre t (.wgAdd w) w1 nofun] at hw1
    exact mem_proj_snoc_mono pre t u _ _ (g.wd w1 hw1 u hu)

end DastardV.C17
