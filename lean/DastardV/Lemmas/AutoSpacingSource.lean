/-
C02, the auto SPACING clause at the level of the whole source and behind the two ingest models.

`C02_auto_spacing` (Lemmas/AutoSpacing.lean) is about the per-channel run `runChan`.  `Pipe.runOps` — the
model the correspondence check compares with the real `ProcessSegments` (all channels, trigger broker,
group-trigger secondaries) — treats every channel exactly as `runChan` does (`Pipe.runOps_chan_frames`),
so the clause holds for the primary records the SOURCE publishes for each channel, whatever the other
channels and the broker do; and, with the ingest models chained in front (`blocks_blocksFor`,
`lancero_blocks_blocksFor`), for every packet history / card byte stream the ingest theorems cover.
-/
import DastardV.Lemmas.AutoSpacing
import DastardV.Lemmas.ComposeLancero
namespace DastardV.C02
open Trig

open Pipe in
/-- **Auto spacing at source level** (veto or not).  Hypotheses of `C02_source_level` plus
`ts.auto = true` (`Fresh` gives `c.ts = ts`): in the list `prims` of primary trigger frames the source
publishes for channel `j`, for any two CONSECUTIVE triggers `a`, `b` (`prims = pre ++ a :: b :: post`),
if `b` satisfies neither the enabled edge criterion nor the enabled level criterion on the channel's
stream `segs.flatten` — so it can only be an auto trigger — then `b` comes at least the auto delay
after `a`: `autoD ts nsamp ≤ b − a`. -/
theorem C02_auto_spacing_source_level {zts : List (List (Int × Int))} {j : Nat} {sg : Bool} {tp : Nat → Int × Int}
    {n : Nat} {ops : List Op} {f0 : Int} {segs : List (List Nat)} {s : Src} {c : Chan} {outs : List Out}
    {ts : TS} {npre nsamp : Int}
    (hb : BlocksFor j sg tp n f0 ops segs) (hc : s.chans[j]? = some c) (hrun : runOps zts s ops = some outs)
    (hv : 3 ≤ npre ∧ npre < nsamp) (hem : ts.edgeMulti = false) (hfresh : Fresh c ts npre nsamp f0)
    (hauto : ts.auto = true) :
    ∃ parts, OutsFor j outs parts ∧
      let prims := ((parts.map (·.1)).flatten).map (·.frame)
      ∀ (pre post : List Int) (a b : Int), prims = pre ++ a :: b :: post →
        ¬ ((ts.edge = true ∧ edgeAtG (cfgChan ts sg) segs.flatten (b - f0) = true) ∨
           (ts.level = true ∧ levelAtG (cfgChan ts sg) segs.flatten (b - f0) = true)) →
        autoD ts nsamp ≤ b - a := by
  obtain ⟨c', parts, hof, hrc⟩ := runOps_chan_frames zts j sg tp ops n f0 segs s c outs hb hc hrun
  exact ⟨parts, hof, C02_auto_spacing hv hem hauto hfresh segs hrc⟩

open Pipe in
/-- the stronger form: every primary trigger of channel `j` that satisfies no enabled sample criterion
comes at least the auto delay after EVERY earlier primary trigger of the channel (and the primary
trigger frames are ascending) -/
theorem C02_auto_spacing_all_source_level {zts : List (List (Int × Int))} {j : Nat} {sg : Bool} {tp : Nat → Int × Int}
    {n : Nat} {ops : List Op} {f0 : Int} {segs : List (List Nat)} {s : Src} {c : Chan} {outs : List Out}
    {ts : TS} {npre nsamp : Int}
    (hb : BlocksFor j sg tp n f0 ops segs) (hc : s.chans[j]? = some c) (hrun : runOps zts s ops = some outs)
    (hv : 3 ≤ npre ∧ npre < nsamp) (hem : ts.edgeMulti = false) (hfresh : Fresh c ts npre nsamp f0)
    (hauto : ts.auto = true) :
    ∃ parts, OutsFor j outs parts ∧
      (((parts.map (·.1)).flatten).map (·.frame)).Pairwise (fun a b => a ≤ b ∧
        (¬ ((ts.edge = true ∧ edgeAtG (cfgChan ts sg) segs.flatten (b - f0) = true) ∨
            (ts.level = true ∧ levelAtG (cfgChan ts sg) segs.flatten (b - f0) = true)) →
          autoD ts nsamp ≤ b - a)) := by
  obtain ⟨c', parts, hof, hrc⟩ := runOps_chan_frames zts j sg tp ops n f0 segs s c outs hb hc hrun
  exact ⟨parts, hof, C02_auto_spacing_all hv hem hauto hfresh segs hrc⟩

end DastardV.C02

namespace DastardV.Compose
open Pipe

/-- **Auto spacing, end to end (Abaco).**  Hypotheses of `abaco_no_pulse_lost`.  For every packet
history the ingest theorems cover, every pipeline channel `j` whose restored settings have the auto
trigger on (veto or not): among the primary records the source publishes for channel `j`, a trigger
that satisfies neither the enabled edge criterion nor the enabled level criterion on the stream the
channel receives (the concatenation of its segments of the emitted blocks = the gap-filled packet
stream) comes at least the auto delay after its predecessor. -/
theorem abaco_auto_spacing (fpp : Nat) (L : List C03.GL) (f0 : Int) (hf0 : -2305843009213693952 + nsamp ≤ f0)
    (H : List (List (List C03.Pkt))) (gs : List C03.Group) (perms : List (List Nat))
    (hv : C03.validIn fpp L H = true) (hi : C03.InitOK L gs) (hp : C03.PermsOK L.length H perms)
    (s' : C03.St) (outs : List (Nat × C03.Block))
    (hrun : C03.runFrom 0 (C03.startSt gs f0) H perms = .ok (s', outs))
    (mk : C03.Block → Int × Int × List Bool) (j : Nat) (hj : j < (L.map (·.nchan)).sum) (sg : Bool)
    (hsg : ∀ b, ((mk b).2.2)[j]?.getD false = sg)
    (npre : Int) (hlen : 3 ≤ npre ∧ npre < nsamp) (saved : List (Nat × Trig.TS))
    (zts : List (List (Int × Int))) (res : List Out)
    (hres : runOps zts (prepare ((L.map (·.nchan)).sum) npre nsamp saved) ((outs.map (·.2)).map (blockOp mk)) = some res) :
    ∃ (c : Trig.Chan) (parts : List (List Trig.Rec × List Trig.Rec)),
      (prepare ((L.map (·.nchan)).sum) npre nsamp saved).chans[j]? = some c ∧ OutsFor j res parts ∧
      let prims := ((parts.map (·.1)).flatten).map (·.frame)
      let S := (chanSegs j (outs.map (·.2))).flatten
      (c.ts.auto = true → ∀ (pre post : List Int) (a b : Int), prims = pre ++ a :: b :: post →
        ¬ ((c.ts.edge = true ∧ Trig.edgeAtG (Trig.cfgChan c.ts sg) S (b - f0) = true) ∨
           (c.ts.level = true ∧ Trig.levelAtG (Trig.cfgChan c.ts sg) S (b - f0) = true)) →
        Trig.autoD c.ts nsamp ≤ b - a) := by
  have h1 := (C03.C03_frames_contiguous fpp L f0 H gs perms hv hi hp s' outs hrun).1
  have h2 := C03.C03_groups_aligned fpp L f0 H gs perms hv hi hp s' outs hrun
  have hjn : j < (prepare ((L.map (·.nchan)).sum) npre nsamp saved).chans.length := by simp [prepare]; exact hj
  obtain ⟨c, hc⟩ : ∃ c, (prepare ((L.map (·.nchan)).sum) npre nsamp saved).chans[j]? = some c :=
    ⟨_, List.getElem?_eq_getElem hjn⟩
  obtain ⟨hfresh, hem⟩ := C02.prepare_fresh (f0 := f0) hc hf0
  have hb := blocks_blocksFor mk j sg hsg L
    (fun m => match (outs.map (·.2))[m]? with | some b => ((mk b).1, (mk b).2.1) | none => (0, 0))
    (outs.map (·.2)) 0 f0 h2 h1 hj (by intro i b hb; simp [hb])
  obtain ⟨c', parts, hof, hrc⟩ := runOps_chan_frames zts j sg _ _ 0 f0 _ _ c res hb hc hres
  exact ⟨c, parts, hc, hof, fun hauto => C02.C02_auto_spacing hlen hem hauto hfresh _ hrc⟩

/-- **Auto spacing, end to end (Lancero).**  Hypotheses of `lancero_no_pulse_lost`.  For every
geometry, every list of well-formed frames, EVERY schedule of reads, every mixer state, every pipeline
channel `j` whose restored settings have the auto trigger on (veto or not): among the primary records
the source publishes for channel `j`, a trigger that satisfies neither the enabled edge criterion nor
the enabled level criterion on the channel's stream `concatChan blocks j` comes at least the auto delay
after its predecessor. -/
theorem lancero_auto_spacing {σ ρ : Type} (fops : C04.FloatOps σ ρ) (zero : σ) (scaleOf : Nat → σ)
    (g : C04.Geom) (hg : C04.geomOK g = true) (frames : List C04.Frame)
    (hwf : ∀ fr ∈ frames, C04.frameWF g fr = true) (ticks : List (Nat × Int))
    (st : C04.DState σ) (hf0 : -2305843009213693952 + nsamp ≤ st.next)
    (mk : C04.Block → Int × Int × List Bool) (j : Nat) (hj : j < g.nchan) (sg : Bool)
    (hsg : ∀ b, ((mk b).2.2)[j]?.getD false = sg)
    (npre : Int) (hlen : 3 ≤ npre ∧ npre < nsamp) (saved : List (Nat × Trig.TS))
    (zts : List (List (Int × Int))) :
    ∃ bufs, C04.runReader g { pending := [], future := C04.encFrames frames } false ticks = .ok bufs ∧
      let blocks := C04.blocksOf (C04.runSteps fops zero scaleOf g st (bufs.map C04.Step.buf))
      ∀ res, runOps zts (prepare g.nchan npre nsamp saved) (blocks.map (lblockOp mk)) = some res →
      ∃ (c : Trig.Chan) (parts : List (List Trig.Rec × List Trig.Rec)),
        (prepare g.nchan npre nsamp saved).chans[j]? = some c ∧ OutsFor j res parts ∧
        let prims := ((parts.map (·.1)).flatten).map (·.frame)
        let S := C04.concatChan blocks j
        (c.ts.auto = true → ∀ (pre post : List Int) (a b : Int), prims = pre ++ a :: b :: post →
          ¬ ((c.ts.edge = true ∧ Trig.edgeAtG (Trig.cfgChan c.ts sg) S (b - st.next) = true) ∨
             (c.ts.level = true ∧ Trig.levelAtG (Trig.cfgChan c.ts sg) S (b - st.next) = true)) →
          Trig.autoD c.ts nsamp ≤ b - a) := by
  obtain ⟨bufs, hrun, _, hrest⟩ := C04.C04_chunking_independent fops zero scaleOf g hg frames hwf ticks st
  obtain ⟨_, _, hcont, _, hshape, _⟩ := hrest
  refine ⟨bufs, hrun, ?_⟩
  intro blocks res hres
  have hjn : j < (prepare g.nchan npre nsamp saved).chans.length := by simp [prepare]; exact hj
  obtain ⟨c, hc⟩ : ∃ c, (prepare g.nchan npre nsamp saved).chans[j]? = some c :=
    ⟨_, List.getElem?_eq_getElem hjn⟩
  obtain ⟨hfresh, hem⟩ := C02.prepare_fresh (f0 := st.next) hc hf0
  have hb := lancero_blocks_blocksFor mk g j sg hsg
    (fun m => match blocks[m]? with | some b => ((mk b).1, (mk b).2.1) | none => (0, 0))
    blocks 0 st.next hshape hcont hj (by intro i b hb; simp [hb])
  obtain ⟨c', parts, hof, hrc⟩ := runOps_chan_frames zts j sg _ _ 0 st.next _ _ c res hb hc hres
  have hsp := fun hauto => C02.C02_auto_spacing hlen hem hauto hfresh _ hrc
  rw [← concatChan_eq_flatten] at hsp
  exact ⟨c, parts, hc, hof, hsp⟩

/-! ### Non-vacuity -/

/-- `prepare` with saved settings that switch the auto trigger on (with a veto) yields a channel for
which the premise `c.ts.auto = true` holds -/
example : ∃ c, (prepare 2 3 8 [(0, { auto := true, autoDelay := 20, autoVeto := 50 })]).chans[0]? = some c ∧
    c.ts.auto = true := by
  refine ⟨_, rfl, ?_⟩
  decide

end DastardV.Compose
