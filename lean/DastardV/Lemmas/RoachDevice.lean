/-
The ROACH device (`Model/C12Roach.lean`): the device is its channels.

* `runDev_chan` — every channel of the device's blocks is the per-channel unwrapper (`runCalls`) run over
  that channel's de-interleaved samples, state carried from block to block; the block's first frame
  index is the sample number of the bundle's first packet (`runDev_first`, `assemble_first`).
* `assemble_chan`, `chanOf_getElem`, `words16_getD`, `everyOther_getD`, `parsePacket_word16`,
  `parsePacket_word32` — de-interleaving and the big-endian words of the receive buffer.
* `C12_roach_device` — C12 at the device level, `device_bundling_independent` — the concatenated output
  of a channel does not depend on how the datagrams were grouped into bundles.
-/
import DastardV.Model.C12Roach
import DastardV.Props.C12
namespace DastardV.Roach
open C12

/-! ### small list facts -/

theorem getD_drop {α} (l : List α) (m j : Nat) (d : α) : (l.drop m).getD j d = l.getD (m + j) d := by
  simp [List.getD_eq_getElem?_getD, List.getElem?_drop]

/-- `mapM` into `Option`, one element at a time -/
theorem mapM_cons_some {α β} (f : α → Option β) (x : α) (xs : List α) (ys : List β) :
    (x :: xs).mapM f = some ys ↔ ∃ y yt, f x = some y ∧ xs.mapM f = some yt ∧ ys = y :: yt := by
  rw [List.mapM_cons]
  cases hx : f x with
  | none => simp
  | some y =>
    cases hxs : xs.mapM f with
    | none => simp
    | some yt => simp [eq_comm]

theorem mapM_nil_some {α β} (f : α → Option β) (ys : List β) :
    ([] : List α).mapM f = some ys ↔ ys = [] := by
  simp [eq_comm]

theorem mapM_append_some {α β} (f : α → Option β) :
    ∀ (a b : List α) (pa pb : List β), a.mapM f = some pa → b.mapM f = some pb →
      (a ++ b).mapM f = some (pa ++ pb)
  | [], b, pa, pb, ha, hb => by
    rw [mapM_nil_some] at ha
    subst ha
    simpa using hb
  | x :: a, b, pa, pb, ha, hb => by
    rw [mapM_cons_some] at ha
    obtain ⟨y, yt, hx, hxs, rfl⟩ := ha
    rw [List.cons_append, mapM_cons_some]
    exact ⟨y, yt ++ pb, hx, mapM_append_some f a b yt pb hxs hb, rfl⟩

/-- the results of a successful `mapM` are the element-wise results -/
theorem mapM_some_map {α β γ} (f : α → Option β) (g : α → γ) (k : β → γ) :
    ∀ (l : List α) (ys : List β), l.mapM f = some ys → (∀ a y, f a = some y → g a = k y) →
      ys.map k = l.map g
  | [], ys, h, _ => by
    rw [mapM_nil_some] at h
    subst h
    rfl
  | x :: xs, ys, h, hg => by
    rw [mapM_cons_some] at h
    obtain ⟨y, yt, hx, hxs, rfl⟩ := h
    rw [List.map_cons, List.map_cons, hg x y hx, mapM_some_map f g k xs yt hxs hg]

theorem rangeMap_getD {α} (n i : Nat) (f : Nat → α) (d : α) (hi : i < n) :
    ((List.range n).map f).getD i d = f i := by
  simp [List.getD_eq_getElem?_getD, List.getElem?_map, List.getElem?_range hi]

/-! ### the words of the receive buffer -/

theorem words16_length : ∀ (n : Nat) (l : List Nat), 2 * n ≤ l.length → (words16 n l).length = n
  | 0, _, _ => by simp [words16]
  | n + 1, [], h => by simp at h
  | n + 1, [_], h => by simp at h; omega
  | n + 1, a :: b :: r, h => by
    simp only [words16, List.length_cons]
    rw [words16_length n r (by simp only [List.length_cons] at h; omega)]

/-- **`words16` indexing**: word `k` is the big-endian pair of bytes `2k`, `2k+1` -/
theorem words16_getD : ∀ (n : Nat) (l : List Nat) (k : Nat), k < n → 2 * n ≤ l.length →
    (words16 n l).getD k 0 = be16 (l.getD (2 * k) 0) (l.getD (2 * k + 1) 0)
  | 0, _, _, hk, _ => absurd hk (Nat.not_lt_zero _)
  | n + 1, [], _, _, h => by simp at h
  | n + 1, [_], _, _, h => by simp at h; omega
  | n + 1, a :: b :: r, 0, _, _ => by simp [words16]
  | n + 1, a :: b :: r, k + 1, hk, h => by
    have e : 2 * (k + 1) = (2 * k + 1) + 1 := by omega
    simp only [words16, List.getD_cons_succ, e]
    exact words16_getD n r k (by omega) (by simp only [List.length_cons] at h; omega)

theorem everyOther_length : ∀ (l : List Nat), (everyOther l).length = l.length / 2
  | [] => by simp [everyOther]
  | [_] => by simp [everyOther]
  | a :: b :: r => by
    simp only [everyOther, List.length_cons, everyOther_length r]
    omega

/-- **`everyOther` indexing**: element `k` is element `2k` of the list -/
theorem everyOther_getD : ∀ (l : List Nat) (k : Nat), 2 * k + 1 < l.length →
    (everyOther l).getD k 0 = l.getD (2 * k) 0
  | [], _, h => by simp at h
  | [_], _, h => by simp at h
  | a :: b :: r, 0, _ => by simp [everyOther]
  | a :: b :: r, k + 1, h => by
    have e : 2 * (k + 1) = (2 * k + 1) + 1 := by omega
    simp only [everyOther, List.getD_cons_succ, e]
    exact everyOther_getD r k (by simp only [List.length_cons] at h; omega)

theorem bufOf_length (dg : List Nat) : (bufOf dg).length = 16384 := by
  unfold bufOf
  simp only [List.length_take, List.length_append, List.length_replicate]
  omega

/-- a datagram that fits is a prefix of the receive buffer -/
theorem bufOf_getD (dg : List Nat) (k : Nat) (hk : k < dg.length) (hl : dg.length ≤ 16384) :
    (bufOf dg).getD k 0 = dg.getD k 0 := by
  unfold bufOf
  simp only [List.getD_eq_getElem?_getD]
  rw [List.getElem?_take_of_lt (by omega), List.getElem?_append_left hk]

/-- the header of a parsed packet, byte by byte of the receive buffer, and the word count -/
theorem parsePacket_header (dg : List Nat) (h : Hdr) (data : List Nat) (hp : parsePacket dg = some (h, data)) :
    h.nchan = be16 ((bufOf dg).getD 2 0) ((bufOf dg).getD 3 0) ∧
    h.nsamp = be16 ((bufOf dg).getD 4 0) ((bufOf dg).getD 5 0) ∧
    h.flags = be16 ((bufOf dg).getD 6 0) ((bufOf dg).getD 7 0) ∧
    h.sampnum = beNat (((bufOf dg).drop 8).take 8) ∧
    (h.flags % 4 = 1 ∨ h.flags % 4 = 2) ∧
    data.length = (h.nchan * h.nsamp) % 65536 := by
  unfold parsePacket at hp
  split at hp
  · rename_i heq
    rw [heq]
    simp only at hp
    split at hp
    · rename_i hf
      split at hp
      · cases hp
      · rename_i hlen
        cases hp
        refine ⟨rfl, rfl, rfl, rfl, Or.inl hf, ?_⟩
        exact words16_length _ _ (by omega)
    · rename_i hf
      split at hp
      · cases hp
      · rename_i hlen
        cases hp
        refine ⟨rfl, rfl, rfl, rfl, Or.inr hf, ?_⟩
        rw [everyOther_length, words16_length _ _ (by omega)]
        simp only
        omega
    · cases hp
  · cases hp

/-- **2-byte words**: word `k` of a parsed packet's data is the big-endian pair of bytes `16+2k`, `16+2k+1`
of the receive buffer -/
theorem parsePacket_word16 (dg : List Nat) (h : Hdr) (data : List Nat) (hp : parsePacket dg = some (h, data))
    (hf : h.flags % 4 = 1) (k : Nat) (hk : k < (h.nchan * h.nsamp) % 65536) :
    data.getD k 0 = be16 ((bufOf dg).getD (16 + 2 * k) 0) ((bufOf dg).getD (16 + 2 * k + 1) 0) := by
  unfold parsePacket at hp
  split at hp
  · rename_i x1 x2 c0 c1 n0 n1 f0 f1 rest heq
    have hbody : rest.drop 8 = (bufOf dg).drop 16 := by rw [heq]; rfl
    simp only at hp
    split at hp
    · split at hp
      · cases hp
      · rename_i hlen
        cases hp
        simp only at hk
        rw [words16_getD _ _ k hk (by omega), hbody, getD_drop, getD_drop, Nat.add_assoc]
    · rename_i hf2
      split at hp
      · cases hp
      · cases hp
        simp only at hf
        omega
    · cases hp
  · cases hp

/-- **4-byte words**: word `k` of a parsed packet's data is the UPPER half of the 32-bit word: the big-endian
pair of bytes `16+4k`, `16+4k+1` of the receive buffer -/
theorem parsePacket_word32 (dg : List Nat) (h : Hdr) (data : List Nat) (hp : parsePacket dg = some (h, data))
    (hf : h.flags % 4 = 2) (k : Nat) (hk : k < (h.nchan * h.nsamp) % 65536) :
    data.getD k 0 = be16 ((bufOf dg).getD (16 + 4 * k) 0) ((bufOf dg).getD (16 + 4 * k + 1) 0) := by
  unfold parsePacket at hp
  split at hp
  · rename_i x1 x2 c0 c1 n0 n1 f0 f1 rest heq
    have hbody : rest.drop 8 = (bufOf dg).drop 16 := by rw [heq]; rfl
    simp only at hp
    split at hp
    · rename_i hf1
      split at hp
      · cases hp
      · cases hp
        simp only at hf
        omega
    · split at hp
      · cases hp
      · rename_i hlen
        cases hp
        simp only at hk
        have hwl := words16_length (2 * (be16 c0 c1 * be16 n0 n1 % 65536)) (rest.drop 8) (by omega)
        rw [everyOther_getD _ k (by omega), words16_getD _ _ (2 * k) (by omega) (by omega), hbody,
          getD_drop, getD_drop]
        have e : 2 * (2 * k) = 4 * k := by omega
        rw [e, Nat.add_assoc]
    · cases hp
  · cases hp

/-! ### de-interleaving: `chanOf`, `assemble` -/

theorem chanOf_length (nchan i : Nat) (h : Hdr) (data : List Nat) : (chanOf nchan i h data).length = h.nsamp := by
  simp [chanOf]

/-- **sample `j` of channel `i`** of a packet is word `i + nchan·j` of its data (frame-major payload) -/
theorem chanOf_getElem (nchan i : Nat) (h : Hdr) (data : List Nat) (j : Nat) (hj : j < h.nsamp) :
    (chanOf nchan i h data)[j]'(by rw [chanOf_length]; exact hj) = data.getD (i + nchan * j) 0 := by
  simp [chanOf]

theorem chanOf_getD (nchan i : Nat) (h : Hdr) (data : List Nat) (j : Nat) (hj : j < h.nsamp) :
    (chanOf nchan i h data).getD j 0 = data.getD (i + nchan * j) 0 := by
  simp [chanOf, List.getD_eq_getElem?_getD, List.getElem?_map, List.getElem?_range hj]

/-- channel `i` of a parsed bundle: the concatenation over the packets of the packet's channel `i` -/
def chanCat (nchan i : Nat) (ps : List (Hdr × List Nat)) : List Nat :=
  (ps.map fun x => chanOf nchan i x.1 x.2).flatten

theorem chanCat_append (nchan i : Nat) (a b : List (Hdr × List Nat)) :
    chanCat nchan i (a ++ b) = chanCat nchan i a ++ chanCat nchan i b := by
  simp [chanCat]

theorem chanCat_length (nchan i : Nat) (ps : List (Hdr × List Nat)) :
    (chanCat nchan i ps).length = (ps.map fun x => x.1.nsamp).sum := by
  induction ps with
  | nil => simp [chanCat]
  | cons x xs ih =>
    have : chanCat nchan i (x :: xs) = chanOf nchan i x.1 x.2 ++ chanCat nchan i xs := by simp [chanCat]
    rw [this, List.length_append, ih, chanOf_length, List.map_cons, List.sum_cons]

/-- what a successful `assemble` is: all datagrams parse, every header carries the device's channel count,
there is a first packet, whose sample number is the first frame index, and channel `i` is `chanCat` -/
theorem assemble_some (nchan : Nat) (dgs : List (List Nat)) (first : Nat) (raws : List (List Nat))
    (h : assemble nchan dgs = some (first, raws)) :
    ∃ h0 d0 tl, dgs.mapM parsePacket = some ((h0, d0) :: tl) ∧
      (∀ x ∈ (h0, d0) :: tl, x.1.nchan = nchan) ∧ 0 < nchan ∧ first = h0.sampnum ∧
      raws = (List.range nchan).map fun i => chanCat nchan i ((h0, d0) :: tl) := by
  unfold assemble at h
  split at h
  · cases h
  · rename_i ps hps
    split at h
    · cases h
    · rename_i hc
      have hc1 : ¬ (ps.any (fun x => x.1.nchan ≠ nchan) = true) := fun hh => hc (Or.inl hh)
      have hc2 : nchan ≠ 0 := fun hh => hc (Or.inr hh)
      split at h
      · cases h
      · rename_i h0 d0 tl
        cases h
        refine ⟨h0, d0, tl, hps, ?_, by omega, rfl, rfl⟩
        intro x hx
        rcases Nat.decEq x.1.nchan nchan with hne | heq
        · exact absurd (List.any_eq_true.mpr ⟨x, hx, by simpa using hne⟩) hc1
        · exact heq

/-- conversely: a bundle whose datagrams all parse with the device's channel count assembles -/
theorem assemble_of_parse (nchan : Nat) (dgs : List (List Nat)) (h0 : Hdr) (d0 : List Nat)
    (tl : List (Hdr × List Nat)) (hps : dgs.mapM parsePacket = some ((h0, d0) :: tl))
    (hall : ∀ x ∈ (h0, d0) :: tl, x.1.nchan = nchan) (hn : 0 < nchan) :
    assemble nchan dgs = some (h0.sampnum, (List.range nchan).map fun i => chanCat nchan i ((h0, d0) :: tl)) := by
  unfold assemble
  rw [hps]
  have hc : ¬ ((((h0, d0) :: tl).any (fun x => x.1.nchan ≠ nchan) = true) ∨ nchan = 0) := by
    intro hh
    rcases hh with hh | hh
    · obtain ⟨x, hx, hne⟩ := List.any_eq_true.mp hh
      exact absurd (hall x hx) (by simpa using hne)
    · omega
  simp only [if_neg hc]
  rfl

/-- `assemble` returns exactly `nchan` channels -/
theorem assemble_length (nchan : Nat) (dgs : List (List Nat)) (first : Nat) (raws : List (List Nat))
    (h : assemble nchan dgs = some (first, raws)) : raws.length = nchan := by
  obtain ⟨h0, d0, tl, _, _, _, _, rfl⟩ := assemble_some nchan dgs first raws h
  simp

/-- **the first frame index of a block is the sample number of the bundle's first packet** -/
theorem assemble_first (nchan : Nat) (dgs : List (List Nat)) (first : Nat) (raws : List (List Nat))
    (h : assemble nchan dgs = some (first, raws)) :
    ∃ dg rest hd data, dgs = dg :: rest ∧ parsePacket dg = some (hd, data) ∧ first = hd.sampnum := by
  obtain ⟨h0, d0, tl, hps, _, _, hf, _⟩ := assemble_some nchan dgs first raws h
  cases dgs with
  | nil =>
    rw [mapM_nil_some] at hps
    cases hps
  | cons dg rest =>
    rw [mapM_cons_some] at hps
    obtain ⟨y, yt, hy, _, hc⟩ := hps
    cases hc
    exact ⟨dg, rest, h0, d0, rfl, hy, hf⟩

/-- **de-interleaving**: channel `i` of the assembled block is the concatenation over the packets of the
packet's channel `i` (`chanOf`, indexed by `chanOf_getElem`); its length is the sum of the packets' `nsamp` -/
theorem assemble_chan (nchan : Nat) (dgs : List (List Nat)) (first : Nat) (raws : List (List Nat))
    (h : assemble nchan dgs = some (first, raws)) :
    ∃ ps, dgs.mapM parsePacket = some ps ∧ (∀ x ∈ ps, x.1.nchan = nchan) ∧
      ∀ i, i < nchan →
        raws.getD i [] = (ps.map fun x => chanOf nchan i x.1 x.2).flatten ∧
        (raws.getD i []).length = (ps.map fun x => x.1.nsamp).sum := by
  obtain ⟨h0, d0, tl, hps, hall, _, _, rfl⟩ := assemble_some nchan dgs first raws h
  refine ⟨_, hps, hall, ?_⟩
  intro i hi
  rw [rangeMap_getD _ _ _ _ hi]
  exact ⟨rfl, chanCat_length nchan i _⟩

/-- channel `i` of one datagram (nothing if it does not parse) -/
def pkChan (nchan i : Nat) (dg : List Nat) : List Nat :=
  match parsePacket dg with
  | some (h, d) => chanOf nchan i h d
  | none => []

/-- **a sample in terms of the receive buffer**: for an accepted datagram whose word count `nchan·nsamp` fits the
uint16 product, sample `j` of channel `i` is the big-endian 16-bit word at byte `16 + w·(i + nchan·j)` of the
receive buffer, `w` = 2 (2-byte words) or 4 (4-byte words: the UPPER half of the 32-bit word) -/
theorem pkChan_sample (nchan i : Nat) (dg : List Nat) (h : Hdr) (data : List Nat)
    (hp : parsePacket dg = some (h, data)) (hc : h.nchan = nchan) (hi : i < nchan) (j : Nat) (hj : j < h.nsamp)
    (hfit : nchan * h.nsamp < 65536) :
    (h.flags % 4 = 1 →
      (pkChan nchan i dg).getD j 0 =
        be16 ((bufOf dg).getD (16 + 2 * (i + nchan * j)) 0) ((bufOf dg).getD (16 + 2 * (i + nchan * j) + 1) 0)) ∧
    (h.flags % 4 = 2 →
      (pkChan nchan i dg).getD j 0 =
        be16 ((bufOf dg).getD (16 + 4 * (i + nchan * j)) 0) ((bufOf dg).getD (16 + 4 * (i + nchan * j) + 1) 0)) := by
  have hpk : pkChan nchan i dg = chanOf nchan i h data := by unfold pkChan; rw [hp]
  have hle : nchan * (j + 1) ≤ nchan * h.nsamp := Nat.mul_le_mul_left _ hj
  rw [Nat.mul_add, Nat.mul_one] at hle
  have hk : i + nchan * j < (h.nchan * h.nsamp) % 65536 := by
    rw [hc, Nat.mod_eq_of_lt hfit]
    omega
  rw [hpk, chanOf_getD nchan i h data j hj]
  exact ⟨fun hf => parsePacket_word16 dg h data hp hf _ hk, fun hf => parsePacket_word32 dg h data hp hf _ hk⟩

/-- `assemble_chan` in terms of the datagrams -/
theorem assemble_chan_dgs (nchan : Nat) (dgs : List (List Nat)) (first : Nat) (raws : List (List Nat))
    (h : assemble nchan dgs = some (first, raws)) (i : Nat) (hi : i < nchan) :
    raws.getD i [] = (dgs.map (pkChan nchan i)).flatten := by
  obtain ⟨ps, hps, _, hch⟩ := assemble_chan nchan dgs first raws h
  rw [(hch i hi).1]
  congr 1
  apply mapM_some_map parsePacket (pkChan nchan i) (fun x => chanOf nchan i x.1 x.2) dgs ps hps
  intro a y hy
  unfold pkChan
  rw [hy]

/-- **`assemble` of a concatenation**: channel `i` of the bundle `a ++ b` is channel `i` of `a` followed by
channel `i` of `b`; the first frame index is that of `a` -/
theorem assemble_append (nchan : Nat) (a b : List (List Nat)) (fa fb : Nat) (ra rb : List (List Nat))
    (ha : assemble nchan a = some (fa, ra)) (hb : assemble nchan b = some (fb, rb)) :
    ∃ r, assemble nchan (a ++ b) = some (fa, r) ∧
      ∀ i, i < nchan → r.getD i [] = ra.getD i [] ++ rb.getD i [] := by
  obtain ⟨h0, d0, tl, hpa, halla, hn, rfl, rfl⟩ := assemble_some nchan a fa ra ha
  obtain ⟨h1, d1, tl1, hpb, hallb, _, _, rfl⟩ := assemble_some nchan b fb rb hb
  have hp := mapM_append_some parsePacket a b _ _ hpa hpb
  rw [List.cons_append] at hp
  refine ⟨_, assemble_of_parse nchan (a ++ b) h0 d0 _ hp ?_ hn, ?_⟩
  · intro x hx
    rw [← List.cons_append, List.mem_append] at hx
    rcases hx with hx | hx
    · exact halla x hx
    · exact hallb x hx
  · intro i hi
    rw [rangeMap_getD _ _ _ _ hi, rangeMap_getD _ _ _ _ hi, rangeMap_getD _ _ _ _ hi, ← List.cons_append,
      chanCat_append]

/-! ### the device is its channels -/

/-- the raw (de-interleaved, not yet unwrapped) samples of channel `i`, bundle by bundle -/
def rawChans (nchan i : Nat) (bundles : List (List (List Nat))) : List (List Nat) :=
  bundles.filterMap fun b => (assemble nchan b).map fun x => x.2.getD i []

theorem rawChans_cons (nchan i : Nat) (b : List (List Nat)) (bs : List (List (List Nat))) (first : Nat)
    (raws : List (List Nat)) (h : assemble nchan b = some (first, raws)) :
    rawChans nchan i (b :: bs) = raws.getD i [] :: rawChans nchan i bs := by
  unfold rawChans
  rw [List.filterMap_cons, h]
  rfl

/-- one block of the device: every channel's raw samples through that channel's unwrapper -/
def stepBlock (p : Params) (raws : List (List Nat)) (sts : List St) : List (St × List Nat) :=
  (raws.zip sts).map fun x => unwrapCall p x.2 x.1

theorem runDev_nil (nchan : Nat) (p : Params) (sts : List St) : runDev nchan p sts [] = some [] := by
  unfold runDev; rfl

theorem runDev_cons (nchan : Nat) (p : Params) (sts : List St) (b : List (List Nat))
    (bs : List (List (List Nat))) (blocks : List (Nat × List (List Nat)))
    (h : runDev nchan p sts (b :: bs) = some blocks) :
    ∃ first raws r, assemble nchan b = some (first, raws) ∧
      runDev nchan p ((stepBlock p raws sts).map (·.1)) bs = some r ∧
      blocks = (first, (stepBlock p raws sts).map (·.2)) :: r := by
  unfold runDev at h
  split at h
  · cases h
  · rename_i first raws ha
    simp only at h
    split at h
    · cases h
    · rename_i r hr
      cases h
      exact ⟨first, raws, r, ha, hr, rfl⟩

theorem stepBlock_getElem? (p : Params) (raws : List (List Nat)) (sts : List St) (i : Nat) (s : St)
    (hi : i < raws.length) (hs : sts[i]? = some s) :
    (stepBlock p raws sts)[i]? = some (unwrapCall p s (raws.getD i [])) := by
  unfold stepBlock
  rw [List.getElem?_map]
  have hz : (raws.zip sts)[i]? = some (raws.getD i [], s) := by
    rw [List.getElem?_zip_eq_some]
    refine ⟨?_, hs⟩
    simp [List.getD_eq_getElem?_getD, List.getElem?_eq_getElem hi]
  rw [hz]
  rfl

theorem stepBlock_length (p : Params) (raws : List (List Nat)) (sts : List St) (h : raws.length = sts.length) :
    (stepBlock p raws sts).length = sts.length := by
  unfold stepBlock
  rw [List.length_map, List.length_zip, h, Nat.min_self]

/-- general form of `runDev_chan`, for the induction: channel `i` started in state `s` -/
theorem runDev_chan_aux (nchan : Nat) (p : Params) :
    ∀ (bundles : List (List (List Nat))) (sts : List St) (blocks : List (Nat × List (List Nat))),
      runDev nchan p sts bundles = some blocks → sts.length = nchan →
      ∀ (i : Nat) (s : St), i < nchan → sts[i]? = some s →
        blocks.map (fun b => b.2.getD i []) = (runCalls p s (rawChans nchan i bundles)).2
  | [], sts, blocks, h, _, i, s, _, _ => by
    rw [runDev_nil] at h
    cases h
    simp [rawChans, runCalls]
  | b :: bs, sts, blocks, h, hl, i, s, hi, hs => by
    obtain ⟨first, raws, r, ha, hr, rfl⟩ := runDev_cons nchan p sts b bs blocks h
    have hrl := assemble_length nchan b first raws ha
    have hsb := stepBlock_getElem? p raws sts i s (by omega) hs
    have ih := runDev_chan_aux nchan p bs _ r hr
      (by rw [List.length_map, stepBlock_length p raws sts (by omega)]; exact hl) i
      (unwrapCall p s (raws.getD i [])).1 hi (by rw [List.getElem?_map, hsb]; rfl)
    rw [rawChans_cons nchan i b bs first raws ha, List.map_cons, ih]
    simp only [runCalls]
    congr 1
    simp [List.getD_eq_getElem?_getD, List.getElem?_map, hsb]

/-- **the device is its channels**: if the device runs (`runDev … = some blocks`) from one unwrapper state per
channel, then every channel `i` of the blocks is exactly the per-channel unwrapper (`runCalls`, state carried from
block to block) run over the `i`-th de-interleaved channel of `assemble` of the bundles -/
theorem runDev_chan (nchan : Nat) (p : Params) (sts : List St) (bundles : List (List (List Nat)))
    (blocks : List (Nat × List (List Nat))) (h : runDev nchan p sts bundles = some blocks)
    (hl : sts.length = nchan) (i : Nat) (hi : i < nchan) :
    blocks.map (fun b => b.2.getD i []) = (runCalls p (sts[i]'(by omega)) (rawChans nchan i bundles)).2 :=
  runDev_chan_aux nchan p bundles sts blocks h hl i _ hi (List.getElem?_eq_getElem (by omega))

/-- when the device runs, every bundle assembles, there is a block per bundle, every block has `nchan` channels,
and the block's first frame index is the one `assemble` computed (`assemble_first`: the sample number of the
bundle's first packet) -/
theorem runDev_blocks (nchan : Nat) (p : Params) :
    ∀ (bundles : List (List (List Nat))) (sts : List St) (blocks : List (Nat × List (List Nat))),
      runDev nchan p sts bundles = some blocks → sts.length = nchan →
      blocks.length = bundles.length ∧
      (∀ b ∈ bundles, ∃ first raws, assemble nchan b = some (first, raws)) ∧
      (∀ blk ∈ blocks, blk.2.length = nchan) ∧
      bundles.map (fun b => (assemble nchan b).map (·.1)) = blocks.map (fun blk => some blk.1)
  | [], sts, blocks, h, _ => by
    rw [runDev_nil] at h
    cases h
    simp
  | b :: bs, sts, blocks, h, hl => by
    obtain ⟨first, raws, r, ha, hr, rfl⟩ := runDev_cons nchan p sts b bs blocks h
    have hrl := assemble_length nchan b first raws ha
    have hsl := stepBlock_length p raws sts (by omega)
    obtain ⟨h1, h2, h3, h4⟩ := runDev_blocks nchan p bs _ r hr (by rw [List.length_map, hsl]; exact hl)
    refine ⟨by simp [h1], ?_, ?_, ?_⟩
    · intro b' hb'
      rcases List.mem_cons.mp hb' with rfl | hb'
      · exact ⟨first, raws, ha⟩
      · exact h2 b' hb'
    · intro blk hblk
      rcases List.mem_cons.mp hblk with rfl | hblk
      · simp only [List.length_map, hsl, hl]
      · exact h3 blk hblk
    · rw [List.map_cons, List.map_cons, h4, ha]
      rfl

/-- **first frame index**: block `k`'s first frame index is the sample number of the first packet of bundle `k` -/
theorem runDev_first (nchan : Nat) (p : Params) (sts : List St) (bundles : List (List (List Nat)))
    (blocks : List (Nat × List (List Nat))) (h : runDev nchan p sts bundles = some blocks)
    (hl : sts.length = nchan) (k : Nat) (hk : k < blocks.length) :
    ∃ dg rest hd data, bundles[k]? = some (dg :: rest) ∧ parsePacket dg = some (hd, data) ∧
      blocks[k].1 = hd.sampnum := by
  obtain ⟨h1, h2, _, h4⟩ := runDev_blocks nchan p bundles sts blocks h hl
  have hkb : k < bundles.length := by omega
  obtain ⟨first, raws, ha⟩ := h2 bundles[k] (List.getElem_mem hkb)
  have hk4 := congrArg (fun l => l[k]?) h4
  simp only [List.getElem?_map, List.getElem?_eq_getElem hkb, List.getElem?_eq_getElem hk, Option.map_some, ha] at hk4
  obtain ⟨dg, rest, hd, data, hb, hp, hf⟩ := assemble_first nchan bundles[k] first raws ha
  refine ⟨dg, rest, hd, data, by rw [List.getElem?_eq_getElem hkb, hb], hp, ?_⟩
  rw [← hf]
  exact (Option.some.inj (Option.some.inj hk4)).symm

/-- the concatenated raw channel `i` of a run depends only on the concatenated datagram list -/
theorem rawChans_flatten (nchan i : Nat) (hi : i < nchan) :
    ∀ (bundles : List (List (List Nat))),
      (∀ b ∈ bundles, ∃ first raws, assemble nchan b = some (first, raws)) →
      (rawChans nchan i bundles).flatten = (bundles.flatten.map (pkChan nchan i)).flatten
  | [], _ => by simp [rawChans]
  | b :: bs, hall => by
    obtain ⟨first, raws, ha⟩ := hall b List.mem_cons_self
    rw [rawChans_cons nchan i b bs first raws ha, List.flatten_cons, List.flatten_cons, List.map_append,
      List.flatten_append, assemble_chan_dgs nchan b first raws ha i hi,
      rawChans_flatten nchan i hi bs (fun b' hb' => hall b' (List.mem_cons_of_mem _ hb'))]

/-! ### when the device runs -/

theorem mapM_some_mem {α β} (f : α → Option β) :
    ∀ (l : List α) (ys : List β), l.mapM f = some ys → ∀ a ∈ l, ∃ y ∈ ys, f a = some y
  | [], _, _, a, ha => by cases ha
  | x :: xs, ys, h, a, ha => by
    rw [mapM_cons_some] at h
    obtain ⟨y, yt, hx, hxs, rfl⟩ := h
    rcases List.mem_cons.mp ha with rfl | ha
    · exact ⟨y, List.mem_cons_self, hx⟩
    · obtain ⟨y', hy', hf⟩ := mapM_some_mem f xs yt hxs a ha
      exact ⟨y', List.mem_cons_of_mem _ hy', hf⟩

theorem mapM_of_forall {α β} (f : α → Option β) (P : β → Prop) :
    ∀ (l : List α), (∀ a ∈ l, ∃ y, f a = some y ∧ P y) →
      ∃ ys, l.mapM f = some ys ∧ (∀ y ∈ ys, P y) ∧ ys.length = l.length
  | [], _ => ⟨[], by simp, by simp, rfl⟩
  | x :: xs, h => by
    obtain ⟨y, hy, hpy⟩ := h x List.mem_cons_self
    obtain ⟨yt, hyt, hpt, hlt⟩ := mapM_of_forall f P xs (fun a ha => h a (List.mem_cons_of_mem _ ha))
    refine ⟨y :: yt, (mapM_cons_some f x xs _).mpr ⟨y, yt, hy, hyt, rfl⟩, ?_, by simp [hlt]⟩
    intro y' hy'
    rcases List.mem_cons.mp hy' with rfl | hy'
    · exact hpy
    · exact hpt y' hy'

/-- a datagram the device accepts: it parses and its header carries the device's channel count -/
def GoodDg (nchan : Nat) (dg : List Nat) : Prop := ∃ h d, parsePacket dg = some (h, d) ∧ h.nchan = nchan

/-- **exactly when a bundle assembles**: it is not empty, the device has channels, every datagram is accepted -/
theorem assemble_isSome_iff (nchan : Nat) (dgs : List (List Nat)) :
    (∃ first raws, assemble nchan dgs = some (first, raws)) ↔
      dgs ≠ [] ∧ 0 < nchan ∧ ∀ dg ∈ dgs, GoodDg nchan dg := by
  constructor
  · rintro ⟨first, raws, h⟩
    obtain ⟨dg, rest, _, _, hd, _, _⟩ := assemble_first nchan dgs first raws h
    obtain ⟨h0, d0, tl, hps, hall, hn, _, _⟩ := assemble_some nchan dgs first raws h
    refine ⟨by rw [hd]; exact List.cons_ne_nil _ _, hn, ?_⟩
    intro dg' hdg'
    obtain ⟨y, hy, hf⟩ := mapM_some_mem parsePacket dgs _ hps dg' hdg'
    exact ⟨y.1, y.2, hf, hall y hy⟩
  · rintro ⟨hne, hn, hall⟩
    obtain ⟨ps, hps, hpall, hlen⟩ := mapM_of_forall parsePacket (fun y => y.1.nchan = nchan) dgs
      (fun a ha => by
        obtain ⟨h, d, hp, hc⟩ := hall a ha
        exact ⟨(h, d), hp, hc⟩)
    cases ps with
    | nil =>
      cases dgs with
      | nil => exact absurd rfl hne
      | cons _ _ => simp at hlen
    | cons x tl =>
      obtain ⟨h0, d0⟩ := x
      exact ⟨_, _, assemble_of_parse nchan dgs h0 d0 tl hps hpall hn⟩

theorem runDev_cons_eq (nchan : Nat) (p : Params) (sts : List St) (b : List (List Nat))
    (bs : List (List (List Nat))) (first : Nat) (raws : List (List Nat))
    (ha : assemble nchan b = some (first, raws)) :
    runDev nchan p sts (b :: bs) =
      (runDev nchan p ((stepBlock p raws sts).map (·.1)) bs).map
        fun r => (first, (stepBlock p raws sts).map (·.2)) :: r := by
  rw [runDev, ha]
  simp only
  cases hr : runDev nchan p ((stepBlock p raws sts).map (·.1)) bs with
  | none =>
    have hr' : runDev nchan p (List.map (fun x => x.fst)
        (List.map (fun x => match x with | (raw, s) => unwrapCall p s raw) (raws.zip sts))) bs = none := hr
    rw [hr']
    rfl
  | some r =>
    have hr' : runDev nchan p (List.map (fun x => x.fst)
        (List.map (fun x => match x with | (raw, s) => unwrapCall p s raw) (raws.zip sts))) bs = some r := hr
    rw [hr']
    rfl

/-- **the device runs exactly when every bundle assembles** (the unwrappers never fail) -/
theorem runDev_isSome_iff (nchan : Nat) (p : Params) :
    ∀ (bundles : List (List (List Nat))) (sts : List St), sts.length = nchan →
      ((∃ blocks, runDev nchan p sts bundles = some blocks) ↔
        ∀ b ∈ bundles, ∃ first raws, assemble nchan b = some (first, raws))
  | [], sts, _ => by simp [runDev_nil]
  | b :: bs, sts, hl => by
    constructor
    · rintro ⟨blocks, h⟩
      exact (runDev_blocks nchan p (b :: bs) sts blocks h hl).2.1
    · intro hall
      obtain ⟨first, raws, ha⟩ := hall b List.mem_cons_self
      have hrl := assemble_length nchan b first raws ha
      have hsl := stepBlock_length p raws sts (by omega)
      obtain ⟨r, hr⟩ := (runDev_isSome_iff nchan p bs ((stepBlock p raws sts).map (·.1))
        (by rw [List.length_map, hsl]; exact hl)).mpr (fun b' hb' => hall b' (List.mem_cons_of_mem _ hb'))
      exact ⟨_, by rw [runDev_cons_eq nchan p sts b bs first raws ha, hr]; rfl⟩

/-! ### C12 at the device level -/

/-- channel `i` of a device started with the same state `s0` on every channel -/
theorem runDev_chan_replicate (nchan : Nat) (p : Params) (s0 : St) (bundles : List (List (List Nat)))
    (blocks : List (Nat × List (List Nat)))
    (h : runDev nchan p (List.replicate nchan s0) bundles = some blocks) (i : Nat) (hi : i < nchan) :
    blocks.map (fun b => b.2.getD i []) = (runCalls p s0 (rawChans nchan i bundles)).2 := by
  have := runDev_chan nchan p (List.replicate nchan s0) bundles blocks h List.length_replicate i hi
  rw [this, List.getElem_replicate]

/-- a device channel is `roachChan` (`Props/C12.lean`) of its de-interleaved raw samples -/
theorem roachChan_device (bias : Bool) (sign : Int) (p : Params) (s0 : St)
    (hmk : roachMk bias sign = some (p, s0)) (nchan : Nat) (bundles : List (List (List Nat)))
    (blocks : List (Nat × List (List Nat)))
    (h : runDev nchan p (List.replicate nchan s0) bundles = some blocks) (i : Nat) (hi : i < nchan) :
    roachChan bias sign (rawChans nchan i bundles) = some (blocks.map fun b => b.2.getD i []) := by
  unfold roachChan
  rw [hmk, runDev_chan_replicate nchan p s0 bundles blocks h i hi]
  rfl

/-- **C12 for a ROACH device** (`samplePacket` + `readPackets` + `parsePacket`; any option set, any channel
count, any bundles of datagrams on which the device runs, any channel): the concatenated raw input of the channel
is the concatenation over ALL datagrams of the run of the datagram's channel `i` (`pkChan`, i.e. words
`i + nchan·j` of the payload); the concatenated output has the same length; and every output sample equals the
raw sample, masked to 14 bits and with 2 bits dropped, plus a whole number of quanta (2^12) -/
theorem C12_roach_device (bias : Bool) (sign : Int) (p : Params) (s0 : St)
    (hmk : roachMk bias sign = some (p, s0)) (nchan : Nat) (bundles : List (List (List Nat)))
    (blocks : List (Nat × List (List Nat)))
    (h : runDev nchan p (List.replicate nchan s0) bundles = some blocks) (i : Nat) (hi : i < nchan) :
    let outs := (blocks.map fun b => b.2.getD i []).flatten
    let raws := (rawChans nchan i bundles).flatten
    raws = (bundles.flatten.map (pkChan nchan i)).flatten ∧
    outs.length = raws.length ∧
    ∀ k (hk : k < raws.length) (hk' : k < outs.length),
      outs[k] % 4096 = ((raws[k] &&& 16383) >>> 2) % 4096 := by
  obtain ⟨outs, hro, hlen, hmod, _⟩ := C12_roach_output_mod_quantum bias sign (rawChans nchan i bundles)
  rw [roachChan_device bias sign p s0 hmk nchan bundles blocks h i hi] at hro
  cases hro
  have hall := (runDev_blocks nchan p bundles _ blocks h List.length_replicate).2.1
  exact ⟨rawChans_flatten nchan i hi bundles hall, hlen, hmod⟩

/-- **bundling independence, raw-channel form**: two runs whose channel `i` has the same concatenated raw input
have the same concatenated output on channel `i` -/
theorem device_raw_independent (bias : Bool) (sign : Int) (p : Params) (s0 : St)
    (hmk : roachMk bias sign = some (p, s0)) (nchan : Nat) (bundles bundles' : List (List (List Nat)))
    (blocks blocks' : List (Nat × List (List Nat)))
    (h : runDev nchan p (List.replicate nchan s0) bundles = some blocks)
    (h' : runDev nchan p (List.replicate nchan s0) bundles' = some blocks') (i : Nat) (hi : i < nchan)
    (hraw : (rawChans nchan i bundles').flatten = (rawChans nchan i bundles).flatten) :
    (blocks'.map fun b => b.2.getD i []).flatten = (blocks.map fun b => b.2.getD i []).flatten := by
  obtain ⟨outs, hro, _, _, hind⟩ := C12_roach_output_mod_quantum bias sign (rawChans nchan i bundles)
  rw [roachChan_device bias sign p s0 hmk nchan bundles blocks h i hi] at hro
  cases hro
  obtain ⟨outs', hro', hfl⟩ := hind (rawChans nchan i bundles') hraw
  rw [roachChan_device bias sign p s0 hmk nchan bundles' blocks' h' i hi] at hro'
  cases hro'
  exact hfl

/-- **bundling independence, datagram form**: if the device runs on `bundles`, then on ANY other grouping of the
same datagrams into non-empty bundles (`bundles'.flatten = bundles.flatten`) it runs too, and on every channel
the concatenated output is the same -/
theorem device_bundling_independent (bias : Bool) (sign : Int) (p : Params) (s0 : St)
    (hmk : roachMk bias sign = some (p, s0)) (nchan : Nat) (bundles bundles' : List (List (List Nat)))
    (blocks : List (Nat × List (List Nat)))
    (h : runDev nchan p (List.replicate nchan s0) bundles = some blocks)
    (hfl : bundles'.flatten = bundles.flatten) (hne : ∀ b ∈ bundles', b ≠ []) :
    ∃ blocks', runDev nchan p (List.replicate nchan s0) bundles' = some blocks' ∧
      ∀ i, i < nchan →
        (blocks'.map fun b => b.2.getD i []).flatten = (blocks.map fun b => b.2.getD i []).flatten := by
  have hall := (runDev_blocks nchan p bundles _ blocks h List.length_replicate).2.1
  have hall' : ∀ b ∈ bundles', ∃ first raws, assemble nchan b = some (first, raws) := by
    intro b' hb'
    have hgood : ∀ dg ∈ b', 0 < nchan ∧ GoodDg nchan dg := by
      intro dg hdg
      have hmem : dg ∈ bundles.flatten := by
        rw [← hfl]
        exact List.mem_flatten.mpr ⟨b', hb', hdg⟩
      obtain ⟨b, hb, hdgb⟩ := List.mem_flatten.mp hmem
      obtain ⟨_, hn, hg⟩ := (assemble_isSome_iff nchan b).mp (hall b hb)
      exact ⟨hn, hg dg hdgb⟩
    rw [assemble_isSome_iff]
    cases b' with
    | nil => exact absurd rfl (hne [] hb')
    | cons dg rest =>
      exact ⟨List.cons_ne_nil _ _, (hgood dg List.mem_cons_self).1, fun dg' hdg' => (hgood dg' hdg').2⟩
  obtain ⟨blocks', h'⟩ := (runDev_isSome_iff nchan p bundles' _ List.length_replicate).mpr hall'
  refine ⟨blocks', h', ?_⟩
  intro i hi
  apply device_raw_independent bias sign p s0 hmk nchan bundles bundles' blocks blocks' h h' i hi
  rw [rawChans_flatten nchan i hi bundles' hall', rawChans_flatten nchan i hi bundles hall, hfl]

/-! ### non-vacuity: concrete datagrams

header = [unused, fluxramp, nchan (2 bytes), nsamp (2), flags (2), sampnum (8)], then the words, frame-major -/

/-- 2 channels, 2 frames, 2-byte words, sample number 1000; frames (100, 200), (104, 208) -/
def exDgA : List Nat := [0, 0, 0, 2, 0, 2, 0, 1, 0, 0, 0, 0, 0, 0, 3, 232, 0, 100, 0, 200, 0, 104, 0, 208]
/-- 2 channels, 2 frames, 2-byte words, sample number 1002; frames (108, 300), (16000, 4) -/
def exDgB : List Nat := [0, 0, 0, 2, 0, 2, 0, 1, 0, 0, 0, 0, 0, 0, 3, 234, 0, 108, 1, 44, 62, 128, 0, 4]
/-- 2 channels, 1 frame, 4-byte words, sample number 7; frame (0x01020304, 0x05060708) -/
def exDgC : List Nat := [0, 0, 0, 2, 0, 1, 0, 2, 0, 0, 0, 0, 0, 0, 0, 7, 1, 2, 3, 4, 5, 6, 7, 8]

example : parsePacket exDgA = some ({ nchan := 2, nsamp := 2, flags := 1, sampnum := 1000 }, [100, 200, 104, 208]) := by
  decide +kernel
example : parsePacket exDgB = some ({ nchan := 2, nsamp := 2, flags := 1, sampnum := 1002 }, [108, 300, 16000, 4]) := by
  decide +kernel
/-- 4-byte words: the upper halves 0x0102, 0x0506 -/
example : parsePacket exDgC = some ({ nchan := 2, nsamp := 1, flags := 2, sampnum := 7 }, [258, 1286]) := by
  decide +kernel
/-- a datagram cut inside the header's claim (16 header bytes only, claiming 2·2 words) still parses: the receive
buffer is zero-padded — while an unknown word length does not -/
example : parsePacket (exDgA.take 16) = some ({ nchan := 2, nsamp := 2, flags := 1, sampnum := 1000 }, [0, 0, 0, 0]) ∧
    parsePacket [0, 0, 0, 2, 0, 2, 0, 3] = none := by
  decide +kernel
example : chanOf 2 0 { nchan := 2, nsamp := 2, flags := 1, sampnum := 1002 } [108, 300, 16000, 4] = [108, 16000] ∧
    chanOf 2 1 { nchan := 2, nsamp := 2, flags := 1, sampnum := 1002 } [108, 300, 16000, 4] = [300, 4] := by
  decide
example : assemble 2 [exDgA, exDgB] = some (1000, [[100, 104, 108, 16000], [200, 208, 300, 4]]) := by
  decide +kernel
example : assemble 2 [exDgC] = some (7, [[258], [1286]]) := by
  decide +kernel
/-- an empty bundle and a bundle for another channel count are errors -/
example : assemble 2 [] = none ∧ assemble 3 [exDgA, exDgB] = none := by
  decide +kernel
/-- the hypotheses of `C12_roach_device` / `device_bundling_independent` are met: the device runs; one packet per
bundle and both packets in one bundle give the same concatenated channels ([4121, 4122, 4123, 4000] with an unwrap
on the last sample, and [4146, 4148, 4171, 4097]); a 4-byte-word bundle may follow -/
example :
    (roachMk true 1).bind (fun x => runDev 2 x.1 (List.replicate 2 x.2) [[exDgA], [exDgB]]) =
      some [(1000, [[4121, 4122], [4146, 4148]]), (1002, [[4123, 4000], [4171, 4097]])] ∧
    (roachMk true 1).bind (fun x => runDev 2 x.1 (List.replicate 2 x.2) [[exDgA, exDgB], [exDgC]]) =
      some [(1000, [[4121, 4122, 4123, 4000], [4146, 4148, 4171, 4097]]), (7, [[4160], [4417]])] ∧
    rawChans 2 0 [[exDgA], [exDgB]] = [[100, 104], [108, 16000]] ∧
    rawChans 2 1 [[exDgA, exDgB], [exDgC]] = [[200, 208, 300, 4], [1286]] := by
  decide +kernel

end DastardV.Roach
