/-
Helper lemmas for C01: control requests leave every channel's stream buffer and labels alone
(`Ctl`), and the source-level invariant `SrcInv` is preserved by every operation.
-/
import DastardV.Lemmas.Pipe3
namespace DastardV.Pipe
open Trig

/-- `c'` results from `c` by control requests / trigger passes: same stream, record-length
copies stay non-negative. -/
def Ctl (c c' : Chan) : Prop :=
  c'.buf = c.buf ∧ c'.first = c.first ∧ c'.t0 = c.t0 ∧ c'.period = c.period ∧ c'.signed = c.signed ∧
    ((0 ≤ c.nsamp ∧ 0 ≤ c.emt.nsamp) → (0 ≤ c'.nsamp ∧ 0 ≤ c'.emt.nsamp))

theorem Ctl.refl (c : Chan) : Ctl c c := ⟨rfl, rfl, rfl, rfl, rfl, id⟩

theorem Ctl.trans {a b c : Chan} (h1 : Ctl a b) (h2 : Ctl b c) : Ctl a c := by
  obtain ⟨a1, a2, a3, a4, a5, a6⟩ := h1
  obtain ⟨b1, b2, b3, b4, b5, b6⟩ := h2
  exact ⟨b1.trans a1, b2.trans a2, b3.trans a3, b4.trans a4, b5.trans a5, fun h => b6 (a6 h)⟩

theorem configureTrigger_ctl (c : Chan) (ts : TS) (emt : EMT) : Ctl c (configureTrigger c ts emt).1 := by
  unfold configureTrigger
  simp only
  split
  · exact Ctl.refl c
  · exact ⟨rfl, rfl, rfl, rfl, rfl, fun h => ⟨h.1, by simp; exact h.1⟩⟩

theorem configureLengths_ctl (c : Chan) (nsamp npre : Int) (hn : 0 ≤ nsamp) :
    Ctl c (configureLengths c nsamp npre).1 := by
  unfold configureLengths
  split
  · exact Ctl.refl c
  · exact ⟨rfl, rfl, rfl, rfl, rfl, fun _ => ⟨hn, by simp; exact hn⟩⟩

theorem emtSpecs_nsamp {raw : List Nat} {first : Int} {zt : ZT} {s s' : EMT} {specs : List Spec}
    (h : emtSpecs raw first zt s = some (s', specs)) : s'.nsamp = s.nsamp := by
  unfold emtSpecs at h
  simp only at h
  split at h
  · simp at h
  · rename_i iF t u v sp hloop
    simp only [Option.some.injEq, Prod.mk.injEq] at h
    obtain ⟨h1, _⟩ := h
    subst h1
    split <;> simp [EMT.reset]

theorem triggerData_ctl {c c' : Chan} {zt : ZT} {recs : List Rec}
    (h : triggerData c zt = some (c', recs)) : Ctl c c' := by
  have hs := (triggerData_recs h).1
  obtain ⟨h1, h2, h3, h4, h5, h6, h7, _⟩ := hs
  refine ⟨h1, h2, h3, h4, h5, ?_⟩
  intro ⟨hn, he⟩
  refine ⟨by rw [h7]; exact hn, ?_⟩
  -- the EMT copy of nsamp is untouched by the passes
  unfold triggerData at h
  split at h
  · split at h
    · simp at h
    · rename_i emt' specs hsp
      split at h
      · simp at h
      · simp only [Option.some.injEq, Prod.mk.injEq] at h
        obtain ⟨hc, _⟩ := h
        subst hc
        simp only
        rw [emtSpecs_nsamp hsp]; exact he
  · split at h
    · simp at h
    · split at h
      · simp at h
      · split at h
        · simp at h
        · split at h
          · simp at h
          · split at h
            · simp at h
            · split at h
              · simp at h
              · simp only [Option.some.injEq, Prod.mk.injEq] at h
                obtain ⟨hc, _⟩ := h
                subst hc
                exact he

/-- index-wise relation between two channel lists -/
def ListCtl (cs cs' : List Chan) : Prop :=
  cs'.length = cs.length ∧ ∀ (j : Nat) (c' : Chan), cs'[j]? = some c' → ∃ c, cs[j]? = some c ∧ Ctl c c'

theorem ListCtl.refl (cs : List Chan) : ListCtl cs cs :=
  ⟨rfl, fun _ c' h => ⟨c', h, Ctl.refl c'⟩⟩

theorem ListCtl.trans {a b c : List Chan} (h1 : ListCtl a b) (h2 : ListCtl b c) : ListCtl a c := by
  refine ⟨h2.1.trans h1.1, ?_⟩
  intro j c' hc
  obtain ⟨b', hb, hbc⟩ := h2.2 j c' hc
  obtain ⟨a', ha, hab⟩ := h1.2 j b' hb
  exact ⟨a', ha, hab.trans hbc⟩

theorem modifyChan_ctl (cs : List Chan) (i : Nat) (c0 c1 : Chan) (h0 : cs[i]? = some c0) (hc : Ctl c0 c1) :
    ListCtl cs (modifyChan cs i (fun _ => c1)) := by
  unfold modifyChan
  refine ⟨by simp, ?_⟩
  intro j c' hj
  simp only [List.getElem?_mapIdx] at hj
  cases hcs : cs[j]? with
  | none => simp [hcs] at hj
  | some c =>
    simp only [hcs, Option.map_some, Option.some.injEq] at hj
    refine ⟨c, rfl, ?_⟩
    split at hj
    · rename_i hji
      subst hji
      rw [h0] at hcs
      simp only [Option.some.injEq] at hcs
      subst hcs; subst hj
      exact hc
    · subst hj; exact Ctl.refl _

theorem changeTrig_go_ctl (ts : TS) (emt : EMT) : ∀ (idxs : List Int) (cs cs' : List Chan) (e : Bool),
    changeTrig.go ts emt cs idxs = some (cs', e) → ListCtl cs cs'
  | [], cs, cs', e, h => by
    simp [changeTrig.go] at h
    obtain ⟨rfl, _⟩ := h
    exact ListCtl.refl _
  | i :: rest, cs, cs', e, h => by
    unfold changeTrig.go at h
    split at h
    · simp at h
    · split at h
      · simp at h
      · rename_i c hc
        have hm := modifyChan_ctl cs i.toNat c (configureTrigger c ts emt).1 hc (configureTrigger_ctl c ts emt)
        simp only at h
        split at h
        · simp only [Option.some.injEq, Prod.mk.injEq] at h
          obtain ⟨rfl, _⟩ := h
          exact hm
        · exact hm.trans (changeTrig_go_ctl ts emt rest _ cs' e h)

theorem changeTrig_ctl {cs cs' : List Chan} {idxs : List Int} {ts : TS} {emt : EMT} {e : Bool}
    (h : changeTrig cs idxs ts emt = some (cs', e)) : ListCtl cs cs' := by
  unfold changeTrig at h
  split at h
  · simp only [Option.some.injEq, Prod.mk.injEq] at h; obtain ⟨rfl, _⟩ := h; exact ListCtl.refl _
  · split at h
    · simp only [Option.some.injEq, Prod.mk.injEq] at h; obtain ⟨rfl, _⟩ := h; exact ListCtl.refl _
    · exact changeTrig_go_ctl ts emt idxs cs cs' e h

theorem opTrig_ctl {s s' : Src} {r : TrigReq} {e : Bool} (h : opTrig s r = some (s', e)) :
    ListCtl s.chans s'.chans := by
  unfold opTrig at h
  simp only at h
  split at h
  · simp only [Option.some.injEq, Prod.mk.injEq] at h; obtain ⟨rfl, _⟩ := h; exact ListCtl.refl _
  · split at h
    · simp at h
    · rename_i cs e' hct
      simp only [Option.some.injEq, Prod.mk.injEq] at h
      obtain ⟨rfl, _⟩ := h
      exact changeTrig_ctl hct

theorem opLen_ctl (s : Src) (nsamp npre : Int) : ListCtl s.chans (opLen s nsamp npre).1.chans := by
  unfold opLen
  split
  · exact ListCtl.refl _
  · split
    · exact ListCtl.refl _
    · split
      · exact ListCtl.refl _
      · split
        · exact ListCtl.refl _
        · rename_i hpos _ _ _
          refine ⟨by simp, ?_⟩
          intro j c' hj
          simp only [List.getElem?_map] at hj
          cases hcs : s.chans[j]? with
          | none => simp [hcs] at hj
          | some c =>
            simp only [hcs, Option.map_some, Option.some.injEq] at hj
            subst hj
            exact ⟨c, rfl, configureLengths_ctl c nsamp npre (by omega)⟩

end DastardV.Pipe
