/-
C17 — `skeleton_ok` (Lemmas/C17Skel.lean), part H: the fields `kids_nodup`, `done_kid`, `add_adder`,
`wait_once`, `adds_before`, `start_head`, `start_root`, `recvc_one` of `System.OK`.  Core Lean only.
-/
import DastardV.Lemmas.C17SkelG
set_option linter.unusedSimpArgs false
namespace DastardV.C17
open Sched

section
variable (s : Sched)

/-! ### the programs of particular thread ids -/

theorem wgProg_tR : s.wgProg tR = [.wgAdd oRund] := by
  unfold wgProg; simp only [show clsOf tR = 0 from rfl, if_true]

theorem wgProg_tL : s.wgProg tL = s.wgL := by
  unfold wgProg; simp only [show clsOf tL = 1 from rfl, if_true]

theorem wgProg_tS : s.wgProg tS = [] := by
  unfold wgProg; simp only [show clsOf tS = 3 from rfl]

theorem wgProg_tA (hn : 0 < s.n) (e : Nat) :
    s.wgProg (s.tA e) = if s.merged = true ∧ e ≤ s.k then s.wgA e else [] := by
  have h1 : clsOf (s.tA e) = 4 := clsOf_enc (by decide)
  have h2 : idxOf (s.tA e) = e * s.n := idxOf_enc (by decide)
  have h3 : e * s.n % s.n = 0 := Nat.mul_mod_left _ _
  have h4 : e * s.n / s.n = e := Nat.mul_div_cancel _ hn
  unfold wgProg; simp only [h1, h2, h3, h4, true_and]

theorem adder_wgp (e : Nat) : s.adder (oWgp e) = tL := by
  unfold adder; simp only [show clsOf (oWgp e) = 11 from clsOf_enc (by decide)]

theorem adder_wga (e : Nat) : s.adder (oWga e) = s.tA e := by
  unfold adder; simp only [show clsOf (oWga e) = 10 from clsOf_enc (by decide),
    show idxOf (oWga e) = e from idxOf_enc (by decide)]

theorem mem_wgL {e : Ev} (h : e ∈ s.wgL) :
    e = .start ∨ e = .wgDone oRund ∨ ∃ b, b < s.k ∧ e ∈ s.wgBlock b := by
  rw [wgL_eq] at h
  simp only [List.mem_append, List.mem_singleton, mem_flatMap_rng] at h
  rcases h with (h | h) | h
  · exact Or.inl h
  · exact Or.inr (Or.inr h)
  · exact Or.inr (Or.inl h)

theorem mem_wgA {e : Ev} {b : Nat} (h : e ∈ s.wgA b) :
    e = .start ∨ e = .wgAdd (oWga b) ∨ e = .wgWait (oWga b) := by
  unfold wgA at h
  split at h
  · simp only [List.mem_append, List.mem_singleton, mem_flatMap_rng] at h
    rcases h with (h | ⟨_, _, h⟩) | h
    · exact Or.inl h
    · exact Or.inr (Or.inl h)
    · exact Or.inr (Or.inr h)
  · exact Or.inl (List.mem_singleton.1 h)

/-! ### kids_nodup -/

theorem nodup_map_enc (c e n : Nat) (l : List Nat) (h : l.Nodup) :
    (l.map (fun i => enc c (e * n + i))).Nodup := by
  refine List.Pairwise.map _ ?_ h
  intro a b hab he
  unfold enc at he
  exact hab (by omega)

theorem sys_kids_nodup (w : Obj) : (s.system.kids w).Nodup := by
  show (s.kids w).Nodup
  have hr : (rng s.n).Nodup := List.nodup_range
  unfold kids
  simp only []
  split
  · split
    · exact nodup_map_enc 5 _ _ _ hr
    · exact List.nodup_nil
  · split
    · split
      · exact nodup_map_enc _ _ _ _ hr
      · exact nodup_map_enc _ _ _ _ (hr.filter _)
    · exact List.nodup_nil
  · split
    · exact List.pairwise_singleton _ _
    · exact List.nodup_nil
  · exact List.nodup_nil

/-! ### done_kid -/

theorem done_not_mem_wgBlock (w : Obj) (b : Nat) : .wgDone w ∉ s.wgBlock b := by
  intro h; rcases mem_wgBlock s h with h | h | h | h <;> cases h

theorem done_mem_wgL {w : Obj} (h : .wgDone w ∈ s.wgL) : w = oRund := by
  rcases mem_wgL s h with h | h | ⟨b, _, h⟩
  · cases h
  · injection h
  · exact absurd h (done_not_mem_wgBlock s w b)

theorem mem_pair_done {w w' : Obj} (h : Ev.wgDone w ∈ [Ev.start, Ev.wgDone w']) : w = w' := by
  simp only [List.mem_cons, List.mem_nil_iff, or_false, reduceCtorEq, false_or, Ev.wgDone.injEq] at h
  exact h

theorem done_mem_kids (hn : 0 < s.n) (w : Obj) (t : Tid) (h : .wgDone w ∈ s.wgProg t) : t ∈ s.kids w := by
  rw [mem_kids s hn]
  unfold wgProg at h
  split at h
  next hc => split at h <;> simp at h
  next hc =>
    split at h
    next ht => exact Or.inr (Or.inr (Or.inr ⟨done_mem_wgL s h, ht⟩))
    next => cases h
  next hc => split at h <;> simp at h
  next hc =>
    split at h
    next hg => rcases mem_wgA s h with h | h | h <;> cases h
    next => cases h
  next hc =>
    split at h
    next hg => exact Or.inl ⟨mem_pair_done h, hg.1, hg.2, hc⟩
    next => cases h
  next hc =>
    split at h
    next hg => exact Or.inr (Or.inl ⟨mem_pair_done h, hg.1, by rw [hg.2]; exact hc⟩)
    next => cases h
  next hc =>
    split at h
    next hg => exact Or.inr (Or.inl ⟨mem_pair_done h, hg.1, by rw [hg.2]; exact hc⟩)
    next => cases h
  next hc =>
    split at h
    next hg => exact Or.inr (Or.inr (Or.inl ⟨mem_pair_done h, hg.1, by rw [hg.2.1]; exact hc, hg.2.2⟩))
    next => cases h
  next hc =>
    split at h
    next hg => exact Or.inr (Or.inr (Or.inl ⟨mem_pair_done h, hg.1, by rw [hg.2.1]; exact hc, hg.2.2⟩))
    next => cases h
  next hc => split at h <;> simp at h
  next => cases h

theorem cnt_pair_done (w : Obj) : cnt (.wgDone w) [.start, .wgDone w] = 1 := by
  simp [cnt, List.count_cons]

theorem cnt_done_wgL : cnt (.wgDone oRund) s.wgL = 1 := by
  rw [wgL_eq, cnt_append, cnt_append]
  have h1 : cnt (.wgDone oRund) ((rng s.k).flatMap s.wgBlock) = 0 :=
    cnt_eq_zero (by rw [mem_flatMap_rng]; rintro ⟨j, _, h⟩; exact done_not_mem_wgBlock s _ _ h)
  rw [h1]; simp [cnt, List.count_cons]

theorem cnt_done_of_kid (hn : 0 < s.n) (w : Obj) (t : Tid) (h : t ∈ s.kids w) :
    cnt (.wgDone w) (s.wgProg t) = 1 := by
  have hph := phase_le s (idxOf t / s.n)
  rcases (mem_kids s hn w t).1 h with ⟨rfl, h1, h2, hc⟩ | ⟨rfl, h2, hc⟩ | ⟨rfl, h2, hc, hs⟩ | ⟨rfl, rfl⟩
  · unfold wgProg; simp only [hc]
    rw [if_pos ⟨h1, h2⟩]; exact cnt_pair_done _
  · have : s.phase (idxOf t / s.n) = 0 ∨ s.phase (idxOf t / s.n) = 1 := by omega
    rcases this with hp | hp <;> rw [hp] at hc <;> unfold wgProg <;> simp only [hc]
    · rw [if_pos ⟨h2, hp⟩]; exact cnt_pair_done _
    · rw [if_pos ⟨h2, hp⟩]; exact cnt_pair_done _
  · have : s.phase (idxOf t / s.n) = 0 ∨ s.phase (idxOf t / s.n) = 1 := by omega
    rcases this with hp | hp <;> rw [hp] at hc <;> unfold wgProg <;> simp only [hc]
    · rw [if_pos ⟨h2, hp, hs⟩]; exact cnt_pair_done _
    · rw [if_pos ⟨h2, hp, hs⟩]; exact cnt_pair_done _
  · rw [wgProg_tL]; exact cnt_done_wgL s

theorem sys_done_kid (hn : 0 < s.n) (w : Obj) (t : Tid) :
    cnt (.wgDone w) (s.system.P t) = if t ∈ s.system.kids w then 1 else 0 := by
  show cnt (.wgDone w) (s.prog t) = if t ∈ s.kids w then 1 else 0
  rw [← cnt_filter rfl, filter_prog s hn]
  by_cases h : t ∈ s.kids w
  · rw [if_pos h]; exact cnt_done_of_kid s hn w t h
  · rw [if_neg h]; exact cnt_eq_zero (fun hm => h (done_mem_kids s hn w t hm))

/-! ### add_adder -/

/-- the object of an `Add` or `Wait` -/
def awObj : Ev → Option Obj
  | .wgAdd w => some w
  | .wgWait w => some w
  | _ => none

theorem aw_mem_adder (e : Ev) (w : Obj) (he : awObj e = some w) (t : Tid) (h : e ∈ s.wgProg t) :
    t = s.adder w := by
  unfold wgProg at h
  split at h
  next hc =>
    split at h
    next ht =>
      simp only [List.mem_cons, List.mem_nil_iff, or_false] at h
      have : w = oRund := by
        rcases h with rfl | rfl <;> simpa [awObj] using he.symm
      subst this; rw [ht]; rfl
    next => cases h
  next hc =>
    split at h
    next ht =>
      rcases mem_wgL s h with rfl | rfl | ⟨b, _, hb⟩
      · cases he
      · cases he
      · have : ∃ x, w = oWgp x := by
          rcases mem_wgBlock s hb with rfl | rfl | rfl | rfl <;> exact ⟨_, by simpa [awObj] using he.symm⟩
        obtain ⟨x, rfl⟩ := this
        rw [adder_wgp, ht]
    next => cases h
  next hc =>
    split at h
    · rw [List.mem_singleton] at h; subst h; cases he
    · cases h
  next hc =>
    split at h
    next hg =>
      have : w = oWga (idxOf t / s.n) := by
        rcases mem_wgA s h with rfl | rfl | rfl
        · cases he
        · simpa [awObj] using he.symm
        · simpa [awObj] using he.symm
      subst this
      rw [adder_wga]; unfold tA
      rw [eq_enc_iff (by decide)]
      refine ⟨hc, ?_⟩
      have := div_mul_add_mod (idxOf t) s.n
      rw [hg.2.1] at this; omega
    next => cases h
  all_goals first
    | cases h
    | (split at h
       · simp only [List.mem_cons, List.mem_nil_iff, or_false] at h
         first
           | (rcases h with rfl | rfl <;> cases he)
           | (subst h; cases he)
       · cases h)

theorem sys_add_adder (hn : 0 < s.n) (w : Obj) (t : Tid) (h : t ≠ s.system.adder w) :
    .wgAdd w ∉ s.system.P t ∧ .wgWait w ∉ s.system.P t := by
  show .wgAdd w ∉ s.prog t ∧ .wgWait w ∉ s.prog t
  constructor
  · intro hm
    rw [← mem_filter_wg rfl, filter_prog s hn] at hm
    exact h (aw_mem_adder s _ w rfl t hm)
  · intro hm
    rw [← mem_filter_wg rfl, filter_prog s hn] at hm
    exact h (aw_mem_adder s _ w rfl t hm)

/-! ### wait_once and adds_before -/

theorem wait_not_mem_wgL {e : Nat} (h : ¬ e / 2 < s.k) : .wgWait (oWgp e) ∉ s.wgL := by
  intro hm
  rcases mem_wgL s hm with h' | h' | ⟨b, hb, h'⟩
  · cases h'
  · cases h'
  · by_cases hb' : e / 2 = b
    · omega
    · exact (not_mem_wgBlock s hb').1 h'

theorem cnt_wait_wgL (e : Nat) : cnt (.wgWait (oWgp e)) s.wgL ≤ 1 := by
  rw [wgL_eq, cnt_append, cnt_append,
    cnt_flatMap_rng s.wgBlock s.k (e / 2) (fun j _ hj => (not_mem_wgBlock s (Ne.symm hj)).1)]
  have h1 : cnt (.wgWait (oWgp e)) [.start] = 0 := by simp [cnt, List.count_cons]
  have h2 : cnt (.wgWait (oWgp e)) [.wgDone oRund] = 0 := by simp [cnt, List.count_cons]
  rw [h1, h2]
  split
  · rw [cnt_wait_wgBlock s _ _ rfl]; omega
  · omega

theorem cnt_wait_wgA (w : Obj) (b : Nat) : cnt (.wgWait w) (s.wgA b) ≤ 1 := by
  unfold wgA
  split
  · rw [cnt_append, cnt_append, cnt_eq_zero (not_mem_adds _ (ne_add_wait _ _))]
    have h1 : cnt (.wgWait w) [.start] = 0 := by simp [cnt, List.count_cons]
    rw [h1]
    simp only [cnt, List.count_cons, List.count_nil]
    split <;> omega
  · simp [cnt, List.count_cons]

theorem eq_oWgp_of_cls {w : Obj} (h : clsOf w = 11) : w = oWgp (idxOf w) := by
  unfold oWgp; rw [← h]; exact (enc_dec w).symm

theorem eq_oWga_of_cls {w : Obj} (h : clsOf w = 10) : w = oWga (idxOf w) := by
  unfold oWga; rw [← h]; exact (enc_dec w).symm

theorem adder_other {w : Obj} (h10 : clsOf w ≠ 10) (h11 : clsOf w ≠ 11) : s.adder w = tR := by
  unfold adder
  split
  · next h => exact absurd h h10
  · next h => exact absurd h h11
  · rfl

theorem sys_wait_once (hn : 0 < s.n) (w : Obj) : cnt (.wgWait w) (s.system.P (s.system.adder w)) ≤ 1 := by
  show cnt (.wgWait w) (s.prog (s.adder w)) ≤ 1
  rw [← cnt_filter rfl, filter_prog s hn]
  by_cases h10 : clsOf w = 10
  · rw [eq_oWga_of_cls h10, adder_wga, wgProg_tA s hn]
    split
    · exact cnt_wait_wgA s _ _
    · exact Nat.zero_le _
  · by_cases h11 : clsOf w = 11
    · rw [eq_oWgp_of_cls h11, adder_wgp, wgProg_tL]; exact cnt_wait_wgL s _
    · rw [adder_other s h10 h11, wgProg_tR]
      simp only [cnt, List.count_cons, List.count_nil]
      split <;> simp

theorem AB_wgL (e : Nat) : AB (oWgp e) (s.kids (oWgp e)).length s.wgL := by
  by_cases hb : e / 2 < s.k
  · have hblk : AB (oWgp e) (s.kids (oWgp e)).length (s.wgBlock (e / 2)) := by
      have : e = 2 * (e / 2) ∨ e = 2 * (e / 2) + 1 := by omega
      rcases this with h | h
      · rw [h, kids_wgp0 s _ (by omega), List.length_map]
        have : 2 * (e / 2) / 2 = e / 2 := by omega
        rw [this]
        have hl : (rng s.n).length = s.n := by simp [rng]
        rw [hl]; exact AB_wgBlock0 s _
      · rw [h, kids_wgp1 s _ (by omega), List.length_map]
        have : (2 * (e / 2) + 1) / 2 = e / 2 := by omega
        rw [this]; exact AB_wgBlock1 s _
    rw [wgL_eq]
    refine ((AB.flatMap_rng s.wgBlock s.k (e / 2) hb hblk
      (fun j _ hj => not_mem_wgBlock s (Ne.symm hj))).append_left ?_ ?_).append_right ?_ ?_ <;> simp
  · exact AB.of_not_mem (wait_not_mem_wgL s hb)

theorem AB_wgA (e : Nat) :
    AB (oWga e) (s.kids (oWga e)).length (if s.merged = true ∧ e ≤ s.k then s.wgA e else []) := by
  by_cases hg : e < s.k ∧ s.src = 1
  · have hm : s.merged = true := merged_of_ne (by omega)
    rw [if_pos ⟨hm, by omega⟩, kids_wga s hg.2 e hg.1, List.length_map]
    have hl : (rng s.n).length = s.n := by simp [rng]
    unfold wgA
    rw [if_pos hg, hl]
    have h := AB.base (w := oWga e) (a := [.start] ++ (rng s.n).flatMap (fun _ => [.wgAdd (oWga e)])) (by
      simp only [List.mem_append, List.mem_singleton, not_or]
      exact ⟨by simp, not_mem_adds _ (ne_add_wait _ _)⟩)
    rw [cnt_append, cnt_const] at h
    simpa [cnt] using h
  · apply AB.of_not_mem
    split
    · unfold wgA; rw [if_neg hg]; simp
    · simp

theorem sys_adds_before (hn : 0 < s.n) (w : Obj) (pre post : List Ev)
    (h : s.system.P (s.system.adder w) = pre ++ .wgWait w :: post) :
    cnt (.wgAdd w) pre = (s.system.kids w).length ∧ .wgAdd w ∉ post := by
  refine AB.of_filter (l := s.prog (s.adder w)) (m := (s.kids w).length) ?_ pre post h
  rw [filter_prog s hn]
  by_cases h10 : clsOf w = 10
  · rw [eq_oWga_of_cls h10, adder_wga, wgProg_tA s hn]; exact AB_wgA s _
  · by_cases h11 : clsOf w = 11
    · rw [eq_oWgp_of_cls h11, adder_wgp, wgProg_tL]; exact AB_wgL s _
    · -- the run's wait group is never waited on (Stop waits on the closed channel `rundone`)
      rw [adder_other s h10 h11, wgProg_tR]
      exact AB.of_not_mem (by simp)

/-! ### start_root and start_head -/

theorem sys_start_root (hn : 0 < s.n) (t : Tid) (ht : t ∈ s.system.roots) : .start ∉ s.system.P t := by
  show .start ∉ s.prog t
  have ht' : t = tR ∨ t = tS := by simpa [Sched.system] using ht
  intro hm
  rw [← mem_filter_wg rfl, filter_prog s hn] at hm
  rcases ht' with rfl | rfl
  · rw [wgProg_tR] at hm; simp at hm
  · rw [wgProg_tS] at hm; cases hm

theorem start_not_mem_wgBlock (b : Nat) : .start ∉ s.wgBlock b := by
  intro h; rcases mem_wgBlock s h with h | h | h | h <;> cases h

theorem cnt_start_wgL : cnt .start s.wgL = 1 := by
  rw [wgL_eq, cnt_append, cnt_append]
  have h1 : cnt .start ((rng s.k).flatMap s.wgBlock) = 0 :=
    cnt_eq_zero (by rw [mem_flatMap_rng]; rintro ⟨j, _, h⟩; exact start_not_mem_wgBlock s _ h)
  rw [h1]; simp [cnt, List.count_cons]

theorem cnt_start_wgA (b : Nat) : cnt .start (s.wgA b) = 1 := by
  unfold wgA
  split
  · rw [cnt_append, cnt_append, cnt_eq_zero (not_mem_adds _ (fun h => by cases h))]
    simp [cnt, List.count_cons]
  · simp [cnt, List.count_cons]

theorem cnt_start_wgProg (t : Tid) : cnt .start (s.wgProg t) ≤ 1 := by
  unfold wgProg
  split
  · split <;> simp [cnt, List.count_cons]
  · split
    · rw [cnt_start_wgL]; exact Nat.le_refl _
    · exact Nat.zero_le _
  · split <;> simp [cnt, List.count_cons]
  · split
    · rw [cnt_start_wgA]; exact Nat.le_refl _
    · exact Nat.zero_le _
  all_goals first
    | exact Nat.zero_le _
    | (split <;> simp [cnt, List.count_cons])

theorem prog_head (hn : 0 < s.n) (t : Tid) (ht : t ∉ s.system.roots) :
    s.prog t = [] ∨ ∃ r, s.prog t = .start :: r := by
  have ht' : ¬ (t = tR ∨ t = tS) := by simpa [Sched.system] using ht
  have hn0 : (s.n == 0) = false := by simp; omega
  unfold prog
  simp only [hn0, Bool.false_eq_true, if_false]
  split
  · split
    next h => exact absurd (Or.inl (by simpa using h)) ht'
    next => exact Or.inl rfl
  · split
    · exact Or.inr ⟨_, rfl⟩
    · exact Or.inl rfl
  · split
    · exact Or.inr ⟨_, rfl⟩
    · exact Or.inl rfl
  · split
    next h => exact absurd (Or.inr (by simpa using h)) ht'
    next => exact Or.inl rfl
  · split
    · unfold progA; split <;> exact Or.inr ⟨_, rfl⟩
    · exact Or.inl rfl
  all_goals first
    | exact Or.inl rfl
    | (split
       · exact Or.inr ⟨_, rfl⟩
       · exact Or.inl rfl)

theorem sys_start_head (hn : 0 < s.n) (t : Tid) (ht : t ∉ s.system.roots) :
    s.system.P t = [] ∨ ∃ r, s.system.P t = .start :: r ∧ .start ∉ r := by
  show s.prog t = [] ∨ ∃ r, s.prog t = .start :: r ∧ .start ∉ r
  rcases prog_head s hn t ht with h | ⟨r, h⟩
  · exact Or.inl h
  · refine Or.inr ⟨r, h, fun hm => ?_⟩
    have h1 := cnt_start_wgProg s t
    rw [← filter_prog s hn, cnt_filter rfl, h] at h1
    have h2 : 0 < cnt .start r := List.count_pos_iff.2 hm
    have h3 : cnt .start (.start :: r) = cnt .start r + 1 := by simp [cnt, List.count_cons]
    omega

/-! ### recvc_one: only the control client receives from the closed per-run channel -/

/-- receives that observe a closed channel -/
def rcEv : Ev → Bool
  | .recvC _ => true
  | _ => false

theorem mem_filter_rc {e : Ev} (he : rcEv e = true) (l : List Ev) : e ∈ l.filter rcEv ↔ e ∈ l := by
  rw [List.mem_filter]; exact ⟨fun h => h.1, fun h => ⟨h, he⟩⟩

theorem rc_reqBody (b : Nat) : (s.reqBody b).filter rcEv = [] := by
  unfold reqBody
  split <;> simp [perChan, List.filter_flatMap, rcEv, flatMap_nil_fun]

theorem rc_blockL (b : Nat) : (s.blockL b).filter rcEv = [] := by
  unfold blockL
  simp only [List.filter_append, filter_ite, rc_reqBody, List.filter_cons, List.filter_nil, rcEv, perChan,
    List.filter_flatMap, Bool.false_eq_true, if_false, if_true, ite_self, flatMap_nil_fun, List.append_nil,
    List.nil_append]

theorem rc_progL : s.progL.filter rcEv = [.recvC oNbClose] := by
  unfold progL firstReq
  simp only [List.filter_append, filter_ite, rc_blockL, List.filter_cons, List.filter_nil, rcEv, perChan,
    List.filter_flatMap, Bool.false_eq_true, if_false, if_true, ite_self, flatMap_nil_fun, List.append_nil,
    List.nil_append]

theorem rc_progR : s.progR.filter rcEv = [.recvC oRunDone] := by
  unfold progR
  simp only [List.filter_append, filter_ite, List.filter_cons, List.filter_nil, rcEv, perChan,
    List.filter_flatMap, Bool.false_eq_true, if_false, if_true, ite_self, flatMap_nil_fun, List.append_nil,
    List.nil_append, List.cons_append]

theorem rc_progS : s.progS.filter rcEv = [] := by
  unfold progS
  simp only [List.filter_append, List.filter_cons, List.filter_nil, rcEv,
    List.filter_flatMap, Bool.false_eq_true, if_false, flatMap_nil_fun, List.append_nil]

theorem rc_progP : s.progP.filter rcEv = [.recvC oAbort] := by
  unfold progP
  simp only [List.filter_append, filter_ite, List.filter_cons, List.filter_nil, rcEv, perChan,
    List.filter_flatMap, Bool.false_eq_true, if_false, if_true, ite_self, flatMap_nil_fun, List.append_nil,
    List.nil_append]

theorem rc_progA_filter (b : Nat) : (s.progA b).filter rcEv = if b < s.k then [] else [.recvC oBufc] := by
  unfold progA
  by_cases hb : b < s.k
  · simp only [hb, if_true]
    simp only [List.filter_append, filter_ite, List.filter_cons, List.filter_nil, rcEv, perChan,
      List.filter_flatMap, Bool.false_eq_true, if_false, if_true, ite_self, flatMap_nil_fun, List.append_nil,
      List.nil_append]
  · simp only [hb, if_false]
    rfl

theorem rc_progA (b : Nat) {c : Obj} (h : .recvC c ∈ s.progA b) : c = oBufc := by
  rw [← mem_filter_rc rfl, rc_progA_filter] at h
  split at h
  · cases h
  · rw [List.mem_singleton] at h; injection h

theorem rundone_ne : oRunDone ≠ oNbClose ∧ oRunDone ≠ oAbort ∧ oRunDone ≠ oBufc := by decide

theorem recvC_rundone_tid (hn : 0 < s.n) (t : Tid) (h : .recvC oRunDone ∈ s.prog t) : t = tR := by
  have hn0 : (s.n == 0) = false := by simp; omega
  unfold prog at h
  simp only [hn0, Bool.false_eq_true, if_false] at h
  split at h
  · split at h
    next ht => simpa using ht
    next => cases h
  · split at h
    · rw [← mem_filter_rc rfl, rc_progL, List.mem_singleton] at h
      injection h with h; exact absurd h rundone_ne.1
    · cases h
  · split at h
    · rw [← mem_filter_rc rfl, rc_progP, List.mem_singleton] at h
      injection h with h; exact absurd h rundone_ne.2.1
    · cases h
  · split at h
    · rw [← mem_filter_rc rfl, rc_progS] at h; cases h
    · cases h
  · split at h
    · exact absurd (rc_progA s _ h) rundone_ne.2.2
    · cases h
  all_goals first
    | cases h
    | (split at h
       · simp [progAW, progW, progAR] at h
       · cases h)

theorem closePay_ne_nil {c : Obj} (h : s.system.sp.closePay c ≠ []) : c = oRunDone := by
  change (mkSpec s.par).closePay c ≠ [] at h
  by_cases hc : c = enc 14 0
  · exact hc
  · exact absurd (closePay_other s.par c hc) h

theorem sys_recvc_one (hn : 0 < s.n) (c : Obj) (h : s.system.sp.closePay c ≠ []) :
    (∀ t, t ≠ s.system.waiter c → .recvC c ∉ s.system.P t) ∧
      cnt (.recvC c) (s.system.P (s.system.waiter c)) ≤ 1 := by
  have hc := closePay_ne_nil s h
  subst hc
  show (∀ t, t ≠ tR → .recvC oRunDone ∉ s.prog t) ∧ cnt (.recvC oRunDone) (s.prog tR) ≤ 1
  refine ⟨fun t ht hm => ht (recvC_rundone_tid s hn t hm), ?_⟩
  have e : s.prog tR = s.progR := by
    have hn0 : (s.n == 0) = false := by simp; omega
    unfold prog; simp only [hn0, show clsOf tR = 0 from rfl, BEq.rfl, if_true]
  rw [e]
  have : cnt (.recvC oRunDone) (s.progR.filter rcEv) = cnt (.recvC oRunDone) s.progR := by
    unfold cnt; exact List.count_filter (by rfl)
  rw [← this, rc_progR]
  simp [cnt]

end
end DastardV.C17
