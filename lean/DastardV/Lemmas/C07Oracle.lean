/-
C07 — the correspondence comparison of the model's and the implementation's token streams is exact:
`firstDiffTok a b i` answers `none` precisely when the two streams are EQUAL (same tokens, same order, same
length), and otherwise names a position `≥ i`.  So "no correspondence difference" in a C07 run means the
real writer's observed history is, token for token, a history the model theorems (`q_fifo`,
`C07_whole_records_only`, …) speak about.
-/
import DastardV.Model.C07
namespace DastardV.C07

theorem firstDiffTok_none_iff : ∀ (a b : List Tok) (i : Nat), firstDiffTok a b i = none ↔ a = b
  | [], [], _ => by simp [firstDiffTok]
  | [], _ :: _, _ => by simp [firstDiffTok]
  | _ :: _, [], _ => by simp [firstDiffTok]
  | x :: as, y :: bs, i => by
    by_cases h : x = y
    · simp [firstDiffTok, h, firstDiffTok_none_iff as bs (i + 1)]
    · simp [firstDiffTok, h]

/-- a reported position is never before the starting index and lies within the longer stream -/
theorem firstDiffTok_some_ge : ∀ (a b : List Tok) (i k : Nat), firstDiffTok a b i = some k → i ≤ k
  | [], [], _, _, h => by simp [firstDiffTok] at h
  | [], _ :: _, i, k, h => by simp [firstDiffTok] at h; omega
  | _ :: _, [], i, k, h => by simp [firstDiffTok] at h; omega
  | x :: as, y :: bs, i, k, h => by
    by_cases hxy : x = y
    · simp only [firstDiffTok, hxy, if_true] at h
      have := firstDiffTok_some_ge as bs (i + 1) k h
      omega
    · simp [firstDiffTok, hxy] at h; omega

end DastardV.C07
