/-
C05 — the invariant of the file-writer / publisher machine: at every moment the bytes handed to
the file (flushed ++ pending) are header ++ encodings of the records accepted so far, the file
exists iff a non-empty batch got through, and nothing is pending once the writer was stopped.
-/
import DastardV.Model.C05
namespace DastardV.C05

variable {ρ : Type}

structure Good (F : Fmt ρ) (s : PubSt) (acc : List ρ) (t : Bool) : Prop where
  created_eq : s.f.created = t
  hdr_eq : s.f.hdr = t
  content : s.f.disk ++ s.f.pending = if t then F.header ++ acc.flatMap F.enc else []
  acc_nil : t = false → acc = []
  live_of_t : t = true → s.ctl.sel = true ∧ s.ctl.phase ≠ .idle
  stopped_flushed : s.ctl.phase = .stopped → s.f.pending = []

theorem good_init (F : Fmt ρ) : Good F {} [] false :=
  ⟨rfl, rfl, rfl, fun _ => rfl, (fun h => by cases h), (fun h => by cases h)⟩

theorem taken_nil (F : Fmt ρ) : taken F [] = [] := by
  unfold taken; split <;> rfl

theorem flush_content (f : FileSt) : f.flush.disk ++ f.flush.pending = f.disk ++ f.pending := by
  simp [FileSt.flush]

theorem close_content (f : FileSt) : f.close.disk ++ f.close.pending = f.disk ++ f.pending := by
  simp [FileSt.close, FileSt.flush]

/-- flushing keeps the invariant (used for flush / pause / unpause) -/
theorem good_flushlike (F : Fmt ρ) (s : PubSt) (acc : List ρ) (t : Bool) (h : Good F s acc t)
    (c' : Ctl) (hsel : c'.sel = s.ctl.sel) (hph : c'.phase = s.ctl.phase) :
    Good F { ctl := c', f := if live s.ctl s.f then s.f.flush else s.f } acc t := by
  by_cases hl : live s.ctl s.f = true
  · simp only [hl, if_true]
    refine ⟨h.created_eq, h.hdr_eq, ?_, h.acc_nil, ?_, ?_⟩
    · rw [flush_content]; exact h.content
    · intro ht; rw [hsel, hph]; exact h.live_of_t ht
    · intro _; rfl
  · simp only [hl]
    refine ⟨h.created_eq, h.hdr_eq, h.content, h.acc_nil, ?_, ?_⟩
    · intro ht; rw [hsel, hph]; exact h.live_of_t ht
    · intro hs; rw [hph] at hs; exact h.stopped_flushed hs

theorem writing_active (c : Ctl) (h : writing c = true) : c.phase = .active ∧ c.sel = true := by
  unfold writing at h
  simp only [Bool.and_eq_true, beq_iff_eq] at h
  exact ⟨h.1.1, h.1.2⟩

theorem good_step (F : Fmt ρ) (s : PubSt) (acc : List ρ) (t : Bool) (h : Good F s acc t) (op : Op ρ) :
    Good F (step F s op) (acc ++ accStep F s.ctl op) (t || touchStep s.ctl op) := by
  cases op with
  | start sel reset =>
    simp only [step, fileStep, accStep, touchStep, List.append_nil, Bool.or_false, ctlStep]
    by_cases hid : s.ctl.phase = .idle
    · have ht : t = false := by
        cases t with
        | false => rfl
        | true => exact absurd hid (h.live_of_t rfl).2
      subst ht
      simp only [hid, if_true]
      exact ⟨h.created_eq, h.hdr_eq, h.content, h.acc_nil, (fun hh => by cases hh), (fun hh => by cases hh)⟩
    · simp only [hid, if_false]
      exact ⟨h.created_eq, h.hdr_eq, h.content, h.acc_nil, h.live_of_t, h.stopped_flushed⟩
  | publish batch =>
    simp only [step, fileStep, accStep, touchStep, ctlStep]
    by_cases hw : writing s.ctl = true
    · obtain ⟨hact, hsel⟩ := writing_active _ hw
      cases batch with
      | nil =>
        simp only [hw, List.isEmpty_nil, Bool.not_true, Bool.and_false, if_true, taken_nil,
          List.append_nil, Bool.or_false]
        exact ⟨h.created_eq, h.hdr_eq, h.content, h.acc_nil, h.live_of_t, h.stopped_flushed⟩
      | cons r rs =>
        simp only [hw, List.isEmpty_cons, Bool.not_false, Bool.and_true, if_true, Bool.or_true]
        cases t with
        | true =>
          have hh : s.f.hdr = true := h.hdr_eq
          simp only [hh, if_true]
          refine ⟨h.created_eq, hh, ?_, (fun hh => by cases hh), (fun _ => ⟨hsel, by rw [hact]; decide⟩),
            (fun hs => by rw [hact] at hs; cases hs)⟩
          have hc := h.content
          simp only [if_true] at hc
          simp only [FileSt.write, if_true, List.flatMap_append, ← List.append_assoc, hc]
        | false =>
          have hh : s.f.hdr = false := h.hdr_eq
          have hc := h.content
          simp only [Bool.false_eq_true, if_false, List.append_eq_nil_iff] at hc
          have hacc : acc = [] := h.acc_nil rfl
          simp only [hh, Bool.false_eq_true, if_false]
          refine ⟨rfl, rfl, ?_, (fun hh => by cases hh), (fun _ => ⟨hsel, by rw [hact]; decide⟩),
            (fun hs => by rw [hact] at hs; cases hs)⟩
          simp only [FileSt.write, hc.1, hc.2, hacc, if_true, List.nil_append]
    · have hw' : writing s.ctl = false := by simpa using hw
      simp only [hw', Bool.false_and, Bool.false_eq_true, if_false, List.append_nil, Bool.or_false]
      exact ⟨h.created_eq, h.hdr_eq, h.content, h.acc_nil, h.live_of_t, h.stopped_flushed⟩
  | flush =>
    simp only [step, fileStep, accStep, touchStep, List.append_nil, Bool.or_false, ctlStep]
    exact good_flushlike F s acc t h s.ctl rfl rfl
  | pause =>
    simp only [step, fileStep, accStep, touchStep, List.append_nil, Bool.or_false, ctlStep]
    exact good_flushlike F s acc t h _ rfl rfl
  | unpause =>
    simp only [step, fileStep, accStep, touchStep, List.append_nil, Bool.or_false, ctlStep]
    exact good_flushlike F s acc t h _ rfl rfl
  | stop =>
    simp only [step, fileStep, accStep, touchStep, List.append_nil, Bool.or_false, ctlStep]
    by_cases hact : s.ctl.phase = .active
    · simp only [hact, if_true]
      by_cases hl : live s.ctl s.f = true
      · simp only [hl, if_true]
        refine ⟨h.created_eq, h.hdr_eq, ?_, h.acc_nil, ?_, fun _ => rfl⟩
        · rw [close_content]; exact h.content
        · intro ht; exact ⟨(h.live_of_t ht).1, by simp⟩
      · simp only [hl]
        refine ⟨h.created_eq, h.hdr_eq, h.content, h.acc_nil, ?_, ?_⟩
        · intro ht; exact ⟨(h.live_of_t ht).1, by simp⟩
        · intro _
          -- not live although active: the file was never created, so nothing is pending
          cases t with
          | true =>
            have hsel := (h.live_of_t rfl).1
            have hcr : s.f.created = true := h.created_eq
            exact absurd (by simp [live, hact, hsel, hcr]) hl
          | false =>
            have hc := h.content
            simp only [Bool.false_eq_true, if_false, List.append_eq_nil_iff] at hc
            exact hc.2
    · simp only [hact, if_false]
      have hl : live s.ctl s.f = false := by
        unfold live
        have : (s.ctl.phase == Phase.active) = false := by simpa using hact
        simp [this]
      simp only [hl, Bool.false_eq_true, if_false]
      exact ⟨h.created_eq, h.hdr_eq, h.content, h.acc_nil, h.live_of_t, h.stopped_flushed⟩

theorem good_run (F : Fmt ρ) (ops : List (Op ρ)) (s : PubSt) (acc : List ρ) (t : Bool) (h : Good F s acc t) :
    Good F (run F s ops) (acc ++ accepted F s.ctl ops) (t || touched s.ctl ops) := by
  induction ops generalizing s acc t with
  | nil => simpa [run, accepted, touched] using h
  | cons op ops ih =>
    have h1 := good_step F s acc t h op
    have h2 := ih (step F s op) _ _ h1
    simp only [run, List.foldl_cons, accepted, touched] at h2 ⊢
    have hc : (step F s op).ctl = ctlStep s.ctl op := rfl
    rw [hc] at h2
    simpa [List.append_assoc, Bool.or_assoc] using h2

end DastardV.C05
