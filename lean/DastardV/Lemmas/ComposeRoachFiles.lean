/-
ROACH, end to end: UDP datagrams → device blocks (through the per-channel unwrappers) → pipeline → LJH 2.2 files.

* `roachBlockOp` — a block of the ROACH device model (`runDev`) as a block operation of the pipeline model: first
  frame = the block's first frame index (one frame per sample), every channel signed, the channels' data as they
  leave the unwrappers.
* `Contiguous` — the datagram stream has no loss: every datagram is accepted by the device, no bundle is empty and
  every datagram's sample number is the previous one's plus the previous one's sample count (across bundles).
* `roach_blocks_contiguous` — then the device's blocks are numbered `f0, f0 + len₀, f0 + len₀ + len₁, …`, every
  block has `nchan` channels, all of the block's length (`roach_blocks_from` is the recursive form).
* `roach_blocks_opsOK` — hence they are valid pipeline input (`Pipe.OpsOK`) that leaves the settings alone.
* `roach_to_ljh22_files` — what a ROACH sends as UDP datagrams is what ends up in the files, through the unwrapper.
-/
import DastardV.Lemmas.RoachDevice
import DastardV.Lemmas.ComposeEndToEnd
namespace DastardV.Roach
open C12 Pipe Compose

/-! ### the device block as a pipeline operation -/

/-- a block of the ROACH device as a block operation of the pipeline model: the first frame is the block's first
frame index (ROACH: one frame per sample), every channel is signed (`DataSegment.signed = true`), the data are the
block's channels; time stamp and period are irrelevant to `OpsOK` and chosen by `mk` (as in `blockOp`/`lblockOp`) -/
def roachBlockOp (mk : (Nat × List (List Nat)) → Int × Int) (b : Nat × List (List Nat)) : Op :=
  .block (b.1 : Int) (mk b).1 (mk b).2 (List.replicate b.2.length true) b.2

/-! ### a loss-free datagram stream -/

/-- the datagrams, in order, are accepted by a device of `nchan` channels and carry consecutive sample numbers from
`f` on: each one's `sampnum` is the previous one's `sampnum + nsamp` -/
def ContigFrom (nchan : Nat) : Nat → List (List Nat) → Prop
  | _, [] => True
  | f, dg :: rest =>
    ∃ h d, parsePacket dg = some (h, d) ∧ h.nchan = nchan ∧ h.sampnum = f ∧ ContigFrom nchan (f + h.nsamp) rest

/-- **a loss-free run**: no bundle is empty, every datagram parses with channel count `nchan`, the first datagram of
the run has sample number `f0` and every later one the previous one's `sampnum + nsamp`, across bundle boundaries
too -/
def Contiguous (nchan f0 : Nat) (bundles : List (List (List Nat))) : Prop :=
  (∀ b ∈ bundles, b ≠ []) ∧ ContigFrom nchan f0 bundles.flatten

/-- the common per-channel length of a block (channel 0; `roach_blocks_contiguous`: every channel has it) -/
def blockLen (blk : Nat × List (List Nat)) : Nat := (blk.2.getD 0 []).length

/-- `f, f + n₀, f + n₀ + n₁, …` -/
def framesFrom : Nat → List Nat → List Nat
  | _, [] => []
  | f, n :: ns => f :: framesFrom (f + n) ns

/-- the blocks have `nchan` channels each, all of one length per block, and are numbered consecutively from `f` -/
def BlocksFrom (nchan : Nat) : Nat → List (Nat × List (List Nat)) → Prop
  | _, [] => True
  | f, blk :: rest =>
    blk.1 = f ∧ blk.2.length = nchan ∧ ∃ n, (∀ ch ∈ blk.2, ch.length = n) ∧ BlocksFrom nchan (f + n) rest

/-! ### lengths through the unwrapper -/

/-- `UnwrapInPlace` keeps the length of its data -/
theorem unwrapCall_length (p : Params) (s : St) (data : List Nat) :
    (unwrapCall p s data).2.length = data.length := by
  unfold unwrapCall
  split
  · simp
  · split
    · simp
    · rw [runV_length, List.length_map]

/-- every channel of a stepped block is as long as its raw channel -/
theorem stepBlock_chan_length (p : Params) (raws : List (List Nat)) (sts : List St) (n : Nat)
    (hr : ∀ raw ∈ raws, raw.length = n) :
    ∀ ch ∈ (stepBlock p raws sts).map (·.2), ch.length = n := by
  intro ch hch
  obtain ⟨x, hx, rfl⟩ := List.mem_map.mp hch
  unfold stepBlock at hx
  obtain ⟨y, hy, rfl⟩ := List.mem_map.mp hx
  rw [unwrapCall_length]
  exact hr _ (List.of_mem_zip hy).1

/-- the packets of a bundle use up `Σ nsamp` sample numbers of a contiguous stream; the first packet (if any)
carries the stream's current sample number -/
theorem contigFrom_append (nchan : Nat) :
    ∀ (a c : List (List Nat)) (ps : List (Hdr × List Nat)) (f : Nat),
      a.mapM parsePacket = some ps → ContigFrom nchan f (a ++ c) →
      ContigFrom nchan (f + (ps.map fun x => x.1.nsamp).sum) c ∧ ∀ x ∈ ps.head?, x.1.sampnum = f
  | [], c, ps, f, hps, hc => by
    rw [mapM_nil_some] at hps
    subst hps
    exact ⟨by simpa using hc, by simp⟩
  | dg :: a, c, ps, f, hps, hc => by
    rw [mapM_cons_some] at hps
    obtain ⟨y, yt, hy, hyt, rfl⟩ := hps
    obtain ⟨h, d, hp, _, hs, hrest⟩ := hc
    rw [hy] at hp
    cases hp
    obtain ⟨ih, _⟩ := contigFrom_append nchan a c yt _ hyt hrest
    refine ⟨?_, ?_⟩
    · rw [List.map_cons, List.sum_cons, ← Nat.add_assoc]
      exact ih
    · intro x hx
      simp only [List.head?_cons, Option.mem_def, Option.some.injEq] at hx
      subst hx
      exact hs

/-- the datagrams of a contiguous stream are accepted by the device -/
theorem contigFrom_good (nchan : Nat) : ∀ (l : List (List Nat)) (f : Nat), ContigFrom nchan f l →
    ∀ dg ∈ l, GoodDg nchan dg
  | [], _, _, _, h => by cases h
  | x :: xs, f, hc, dg, hdg => by
    obtain ⟨h, d, hp, hn, _, hrest⟩ := hc
    rcases List.mem_cons.mp hdg with rfl | hdg
    · exact ⟨h, d, hp, hn⟩
    · exact contigFrom_good nchan xs _ hrest dg hdg

/-- **a contiguous run is one the device runs on** (`nchan ≥ 1`): no error, no panic -/
theorem roach_contiguous_runs (nchan : Nat) (hn : 1 ≤ nchan) (p : Params) (sts : List St) (hl : sts.length = nchan)
    (f0 : Nat) (bundles : List (List (List Nat))) (hc : Contiguous nchan f0 bundles) :
    ∃ blocks, runDev nchan p sts bundles = some blocks := by
  rw [runDev_isSome_iff nchan p bundles sts hl]
  intro b hb
  rw [assemble_isSome_iff]
  refine ⟨hc.1 b hb, hn, ?_⟩
  intro dg hdg
  exact contigFrom_good nchan _ f0 hc.2 dg (List.mem_flatten.mpr ⟨b, hb, hdg⟩)

/-! ### the blocks of a contiguous run -/

/-- **recursive form of `roach_blocks_contiguous`**: on a contiguous datagram stream starting at sample number `f`,
the blocks of the device have `nchan` channels each, all of the block's length, and first frame indices
`f, f + len₀, f + len₀ + len₁, …` -/
theorem roach_blocks_from (nchan : Nat) (p : Params) :
    ∀ (bundles : List (List (List Nat))) (sts : List St) (blocks : List (Nat × List (List Nat))) (f : Nat),
      runDev nchan p sts bundles = some blocks → sts.length = nchan →
      ContigFrom nchan f bundles.flatten → BlocksFrom nchan f blocks
  | [], sts, blocks, f, h, _, _ => by
    rw [runDev_nil] at h
    cases h
    trivial
  | b :: bs, sts, blocks, f, h, hl, hc => by
    obtain ⟨first, raws, r, ha, hr, rfl⟩ := runDev_cons nchan p sts b bs blocks h
    obtain ⟨h0, d0, tl, hps, _, _, hfirst, hraws⟩ := assemble_some nchan b first raws ha
    have hrl := assemble_length nchan b first raws ha
    have hsl := stepBlock_length p raws sts (by omega)
    rw [List.flatten_cons] at hc
    obtain ⟨hc', hhead⟩ := contigFrom_append nchan b bs.flatten _ f hps hc
    have hf : first = f := by
      rw [hfirst]
      exact hhead (h0, d0) (by simp)
    refine ⟨hf, by simp only [List.length_map, hsl, hl],
      (((h0, d0) :: tl).map fun x => x.1.nsamp).sum, ?_, ?_⟩
    · apply stepBlock_chan_length
      intro raw hraw
      rw [hraws] at hraw
      obtain ⟨i, _, rfl⟩ := List.mem_map.mp hraw
      exact chanCat_length nchan i _
    · exact roach_blocks_from nchan p bs _ r _ hr (by rw [List.length_map, hsl]; exact hl) hc'

/-- the recursive form gives the list of first frame indices and the shape of every block -/
theorem blocksFrom_frames (nchan : Nat) (hn : 1 ≤ nchan) :
    ∀ (blocks : List (Nat × List (List Nat))) (f : Nat), BlocksFrom nchan f blocks →
      blocks.map (·.1) = framesFrom f (blocks.map blockLen) ∧
      ∀ blk ∈ blocks, blk.2.length = nchan ∧ ∀ ch ∈ blk.2, ch.length = blockLen blk
  | [], _, _ => ⟨rfl, by simp⟩
  | blk :: rest, f, h => by
    obtain ⟨hf, hlen, n, hall, hrest⟩ := h
    have h0 : blockLen blk = n := by
      unfold blockLen
      have h0l : 0 < blk.2.length := by omega
      rw [List.getD_eq_getElem?_getD, List.getElem?_eq_getElem h0l]
      exact hall _ (List.getElem_mem h0l)
    obtain ⟨ih1, ih2⟩ := blocksFrom_frames nchan hn rest (f + n) hrest
    refine ⟨?_, ?_⟩
    · rw [List.map_cons, List.map_cons, framesFrom, h0, ← ih1, hf]
    · intro blk' hblk'
      rcases List.mem_cons.mp hblk' with rfl | hblk'
      · exact ⟨hlen, fun ch hch => by rw [h0]; exact hall ch hch⟩
      · exact ih2 blk' hblk'

/-- **the blocks of a loss-free ROACH run are numbered contiguously.**  For any unwrapper parameters and states
(one per channel), `nchan ≥ 1` and any contiguous datagram history from sample number `f0` on which the device
produced `blocks`: the first frame indices of the blocks are `f0, f0 + len₀, f0 + len₀ + len₁, …`, where `lenₖ` is
the length of channel 0 of block `k`; every block has `nchan` channels and every channel of block `k` has length
`lenₖ` (the unwrappers keep lengths: `unwrapCall_length`) -/
theorem roach_blocks_contiguous (nchan : Nat) (hn : 1 ≤ nchan) (p : Params) (sts : List St)
    (hl : sts.length = nchan) (f0 : Nat) (bundles : List (List (List Nat)))
    (hc : Contiguous nchan f0 bundles) (blocks : List (Nat × List (List Nat)))
    (h : runDev nchan p sts bundles = some blocks) :
    blocks.map (·.1) = framesFrom f0 (blocks.map blockLen) ∧
    ∀ blk ∈ blocks, blk.2.length = nchan ∧ ∀ ch ∈ blk.2, ch.length = blockLen blk :=
  blocksFrom_frames nchan hn blocks f0 (roach_blocks_from nchan p bundles sts blocks f0 h hl hc.2)

/-! ### valid pipeline input -/

/-- blocks of `nchan` equally long channels numbered consecutively from `f` are valid pipeline input -/
theorem blocksFrom_opsOK (mk : (Nat × List (List Nat)) → Int × Int) (nchan : Nat) :
    ∀ (blocks : List (Nat × List (List Nat))) (f : Nat), BlocksFrom nchan f blocks →
      OpsOK nchan (f : Int) (blocks.map (roachBlockOp mk))
  | [], _, _ => trivial
  | blk :: rest, f, h => by
    obtain ⟨hf, hlen, n, hall, hrest⟩ := h
    refine ⟨hlen, n, hall, Int.natCast_nonneg _, by rw [hf], ?_⟩
    rw [← Int.natCast_add]
    exact blocksFrom_opsOK mk nchan rest (f + n) hrest

/-- **the blocks of a loss-free ROACH run are valid pipeline input** (`Pipe.OpsOK` from frame `f0`: one segment per
channel, all of one length, consecutive frame numbers ≥ 0), and block operations leave the settings alone -/
theorem roach_blocks_opsOK (mk : (Nat × List (List Nat)) → Int × Int) (nchan : Nat) (p : Params) (sts : List St)
    (hl : sts.length = nchan) (f0 : Nat) (bundles : List (List (List Nat)))
    (hc : Contiguous nchan f0 bundles) (blocks : List (Nat × List (List Nat)))
    (h : runDev nchan p sts bundles = some blocks) :
    OpsOK nchan (f0 : Int) (blocks.map (roachBlockOp mk)) ∧
    ∀ o ∈ blocks.map (roachBlockOp mk), KeepsSettings o :=
  ⟨blocksFrom_opsOK mk nchan blocks f0 (roach_blocks_from nchan p bundles sts blocks f0 h hl hc.2),
   keepsSettings_blocks (roachBlockOp mk) (fun _ => ⟨_, _, _, _, _, rfl⟩) blocks⟩

/-! ### from the datagrams to the files -/

/-- **ROACH, unconditionally: from the UDP datagrams to every channel's file, through the unwrapper.**  For every
option set (`bias`, `sign`) with `(p, s0)` the unwrapper `samplePacket` wires, every channel count `nchan` (a device
that ran on at least one bundle has `nchan ≥ 1`; the hypothesis is not needed), every loss-free datagram history (`Contiguous`, any grouping into bundles) on which the device produced `blocks`, any
stamping `mk` of the blocks, any restored trigger settings, valid record lengths and zero-threshold tables:

* the source processes the blocks (signed, one frame per sample, first frame = the first packet's sample number)
  without a panic;
* for every channel `j`: the stream the pipeline receives on `j` is exactly the `j`-th de-interleaved channel of the
  datagrams run through the channel's unwrapper (`roachChan`: output ≡ masked input modulo the quantum,
  `C12_roach_device`), and the raw channel is the concatenation over ALL datagrams of the run of words `j + nchan·k`;
* every record of channel `j` has the configured lengths, and the channel's LJH 2.2 file written over that period
  reads back as exactly the channel's published records. -/
theorem roach_to_ljh22_files (bias : Bool) (sign : Int) (p : Params) (s0 : St)
    (hmk : roachMk bias sign = some (p, s0)) (nchan : Nat) (f0 : Nat)
    (bundles : List (List (List Nat))) (hc : Contiguous nchan f0 bundles)
    (blocks : List (Nat × List (List Nat)))
    (h : runDev nchan p (List.replicate nchan s0) bundles = some blocks)
    (mk : (Nat × List (List Nat)) → Int × Int)
    (npre nsamp : Int) (hlen : 3 ≤ npre ∧ npre < nsamp) (saved : List (Nat × Trig.TS))
    (zts : List (List (Int × Int)))
    (hzt : ∀ (j : Nat) (p : Int), -1 ≤ Pipe.ztOf (zts[j]?.getD []) p ∧ Pipe.ztOf (zts[j]?.getD []) p ≤ 1) :
    ∃ res, runOps zts (prepare nchan npre nsamp saved) (blocks.map (roachBlockOp mk)) = some res ∧
      ∀ (j : Nat), j < nchan →
        (roachChan bias sign (rawChans nchan j bundles) = some (blocks.map fun b => b.2.getD j []) ∧
          (rawChans nchan j bundles).flatten = (bundles.flatten.map (pkChan nchan j)).flatten) ∧
        (∀ r ∈ chanRecs j res, (r.data.length : Int) = nsamp ∧ r.npre = npre) ∧
        ∀ (q : C05.Params) (hdr : C05.Bytes), q.nsamp = nsamp →
        ∀ (batches : List (List C05.W22)), batches.flatten = (chanRecs j res).map toW22 →
          let recs := chanRecs j res
          let fin := C05.run (C05.fmt22 q hdr) {} (fileOps batches)
          (recs = [] → C05.fileOf fin = none) ∧
          (recs ≠ [] → ∃ file, C05.fileOf fin = some file ∧ file.take hdr.length = hdr ∧
            C05.parseBody (C05.parseLJH22 q.nsamp.toNat 2) (file.drop hdr.length) =
              some (recs.map fun r => C05.expect22 q.subdiv q.suboff (toW22 r)) ∧
            file.length = hdr.length + recs.length * (16 + q.nsamp.toNat * 2)) := by
  obtain ⟨hok, hk⟩ := roach_blocks_opsOK mk nchan p _ List.length_replicate f0 bundles hc blocks h
  obtain ⟨res, hres, hfiles⟩ :=
    prepared_source_to_ljh22_file nchan npre nsamp saved hlen zts hzt _ (f0 : Int) hok hk
  refine ⟨res, hres, ?_⟩
  intro j hj
  have hall := (runDev_blocks nchan p bundles _ blocks h List.length_replicate).2.1
  exact ⟨⟨roachChan_device bias sign p s0 hmk nchan bundles blocks h j hj, rawChans_flatten nchan j hj bundles hall⟩,
    hfiles j hj⟩

/-- the same without assuming that the device ran: a contiguous history is one it runs on -/
theorem roach_contiguous_to_ljh22_files (bias : Bool) (sign : Int) (p : Params) (s0 : St)
    (hmk : roachMk bias sign = some (p, s0)) (nchan : Nat) (hn : 1 ≤ nchan) (f0 : Nat)
    (bundles : List (List (List Nat))) (hc : Contiguous nchan f0 bundles)
    (mk : (Nat × List (List Nat)) → Int × Int)
    (npre nsamp : Int) (hlen : 3 ≤ npre ∧ npre < nsamp) (saved : List (Nat × Trig.TS))
    (zts : List (List (Int × Int)))
    (hzt : ∀ (j : Nat) (p : Int), -1 ≤ Pipe.ztOf (zts[j]?.getD []) p ∧ Pipe.ztOf (zts[j]?.getD []) p ≤ 1) :
    ∃ blocks, runDev nchan p (List.replicate nchan s0) bundles = some blocks ∧
      blocks.map (·.1) = framesFrom f0 (blocks.map blockLen) ∧
      ∃ res, runOps zts (prepare nchan npre nsamp saved) (blocks.map (roachBlockOp mk)) = some res ∧
      ∀ (j : Nat), j < nchan →
        (roachChan bias sign (rawChans nchan j bundles) = some (blocks.map fun b => b.2.getD j []) ∧
          (rawChans nchan j bundles).flatten = (bundles.flatten.map (pkChan nchan j)).flatten) ∧
        (∀ r ∈ chanRecs j res, (r.data.length : Int) = nsamp ∧ r.npre = npre) ∧
        ∀ (q : C05.Params) (hdr : C05.Bytes), q.nsamp = nsamp →
        ∀ (batches : List (List C05.W22)), batches.flatten = (chanRecs j res).map toW22 →
          let recs := chanRecs j res
          let fin := C05.run (C05.fmt22 q hdr) {} (fileOps batches)
          (recs = [] → C05.fileOf fin = none) ∧
          (recs ≠ [] → ∃ file, C05.fileOf fin = some file ∧ file.take hdr.length = hdr ∧
            C05.parseBody (C05.parseLJH22 q.nsamp.toNat 2) (file.drop hdr.length) =
              some (recs.map fun r => C05.expect22 q.subdiv q.suboff (toW22 r)) ∧
            file.length = hdr.length + recs.length * (16 + q.nsamp.toNat * 2)) := by
  obtain ⟨blocks, h⟩ := roach_contiguous_runs nchan hn p _ List.length_replicate f0 bundles hc
  exact ⟨blocks, h,
    (roach_blocks_contiguous nchan hn p _ List.length_replicate f0 bundles hc blocks h).1,
    roach_to_ljh22_files bias sign p s0 hmk nchan f0 bundles hc blocks h mk npre nsamp hlen saved zts hzt⟩

/-! ### non-vacuity: the two example datagrams (sample numbers 1000 and 1002, 2 frames each) -/

/-- the two example datagrams, one per bundle or both in one bundle, are a contiguous run from sample 1000 -/
theorem exContiguous : Contiguous 2 1000 [[exDgA], [exDgB]] ∧ Contiguous 2 1000 [[exDgA, exDgB]] := by
  have hc : ContigFrom 2 1000 [exDgA, exDgB] :=
    ⟨{ nchan := 2, nsamp := 2, flags := 1, sampnum := 1000 }, [100, 200, 104, 208], by decide +kernel, rfl, rfl,
     { nchan := 2, nsamp := 2, flags := 1, sampnum := 1002 }, [108, 300, 16000, 4], by decide +kernel, rfl, rfl,
     trivial⟩
  exact ⟨⟨by decide, hc⟩, ⟨by decide, hc⟩⟩

/-- a gap (the second datagram first: 1002 then 1000) is not contiguous -/
example : ¬ Contiguous 2 1002 [[exDgB], [exDgA]] := by
  rintro ⟨_, h, d, hp, _, _, h', d', hp', _, hs, _⟩
  have e : parsePacket exDgB = some ({ nchan := 2, nsamp := 2, flags := 1, sampnum := 1002 }, [108, 300, 16000, 4]) := by
    decide +kernel
  have e' : parsePacket exDgA = some ({ nchan := 2, nsamp := 2, flags := 1, sampnum := 1000 }, [100, 200, 104, 208]) := by
    decide +kernel
  rw [e] at hp
  rw [e'] at hp'
  cases hp
  cases hp'
  simp at hs

/-- the hypotheses of `roach_blocks_contiguous` / `roach_to_ljh22_files` are met by the example run (option set
bias on, sign +): the device produces two blocks of 2 channels × 2 samples, `roach_blocks_contiguous` gives the
first frame indices `[1000, 1002]`, the blocks are valid pipeline input from frame 1000, and the file theorem
applies (record lengths 3 < 8, no saved settings, no zero-threshold table) -/
example (p : Params) (s0 : St) (hmk : roachMk true 1 = some (p, s0)) :
    runDev 2 p (List.replicate 2 s0) [[exDgA], [exDgB]] =
      some [(1000, [[4121, 4122], [4146, 4148]]), (1002, [[4123, 4000], [4171, 4097]])] ∧
    [(1000, [[4121, 4122], [4146, 4148]]), (1002, [[4123, 4000], [4171, 4097]])].map (·.1) = [1000, 1002] ∧
    OpsOK 2 1000 [Op.block 1000 0 0 [true, true] [[4121, 4122], [4146, 4148]],
      Op.block 1002 0 0 [true, true] [[4123, 4000], [4171, 4097]]] ∧
    ∃ res, runOps [] (prepare 2 3 8 [])
        [Op.block 1000 0 0 [true, true] [[4121, 4122], [4146, 4148]],
         Op.block 1002 0 0 [true, true] [[4123, 4000], [4171, 4097]]] = some res ∧
      ∀ j, j < 2 → ∀ r ∈ chanRecs j res, (r.data.length : Int) = 8 ∧ r.npre = 3 := by
  have hrun : runDev 2 p (List.replicate 2 s0) [[exDgA], [exDgB]] =
      some [(1000, [[4121, 4122], [4146, 4148]]), (1002, [[4123, 4000], [4171, 4097]])] := by
    have h : (roachMk true 1).bind (fun x => runDev 2 x.1 (List.replicate 2 x.2) [[exDgA], [exDgB]]) =
        some [(1000, [[4121, 4122], [4146, 4148]]), (1002, [[4123, 4000], [4171, 4097]])] := by
      decide +kernel
    rw [hmk, Option.bind_some] at h
    exact h
  have hfr := (roach_blocks_contiguous 2 (by decide) p _ List.length_replicate 1000 _ exContiguous.1 _ hrun).1
  have hok := (roach_blocks_opsOK (fun _ => (0, 0)) 2 p _ List.length_replicate 1000 _ exContiguous.1 _ hrun).1
  obtain ⟨res, hres, hrest⟩ := roach_to_ljh22_files true 1 p s0 hmk 2 1000 _ exContiguous.1 _ hrun
    (fun _ => (0, 0)) 3 8 (by decide) [] [] (by intro j q; simp [Pipe.ztOf])
  exact ⟨hrun, hfr, hok, res, hres, fun j hj => (hrest j hj).2.1⟩

/-- and the option set exists -/
example : ∃ p s0, roachMk true 1 = some (p, s0) := ⟨_, _, roachMk_eq true 1⟩

end DastardV.Roach
