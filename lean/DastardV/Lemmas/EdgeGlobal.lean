/-
C02, across blocks: one channel fed consecutive blocks of ANY lengths.  Invariant `EdgeInv`:
every edge-criterion sample of the delivered stream below the scan frontier is a trigger or
lies in the dead time of a trigger; the next block's scan resumes at (or before) the frontier,
except inside the dead time of the last trigger; trimming keeps the unscanned tail with its
history.
-/
import DastardV.Lemmas.TrigIdx
import DastardV.Lemmas.Pipe1
namespace DastardV.Trig

/-! ### single-channel run -/

/-- one block for one channel: append, trigger, trim; returns the primary trigger frames -/
def stepChan (zt : ZT) (c : Chan) (seg : List Nat) (first t0 per : Int) (sg : Bool) : Option (Chan × List Int) :=
  match triggerData (append c seg first t0 per sg) zt with
  | none => none
  | some (c', recs) => some (trim c', recs.map (·.frame))

/-- feed consecutive blocks, contiguous in frame number starting at `first`; block number `n` (counted
from the argument `n`) carries the time stamp and frame period `tp n` -/
def runChan (zt : ZT) (tp : Nat → Int × Int) (sg : Bool) : Nat → Chan → Int → List (List Nat) → Option (Chan × List Int)
  | _, c, _, [] => some (c, [])
  | n, c, first, seg :: segs =>
    match stepChan zt c seg first (tp n).1 (tp n).2 sg with
    | none => none
    | some (c1, tr) =>
      match runChan zt tp sg (n + 1) c1 (first + seg.length) segs with
      | none => none
      | some (c2, tr2) => some (c2, tr ++ tr2)

/-! ### criteria on the ground-truth stream -/

def edgeAtG (c : Chan) (G : List Nat) (p : Int) : Bool :=
  match rd G p, rd G (p - 1), rd G (p - 2), rd G (p - 3) with
  | some a, some b, some cc, some d => edgeCrit c a b cc d
  | _, _, _, _ => false

theorem rd_drop (G : List Nat) (k : Nat) (j : Int) (hj : 0 ≤ j) : rd (G.drop k) j = rd G (k + j) := by
  unfold rd
  have h1 : (0 : Int) ≤ k + j := by omega
  simp only [hj, h1, if_true, List.getElem?_drop]
  congr 1
  omega

theorem rd_append_left (G seg : List Nat) (p : Int) (hp : p < G.length) : rd (G ++ seg) p = rd G p := by
  unfold rd
  split
  · rw [List.getElem?_append_left (by omega)]
  · rfl

/-- the criterion depends only on the trigger settings and signedness -/
theorem edgeCrit_congr {c c' : Chan} (hts : c'.ts = c.ts) (hsg : c'.signed = c.signed) (a b cc d : Nat) :
    edgeCrit c' a b cc d = edgeCrit c a b cc d := by
  unfold edgeCrit; rw [hts, hsg]

theorem edgeAt_eq_G {c : Chan} {G : List Nat} {k : Nat} (hb : c.buf = G.drop k) (i : Int) (hi : 3 ≤ i) :
    edgeAt c i = edgeAtG c G (k + i) := by
  unfold edgeAt edgeAtG
  rw [hb, rd_drop G k i (by omega), rd_drop G k (i - 1) (by omega), rd_drop G k (i - 2) (by omega),
    rd_drop G k (i - 3) (by omega)]
  rw [show (k : Int) + (i - 1) = k + i - 1 by omega, show (k : Int) + (i - 2) = k + i - 2 by omega,
    show (k : Int) + (i - 3) = k + i - 3 by omega]
  rfl

theorem edgeAtG_append {c : Chan} (G seg : List Nat) (p : Int) (hp : p < G.length) :
    edgeAtG c (G ++ seg) p = edgeAtG c G p := by
  unfold edgeAtG
  rw [rd_append_left G seg p hp, rd_append_left G seg (p - 1) (by omega),
    rd_append_left G seg (p - 2) (by omega), rd_append_left G seg (p - 3) (by omega)]

theorem edgeAtG_congr {c c' : Chan} (hts : c'.ts = c.ts) (hsg : c'.signed = c.signed) (G : List Nat) (p : Int) :
    edgeAtG c' G p = edgeAtG c G p := by
  unfold edgeAtG
  split <;> simp_all [edgeCrit_congr hts hsg]

/-! ### the invariant -/

/-- position `p` (frame `f0 + p`) is a trigger or lies in the dead time `(T, T + nsamp]` of one -/
def Cov (nsamp f0 : Int) (trigs : List Int) (p : Int) : Prop :=
  (f0 + p) ∈ trigs ∨ ∃ T ∈ trigs, T < f0 + p ∧ f0 + p ≤ T + nsamp

theorem Cov.mono {nsamp f0 : Int} {trigs trigs' : List Int} {p : Int} (h : Cov nsamp f0 trigs p)
    (hs : ∀ x ∈ trigs, x ∈ trigs') : Cov nsamp f0 trigs' p := by
  rcases h with h | ⟨T, hT, h⟩
  · exact Or.inl (hs _ h)
  · exact Or.inr ⟨T, hs _ hT, h⟩

/-- a channel value carrying only what the criteria depend on -/
def cfgChan (ts : TS) (sg : Bool) : Chan := { npre := 0, nsamp := 0, ts := ts, signed := sg }

/-- the configuration that stays fixed during an epoch -/
structure Cfg (c : Chan) (ts : TS) (npre nsamp : Int) (sg : Bool) : Prop where
  hts : c.ts = ts
  hnpre : c.npre = npre
  hnsamp : c.nsamp = nsamp
  hsync : c.emt.nsamp = nsamp
  hsigned : c.signed = sg ∨ c.buf = []

/-- `e0` = stream position where the configuration epoch began (0 for a fresh start) -/
structure EdgeInv (ts : TS) (npre nsamp : Int) (sg : Bool) (e0 : Nat) (G : List Nat) (f0 : Int) (c : Chan)
    (trigs : List Int) (k : Nat) : Prop where
  hk : k ≤ G.length
  hbuf : c.buf = G.drop k
  cfg : Cfg c ts npre nsamp sg
  covered : ∀ p : Int, (e0 : Int) + npre ≤ p → p < (G.length : Int) + npre - nsamp →
    edgeAtG (cfgChan ts sg) G p = true → Cov nsamp f0 trigs p
  before : ∀ T ∈ trigs, T - f0 < (G.length : Int) + npre - nsamp
  last : c.lastTrig ∈ trigs ∨ c.lastTrig + nsamp ≤ f0
  retained : k ≤ e0 ∨ (k : Int) + npre ≤ (G.length : Int) + npre - nsamp
  -- edge-only epochs: triggers are sound, spaced by at least a record, and `lastTrig` is the newest
  sound : ts.level = false → ts.auto = false → ∀ T ∈ trigs, edgeAtG (cfgChan ts sg) G (T - f0) = true
  spaced : ts.level = false → ts.auto = false → trigs.Pairwise (fun a b => a + nsamp ≤ b)
  newest : ts.level = false → ts.auto = false → ∀ T ∈ trigs, T ≤ c.lastTrig

/-- in an ascending (spaced) list the last element is the largest -/
theorem pairwise_le_getLast {n : Int} (hn : 0 ≤ n) : ∀ {l : List Int} {i : Int},
    l.Pairwise (fun a b => a + n + 1 ≤ b) → l.getLast? = some i → ∀ x ∈ l, x ≤ i
  | [], _, _, h, _, _ => by simp at h
  | [a], i, _, h, x, hx => by simp at h hx; omega
  | a :: b :: r, i, hp, h, x, hx => by
    obtain ⟨h1, h2⟩ := List.pairwise_cons.mp hp
    have h' : (b :: r).getLast? = some i := by simpa [List.getLast?_cons_cons] using h
    rcases List.mem_cons.mp hx with rfl | hx
    · have hb := pairwise_le_getLast hn h2 h' b (by simp)
      have := h1 b (by simp); omega
    · exact pairwise_le_getLast hn h2 h' x hx

theorem some_inj' {α} {a b : α} (h1 : (some a : Option α) = some b) : a = b := by simpa using h1

theorem levelPass_off {c : Chan} (h : c.ts.level = false) (found : List Int) : levelPass c found = some found := by
  unfold levelPass; simp [h]

theorem autoPass_off {c : Chan} (h : c.ts.auto = false) (found : List Int) : autoPass c found = some found := by
  unfold autoPass; simp [h]

set_option maxHeartbeats 1600000 in
/-- one block preserves the invariant -/
theorem stepChan_inv {ts : TS} {npre nsamp : Int} {sg : Bool} {e0 : Nat} {G : List Nat} {f0 : Int} {c : Chan}
    {trigs : List Int} {k : Nat} {zt : ZT} {seg : List Nat} {t0 per : Int} {c1 : Chan} {tr : List Int}
    (hv : 3 ≤ npre ∧ npre < nsamp) (hem : ts.edgeMulti = false) (hedge : ts.edge = true)
    (hinv : EdgeInv ts npre nsamp sg e0 G f0 c trigs k)
    (h : stepChan zt c seg (f0 + G.length) t0 per sg = some (c1, tr)) :
    ∃ k', EdgeInv ts npre nsamp sg e0 (G ++ seg) f0 c1 (trigs ++ tr) k' := by
  obtain ⟨hk, hbuf, hcfg, hcov, hbef, hlast, hret, hsound, hspaced, hnewest⟩ := hinv
  obtain ⟨hts, hnpre, hnsamp, hsync, _⟩ := hcfg
  unfold stepChan at h
  split at h
  · simp at h
  rename_i c2 recs htd
  simp only [Option.some.injEq, Prod.mk.injEq] at h
  obtain ⟨hc1, htr⟩ := h
  -- the channel after append
  generalize hca : append c seg (f0 + ↑G.length) t0 per sg = ca at htd
  have ca_buf : ca.buf = (G ++ seg).drop k := by
    rw [← hca]; simp [append, hbuf, List.drop_append_of_le_length hk]
  have ca_first : ca.first = f0 + k := by
    rw [← hca]; simp only [append, hbuf, List.length_drop]; omega
  have ca_ts : ca.ts = ts := by rw [← hca]; exact hts
  have ca_npre : ca.npre = npre := by rw [← hca]; exact hnpre
  have ca_nsamp : ca.nsamp = nsamp := by rw [← hca]; exact hnsamp
  have ca_sync : ca.emt.nsamp = nsamp := by rw [← hca]; exact hsync
  have ca_sg : ca.signed = sg := by rw [← hca]; rfl
  have ca_last : ca.lastTrig = c.lastTrig := by rw [← hca]; rfl
  have ca_len : (ca.buf.length : Int) = (G.length : Int) + seg.length - k := by
    rw [ca_buf]; simp only [List.length_drop, List.length_append]; omega
  have hval : ValidLen ca := by unfold ValidLen; rw [ca_npre, ca_nsamp]; exact hv
  have hem' : ca.ts.edgeMulti = false := by rw [ca_ts]; exact hem
  obtain ⟨e, el, all, he, hel, hall, hframes, hc2⟩ := triggerData_nonEMT_idx hem' htd
  -- specifications of the three passes
  obtain ⟨e', he', _, hon⟩ := edgePass_spec ca hval.1 (by obtain ⟨a, b⟩ := hval; omega) (by obtain ⟨a, b⟩ := hval; omega)
  have hee : e' = e := some_inj' (he'.symm.trans he)
  subst hee
  have hes := hon (by rw [ca_ts]; exact hedge)
  have hfo : FoundOK ca (fpt ca) e' := ⟨fun t ht => (hes.range t ht).1, hes.spaced⟩
  have her : ∀ x ∈ e', x < hiOf ca := fun x hx => (hes.range x hx).2
  obtain ⟨el', hel', helr⟩ := levelPass_some hval hfo her
  have : el' = el := some_inj' (hel'.symm.trans hel)
  subst this
  obtain ⟨all', hall', hallr⟩ := autoPass_some hval helr
  have : all' = all := some_inj' (hall'.symm.trans hall)
  subst this
  have edgeOnly_all : ts.level = false → ts.auto = false →
      (∀ x ∈ all', x ∈ e') ∧ all'.Pairwise (fun a b => a + ca.nsamp + 1 ≤ b) := by
    intro hl ha
    have h1 : el' = e' := some_inj' (hel.symm.trans (levelPass_off (by rw [ca_ts]; exact hl) _))
    have h2 : all' = el' := some_inj' (hall.symm.trans (autoPass_off (by rw [ca_ts]; exact ha) _))
    rw [h2, h1]
    exact ⟨fun _ hx => hx, hes.spaced⟩
  have hns0 : 0 ≤ ca.nsamp := by obtain ⟨a, b⟩ := hval; omega
  have hsub : ∀ x ∈ e', x ∈ all' := fun x hx => autoPass_sub hall _ (levelPass_sub hel _ hx)
  have hhi : hiOf ca = (G.length : Int) + seg.length + npre - nsamp - k := by
    unfold hiOf; rw [ca_len, ca_npre, ca_nsamp]; omega
  have htr' : tr = all'.map (ca.first + ·) := by rw [← htr, hframes]
  have c2_eq : c2.buf = ca.buf ∧ c2.first = ca.first ∧ c2.ts = ca.ts ∧ c2.npre = ca.npre ∧ c2.nsamp = ca.nsamp ∧
      c2.emt = ca.emt ∧ c2.signed = ca.signed := by rw [hc2]; exact ⟨rfl, rfl, rfl, rfl, rfl, rfl, rfl⟩
  obtain ⟨b1, b2, b3, b4, b5, b6, b7⟩ := c2_eq
  have c2_last : c2.lastTrig = (match all'.getLast? with | some i => ca.first + i | none => ca.lastTrig) := by
    rw [hc2]; rfl
  have trim_same : (trim c2).ts = c2.ts ∧ (trim c2).npre = c2.npre ∧ (trim c2).nsamp = c2.nsamp ∧
      (trim c2).emt = c2.emt ∧ (trim c2).signed = c2.signed ∧ (trim c2).lastTrig = c2.lastTrig := by
    unfold trim; simp only; split <;> exact ⟨rfl, rfl, rfl, rfl, rfl, rfl⟩
  obtain ⟨t1, t2, t3, t4, t5, t6⟩ := trim_same
  -- where the trimmed buffer starts
  have hkeep : (2 * c2.emt.nsamp + 10) = 2 * nsamp + 10 := by rw [b6, ca_sync]
  have c2_len : (c2.buf.length : Int) = (G.length : Int) + seg.length - k := by rw [b1]; exact ca_len
  have hGl : ((G ++ seg).length : Int) = (G.length : Int) + seg.length := by simp
  have hk2 : c2.emt.nsamp = nsamp := by rw [b6, ca_sync]
  have c2_lenN : c2.buf.length = (G ++ seg).length - k := by rw [b1, ca_buf]; simp
  have hkG : k ≤ (G ++ seg).length := by simp; omega
  have htrim : ∃ k' : Nat, k' ≤ (G ++ seg).length ∧ (trim c2).buf = (G ++ seg).drop k' ∧
      (trim c2).first = f0 + k' ∧ (k' ≤ e0 ∨ (k' : Int) + npre ≤ (G.length : Int) + seg.length + npre - nsamp) := by
    unfold trim
    simp only [hk2]
    split
    · refine ⟨k, hkG, by rw [b1, ca_buf], by rw [b2, ca_first], ?_⟩
      rcases hret with h0 | h0
      · exact Or.inl h0
      · right; omega
    · rename_i hlt
      refine ⟨(G ++ seg).length - (2 * nsamp + 10).toNat, by omega, ?_, ?_, ?_⟩
      · simp only [b1, ca_buf, List.drop_drop]
        congr 1
        simp only [List.length_drop]
        omega
      · simp only [b2, ca_first]
        omega
      · right
        omega
  obtain ⟨k', hk', hbuf', hfirst', hret'⟩ := htrim
  subst hc1
  refine ⟨k', ⟨hk', hbuf', ?_, ?_, ?_, ?_, ?_, ?_, ?_, ?_⟩⟩
  · exact ⟨by rw [t1, b3, ca_ts], by rw [t2, b4, ca_npre], by rw [t3, b5, ca_nsamp], by rw [t4, b6, ca_sync],
      Or.inl (by rw [t5, b7, ca_sg])⟩
  · -- coverage
    intro p hp1 hp2 hcrit
    rw [hGl] at hp2
    by_cases hold : p < (G.length : Int) + npre - nsamp
    · have hpG : p < G.length := by omega
      rw [edgeAtG_append G seg p hpG] at hcrit
      exact (hcov p hp1 hold hcrit).mono (fun x hx => List.mem_append_left _ hx)
    · -- new territory: buffer index i = p − k
      have hi_npre : npre ≤ p - k := by
        rcases hret with h0 | h0
        · omega
        · omega
      have hcritI : edgeAt ca (p - k) = true := by
        rw [edgeAt_eq_G ca_buf (p - k) (by omega)]
        rw [show (k : Int) + (p - k) = p by omega]
        rw [← hcrit]
        exact edgeAtG_congr (c := cfgChan ts sg) (c' := ca) (by rw [ca_ts]; rfl) (by rw [ca_sg]; rfl) _ _
      by_cases hfp : fpt ca ≤ p - k
      · rcases hes.complete (p - k) hfp (by rw [ca_len, ca_npre, ca_nsamp]; omega) hcritI with hin | ⟨t, ht, h1, h2⟩
        · left
          apply List.mem_append_right
          rw [htr']
          exact List.mem_map.mpr ⟨p - k, hsub _ hin, by rw [ca_first]; omega⟩
        · right
          refine ⟨ca.first + t, ?_, ?_, ?_⟩
          · apply List.mem_append_right
            rw [htr']
            exact List.mem_map.mpr ⟨t, hsub _ ht, rfl⟩
          · rw [ca_first]; omega
          · rw [ca_first, ca_nsamp] at *; omega
      · -- inside the dead time of the last trigger
        have hfpt : p - k < ca.lastTrig - ca.first + ca.nsamp := by
          unfold fpt at hfp
          simp only at hfp
          split at hfp
          · rw [ca_npre] at hfp; omega
          · omega
        rw [ca_last, ca_first, ca_nsamp] at hfpt
        rcases hlast with hl | hl
        · right
          refine ⟨c.lastTrig, List.mem_append_left _ hl, ?_, by omega⟩
          have := hbef _ hl
          omega
        · omega
  · -- all triggers are below the new frontier
    intro T hT
    rw [hGl]
    rcases List.mem_append.mp hT with hT | hT
    · have := hbef T hT; omega
    · rw [htr'] at hT
      obtain ⟨x, hx, rfl⟩ := List.mem_map.mp hT
      have := (hallr x hx).2
      rw [hhi] at this
      rw [ca_first]; omega
  · -- the hold-off reference
    rw [t6, c2_last]
    cases hal : all'.getLast? with
    | none =>
      simp only
      rw [ca_last]
      rcases hlast with hl | hl
      · exact Or.inl (List.mem_append_left _ hl)
      · exact Or.inr hl
    | some i =>
      simp only
      left
      apply List.mem_append_right
      rw [htr']
      exact List.mem_map.mpr ⟨i, List.mem_of_getLast? hal, rfl⟩
  · rcases hret' with h0 | h0
    · exact Or.inl h0
    · right; rw [hGl]; exact h0
  · -- edge-only: soundness
    intro hl ha T hT
    obtain ⟨hall_e, _⟩ := edgeOnly_all hl ha
    rcases List.mem_append.mp hT with hT | hT
    · have hb := hbef T hT
      rw [edgeAtG_append G seg (T - f0) (by omega)]
      exact hsound hl ha T hT
    · rw [htr'] at hT
      obtain ⟨x, hx, rfl⟩ := List.mem_map.mp hT
      have hxe : x ∈ e' := hall_e x hx
      have h3 : 3 ≤ x := by have := (hes.range x hxe).1; have := fpt_ge ca; rw [ca_npre] at this; omega
      have := hes.sound x hxe
      rw [edgeAt_eq_G ca_buf x h3] at this
      rw [ca_first, show f0 + (k : Int) + x - f0 = k + x by omega, ← this]
      exact (edgeAtG_congr (c := cfgChan ts sg) (c' := ca) (by rw [ca_ts]; rfl) (by rw [ca_sg]; rfl) _ _).symm
  · -- edge-only: spacing
    intro hl ha
    obtain ⟨hall_e, hall_sp⟩ := edgeOnly_all hl ha
    refine List.pairwise_append.mpr ⟨hspaced hl ha, ?_, ?_⟩
    · rw [htr']
      refine List.pairwise_map.mpr ?_
      refine hall_sp.imp ?_
      intro a b hab; rw [ca_nsamp] at hab; omega
    · intro a ha' b hb'
      rw [htr'] at hb'
      obtain ⟨x, hx, rfl⟩ := List.mem_map.mp hb'
      have h1 := hnewest hl ha a ha'
      have h2 := (hes.range x (hall_e x hx)).1
      have h3 : ca.lastTrig - ca.first + ca.nsamp ≤ fpt ca := by unfold fpt; simp only; split <;> omega
      rw [ca_last, ca_nsamp] at h3
      omega
  · -- edge-only: lastTrig is the newest trigger
    intro hl ha T hT
    obtain ⟨hall_e, hall_sp⟩ := edgeOnly_all hl ha
    rw [t6, c2_last]
    have h3 : ca.lastTrig - ca.first + ca.nsamp ≤ fpt ca := by unfold fpt; simp only; split <;> omega
    rw [ca_last, ca_nsamp] at h3
    cases hal : all'.getLast? with
    | none =>
      simp only
      have hnil : all' = [] := List.getLast?_eq_none_iff.mp hal
      rcases List.mem_append.mp hT with hT | hT
      · rw [ca_last]; exact hnewest hl ha T hT
      · rw [htr', hnil] at hT; simp at hT
    | some i =>
      simp only
      have hi_mem : i ∈ all' := List.mem_of_getLast? hal
      have hi_fpt := (hes.range i (hall_e i hi_mem)).1
      rcases List.mem_append.mp hT with hT | hT
      · have := hnewest hl ha T hT; omega
      · rw [htr'] at hT
        obtain ⟨x, hx, rfl⟩ := List.mem_map.mp hT
        have := pairwise_le_getLast hns0 hall_sp hal x hx
        omega

/-- any number of blocks of any lengths -/
theorem runChan_inv {ts : TS} {npre nsamp : Int} {sg : Bool} {e0 : Nat} {f0 : Int} {zt : ZT} {tp : Nat → Int × Int}
    (hv : 3 ≤ npre ∧ npre < nsamp) (hem : ts.edgeMulti = false) (hedge : ts.edge = true) :
    ∀ (segs : List (List Nat)) (n : Nat) (G : List Nat) (c : Chan) (trigs : List Int) (k : Nat) (c' : Chan) (tr : List Int),
      EdgeInv ts npre nsamp sg e0 G f0 c trigs k →
      runChan zt tp sg n c (f0 + G.length) segs = some (c', tr) →
      ∃ k', EdgeInv ts npre nsamp sg e0 (G ++ segs.flatten) f0 c' (trigs ++ tr) k'
  | [], n, G, c, trigs, k, c', tr, hinv, h => by
    simp only [runChan, Option.some.injEq, Prod.mk.injEq] at h
    obtain ⟨rfl, rfl⟩ := h
    exact ⟨k, by simpa using hinv⟩
  | seg :: segs, n, G, c, trigs, k, c', tr, hinv, h => by
    unfold runChan at h
    split at h
    · simp at h
    rename_i c1 tr1 hstep
    split at h
    · simp at h
    rename_i c2 tr2 hrun
    simp only [Option.some.injEq, Prod.mk.injEq] at h
    obtain ⟨rfl, rfl⟩ := h
    obtain ⟨k1, hinv1⟩ := stepChan_inv hv hem hedge hinv hstep
    have hlen : f0 + (G.length : Int) + (seg.length : Int) = f0 + ((G ++ seg).length : Int) := by simp; omega
    rw [hlen] at hrun
    obtain ⟨k2, hinv2⟩ := runChan_inv hv hem hedge segs (n + 1) (G ++ seg) c1 (trigs ++ tr1) k1 c2 tr2 hinv1 hrun
    refine ⟨k2, ?_⟩
    simpa [List.append_assoc] using hinv2

end DastardV.Trig
