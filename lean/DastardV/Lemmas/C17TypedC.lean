/-
C17 — one step of `typed_interleavings_owned` (Lemmas/C17Typed.lean), core Lean only: an event that the
thread-local typing and the blocking semantics both allow is accepted by the ownership machine, and
the invariant `GoodT` holds again.  One lemma per kind of event.
-/
import DastardV.Lemmas.C17TypedB

namespace DastardV.C17

/-! ### inversion of the blocking semantics -/

theorem stepF_send {f f' : FSt} {t : Tid} {c : Obj} (h : stepF f (t, .send c) = some f') :
    f' = { f with nsend := upd f.nsend c (f.nsend c + 1) } := by
  simp only [stepF] at h
  split at h
  · cases h
  · exact (Option.some.inj h).symm

theorem stepF_recv {f f' : FSt} {t : Tid} {c : Obj} (h : stepF f (t, .recv c) = some f') :
    f.nrecv c < f.nsend c ∧ f' = { f with nrecv := upd f.nrecv c (f.nrecv c + 1) } := by
  simp only [stepF] at h
  split at h
  · next h1 => exact ⟨h1, (Option.some.inj h).symm⟩
  · cases h

theorem stepF_close {f f' : FSt} {t : Tid} {c : Obj} (h : stepF f (t, .close c) = some f') :
    f.closed c = false ∧ f' = { f with closed := upd f.closed c true } := by
  simp only [stepF] at h
  split at h
  · cases h
  · next h1 => exact ⟨by simpa using h1, (Option.some.inj h).symm⟩

theorem stepF_recvC {f f' : FSt} {t : Tid} {c : Obj} (h : stepF f (t, .recvC c) = some f') :
    f.closed c = true ∧ f' = f := by
  simp only [stepF] at h
  split at h
  · next h1 =>
    rw [Bool.and_eq_true] at h1
    exact ⟨h1.1, (Option.some.inj h).symm⟩
  · cases h

theorem stepF_lock {f f' : FSt} {t : Tid} {m : Obj} (h : stepF f (t, .lock m) = some f') :
    f.held m = false ∧ f' = { f with held := upd f.held m true } := by
  simp only [stepF] at h
  split at h
  · cases h
  · next h1 => exact ⟨by simpa using h1, (Option.some.inj h).symm⟩

theorem stepF_unlock {f f' : FSt} {t : Tid} {m : Obj} (h : stepF f (t, .unlock m) = some f') :
    f.held m = true ∧ f' = { f with held := upd f.held m false } := by
  simp only [stepF] at h
  split at h
  · next h1 => exact ⟨h1, (Option.some.inj h).symm⟩
  · cases h

theorem stepF_wgAdd {f f' : FSt} {t : Tid} {w : Obj} (h : stepF f (t, .wgAdd w) = some f') :
    f' = { f with cnt := upd f.cnt w (f.cnt w + 1) } := by
  simp only [stepF] at h
  exact (Option.some.inj h).symm

theorem stepF_wgDone {f f' : FSt} {t : Tid} {w : Obj} (h : stepF f (t, .wgDone w) = some f') :
    f.cnt w ≠ 0 ∧ f' = { f with cnt := upd f.cnt w (f.cnt w - 1) } := by
  simp only [stepF] at h
  split at h
  · cases h
  · next h1 => exact ⟨h1, (Option.some.inj h).symm⟩

theorem stepF_wgWait {f f' : FSt} {t : Tid} {w : Obj} (h : stepF f (t, .wgWait w) = some f') :
    f.cnt w = 0 ∧ f' = f := by
  simp only [stepF] at h
  split at h
  · next h1 => exact ⟨h1, (Option.some.inj h).symm⟩
  · cases h

theorem stepF_spawn {f f' : FSt} {t u : Tid} (h : stepF f (t, .spawn u) = some f') :
    f.spawned u = false ∧ f' = { f with spawned := upd f.spawned u true } := by
  simp only [stepF] at h
  split at h
  · cases h
  · next h1 => exact ⟨by simpa using h1, (Option.some.inj h).symm⟩

theorem stepF_start {f f' : FSt} {t : Tid} (h : stepF f (t, .start) = some f') :
    (f.spawned t = true ∧ f.started t = false) ∧ f' = { f with started := upd f.started t true } := by
  simp only [stepF] at h
  split at h
  · next h1 => exact ⟨by simpa using h1, (Option.some.inj h).symm⟩
  · cases h

theorem stepF_rd {f f' : FSt} {t : Tid} {x : Var} (h : stepF f (t, .rd x) = some f') : f' = f := by
  simp only [stepF] at h
  exact (Option.some.inj h).symm

theorem stepF_wr {f f' : FSt} {t : Tid} {x : Var} (h : stepF f (t, .wr x) = some f') : f' = f := by
  simp only [stepF] at h
  exact (Option.some.inj h).symm

theorem upd_self {α : Type} (f : Nat → α) (k : Nat) (v : α) : upd f k v k = v := by simp [upd]

theorem upd_ne {α : Type} (f : Nat → α) (k i : Nat) (v : α) (h : i ≠ k) : upd f k v i = f i := by
  simp [upd, h]

/-! ### inversion of the typing of a release -/

theorem give_inv {ks H H' : List Tok}
    (h : (if subsetB ks H = true then some (minus H ks) else none) = some H') :
    (∀ k, k ∈ ks → k ∈ H) ∧ ∀ k, k ∈ H' ↔ k ∈ H ∧ k ∉ ks := by
  split at h
  · next h1 =>
    have := Option.some.inj h
    subst this
    exact ⟨(subsetB_iff _ _).1 h1, fun k => mem_minus _ _ k⟩
  · cases h

/-! ### generic steps -/

theorem Exp_thr (S : System) (pre : Trace) (f : FSt) (t : Tid) (k : Tok) :
    Exp S pre f (.thr t) k = heldBy S pre t k := rfl

theorem GoodT.at_thr {S : System} {pre : Trace} {o : OSt} {f : FSt} {t : Tid} {e : Ev} {H H' : List Tok}
    (g : GoodT S pre o f) (cx : Ctx S pre t e H H') (k : Tok) : o.loc k = .thr t ↔ k ∈ H :=
  (g.loc k _).trans (cx.held k)

/-- nothing moves and the holdings of the thread stay the same -/
theorem GoodT.same_loc {S : System} {pre : Trace} {o : OSt} {f f' : FSt} {t : Tid} {e : Ev} {H H' : List Tok}
    (g : GoodT S pre o f) (cx : Ctx S pre t e H H')
    (hH : ∀ k, k ∈ H' ↔ k ∈ H)
    (h3 : ∀ l, l ≠ .thr t → ∀ k, Exp S (pre ++ [(t, e)]) f' l k ↔ Exp S pre f l k) :
    ∀ k l, o.loc k = l ↔ Exp S (pre ++ [(t, e)]) f' l k := by
  intro k l
  rw [g.loc]
  by_cases hl : l = .thr t
  · subst hl
    rw [Exp_thr, Exp_thr, cx.held, cx.held', hH]
  · exact (h3 l hl k).symm

theorem GoodT.release_step {S : System} {pre : Trace} {o : OSt} {f f' : FSt} {t : Tid} {e : Ev}
    {H H' ks : List Tok} {dst : Loc}
    (g : GoodT S pre o f) (cx : Ctx S pre t e H H')
    (hg : (∀ k, k ∈ ks → k ∈ H) ∧ ∀ k, k ∈ H' ↔ k ∈ H ∧ k ∉ ks)
    (hdst : dst ≠ .thr t)
    (h2 : ∀ k, Exp S (pre ++ [(t, e)]) f' dst k ↔ Exp S pre f dst k ∨ k ∈ ks)
    (h3 : ∀ l, l ≠ .thr t → l ≠ dst → ∀ k, Exp S (pre ++ [(t, e)]) f' l k ↔ Exp S pre f l k) :
    release o t ks dst = some { o with loc := moveL o.loc ks dst } ∧
    ∀ k l, moveL o.loc ks dst k = l ↔ Exp S (pre ++ [(t, e)]) f' l k := by
  constructor
  · exact release_ok o t ks dst (fun k hk => (g.at_thr cx k).2 (hg.1 k hk))
  · apply loc_release (E := Exp S pre f) (t := t) g.loc
    · intro k hk; exact (cx.held k).2 (hg.1 k hk)
    · exact hdst
    · intro k
      rw [Exp_thr, Exp_thr, cx.held', cx.held, hg.2]
    · exact h2
    · exact h3

theorem GoodT.acquire_step {S : System} {pre : Trace} {o : OSt} {f f' : FSt} {t : Tid} {e : Ev}
    {H H' ks : List Tok} {src : Loc}
    (g : GoodT S pre o f) (cx : Ctx S pre t e H H')
    (hH' : H' = H ++ ks)
    (hsrc : src ≠ .thr t)
    (h1 : ∀ k, k ∈ ks ↔ Exp S pre f src k)
    (h2 : ∀ k, ¬ Exp S (pre ++ [(t, e)]) f' src k)
    (h3 : ∀ l, l ≠ .thr t → l ≠ src → ∀ k, Exp S (pre ++ [(t, e)]) f' l k ↔ Exp S pre f l k) :
    ∀ k l, moveAll o.loc src (.thr t) k = l ↔ Exp S (pre ++ [(t, e)]) f' l k := by
  apply loc_acquire (E := Exp S pre f) g.loc hsrc
  · intro k
    rw [Exp_thr, Exp_thr, cx.held', cx.held, hH', List.mem_append, h1]
  · exact h2
  · exact h3

/-! ### accesses -/

theorem step_rd {S : System} {pre : Trace} {o : OSt} {f f' : FSt} {t : Tid} {x : Var} {H H' : List Tok}
    (g : GoodT S pre o f) (cx : Ctx S pre t (.rd x) H H') (hF : stepF f (t, .rd x) = some f') :
    ∃ o', stepO S.sp o (t, .rd x) = some o' ∧ GoodT S (pre ++ [(t, .rd x)]) o' f' := by
  have hf := stepF_rd hF
  subst hf
  have hE := cx.tE
  simp only [typeEv] at hE
  split at hE
  · next h1 =>
    have hH : H' = H := (Option.some.inj hE).symm
    refine ⟨o, ?_, ?_⟩
    · simp only [stepO]
      rw [if_pos]
      rw [List.any_eq_true] at h1 ⊢
      obtain ⟨k, hk, hk'⟩ := h1
      refine ⟨k, hk, ?_⟩
      have : k ∈ H := by simpa using hk'
      simp [(g.at_thr cx k).2 this]
    · have hw := wg_frame g t (.rd x) (f' := f') rfl (fun _ => nofun) (fun _ => nofun)
        (fun _ => nofun)
      refine ⟨?_, g.ns, g.nr, g.le, g.ss, hw.1, hw.2, rc_frame g t _ _ (fun _ h => h) (fun _ => nofun)⟩
      apply g.same_loc cx (by rw [hH]; exact fun _ => Iff.rfl)
      intro l hl k
      apply Exp_frame
      · intro u hu h; exact hl (hu.trans (by rw [h]))
      · intro _ _ _; exact Iff.rfl
      · intro _ _; rfl
      · intro _ _; exact ⟨rfl, rfl⟩
      · intro _ _; exact ⟨nofun, nofun⟩
      · intro _ _; exact ⟨rfl, nofun⟩
  · cases hE

theorem step_wr {S : System} {pre : Trace} {o : OSt} {f f' : FSt} {t : Tid} {x : Var} {H H' : List Tok}
    (g : GoodT S pre o f) (cx : Ctx S pre t (.wr x) H H') (hF : stepF f (t, .wr x) = some f') :
    ∃ o', stepO S.sp o (t, .wr x) = some o' ∧ GoodT S (pre ++ [(t, .wr x)]) o' f' := by
  have hf := stepF_wr hF
  subst hf
  have hE := cx.tE
  simp only [typeEv] at hE
  split at hE
  · next h1 =>
    have hH : H' = H := (Option.some.inj hE).symm
    rw [Bool.and_eq_true] at h1
    refine ⟨o, ?_, ?_⟩
    · simp only [stepO]
      rw [if_pos]
      rw [Bool.and_eq_true]
      refine ⟨h1.1, ?_⟩
      rw [allAt_iff]
      intro k hk
      exact (g.at_thr cx k).2 ((subsetB_iff _ _).1 h1.2 k hk)
    · have hw := wg_frame g t (.wr x) (f' := f') rfl (fun _ => nofun) (fun _ => nofun)
        (fun _ => nofun)
      refine ⟨?_, g.ns, g.nr, g.le, g.ss, hw.1, hw.2, rc_frame g t _ _ (fun _ h => h) (fun _ => nofun)⟩
      apply g.same_loc cx (by rw [hH]; exact fun _ => Iff.rfl)
      intro l hl k
      apply Exp_frame
      · intro u hu h; exact hl (hu.trans (by rw [h]))
      · intro _ _ _; exact Iff.rfl
      · intro _ _; rfl
      · intro _ _; exact ⟨rfl, rfl⟩
      · intro _ _; exact ⟨nofun, nofun⟩
      · intro _ _; exact ⟨rfl, nofun⟩
  · cases hE

end DastardV.C17
