/-
C02, across blocks, level clause: every sample satisfying the level criterion below the scan
frontier is within one record length of an emitted trigger (it is a trigger itself, or lies
within a record of an edge trigger that vetoed it, or within the dead time of the last trigger).
Same invariant shape as `EdgeInv`.
-/
import DastardV.Lemmas.EdgeGlobal
namespace DastardV.Trig

def levelAtG (c : Chan) (G : List Nat) (p : Int) : Bool :=
  match rd G p, rd G (p - 1) with
  | some a, some b => levelCrit c a b
  | _, _ => false

theorem levelCrit_congr {c c' : Chan} (hts : c'.ts = c.ts) (hsg : c'.signed = c.signed) (a b : Nat) :
    levelCrit c' a b = levelCrit c a b := by
  unfold levelCrit; rw [hts, hsg]

theorem levelAt_eq_G {c : Chan} {G : List Nat} {k : Nat} (hb : c.buf = G.drop k) (i : Int) (hi : 1 ≤ i) :
    levelAt c i = levelAtG c G (k + i) := by
  unfold levelAt levelAtG
  rw [hb, rd_drop G k i (by omega), rd_drop G k (i - 1) (by omega)]
  rw [show (k : Int) + (i - 1) = k + i - 1 by omega]
  rfl

theorem levelAtG_append {c : Chan} (G seg : List Nat) (p : Int) (hp : p < G.length) :
    levelAtG c (G ++ seg) p = levelAtG c G p := by
  unfold levelAtG
  rw [rd_append_left G seg p hp, rd_append_left G seg (p - 1) (by omega)]

theorem levelAtG_congr {c c' : Chan} (hts : c'.ts = c.ts) (hsg : c'.signed = c.signed) (G : List Nat) (p : Int) :
    levelAtG c' G p = levelAtG c G p := by
  unfold levelAtG
  split <;> simp_all [levelCrit_congr hts hsg]

/-- position `p` is within one record length of an emitted trigger -/
def Near (nsamp f0 : Int) (trigs : List Int) (p : Int) : Prop :=
  ∃ T ∈ trigs, T - nsamp ≤ f0 + p ∧ f0 + p ≤ T + nsamp

theorem Near.mono {nsamp f0 : Int} {trigs trigs' : List Int} {p : Int} (h : Near nsamp f0 trigs p)
    (hs : ∀ x ∈ trigs, x ∈ trigs') : Near nsamp f0 trigs' p := by
  obtain ⟨T, hT, h⟩ := h
  exact ⟨T, hs _ hT, h⟩

/-- the level pass when enabled: the found triggers plus the new level triggers, with their spec -/
theorem levelPass_spec {c : Chan} (hv : ValidLen c) (hl : c.ts.level = true) {found : List Int}
    (hf : FoundOK c (fpt c) found) :
    ∃ new, levelPass c found = some (sortAsc (found ++ new)) ∧
      LevelSpec c ((c.buf.length : Int) + c.npre - c.nsamp) (fpt c) found new := by
  obtain ⟨h3, hlt⟩ := hv
  obtain ⟨res, hres, hs⟩ := levelLoop_spec c ((c.buf.length : Int) + c.npre - c.nsamp) (by omega) (by omega) _ (fpt c) found []
    (Nat.le_refl _) (by have := fpt_ge c; omega) hf
  refine ⟨res, ?_, hs⟩
  unfold levelPass
  simp only [hl, Bool.not_true, Bool.false_eq_true, if_false]
  have : levelLoop c ((c.buf.length : Int) + c.npre - c.nsamp) (fpt c) found [] = some res := by simpa using hres
  rw [this]

structure LevelInv (ts : TS) (npre nsamp : Int) (sg : Bool) (e0 : Nat) (G : List Nat) (f0 : Int) (c : Chan)
    (trigs : List Int) (k : Nat) : Prop where
  hk : k ≤ G.length
  hbuf : c.buf = G.drop k
  cfg : Cfg c ts npre nsamp sg
  covered : ∀ p : Int, (e0 : Int) + npre ≤ p → p < (G.length : Int) + npre - nsamp →
    levelAtG (cfgChan ts sg) G p = true → Near nsamp f0 trigs p
  before : ∀ T ∈ trigs, T - f0 < (G.length : Int) + npre - nsamp
  last : c.lastTrig ∈ trigs ∨ c.lastTrig + nsamp ≤ f0
  retained : k ≤ e0 ∨ (k : Int) + npre ≤ (G.length : Int) + npre - nsamp

set_option maxHeartbeats 1600000 in
/-- one block preserves the level invariant -/
theorem stepChan_level_inv {ts : TS} {npre nsamp : Int} {sg : Bool} {e0 : Nat} {G : List Nat} {f0 : Int} {c : Chan}
    {trigs : List Int} {k : Nat} {zt : ZT} {seg : List Nat} {t0 per : Int} {c1 : Chan} {tr : List Int}
    (hv : 3 ≤ npre ∧ npre < nsamp) (hem : ts.edgeMulti = false) (hlevel : ts.level = true)
    (hinv : LevelInv ts npre nsamp sg e0 G f0 c trigs k)
    (h : stepChan zt c seg (f0 + G.length) t0 per sg = some (c1, tr)) :
    ∃ k', LevelInv ts npre nsamp sg e0 (G ++ seg) f0 c1 (trigs ++ tr) k' := by
  obtain ⟨hk, hbuf, hcfg, hcov, hbef, hlast, hret⟩ := hinv
  obtain ⟨hts, hnpre, hnsamp, hsync, _⟩ := hcfg
  unfold stepChan at h
  split at h
  · simp at h
  rename_i c2 recs htd
  simp only [Option.some.injEq, Prod.mk.injEq] at h
  obtain ⟨hc1, htr⟩ := h
  -- the channel after append
  generalize hca : append c seg (f0 + ↑G.length) t0 per sg = ca at htd
  have ca_buf : ca.buf = (G ++ seg).drop k := by
    rw [← hca]; simp [append, hbuf, List.drop_append_of_le_length hk]
  have ca_first : ca.first = f0 + k := by
    rw [← hca]; simp only [append, hbuf, List.length_drop]; omega
  have ca_ts : ca.ts = ts := by rw [← hca]; exact hts
  have ca_npre : ca.npre = npre := by rw [← hca]; exact hnpre
  have ca_nsamp : ca.nsamp = nsamp := by rw [← hca]; exact hnsamp
  have ca_sync : ca.emt.nsamp = nsamp := by rw [← hca]; exact hsync
  have ca_sg : ca.signed = sg := by rw [← hca]; rfl
  have ca_last : ca.lastTrig = c.lastTrig := by rw [← hca]; rfl
  have ca_len : (ca.buf.length : Int) = (G.length : Int) + seg.length - k := by
    rw [ca_buf]; simp only [List.length_drop, List.length_append]; omega
  have hval : ValidLen ca := by unfold ValidLen; rw [ca_npre, ca_nsamp]; exact hv
  have hem' : ca.ts.edgeMulti = false := by rw [ca_ts]; exact hem
  obtain ⟨e, el, all, he, hel, hall, hframes, hc2⟩ := triggerData_nonEMT_idx hem' htd
  -- specifications of the three passes
  obtain ⟨e', he', hoff, hon⟩ := edgePass_spec ca hval.1 (by obtain ⟨a, b⟩ := hval; omega) (by obtain ⟨a, b⟩ := hval; omega)
  have hee : e' = e := some_inj' (he'.symm.trans he)
  subst hee
  have hefound : FoundOK ca (fpt ca) e' ∧ ∀ x ∈ e', x < hiOf ca := by
    by_cases hedge : ca.ts.edge = true
    · have hs := hon hedge
      exact ⟨⟨fun t ht => (hs.range t ht).1, hs.spaced⟩, fun x hx => (hs.range x hx).2⟩
    · have : e' = [] := hoff (by simpa using hedge)
      subst this
      exact ⟨⟨by simp, by simp⟩, by simp⟩
  obtain ⟨hfo, her⟩ := hefound
  obtain ⟨new, hnew, hls⟩ := levelPass_spec hval (by rw [ca_ts]; exact hlevel) hfo
  obtain ⟨el', hel', helr⟩ := levelPass_some hval hfo her
  have : el' = el := some_inj' (hel'.symm.trans hel)
  subst this
  obtain ⟨all', hall', hallr⟩ := autoPass_some hval helr
  have : all' = all := some_inj' (hall'.symm.trans hall)
  subst this
  have hns0 : 0 ≤ ca.nsamp := by obtain ⟨a, b⟩ := hval; omega
  have hsub : ∀ x ∈ e', x ∈ all' := fun x hx => autoPass_sub hall _ (levelPass_sub hel _ hx)
  have hel2 : el' = sortAsc (e' ++ new) := some_inj' (hel.symm.trans hnew)
  have hsubN : ∀ x ∈ new, x ∈ all' := fun x hx => autoPass_sub hall _ (by rw [hel2]; exact mem_sortAsc.mpr (List.mem_append_right _ hx))
  have hhi : hiOf ca = (G.length : Int) + seg.length + npre - nsamp - k := by
    unfold hiOf; rw [ca_len, ca_npre, ca_nsamp]; omega
  have htr' : tr = all'.map (ca.first + ·) := by rw [← htr, hframes]
  have c2_eq : c2.buf = ca.buf ∧ c2.first = ca.first ∧ c2.ts = ca.ts ∧ c2.npre = ca.npre ∧ c2.nsamp = ca.nsamp ∧
      c2.emt = ca.emt ∧ c2.signed = ca.signed := by rw [hc2]; exact ⟨rfl, rfl, rfl, rfl, rfl, rfl, rfl⟩
  obtain ⟨b1, b2, b3, b4, b5, b6, b7⟩ := c2_eq
  have c2_last : c2.lastTrig = (match all'.getLast? with | some i => ca.first + i | none => ca.lastTrig) := by
    rw [hc2]; rfl
  have trim_same : (trim c2).ts = c2.ts ∧ (trim c2).npre = c2.npre ∧ (trim c2).nsamp = c2.nsamp ∧
      (trim c2).emt = c2.emt ∧ (trim c2).signed = c2.signed ∧ (trim c2).lastTrig = c2.lastTrig := by
    unfold trim; simp only; split <;> exact ⟨rfl, rfl, rfl, rfl, rfl, rfl⟩
  obtain ⟨t1, t2, t3, t4, t5, t6⟩ := trim_same
  -- where the trimmed buffer starts
  have hkeep : (2 * c2.emt.nsamp + 10) = 2 * nsamp + 10 := by rw [b6, ca_sync]
  have c2_len : (c2.buf.length : Int) = (G.length : Int) + seg.length - k := by rw [b1]; exact ca_len
  have hGl : ((G ++ seg).length : Int) = (G.length : Int) + seg.length := by simp
  have hk2 : c2.emt.nsamp = nsamp := by rw [b6, ca_sync]
  have c2_lenN : c2.buf.length = (G ++ seg).length - k := by rw [b1, ca_buf]; simp
  have hkG : k ≤ (G ++ seg).length := by simp; omega
  have htrim : ∃ k' : Nat, k' ≤ (G ++ seg).length ∧ (trim c2).buf = (G ++ seg).drop k' ∧
      (trim c2).first = f0 + k' ∧ (k' ≤ e0 ∨ (k' : Int) + npre ≤ (G.length : Int) + seg.length + npre - nsamp) := by
    unfold trim
    simp only [hk2]
    split
    · refine ⟨k, hkG, by rw [b1, ca_buf], by rw [b2, ca_first], ?_⟩
      rcases hret with h0 | h0
      · exact Or.inl h0
      · right; omega
    · rename_i hlt
      refine ⟨(G ++ seg).length - (2 * nsamp + 10).toNat, by omega, ?_, ?_, ?_⟩
      · simp only [b1, ca_buf, List.drop_drop]
        congr 1
        simp only [List.length_drop]
        omega
      · simp only [b2, ca_first]
        omega
      · right
        omega
  obtain ⟨k', hk', hbuf', hfirst', hret'⟩ := htrim
  subst hc1
  refine ⟨k', ⟨hk', hbuf', ?_, ?_, ?_, ?_, ?_⟩⟩
  · exact ⟨by rw [t1, b3, ca_ts], by rw [t2, b4, ca_npre], by rw [t3, b5, ca_nsamp], by rw [t4, b6, ca_sync],
      Or.inl (by rw [t5, b7, ca_sg])⟩
  · -- coverage (level)
    intro p hp1 hp2 hcrit
    rw [hGl] at hp2
    by_cases hold : p < (G.length : Int) + npre - nsamp
    · have hpG : p < G.length := by omega
      rw [levelAtG_append G seg p hpG] at hcrit
      exact (hcov p hp1 hold hcrit).mono (fun x hx => List.mem_append_left _ hx)
    · have hi_npre : npre ≤ p - k := by
        rcases hret with h0 | h0
        · omega
        · omega
      have hcritI : levelAt ca (p - k) = true := by
        rw [levelAt_eq_G ca_buf (p - k) (by omega)]
        rw [show (k : Int) + (p - k) = p by omega]
        rw [← hcrit]
        exact levelAtG_congr (c := cfgChan ts sg) (c' := ca) (by rw [ca_ts]; rfl) (by rw [ca_sg]; rfl) _ _
      by_cases hfp : fpt ca ≤ p - k
      · rcases hls.complete (p - k) hfp (by rw [ca_len, ca_npre, ca_nsamp]; omega) hcritI with hin | ⟨t, ht, h1, h2⟩
        · refine ⟨ca.first + (p - k), ?_, ?_, ?_⟩
          · apply List.mem_append_right
            rw [htr']
            exact List.mem_map.mpr ⟨p - k, hsubN _ hin, rfl⟩
          · rw [ca_first]; omega
          · rw [ca_first]; omega
        · refine ⟨ca.first + t, ?_, ?_, ?_⟩
          · apply List.mem_append_right
            rw [htr']
            exact List.mem_map.mpr ⟨t, hsub _ ht, rfl⟩
          · rw [ca_first, ca_nsamp] at *; omega
          · rw [ca_first, ca_nsamp] at *; omega
      · have hfpt : p - k < ca.lastTrig - ca.first + ca.nsamp := by
          unfold fpt at hfp
          simp only at hfp
          split at hfp
          · rw [ca_npre] at hfp; omega
          · omega
        rw [ca_last, ca_first, ca_nsamp] at hfpt
        rcases hlast with hl | hl
        · refine ⟨c.lastTrig, List.mem_append_left _ hl, ?_, by omega⟩
          have := hbef _ hl
          omega
        · omega
  · -- all triggers are below the new frontier
    intro T hT
    rw [hGl]
    rcases List.mem_append.mp hT with hT | hT
    · have := hbef T hT; omega
    · rw [htr'] at hT
      obtain ⟨x, hx, rfl⟩ := List.mem_map.mp hT
      have := (hallr x hx).2
      rw [hhi] at this
      rw [ca_first]; omega
  · -- the hold-off reference
    rw [t6, c2_last]
    cases hal : all'.getLast? with
    | none =>
      simp only
      rw [ca_last]
      rcases hlast with hl | hl
      · exact Or.inl (List.mem_append_left _ hl)
      · exact Or.inr hl
    | some i =>
      simp only
      left
      apply List.mem_append_right
      rw [htr']
      exact List.mem_map.mpr ⟨i, List.mem_of_getLast? hal, rfl⟩
  · rcases hret' with h0 | h0
    · exact Or.inl h0
    · right; rw [hGl]; exact h0

/-- any number of blocks of any lengths -/
theorem runChan_level_inv {ts : TS} {npre nsamp : Int} {sg : Bool} {e0 : Nat} {f0 : Int} {zt : ZT} {tp : Nat → Int × Int}
    (hv : 3 ≤ npre ∧ npre < nsamp) (hem : ts.edgeMulti = false) (hlevel : ts.level = true) :
    ∀ (segs : List (List Nat)) (n : Nat) (G : List Nat) (c : Chan) (trigs : List Int) (k : Nat) (c' : Chan) (tr : List Int),
      LevelInv ts npre nsamp sg e0 G f0 c trigs k →
      runChan zt tp sg n c (f0 + G.length) segs = some (c', tr) →
      ∃ k', LevelInv ts npre nsamp sg e0 (G ++ segs.flatten) f0 c' (trigs ++ tr) k'
  | [], n, G, c, trigs, k, c', tr, hinv, h => by
    simp only [runChan, Option.some.injEq, Prod.mk.injEq] at h
    obtain ⟨rfl, rfl⟩ := h
    exact ⟨k, by simpa using hinv⟩
  | seg :: segs, n, G, c, trigs, k, c', tr, hinv, h => by
    unfold runChan at h
    split at h
    · simp at h
    rename_i c1 tr1 hstep
    split at h
    · simp at h
    rename_i c2 tr2 hrun
    simp only [Option.some.injEq, Prod.mk.injEq] at h
    obtain ⟨rfl, rfl⟩ := h
    obtain ⟨k1, hinv1⟩ := stepChan_level_inv hv hem hlevel hinv hstep
    have hlen : f0 + (G.length : Int) + (seg.length : Int) = f0 + ((G ++ seg).length : Int) := by simp; omega
    rw [hlen] at hrun
    obtain ⟨k2, hinv2⟩ := runChan_level_inv hv hem hlevel segs (n + 1) (G ++ seg) c1 (trigs ++ tr1) k1 c2 tr2 hinv1 hrun
    refine ⟨k2, ?_⟩
    simpa [List.append_assoc] using hinv2

end DastardV.Trig
