/-
C05 — the LJH 2.2 text header is self-delimiting and reads back field by field; the OFF binary
matrix block reads back the matrices.
-/
import DastardV.Lemmas.C05Bytes
namespace DastardV.C05

/-- no line terminator inside -/
def NoEOL (l : Bytes) : Prop := ∀ x ∈ l, x ≠ 10 ∧ x ≠ 13

/-- a header key: no line terminator, no colon, does not start with `#` -/
def GoodKey (k : Bytes) : Prop := (∀ x ∈ k, x ≠ 10 ∧ x ≠ 13 ∧ x ≠ 58) ∧ k.head? ≠ some 35

def GoodKV (kv : Bytes × Bytes) : Prop := GoodKey kv.1 ∧ NoEOL kv.2

instance (l : Bytes) : Decidable (NoEOL l) := by unfold NoEOL; infer_instance
instance (k : Bytes) : Decidable (GoodKey k) := by unfold GoodKey; infer_instance

theorem NoEOL.append {a c : Bytes} (ha : NoEOL a) (hc : NoEOL c) : NoEOL (a ++ c) := by
  intro x hx
  rcases List.mem_append.mp hx with h | h
  · exact ha x h
  · exact hc x h

theorem readLine_line (l rest : Bytes) (h : NoEOL l) : readLine (l ++ 10 :: rest) = some (l, rest) := by
  induction l with
  | nil => rfl
  | cons c l ih =>
    have hc := h c (by simp)
    have hl : NoEOL l := fun x hx => h x (by simp [hx])
    have e : readLine (c :: (l ++ 10 :: rest)) =
        match readLine (l ++ 10 :: rest) with
        | none => none
        | some (l', r) => some (c :: l', r) := by
      rw [readLine]
      all_goals first | rfl | exact hc.1 | exact hc.2 | (intro _; exact hc.2) | (intro _ h'; exact hc.2 h') | (intro _ h' _; exact hc.2 h')
    rw [List.cons_append, e, ih hl]

theorem splitKV_line (k v : Bytes) (h : ∀ x ∈ k, x ≠ 58) : splitKV (k ++ 58 :: 32 :: v) = some (k, v) := by
  induction k with
  | nil => rfl
  | cons c k ih =>
    have hc := h c (by simp)
    have hk : ∀ x ∈ k, x ≠ 58 := fun x hx => h x (by simp [hx])
    have e : splitKV (c :: (k ++ 58 :: 32 :: v)) =
        match splitKV (k ++ 58 :: 32 :: v) with
        | none => none
        | some (k', v') => some (c :: k', v') := by
      rw [splitKV]
      all_goals first | rfl | exact hc | (intro _; exact hc) | (intro _ h'; exact hc h') | (intro _ h' _; exact hc h')
    rw [List.cons_append, e, ih hk]

/-- one rendered header line -/
def renderKV (kv : Bytes × Bytes) : Bytes := kv.1 ++ [58, 32] ++ kv.2 ++ [10]

theorem renderHeader22_eq (kvs : List (Bytes × Bytes)) :
    renderHeader22 kvs = magic22 ++ 10 :: (kvs.flatMap renderKV ++ (endTag22 ++ [10])) := by
  have hf : (fun kv : Bytes × Bytes => kv.1 ++ [58, 32] ++ kv.2 ++ [10]) = renderKV := rfl
  unfold renderHeader22
  rw [hf]
  simp [List.append_assoc]

theorem line_head (k v : Bytes) (hk : k.head? ≠ some 35) : (k ++ 58 :: 32 :: v).head? ≠ some 35 := by
  cases k with
  | nil => simp
  | cons c k => simpa using hk

theorem headerLines_render (kvs : List (Bytes × Bytes)) (body : Bytes) (fuel : Nat)
    (hf : kvs.length < fuel) (hg : ∀ kv ∈ kvs, GoodKV kv) :
    headerLines fuel (kvs.flatMap renderKV ++ (endTag22 ++ 10 :: body)) = some (kvs, body) := by
  induction kvs generalizing fuel with
  | nil =>
    cases fuel with
    | zero => omega
    | succ f =>
      have hr : readLine (endTag22 ++ 10 :: body) = some (endTag22, body) :=
        readLine_line endTag22 body (by decide)
      simp only [List.flatMap_nil, List.nil_append, headerLines, hr, if_true]
  | cons kv kvs ih =>
    cases fuel with
    | zero => omega
    | succ f =>
      obtain ⟨k, v⟩ := kv
      have hkv : GoodKV (k, v) := hg (k, v) (by simp)
      obtain ⟨⟨hk1, hk2⟩, hv⟩ := hkv
      have hline : NoEOL (k ++ 58 :: 32 :: v) := by
        intro x hx
        rcases List.mem_append.mp hx with h | h
        · exact ⟨(hk1 x h).1, (hk1 x h).2.1⟩
        · simp only [List.mem_cons] at h
          rcases h with rfl | rfl | h
          · decide
          · decide
          · exact hv x h
      have hhead := line_head k v hk2
      have hne : (k ++ 58 :: 32 :: v) ≠ endTag22 := by
        intro he
        rw [he] at hhead
        exact hhead (by decide)
      have hsplit := splitKV_line k v (fun x hx => (hk1 x hx).2.2)
      have ih' := ih f (by simp only [List.length_cons] at hf; omega) (fun q hq => hg q (by simp [hq]))
      have hshape : (List.flatMap renderKV ((k, v) :: kvs) ++ (endTag22 ++ 10 :: body)) =
          (k ++ 58 :: 32 :: v) ++ 10 :: (kvs.flatMap renderKV ++ (endTag22 ++ 10 :: body)) := by
        simp [renderKV, List.append_assoc]
      rw [hshape]
      simp only [headerLines, readLine_line _ _ hline, if_neg hne, ih', if_neg hhead, hsplit]

/-- **the LJH 2.2 header is self-delimiting and reads back field by field**: for any list of
key/value texts (keys without colon / line break / leading `#`, values without line break) the
reader written from doc/LJH.md returns exactly those pairs and the body that follows, whatever the
body bytes are -/
theorem parseHeader22_render (kvs : List (Bytes × Bytes)) (body : Bytes) (hg : ∀ kv ∈ kvs, GoodKV kv) :
    parseHeader22 (renderHeader22 kvs ++ body) = some (kvs, body) := by
  have hlen : kvs.length < (renderHeader22 kvs ++ body).length := by
    have h1 : kvs.length ≤ (kvs.flatMap renderKV).length := by
      clear hg
      induction kvs with
      | nil => simp
      | cons kv kvs ih =>
        simp only [List.flatMap_cons, List.length_append, List.length_cons, renderKV]
        omega
    rw [renderHeader22_eq]
    simp only [List.length_append, List.length_cons]
    omega
  unfold parseHeader22
  have hshape : renderHeader22 kvs ++ body =
      magic22 ++ 10 :: (kvs.flatMap renderKV ++ (endTag22 ++ 10 :: body)) := by
    rw [renderHeader22_eq]; simp [List.append_assoc]
  rw [hshape, readLine_line magic22 _ (by decide)]
  simp only [if_true]
  rw [← hshape]
  exact headerLines_render kvs body _ hlen hg

/-! ### decimal texts contain no line break, colon or `#` -/

theorem decNat_digit (n : Nat) : ∀ x ∈ decNat n, 48 ≤ x ∧ x ≤ 57 := by
  intro x hx
  unfold decNat at hx
  obtain ⟨c, hc, rfl⟩ := List.mem_map.mp hx
  have hd := Nat.isDigit_of_mem_toDigits (b := 10) (by decide) (by decide) hc
  simp only [Char.isDigit, Bool.and_eq_true, decide_eq_true_eq] at hd
  have h1 : (48 : Nat) ≤ c.toNat := by
    have := hd.1; exact this
  have h2 : c.toNat ≤ 57 := by
    have := hd.2; exact this
  exact ⟨h1, h2⟩

theorem decInt_chars (i : Int) : ∀ x ∈ decInt i, (48 ≤ x ∧ x ≤ 57) ∨ x = 45 := by
  intro x hx
  cases i with
  | ofNat n => exact Or.inl (decNat_digit n x hx)
  | negSucc n =>
    simp only [decInt, List.mem_cons] at hx
    rcases hx with rfl | hx
    · exact Or.inr rfl
    · exact Or.inl (decNat_digit _ x hx)

theorem decInt_noEOL (i : Int) : NoEOL (decInt i) := by
  intro x hx
  rcases decInt_chars i x hx with h | h <;> omega

theorem decInt_keychars (i : Int) : ∀ x ∈ decInt i, x ≠ 10 ∧ x ≠ 13 ∧ x ≠ 58 := by
  intro x hx
  rcases decInt_chars i x hx with h | h <;> omega

/-! ### OFF binary block -/

theorem off_matrix_block_read (proj bas : List Nat) (pr pc br bc : Nat) (rest : Bytes)
    (hp : proj.length = pr * pc) (hb : bas.length = br * bc) :
    parseOffMatrices pr pc br bc (offMatrixBlock proj bas ++ rest) =
      some (proj.map (· % 2 ^ 64), bas.map (· % 2 ^ 64), rest) := by
  have hl1 := leWords_length 8 proj
  have hl2 := leWords_length 8 bas
  unfold parseOffMatrices offMatrixBlock
  rw [if_neg (by simp only [List.length_append, hl1, hl2, hp, hb]; omega)]
  have h1 : unWords 8 (pr * pc) ((leWords 8 proj ++ leWords 8 bas) ++ rest) = proj.map (· % 2 ^ 64) := by
    rw [← hp, List.append_assoc]; exact unWords_leWords 8 proj _
  have h2 : ((leWords 8 proj ++ leWords 8 bas) ++ rest).drop (8 * (pr * pc)) = leWords 8 bas ++ rest := by
    rw [List.append_assoc]; exact List.drop_left' (by rw [hl1, hp]; omega)
  have h3 : unWords 8 (br * bc) (leWords 8 bas ++ rest) = bas.map (· % 2 ^ 64) := by
    rw [← hb]; exact unWords_leWords 8 bas _
  have h4 : ((leWords 8 proj ++ leWords 8 bas) ++ rest).drop (8 * (pr * pc) + 8 * (br * bc)) = rest :=
    List.drop_left' (by simp only [List.length_append, hl1, hl2, hp, hb]; omega)
  rw [h1, h2, h3, h4]

end DastardV.C05
