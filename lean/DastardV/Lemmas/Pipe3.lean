/-
Helper lemmas for C01: `phase1` / `phase2` of `opBlock` are index-wise maps.
-/
import DastardV.Lemmas.Pipe2
namespace DastardV.Pipe
open Trig

theorem getElem?_tail' {α} (l : List α) (j : Nat) : l.tail[j]? = l[j + 1]? := by
  cases l <;> simp

theorem head?_getD {α} (l : List α) (d : α) : l.head?.getD d = l[0]?.getD d := by
  cases l <;> simp

/-- `phase1` computes, for every channel index `j`, `triggerData (append cs[j] ds[j] …)`. -/
theorem phase1_get (first t0 period : Int) :
    ∀ (cs : List Chan) (sg : List Bool) (ds : List (List Nat)) (zts : List (List (Int × Int)))
      (res : List (Chan × List Rec)),
      phase1 first t0 period cs sg ds zts = some res →
      res.length = cs.length ∧
      ∀ (j : Nat) (c2 : Chan) (recs : List Rec), res[j]? = some (c2, recs) →
        ∃ c d, cs[j]? = some c ∧ ds[j]? = some d ∧
          triggerData (append c d first t0 period (sg[j]?.getD false)) (ztOf (zts[j]?.getD [])) = some (c2, recs)
  | [], sg, ds, zts, res, h => by
    simp [phase1] at h; subst h; simp
  | c :: cs, sg, [], zts, res, h => by simp [phase1] at h
  | c :: cs, sg, d :: ds, zts, res, h => by
    simp only [phase1, bind, Option.bind_eq_some_iff, pure, Option.some.injEq] at h
    obtain ⟨⟨c2, recs⟩, htd, rest, hrest, rfl⟩ := h
    obtain ⟨hlen, ih⟩ := phase1_get first t0 period cs sg.tail ds zts.tail rest hrest
    refine ⟨by simp [hlen], ?_⟩
    intro j c2' recs' hj
    cases j with
    | zero =>
      simp only [List.getElem?_cons_zero, Option.some.injEq, Prod.mk.injEq] at hj
      obtain ⟨rfl, rfl⟩ := hj
      refine ⟨c, d, by simp, by simp, ?_⟩
      rw [← head?_getD, ← head?_getD]
      exact htd
    | succ j =>
      simp only [List.getElem?_cons_succ] at hj
      obtain ⟨c0, d0, hc0, hd0, htd0⟩ := ih j c2' recs' hj
      refine ⟨c0, d0, by simpa using hc0, by simpa using hd0, ?_⟩
      rw [getElem?_tail', getElem?_tail'] at htd0
      exact htd0

/-- `phase2`: secondaries of every channel are cut from its own buffer, then the buffer is trimmed. -/
theorem phase2_get (secMap : List (Nat × List Int)) :
    ∀ (p1 : List (Chan × List Rec)) (idx : Nat) (res : List (Chan × List Rec)),
      phase2 secMap p1 idx = some res →
      res.length = p1.length ∧
      ∀ (j : Nat) (c3 : Chan) (out : List Rec), res[j]? = some (c3, out) →
        ∃ c2 prim fl sec, p1[j]? = some (c2, prim) ∧ secondaries c2 fl = some sec ∧
          c3 = trim c2 ∧ out = prim ++ sec
  | [], idx, res, h => by
    simp [phase2] at h; subst h; simp
  | (c, prim) :: rest, idx, res, h => by
    simp only [phase2, bind, Option.bind_eq_some_iff, pure, Option.some.injEq] at h
    obtain ⟨sec, hsec, tl, htl, rfl⟩ := h
    obtain ⟨hlen, ih⟩ := phase2_get secMap rest (idx + 1) tl htl
    refine ⟨by simp [hlen], ?_⟩
    intro j c3 out hj
    cases j with
    | zero =>
      simp only [List.getElem?_cons_zero, Option.some.injEq, Prod.mk.injEq] at hj
      obtain ⟨rfl, rfl⟩ := hj
      exact ⟨c, prim, _, sec, by simp, hsec, rfl, rfl⟩
    | succ j =>
      simp only [List.getElem?_cons_succ] at hj
      obtain ⟨c2, prim2, fl, sec2, h1, h2, h3, h4⟩ := ih j c3 out hj
      exact ⟨c2, prim2, fl, sec2, by simpa using h1, h2, h3, h4⟩

end DastardV.Pipe
