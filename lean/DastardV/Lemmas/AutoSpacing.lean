/-
C02, spacing of the pure auto triggers, across blocks, WITH OR WITHOUT a veto.

A trigger that satisfies neither the (enabled) edge criterion nor the (enabled) level criterion can only
have been emitted by the auto pass.  The auto pass (`autoLoop`) emits a candidate `npt` only when it is a
whole record before the next already-found trigger, continues `delay` later, restarts `delay` after a
found trigger that is in the way, and starts `delay` after the hold-off reference `lastTrig` (the newest
trigger of the earlier blocks).  Hence such a trigger comes at least `delay = autoD ts nsamp` frames
after EVERY earlier trigger of the run — in particular after its predecessor in the trigger sequence.
A veto only removes candidates, so nothing changes.

Invariant `SpacInv`: the trigger list is ascending, each trigger either satisfies an enabled sample
criterion on the delivered stream or is at least `delay` after all earlier ones; `lastTrig` is at or
after the newest trigger.
-/
import DastardV.Props.C02
namespace DastardV.Trig

/-! ### `sortAsc` keeps a symmetric pairwise relation -/

theorem insertAsc_pairwise {S : Int → Int → Prop} (hsym : ∀ a b, S a b → S b a) {x : Int} :
    ∀ {l : List Int}, (∀ y ∈ l, S x y) → l.Pairwise S → (insertAsc x l).Pairwise S
  | [], _, _ => by simp [insertAsc]
  | z :: zs, hx, hp => by
    obtain ⟨h1, h2⟩ := List.pairwise_cons.mp hp
    simp only [insertAsc]
    split
    · exact List.pairwise_cons.mpr ⟨hx, hp⟩
    · refine List.pairwise_cons.mpr
        ⟨?_, insertAsc_pairwise hsym (fun y hy => hx y (List.mem_cons_of_mem _ hy)) h2⟩
      intro a ha
      rcases mem_insertAsc.mp ha with ha | ha
      · rw [ha]; exact hsym _ _ (hx z (by simp))
      · exact h1 a ha

theorem sortAsc_pairwise {S : Int → Int → Prop} (hsym : ∀ a b, S a b → S b a) :
    ∀ {l : List Int}, l.Pairwise S → (sortAsc l).Pairwise S
  | [], _ => by simp [sortAsc]
  | x :: xs, hp => by
    obtain ⟨h1, h2⟩ := List.pairwise_cons.mp hp
    simp only [sortAsc]
    exact insertAsc_pairwise hsym (fun y hy => h1 y (mem_sortAsc.mp hy)) (sortAsc_pairwise hsym h2)

/-! ### the auto loop: what it adds is spaced -/

/-- result of the auto loop started at candidate `npt` with the found triggers `fd` still ahead: the new
triggers `res` are `delay` apart from each other, not before `npt`, and each is `delay` after or a whole
record before every found trigger -/
def ASp (delay nsamp npt : Int) (fd acc out : List Int) : Prop :=
  ∃ res, out = acc ++ res ∧ res.Pairwise (fun x y => x + delay ≤ y) ∧ (∀ y ∈ res, npt ≤ y) ∧
    (∀ y ∈ res, ∀ x ∈ fd, x + delay ≤ y ∨ y + nsamp ≤ x)

theorem ASp.done {delay nsamp npt : Int} {fd acc : List Int} : ASp delay nsamp npt fd acc acc :=
  ⟨[], by simp, by simp, by simp, by simp⟩

theorem ASp.noemit {delay nsamp npt : Int} {fd acc out : List Int} (hd : 0 < delay)
    (h : ASp delay nsamp (npt + delay) fd acc out) : ASp delay nsamp npt fd acc out := by
  obtain ⟨res, h1, h2, h3, h4⟩ := h
  exact ⟨res, h1, h2, fun y hy => by have := h3 y hy; omega, h4⟩

theorem ASp.emit {delay nsamp npt : Int} {fd acc out : List Int} (hd : 0 < delay)
    (hfit : ∀ x ∈ fd, npt + nsamp ≤ x)
    (h : ASp delay nsamp (npt + delay) fd (acc ++ [npt]) out) : ASp delay nsamp npt fd acc out := by
  obtain ⟨res, h1, h2, h3, h4⟩ := h
  refine ⟨npt :: res, by simp [h1], List.pairwise_cons.mpr ⟨fun y hy => h3 y hy, h2⟩, ?_, ?_⟩
  · intro y hy
    rcases List.mem_cons.mp hy with hy | hy
    · omega
    · have := h3 y hy; omega
  · intro y hy x hx
    rcases List.mem_cons.mp hy with hy | hy
    · right; rw [hy]; exact hfit x hx
    · exact h4 y hy x hx

theorem ASp.conflict {delay nsamp npt nf : Int} {rest acc out : List Int} (hle : npt ≤ nf + delay)
    (h : ASp delay nsamp (nf + delay) rest acc out) : ASp delay nsamp npt (nf :: rest) acc out := by
  obtain ⟨res, h1, h2, h3, h4⟩ := h
  refine ⟨res, h1, h2, fun y hy => by have := h3 y hy; omega, ?_⟩
  intro y hy x hx
  rcases List.mem_cons.mp hx with hx | hx
  · left; rw [hx]; exact h3 y hy
  · exact h4 y hy x hx

/-- the auto loop (veto or not): the triggers it adds satisfy `ASp`, provided the found triggers are
ascending and none of them is more than `delay` before the start candidate -/
theorem autoLoop_spaced (c : Chan) (delay : Int) (hd : 0 < delay) (hns : 0 ≤ c.nsamp) :
    ∀ (found : List Int) (n : Nat) (npt : Int) (acc out : List Int),
      ((c.buf.length : Int) + c.npre - c.nsamp - npt).toNat ≤ n →
      found.Pairwise (· ≤ ·) → (∀ t ∈ found, npt ≤ t + delay) →
      autoLoop c c.buf.length delay hd npt found acc = some out →
      ASp delay c.nsamp npt found acc out := by
  intro found
  induction found with
  | nil =>
    intro n
    induction n with
    | zero =>
      intro npt acc out hn _ _ h
      rw [autoLoop] at h
      have : ¬ npt + c.nsamp - c.npre < (c.buf.length : Int) := by omega
      simp only [this, if_false, Option.some.injEq] at h
      subst h; exact ASp.done
    | succ n ih =>
      intro npt acc out hn hs hf h
      rw [autoLoop] at h
      by_cases hlt : npt + c.nsamp - c.npre < (c.buf.length : Int)
      · simp only [hlt, if_true] at h
        have no : autoLoop c c.buf.length delay hd (npt + delay) [] acc = some out →
            ASp delay c.nsamp npt [] acc out := fun h' =>
          (ih (npt + delay) acc out (by omega) hs (by simp) h').noemit hd
        have em : autoLoop c c.buf.length delay hd (npt + delay) [] (acc ++ [npt]) = some out →
            ASp delay c.nsamp npt [] acc out := fun h' =>
          (ih (npt + delay) (acc ++ [npt]) out (by omega) hs (by simp) h').emit hd (by simp)
        split at h
        · split at h
          · simp at h
          · split at h
            · exact no h
            · exact em h
        · exact em h
      · simp only [hlt, if_false, Option.some.injEq] at h
        subst h; exact ASp.done
  | cons nf rest ihf =>
    intro n
    induction n with
    | zero =>
      intro npt acc out hn _ _ h
      rw [autoLoop] at h
      have : ¬ npt + c.nsamp - c.npre < (c.buf.length : Int) := by omega
      simp only [this, if_false, Option.some.injEq] at h
      subst h; exact ASp.done
    | succ n ih =>
      intro npt acc out hn hs hf h
      obtain ⟨hnfrest, hsrest⟩ := List.pairwise_cons.mp hs
      rw [autoLoop] at h
      by_cases hlt : npt + c.nsamp - c.npre < (c.buf.length : Int)
      · simp only [hlt, if_true] at h
        by_cases hfit : npt + c.nsamp ≤ nf
        · simp only [hfit, if_true] at h
          have hfit' : ∀ x ∈ nf :: rest, npt + c.nsamp ≤ x := by
            intro x hx
            rcases List.mem_cons.mp hx with hx | hx
            · omega
            · have := hnfrest x hx; omega
          have hf' : ∀ t ∈ nf :: rest, npt + delay ≤ t + delay := by
            intro t ht; have := hfit' t ht; omega
          have no : autoLoop c c.buf.length delay hd (npt + delay) (nf :: rest) acc = some out →
              ASp delay c.nsamp npt (nf :: rest) acc out := fun h' =>
            (ih (npt + delay) acc out (by omega) hs hf' h').noemit hd
          have em : autoLoop c c.buf.length delay hd (npt + delay) (nf :: rest) (acc ++ [npt]) = some out →
              ASp delay c.nsamp npt (nf :: rest) acc out := fun h' =>
            (ih (npt + delay) (acc ++ [npt]) out (by omega) hs hf' h').emit hd hfit'
          split at h
          · split at h
            · simp at h
            · split at h
              · exact no h
              · exact em h
          · exact em h
        · simp only [hfit, if_false] at h
          have hnf := hf nf (by simp)
          exact (ihf _ (nf + delay) acc out (Nat.le_refl _) hsrest
            (fun t ht => by have := hnfrest t ht; omega) h).conflict hnf
      · simp only [hlt, if_false, Option.some.injEq] at h
        subst h; exact ASp.done

/-- the auto pass of one block: in its (sorted) result every trigger that is not one of the `found`
ones comes at least `delay` after every trigger placed before it, and not before the scan start -/
theorem autoPass_spaced {c : Chan} (ha : c.ts.auto = true) (hns : 1 ≤ c.nsamp) {found all : List Int}
    (hs : found.Pairwise (· ≤ ·)) (hlo : ∀ t ∈ found, fpta c ≤ t + autoD c.ts c.nsamp)
    (h : autoPass c found = some all) :
    all.Pairwise (fun x y => x ≤ y ∧ (y ∈ found ∨ x + autoD c.ts c.nsamp ≤ y)) ∧
    (∀ y ∈ all, y ∈ found ∨ fpta c ≤ y) := by
  obtain ⟨D, hDc, hd, new, hnew, hall_eq⟩ := autoPass_on' ha hns h
  subst hDc
  obtain ⟨res, hres, hpw, hge, hrel⟩ :=
    autoLoop_spaced c _ hd (by omega) found _ (fpta c) [] new (Nat.le_refl _) hs hlo hnew
  simp only [List.nil_append] at hres
  subst hres
  subst hall_eq
  refine ⟨?_, ?_⟩
  · -- a symmetric form of the relation survives the sort
    have hsymrel : (found ++ new).Pairwise (fun x y =>
        (x ≤ y → y ∈ found ∨ x + autoD c.ts c.nsamp ≤ y) ∧ (y ≤ x → x ∈ found ∨ y + autoD c.ts c.nsamp ≤ x)) := by
      refine List.pairwise_append.mpr ⟨?_, ?_, ?_⟩
      · exact List.Pairwise.imp_of_mem
          (fun hx hy _ => ⟨fun _ => Or.inl hy, fun _ => Or.inl hx⟩) hs
      · exact hpw.imp (fun {x y} hxy => ⟨fun _ => Or.inr hxy, fun _ => by omega⟩)
      · intro x hx y hy
        refine ⟨fun hxy => ?_, fun _ => Or.inl hx⟩
        rcases hrel y hy x hx with h1 | h1
        · exact Or.inr h1
        · omega
    have hsorted := sortAsc_sorted (found ++ new)
    have hsym2 := sortAsc_pairwise (S := fun x y =>
        (x ≤ y → y ∈ found ∨ x + autoD c.ts c.nsamp ≤ y) ∧ (y ≤ x → x ∈ found ∨ y + autoD c.ts c.nsamp ≤ x))
      (fun a b hab => ⟨hab.2, hab.1⟩) hsymrel
    exact (hsorted.and hsym2).imp (fun {x y} hxy => ⟨hxy.1, hxy.2.1 hxy.1⟩)
  · intro y hy
    rcases List.mem_append.mp (mem_sortAsc.mp hy) with hy | hy
    · exact Or.inl hy
    · exact Or.inr (hge y hy)

/-! ### the invariant across blocks -/

/-- frame `T` satisfies an enabled SAMPLE criterion (edge or level) on the stream `G` -/
def CritAt (ts : TS) (sg : Bool) (G : List Nat) (f0 T : Int) : Prop :=
  (ts.edge = true ∧ edgeAtG (cfgChan ts sg) G (T - f0) = true) ∨
  (ts.level = true ∧ levelAtG (cfgChan ts sg) G (T - f0) = true)

theorem CritAt.extend {ts : TS} {sg : Bool} {G : List Nat} {f0 T : Int} (h : CritAt ts sg G f0 T)
    (hin : T - f0 < G.length) (seg : List Nat) : CritAt ts sg (G ++ seg) f0 T := by
  rcases h with ⟨h1, h2⟩ | ⟨h1, h2⟩
  · exact Or.inl ⟨h1, by rw [edgeAtG_append G seg _ hin]; exact h2⟩
  · exact Or.inr ⟨h1, by rw [levelAtG_append G seg _ hin]; exact h2⟩

/-- the spacing relation between an earlier trigger `a` and a later trigger `b` -/
def SpRel (ts : TS) (nsamp : Int) (sg : Bool) (G : List Nat) (f0 : Int) (a b : Int) : Prop :=
  a ≤ b ∧ (CritAt ts sg G f0 b ∨ a + autoD ts nsamp ≤ b)

structure SpacInv (ts : TS) (npre nsamp : Int) (sg : Bool) (G : List Nat) (f0 : Int) (c : Chan)
    (trigs : List Int) (k : Nat) : Prop where
  hk : k ≤ G.length
  hbuf : c.buf = G.drop k
  cfg : Cfg c ts npre nsamp sg
  inside : ∀ T ∈ trigs, T - f0 < G.length
  newest : ∀ T ∈ trigs, T ≤ c.lastTrig
  spaced : trigs.Pairwise (SpRel ts nsamp sg G f0)

/-- one block preserves the spacing invariant (veto or not) -/
theorem stepChan_spac_inv {ts : TS} {npre nsamp : Int} {sg : Bool} {G : List Nat} {f0 : Int} {c : Chan}
    {trigs : List Int} {k : Nat} {zt : ZT} {seg : List Nat} {t0 per : Int} {c1 : Chan} {tr : List Int}
    (hv : 3 ≤ npre ∧ npre < nsamp) (hem : ts.edgeMulti = false) (hauto : ts.auto = true)
    (hinv : SpacInv ts npre nsamp sg G f0 c trigs k)
    (h : stepChan zt c seg (f0 + G.length) t0 per sg = some (c1, tr)) :
    ∃ k', SpacInv ts npre nsamp sg (G ++ seg) f0 c1 (trigs ++ tr) k' := by
  obtain ⟨hk, hbuf, hcfg, hinside, hnewest, hspaced⟩ := hinv
  obtain ⟨ca, e, el, all, k', ca_buf, ca_first, ca_ts, ca_npre, ca_nsamp, ca_sg, ca_last, hhi, he, hel, hall, hfo,
    helr, hallr, htr, hc1last, hcfg1, hk', hbuf', hkk⟩ := stepChan_anat hv hem hk hbuf hcfg h
  have hval : ValidLen ca := by unfold ValidLen; rw [ca_npre, ca_nsamp]; exact hv
  have hns1 : 1 ≤ ca.nsamp := by rw [ca_nsamp]; omega
  have hGl : ((G ++ seg).length : Int) = (G.length : Int) + seg.length := by simp
  have hD : autoD ca.ts ca.nsamp = autoD ts nsamp := by rw [ca_ts, ca_nsamp]
  have hDpos : 0 < autoD ts nsamp := by unfold autoD; split <;> omega
  -- edge triggers satisfy the edge criterion
  have hE : ∀ x ∈ e, ts.edge = true ∧ edgeAt ca x = true := by
    obtain ⟨e', he', hoff, hon⟩ := edgePass_spec ca hval.1 (by obtain ⟨a, b⟩ := hval; omega) (by obtain ⟨a, b⟩ := hval; omega)
    have hee : e' = e := some_inj' (he'.symm.trans he)
    subst hee
    intro x hx
    by_cases hedge : ca.ts.edge = true
    · exact ⟨by rw [← ca_ts]; exact hedge, (hon hedge).sound x hx⟩
    · have : e' = [] := hoff (by simpa using hedge)
      rw [this] at hx; simp at hx
  -- level triggers satisfy the level criterion; the list after the level pass is ascending
  have hL : (∀ x ∈ el, x ∈ e ∨ (ts.level = true ∧ levelAt ca x = true)) ∧ el.Pairwise (· ≤ ·) := by
    by_cases hl : ca.ts.level = true
    · obtain ⟨new, hnew, hls⟩ := levelPass_spec hval hl hfo
      have : el = sortAsc (e ++ new) := some_inj' (hel.symm.trans hnew)
      subst this
      refine ⟨?_, sortAsc_sorted _⟩
      intro x hx
      rcases List.mem_append.mp (mem_sortAsc.mp hx) with hx | hx
      · exact Or.inl hx
      · exact Or.inr ⟨by rw [← ca_ts]; exact hl, hls.sound x hx⟩
    · have hl' : ca.ts.level = false := by simpa using hl
      have : el = e := some_inj' (hel.symm.trans (levelPass_off hl' e))
      subst this
      exact ⟨fun x hx => Or.inl hx, hfo.2.imp (fun {a b} hab => by omega)⟩
  obtain ⟨hL, helsorted⟩ := hL
  -- every trigger of the edge/level passes satisfies an enabled criterion on the stream
  have hcrit : ∀ x ∈ el, CritAt ts sg (G ++ seg) f0 (ca.first + x) := by
    intro x hx
    have hx3 : 3 ≤ x := by have := (helr x hx).1; have := fpt_ge ca; omega
    have hpos : ca.first + x - f0 = (k : Int) + x := by rw [ca_first]; omega
    unfold CritAt
    rw [hpos]
    rcases hL x hx with hxe | ⟨hl, hlv⟩
    · obtain ⟨hedge, hev⟩ := hE x hxe
      left
      refine ⟨hedge, ?_⟩
      rw [edgeAt_eq_G ca_buf x hx3] at hev
      rw [← hev]
      exact (edgeAtG_congr (c := cfgChan ts sg) (c' := ca) (by rw [ca_ts]; rfl) (by rw [ca_sg]; rfl) _ _).symm
    · right
      refine ⟨hl, ?_⟩
      rw [levelAt_eq_G ca_buf x (by omega)] at hlv
      rw [← hlv]
      exact (levelAtG_congr (c := cfgChan ts sg) (c' := ca) (by rw [ca_ts]; rfl) (by rw [ca_sg]; rfl) _ _).symm
  -- where the scans of this block start
  have hfpt : c.lastTrig - ca.first + nsamp ≤ fpt ca ∧ npre ≤ fpt ca := by
    unfold fpt; rw [ca_last, ca_nsamp, ca_npre]; simp only; split <;> omega
  have hfpta : c.lastTrig - ca.first + autoD ts nsamp ≤ fpta ca ∧ npre ≤ fpta ca ∧
      (fpta ca = npre ∨ fpta ca = c.lastTrig - ca.first + autoD ts nsamp) := by
    rw [fpta_eq, hD, ca_last, ca_npre]
    split
    · exact ⟨by omega, by omega, Or.inl rfl⟩
    · exact ⟨by omega, by omega, Or.inr rfl⟩
  have hlo : ∀ t ∈ el, fpta ca ≤ t + autoD ca.ts ca.nsamp := by
    intro t ht
    have := (helr t ht).1
    rw [hD]
    rcases hfpta.2.2 with h2 | h2 <;> omega
  obtain ⟨hpw, hmem⟩ := autoPass_spaced (by rw [ca_ts]; exact hauto) hns1 helsorted hlo hall
  rw [hD] at hpw
  -- everything found in this block is newer than the hold-off reference
  have hnewer : ∀ x ∈ all, c.lastTrig < ca.first + x ∧ (x ∈ el ∨ c.lastTrig + autoD ts nsamp ≤ ca.first + x) := by
    intro x hx
    rcases hmem x hx with hx | hx
    · have := (helr x hx).1
      exact ⟨by omega, Or.inl hx⟩
    · exact ⟨by omega, Or.inr (by omega)⟩
  have hallsorted : all.Pairwise (· ≤ ·) := hpw.imp (fun {a b} hab => hab.1)
  -- the new hold-off reference
  have hLast : (all = [] ∧ tr = [] ∧ c1.lastTrig = c.lastTrig) ∨
      (∃ i, i ∈ all ∧ c1.lastTrig = ca.first + i ∧ ∀ x ∈ all, x ≤ i) := by
    cases hal : all.getLast? with
    | none =>
      have hnil : all = [] := List.getLast?_eq_none_iff.mp hal
      left
      refine ⟨hnil, by rw [htr, hnil]; rfl, ?_⟩
      rw [hc1last, hal]
    | some i =>
      right
      refine ⟨i, List.mem_of_getLast? hal, ?_, sorted_le_getLast hallsorted hal⟩
      rw [hc1last, hal]
  have hLge : c.lastTrig ≤ c1.lastTrig := by
    rcases hLast with ⟨_, _, h3⟩ | ⟨i, hi, h3, _⟩
    · omega
    · have := (hnewer i hi).1; omega
  refine ⟨k', ⟨hk', hbuf', hcfg1, ?_, ?_, ?_⟩⟩
  · -- inside the delivered stream
    intro T hT
    rw [hGl]
    rcases List.mem_append.mp hT with hT | hT
    · have := hinside T hT; omega
    · rw [htr] at hT
      obtain ⟨x, hx, rfl⟩ := List.mem_map.mp hT
      have := (hallr x hx).2
      rw [hhi] at this
      rw [ca_first]; omega
  · -- the hold-off reference is at or after every trigger
    intro T hT
    rcases List.mem_append.mp hT with hT | hT
    · have := hnewest T hT; omega
    · rcases hLast with ⟨_, h2, _⟩ | ⟨i, hi, h3, hmax⟩
      · rw [h2] at hT; simp at hT
      · rw [htr] at hT
        obtain ⟨x, hx, rfl⟩ := List.mem_map.mp hT
        have := hmax x hx
        omega
  · -- the spacing relation
    refine List.pairwise_append.mpr ⟨?_, ?_, ?_⟩
    · refine List.Pairwise.imp_of_mem ?_ hspaced
      intro a b _ hb hab
      refine ⟨hab.1, ?_⟩
      rcases hab.2 with h1 | h1
      · exact Or.inl (h1.extend (hinside b hb) seg)
      · exact Or.inr h1
    · rw [htr]
      refine List.pairwise_map.mpr ?_
      refine hpw.imp ?_
      intro a b hab
      refine ⟨by omega, ?_⟩
      rcases hab.2 with h1 | h1
      · exact Or.inl (hcrit b h1)
      · exact Or.inr (by omega)
    · intro a ha b hb
      rw [htr] at hb
      obtain ⟨x, hx, rfl⟩ := List.mem_map.mp hb
      have h1 := hnewest a ha
      obtain ⟨h2, h3⟩ := hnewer x hx
      refine ⟨by omega, ?_⟩
      rcases h3 with h3 | h3
      · exact Or.inl (hcrit x h3)
      · exact Or.inr (by omega)

/-- any number of blocks of any lengths -/
theorem runChan_spac_inv {ts : TS} {npre nsamp : Int} {sg : Bool} {f0 : Int} {zt : ZT} {tp : Nat → Int × Int}
    (hv : 3 ≤ npre ∧ npre < nsamp) (hem : ts.edgeMulti = false) (hauto : ts.auto = true) :
    ∀ (segs : List (List Nat)) (n : Nat) (G : List Nat) (c : Chan) (trigs : List Int) (k : Nat) (c' : Chan) (tr : List Int),
      SpacInv ts npre nsamp sg G f0 c trigs k →
      runChan zt tp sg n c (f0 + G.length) segs = some (c', tr) →
      ∃ k', SpacInv ts npre nsamp sg (G ++ segs.flatten) f0 c' (trigs ++ tr) k'
  | [], n, G, c, trigs, k, c', tr, hinv, h => by
    simp only [runChan, Option.some.injEq, Prod.mk.injEq] at h
    obtain ⟨rfl, rfl⟩ := h
    exact ⟨k, by simpa using hinv⟩
  | seg :: segs, n, G, c, trigs, k, c', tr, hinv, h => by
    unfold runChan at h
    split at h
    · simp at h
    rename_i c1 tr1 hstep
    split at h
    · simp at h
    rename_i c2 tr2 hrun
    simp only [Option.some.injEq, Prod.mk.injEq] at h
    obtain ⟨rfl, rfl⟩ := h
    obtain ⟨k1, hinv1⟩ := stepChan_spac_inv hv hem hauto hinv hstep
    have hlen : f0 + (G.length : Int) + (seg.length : Int) = f0 + ((G ++ seg).length : Int) := by simp; omega
    rw [hlen] at hrun
    obtain ⟨k2, hinv2⟩ := runChan_spac_inv hv hem hauto segs (n + 1) (G ++ seg) c1 (trigs ++ tr1) k1 c2 tr2 hinv1 hrun
    refine ⟨k2, ?_⟩
    simpa [List.append_assoc] using hinv2

end DastardV.Trig

namespace DastardV.C02
open Trig

theorem fresh_spac_inv {c : Chan} {ts : TS} {npre nsamp f0 : Int} (sg : Bool)
    (h : Fresh c ts npre nsamp f0) : SpacInv ts npre nsamp sg [] f0 c [] 0 := by
  obtain ⟨hbuf, hts, hnpre, hnsamp, hsync, _⟩ := h
  exact ⟨by simp, by simp [hbuf], ⟨hts, hnpre, hnsamp, hsync, Or.inr hbuf⟩, by simp, by simp, by simp⟩

/-- **Auto trigger, spacing, all earlier triggers** (veto or not; auto alone or combined with edge and
level; all streams, all block partitions): the trigger frames of a run from a start are ascending, and
every trigger that satisfies neither the enabled edge criterion nor the enabled level criterion on the
delivered stream comes at least the auto delay (`autoD` = the configured delay, or one record if that
is longer) after EVERY trigger emitted before it. -/
theorem C02_auto_spacing_all {c c' : Chan} {ts : TS} {npre nsamp f0 : Int} {tp : Nat → Int × Int} {n : Nat} {sg : Bool} {zt : ZT}
    (hv : 3 ≤ npre ∧ npre < nsamp) (hem : ts.edgeMulti = false) (hauto : ts.auto = true)
    (hfresh : Fresh c ts npre nsamp f0) (segs : List (List Nat)) {tr : List Int}
    (hrun : runChan zt tp sg n c f0 segs = some (c', tr)) :
    tr.Pairwise (fun a b => a ≤ b ∧
      (¬ ((ts.edge = true ∧ edgeAtG (cfgChan ts sg) segs.flatten (b - f0) = true) ∨
          (ts.level = true ∧ levelAtG (cfgChan ts sg) segs.flatten (b - f0) = true)) →
        autoD ts nsamp ≤ b - a)) := by
  have h0 := fresh_spac_inv sg hfresh
  obtain ⟨k', hinv⟩ := runChan_spac_inv hv hem hauto segs n [] c [] 0 c' tr h0 (by simpa using hrun)
  rw [List.nil_append, List.nil_append] at hinv
  refine hinv.spaced.imp ?_
  intro a b hab
  refine ⟨hab.1, fun hno => ?_⟩
  rcases hab.2 with h1 | h1
  · exact absurd h1 hno
  · omega

/-- **Auto trigger, spacing of consecutive triggers** (the run-time oracle's clause (a')): for any two
CONSECUTIVE triggers `a`, `b` of the run's trigger sequence (`tr = pre ++ a :: b :: post`), if `b`
satisfies neither the enabled edge criterion nor the enabled level criterion on the delivered stream
(so it can only be an auto trigger) then `b` comes at least the auto delay after `a`:
`autoD ts nsamp ≤ b − a`.  No restriction on the veto (`autoVeto` arbitrary), on the edge/level
settings, on the stream or on the block lengths; hypotheses as in `C02_sound` plus `ts.auto = true`. -/
theorem C02_auto_spacing {c c' : Chan} {ts : TS} {npre nsamp f0 : Int} {tp : Nat → Int × Int} {n : Nat} {sg : Bool} {zt : ZT}
    (hv : 3 ≤ npre ∧ npre < nsamp) (hem : ts.edgeMulti = false) (hauto : ts.auto = true)
    (hfresh : Fresh c ts npre nsamp f0) (segs : List (List Nat)) {tr : List Int}
    (hrun : runChan zt tp sg n c f0 segs = some (c', tr)) :
    ∀ (pre post : List Int) (a b : Int), tr = pre ++ a :: b :: post →
      ¬ ((ts.edge = true ∧ edgeAtG (cfgChan ts sg) segs.flatten (b - f0) = true) ∨
         (ts.level = true ∧ levelAtG (cfgChan ts sg) segs.flatten (b - f0) = true)) →
      autoD ts nsamp ≤ b - a := by
  intro pre post a b htr hno
  have hp := C02_auto_spacing_all hv hem hauto hfresh segs hrun
  rw [htr] at hp
  obtain ⟨_, hp2, _⟩ := List.pairwise_append.mp hp
  exact ((List.pairwise_cons.mp hp2).1 b (by simp)).2 hno

/-- the same with the criteria taken regardless of their enabling flags (a weaker premise is not needed:
a trigger on which the raw criteria both fail satisfies no enabled criterion either) -/
theorem C02_auto_spacing_raw {c c' : Chan} {ts : TS} {npre nsamp f0 : Int} {tp : Nat → Int × Int} {n : Nat} {sg : Bool} {zt : ZT}
    (hv : 3 ≤ npre ∧ npre < nsamp) (hem : ts.edgeMulti = false) (hauto : ts.auto = true)
    (hfresh : Fresh c ts npre nsamp f0) (segs : List (List Nat)) {tr : List Int}
    (hrun : runChan zt tp sg n c f0 segs = some (c', tr)) :
    ∀ (pre post : List Int) (a b : Int), tr = pre ++ a :: b :: post →
      edgeAtG (cfgChan ts sg) segs.flatten (b - f0) = false →
      levelAtG (cfgChan ts sg) segs.flatten (b - f0) = false →
      autoD ts nsamp ≤ b - a := by
  intro pre post a b htr h1 h2
  refine C02_auto_spacing hv hem hauto hfresh segs hrun pre post a b htr ?_
  rintro (⟨_, h⟩ | ⟨_, h⟩)
  · rw [h1] at h; cases h
  · rw [h2] at h; cases h

/-- the same **after a reconfiguration at any point of the stream** (the channel as `configureTrigger`
leaves it — `configureTrigger_epoch` — with whatever the buffer retains; `tr` = the triggers emitted
since the request, criteria evaluated on the whole delivered stream `G ++ segs.flatten`) -/
theorem C02_auto_spacing_after_reconfigure {c c' : Chan} {ts : TS} {npre nsamp f0 : Int} {tp : Nat → Int × Int} {n : Nat}
    {sg : Bool} {zt : ZT} {G : List Nat} {k : Nat}
    (hv : 3 ≤ npre ∧ npre < nsamp) (hem : ts.edgeMulti = false) (hauto : ts.auto = true)
    (hk : k ≤ G.length) (hbuf : c.buf = G.drop k) (hts : c.ts = ts) (hnpre : c.npre = npre)
    (hnsamp : c.nsamp = nsamp) (hsync : c.emt.nsamp = nsamp) (hsg : c.signed = sg)
    (segs : List (List Nat)) {tr : List Int}
    (hrun : runChan zt tp sg n c (f0 + G.length) segs = some (c', tr)) :
    ∀ (pre post : List Int) (a b : Int), tr = pre ++ a :: b :: post →
      ¬ ((ts.edge = true ∧ edgeAtG (cfgChan ts sg) (G ++ segs.flatten) (b - f0) = true) ∨
         (ts.level = true ∧ levelAtG (cfgChan ts sg) (G ++ segs.flatten) (b - f0) = true)) →
      autoD ts nsamp ≤ b - a := by
  have h0 : SpacInv ts npre nsamp sg G f0 c [] k :=
    ⟨hk, hbuf, ⟨hts, hnpre, hnsamp, hsync, Or.inl hsg⟩, by simp, by simp, by simp⟩
  obtain ⟨k', hinv⟩ := runChan_spac_inv hv hem hauto segs n G c [] k c' tr h0 hrun
  rw [List.nil_append] at hinv
  intro pre post a b htr hno
  have hp := hinv.spaced
  rw [htr] at hp
  obtain ⟨_, hp2, _⟩ := List.pairwise_append.mp hp
  have hab := (List.pairwise_cons.mp hp2).1 b (by simp)
  rcases hab.2 with h1 | h1
  · exact absurd h1 hno
  · omega

/-! ### Non-vacuity -/

/-- the hypotheses are met by an ordinary configuration: a fresh channel with npre 3, nsamp 8, edge
and auto triggers (delay 20 samples) and a veto -/
example : Fresh { npre := 3, nsamp := 8,
                  ts := { edge := true, edgeRising := true, edgeLevel := 100, auto := true, autoDelay := 20, autoVeto := 50 },
                  emt := { npre := 3, nsamp := 8 } }
    { edge := true, edgeRising := true, edgeLevel := 100, auto := true, autoDelay := 20, autoVeto := 50 } 3 8 0 :=
  ⟨rfl, rfl, rfl, rfl, rfl, by decide⟩

end DastardV.C02
