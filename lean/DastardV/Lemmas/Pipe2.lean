/-
Helper lemmas for C01: every record `triggerData` / `secondaries` returns is a `cut` of the
channel's buffer, and these functions leave the buffer and its labels alone.
-/
import DastardV.Lemmas.Pipe1
namespace DastardV.Trig

/-- `c'` has the same stream buffer and labels as `c` (trigger passes only touch trigger state) -/
def SameStream (c c' : Chan) : Prop :=
  c'.buf = c.buf ∧ c'.first = c.first ∧ c'.t0 = c.t0 ∧ c'.period = c.period ∧ c'.signed = c.signed ∧
    c'.npre = c.npre ∧ c'.nsamp = c.nsamp ∧ c'.ts = c.ts

theorem SameStream.refl (c : Chan) : SameStream c c := ⟨rfl, rfl, rfl, rfl, rfl, rfl, rfl, rfl⟩

theorem cutAll_mem {c : Chan} : ∀ {is : List Int} {rs : List Rec}, cutAll c is = some rs →
    ∀ r ∈ rs, ∃ i ∈ is, cut c i c.npre c.nsamp = some r
  | [], rs, h => by
    simp [cutAll] at h; subst h; intro r hr; simp at hr
  | i :: is, rs, h => by
    simp only [cutAll, bind, Option.bind_eq_some_iff, pure, Option.some.injEq] at h
    obtain ⟨r0, hr0, rs0, hrs0, rfl⟩ := h
    intro r hr
    rcases List.mem_cons.mp hr with rfl | hr
    · exact ⟨i, by simp, hr0⟩
    · obtain ⟨j, hj, hc⟩ := cutAll_mem hrs0 r hr
      exact ⟨j, by simp [hj], hc⟩

theorem cutSpecs_mem {c : Chan} : ∀ {sps : List Spec} {rs : List Rec}, cutSpecs c sps = some rs →
    ∀ r ∈ rs, ∃ sp ∈ sps, cut c (sp.frame - c.first) sp.npre sp.nsamp = some r
  | [], rs, h => by
    simp [cutSpecs] at h; subst h; intro r hr; simp at hr
  | sp :: sps, rs, h => by
    simp only [cutSpecs, bind, Option.bind_eq_some_iff, pure, Option.some.injEq] at h
    obtain ⟨r0, hr0, rs0, hrs0, rfl⟩ := h
    intro r hr
    rcases List.mem_cons.mp hr with rfl | hr
    · exact ⟨sp, by simp, hr0⟩
    · obtain ⟨j, hj, hc⟩ := cutSpecs_mem hrs0 r hr
      exact ⟨j, by simp [hj], hc⟩

/-- every primary record is a cut of the buffer; fixed lengths outside edge-multi -/
theorem triggerData_recs {c c' : Chan} {zt : ZT} {recs : List Rec}
    (h : triggerData c zt = some (c', recs)) :
    SameStream c c' ∧
    (∀ r ∈ recs, ∃ i p n, cut c i p n = some r ∧ (c.ts.edgeMulti = false → p = c.npre ∧ n = c.nsamp)) := by
  unfold triggerData at h
  split at h
  · -- edge-multi
    rename_i hem
    split at h
    · simp at h
    · rename_i emt' specs hs
      split at h
      · simp at h
      · rename_i recs0 hr0
        simp only [Option.some.injEq, Prod.mk.injEq] at h
        obtain ⟨hc, hr⟩ := h
        subst hc; subst hr
        refine ⟨⟨rfl, rfl, rfl, rfl, rfl, rfl, rfl, rfl⟩, ?_⟩
        intro r hr
        obtain ⟨sp, _, hcut⟩ := cutSpecs_mem hr0 r hr
        exact ⟨_, _, _, hcut, by intro hf; simp [hf] at hem⟩
  · rename_i hem
    split at h
    · simp at h
    · split at h
      · simp at h
      · split at h
        · simp at h
        · split at h
          · simp at h
          · split at h
            · simp at h
            · split at h
              · simp at h
              · rename_i all _ recs0 hr0
                simp only [Option.some.injEq, Prod.mk.injEq] at h
                obtain ⟨hc, hr⟩ := h
                subst hc; subst hr
                refine ⟨⟨rfl, rfl, rfl, rfl, rfl, rfl, rfl, rfl⟩, ?_⟩
                intro r hr
                obtain ⟨i, _, hcut⟩ := cutAll_mem hr0 r hr
                exact ⟨i, _, _, hcut, fun _ => ⟨rfl, rfl⟩⟩

theorem secondaries_recs {c : Chan} {frames : List Int} {recs : List Rec}
    (h : secondaries c frames = some recs) :
    ∀ r ∈ recs, ∃ i, cut c i c.npre c.nsamp = some r := by
  intro r hr
  obtain ⟨i, _, hc⟩ := cutAll_mem h r hr
  exact ⟨i, hc⟩

end DastardV.Trig
