/-
Record-length bounds for EVERY trigger mode, edge-multi included (C01/C08 → C05).

`ComposeFile` shows that a channel outside edge-multi mode publishes records of exactly the configured
length.  In edge-multi mode the record length varies (`EMTMode.variable` shortens the pre- and the
post-trigger part when pulses crowd).  Here: whatever the mode, no record is longer than the configured
record length and none has more pre-trigger samples than configured —

* `shouldRecord_le`, `emtLoop_specs`, `emtSpecs_le`  every record specification of one edge-multi search
  (the flush at the end included) obeys `0 ≤ npre ≤ npreIn`, `nsamp ≤ nsampIn` — no ordering assumption
  on the carried edges is needed for this;
* `triggerData_recs_le`   one `TriggerData` call, any mode;
* `opBlock_recs_le`       one `ProcessSegments` call, all channels, primaries and secondaries;
* `runOps_recs_le`        any history of blocks and requests (ANY blocks: no contiguity, no kink-fit
  assumption; `ConfigureTriggers` incl. edge-multi on/off; `ConfigurePulseLengths` too — the bound is
  then any `M`/`P` that dominates the initial and every requested length);
* `run_recs_le`           from `PrepareRun`, histories without `ConfigurePulseLengths`: the bound is the
  configured length itself;
* `pipeline_to_ljh3_file_any_mode`   with `C01_no_crash` and `records_to_ljh3_file`: the run exists and
  every channel's LJH3 file holds exactly the published records, edge-multi or not.
-/
import DastardV.Lemmas.ComposeFile
import DastardV.Props.C01
namespace DastardV.Compose
open Pipe Trig

/-! ### one edge-multi search -/

/-- what every record specification obeys relative to the configured lengths -/
def SpecLe (npreIn nsampIn : Int) (sp : Spec) : Prop :=
  0 ≤ sp.npre ∧ sp.npre ≤ npreIn ∧ sp.nsamp ≤ nsampIn

/-- `edgeMultiShouldRecord`, all three modes, ANY three edges (no order assumed): the record is no longer
than configured and has between 0 and the configured number of pre-trigger samples -/
theorem shouldRecord_le {t u v npreIn nsampIn : Int} {mode : EMTMode} {sp : Spec}
    (hpre : 0 ≤ npreIn) (_hlen : npreIn ≤ nsampIn)
    (h : shouldRecord t u v npreIn nsampIn mode = some sp) : SpecLe npreIn nsampIn sp := by
  unfold shouldRecord at h
  simp only at h
  split at h
  · simp at h
  · rcases mode with _ | _ | _
    · simp only [Option.some.injEq] at h; subst h
      exact ⟨hpre, Int.le_refl _, Int.le_refl _⟩
    · simp only [Option.some.injEq] at h; subst h
      refine ⟨?_, ?_, ?_⟩ <;> simp only [imin] <;> (repeat' split) <;> omega
    · simp only at h
      split at h
      · simp only [Option.some.injEq] at h; subst h
        exact ⟨hpre, Int.le_refl _, Int.le_refl _⟩
      · simp at h

/-- the search loop only ever adds results of `shouldRecord` (with the state's lengths and mode) to the
accumulator: any property of those results carries over to the loop's output -/
theorem emtLoop_specs (G : List Nat) (first : Int) (zt : ZT) (s : EMT) (iLast maxN : Int) (Q : Spec → Prop)
    (hQ : ∀ t u v sp, shouldRecord t u v s.npre s.nsamp s.mode = some sp → Q sp) :
    ∀ (n : Nat) (iFirst t u v : Int) (acc : List Spec) (r : Int × Int × Int × Int × List Spec),
      (iLast + maxN + 2 - iFirst).toNat ≤ n → (∀ sp ∈ acc, Q sp) →
      emtLoop G first zt s iLast maxN iFirst t u v acc = some r → ∀ sp ∈ r.2.2.2.2, Q sp := by
  intro n
  induction n with
  | zero =>
    intro iFirst t u v acc r hn hacc h
    rw [emtLoop] at h
    cases hx : findNext G first zt iFirst iLast s.threshold s.nmonotone maxN s.enableZT iFirst with
    | none => simp [hx] at h
    | some x =>
      simp only [hx] at h
      by_cases hf : x.found = true
      · simp only [hf, Bool.not_true, Bool.false_eq_true, if_false] at h
        have g : ¬(iFirst < x.nextI ∧ x.nextI ≤ iLast + maxN + 1) := by omega
        simp only [g, dite_false] at h
        simp at h
      · have hf' : x.found = false := by simpa using hf
        simp only [hf', Bool.not_false, if_true, Option.some.injEq] at h
        subst h
        exact hacc
  | succ n ih =>
    intro iFirst t u v acc r hn hacc h
    rw [emtLoop] at h
    cases hx : findNext G first zt iFirst iLast s.threshold s.nmonotone maxN s.enableZT iFirst with
    | none => simp [hx] at h
    | some x =>
      simp only [hx] at h
      by_cases hf : x.found = true
      · simp only [hf, Bool.not_true, Bool.false_eq_true, if_false] at h
        by_cases g : iFirst < x.nextI ∧ x.nextI ≤ iLast + maxN + 1
        · simp only [g, and_self, dite_true] at h
          refine ih _ _ _ _ _ r (by omega) ?_ h
          cases hrec : shouldRecord u v (x.trig + first) s.npre s.nsamp s.mode with
          | none => simpa using hacc
          | some sp0 =>
            intro sp hsp
            simp only [List.mem_append, List.mem_singleton] at hsp
            rcases hsp with hsp | rfl
            · exact hacc sp hsp
            · exact hQ _ _ _ _ hrec
        · simp only [g, dite_false] at h
          simp at h
      · have hf' : x.found = false := by simpa using hf
        simp only [hf', Bool.not_false, if_true, Option.some.injEq] at h
        subst h
        exact hacc

/-- **one call of `edgeMultiComputeRecordSpecs`** (search + flush of the pending edge), any state, any
buffer, any kink-fit oracle: every specification is within the lengths the state holds -/
theorem emtSpecs_le {raw : List Nat} {first : Int} {zt : ZT} {s s' : EMT} {specs : List Spec}
    (hpre : 0 ≤ s.npre) (hlen : s.npre ≤ s.nsamp)
    (h : emtSpecs raw first zt s = some (s', specs)) : ∀ sp ∈ specs, SpecLe s.npre s.nsamp sp := by
  have key : ∀ (s1 : EMT) (iFirst t u v : Int), s1.npre = s.npre → s1.nsamp = s.nsamp →
      (emtLoop raw first zt s1 ((raw.length : Int) - 1 - (s.nsamp - s.npre)) (s.nsamp - s.npre) iFirst t u v []).map
        (emtFinish s1 first) = some (s', specs) → ∀ sp ∈ specs, SpecLe s.npre s.nsamp sp := by
    intro s1 iFirst t u v e1 e2 h
    obtain ⟨r, hloop, hfin⟩ := Option.map_eq_some_iff.mp h
    have hsp0 : ∀ sp ∈ r.2.2.2.2, SpecLe s.npre s.nsamp sp :=
      emtLoop_specs raw first zt s1 _ _ (SpecLe s.npre s.nsamp)
        (fun t u v sp hsr => by rw [e1, e2] at hsr; exact shouldRecord_le hpre hlen hsr)
        _ iFirst t u v [] r (Nat.le_refl _) (by simp) hloop
    simp only [emtFinish, Prod.mk.injEq] at hfin
    obtain ⟨_, h2⟩ := hfin
    subst h2
    unfold flushUV
    split
    · cases hrec : shouldRecord r.2.2.1 r.2.2.2.1 (r.1 + first) s1.npre s1.nsamp s1.mode with
      | none => simpa [optList] using hsp0
      | some spf =>
        intro sp hsp
        simp only [optList, List.mem_append, List.mem_singleton] at hsp
        rcases hsp with hsp | rfl
        · exact hsp0 sp hsp
        · rw [e1, e2] at hrec; exact shouldRecord_le hpre hlen hrec
    · exact hsp0
  by_cases hr : s.next - first < s.npre
  · rw [emtSpecs_reset _ _ _ _ hr] at h
    exact key { s.reset with sentinel := true } _ _ _ _ rfl rfl h
  · rw [emtSpecs_nonreset _ _ _ _ (by omega)] at h
    exact key s _ _ _ _ rfl rfl h

/-! ### one `TriggerData` call, one block -/

/-- what a published record obeys: no longer than `NS`, between 0 and `NP` pre-trigger samples -/
def RecLe (NP NS : Int) (r : Rec) : Prop :=
  (r.data.length : Int) ≤ NS ∧ 0 ≤ r.npre ∧ r.npre ≤ NP

/-- **(1) one `TriggerData` call, ANY trigger mode.**  With valid lengths `0 ≤ npre ≤ nsamp` and — needed
only in edge-multi mode — the edge-multi state's own copy of the lengths in sync with the channel's, every
primary record is no longer than the configured record length and has at most the configured number of
pre-trigger samples.  (Outside edge-multi both are equalities: `triggerData_recs` + `cut_len`.) -/
theorem triggerData_recs_le {c c' : Chan} {zt : ZT} {recs : List Rec}
    (hpre : 0 ≤ c.npre) (hlen : c.npre ≤ c.nsamp)
    (hsync : c.ts.edgeMulti = true → c.emt.nsamp = c.nsamp ∧ c.emt.npre = c.npre)
    (h : triggerData c zt = some (c', recs)) : ∀ r ∈ recs, RecLe c.npre c.nsamp r := by
  by_cases hem : c.ts.edgeMulti = true
  · obtain ⟨e1, e2⟩ := hsync hem
    unfold triggerData at h
    simp only [hem, if_true] at h
    split at h
    · simp at h
    · rename_i emt' specs hs
      split at h
      · simp at h
      · rename_i recs0 hr0
        simp only [Option.some.injEq, Prod.mk.injEq] at h
        obtain ⟨_, hr⟩ := h
        subst hr
        intro r hr
        obtain ⟨sp, hsp, hcut⟩ := cutSpecs_mem hr0 r hr
        obtain ⟨b1, b2, b3⟩ := emtSpecs_le (by rw [e2]; exact hpre) (by rw [e1, e2]; exact hlen) hs sp hsp
        obtain ⟨hl, hp⟩ := cut_len hcut
        rw [e2] at b2
        rw [e1] at b3
        exact ⟨by rw [hl]; exact b3, by rw [hp]; exact b1, by rw [hp]; exact b2⟩
  · have hem' : c.ts.edgeMulti = false := by simpa using hem
    intro r hr
    obtain ⟨i, p, n, hcut, hfix⟩ := (triggerData_recs h).2 r hr
    obtain ⟨hp', hn'⟩ := hfix hem'
    obtain ⟨hl, hp⟩ := cut_len hcut
    exact ⟨by rw [hl, hn']; exact Int.le_refl _, by rw [hp, hp']; exact hpre, by rw [hp, hp']; exact Int.le_refl _⟩

/-- the per-channel invariant: the channel holds the lengths `NP`, `NS` and its edge-multi state's copy
agrees (the part of `ChanSafe` that the bounds need; it survives every operation unconditionally) -/
structure LenInv (NP NS : Int) (c : Chan) : Prop where
  npre : c.npre = NP
  nsamp : c.nsamp = NS
  enpre : c.emt.npre = NP
  ensamp : c.emt.nsamp = NS

theorem lenInv_of_chanSafe {NP NS F : Int} {L : Nat} {c : Chan} (h : ChanSafe NP NS F L c)
    (hem : c.ts.edgeMulti = true) : LenInv NP NS c :=
  ⟨h.cfg.1, h.cfg.2.1, (h.emt hem).2.1, h.cfg.2.2⟩

/-- **one `ProcessSegments` call**: every record published for every channel — primary or secondary, any
trigger mode — is within the lengths, and the invariant is kept -/
theorem opBlock_recs_le {NP NS : Int} (hv : 0 ≤ NP ∧ NP ≤ NS) {s s' : Src} {first t0 per : Int} {signed : List Bool}
    {data : List (List Nat)} {zts : List (List (Int × Int))} {rs : List (List Rec)}
    (hs : ∀ c ∈ s.chans, LenInv NP NS c)
    (h : opBlock s first t0 per signed data zts = some (s', rs)) :
    (∀ c ∈ s'.chans, LenInv NP NS c) ∧ ∀ out ∈ rs, ∀ r ∈ out, RecLe NP NS r := by
  unfold opBlock at h
  simp only [bind, pure] at h
  split at h
  · simp at h
  simp only [Option.bind_eq_some_iff] at h
  obtain ⟨p1, hp1, h⟩ := h
  split at h
  · simp at h
  rename_i secMap hdist
  simp only [Option.bind_eq_some_iff, Option.some.injEq, Prod.mk.injEq] at h
  obtain ⟨p2, hp2, hs', hrs⟩ := h
  subst hs'; subst hrs
  obtain ⟨hl1, g1⟩ := phase1_get first t0 per s.chans signed data zts p1 hp1
  obtain ⟨hl2, g2⟩ := phase2_get secMap p1 0 p2 hp2
  have hent : ∀ pr ∈ p2, LenInv NP NS pr.1 ∧ ∀ r ∈ pr.2, RecLe NP NS r := by
    intro pr hpr
    obtain ⟨j, hj⟩ := List.getElem?_of_mem hpr
    obtain ⟨c2, prim, fl, sec, hp1j, hsec, hc3, hout⟩ := g2 j pr.1 pr.2 (by simpa using hj)
    obtain ⟨c, d, hcj, hdj, htd⟩ := g1 j c2 prim hp1j
    obtain ⟨i1, i2, i3, i4⟩ := hs c (List.mem_of_getElem? hcj)
    obtain ⟨_, _, k3, k4, _, k6, k7⟩ := triggerData_keep htd
    obtain ⟨t1, t2, t3, _⟩ := trim_keep c2
    have a1 : (append c d first t0 per (signed[j]?.getD false)).npre = NP := i1
    have a2 : (append c d first t0 per (signed[j]?.getD false)).nsamp = NS := i2
    have a3 : (append c d first t0 per (signed[j]?.getD false)).emt.npre = NP := i3
    have a4 : (append c d first t0 per (signed[j]?.getD false)).emt.nsamp = NS := i4
    refine ⟨?_, ?_⟩
    · rw [hc3]
      exact ⟨by rw [t1, k3, a1], by rw [t2, k4, a2], by rw [t3, k7, a3], by rw [t3, k6, a4]⟩
    · intro r hr
      rw [hout] at hr
      rcases List.mem_append.mp hr with hr | hr
      · have := triggerData_recs_le (by rw [a1]; exact hv.1) (by rw [a1, a2]; exact hv.2)
          (fun _ => ⟨by rw [a4, a2], by rw [a3, a1]⟩) htd r hr
        rw [a1, a2] at this
        exact this
      · obtain ⟨i, hcut⟩ := secondaries_recs hsec r hr
        obtain ⟨hl, hp⟩ := cut_len hcut
        rw [k3, a1] at hp
        rw [k4, a2] at hl
        exact ⟨by rw [hl]; exact Int.le_refl _, by rw [hp]; exact hv.1, by rw [hp]; exact Int.le_refl _⟩
  refine ⟨?_, ?_⟩
  · intro c hc
    obtain ⟨pr, hpr, rfl⟩ := List.mem_map.mp hc
    exact (hent pr hpr).1
  · intro out hout
    obtain ⟨pr, hpr, rfl⟩ := List.mem_map.mp hout
    exact (hent pr hpr).2

/-! ### control requests keep the invariant -/

theorem configureTrigger_lenInv {NP NS : Int} {c : Chan} (ts : TS) (emt : EMT) (h : LenInv NP NS c) :
    LenInv NP NS (configureTrigger c ts emt).1 := by
  obtain ⟨h1, h2, h3, h4⟩ := h
  unfold configureTrigger
  simp only
  split
  · exact ⟨h1, h2, h3, h4⟩
  · exact ⟨h1, h2, by simp [EMT.reset, h1], by simp [EMT.reset, h2]⟩

theorem opTrig_lenInv {NP NS : Int} {s s' : Src} {r : TrigReq} {e : Bool} (hs : ∀ c ∈ s.chans, LenInv NP NS c)
    (h : opTrig s r = some (s', e)) : ∀ c ∈ s'.chans, LenInv NP NS c := by
  unfold opTrig at h
  simp only at h
  split at h
  · simp only [Option.some.injEq, Prod.mk.injEq] at h
    obtain ⟨rfl, _⟩ := h
    exact hs
  · rename_i emt _
    obtain ⟨cs', e', h1, _, h3⟩ := changeTrig_safe r.ts emt (LenInv NP NS)
      (fun c hc => configureTrigger_lenInv r.ts emt hc) r.chans s.chans hs
    rw [h1] at h
    simp only [Option.some.injEq, Prod.mk.injEq] at h
    obtain ⟨rfl, _⟩ := h
    exact h3

/-- `ConfigurePulseLengths`: refused (nothing changes) or accepted with valid new lengths -/
theorem opLen_lenInv {NP NS : Int} {s : Src} (hs : ∀ c ∈ s.chans, LenInv NP NS c)
    (nsamp npre : Int) :
    (∀ c ∈ (opLen s nsamp npre).1.chans, LenInv NP NS c) ∨
    ((0 ≤ npre ∧ npre ≤ nsamp) ∧ ∀ c ∈ (opLen s nsamp npre).1.chans, LenInv npre nsamp c) := by
  unfold opLen
  split
  · exact Or.inl hs
  · split
    · exact Or.inl hs
    · split
      · exact Or.inl hs
      · split
        · exact Or.inl hs
        · rename_i _ _ hvalid hany
          refine Or.inr ⟨by omega, ?_⟩
          intro c' hc'
          simp only [List.mem_map] at hc'
          obtain ⟨c, hc, rfl⟩ := hc'
          have hchk : checkLengths c nsamp npre = false := by
            simp only [List.any_eq_true, not_exists, not_and, Bool.not_eq_true] at hany
            exact hany c hc
          unfold configureLengths
          simp only [hchk, Bool.false_eq_true, if_false]
          exact ⟨rfl, rfl, rfl, rfl⟩

/-! ### whole runs -/

/-- **(2) any history.**  From any source whose channels hold valid, synced lengths `NP ≤ NS`, for ANY
operation list — blocks of any shape (no contiguity needed, any kink-fit oracle), `ConfigureTriggers`
switching edge-multi on or off in any mode, group-trigger edits, and `ConfigurePulseLengths` requests — every
record published for every channel is no longer than `M` and has at most `P` pre-trigger samples, where
`M`, `P` dominate the initial lengths and every requested pair of lengths. -/
theorem runOps_recs_le (zts : List (List (Int × Int))) (M P : Int) :
    ∀ (ops : List Op) (s : Src) (NP NS : Int) (outs : List Out),
      (0 ≤ NP ∧ NP ≤ NS) → NS ≤ M → NP ≤ P → (∀ c ∈ s.chans, LenInv NP NS c) →
      (∀ a b, Op.len a b ∈ ops → a ≤ M ∧ b ≤ P) →
      runOps zts s ops = some outs →
      ∀ (j : Nat), ∀ r ∈ chanRecs j outs, RecLe P M r
  | [], s, NP, NS, outs, _, _, _, _, _, h => by
    simp only [runOps, Option.some.injEq] at h
    subst h
    intro j r hr; simp [chanRecs] at hr
  | o :: os, s, NP, NS, outs, hv, hM, hP, hs, hl, h => by
    have hl' : ∀ a b, Op.len a b ∈ os → a ≤ M ∧ b ≤ P := fun a b hab => hl a b (by simp [hab])
    cases o with
    | block f t p sgs data =>
      simp only [runOps, stepOp, bind, pure, Option.bind_eq_some_iff, Option.some.injEq] at h
      obtain ⟨⟨s1, out1⟩, ⟨⟨s1', r⟩, hob, hpair⟩, outs2, hrun2, hout⟩ := h
      simp only [Prod.mk.injEq] at hpair
      obtain ⟨rfl, rfl⟩ := hpair
      subst hout
      obtain ⟨hs1, hrecs⟩ := opBlock_recs_le hv hs hob
      have ih := runOps_recs_le zts M P os s1' NP NS outs2 hv hM hP hs1 hl' hrun2
      intro j rr hrr
      simp only [chanRecs, List.mem_append] at hrr
      rcases hrr with h1 | h1
      · cases hrj : r[j]? with
        | none => rw [hrj] at h1; simp at h1
        | some out =>
          rw [hrj] at h1
          simp only [Option.getD_some] at h1
          obtain ⟨b1, b2, b3⟩ := hrecs out (List.mem_of_getElem? hrj) rr h1
          exact ⟨by omega, b2, by omega⟩
      · exact ih j rr h1
    | trig rq =>
      simp only [runOps, stepOp, bind, pure, Option.bind_eq_some_iff, Option.some.injEq] at h
      obtain ⟨⟨s1, out1⟩, ⟨⟨s1', e⟩, hot, hpair⟩, outs2, hrun2, hout⟩ := h
      simp only [Prod.mk.injEq] at hpair
      obtain ⟨rfl, rfl⟩ := hpair
      subst hout
      exact runOps_recs_le zts M P os s1' NP NS outs2 hv hM hP (opTrig_lenInv hs hot) hl' hrun2
    | len a b =>
      simp only [runOps, stepOp, bind, pure, Option.bind_eq_some_iff, Option.some.injEq] at h
      obtain ⟨⟨s1, out1⟩, hpair, outs2, hrun2, hout⟩ := h
      simp only [Prod.mk.injEq] at hpair
      obtain ⟨rfl, rfl⟩ := hpair
      subst hout
      obtain ⟨ha, hb⟩ := hl a b (by simp)
      rcases opLen_lenInv hs a b with h1 | ⟨hv', h1⟩
      · exact runOps_recs_le zts M P os _ NP NS outs2 hv hM hP h1 hl' hrun2
      · exact runOps_recs_le zts M P os _ b a outs2 hv' ha hb h1 hl' hrun2
    | gadd ps =>
      simp only [runOps, stepOp, bind, pure, Option.bind_eq_some_iff, Option.some.injEq] at h
      obtain ⟨⟨s1, out1⟩, hpair, outs2, hrun2, hout⟩ := h
      simp only [Prod.mk.injEq] at hpair
      obtain ⟨rfl, rfl⟩ := hpair
      subst hout
      exact runOps_recs_le zts M P os { s with broker := C09.applyAll C09.add s.broker ps } NP NS outs2 hv hM hP hs hl' hrun2
    | gdel ps =>
      simp only [runOps, stepOp, bind, pure, Option.bind_eq_some_iff, Option.some.injEq] at h
      obtain ⟨⟨s1, out1⟩, hpair, outs2, hrun2, hout⟩ := h
      simp only [Prod.mk.injEq] at hpair
      obtain ⟨rfl, rfl⟩ := hpair
      subst hout
      exact runOps_recs_le zts M P os { s with broker := C09.applyAll C09.del s.broker ps } NP NS outs2 hv hM hP hs hl' hrun2
    | gstop =>
      simp only [runOps, stepOp, bind, pure, Option.bind_eq_some_iff, Option.some.injEq] at h
      obtain ⟨⟨s1, out1⟩, hpair, outs2, hrun2, hout⟩ := h
      simp only [Prod.mk.injEq] at hpair
      obtain ⟨rfl, rfl⟩ := hpair
      subst hout
      exact runOps_recs_le zts M P os { s with broker := C09.stopAll s.broker } NP NS outs2 hv hM hP hs hl' hrun2

/-- the source as `PrepareRun` leaves it holds synced lengths -/
theorem prepare_lenInv (nch : Nat) (npre nsamp : Int) (saved : List (Nat × TS)) :
    ∀ c ∈ (prepare nch npre nsamp saved).chans, LenInv npre nsamp c := by
  intro c hc
  simp only [prepare, List.mem_map, List.mem_range] at hc
  obtain ⟨i, _, rfl⟩ := hc
  exact ⟨rfl, rfl, rfl, rfl⟩

/-- **(2), from `PrepareRun`, with record-length requests**: the bound is any pair dominating the start-up
lengths and every requested pair (refused requests included — a sound over-approximation of "the largest
length ever configured") -/
theorem run_recs_le_len (nch : Nat) (npre nsamp : Int) (saved : List (Nat × TS)) (hv : 0 ≤ npre ∧ npre ≤ nsamp)
    (zts : List (List (Int × Int))) (ops : List Op) (outs : List Out) (M P : Int)
    (hM : nsamp ≤ M) (hP : npre ≤ P) (hl : ∀ a b, Op.len a b ∈ ops → a ≤ M ∧ b ≤ P)
    (h : runOps zts (prepare nch npre nsamp saved) ops = some outs) :
    ∀ (j : Nat), ∀ r ∈ chanRecs j outs, (r.data.length : Int) ≤ M ∧ 0 ≤ r.npre ∧ r.npre ≤ P :=
  runOps_recs_le zts M P ops _ npre nsamp outs hv hM hP (prepare_lenInv nch npre nsamp saved) hl h

/-- **(2), from `PrepareRun`, no `ConfigurePulseLengths` request in the history** (RESTRICTION: `ops`
contains no `.len`; everything else — blocks of any shape, `ConfigureTriggers` with edge-multi on/off in any
record mode, group-trigger edits — is arbitrary): every record published for every channel is no longer
than the configured record length and has between 0 and the configured number of pre-trigger samples. -/
theorem run_recs_le (nch : Nat) (npre nsamp : Int) (saved : List (Nat × TS)) (hv : 0 ≤ npre ∧ npre ≤ nsamp)
    (zts : List (List (Int × Int))) (ops : List Op) (outs : List Out)
    (hnl : ∀ o ∈ ops, ∀ a b, o ≠ Op.len a b)
    (h : runOps zts (prepare nch npre nsamp saved) ops = some outs) :
    ∀ (j : Nat), ∀ r ∈ chanRecs j outs, (r.data.length : Int) ≤ nsamp ∧ 0 ≤ r.npre ∧ r.npre ≤ npre :=
  run_recs_le_len nch npre nsamp saved hv zts ops outs nsamp npre (Int.le_refl _) (Int.le_refl _)
    (fun a b hab => absurd rfl (hnl _ hab a b)) h

/-! ### the LJH3 file, any trigger mode -/

/-- **(3) From the trigger pipeline to the LJH3 file, ANY trigger mode, run existence included.**  The
source starts from `PrepareRun` (any restored settings, `3 ≤ npre < nsamp < 2^31`) and processes any
history `ops` of blocks as a data source delivers them (`OpsOK`) and requests — `ConfigureTriggers`
switching any channels to edge-multi (any record mode, kink fit moving a trigger by −1, 0, +1) or back,
group-trigger edits; RESTRICTION: no `ConfigurePulseLengths` request (refused while writing anyway).  Then
the run does not crash, and for EVERY channel `j`, its LJH3 writer active from START to STOP with the
channel's records arriving in any batching: the file exists iff the channel published a record, its body
read back with the documented layout is exactly the published records in order — each with its own
(variable) length —, every record no longer than `nsamp` with at most `npre` pre-trigger samples, and the
file length is header + Σ (24 + 2·length). -/
theorem pipeline_to_ljh3_file_any_mode (nch : Nat) (npre nsamp : Int) (saved : List (Nat × TS))
    (hv : 3 ≤ npre ∧ npre < nsamp) (hns : nsamp < 2 ^ 31)
    (zts : List (List (Int × Int)))
    (hzt : ∀ (j : Nat) (p : Int), -1 ≤ ztOf (zts[j]?.getD []) p ∧ ztOf (zts[j]?.getD []) p ≤ 1)
    (ops : List Op) (F : Int) (hok : OpsOK nch F ops) (hnl : ∀ o ∈ ops, ∀ a b, o ≠ Op.len a b)
    (hdr : C05.Bytes) :
    ∃ outs, runOps zts (prepare nch npre nsamp saved) ops = some outs ∧
      ∀ (j : Nat) (batches : List (List C05.W3)), batches.flatten = (chanRecs j outs).map toW3 →
        let recs := chanRecs j outs
        let fin := C05.run (C05.fmt3 hdr) {} (fileOps batches)
        (∀ r ∈ recs, (r.data.length : Int) ≤ nsamp ∧ 0 ≤ r.npre ∧ r.npre ≤ npre) ∧
        (recs = [] → C05.fileOf fin = none) ∧
        (recs ≠ [] → ∃ file, C05.fileOf fin = some file ∧ file.take hdr.length = hdr ∧
          C05.parseBody C05.parseLJH3 (file.drop hdr.length) = some (recs.map fun r => C05.expect3 (toW3 r)) ∧
          file.length = hdr.length + (recs.map fun r => 24 + 2 * r.data.length).sum) := by
  obtain ⟨outs, hrun⟩ := C01.C01_no_crash nch npre nsamp saved hv zts hzt ops F hok
  refine ⟨outs, hrun, ?_⟩
  intro j batches hbat
  have hle := run_recs_le nch npre nsamp saved ⟨by omega, by omega⟩ zts ops outs hnl hrun j
  have hlen : ∀ r ∈ chanRecs j outs, r.data.length < 2 ^ 31 := by
    intro r hr
    have := (hle r hr).1
    omega
  obtain ⟨f1, f2⟩ := records_to_ljh3_file (chanRecs j outs) hdr hlen batches hbat
  exact ⟨hle, f1, f2⟩

/-! ### the hypotheses are satisfiable; the bound is not vacuous -/

/-- a history that switches channel 0 to edge-multi (variable-length records) between blocks meets every
hypothesis of `pipeline_to_ljh3_file_any_mode` -/
example :
    let ops : List Op := [.block 0 0 1000 [false, false] [[1, 2, 3], [4, 5, 6]],
      .trig { chans := [0], ts := { edgeMulti := true }, compat := ⟨false, false, true, false, 100, 1⟩ },
      .block 3 3000 1000 [false, false] [[], []], .block 3 3000 1000 [false, false] [[7], [8]]]
    (3 ≤ (3 : Int) ∧ (3 : Int) < 8) ∧ (8 : Int) < 2 ^ 31 ∧
    (∀ (j : Nat) (p : Int), -1 ≤ ztOf (([] : List (List (Int × Int)))[j]?.getD []) p ∧
      ztOf (([] : List (List (Int × Int)))[j]?.getD []) p ≤ 1) ∧
    OpsOK 2 0 ops ∧ (∀ o ∈ ops, ∀ a b, o ≠ Op.len a b) := by
  refine ⟨by decide, by decide, ?_, ?_, ?_⟩
  · intro j p; simp [ztOf]
  · refine ⟨rfl, 3, by simp, by decide, rfl, ?_⟩
    refine ⟨rfl, 0, by simp, by decide, rfl, ?_⟩
    exact ⟨rfl, 1, by simp, by decide, rfl, trivial⟩
  · intro o ho a b
    simp only [List.mem_cons, List.mem_nil_iff, or_false] at ho
    rcases ho with rfl | rfl | rfl | rfl <;> simp

/-- edge-multi in `variable` mode really produces a record shorter than configured (so `≤` cannot be
sharpened to `=`): edges 10 frames apart with `npre = 3`, `nsamp = 20` -/
example : shouldRecord 100 110 120 3 20 .variable = some { frame := 110, npre := 0, nsamp := 10 } := by decide

end DastardV.Compose
