/-
C08 — soundness (and completeness) of the executable oracle that judges the REAL pipeline's outputs.

The harness runs the real `ProcessSegments` twice (many blocks / one block) and the driver `dv_C08`
accepts a case only when `increasing`, `noOverlap` and `firstMismatch` all answer `none`.  These
theorems state what such an answer MEANS, for record lists of any length: an accepted case really has
strictly increasing trigger frames, pairwise non-overlapping records that end at or before the next edge,
and many-block / one-block record sequences that agree on frame, pre-trigger length, samples and
signedness, element by element and in length.  So a quiet C08 check is a statement about the
implementation's outputs, not about the oracle's code.
-/
import DastardV.Model.C08
namespace DastardV.C08
open Trig

/-- the fields of a record the block-independence comparison looks at (everything but the time stamp) -/
def key (r : Rec) : Int × Int × List Nat × Bool := (r.frame, r.npre, r.data, r.signed)

theorem sameRec_iff (a b : Rec) : sameRec a b = true ↔ key a = key b := by
  simp [sameRec, key, Bool.and_eq_true, and_assoc]

/-- the comparison accepts exactly when the two runs emitted the same sequence of records (up to time stamps) -/
theorem firstMismatch_none_iff : ∀ (as bs : List Rec), firstMismatch as bs = none ↔ as.map key = bs.map key
  | [], [] => by simp [firstMismatch]
  | a :: as, [] => by simp [firstMismatch]
  | [], b :: bs => by simp [firstMismatch]
  | a :: as, b :: bs => by
    by_cases h : sameRec a b = true
    · have hk := (sameRec_iff a b).1 h
      simp [firstMismatch, h, hk, firstMismatch_none_iff as bs]
    · have hk : key a ≠ key b := fun e => h ((sameRec_iff a b).2 e)
      simp [firstMismatch, h, hk]

/-- accepted ⇒ same number of records in both runs -/
theorem firstMismatch_none_length {as bs : List Rec} (h : firstMismatch as bs = none) : as.length = bs.length := by
  have := congrArg List.length ((firstMismatch_none_iff as bs).1 h)
  simpa using this

/-- accepted ⇒ record number `i` agrees in frame, pre-trigger length, samples and signedness -/
theorem firstMismatch_none_get {as bs : List Rec} (h : firstMismatch as bs = none) (i : Nat) (a b : Rec)
    (ha : as[i]? = some a) (hb : bs[i]? = some b) :
    a.frame = b.frame ∧ a.npre = b.npre ∧ a.data = b.data ∧ a.signed = b.signed := by
  have hm := (firstMismatch_none_iff as bs).1 h
  have h1 : (as.map key)[i]? = some (key a) := by simp [ha]
  have h2 : (bs.map key)[i]? = some (key b) := by simp [hb]
  rw [hm, h2] at h1
  have := Option.some.inj h1
  simp only [key, Prod.mk.injEq] at this
  exact ⟨this.1.symm, this.2.1.symm, this.2.2.1.symm, this.2.2.2.symm⟩

/-- every two CONSECUTIVE elements are related (plain recursion; core has no `List.IsChain`) -/
def Consec (R : Rec → Rec → Prop) : List Rec → Prop
  | a :: b :: r => R a b ∧ Consec R (b :: r)
  | _ => True

/-- for a transitive relation, consecutive ⇒ pairwise -/
theorem Consec.pairwise {R : Rec → Rec → Prop} (tr : ∀ a b c, R a b → R b c → R a c) :
    ∀ (l : List Rec), Consec R l → l.Pairwise R
  | [], _ => List.Pairwise.nil
  | [a], _ => by simp
  | a :: b :: r, h => by
    have ih := Consec.pairwise tr (b :: r) h.2
    refine List.Pairwise.cons ?_ ih
    intro c hc
    rcases List.mem_cons.1 hc with rfl | hc
    · exact h.1
    · exact tr _ _ _ h.1 ((List.pairwise_cons.1 ih).1 c hc)

/-- `increasing` accepts exactly the lists whose consecutive trigger frames strictly increase -/
theorem increasing_none_iff : ∀ (l : List Rec), increasing l = none ↔ Consec (fun a b => a.frame < b.frame) l
  | [] => by simp [increasing, Consec]
  | [a] => by simp [increasing, Consec]
  | a :: b :: r => by
    by_cases h : a.frame < b.frame
    · simp [increasing, Consec, h, increasing_none_iff (b :: r)]
    · simp [increasing, Consec, h]

/-- accepted ⇒ ANY two records (not only neighbours) are in strictly increasing frame order -/
theorem increasing_none_pairwise {l : List Rec} (h : increasing l = none) :
    l.Pairwise (fun a b => a.frame < b.frame) := by
  exact Consec.pairwise (R := fun a b => a.frame < b.frame) (fun _ _ _ h1 h2 => Int.lt_trans h1 h2) l
    ((increasing_none_iff l).1 h)

/-- one record ends (one past its last sample) at or before the next record starts and at or before the next edge -/
def Apart (a b : Rec) : Prop :=
  a.frame - a.npre + a.data.length ≤ b.frame - b.npre ∧ a.frame - a.npre + a.data.length ≤ b.frame

/-- `noOverlap` accepts exactly the lists whose consecutive records are `Apart` -/
theorem noOverlap_none_iff : ∀ (l : List Rec), noOverlap l = none ↔ Consec Apart l
  | [] => by simp [noOverlap, Consec]
  | [a] => by simp [noOverlap, Consec]
  | a :: b :: r => by
    by_cases h1 : a.frame - a.npre + a.data.length > b.frame - b.npre
    · have : ¬ Apart a b := fun h => by unfold Apart at h; omega
      simp [noOverlap, Consec, h1, this]
    · by_cases h2 : a.frame - a.npre + a.data.length > b.frame
      · have : ¬ Apart a b := fun h => by unfold Apart at h; omega
        simp [noOverlap, Consec, h1, h2, this]
      · have : Apart a b := by unfold Apart; omega
        simp [noOverlap, Consec, h1, h2, this, noOverlap_none_iff (b :: r)]

/-- the three answers together: what an accepted edge-multi case guarantees about the implementation's outputs -/
theorem C08_oracle_sound {many one : List Rec}
    (hi : increasing many = none) (ho : noOverlap many = none) (hm : firstMismatch many one = none) :
    many.Pairwise (fun a b => a.frame < b.frame) ∧ Consec Apart many ∧ many.map key = one.map key :=
  ⟨increasing_none_pairwise hi, (noOverlap_none_iff many).1 ho, (firstMismatch_none_iff many one).1 hm⟩

theorem firstSome_cons_some {α} (x : α) (xs : List α) (f : α → Option String) (e : String) (hx : f x = some e) :
    Pipe.firstSome (x :: xs) f = some e := by
  unfold Pipe.firstSome
  simp only [List.foldl_cons, hx]
  induction xs with
  | nil => rfl
  | cons y ys ih => simpa [List.foldl_cons] using ih

theorem firstSome_cons_none {α} (x : α) (xs : List α) (f : α → Option String) (hx : f x = none) :
    Pipe.firstSome (x :: xs) f = Pipe.firstSome xs f := by
  unfold Pipe.firstSome
  simp only [List.foldl_cons, hx]

/-- the per-channel fold answers `none` exactly when every element's answer is `none` -/
theorem firstSome_none_iff {α} (xs : List α) (f : α → Option String) :
    Pipe.firstSome xs f = none ↔ ∀ x ∈ xs, f x = none := by
  induction xs with
  | nil => simp [Pipe.firstSome]
  | cons x xs ih =>
    simp only [List.mem_cons, forall_eq_or_imp]
    cases hx : f x with
    | none => rw [firstSome_cons_none x xs f hx]; simpa using ih
    | some e => rw [firstSome_cons_some x xs f e hx]; simp

/-- THE WHOLE JUDGE: when `chkC08` accepts a case without mid-stream requests that carries the one-block run,
then for EVERY channel the many-block records have pairwise increasing frames, equal the one-block records
element by element, and — in variable-length mode — consecutive records are apart -/
theorem chkC08_sound (c : Pipe.Case) (outs one : List Pipe.Out) (h : chkC08 c outs = none)
    (hr : midRequests c.ops false = false) (h1 : c.outsOne = some one) (ch : Nat) (hch : ch < c.nch) :
    (recsOf outs ch).Pairwise (fun a b => a.frame < b.frame) ∧
      (recsOf outs ch).map key = (recsOf one ch).map key ∧
      (variableOnly c = true → Consec Apart (recsOf outs ch)) := by
  unfold chkC08 at h
  simp only [hr, h1] at h
  have hc := (firstSome_none_iff _ _).1 h ch (List.mem_range.2 hch)
  simp only [Bool.false_eq_true, if_false, Bool.not_false, Bool.and_true] at hc
  cases hi : increasing (recsOf outs ch) with
  | some e => simp [hi] at hc
  | none =>
    simp only [hi] at hc
    by_cases hv : variableOnly c = true
    · simp only [hv, if_true] at hc
      cases ho : noOverlap (recsOf outs ch) with
      | some e => simp [ho] at hc
      | none =>
        simp only [ho, Option.map_eq_none_iff] at hc
        exact ⟨increasing_none_pairwise hi, (firstMismatch_none_iff _ _).1 hc, fun _ => (noOverlap_none_iff _).1 ho⟩
    · simp only [hv, Bool.false_eq_true, if_false, Option.map_eq_none_iff] at hc
      exact ⟨increasing_none_pairwise hi, (firstMismatch_none_iff _ _).1 hc, fun hv' => absurd hv' hv⟩

/-- non-vacuity: two records that touch but do not overlap, the second run's time stamps differ -/
example :
    let a : Rec := ⟨10, 111, 2, [1, 2, 3, 4], false⟩
    let b : Rec := ⟨14, 222, 2, [5, 6, 7], false⟩
    increasing [a, b] = none ∧ noOverlap [a, b] = none ∧
      firstMismatch [a, b] [{ a with time := 5 }, { b with time := 6 }] = none := by decide

/-- and the oracle does reject: an overlap, an out-of-order pair, a differing sample -/
example :
    let a : Rec := ⟨10, 0, 2, [1, 2, 3, 4, 5], false⟩
    let b : Rec := ⟨14, 0, 2, [5, 6, 7], false⟩
    (noOverlap [a, b]).isSome ∧ (increasing [b, a]).isSome ∧
      (firstMismatch [a] [{ a with data := [1, 2, 3, 4, 6] }]).isSome := by decide

end DastardV.C08
