/-
Ring → files (C18 ∘ C15 ∘ C03 ∘ C01/C02 ∘ C05): what the producer wrote into the shared-memory ring is
what ends up in the LJH files.

`ComposeRing` speaks about the concatenation `got` of everything `ReadAllPackets` has returned.  The ingest
(C03) works tick by tick: it needs to know what EACH call returned.

* A. per-get granularity: `stepG`/`runG`/`gets` (what each `ReadAllPackets` call returned), `accepted`
  (the packets the producer wrote between consecutive gets, by the producer's own byte accounting — the ring
  state does not occur in its definition), `segments` (the packets OFFERED between consecutive gets).
  `ring_gets_are_accepted`: the k-th get returns the decodings of the packets written since the previous get;
  `ring_gets_are_segments`: when every packet fits (`Fits`), of the packets offered since the previous get.
* B. ring history = ingest history, for one ring (`historyOf`) and for `n` rings read in the same tick
  (`historyOfN`).
* C. `ring_to_ljh22_files`, `ring_to_ljh22_files_fits`, `rings_to_ljh22_files`: `Compose.abaco_packets_to_files`
  with every hypothesis stated about what the PRODUCER wrote, and the conclusion about what the READER saw.
* D. non-vacuity.
-/
import DastardV.Lemmas.ComposeRing
import DastardV.Lemmas.ComposeEndToEnd
namespace DastardV.RingPk
open C15

/-! ### A1. what each get returned -/

/-- `step`, returning in addition what the consumer was handed: `none` for a put, `some qs` for a
`ReadAllPackets` call that returned the packets `qs` (with or without an error; `[]` when the ring read
itself failed: abaco.go returns `nil, err`) -/
def stepG (s : St) : Ev → St × Option (List Packet)
  | .put p => (step s (.put p), none)
  | .get =>
    match s.d.readAllPackets with
    | (d', some (qs, none)) => ({ s with d := d', got := s.got ++ qs, seen := s.sent }, some qs)
    | (d', some (qs, some _)) => ({ s with d := d', ok := false }, some qs)
    | (d', none) => ({ s with d := d', ok := false }, some [])

/-- `run`, collecting what each get returned, in order -/
def runG (s : St) : List Ev → St × List (List Packet)
  | [] => (s, [])
  | e :: r =>
    let o := stepG s e
    let t := runG o.1 r
    (t.1, match o.2 with | some qs => qs :: t.2 | none => t.2)

/-- what each `ReadAllPackets` call of the history returned, in order -/
def gets (s : St) (evs : List Ev) : List (List Packet) := (runG s evs).2

/-- what a get in state `s` returns -/
def ret (s : St) : List Packet := ((stepG s .get).2).getD []

theorem stepG_state (s : St) (e : Ev) : (stepG s e).1 = step s e := by
  cases e with
  | put p => rfl
  | get =>
    rcases h : s.d.readAllPackets with ⟨d', _ | ⟨qs, _ | e⟩⟩ <;> simp only [stepG, step, h]

theorem stepG_put_snd (s : St) (p : Packet) : (stepG s (.put p)).2 = none := rfl

theorem stepG_get_snd (s : St) : (stepG s .get).2 = some (ret s) := by
  rcases h : s.d.readAllPackets with ⟨d', _ | ⟨qs, _ | e⟩⟩ <;> simp [ret, stepG, h]

/-- the state component of `runG` is `run`: everything proved about `run` applies -/
theorem runG_state (evs : List Ev) : ∀ s, (runG s evs).1 = run s evs := by
  induction evs with
  | nil => intro s; rfl
  | cons e r ih =>
    intro s
    rw [run_cons, ← stepG_state, ← ih]
    rfl

theorem gets_nil (s : St) : gets s [] = [] := rfl

theorem gets_put (s : St) (p : Packet) (r : List Ev) : gets s (.put p :: r) = gets (step s (.put p)) r := rfl

theorem gets_get (s : St) (r : List Ev) : gets s (.get :: r) = ret s :: gets (step s .get) r := by
  show (match (stepG s .get).2 with
    | some qs => qs :: (runG (stepG s .get).1 r).2
    | none => (runG (stepG s .get).1 r).2) = _
  rw [stepG_get_snd, stepG_state]
  rfl

/-- a successful step appends what the get returned to `got` -/
theorem step_get_got (s : St) (h : (step s .get).ok = true) : (step s .get).got = s.got ++ ret s := by
  rcases hh : s.d.readAllPackets with ⟨d', _ | ⟨qs, _ | e⟩⟩
  · simp [step, hh] at h
  · simp [step, ret, stepG, hh]
  · simp [step, hh] at h

/-- the number of gets of a history -/
def ngets : List Ev → Nat
  | [] => 0
  | .put _ :: r => ngets r
  | .get :: r => ngets r + 1

theorem gets_length (evs : List Ev) : ∀ s, (gets s evs).length = ngets evs := by
  induction evs with
  | nil => intro s; rfl
  | cons e r ih =>
    intro s
    cases e with
    | put p => rw [gets_put, ih]; rfl
    | get => rw [gets_get, List.length_cons, ih]; rfl

/-! ### A2. what the producer wrote between consecutive gets -/

/-- The packets the producer WROTE between consecutive gets, by the producer's own accounting: `cur` are
the packets written since the last get; a packet is written iff its slot fits into the ring together with
the slots not yet read (`Write` accepts at most `cap - 1 - (w - r)` bytes), otherwise it is skipped.  One
segment per get; packets written after the last get are in no segment. -/
def acceptedFrom (cap stride : Nat) (cur : List Packet) : List Ev → List (List Packet)
  | [] => []
  | .put p :: r =>
    acceptedFrom cap stride
      (if (slotsOf stride cur).length + (slot (encB p) stride).length ≤ cap - 1 then cur ++ [p] else cur) r
  | .get :: r => cur :: acceptedFrom cap stride [] r

def accepted (cap stride : Nat) (evs : List Ev) : List (List Packet) := acceptedFrom cap stride [] evs

/-- the packets OFFERED between consecutive gets -/
def segmentsFrom (cur : List Packet) : List Ev → List (List Packet)
  | [] => []
  | .put p :: r => segmentsFrom (cur ++ [p]) r
  | .get :: r => cur :: segmentsFrom [] r

def segments (evs : List Ev) : List (List Packet) := segmentsFrom [] evs

theorem acceptedFrom_length (cap stride : Nat) (evs : List Ev) :
    ∀ cur, (acceptedFrom cap stride cur evs).length = ngets evs := by
  induction evs with
  | nil => intro cur; rfl
  | cons e r ih =>
    intro cur
    cases e with
    | put p => simp only [acceptedFrom, ngets, ih]
    | get => simp only [acceptedFrom, ngets, List.length_cons, ih]

theorem segmentsFrom_length (evs : List Ev) : ∀ cur, (segmentsFrom cur evs).length = ngets evs := by
  induction evs with
  | nil => intro cur; rfl
  | cons e r ih =>
    intro cur
    cases e with
    | put p => simp only [segmentsFrom, ngets, ih]
    | get => simp only [segmentsFrom, ngets, List.length_cons, ih]

/-- every packet of a segment was offered -/
theorem acceptedFrom_mem (cap stride : Nat) (evs : List Ev) :
    ∀ cur, ∀ seg ∈ acceptedFrom cap stride cur evs, ∀ p ∈ seg, p ∈ cur ∨ p ∈ puts evs := by
  induction evs with
  | nil => intro cur seg h; simp [acceptedFrom] at h
  | cons e r ih =>
    intro cur seg hseg p hp
    cases e with
    | put q =>
      simp only [acceptedFrom] at hseg
      rcases ih _ seg hseg p hp with h | h
      · split at h
        · rcases List.mem_append.mp h with h | h
          · exact Or.inl h
          · simp only [List.mem_singleton] at h; exact Or.inr (by simp [puts, h])
        · exact Or.inl h
      · exact Or.inr (by simp [puts, h])
    | get =>
      simp only [acceptedFrom, List.mem_cons] at hseg
      rcases hseg with rfl | hseg
      · exact Or.inl hp
      · rcases ih _ seg hseg p hp with h | h
        · simp at h
        · exact Or.inr (by simpa [puts] using h)

theorem accepted_mem (cap stride : Nat) (evs : List Ev) (seg : List Packet) (hseg : seg ∈ accepted cap stride evs)
    (p : Packet) (hp : p ∈ seg) : p ∈ puts evs := by
  rcases acceptedFrom_mem cap stride evs [] seg hseg p hp with h | h
  · simp at h
  · exact h

/-- the free room as the ring computes it is the free room of the producer's accounting -/
theorem room_eq (cap stride : Nat) (s : St) (hi : RInv cap stride s) (cur : List Packet)
    (hc : s.sent = s.seen ++ cur) : room s.d = cap - 1 - (slotsOf stride cur).length := by
  have hw := hi.rep.w_eq
  rw [hc, slotsOf_append, List.length_append] at hw
  have hr := hi.r_eq
  have hcap := hi.cap_eq
  unfold room
  omega

/-- the slots not yet read never exceed the capacity -/
theorem occ_le (cap stride : Nat) (s : St) (hi : RInv cap stride s) (cur : List Packet)
    (hc : s.sent = s.seen ++ cur) : (slotsOf stride cur).length ≤ cap - 1 := by
  have h1 := hi.rep.occ
  have hw := hi.rep.w_eq
  rw [hc, slotsOf_append, List.length_append] at hw
  have hr := hi.r_eq
  have hcap := hi.cap_eq
  omega

theorem step_put_nofit (s : St) (p : Packet) (h : ¬ (slot (encB p) s.d.stride).length ≤ room s.d) :
    step s (.put p) = s := by
  unfold step
  simp only
  rw [if_neg h]

/-- a get returns the decodings of the packets written since the last get -/
theorem get_ret (cap stride : Nat) (hs : 1 ≤ stride) (hsc : stride < cap) (s : St) (hi : RInv cap stride s)
    (cur : List Packet) (hc : s.sent = s.seen ++ cur) : ret s = cur.map rt := by
  obtain ⟨hi2, hseen⟩ := step_get cap stride hs hsc s hi
  have h1 := step_get_got s hi2.ok
  have h2 := hi2.got_eq
  rw [hseen, h1, hi.got_eq, hc, List.map_append] at h2
  exact List.append_cancel_left h2

theorem gets_eq_acceptedFrom (cap stride : Nat) (hs : 1 ≤ stride) (hsc : stride < cap) (evs : List Ev) :
    ∀ s cur, RInv cap stride s → s.sent = s.seen ++ cur → (∀ p ∈ puts evs, Sendable p) →
      gets s evs = (acceptedFrom cap stride cur evs).map (·.map rt) := by
  induction evs with
  | nil => intro s cur _ _ _; rfl
  | cons e r ih =>
    intro s cur hi hc hp
    cases e with
    | put p =>
      have hp' : ∀ x ∈ puts r, Sendable x := fun x hx => hp x (by simp [puts, hx])
      have hi' := step_put cap stride s hi p (hp p (by simp [puts]))
      have hroom := room_eq cap stride s hi cur hc
      have hocc := occ_le cap stride s hi cur hc
      have hstr := hi.stride_eq
      rw [gets_put]
      simp only [acceptedFrom]
      by_cases hfit : (slot (encB p) s.d.stride).length ≤ room s.d
      · have hsent := step_put_sent cap stride s hi p hfit
        have hseen := (step_put_frame s p).2
        rw [if_pos (by rw [hstr] at hfit; omega)]
        exact ih _ _ hi' (by rw [hsent, hseen, hc, List.append_assoc]) hp'
      · rw [if_neg (by rw [hstr] at hfit; omega), step_put_nofit s p hfit]
        exact ih _ _ hi hc hp'
    | get =>
      have hp' : ∀ x ∈ puts r, Sendable x := fun x hx => hp x (by simpa [puts] using hx)
      obtain ⟨hi', hseen⟩ := step_get cap stride hs hsc s hi
      rw [gets_get, get_ret cap stride hs hsc s hi cur hc]
      simp only [acceptedFrom, List.map_cons]
      rw [ih _ [] hi' (by rw [hseen, step_get_sent, List.append_nil]) hp']

/-- **Per-get FIFO, general form.**  On a ring of any size `cap ≥ 2` with any stride `1 ≤ stride < cap`, for
every history of sendable packets offered by a producer that writes whole slots (and skips a packet whose
slot does not fit) interleaved in any way with `ReadAllPackets` calls: every write is accepted whole, every
call succeeds with error `nil`, and the k-th call returns exactly the decodings of the packets the producer
wrote between call k-1 and call k, in order. -/
theorem ring_gets_are_accepted (cap stride : Nat) (h2 : 2 ≤ cap) (hs : 1 ≤ stride) (hsc : stride < cap)
    (evs : List Ev) (hp : ∀ p ∈ puts evs, Sendable p) :
    (run (St.init cap stride) evs).ok = true ∧
    gets (St.init cap stride) evs = (accepted cap stride evs).map (·.map rt) :=
  ⟨(ring_packets_fifo cap stride h2 hs hsc evs hp).1,
   gets_eq_acceptedFrom cap stride hs hsc evs _ [] (rinv_init cap stride h2) rfl hp⟩

theorem map_rt_toIngest (ps : List Packet) (hp : ∀ p ∈ ps, Sendable p ∧ p.data.len ≠ 0) :
    (ps.map rt).map Compose.toIngest = ps.map Compose.toIngest := by
  rw [List.map_map]
  apply List.map_congr_left
  intro p h
  exact rt_toIngest p (hp p h).1 (hp p h).2

/-- the same seen by the ingest (packets with a payload, as in `wire_to_ingest`) -/
theorem ring_gets_are_accepted_ingest (cap stride : Nat) (h2 : 2 ≤ cap) (hs : 1 ≤ stride) (hsc : stride < cap)
    (evs : List Ev) (hp : ∀ p ∈ puts evs, Sendable p ∧ p.data.len ≠ 0) :
    (run (St.init cap stride) evs).ok = true ∧
    (gets (St.init cap stride) evs).map (·.map Compose.toIngest)
      = (accepted cap stride evs).map (·.map Compose.toIngest) := by
  obtain ⟨hok, hg⟩ := ring_gets_are_accepted cap stride h2 hs hsc evs (fun p h => (hp p h).1)
  refine ⟨hok, ?_⟩
  rw [hg, List.map_map]
  apply List.map_congr_left
  intro seg hseg
  exact map_rt_toIngest seg (fun p h => hp p (accepted_mem cap stride evs seg hseg p h))

/-- when every packet fits at the time it is offered, what is written is what is offered -/
theorem acceptedFrom_eq_segmentsFrom (cap stride : Nat) (hs : 1 ≤ stride) (hsc : stride < cap) (evs : List Ev) :
    ∀ s cur, RInv cap stride s → s.sent = s.seen ++ cur → (∀ p ∈ puts evs, Sendable p) → Fits s evs →
      acceptedFrom cap stride cur evs = segmentsFrom cur evs := by
  induction evs with
  | nil => intro s cur _ _ _ _; rfl
  | cons e r ih =>
    intro s cur hi hc hp hf
    cases e with
    | put p =>
      have hp' : ∀ x ∈ puts r, Sendable x := fun x hx => hp x (by simp [puts, hx])
      have hi' := step_put cap stride s hi p (hp p (by simp [puts]))
      have hroom := room_eq cap stride s hi cur hc
      have hocc := occ_le cap stride s hi cur hc
      have hstr := hi.stride_eq
      have hfit := hf.1
      have hsent := step_put_sent cap stride s hi p hfit
      have hseen := (step_put_frame s p).2
      simp only [acceptedFrom, segmentsFrom]
      rw [if_pos (by rw [hstr] at hfit; omega)]
      exact ih _ _ hi' (by rw [hsent, hseen, hc, List.append_assoc]) hp' hf.2
    | get =>
      have hp' : ∀ x ∈ puts r, Sendable x := fun x hx => hp x (by simpa [puts] using hx)
      obtain ⟨hi', hseen⟩ := step_get cap stride hs hsc s hi
      simp only [acceptedFrom, segmentsFrom]
      rw [ih _ [] hi' (by rw [hseen, step_get_sent, List.append_nil]) hp' hf]

theorem accepted_eq_segments (cap stride : Nat) (h2 : 2 ≤ cap) (hs : 1 ≤ stride) (hsc : stride < cap)
    (evs : List Ev) (hp : ∀ p ∈ puts evs, Sendable p) (hf : Fits (St.init cap stride) evs) :
    accepted cap stride evs = segments evs :=
  acceptedFrom_eq_segmentsFrom cap stride hs hsc evs _ [] (rinv_init cap stride h2) rfl hp hf

/-- **Per-get FIFO when nothing is skipped** (`Fits`: every packet fits into the free room at the time it is
offered): the k-th `ReadAllPackets` call returns exactly the decodings of the packets offered between call
k-1 and call k, in order. -/
theorem ring_gets_are_segments_rt (cap stride : Nat) (h2 : 2 ≤ cap) (hs : 1 ≤ stride) (hsc : stride < cap)
    (evs : List Ev) (hp : ∀ p ∈ puts evs, Sendable p) (hf : Fits (St.init cap stride) evs) :
    (run (St.init cap stride) evs).ok = true ∧
    gets (St.init cap stride) evs = (segments evs).map (·.map rt) := by
  rw [← accepted_eq_segments cap stride h2 hs hsc evs hp hf]
  exact ring_gets_are_accepted cap stride h2 hs hsc evs hp

/-- the same seen by the ingest: **the ingest is handed, call by call, the packets the producer offered
between the calls** -/
theorem ring_gets_are_segments (cap stride : Nat) (h2 : 2 ≤ cap) (hs : 1 ≤ stride) (hsc : stride < cap)
    (evs : List Ev) (hp : ∀ p ∈ puts evs, Sendable p ∧ p.data.len ≠ 0) (hf : Fits (St.init cap stride) evs) :
    (run (St.init cap stride) evs).ok = true ∧
    (gets (St.init cap stride) evs).map (·.map Compose.toIngest)
      = (segments evs).map (·.map Compose.toIngest) := by
  rw [← accepted_eq_segments cap stride h2 hs hsc evs (fun p h => (hp p h).1) hf]
  exact ring_gets_are_accepted_ingest cap stride h2 hs hsc evs hp

/-- link with `ComposeRing`: `got` is the concatenation of what the gets returned -/
theorem run_got_gets (evs : List Ev) :
    ∀ s, (run s evs).ok = true → (run s evs).got = s.got ++ (gets s evs).flatten := by
  induction evs with
  | nil => intro s _; simp [run, gets_nil]
  | cons e r ih =>
    intro s hok
    rw [run_cons] at hok ⊢
    cases e with
    | put p => rw [ih _ hok, gets_put, (step_put_frame s p).1]
    | get =>
      have hok1 : (step s .get).ok = true := by
        cases h : (step s .get).ok with
        | true => rfl
        | false =>
          exfalso
          have : ∀ (evs : List Ev) (t : St), t.ok = false → (run t evs).ok = false := by
            intro evs
            induction evs with
            | nil => intro t ht; exact ht
            | cons e r ih2 =>
              intro t ht
              rw [run_cons]
              apply ih2
              cases e with
              | put p =>
                unfold step
                simp only
                split
                · split
                  · simp [ht]
                  · rfl
                · exact ht
              | get =>
                unfold step
                simp only
                split
                · exact ht
                · rfl
          rw [this r _ h] at hok
          cases hok
      rw [ih _ hok, gets_get, step_get_got s hok1, List.flatten_cons, List.append_assoc]

/-! ### B. ring history = ingest history -/

/-- ONE ring (one producer, one channel group): the packet history the ingest works on — tick k = the k-th
`ReadAllPackets` call, one producer per tick -/
def historyOf (cap stride : Nat) (evs : List Ev) : List (List (List C03.Pkt)) :=
  (gets (St.init cap stride) evs).map fun ps => [ps.map Compose.toIngest]

/-- the history of what the producer WROTE (no ring, no reader in the definition) -/
def writtenHistory (cap stride : Nat) (evs : List Ev) : List (List (List C03.Pkt)) :=
  (accepted cap stride evs).map fun ps => [ps.map Compose.toIngest]

/-- the history of what the producer OFFERED -/
def segmentHistory (evs : List Ev) : List (List (List C03.Pkt)) :=
  (segments evs).map fun ps => [ps.map Compose.toIngest]

/-- **the history the reader saw is the history the producer wrote** -/
theorem ring_history_eq_written (cap stride : Nat) (h2 : 2 ≤ cap) (hs : 1 ≤ stride) (hsc : stride < cap)
    (evs : List Ev) (hp : ∀ p ∈ puts evs, Sendable p ∧ p.data.len ≠ 0) :
    (run (St.init cap stride) evs).ok = true ∧ historyOf cap stride evs = writtenHistory cap stride evs := by
  obtain ⟨hok, h⟩ := ring_gets_are_accepted_ingest cap stride h2 hs hsc evs hp
  refine ⟨hok, ?_⟩
  unfold historyOf writtenHistory
  have e := congrArg (List.map fun (y : List C03.Pkt) => [y]) h
  rw [List.map_map, List.map_map] at e
  exact e

/-- … and, when nothing is skipped, the history the producer offered -/
theorem ring_history_eq_segments (cap stride : Nat) (h2 : 2 ≤ cap) (hs : 1 ≤ stride) (hsc : stride < cap)
    (evs : List Ev) (hp : ∀ p ∈ puts evs, Sendable p ∧ p.data.len ≠ 0) (hf : Fits (St.init cap stride) evs) :
    (run (St.init cap stride) evs).ok = true ∧ historyOf cap stride evs = segmentHistory evs := by
  obtain ⟨hok, h⟩ := ring_gets_are_segments cap stride h2 hs hsc evs hp hf
  refine ⟨hok, ?_⟩
  unfold historyOf segmentHistory
  have e := congrArg (List.map fun (y : List C03.Pkt) => [y]) h
  rw [List.map_map, List.map_map] at e
  exact e

/-- `n` rings (one producer each) read in the same tick -/
structure Ring where
  cap : Nat
  stride : Nat
  evs : List Ev      -- this ring's history: its producer's puts, and one get per tick

/-- tick `k` of `n` per-producer lists: the k-th entry of each (`[]` for a producer with fewer entries) -/
def tickOf (k : Nat) (G : List (List (List C03.Pkt))) : List (List C03.Pkt) := G.map fun g => g[k]?.getD []

/-- `T` ticks × producers × packets from producers × ticks × packets (the transpose) -/
def ticksOf (T : Nat) (G : List (List (List C03.Pkt))) : List (List (List C03.Pkt)) :=
  (List.range T).map fun k => tickOf k G

/-- the history the ingest works on when it reads `rings` once per tick, for `T` ticks -/
def historyOfN (T : Nat) (rings : List Ring) : List (List (List C03.Pkt)) :=
  ticksOf T (rings.map fun r => (gets (St.init r.cap r.stride) r.evs).map (·.map Compose.toIngest))

/-- the history of what the `n` producers wrote -/
def writtenHistoryN (T : Nat) (rings : List Ring) : List (List (List C03.Pkt)) :=
  ticksOf T (rings.map fun r => (accepted r.cap r.stride r.evs).map (·.map Compose.toIngest))

/-- the history of what the `n` producers offered -/
def segmentHistoryN (T : Nat) (rings : List Ring) : List (List (List C03.Pkt)) :=
  ticksOf T (rings.map fun r => (segments r.evs).map (·.map Compose.toIngest))

/-- the hypotheses on one ring -/
def Ring.OK (r : Ring) : Prop :=
  2 ≤ r.cap ∧ 1 ≤ r.stride ∧ r.stride < r.cap ∧ ∀ p ∈ puts r.evs, Sendable p ∧ p.data.len ≠ 0

/-- **`n` rings: the history the reader saw is the history the producers wrote**; every write on every ring
was accepted whole and every `ReadAllPackets` call succeeded.  (When each ring's history has `T` gets —
`gets_length`, `acceptedFrom_length` — tick `k` holds exactly what the k-th call on each ring returned.) -/
theorem rings_history_eq_written (T : Nat) (rings : List Ring) (hr : ∀ r ∈ rings, r.OK) :
    (∀ r ∈ rings, (run (St.init r.cap r.stride) r.evs).ok = true) ∧
    historyOfN T rings = writtenHistoryN T rings := by
  refine ⟨fun r h => ?_, ?_⟩
  · obtain ⟨h2, hs, hsc, hp⟩ := hr r h
    exact (ring_gets_are_accepted_ingest r.cap r.stride h2 hs hsc r.evs hp).1
  · unfold historyOfN writtenHistoryN
    congr 1
    apply List.map_congr_left
    intro r h
    obtain ⟨h2, hs, hsc, hp⟩ := hr r h
    exact (ring_gets_are_accepted_ingest r.cap r.stride h2 hs hsc r.evs hp).2

theorem rings_history_eq_segments (T : Nat) (rings : List Ring) (hr : ∀ r ∈ rings, r.OK)
    (hf : ∀ r ∈ rings, Fits (St.init r.cap r.stride) r.evs) :
    (∀ r ∈ rings, (run (St.init r.cap r.stride) r.evs).ok = true) ∧
    historyOfN T rings = segmentHistoryN T rings := by
  refine ⟨(rings_history_eq_written T rings hr).1, ?_⟩
  unfold historyOfN segmentHistoryN
  congr 1
  apply List.map_congr_left
  intro r h
  obtain ⟨h2, hs, hsc, hp⟩ := hr r h
  exact (ring_gets_are_segments r.cap r.stride h2 hs hsc r.evs hp (hf r h)).2

theorem ticksOf_single (l : List (List C03.Pkt)) : ticksOf l.length [l] = l.map fun x => [x] := by
  apply List.ext_getElem
  · simp [ticksOf]
  · intro i h1 h2
    simp only [ticksOf, List.length_map, List.length_range] at h1
    simp [ticksOf, tickOf, h1]

/-- one ring is the case `n = 1` -/
theorem historyOfN_single (cap stride : Nat) (evs : List Ev) :
    historyOfN (ngets evs) [⟨cap, stride, evs⟩] = historyOf cap stride evs := by
  have hl : ngets evs = ((gets (St.init cap stride) evs).map (·.map Compose.toIngest)).length := by
    rw [List.length_map, gets_length]
  unfold historyOfN historyOf
  simp only [List.map_cons, List.map_nil]
  rw [hl, ticksOf_single, List.map_map]
  rfl

/-! ### C. what the producer wrote into the ring is what ends up in the files -/

open Compose Pipe in
/-- **Ring → LJH 2.2 files.**  One shared-memory ring of any size with any stride, a producer that writes
sendable packets with a payload in whole slots (skipping a packet when the ring is too full), the Abaco
reader calling `ReadAllPackets` whenever it likes.  Every hypothesis is about what the PRODUCER wrote
(`writtenHistory`: neither the ring nor the reader occurs in it): the written history is one the ingest
theorems cover (`validIn`: numbers increasing, payload sizes right — losses allowed), and the ingest run on
it yields the blocks `outs`.  Then: every write was accepted whole and every `ReadAllPackets` succeeded; the
history the reader actually saw through the ring is valid, and the ingest run on it yields the same state
and the same blocks `outs`; the source processes these blocks without a panic, and every channel's LJH 2.2
file over that period reads back as exactly the channel's published records. -/
theorem ring_to_ljh22_files (cap stride : Nat) (h2 : 2 ≤ cap) (hs : 1 ≤ stride) (hsc : stride < cap)
    (evs : List Ev) (hsend : ∀ p ∈ puts evs, Sendable p ∧ p.data.len ≠ 0)
    (fpp : Nat) (L : List C03.GL) (f0 : Int) (hf0 : 0 ≤ f0)
    (gs : List C03.Group) (perms : List (List Nat))
    (hv : C03.validIn fpp L (writtenHistory cap stride evs) = true) (hi : C03.InitOK L gs)
    (hp : C03.PermsOK L.length (writtenHistory cap stride evs) perms)
    (s' : C03.St) (outs : List (Nat × C03.Block))
    (hrun : C03.runFrom 0 (C03.startSt gs f0) (writtenHistory cap stride evs) perms = .ok (s', outs))
    (mk : C03.Block → Int × Int × List Bool)
    (npre nsamp : Int) (hlen : 3 ≤ npre ∧ npre < nsamp) (saved : List (Nat × Trig.TS))
    (zts : List (List (Int × Int)))
    (hzt : ∀ (j : Nat) (p : Int), -1 ≤ Pipe.ztOf (zts[j]?.getD []) p ∧ Pipe.ztOf (zts[j]?.getD []) p ≤ 1) :
    (run (St.init cap stride) evs).ok = true ∧
    C03.validIn fpp L (historyOf cap stride evs) = true ∧
    C03.runFrom 0 (C03.startSt gs f0) (historyOf cap stride evs) perms = .ok (s', outs) ∧
    ∃ res, runOps zts (prepare ((L.map (·.nchan)).sum) npre nsamp saved) ((outs.map (·.2)).map (blockOp mk)) = some res ∧
      ∀ (j : Nat), j < (L.map (·.nchan)).sum →
        (∀ r ∈ chanRecs j res, (r.data.length : Int) = nsamp ∧ r.npre = npre) ∧
        ∀ (p : C05.Params) (hdr : C05.Bytes), p.nsamp = nsamp →
        ∀ (batches : List (List C05.W22)), batches.flatten = (chanRecs j res).map toW22 →
          let recs := chanRecs j res
          let fin := C05.run (C05.fmt22 p hdr) {} (fileOps batches)
          (recs = [] → C05.fileOf fin = none) ∧
          (recs ≠ [] → ∃ file, C05.fileOf fin = some file ∧ file.take hdr.length = hdr ∧
            C05.parseBody (C05.parseLJH22 p.nsamp.toNat 2) (file.drop hdr.length) =
              some (recs.map fun r => C05.expect22 p.subdiv p.suboff (toW22 r)) ∧
            file.length = hdr.length + recs.length * (16 + p.nsamp.toNat * 2)) := by
  obtain ⟨hok, hH⟩ := ring_history_eq_written cap stride h2 hs hsc evs hsend
  rw [← hH] at hv hp hrun
  exact ⟨hok, hv, hrun,
    abaco_packets_to_files fpp L f0 hf0 _ gs perms hv hi hp s' outs hrun mk npre nsamp hlen saved zts hzt⟩

open Compose Pipe in
/-- the same when nothing is skipped (`Fits`): every hypothesis is about the packets the producer OFFERED
between consecutive reads (`segmentHistory`: the puts of the history cut at the gets) -/
theorem ring_to_ljh22_files_fits (cap stride : Nat) (h2 : 2 ≤ cap) (hs : 1 ≤ stride) (hsc : stride < cap)
    (evs : List Ev) (hsend : ∀ p ∈ puts evs, Sendable p ∧ p.data.len ≠ 0)
    (hfits : Fits (St.init cap stride) evs)
    (fpp : Nat) (L : List C03.GL) (f0 : Int) (hf0 : 0 ≤ f0)
    (gs : List C03.Group) (perms : List (List Nat))
    (hv : C03.validIn fpp L (segmentHistory evs) = true) (hi : C03.InitOK L gs)
    (hp : C03.PermsOK L.length (segmentHistory evs) perms)
    (s' : C03.St) (outs : List (Nat × C03.Block))
    (hrun : C03.runFrom 0 (C03.startSt gs f0) (segmentHistory evs) perms = .ok (s', outs))
    (mk : C03.Block → Int × Int × List Bool)
    (npre nsamp : Int) (hlen : 3 ≤ npre ∧ npre < nsamp) (saved : List (Nat × Trig.TS))
    (zts : List (List (Int × Int)))
    (hzt : ∀ (j : Nat) (p : Int), -1 ≤ Pipe.ztOf (zts[j]?.getD []) p ∧ Pipe.ztOf (zts[j]?.getD []) p ≤ 1) :
    (run (St.init cap stride) evs).ok = true ∧
    C03.validIn fpp L (historyOf cap stride evs) = true ∧
    C03.runFrom 0 (C03.startSt gs f0) (historyOf cap stride evs) perms = .ok (s', outs) ∧
    ∃ res, runOps zts (prepare ((L.map (·.nchan)).sum) npre nsamp saved) ((outs.map (·.2)).map (blockOp mk)) = some res ∧
      ∀ (j : Nat), j < (L.map (·.nchan)).sum →
        (∀ r ∈ chanRecs j res, (r.data.length : Int) = nsamp ∧ r.npre = npre) ∧
        ∀ (p : C05.Params) (hdr : C05.Bytes), p.nsamp = nsamp →
        ∀ (batches : List (List C05.W22)), batches.flatten = (chanRecs j res).map toW22 →
          let recs := chanRecs j res
          let fin := C05.run (C05.fmt22 p hdr) {} (fileOps batches)
          (recs = [] → C05.fileOf fin = none) ∧
          (recs ≠ [] → ∃ file, C05.fileOf fin = some file ∧ file.take hdr.length = hdr ∧
            C05.parseBody (C05.parseLJH22 p.nsamp.toNat 2) (file.drop hdr.length) =
              some (recs.map fun r => C05.expect22 p.subdiv p.suboff (toW22 r)) ∧
            file.length = hdr.length + recs.length * (16 + p.nsamp.toNat * 2)) := by
  obtain ⟨hok, hH⟩ := ring_history_eq_segments cap stride h2 hs hsc evs hsend hfits
  rw [← hH] at hv hp hrun
  exact ⟨hok, hv, hrun,
    abaco_packets_to_files fpp L f0 hf0 _ gs perms hv hi hp s' outs hrun mk npre nsamp hlen saved zts hzt⟩

open Compose Pipe in
/-- **`n` rings → LJH 2.2 files**: `n` rings (one producer, one channel group each, any sizes and strides)
read once per tick for `T` ticks; every hypothesis is about what the producers wrote (`writtenHistoryN`) -/
theorem rings_to_ljh22_files (T : Nat) (rings : List Ring) (hr : ∀ r ∈ rings, r.OK)
    (fpp : Nat) (L : List C03.GL) (f0 : Int) (hf0 : 0 ≤ f0)
    (gs : List C03.Group) (perms : List (List Nat))
    (hv : C03.validIn fpp L (writtenHistoryN T rings) = true) (hi : C03.InitOK L gs)
    (hp : C03.PermsOK L.length (writtenHistoryN T rings) perms)
    (s' : C03.St) (outs : List (Nat × C03.Block))
    (hrun : C03.runFrom 0 (C03.startSt gs f0) (writtenHistoryN T rings) perms = .ok (s', outs))
    (mk : C03.Block → Int × Int × List Bool)
    (npre nsamp : Int) (hlen : 3 ≤ npre ∧ npre < nsamp) (saved : List (Nat × Trig.TS))
    (zts : List (List (Int × Int)))
    (hzt : ∀ (j : Nat) (p : Int), -1 ≤ Pipe.ztOf (zts[j]?.getD []) p ∧ Pipe.ztOf (zts[j]?.getD []) p ≤ 1) :
    (∀ r ∈ rings, (run (St.init r.cap r.stride) r.evs).ok = true) ∧
    C03.validIn fpp L (historyOfN T rings) = true ∧
    C03.runFrom 0 (C03.startSt gs f0) (historyOfN T rings) perms = .ok (s', outs) ∧
    ∃ res, runOps zts (prepare ((L.map (·.nchan)).sum) npre nsamp saved) ((outs.map (·.2)).map (blockOp mk)) = some res ∧
      ∀ (j : Nat), j < (L.map (·.nchan)).sum →
        (∀ r ∈ chanRecs j res, (r.data.length : Int) = nsamp ∧ r.npre = npre) ∧
        ∀ (p : C05.Params) (hdr : C05.Bytes), p.nsamp = nsamp →
        ∀ (batches : List (List C05.W22)), batches.flatten = (chanRecs j res).map toW22 →
          let recs := chanRecs j res
          let fin := C05.run (C05.fmt22 p hdr) {} (fileOps batches)
          (recs = [] → C05.fileOf fin = none) ∧
          (recs ≠ [] → ∃ file, C05.fileOf fin = some file ∧ file.take hdr.length = hdr ∧
            C05.parseBody (C05.parseLJH22 p.nsamp.toNat 2) (file.drop hdr.length) =
              some (recs.map fun r => C05.expect22 p.subdiv p.suboff (toW22 r)) ∧
            file.length = hdr.length + recs.length * (16 + p.nsamp.toNat * 2)) := by
  obtain ⟨hok, hH⟩ := rings_history_eq_written T rings hr
  rw [← hH] at hv hp hrun
  exact ⟨hok, hv, hrun,
    abaco_packets_to_files fpp L f0 hf0 _ gs perms hv hi hp s' outs hrun mk npre nsamp hlen saved zts hzt⟩

/-! ### D. non-vacuity -/

/-- stride 64, ring of 1000 bytes: two gets, the first returns `pkA`, the second `pkB, pkA` -/
def evs2 : List Ev := [.put pkA, .get, .put pkB, .put pkA, .get]

theorem evs2_sendable : ∀ p ∈ puts evs2, Sendable p ∧ p.data.len ≠ 0 := by
  intro p hp
  simp only [evs2, puts, List.mem_cons, List.not_mem_nil, or_false] at hp
  rcases hp with rfl | rfl | rfl
  · exact pkA_sendable
  · exact pkB_sendable
  · exact pkA_sendable

theorem evs2_fits : Fits (St.init 1000 64) evs2 :=
  ⟨by decide +kernel, by decide +kernel, by decide +kernel, trivial⟩

/-- the hypotheses of `ring_gets_are_segments` are satisfiable, and its two sides are what they should be -/
example : (gets (St.init 1000 64) evs2).map (·.map Compose.toIngest) = (segments evs2).map (·.map Compose.toIngest) :=
  (ring_gets_are_segments 1000 64 (by decide) (by decide) (by decide) evs2 evs2_sendable evs2_fits).2

example : segments evs2 = [[pkA], [pkB, pkA]] := rfl

example : (gets (St.init 1000 64) evs2).map (·.map Compose.toIngest)
    = [[Compose.toIngest pkA], [Compose.toIngest pkB, Compose.toIngest pkA]] := by decide +kernel

/-- a ring too small for everything offered (100 bytes, stride 8; `pkB` does not fit after `pkA`: it is
skipped): three gets, `accepted` is what was written, the gets return exactly that -/
example :
    let evs : List Ev := [.put pkA, .put pkB, .get, .put pkA, .get, .put pkB, .get]
    (accepted 100 8 evs).map (·.map (·.seq)) = [[8], [8], [9]] ∧
    (gets (St.init 100 8) evs).map (·.map Compose.toIngest) = (accepted 100 8 evs).map (·.map Compose.toIngest) ∧
    (segments evs).map (·.map (·.seq)) = [[8, 9], [8], [9]] := by decide +kernel

/-! the whole chain on a concrete ring history -/

/-- 4 int16 samples, sequence number 9 -/
def pkC : Packet :=
  match newData (newPacket 1 2 8 0) (.i16 [5, 6, 7, -8]) [4] with
  | .ok p => p
  | .error _ => newPacket 1 2 8 0

/-- 4 int16 samples, sequence number 11 (number 10 is lost before it reaches the producer) -/
def pkD : Packet :=
  match newData (newPacket 1 2 10 0) (.i16 [9, 10, -11, 12]) [4] with
  | .ok p => p
  | .error _ => newPacket 1 2 10 0

theorem pkC_sendable : Sendable pkC ∧ pkC.data.len ≠ 0 := by
  refine ⟨⟨Built.data (.i16 [5, 6, 7, -8]) [4] (Built.new 1 2 8 0 (by decide) (by decide) (by decide)) rfl ?_ ?_ rfl,
    ?_⟩, by decide⟩
  · intro x hx
    simp only [List.mem_cons, List.not_mem_nil, or_false] at hx
    rcases hx with rfl | rfl | rfl | rfl <;> (unfold InRange; decide)
  · intro d hd
    simp only [List.mem_cons, List.not_mem_nil, or_false] at hd
    rcases hd with rfl; decide
  · intro s hs
    cases hs
    decide

theorem pkD_sendable : Sendable pkD ∧ pkD.data.len ≠ 0 := by
  refine ⟨⟨Built.data (.i16 [9, 10, -11, 12]) [4] (Built.new 1 2 10 0 (by decide) (by decide) (by decide)) rfl ?_ ?_ rfl,
    ?_⟩, by decide⟩
  · intro x hx
    simp only [List.mem_cons, List.not_mem_nil, or_false] at hx
    rcases hx with rfl | rfl | rfl | rfl <;> (unfold InRange; decide)
  · intro d hd
    simp only [List.mem_cons, List.not_mem_nil, or_false] at hd
    rcases hd with rfl; decide
  · intro s hs
    cases hs
    decide

/-- one group of 4 channels, last start-up packet number 7; three ticks: `pkA` / nothing / `pkC`, `pkD` -/
def evs3 : List Ev := [.put pkA, .get, .get, .put pkC, .put pkD, .get]
def L3 : List C03.GL := [⟨4, 7, 0⟩]
def gs3 : List C03.Group := [⟨0, 4, [], 7, 0⟩]
def perms3 : List (List Nat) := [[0], [0], [0]]

theorem evs3_sendable : ∀ p ∈ puts evs3, Sendable p ∧ p.data.len ≠ 0 := by
  intro p hp
  simp only [evs3, puts, List.mem_cons, List.not_mem_nil, or_false] at hp
  rcases hp with rfl | rfl | rfl
  · exact pkA_sendable
  · exact pkC_sendable
  · exact pkD_sendable

theorem evs3_valid : C03.validIn 1 L3 (writtenHistory 1000 64 evs3) = true := by decide +kernel

theorem evs3_init : C03.InitOK L3 gs3 := by
  refine ⟨rfl, ?_⟩
  intro i g h
  cases i with
  | zero =>
    simp only [gs3, List.getElem?_cons_zero, Option.some.injEq] at h
    subst h
    exact ⟨_, rfl, rfl, rfl, rfl, rfl⟩
  | succ i => simp [gs3] at h

theorem evs3_perms : C03.PermsOK L3.length (writtenHistory 1000 64 evs3) perms3 := by
  refine ⟨by decide +kernel, ?_⟩
  intro p hp i hi
  have : i = 0 := by simp [L3] at hi; exact hi
  subst this
  simp only [perms3, List.mem_cons, List.not_mem_nil, or_false] at hp
  rcases hp with rfl | rfl | rfl <;> simp

theorem evs3_runs : (C03.runFrom 0 (C03.startSt gs3 0) (writtenHistory 1000 64 evs3) perms3).isOk = true := by
  decide +kernel

/-- the hypotheses of `ring_to_ljh22_files` are jointly satisfiable (with a lost packet in the history), and
its conclusion for the concrete ring: the reader's history runs to the same blocks, and the pipeline
(record length 4, 3 pre-samples) processes them -/
example : ∃ s' outs res,
    C03.runFrom 0 (C03.startSt gs3 0) (writtenHistory 1000 64 evs3) perms3 = .ok (s', outs) ∧
    (run (St.init 1000 64) evs3).ok = true ∧
    C03.runFrom 0 (C03.startSt gs3 0) (historyOf 1000 64 evs3) perms3 = .ok (s', outs) ∧
    Pipe.runOps [] (Pipe.prepare ((L3.map (·.nchan)).sum) 3 4 []) ((outs.map (·.2)).map (Compose.blockOp fun _ => (0, 0, []))) = some res := by
  cases h : C03.runFrom 0 (C03.startSt gs3 0) (writtenHistory 1000 64 evs3) perms3 with
  | error e => have := evs3_runs; rw [h] at this; cases this
  | ok v =>
    obtain ⟨s', outs⟩ := v
    obtain ⟨hok, _, hr, res, hres, _⟩ := ring_to_ljh22_files 1000 64 (by decide) (by decide) (by decide) evs3
      evs3_sendable 1 L3 0 (by decide) gs3 perms3 evs3_valid evs3_init evs3_perms s' outs h
      (fun _ => (0, 0, [])) 3 4 (by decide) [] [] (by intro j p; simp [Pipe.ztOf])
    exact ⟨s', outs, res, rfl, hok, hr, hres⟩

end DastardV.RingPk
