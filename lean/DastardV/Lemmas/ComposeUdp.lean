/-
Datagrams → packets (C15 ∘ the UDP reader goroutine): whatever earlier datagrams left in the reusable
receive buffer, every datagram that is the encoding of a constructible packet is queued as exactly that
packet — one packet per datagram, in order, and the goroutine never ends on such a stream.
-/
import DastardV.Model.UdpPackets
import DastardV.Lemmas.ComposeRing
namespace DastardV.UdpPk
open C15 RingPk

theorem fill_of_fits (buf msg : List Nat) (h : msg.length ≤ buf.length) :
    fill buf msg = msg ++ buf.drop msg.length := by
  unfold fill
  rw [List.take_of_length_le h]

theorem fill_length (buf msg : List Nat) (h : msg.length ≤ buf.length) : (fill buf msg).length = buf.length := by
  rw [fill_of_fits buf msg h]
  simp only [List.length_append, List.length_drop]
  omega

/-- **one packet per datagram, in order, for any previous content of the buffer** -/
theorem udp_packets_fifo_buf : ∀ (ps : List Packet) (buf : List Nat),
    (∀ p ∈ ps, Sendable p ∧ (encB p).length ≤ buf.length) →
    recvF (ps.map encB) buf = (ps.map rt, false)
  | [], _, _ => rfl
  | p :: ps, buf, h => by
    obtain ⟨hs, hl⟩ := h p (by simp)
    obtain ⟨_, hd, _⟩ := enc_rt p hs
    have hfill := fill_of_fits buf (encB p) hl
    have hdec : decodeC (fill buf (encB p)) = (.ok (rt p), (encB p).length) := by
      rw [hfill]; exact decodeC_append _ _ _ _ hd
    have hlen := fill_length buf (encB p) hl
    have ih := udp_packets_fifo_buf ps (fill buf (encB p)) (fun q hq => by
      obtain ⟨a, b⟩ := h q (by simp [hq]); exact ⟨a, by rw [hlen]; exact b⟩)
    simp only [List.map_cons, recvF, hdec, ih]

/-- the reader goroutine started by `AbacoUDPReceiver.start` (zeroed 8192-byte buffer) -/
theorem udp_packets_fifo (ps : List Packet) (h : ∀ p ∈ ps, Sendable p ∧ (encB p).length ≤ bufSize) :
    recv (ps.map encB) = (ps.map rt, false) := by
  unfold recv
  exact udp_packets_fifo_buf ps _ (fun p hp => by simpa using h p hp)

/-- in the ingest's view (sequence number, width, values) the queue is what was sent -/
theorem udp_packets_fifo_ingest (ps : List Packet)
    (h : ∀ p ∈ ps, Sendable p ∧ p.data.len ≠ 0 ∧ (encB p).length ≤ bufSize) :
    (recv (ps.map encB)).2 = false ∧
    (recv (ps.map encB)).1.map Compose.toIngest = ps.map Compose.toIngest := by
  rw [udp_packets_fifo ps (fun p hp => ⟨(h p hp).1, (h p hp).2.2⟩)]
  refine ⟨rfl, ?_⟩
  simp only [List.map_map]
  apply List.map_congr_left
  intro p hp
  exact rt_toIngest p (h p hp).1 (h p hp).2.1

/-- non-vacuity: the two example packets of `ComposeRing`, the second after the first -/
example : Sendable pkA ∧ Sendable pkB ∧ (encB pkA).length ≤ bufSize ∧ (encB pkB).length ≤ bufSize :=
  ⟨pkA_sendable.1, pkB_sendable.1, by decide +kernel, by decide +kernel⟩

/-- an empty datagram leaves the buffer as it was: the previous packet is queued a second time
(behaviour of the code as it is; no sender produces empty datagrams) -/
theorem empty_datagram_repeats (buf : List Nat) : fill buf [] = buf := by
  simp [fill]

end DastardV.UdpPk
