/-
Edge-multi scan: facts about `findNext` results, independence from data beyond the look-ahead
(prefix stability) and from the scan limit (split of a scan at an intermediate limit).
-/
import DastardV.Lemmas.EmtShift
namespace DastardV.Trig

/-- what a successful search result looks like -/
theorem findNext_result (raw : List Nat) (first : Int) (zt : ZT) (iFirst iLast thr nmono maxN : Int) (ezt : Bool)
    (hmax : 1 ≤ maxN) :
    ∀ (n : Nat) (i : Int) (x : Found), (iLast + 1 - i).toNat ≤ n →
      findNext raw first zt iFirst iLast thr nmono maxN ezt i = some x →
      (x.found = true → ∃ j, i ≤ j ∧ j ≤ iLast ∧ j + 2 ≤ x.nextI ∧ x.nextI ≤ j + maxN + 1 ∧
          ztApply raw first zt ezt j = some x.trig) ∧
      (x.found = false → x.trig = 0 ∧ x.nextI = (if iLast + 1 ≥ iFirst then iLast + 1 else iFirst)) := by
  intro n
  induction n with
  | zero =>
    intro i x hn h
    have hle : ¬ i ≤ iLast := by omega
    rw [findNext] at h
    simp only [hle, if_false, Option.some.injEq] at h
    subst h
    exact ⟨by simp, fun _ => ⟨rfl, rfl⟩⟩
  | succ n ih =>
    intro i x hn h
    rw [findNext] at h
    by_cases hle : i ≤ iLast
    · simp only [hle, if_true] at h
      split at h
      · rename_i a b ha hb
        split at h
        · -- threshold exceeded
          split at h
          · simp at h
          · rename_i fm hfm
            split at h
            · split at h
              · rename_i ti hti
                simp only [Option.some.injEq] at h
                subst h
                -- 1 ≤ fm ≤ maxN from monoRun
                have hfmr : 1 ≤ fm ∧ fm ≤ maxN := monoRun_range raw _ i maxN hmax _ 1 fm (Nat.le_refl _) (by omega) hmax hfm
                refine ⟨fun _ => ⟨i, Int.le_refl _, hle, by simp; omega, by simp; omega, hti⟩, by simp⟩
              · simp at h
            · obtain ⟨h1, h2⟩ := ih (i + 1) x (by omega) h
              exact ⟨fun hf => by obtain ⟨j, hj⟩ := h1 hf; exact ⟨j, by omega, hj.2⟩, h2⟩
        · obtain ⟨h1, h2⟩ := ih (i + 1) x (by omega) h
          exact ⟨fun hf => by obtain ⟨j, hj⟩ := h1 hf; exact ⟨j, by omega, hj.2⟩, h2⟩
      · simp at h
    · simp only [hle, if_false, Option.some.injEq] at h
      subst h
      exact ⟨by simp, fun _ => ⟨rfl, rfl⟩⟩

/-! ### independence from the scan limit -/

/-- the `iFirst` parameter of `findNext` only matters for the position reported when nothing is found -/
theorem findNext_param (raw : List Nat) (first : Int) (zt : ZT) (A B iLast thr nmono maxN : Int) (ezt : Bool)
    (hAB : (if iLast + 1 ≥ A then iLast + 1 else A) = (if iLast + 1 ≥ B then iLast + 1 else B)) :
    ∀ (n : Nat) (i : Int), (iLast + 1 - i).toNat ≤ n →
      findNext raw first zt A iLast thr nmono maxN ezt i = findNext raw first zt B iLast thr nmono maxN ezt i := by
  intro n
  induction n with
  | zero =>
    intro i hn
    have hle : ¬ i ≤ iLast := by omega
    conv => lhs; rw [findNext]
    conv => rhs; rw [findNext]
    simp only [hle, if_false, hAB]
  | succ n ih =>
    intro i hn
    conv => lhs; rw [findNext]
    conv => rhs; rw [findNext]
    by_cases hle : i ≤ iLast
    · simp only [hle, if_true]
      have ihn := ih (i + 1) (by omega)
      split
      · split
        · split
          · rfl
          · split
            · rfl
            · exact ihn
        · exact ihn
      · rfl
    · simp only [hle, if_false, hAB]

/-- a trigger found below the limit is found with any larger limit -/
theorem findNext_found_mono (raw : List Nat) (first : Int) (zt : ZT) (iFp iLast1 iLast2 thr nmono maxN : Int)
    (ezt : Bool) (h12 : iLast1 ≤ iLast2) :
    ∀ (n : Nat) (i : Int) (x : Found), (iLast1 + 1 - i).toNat ≤ n →
      findNext raw first zt iFp iLast1 thr nmono maxN ezt i = some x → x.found = true →
      findNext raw first zt iFp iLast2 thr nmono maxN ezt i = some x := by
  intro n
  induction n with
  | zero =>
    intro i x hn h hf
    have hle : ¬ i ≤ iLast1 := by omega
    rw [findNext] at h
    simp only [hle, if_false, Option.some.injEq] at h
    subst h
    simp at hf
  | succ n ih =>
    intro i x hn h hf
    rw [findNext] at h
    by_cases hle : i ≤ iLast1
    · have hle2 : i ≤ iLast2 := by omega
      simp only [hle, if_true] at h
      rw [findNext]
      simp only [hle2, if_true]
      split at h
      · rename_i a b ha hb
        split at h
        · rename_i hthr
          simp only [hthr, if_true]
          split at h
          · simp at h
          · split at h
            · rename_i hnm
              simp only [hnm, if_true]
              exact h
            · rename_i hnm
              simp only [hnm, if_false]
              exact ih (i + 1) x (by omega) h hf
        · rename_i hthr
          simp only [hthr, if_false]
          exact ih (i + 1) x (by omega) h hf
      · simp at h
    · simp only [hle, if_false, Option.some.injEq] at h
      subst h
      simp at hf

/-- nothing found up to `iLast1`: a scan with a larger limit can skip that stretch -/
theorem findNext_skip (raw : List Nat) (first : Int) (zt : ZT) (iFp iFp2 iLast1 iLast2 thr nmono maxN : Int)
    (ezt : Bool) (h12 : iLast1 ≤ iLast2) :
    ∀ (n : Nat) (i : Int) (x : Found), (iLast1 + 1 - i).toNat ≤ n →
      findNext raw first zt iFp iLast1 thr nmono maxN ezt i = some x → x.found = false →
      findNext raw first zt iFp2 iLast2 thr nmono maxN ezt i =
        findNext raw first zt iFp2 iLast2 thr nmono maxN ezt (if i ≤ iLast1 then iLast1 + 1 else i) := by
  intro n
  induction n with
  | zero =>
    intro i x hn _ _
    have hle : ¬ i ≤ iLast1 := by omega
    simp only [hle, if_false]
  | succ n ih =>
    intro i x hn h hf
    by_cases hle : i ≤ iLast1
    · have hle2 : i ≤ iLast2 := by omega
      simp only [hle, if_true]
      rw [findNext] at h
      simp only [hle, if_true] at h
      conv => lhs; rw [findNext]
      simp only [hle2, if_true]
      have next : findNext raw first zt iFp iLast1 thr nmono maxN ezt (i + 1) = some x →
          findNext raw first zt iFp2 iLast2 thr nmono maxN ezt (i + 1) =
            findNext raw first zt iFp2 iLast2 thr nmono maxN ezt (iLast1 + 1) := by
        intro h'
        have := ih (i + 1) x (by omega) h' hf
        by_cases hle' : i + 1 ≤ iLast1
        · simpa [hle'] using this
        · have : i + 1 = iLast1 + 1 := by omega
          rw [this]
      split at h
      · split at h
        · rename_i hthr
          simp only [hthr, if_true]
          split at h
          · simp at h
          · split at h
            · -- would have been found: contradiction with x.found = false
              split at h
              · simp only [Option.some.injEq] at h; subst h; simp at hf
              · simp at h
            · rename_i hnm
              simp only [hnm, if_false]
              exact next h
        · rename_i hthr
          simp only [hthr, if_false]
          exact next h
      · simp at h
    · simp only [hle, if_false]

end DastardV.Trig
