/-
C19 helper lemmas for the Abaco group bookkeeping (sort, numbering from sorted groups), the default
and ROACH numbering, and the geometry enumeration of Lancero cards.
-/
import DastardV.Lemmas.C19Lancero
namespace DastardV.C19

/-! ### insertion sort of groups by first channel -/

theorem insertG_perm (g : Group) : ∀ l : List Group, (insertG g l).Perm (g :: l)
  | [] => List.Perm.refl _
  | h :: t => by
    unfold insertG
    by_cases hle : g.first ≤ h.first
    · rw [if_pos hle]
    · rw [if_neg hle]
      exact ((insertG_perm g t).cons h).trans (List.Perm.swap g h t)

theorem sortG_perm : ∀ l : List Group, (sortG l).Perm l
  | [] => List.Perm.refl _
  | g :: t => by
    unfold sortG
    exact (insertG_perm g (sortG t)).trans ((sortG_perm t).cons g)

theorem insertG_sorted (g : Group) : ∀ l : List Group, l.Pairwise (fun a b => a.first ≤ b.first) →
    (insertG g l).Pairwise (fun a b => a.first ≤ b.first)
  | [], _ => by simp [insertG]
  | h :: t, hp => by
    unfold insertG
    have hp' := List.pairwise_cons.mp hp
    by_cases hle : g.first ≤ h.first
    · rw [if_pos hle]
      refine List.pairwise_cons.mpr ⟨?_, hp⟩
      intro x hx
      rcases List.mem_cons.mp hx with rfl | hx
      · exact hle
      · have := hp'.1 x hx; omega
    · rw [if_neg hle]
      refine List.pairwise_cons.mpr ⟨?_, insertG_sorted g t hp'.2⟩
      intro x hx
      rcases List.mem_cons.mp ((insertG_perm g t).subset hx) with rfl | hx
      · omega
      · exact hp'.1 x hx

theorem sortG_sorted : ∀ l : List Group, (sortG l).Pairwise (fun a b => a.first ≤ b.first)
  | [] => List.Pairwise.nil
  | g :: t => by unfold sortG; exact insertG_sorted g _ (sortG_sorted t)

theorem allChans_perm {a b : List Group} (h : a.Perm b) : (allChans a).Perm (allChans b) := by
  unfold allChans; exact h.flatMap_right _

theorem length_range_g (g : Group) : g.range.length = g.n := by
  unfold Group.range; rw [List.length_map, List.length_range]

theorem length_allChans (gs : List Group) : (allChans gs).length = (gs.map (·.n)).sum := by
  unfold allChans
  rw [List.length_flatMap]
  congr 1
  apply List.map_congr_left; intro g _; exact length_range_g g

/-! ### numbering from sorted groups -/

/-- every group fits the 16-bit fields of the row/column code -/
def GroupsFit16 (gs : List Group) : Prop := ∀ g ∈ gs, g.n < 65536

theorem abacoCols_nums (ncol : Nat) : ∀ (gs : List Group) (col : Nat),
    (abacoCols ncol gs col).map (·.num) = allChans gs
  | [], _ => rfl
  | g :: gs, col => by
    unfold abacoCols
    rw [List.map_append, abacoCols_nums ncol gs (col + 1), allChans_cons, List.map_map]
    congr 1
    unfold Group.range
    apply List.map_congr_left; intro r _
    simp only [Function.comp, mkStream]; omega

theorem abacoCols_names (ncol : Nat) : ∀ (gs : List Group) (col : Nat),
    (abacoCols ncol gs col).map (·.name) = (allChans gs).map (chanName false)
  | [], _ => rfl
  | g :: gs, col => by
    unfold abacoCols
    rw [List.map_append, abacoCols_names ncol gs (col + 1), allChans_cons, List.map_append, List.map_map]
    congr 1
    unfold Group.range
    rw [List.map_map]
    apply List.map_congr_left; intro r _
    simp only [Function.comp, mkStream]
    congr 1; omega

theorem abacoCols_decoded (ncol : Nat) (hn : ncol < 65536) : ∀ (gs : List Group) (col : Nat),
    GroupsFit16 gs → col + gs.length ≤ ncol →
    (abacoCols ncol gs col).map decoded = abacoGeomAux ncol gs col
  | [], _, _, _ => rfl
  | g :: gs, col, hf, hc => by
    unfold abacoCols abacoGeomAux
    have hg := hf g List.mem_cons_self
    simp only [List.length_cons] at hc
    rw [List.map_append, abacoCols_decoded ncol hn gs (col + 1)
      (fun e he => hf e (List.mem_cons_of_mem _ he)) (by omega), List.map_map]
    congr 1
    apply List.map_congr_left; intro r hr
    have := List.mem_range.mp hr
    simp only [Function.comp]
    exact decoded_mkStream _ _ _ _ _ _ (by omega) (by omega) hg hn

/-! ### Lancero geometry enumeration -/

theorem mem_devCCR (k : Nat) (d : Dev) (x : Nat × Nat × Nat) :
    x ∈ devCCR k d ↔ x.1 = k ∧ x.2.1 < d.ncols ∧ x.2.2 < d.nrows := by
  unfold devCCR
  rw [List.mem_flatMap]
  constructor
  · rintro ⟨c, hc, hx⟩
    obtain ⟨r, hr, rfl⟩ := List.mem_map.mp hx
    exact ⟨rfl, List.mem_range.mp hc, List.mem_range.mp hr⟩
  · rintro ⟨h1, h2, h3⟩
    refine ⟨x.2.1, List.mem_range.mpr h2, List.mem_map.mpr ⟨x.2.2, List.mem_range.mpr h3, ?_⟩⟩
    obtain ⟨a, b, c⟩ := x
    simp only at h1; subst h1; rfl

theorem devCCR_nodup (k : Nat) (d : Dev) : (devCCR k d).Nodup := by
  unfold devCCR List.Nodup
  rw [List.pairwise_flatMap]
  constructor
  · intro c _
    rw [List.pairwise_map]
    exact (List.nodup_range (n := d.nrows)).imp (by intro a b hab h; simp only [Prod.mk.injEq] at h; omega)
  · refine (List.nodup_range (n := d.ncols)).imp ?_
    intro a b hab x hx y hy hxy
    obtain ⟨r, _, rfl⟩ := List.mem_map.mp hx
    obtain ⟨r', _, rfl⟩ := List.mem_map.mp hy
    simp only [Prod.mk.injEq] at hxy; omega

theorem ccrFrom_card_ge : ∀ (devs : List Dev) (k : Nat) (x : Nat × Nat × Nat), x ∈ ccrFrom devs k → k ≤ x.1
  | [], _, x, h => by simp [ccrFrom] at h
  | d :: ds, k, x, h => by
    unfold ccrFrom at h
    rcases List.mem_append.mp h with h | h
    · have := ((mem_devCCR k d x).mp h).1; omega
    · have := ccrFrom_card_ge ds (k + 1) x h; omega

/-- every (card, column, row) is enumerated once -/
theorem ccrFrom_nodup : ∀ (devs : List Dev) (k : Nat), (ccrFrom devs k).Nodup
  | [], _ => List.nodup_nil
  | d :: ds, k => by
    unfold ccrFrom
    refine List.nodup_append.mpr ⟨devCCR_nodup k d, ccrFrom_nodup ds (k + 1), ?_⟩
    intro a ha b hb hab
    have h1 := ((mem_devCCR k d a).mp ha).1
    have h2 := ccrFrom_card_ge ds (k + 1) b hb
    subst hab; omega

/-- … and exactly the positions of the configuration are enumerated -/
theorem mem_ccrFrom : ∀ (devs : List Dev) (k : Nat) (x : Nat × Nat × Nat),
    x ∈ ccrFrom devs k ↔ k ≤ x.1 ∧ ∃ d, devs[x.1 - k]? = some d ∧ x.2.1 < d.ncols ∧ x.2.2 < d.nrows
  | [], k, x => by simp [ccrFrom]
  | d :: ds, k, x => by
    unfold ccrFrom
    rw [List.mem_append, mem_devCCR, mem_ccrFrom ds (k + 1) x]
    constructor
    · rintro (⟨h1, h2, h3⟩ | ⟨h1, e, he, h2, h3⟩)
      · refine ⟨by omega, d, ?_, h2, h3⟩
        rw [h1, Nat.sub_self]; rfl
      · refine ⟨by omega, e, ?_, h2, h3⟩
        have : x.1 - k = (x.1 - (k + 1)) + 1 := by omega
        rw [this, List.getElem?_cons_succ]; exact he
    · rintro ⟨h1, e, he, h2, h3⟩
      by_cases hk : x.1 = k
      · left
        rw [hk, Nat.sub_self] at he
        simp only [List.getElem?_cons_zero, Option.some.injEq] at he
        subst he
        exact ⟨hk, h2, h3⟩
      · right
        have : x.1 - k = (x.1 - (k + 1)) + 1 := by omega
        rw [this, List.getElem?_cons_succ] at he
        exact ⟨by omega, e, he, h2, h3⟩

theorem length_grid {β} (a b : Nat) (f : Nat → Nat → β) :
    ((List.range a).flatMap fun c => (List.range b).map (f c)).length = a * b := by
  rw [List.length_flatMap]
  have : List.map (fun c => ((List.range b).map (f c)).length) (List.range a)
      = List.replicate a b := by
    rw [List.eq_replicate_iff]
    refine ⟨by simp, ?_⟩
    intro x hx
    obtain ⟨c, _, rfl⟩ := List.mem_map.mp hx
    simp
  rw [this, List.sum_replicate_nat]

theorem length_lanceroGeom : ∀ devs : List Dev, (lanceroGeom devs).length * 2 = lanceroNchan devs
  | [] => rfl
  | d :: ds => by
    have ih := length_lanceroGeom ds
    unfold lanceroGeom lanceroNchan at *
    rw [List.flatMap_cons, List.length_append, List.map_cons, List.sum_cons]
    have : (devGeom d).length = d.ncols * d.nrows := by
      unfold devGeom; exact length_grid _ _ _
    rw [this]; omega

end DastardV.C19
