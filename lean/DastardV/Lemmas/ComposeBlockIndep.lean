/-
Block independence carried into the file (C08 → C05): the edge-multi records an LJH3 file holds do not
depend on how the stream was cut into blocks.

`C08_records_block_independent` (Props/C08): the per-channel pipeline `runFull` (append → `TriggerData` →
trim) on a freshly configured edge-multi channel emits records with the same frames, pre-trigger lengths
and samples whether the stream arrives cut into blocks or as one block.  `records_to_ljh3_file`
(Lemmas/ComposeFile): the LJH3 file written over any published record list reads back as
`recs.map (expect3 ∘ toW3)`.  Here the two are composed, with the record-length bound needed by the LJH3
reader (`int32` length field) derived from the configured record length (`runFull_len_le`, from
`emtSpecs_le` of Lemmas/EmtBounds):

* `runFull_len_le`             every record of an edge-multi `runFull` run is no longer than the
                               configured length, with 0..configured pre-trigger samples;
* `records_partition_independent`  `C08_records_block_independent` for TWO arbitrary partitions (both runs
                               compared with the single-block run, which exists by `C08_no_oob`);
* `files_agree_of_cores`       two record lists with the same (frame, pre-trigger length, samples) give LJH3
                               files that read back to record lists agreeing in everything but the time stamp;
* `emt_file_block_independent` the composition, per channel (`runFull`), run existence included;
* `emt_file_block_independent_source`  the same for the primaries the source model `Pipe.runOps` publishes
                               for a channel (through `Pipe.runOps_chan`).

The time-stamp field (`timeUs`) is NOT covered: it is derived from the block stamps, which the two runs
are free to choose differently here.
-/
import DastardV.Props.C08
import DastardV.Lemmas.EmtBounds
namespace DastardV.Compose
open Pipe Trig

/-! ### record lengths of a per-channel edge-multi run -/

/-- the edge-multi state's copy of the pre-trigger length is untouched by a search
(companion of `Pipe.emtSpecs_nsamp`) -/
theorem emtSpecs_npre {raw : List Nat} {first : Int} {zt : ZT} {s s' : EMT} {specs : List Spec}
    (h : emtSpecs raw first zt s = some (s', specs)) : s'.npre = s.npre := by
  unfold emtSpecs at h
  simp only at h
  split at h
  · simp at h
  · rename_i iF t u v sp hloop
    simp only [Option.some.injEq, Prod.mk.injEq] at h
    obtain ⟨h1, _⟩ := h
    subst h1
    split <;> simp [EMT.reset]

/-- **record lengths of the per-channel run, edge-multi.**  Any blocks, any start state whose edge-multi
lengths are valid (`0 ≤ npre ≤ nsamp`), any kink-fit oracle: every record `runFull` emits is no longer than
the configured record length and has between 0 and the configured number of pre-trigger samples. -/
theorem runFull_len_le (zt : ZT) (tp : Nat → Int × Int) (sg : Bool) :
    ∀ (segs : List (List Nat)) (n : Nat) (c : Chan) (first : Int) (c' : Chan) (recs : List Rec),
      c.ts.edgeMulti = true → 0 ≤ c.emt.npre → c.emt.npre ≤ c.emt.nsamp →
      runFull zt tp sg n c first segs = some (c', recs) →
      ∀ r ∈ recs, (r.data.length : Int) ≤ c.emt.nsamp ∧ 0 ≤ r.npre ∧ r.npre ≤ c.emt.npre
  | [], n, c, first, c', recs, _, _, _, h => by
    simp only [runFull, Option.some.injEq, Prod.mk.injEq] at h
    obtain ⟨_, rfl⟩ := h
    intro r hr
    cases hr
  | seg :: segs, n, c, first, c', recs, hem, hpre, hlen, h => by
    unfold runFull at h
    split at h
    · simp at h
    rename_i c1 rs hstep
    split at h
    · simp at h
    rename_i c2 rs2 hrun
    simp only [Option.some.injEq, Prod.mk.injEq] at h
    obtain ⟨_, rfl⟩ := h
    obtain ⟨c1', sp, hse, heq1, hts1, hns1, hcut⟩ := stepFull_emt hem hstep
    -- the specifications of this block
    unfold stepEmt at hse
    simp only at hse
    split at hse
    · simp at hse
    rename_i emt' specs hsp
    simp only [Option.some.injEq, Prod.mk.injEq] at hse
    obtain ⟨hc1', hspecs⟩ := hse
    subst hspecs
    have hle : ∀ s ∈ specs, SpecLe c.emt.npre c.emt.nsamp s :=
      emtSpecs_le (s := (append c seg first 0 (tp n).2 sg).emt) hpre hlen hsp
    have hnp1 : c1.emt.npre = c.emt.npre := by
      rw [heq1.2.2, ← hc1', trim_emt_eq]
      exact emtSpecs_npre hsp
    have ih := runFull_len_le zt tp sg segs (n + 1) c1 (first + seg.length) c2 rs2
      (by rw [hts1]; exact hem) (by rw [hnp1]; exact hpre) (by rw [hnp1, hns1]; exact hlen) hrun
    intro r hr
    rcases List.mem_append.mp hr with hr | hr
    · obtain ⟨s, hs, hc⟩ := cutSpecs_mem hcut r hr
      obtain ⟨b1, b2, b3⟩ := hle s hs
      obtain ⟨hl, hp⟩ := cut_len hc
      exact ⟨by rw [hl]; exact b3, by rw [hp]; exact b1, by rw [hp]; exact b2⟩
    · have := ih r hr
      rw [hns1, hnp1] at this
      exact this

/-! ### two arbitrary partitions -/

/-- a freshly configured edge-multi channel meets the safety invariant of `C08_no_oob` -/
theorem emtSafe_of_fresh {c : Chan} (hf : FreshC c) (hem : c.ts.edgeMulti = true) : EmtSafe c :=
  ⟨hf.hok.npre3, hf.hok.lt, hf.hok.zt4, hem, Or.inr hf.hbuf, Or.inl hf.hnext⟩

/-- **block independence of the records, two arbitrary partitions.**  A freshly configured edge-multi
channel fed the same stream cut in two different ways (non-empty lists of blocks of any lengths, empty
blocks allowed; any block stamps, any signedness flags): the two runs emit the same records — frames,
pre-trigger lengths, samples — in the same order.  (Both are compared with the single-block run, which
exists by `C08_no_oob`; hence the two-sided bound on the kink-fit oracle — the real fit moves a trigger by
−1, 0 or +1.) -/
theorem records_partition_independent (zt : ZT) (hzt : ∀ p, -1 ≤ zt p ∧ zt p ≤ 1) (tp tq : Nat → Int × Int)
    (n m : Nat) (f0 : Int) (hf0 : 0 ≤ f0) (sg sg' : Bool) (c : Chan) (hf : FreshC c)
    (hem : c.ts.edgeMulti = true) (seg₁ : List Nat) (segs₁ : List (List Nat)) (seg₂ : List Nat)
    (segs₂ : List (List Nat)) (hG : (seg₁ :: segs₁).flatten = (seg₂ :: segs₂).flatten)
    (c1 c2 : Chan) (r1 r2 : List Rec)
    (h1 : runFull zt tp sg n c f0 (seg₁ :: segs₁) = some (c1, r1))
    (h2 : runFull zt tq sg' m c f0 (seg₂ :: segs₂) = some (c2, r2)) :
    r1.map coreOf = r2.map coreOf := by
  obtain ⟨⟨c3, r3⟩, h3⟩ := C08.C08_no_oob zt hzt tp n f0 hf0 sg c (emtSafe_of_fresh hf hem)
    ⟨hf.hbuf, hf.hnext⟩ [(seg₁ :: segs₁).flatten]
  have hzt' : ∀ p, -1 ≤ zt p := fun p => (hzt p).1
  have e1 := C08.C08_records_block_independent zt hzt' tp tp n n f0 hf0 sg sg c hf hem seg₁ segs₁ c1 c3 r1 r3 h1 h3
  rw [hG] at h3
  have e2 := C08.C08_records_block_independent zt hzt' tq tp m n f0 hf0 sg' sg c hf hem seg₂ segs₂ c2 c3 r2 r3 h2 h3
  rw [e1, e2]

/-! ### from equal records to agreeing files -/

/-- what an LJH3 record holds besides its time stamp and its (redundant) length field:
first-rising-sample field, frame number, samples -/
def core3 (R : C05.R3) : Nat × Nat × List Nat := (R.frs, R.frame, R.samples)

/-- the LJH3 image of a record, time stamp left out, is a function of `coreOf` -/
def core3Of (x : Int × Int × List Nat) : Nat × Nat × List Nat :=
  (C05.twos 4 (x.2.1 + 1), C05.twos 8 x.1, x.2.2.map (· % 65536))

theorem map_core3 (recs : List Rec) :
    (recs.map fun r => C05.expect3 (toW3 r)).map core3 = (recs.map coreOf).map core3Of := by
  rw [List.map_map, List.map_map]
  rfl

theorem map_nsamp3 (recs : List Rec) :
    (recs.map fun r => C05.expect3 (toW3 r)).map (·.nsamp) = (recs.map coreOf).map (·.2.2.length) := by
  rw [List.map_map, List.map_map]
  rfl

theorem map_bytes3 (recs : List Rec) :
    (recs.map fun r => 24 + 2 * r.data.length) = (recs.map coreOf).map (fun x => 24 + 2 * x.2.2.length) := by
  rw [List.map_map]
  rfl

/-- **equal records, agreeing files.**  Two record lists with the same frames, pre-trigger lengths and
samples (`coreOf`; the time stamps may differ), each record shorter than 2^31 samples, written by two LJH3
writers (any headers, any batching, each active from START to STOP): either both lists are empty and
neither file exists, or both files exist, carry their headers, have bodies of the same length, and read
back — with the documented layout — to two record lists that agree, record by record, in the
first-rising-sample field, the frame number and the samples (`core3`), and in the length field. -/
theorem files_agree_of_cores (r1 r2 : List Rec) (hcore : r1.map coreOf = r2.map coreOf)
    (hlen : ∀ r ∈ r1, r.data.length < 2 ^ 31) (hdr₁ hdr₂ : C05.Bytes)
    (b₁ b₂ : List (List C05.W3)) (hb₁ : b₁.flatten = r1.map toW3) (hb₂ : b₂.flatten = r2.map toW3) :
    let fin₁ := C05.run (C05.fmt3 hdr₁) {} (fileOps b₁)
    let fin₂ := C05.run (C05.fmt3 hdr₂) {} (fileOps b₂)
    (r1 = [] → r2 = [] ∧ C05.fileOf fin₁ = none ∧ C05.fileOf fin₂ = none) ∧
    (r1 ≠ [] → ∃ file₁ file₂ recs₁ recs₂,
      C05.fileOf fin₁ = some file₁ ∧ C05.fileOf fin₂ = some file₂ ∧
      file₁.take hdr₁.length = hdr₁ ∧ file₂.take hdr₂.length = hdr₂ ∧
      C05.parseBody C05.parseLJH3 (file₁.drop hdr₁.length) = some recs₁ ∧
      C05.parseBody C05.parseLJH3 (file₂.drop hdr₂.length) = some recs₂ ∧
      recs₁.length = r1.length ∧
      recs₁.map core3 = recs₂.map core3 ∧
      recs₁.map (·.nsamp) = recs₂.map (·.nsamp) ∧
      file₁.length + hdr₂.length = file₂.length + hdr₁.length) := by
  have hlen2 : ∀ r ∈ r2, r.data.length < 2 ^ 31 := by
    intro r hr
    have hm : coreOf r ∈ r1.map coreOf := by rw [hcore]; exact List.mem_map_of_mem hr
    obtain ⟨r', hr', he⟩ := List.mem_map.mp hm
    have hd : r'.data = r.data := congrArg (·.2.2) he
    rw [← hd]
    exact hlen r' hr'
  have hnil : r1 = [] ↔ r2 = [] := by
    rw [← List.map_eq_nil_iff (f := coreOf) (l := r1), hcore, List.map_eq_nil_iff]
  obtain ⟨f1n, f1s⟩ := records_to_ljh3_file r1 hdr₁ hlen b₁ hb₁
  obtain ⟨f2n, f2s⟩ := records_to_ljh3_file r2 hdr₂ hlen2 b₂ hb₂
  simp only at f1n f1s f2n f2s ⊢
  refine ⟨fun h => ⟨hnil.mp h, f1n h, f2n (hnil.mp h)⟩, fun h => ?_⟩
  obtain ⟨file₁, hf1, ht1, hp1, hl1⟩ := f1s h
  obtain ⟨file₂, hf2, ht2, hp2, hl2⟩ := f2s (fun h' => h (hnil.mpr h'))
  refine ⟨file₁, file₂, _, _, hf1, hf2, ht1, ht2, hp1, hp2, by simp, ?_, ?_, ?_⟩
  · rw [map_core3, map_core3, hcore]
  · rw [map_nsamp3, map_nsamp3, hcore]
  · rw [hl1, hl2, map_bytes3, map_bytes3, hcore]
    omega

/-! ### the composition -/

/-- **The edge-multi records in the file do not depend on how the stream is cut into blocks.**

One channel in edge-multi mode, freshly configured (`FreshC`: empty buffer, scan position 0, lengths
satisfying the validity rule `3 ≤ npre < nsamp`, …), record length below 2^31.  The same stream is delivered
twice, cut into two different non-empty lists of blocks (any block lengths, empty blocks allowed; ANY block
time stamps and periods `tp`, `tq`, any signedness flags), every threshold / monotone count / record mode
and every kink-fit oracle with shifts in {−1, 0, +1}.  Each run's records go, in any batching, to an LJH3
writer that is active from START to STOP (headers `hdr₁`, `hdr₂`).  Then

* both runs exist (no index leaves the buffer: `C08_no_oob`);
* either neither run emits a record and neither file exists, or both files exist, carry their headers,
  have bodies of equal length, and read back with the documented LJH3 layout to record lists `recs₁`,
  `recs₂` with `recs₁.map core3 = recs₂.map core3` — record by record the same first-rising-sample field,
  frame number and samples — and the same length fields.

The `timeUs` field is not compared: it is computed from the block stamps `tp` / `tq`, which are unrelated
here. -/
theorem emt_file_block_independent (zt : ZT) (hzt : ∀ p, -1 ≤ zt p ∧ zt p ≤ 1) (tp tq : Nat → Int × Int)
    (n m : Nat) (f0 : Int) (hf0 : 0 ≤ f0) (sg sg' : Bool) (c : Chan) (hf : FreshC c)
    (hem : c.ts.edgeMulti = true) (hns : c.emt.nsamp < 2 ^ 31)
    (seg₁ : List Nat) (segs₁ : List (List Nat)) (seg₂ : List Nat) (segs₂ : List (List Nat))
    (hG : (seg₁ :: segs₁).flatten = (seg₂ :: segs₂).flatten) :
    ∃ c1 r1 c2 r2, runFull zt tp sg n c f0 (seg₁ :: segs₁) = some (c1, r1) ∧
      runFull zt tq sg' m c f0 (seg₂ :: segs₂) = some (c2, r2) ∧
      r1.map coreOf = r2.map coreOf ∧
      ∀ (hdr₁ hdr₂ : C05.Bytes) (b₁ b₂ : List (List C05.W3)),
        b₁.flatten = r1.map toW3 → b₂.flatten = r2.map toW3 →
        let fin₁ := C05.run (C05.fmt3 hdr₁) {} (fileOps b₁)
        let fin₂ := C05.run (C05.fmt3 hdr₂) {} (fileOps b₂)
        (r1 = [] → r2 = [] ∧ C05.fileOf fin₁ = none ∧ C05.fileOf fin₂ = none) ∧
        (r1 ≠ [] → ∃ file₁ file₂ recs₁ recs₂,
          C05.fileOf fin₁ = some file₁ ∧ C05.fileOf fin₂ = some file₂ ∧
          file₁.take hdr₁.length = hdr₁ ∧ file₂.take hdr₂.length = hdr₂ ∧
          C05.parseBody C05.parseLJH3 (file₁.drop hdr₁.length) = some recs₁ ∧
          C05.parseBody C05.parseLJH3 (file₂.drop hdr₂.length) = some recs₂ ∧
          recs₁.length = r1.length ∧
          recs₁.map core3 = recs₂.map core3 ∧
          recs₁.map (·.nsamp) = recs₂.map (·.nsamp) ∧
          file₁.length + hdr₂.length = file₂.length + hdr₁.length) := by
  have hs := emtSafe_of_fresh hf hem
  obtain ⟨⟨c1, r1⟩, h1⟩ := C08.C08_no_oob zt hzt tp n f0 hf0 sg c hs ⟨hf.hbuf, hf.hnext⟩ (seg₁ :: segs₁)
  obtain ⟨⟨c2, r2⟩, h2⟩ := C08.C08_no_oob zt hzt tq m f0 hf0 sg' c hs ⟨hf.hbuf, hf.hnext⟩ (seg₂ :: segs₂)
  have hcore := records_partition_independent zt hzt tp tq n m f0 hf0 sg sg' c hf hem seg₁ segs₁ seg₂ segs₂ hG
    c1 c2 r1 r2 h1 h2
  refine ⟨c1, r1, c2, r2, h1, h2, hcore, ?_⟩
  intro hdr₁ hdr₂ b₁ b₂ hb₁ hb₂
  have hpre : 0 ≤ c.emt.npre := by have := hf.hok.npre3; omega
  have hle : c.emt.npre ≤ c.emt.nsamp := by have := hf.hok.lt; omega
  have hlen : ∀ r ∈ r1, r.data.length < 2 ^ 31 := by
    intro r hr
    have := (runFull_len_le zt tp sg _ n c f0 c1 r1 hem hpre hle h1 r hr).1
    omega
  exact files_agree_of_cores r1 r2 hcore hlen hdr₁ hdr₂ b₁ b₂ hb₁ hb₂

/-- the hypotheses are met by an ordinary configuration and two different cuts of one 12-sample stream
(one of them with an empty block) -/
example :
    let c : Chan := { npre := 4, nsamp := 12, ts := { edgeMulti := true },
                      emt := { npre := 4, nsamp := 12, threshold := 100, nmonotone := 1, enableZT := true } }
    FreshC c ∧ c.ts.edgeMulti = true ∧ c.emt.nsamp < 2 ^ 31 ∧ (0 : Int) ≤ 1000 ∧
    (∀ p, -1 ≤ (fun _ : Int => (0 : Int)) p ∧ (fun _ : Int => (0 : Int)) p ≤ 1) ∧
    ([1, 2, 3] :: [[], [4, 5, 6, 7, 8, 9, 10, 11, 12]] : List (List Nat)).flatten =
      ([1, 2, 3, 4, 5, 6, 7] :: [[8, 9, 10, 11, 12]]).flatten :=
  ⟨⟨rfl, rfl, ⟨by decide, by decide, fun _ => by decide⟩⟩, rfl, by decide, by decide,
   fun _ => ⟨by show (-1 : Int) ≤ 0; decide, by show (0 : Int) ≤ 1; decide⟩, by decide⟩

/-! ### with consistent block stamps the time-stamp field agrees too -/

/-- the blocks `segs` (block numbers `n`, `n+1`, …; the first one starting `off` frames into the stream) are
stamped by ONE clock: frame period `P`, and the block that starts `k` frames into the stream carries the
time `T + P·k` -/
def Stamped (T P : Int) (tp : Nat → Int × Int) : Nat → Int → List (List Nat) → Prop
  | _, _, [] => True
  | n, off, seg :: segs => tp n = (T + P * off, P) ∧ Stamped T P tp (n + 1) (off + seg.length) segs

/-- the channel's time labels are those of the clock `(T, P)` anchored at frame `f0` (or nothing is
buffered yet, so the labels are not used) -/
def TimeInv (T P f0 : Int) (c : Chan) : Prop :=
  c.buf = [] ∨ (c.period = P ∧ c.t0 = T + P * (c.first - f0))

theorem trim_timeInv {T P f0 : Int} {c : Chan} (h : c.period = P ∧ c.t0 = T + P * (c.first - f0)) :
    TimeInv T P f0 (trim c) := by
  obtain ⟨hp, ht⟩ := h
  unfold trim
  simp only
  split
  · exact Or.inr ⟨hp, ht⟩
  · refine Or.inr ⟨hp, ?_⟩
    simp only [ht, hp]
    grind

/-- **record time stamps under one clock** (any trigger mode): when the blocks are stamped by one clock,
every record's time is the clock's time of its trigger frame, `T + P·(frame − f0)` — whatever the cut into
blocks -/
theorem runFull_times (zt : ZT) (tp : Nat → Int × Int) (sg : Bool) (T P f0 : Int) :
    ∀ (segs : List (List Nat)) (n : Nat) (c : Chan) (first : Int) (c' : Chan) (recs : List Rec),
      TimeInv T P f0 c → Stamped T P tp n (first - f0) segs →
      runFull zt tp sg n c first segs = some (c', recs) →
      ∀ r ∈ recs, r.time = T + P * (r.frame - f0)
  | [], n, c, first, c', recs, _, _, h => by
    simp only [runFull, Option.some.injEq, Prod.mk.injEq] at h
    obtain ⟨_, rfl⟩ := h
    intro r hr
    cases hr
  | seg :: segs, n, c, first, c', recs, hinv, hst, h => by
    obtain ⟨htp, hst'⟩ := hst
    unfold runFull at h
    split at h
    · simp at h
    rename_i c1 rs hstep
    split at h
    · simp at h
    rename_i c2 rs2 hrun
    simp only [Option.some.injEq, Prod.mk.injEq] at h
    obtain ⟨_, rfl⟩ := h
    unfold stepFull at hstep
    split at hstep
    · simp at hstep
    rename_i cc rr htd
    simp only [Option.some.injEq, Prod.mk.injEq] at hstep
    obtain ⟨hc1, hrr⟩ := hstep
    subst hrr
    rw [htp] at htd
    simp only at htd
    -- the appended channel carries the clock's labels
    have hca : (append c seg first (T + P * (first - f0)) P sg).period = P ∧
        (append c seg first (T + P * (first - f0)) P sg).t0 =
          T + P * ((append c seg first (T + P * (first - f0)) P sg).first - f0) := by
      refine ⟨rfl, ?_⟩
      simp only [append]
      rcases hinv with hb | ⟨hp, _⟩
      · rw [hb]; simp
      · rw [hp]; grind
    obtain ⟨hss, hcuts⟩ := triggerData_recs htd
    have hcc : cc.period = P ∧ cc.t0 = T + P * (cc.first - f0) := by
      obtain ⟨_, hf, ht, hp, _⟩ := hss
      rw [hp, ht, hf]
      exact hca
    have hinv1 : TimeInv T P f0 c1 := by rw [← hc1]; exact trim_timeInv hcc
    have hoff : first + (seg.length : Int) - f0 = first - f0 + (seg.length : Int) := by omega
    have ih := runFull_times zt tp sg T P f0 segs (n + 1) c1 (first + seg.length) c2 rs2 hinv1
      (by rw [hoff]; exact hst') hrun
    intro r hr
    rcases List.mem_append.mp hr with hr | hr
    · obtain ⟨i, p, k, hcut, _⟩ := hcuts r hr
      unfold cut at hcut
      split at hcut
      · simp at hcut
      · split at hcut
        · simp only [Option.some.injEq] at hcut
          subst hcut
          simp only [timeOf, hca.1, hca.2]
          grind
        · simp at hcut
    · exact ih r hr

/-- what the LJH3 writer is handed, as a function of (frame, pre-trigger length, samples) under the clock
`(T, P)` anchored at frame `f0` -/
def w3Of (T P f0 : Int) (x : Int × Int × List Nat) : C05.W3 :=
  { frs := x.2.1 + 1, frame := x.1, ts := (T + P * (x.1 - f0)).tdiv 1000, data := x.2.2 }

theorem map_toW3_of_times {T P f0 : Int} (recs : List Rec) (h : ∀ r ∈ recs, r.time = T + P * (r.frame - f0)) :
    recs.map toW3 = (recs.map coreOf).map (w3Of T P f0) := by
  rw [List.map_map]
  apply List.map_congr_left
  intro r hr
  simp only [Function.comp, toW3, w3Of, coreOf, h r hr]

/-- **With consistent block stamps the whole records agree.**  As `emt_file_block_independent`, and in
addition both runs' blocks are stamped by one clock (`Stamped T P`: frame period `P`, the block starting `k`
frames into the stream stamped `T + P·k` — what a source with a steady sample clock delivers).  Then the two
runs hand the SAME records to the writer (time stamps in µs included), and the two LJH3 files — any
headers, any batching — read back to the SAME record list, all fields. -/
theorem emt_file_block_independent_stamped (zt : ZT) (hzt : ∀ p, -1 ≤ zt p ∧ zt p ≤ 1)
    (tp tq : Nat → Int × Int) (n m : Nat) (f0 : Int) (hf0 : 0 ≤ f0) (sg sg' : Bool) (c : Chan) (hf : FreshC c)
    (hem : c.ts.edgeMulti = true) (hns : c.emt.nsamp < 2 ^ 31)
    (seg₁ : List Nat) (segs₁ : List (List Nat)) (seg₂ : List Nat) (segs₂ : List (List Nat))
    (hG : (seg₁ :: segs₁).flatten = (seg₂ :: segs₂).flatten) (T P : Int)
    (hst₁ : Stamped T P tp n 0 (seg₁ :: segs₁)) (hst₂ : Stamped T P tq m 0 (seg₂ :: segs₂)) :
    ∃ c1 r1 c2 r2, runFull zt tp sg n c f0 (seg₁ :: segs₁) = some (c1, r1) ∧
      runFull zt tq sg' m c f0 (seg₂ :: segs₂) = some (c2, r2) ∧
      r1.map toW3 = r2.map toW3 ∧
      ∀ (hdr₁ hdr₂ : C05.Bytes) (b₁ b₂ : List (List C05.W3)),
        b₁.flatten = r1.map toW3 → b₂.flatten = r2.map toW3 →
        let fin₁ := C05.run (C05.fmt3 hdr₁) {} (fileOps b₁)
        let fin₂ := C05.run (C05.fmt3 hdr₂) {} (fileOps b₂)
        (r1 = [] → r2 = [] ∧ C05.fileOf fin₁ = none ∧ C05.fileOf fin₂ = none) ∧
        (r1 ≠ [] → ∃ file₁ file₂ recs,
          C05.fileOf fin₁ = some file₁ ∧ C05.fileOf fin₂ = some file₂ ∧
          C05.parseBody C05.parseLJH3 (file₁.drop hdr₁.length) = some recs ∧
          C05.parseBody C05.parseLJH3 (file₂.drop hdr₂.length) = some recs ∧
          recs = (r1.map toW3).map C05.expect3) := by
  obtain ⟨c1, r1, c2, r2, h1, h2, hcore, hfiles⟩ := emt_file_block_independent zt hzt tp tq n m f0 hf0 sg sg' c hf hem
    hns seg₁ segs₁ seg₂ segs₂ hG
  have hz : f0 - f0 = 0 := by omega
  have ht1 := runFull_times zt tp sg T P f0 _ n c f0 c1 r1 (Or.inl hf.hbuf) (by rw [hz]; exact hst₁) h1
  have ht2 := runFull_times zt tq sg' T P f0 _ m c f0 c2 r2 (Or.inl hf.hbuf) (by rw [hz]; exact hst₂) h2
  have hw : r1.map toW3 = r2.map toW3 := by
    rw [map_toW3_of_times r1 ht1, map_toW3_of_times r2 ht2, hcore]
  refine ⟨c1, r1, c2, r2, h1, h2, hw, ?_⟩
  intro hdr₁ hdr₂ b₁ b₂ hb₁ hb₂
  have hpre : 0 ≤ c.emt.npre := by have := hf.hok.npre3; omega
  have hle : c.emt.npre ≤ c.emt.nsamp := by have := hf.hok.lt; omega
  have hlen1 : ∀ r ∈ r1, r.data.length < 2 ^ 31 := by
    intro r hr
    have := (runFull_len_le zt tp sg _ n c f0 c1 r1 hem hpre hle h1 r hr).1
    omega
  have hlen2 : ∀ r ∈ r2, r.data.length < 2 ^ 31 := by
    intro r hr
    have := (runFull_len_le zt tq sg' _ m c f0 c2 r2 hem hpre hle h2 r hr).1
    omega
  obtain ⟨f1n, f1s⟩ := records_to_ljh3_file r1 hdr₁ hlen1 b₁ hb₁
  obtain ⟨f2n, f2s⟩ := records_to_ljh3_file r2 hdr₂ hlen2 b₂ hb₂
  have hnil : r1 = [] ↔ r2 = [] := by
    rw [← List.map_eq_nil_iff (f := coreOf) (l := r1), hcore, List.map_eq_nil_iff]
  simp only at f1n f1s f2n f2s ⊢
  refine ⟨fun h => ⟨hnil.mp h, f1n h, f2n (hnil.mp h)⟩, fun h => ?_⟩
  obtain ⟨file₁, hf1, _, hp1, _⟩ := f1s h
  obtain ⟨file₂, hf2, _, hp2, _⟩ := f2s (fun h' => h (hnil.mpr h'))
  refine ⟨file₁, file₂, _, hf1, hf2, ?_, ?_, rfl⟩
  · rw [hp1, List.map_map]; rfl
  · rw [hp2, hw, List.map_map]; rfl

/-- one clock stamps two different cuts of a 12-sample stream consistently (period 1000 ns from time 5000):
the extra hypotheses of `emt_file_block_independent_stamped` are satisfiable together -/
example :
    let tp : Nat → Int × Int := fun k => if k = 0 then (5000, 1000) else if k = 1 then (8000, 1000) else (8000, 1000)
    let tq : Nat → Int × Int := fun k => if k = 0 then (5000, 1000) else (12000, 1000)
    Stamped 5000 1000 tp 0 0 ([1, 2, 3] :: [[], [4, 5, 6, 7, 8, 9, 10, 11, 12]]) ∧
    Stamped 5000 1000 tq 0 0 ([1, 2, 3, 4, 5, 6, 7] :: [[8, 9, 10, 11, 12]]) := by
  simp [Stamped]

/-! ### the same for the primaries the source publishes -/

/-- **Source level.**  Two runs of the source-level model `Pipe.runOps` (the model the correspondence
check compares with the real `ProcessSegments`), whatever their other channels and trigger brokers: in one
channel `j` receives the stream cut into the blocks `seg₁ :: segs₁`, in the other channel `j'` receives it
cut into `seg₂ :: segs₂`; both start as the same freshly configured edge-multi channel (record length below
2^31; kink-fit shifts in {−1, 0, +1}).  Then the PRIMARY records published for the channel in the two runs
agree (frames, pre-trigger lengths, samples), and the LJH3 files written over them agree as in
`emt_file_block_independent`.

RESTRICTION: the statement is about the channel's primary records (`(parts.map (·.1)).flatten`) — what the
channel's own trigger produces.  Secondary records (cut because ANOTHER channel of a trigger group fired)
depend on the other channels and are outside block independence of this channel; for a channel that is
receiver in no group they are absent and the primaries are all the channel publishes
(`chanRecs_of_no_secondaries`). -/
theorem emt_file_block_independent_source {j j' : Nat} {zts zts' : List (List (Int × Int))}
    (hz : zts[j]?.getD [] = zts'[j']?.getD [])
    (hzt : ∀ p, -1 ≤ ztOf (zts[j]?.getD []) p ∧ ztOf (zts[j]?.getD []) p ≤ 1)
    {sg sg' : Bool} {tp tq : Nat → Int × Int} {n m : Nat} {ops ops' : List Op} {f0 : Int} (hf0 : 0 ≤ f0)
    {seg₁ seg₂ : List Nat} {segs₁ segs₂ : List (List Nat)}
    (hG : (seg₁ :: segs₁).flatten = (seg₂ :: segs₂).flatten)
    {s s' : Src} {c : Chan} {outs outs' : List Out}
    (hb : BlocksFor j sg tp n f0 ops (seg₁ :: segs₁)) (hb' : BlocksFor j' sg' tq m f0 ops' (seg₂ :: segs₂))
    (hc : s.chans[j]? = some c) (hc' : s'.chans[j']? = some c) (hf : FreshC c) (hem : c.ts.edgeMulti = true)
    (hns : c.emt.nsamp < 2 ^ 31)
    (hrun : runOps zts s ops = some outs) (hrun' : runOps zts' s' ops' = some outs') :
    ∃ parts parts', OutsFor j outs parts ∧ OutsFor j' outs' parts' ∧
      let r1 := (parts.map (·.1)).flatten
      let r2 := (parts'.map (·.1)).flatten
      r1.map coreOf = r2.map coreOf ∧
      ∀ (hdr₁ hdr₂ : C05.Bytes) (b₁ b₂ : List (List C05.W3)),
        b₁.flatten = r1.map toW3 → b₂.flatten = r2.map toW3 →
        let fin₁ := C05.run (C05.fmt3 hdr₁) {} (fileOps b₁)
        let fin₂ := C05.run (C05.fmt3 hdr₂) {} (fileOps b₂)
        (r1 = [] → r2 = [] ∧ C05.fileOf fin₁ = none ∧ C05.fileOf fin₂ = none) ∧
        (r1 ≠ [] → ∃ file₁ file₂ recs₁ recs₂,
          C05.fileOf fin₁ = some file₁ ∧ C05.fileOf fin₂ = some file₂ ∧
          file₁.take hdr₁.length = hdr₁ ∧ file₂.take hdr₂.length = hdr₂ ∧
          C05.parseBody C05.parseLJH3 (file₁.drop hdr₁.length) = some recs₁ ∧
          C05.parseBody C05.parseLJH3 (file₂.drop hdr₂.length) = some recs₂ ∧
          recs₁.length = r1.length ∧
          recs₁.map core3 = recs₂.map core3 ∧
          recs₁.map (·.nsamp) = recs₂.map (·.nsamp) ∧
          file₁.length + hdr₂.length = file₂.length + hdr₁.length) := by
  obtain ⟨c1, r1, parts, hr1, ho1, he1⟩ := runOps_chan zts j sg tp ops n f0 (seg₁ :: segs₁) s c outs hb hc hrun
  obtain ⟨c2, r2, parts', hr2, ho2, he2⟩ := runOps_chan zts' j' sg' tq ops' m f0 (seg₂ :: segs₂) s' c outs' hb' hc' hrun'
  refine ⟨parts, parts', ho1, ho2, ?_⟩
  simp only
  rw [← he1, ← he2]
  rw [← hz] at hr2
  have hcore := records_partition_independent _ hzt tp tq n m f0 hf0 sg sg' c hf hem seg₁ segs₁ seg₂ segs₂ hG
    c1 c2 r1 r2 hr1 hr2
  refine ⟨hcore, ?_⟩
  intro hdr₁ hdr₂ b₁ b₂ hb₁ hb₂
  have hpre : 0 ≤ c.emt.npre := by have := hf.hok.npre3; omega
  have hle : c.emt.npre ≤ c.emt.nsamp := by have := hf.hok.lt; omega
  have hlen : ∀ r ∈ r1, r.data.length < 2 ^ 31 := by
    intro r hr
    have := (runFull_len_le _ tp sg _ n c f0 c1 r1 hem hpre hle hr1 r hr).1
    omega
  exact files_agree_of_cores r1 r2 hcore hlen hdr₁ hdr₂ b₁ b₂ hb₁ hb₂

theorem flatMap_no_secondaries : ∀ (parts : List (List Rec × List Rec)), (∀ pr ∈ parts, pr.2 = []) →
    (parts.flatMap fun pr => pr.1 ++ pr.2) = (parts.map (·.1)).flatten
  | [], _ => rfl
  | pr :: rest, h => by
    simp only [List.flatMap_cons, List.map_cons, List.flatten_cons]
    rw [h pr (by simp), List.append_nil, flatMap_no_secondaries rest (fun q hq => h q (by simp [hq]))]

/-- a channel that receives no secondary record publishes exactly its primaries -/
theorem chanRecs_of_no_secondaries (j : Nat) (outs : List Out) (parts : List (List Rec × List Rec))
    (ho : OutsFor j outs parts) (hsec : ∀ pr ∈ parts, pr.2 = []) :
    chanRecs j outs = (parts.map (·.1)).flatten := by
  rw [outsFor_chanRecs j outs parts ho]
  exact flatMap_no_secondaries parts hsec

end DastardV.Compose
