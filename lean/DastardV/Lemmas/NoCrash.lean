/-
C01, "no stream content or block pattern makes processing crash", for the whole source: every
channel's trigger pass succeeds (edge / level / auto: `triggerData_nonEMT_some`; edge-multi:
`emtSafe_step`), the broker does not index outside (`C09_no_oob`), and every secondary (group-trigger)
record can be cut, because every primary trigger frame of every channel has room for a record of the
configured lengths and all channels hold the same frame range.
-/
import DastardV.Lemmas.Pipe4
import DastardV.Lemmas.EmtSafe
import DastardV.Props.C09
namespace DastardV.Pipe
open Trig

/-! ### the two phases succeed when every channel does -/

theorem phase1_some (first t0 per : Int) :
    ∀ (cs : List Chan) (sg : List Bool) (ds : List (List Nat)) (zts : List (List (Int × Int))),
      ds.length = cs.length →
      (∀ (j : Nat) (c : Chan) (d : List Nat), cs[j]? = some c → ds[j]? = some d →
        ∃ r, triggerData (append c d first t0 per (sg[j]?.getD false)) (ztOf (zts[j]?.getD [])) = some r) →
      ∃ res, phase1 first t0 per cs sg ds zts = some res
  | [], _, _, _, _, _ => ⟨[], rfl⟩
  | c :: cs, sg, [], zts, hl, _ => by simp at hl
  | c :: cs, sg, d :: ds, zts, hl, h => by
    obtain ⟨r0, hr0⟩ := h 0 c d (by simp) (by simp)
    obtain ⟨rest, hrest⟩ := phase1_some first t0 per cs sg.tail ds zts.tail (by simpa using hl)
      (by
        intro j c' d' hc' hd'
        have := h (j + 1) c' d' (by simpa using hc') (by simpa using hd')
        rw [getElem?_tail', getElem?_tail']
        exact this)
    rw [← head?_getD, ← head?_getD] at hr0
    refine ⟨(r0.1, r0.2) :: rest, ?_⟩
    simp only [phase1, bind, pure, hr0, Option.bind_some, hrest]

/-- the secondary frame list the broker assigns to channel index `k` -/
def flOf (secMap : List (Nat × List Int)) (k : Nat) : List Int :=
  match secMap.find? (·.1 == k) with | some (_, f) => f | none => []

theorem phase2_some (secMap : List (Nat × List Int)) :
    ∀ (p1 : List (Chan × List Rec)) (idx : Nat),
      (∀ (j : Nat) (c : Chan) (prim : List Rec), p1[j]? = some (c, prim) →
        ∃ sec, secondaries c (flOf secMap (idx + j)) = some sec) →
      ∃ res, phase2 secMap p1 idx = some res
  | [], _, _ => ⟨[], rfl⟩
  | (c, prim) :: rest, idx, h => by
    obtain ⟨sec, hsec⟩ := h 0 c prim (by simp)
    obtain ⟨tl, htl⟩ := phase2_some secMap rest (idx + 1) (by
      intro j c' prim' hj
      have := h (j + 1) c' prim' (by simpa using hj)
      rw [show idx + 1 + j = idx + (j + 1) by omega]
      exact this)
    refine ⟨(trim c, prim ++ sec) :: tl, ?_⟩
    simp only [phase2, bind, pure]
    simp only [flOf, Nat.add_zero] at hsec
    cases hfind : List.find? (fun x => x.fst == idx) secMap with
    | none =>
      rw [hfind] at hsec
      simp only at hsec ⊢
      rw [hsec]
      simp only [Option.bind_some, htl]
    | some pr =>
      rw [hfind] at hsec
      simp only at hsec ⊢
      rw [hsec]
      simp only [Option.bind_some, htl]

/-! ### where primary triggers can lie -/

/-- frame `f` has room for a record of the channel's configured lengths inside its buffer -/
def FullRange (c : Chan) (f : Int) : Prop :=
  c.first + c.npre ≤ f ∧ f + (c.nsamp - c.npre) ≤ c.first + c.buf.length

/-- edge / level / auto: every primary trigger has room for its record -/
theorem triggerData_nonEMT_range {c c' : Chan} {zt : ZT} {recs : List Rec} (hv : ValidLen c)
    (hem : c.ts.edgeMulti = false) (h : triggerData c zt = some (c', recs)) :
    ∀ r ∈ recs, FullRange c r.frame := by
  obtain ⟨e, el, all, he, hel, hall, hframes, _⟩ := triggerData_nonEMT_idx hem h
  obtain ⟨e', he', hoff, hon⟩ := edgePass_spec c hv.1 (by obtain ⟨a, b⟩ := hv; omega) (by obtain ⟨a, b⟩ := hv; omega)
  have hee : e' = e := some_inj' (he'.symm.trans he)
  subst hee
  have hefound : FoundOK c (fpt c) e' ∧ ∀ x ∈ e', x < hiOf c := by
    by_cases hedge : c.ts.edge = true
    · have hs := hon hedge
      exact ⟨⟨fun t ht => (hs.range t ht).1, hs.spaced⟩, fun x hx => (hs.range x hx).2⟩
    · have : e' = [] := hoff (by simpa using hedge)
      subst this
      exact ⟨⟨by simp, by simp⟩, by simp⟩
  obtain ⟨hfo, her⟩ := hefound
  obtain ⟨el', hel', helr⟩ := levelPass_some hv hfo her
  have : el' = el := some_inj' (hel'.symm.trans hel)
  subst this
  obtain ⟨all', hall', hallr⟩ := autoPass_some hv helr
  have : all' = all := some_inj' (hall'.symm.trans hall)
  subst this
  intro r hr
  have hm : r.frame ∈ recs.map (·.frame) := List.mem_map.mpr ⟨r, hr, rfl⟩
  rw [hframes] at hm
  obtain ⟨x, hx, hxe⟩ := List.mem_map.mp hm
  have := hallr x hx
  unfold hiOf at this
  unfold FullRange
  rw [← hxe]
  constructor <;> omega

theorem secondaries_some {c : Chan} (hns : 0 ≤ c.nsamp) (fl : List Int) (h : ∀ f ∈ fl, FullRange c f) :
    ∃ sec, secondaries c fl = some sec := by
  unfold secondaries
  apply cutAll_some hns
  intro x hx
  obtain ⟨f, hf, rfl⟩ := List.mem_map.mp hx
  obtain ⟨h1, h2⟩ := h f hf
  exact ⟨by omega, by omega⟩

/-- what `triggerData` keeps -/
theorem triggerData_keep {c c' : Chan} {zt : ZT} {recs : List Rec} (h : triggerData c zt = some (c', recs)) :
    c'.buf = c.buf ∧ c'.first = c.first ∧ c'.npre = c.npre ∧ c'.nsamp = c.nsamp ∧ c'.ts = c.ts ∧
      c'.emt.nsamp = c.emt.nsamp ∧ c'.emt.npre = c.emt.npre := by
  obtain ⟨h1, h2, _, _, _, h6, h7, h8⟩ := (triggerData_recs h).1
  refine ⟨h1, h2, h6, h7, h8, ?_, ?_⟩
  all_goals
    unfold triggerData at h
    split at h
    · split at h
      · simp at h
      · rename_i emt' specs hsp
        split at h
        · simp at h
        · simp only [Option.some.injEq, Prod.mk.injEq] at h
          obtain ⟨hc, _⟩ := h
          subst hc
          simp only
          unfold emtSpecs at hsp
          simp only at hsp
          split at hsp
          · simp at hsp
          · simp only [Option.some.injEq, Prod.mk.injEq] at hsp
            obtain ⟨hs, _⟩ := hsp
            subst hs
            split <;> simp [EMT.reset]
    · split at h
      · simp at h
      · split at h
        · simp at h
        · split at h
          · simp at h
          · split at h
            · simp at h
            · split at h
              · simp at h
              · split at h
                · simp at h
                · simp only [Option.some.injEq, Prod.mk.injEq] at h
                  obtain ⟨hc, _⟩ := h
                  subst hc
                  rfl

/-! ### the source invariant -/

/-- every channel is safe on its own, all channels hold the same frame range and the same record
lengths, the broker invariant holds.  `F` = the frame the next block must start at once an
edge-multi channel is running. -/
structure SrcSafe (NP NS F : Int) (s : Src) : Prop where
  good : C09.Good s.broker
  bn : s.broker.n = s.chans.length
  valid : 3 ≤ NP ∧ NP < NS
  lens : ∃ L : Nat, ∀ c ∈ s.chans, c.buf.length = L
  cfg : ∀ c ∈ s.chans, c.npre = NP ∧ c.nsamp = NS ∧ c.emt.nsamp = NS
  emt : ∀ c ∈ s.chans, c.ts.edgeMulti = true →
    EmtSafe c ∧ c.emt.npre = NP ∧ (c.emt.next ≠ 0 → c.first + c.buf.length = F)

theorem trim_keep (c : Chan) : (trim c).npre = c.npre ∧ (trim c).nsamp = c.nsamp ∧ (trim c).emt = c.emt ∧
    (trim c).ts = c.ts := by
  unfold trim; simp only; split <;> exact ⟨rfl, rfl, rfl, rfl⟩

/-- where a frame may lie so that EVERY channel of the (aligned) source can cut a full record there -/
def FullG (NP NS first : Int) (L n : Nat) (f : Int) : Prop :=
  (first - L) + NP ≤ f ∧ f + (NS - NP) ≤ first + n

set_option maxHeartbeats 3200000 in
/-- **one block never crashes** and re-establishes the invariant -/
theorem opBlock_safe {NP NS F : Int} {s : Src} (hs : SrcSafe NP NS F s)
    (first t0 per : Int) (signed : List Bool) (data : List (List Nat)) (zts : List (List (Int × Int)))
    (hzt : ∀ (j : Nat) (p : Int), -1 ≤ ztOf (zts[j]?.getD []) p ∧ ztOf (zts[j]?.getD []) p ≤ 1)
    (hdl : data.length = s.chans.length) (n : Nat) (hdn : ∀ d ∈ data, d.length = n)
    (hf0 : 0 ≤ first)
    (hcont : first = F ∨ ∀ c ∈ s.chans, c.ts.edgeMulti = true → c.emt.next = 0) :
    ∃ s' rs, opBlock s first t0 per signed data zts = some (s', rs) ∧ SrcSafe NP NS (first + n) s' := by
  obtain ⟨hg, hbn, hv, ⟨L, hL⟩, hcfg, hemt⟩ := hs
  -- every channel on its own
  have PC : ∀ (j : Nat) (c : Chan) (d : List Nat), s.chans[j]? = some c → data[j]? = some d →
      ∃ c2 recs, triggerData (append c d first t0 per (signed[j]?.getD false)) (ztOf (zts[j]?.getD [])) = some (c2, recs) ∧
        (∀ r ∈ recs, FullG NP NS first L n r.frame) ∧
        c2.buf.length = L + n ∧ c2.first = first - L ∧ c2.npre = NP ∧ c2.nsamp = NS ∧ c2.emt.nsamp = NS ∧
        c2.ts = c.ts ∧
        (c.ts.edgeMulti = true → EmtSafe (trim c2) ∧ (trim c2).emt.npre = NP ∧ (trim c2).emt.next ≠ 0 ∧
          (trim c2).first + (trim c2).buf.length = first + n) := by
    intro j c d hc hd
    have hcm : c ∈ s.chans := List.mem_of_getElem? hc
    have hdm : d ∈ data := List.mem_of_getElem? hd
    have hdlen := hdn d hdm
    have hcl := hL c hcm
    obtain ⟨cnp, cns, cen⟩ := hcfg c hcm
    generalize hca : append c d first t0 per (signed[j]?.getD false) = ca
    have ca_len : ca.buf.length = L + n := by rw [← hca]; simp [append, hcl, hdlen]
    have ca_first : ca.first = first - L := by rw [← hca]; simp [append, hcl]
    have ca_npre : ca.npre = NP := by rw [← hca]; exact cnp
    have ca_nsamp : ca.nsamp = NS := by rw [← hca]; exact cns
    have ca_en : ca.emt.nsamp = NS := by rw [← hca]; exact cen
    have ca_emt : ca.emt = c.emt := by rw [← hca]; rfl
    have ca_ts : ca.ts = c.ts := by rw [← hca]; rfl
    by_cases hem : c.ts.edgeMulti = true
    · obtain ⟨hsafe, hnp, hF⟩ := hemt c hcm hem
      have hc' : (c.emt.next = 0 ∧ 0 ≤ first) ∨ (c.emt.next ≠ 0 ∧ first = c.first + c.buf.length) := by
        by_cases hn0 : c.emt.next = 0
        · exact Or.inl ⟨hn0, hf0⟩
        · right
          refine ⟨hn0, ?_⟩
          rcases hcont with h | h
          · rw [h]; exact (hF hn0).symm
          · exact absurd (h c hcm hem) hn0
      obtain ⟨c', recs, htd, hs', hnz, hend, hfr⟩ := emtSafe_step c (ztOf (zts[j]?.getD [])) (hzt j) hsafe d first t0 per
        (signed[j]?.getD false) hc'
      rw [hca] at htd
      obtain ⟨k1, k2, k3, k4, k5, k6, k7⟩ := triggerData_keep htd
      refine ⟨c', recs, htd, ?_, by rw [k1, ca_len], by rw [k2, ca_first], by rw [k3, ca_npre], by rw [k4, ca_nsamp],
        by rw [k6, ca_en], by rw [k5, ca_ts], ?_⟩
      · intro r hr
        have := hfr r hr
        rw [hnp, hcl, hdlen] at this
        have hen : c.emt.nsamp = NS := cen
        rw [hen] at this
        exact this
      · intro _
        refine ⟨hs', ?_, hnz, ?_⟩
        · rw [(trim_keep c').2.2.1, k7, ca_emt]; exact hnp
        · rw [hend, hdlen]
    · have hem' : c.ts.edgeMulti = false := by simpa using hem
      have hval : ValidLen ca := by unfold ValidLen; rw [ca_npre, ca_nsamp]; exact hv
      obtain ⟨c', recs, htd⟩ := triggerData_nonEMT_some ca (ztOf (zts[j]?.getD [])) hval (by rw [ca_ts]; exact hem')
      obtain ⟨k1, k2, k3, k4, k5, k6, k7⟩ := triggerData_keep htd
      have hrange := triggerData_nonEMT_range hval (by rw [ca_ts]; exact hem') htd
      refine ⟨c', recs, htd, ?_, by rw [k1, ca_len], by rw [k2, ca_first], by rw [k3, ca_npre], by rw [k4, ca_nsamp],
        by rw [k6, ca_en], by rw [k5, ca_ts], fun h => absurd h hem⟩
      intro r hr
      obtain ⟨h1, h2⟩ := hrange r hr
      rw [ca_first, ca_npre] at h1
      rw [ca_first, ca_npre, ca_nsamp, ca_len] at h2
      exact ⟨h1, by push_cast at h2; omega⟩
  -- phase 1
  obtain ⟨p1, hp1⟩ := phase1_some first t0 per s.chans signed data zts hdl (by
    intro j c d hc hd
    obtain ⟨c2, recs, htd, _⟩ := PC j c d hc hd
    exact ⟨_, htd⟩)
  obtain ⟨hl1, g1⟩ := phase1_get first t0 per s.chans signed data zts p1 hp1
  -- facts about the entries of p1
  have P1 : ∀ (j : Nat) (c2 : Chan) (recs : List Rec), p1[j]? = some (c2, recs) →
      ∃ c, s.chans[j]? = some c ∧ (∀ r ∈ recs, FullG NP NS first L n r.frame) ∧
        c2.buf.length = L + n ∧ c2.first = first - L ∧ c2.npre = NP ∧ c2.nsamp = NS ∧ c2.emt.nsamp = NS ∧
        c2.ts = c.ts ∧
        (c.ts.edgeMulti = true → EmtSafe (trim c2) ∧ (trim c2).emt.npre = NP ∧ (trim c2).emt.next ≠ 0 ∧
          (trim c2).first + (trim c2).buf.length = first + n) := by
    intro j c2 recs hj
    obtain ⟨c, d, hc, hd, htd⟩ := g1 j c2 recs hj
    obtain ⟨c2', recs', htd', rest⟩ := PC j c d hc hd
    have : (c2', recs') = (c2, recs) := by
      have := htd'.symm.trans htd
      simpa using this
    simp only [Prod.mk.injEq] at this
    obtain ⟨rfl, rfl⟩ := this
    exact ⟨c, hc, rest⟩
  -- the broker
  generalize hprim : (p1.map fun x => x.2.map (·.frame)) = prim
  have hpl : prim.length = s.broker.n := by rw [← hprim, hbn]; simp [hl1]
  have hnp := C09.C09_no_oob s.broker hg prim hpl
  have hb' := C09.distribute_conns s.broker prim
  -- frames in the secondary map are primary frames of some channel
  have hprimG : ∀ (k : Nat) (l : List Int), prim[k]? = some l → ∀ f ∈ l, FullG NP NS first L n f := by
    intro k l hk f hf
    rw [← hprim, List.getElem?_map] at hk
    cases hpk : p1[k]? with
    | none => simp [hpk] at hk
    | some pr =>
      obtain ⟨c2, recs⟩ := pr
      simp only [hpk, Option.map_some, Option.some.injEq] at hk
      subst hk
      obtain ⟨r, hr, rfl⟩ := List.mem_map.mp hf
      obtain ⟨_, _, hG, _⟩ := P1 k c2 recs hpk
      exact hG r hr
  have hsec : ∀ secMap, (C09.distribute s.broker prim).2 = C09.DistRes.ok secMap →
      ∀ (k : Nat), ∀ f ∈ flOf secMap k, FullG NP NS first L n f := by
    intro secMap hd k f hf
    by_cases hp0 : (prim.map List.length).sum = 0
    · -- no primaries at all: nothing is distributed
      have : secMap = [] := by
        unfold C09.distribute at hd
        simp only [hp0, true_or, if_true] at hd
        simpa using hd.symm
      subst this
      simp [flOf] at hf
    · obtain ⟨m, hm, hmem, _⟩ := C09.C09_distribute_exact s.broker hg prim hpl hp0
      have : m = secMap := by rw [hm] at hd; simpa using hd
      subst this
      unfold flOf at hf
      cases hfind : List.find? (fun x => x.1 == k) m with
      | none => rw [hfind] at hf; simp at hf
      | some pr =>
        obtain ⟨k', fr⟩ := pr
        rw [hfind] at hf
        simp only at hf
        have hin : (k', fr) ∈ m := List.mem_of_find?_eq_some hfind
        obtain ⟨_, _, hsame⟩ := hmem k' fr hin
        have hc1 : 0 < fr.count f := List.count_pos_iff.mpr hf
        rw [hsame f] at hc1
        have hfm := List.count_pos_iff.mp hc1
        obtain ⟨src, _, hfs⟩ := List.mem_flatMap.mp hfm
        cases hps : prim[src.toNat]? with
        | none => rw [hps] at hfs; simp at hfs
        | some l =>
          rw [hps] at hfs
          exact hprimG src.toNat l hps f hfs
  -- the distribution result
  cases hdist : (C09.distribute s.broker prim).2 with
  | panic => exact absurd hdist hnp
  | ok secMap =>
  -- phase 2
  obtain ⟨p2, hp2⟩ := phase2_some secMap p1 0 (by
    intro j c2 recs hj
    obtain ⟨c, _, _, hlen, hfirst, hnpre, hnsamp, _⟩ := P1 j c2 recs hj
    apply secondaries_some (by rw [hnsamp]; omega)
    intro f hf
    obtain ⟨h1, h2⟩ := hsec secMap hdist (0 + j) f hf
    unfold FullRange
    rw [hfirst, hnpre, hnsamp, hlen]
    push_cast
    constructor <;> omega)
  obtain ⟨hl2, g2⟩ := phase2_get secMap p1 0 p2 hp2
  refine ⟨{ s with chans := p2.map (·.1), broker := (C09.distribute s.broker prim).1 }, p2.map (·.2), ?_, ?_⟩
  · unfold opBlock
    simp only [bind, pure, ne_eq, hdl, not_true_eq_false, if_false, Option.bind_some, hp1]
    rw [hprim]
    have : C09.distribute s.broker prim = ((C09.distribute s.broker prim).1, C09.DistRes.ok secMap) := by
      rw [← hdist]
    rw [this]
    simp only [hp2, Option.bind_some]
  · -- the invariant afterwards
    have hchan : ∀ c' ∈ p2.map (·.1), ∃ (j : Nat) (c2 : Chan) (recs : List Rec) (c : Chan), p1[j]? = some (c2, recs) ∧ c' = trim c2 ∧ s.chans[j]? = some c ∧
        c2.buf.length = L + n ∧ c2.npre = NP ∧ c2.nsamp = NS ∧ c2.emt.nsamp = NS ∧ c2.ts = c.ts ∧
        (c.ts.edgeMulti = true → EmtSafe (trim c2) ∧ (trim c2).emt.npre = NP ∧ (trim c2).emt.next ≠ 0 ∧
          (trim c2).first + (trim c2).buf.length = first + n) := by
      intro c' hc'
      obtain ⟨pr, hpr, rfl⟩ := List.mem_map.mp hc'
      obtain ⟨j, hj⟩ := List.getElem?_of_mem hpr
      obtain ⟨c2, prim2, fl, sec, h1, _, h3, _⟩ := g2 j pr.1 pr.2 (by simpa using hj)
      obtain ⟨c, hc, _, hlen, _, hnpre, hnsamp, hen, hts, hE⟩ := P1 j c2 prim2 h1
      exact ⟨j, c2, prim2, c, h1, h3, hc, hlen, hnpre, hnsamp, hen, hts, hE⟩
    refine ⟨?_, ?_, hv, ?_, ?_, ?_⟩
    · rw [hb']
      exact ⟨hg.nodup, hg.count_eq, hg.inr⟩
    · rw [hb']
      simp only [List.length_map]
      rw [hl2, hl1]
      exact hbn
    · refine ⟨if ((L + n : Nat) : Int) ≤ 2 * NS + 10 then L + n else (2 * NS + 10).toNat, ?_⟩
      intro c' hc'
      obtain ⟨j, c2, recs, c, _, rfl, _, hlen, _, _, hen, _, _⟩ := hchan c' hc'
      obtain ⟨_, _, tcase⟩ := trim_cases c2 (by rw [hen]; omega)
      rw [hen, hlen] at tcase
      rcases tcase with ⟨_, tb, tl⟩ | ⟨_, tb, tl⟩
      · rw [if_pos tl, tb]
      · rw [if_neg (by omega)]
        omega
    · intro c' hc'
      obtain ⟨j, c2, recs, c, _, rfl, _, _, hnpre, hnsamp, hen, _, _⟩ := hchan c' hc'
      obtain ⟨t1, t2, t3, _⟩ := trim_keep c2
      exact ⟨by rw [t1, hnpre], by rw [t2, hnsamp], by rw [t3, hen]⟩
    · intro c' hc' hem
      obtain ⟨j, c2, recs, c, _, rfl, _, _, _, _, _, hts, hE⟩ := hchan c' hc'
      rw [(trim_keep c2).2.2.2, hts] at hem
      obtain ⟨e1, e2, e3, e4⟩ := hE hem
      exact ⟨e1, e2, fun _ => e4⟩

end DastardV.Pipe
