/-
C01, "no stream content or block pattern makes processing crash", for the whole source: every
channel's trigger pass succeeds (edge / level / auto: `triggerData_nonEMT_some`; edge-multi:
`emtSafe_step`), the broker does not index outside (`C09_no_oob`), and every secondary (group-trigger)
record can be cut, because every primary trigger frame of every channel has room for a record of the
configured lengths and all channels hold the same frame range.
-/
import DastardV.Lemmas.Pipe4
import DastardV.Lemmas.EmtSafe
import DastardV.Props.C09
namespace DastardV.Pipe
open Trig

/-! ### the two phases succeed when every channel does -/

theorem phase1_some (first t0 per : Int) :
    ∀ (cs : List Chan) (sg : List Bool) (ds : List (List Nat)) (zts : List (List (Int × Int))),
      ds.length = cs.length →
      (∀ (j : Nat) (c : Chan) (d : List Nat), cs[j]? = some c → ds[j]? = some d →
        ∃ r, triggerData (append c d first t0 per (sg[j]?.getD false)) (ztOf (zts[j]?.getD [])) = some r) →
      ∃ res, phase1 first t0 per cs sg ds zts = some res
  | [], _, _, _, _, _ => ⟨[], rfl⟩
  | c :: cs, sg, [], zts, hl, _ => by simp at hl
  | c :: cs, sg, d :: ds, zts, hl, h => by
    obtain ⟨r0, hr0⟩ := h 0 c d (by simp) (by simp)
    obtain ⟨rest, hrest⟩ := phase1_some first t0 per cs sg.tail ds zts.tail (by simpa using hl)
      (by
        intro j c' d' hc' hd'
        have := h (j + 1) c' d' (by simpa using hc') (by simpa using hd')
        rw [getElem?_tail', getElem?_tail']
        exact this)
    rw [← head?_getD, ← head?_getD] at hr0
    refine ⟨(r0.1, r0.2) :: rest, ?_⟩
    simp only [phase1, bind, pure, hr0, Option.bind_some, hrest]

/-- the secondary frame list the broker assigns to channel index `k` -/
def flOf (secMap : List (Nat × List Int)) (k : Nat) : List Int :=
  match secMap.find? (·.1 == k) with | some (_, f) => f | none => []

theorem phase2_some (secMap : List (Nat × List Int)) :
    ∀ (p1 : List (Chan × List Rec)) (idx : Nat),
      (∀ (j : Nat) (c : Chan) (prim : List Rec), p1[j]? = some (c, prim) →
        ∃ sec, secondaries c (flOf secMap (idx + j)) = some sec) →
      ∃ res, phase2 secMap p1 idx = some res
  | [], _, _ => ⟨[], rfl⟩
  | (c, prim) :: rest, idx, h => by
    obtain ⟨sec, hsec⟩ := h 0 c prim (by simp)
    obtain ⟨tl, htl⟩ := phase2_some secMap rest (idx + 1) (by
      intro j c' prim' hj
      have := h (j + 1) c' prim' (by simpa using hj)
      rw [show idx + 1 + j = idx + (j + 1) by omega]
      exact this)
    refine ⟨(trim c, prim ++ sec) :: tl, ?_⟩
    simp only [phase2, bind, pure]
    simp only [flOf, Nat.add_zero] at hsec
    cases hfind : List.find? (fun x => x.fst == idx) secMap with
    | none =>
      rw [hfind] at hsec
      simp only at hsec ⊢
      rw [hsec]
      simp only [Option.bind_some, htl]
    | some pr =>
      rw [hfind] at hsec
      simp only at hsec ⊢
      rw [hsec]
      simp only [Option.bind_some, htl]

/-! ### where primary triggers can lie -/

/-- frame `f` has room for a record of the channel's configured lengths inside its buffer -/
def FullRange (c : Chan) (f : Int) : Prop :=
  c.first + c.npre ≤ f ∧ f + (c.nsamp - c.npre) ≤ c.first + c.buf.length

/-- edge / level / auto: every primary trigger has room for its record -/
theorem triggerData_nonEMT_range {c c' : Chan} {zt : ZT} {recs : List Rec} (hv : ValidLen c)
    (hem : c.ts.edgeMulti = false) (h : triggerData c zt = some (c', recs)) :
    ∀ r ∈ recs, FullRange c r.frame := by
  obtain ⟨e, el, all, he, hel, hall, hframes, _⟩ := triggerData_nonEMT_idx hem h
  obtain ⟨e', he', hoff, hon⟩ := edgePass_spec c hv.1 (by obtain ⟨a, b⟩ := hv; omega) (by obtain ⟨a, b⟩ := hv; omega)
  have hee : e' = e := some_inj' (he'.symm.trans he)
  subst hee
  have hefound : FoundOK c (fpt c) e' ∧ ∀ x ∈ e', x < hiOf c := by
    by_cases hedge : c.ts.edge = true
    · have hs := hon hedge
      exact ⟨⟨fun t ht => (hs.range t ht).1, hs.spaced⟩, fun x hx => (hs.range x hx).2⟩
    · have : e' = [] := hoff (by simpa using hedge)
      subst this
      exact ⟨⟨by simp, by simp⟩, by simp⟩
  obtain ⟨hfo, her⟩ := hefound
  obtain ⟨el', hel', helr⟩ := levelPass_some hv hfo her
  have : el' = el := some_inj' (hel'.symm.trans hel)
  subst this
  obtain ⟨all', hall', hallr⟩ := autoPass_some hv helr
  have : all' = all := some_inj' (hall'.symm.trans hall)
  subst this
  intro r hr
  have hm : r.frame ∈ recs.map (·.frame) := List.mem_map.mpr ⟨r, hr, rfl⟩
  rw [hframes] at hm
  obtain ⟨x, hx, hxe⟩ := List.mem_map.mp hm
  have := hallr x hx
  unfold hiOf at this
  unfold FullRange
  rw [← hxe]
  constructor <;> omega

theorem secondaries_some {c : Chan} (hns : 0 ≤ c.nsamp) (fl : List Int) (h : ∀ f ∈ fl, FullRange c f) :
    ∃ sec, secondaries c fl = some sec := by
  unfold secondaries
  apply cutAll_some hns
  intro x hx
  obtain ⟨f, hf, rfl⟩ := List.mem_map.mp hx
  obtain ⟨h1, h2⟩ := h f hf
  exact ⟨by omega, by omega⟩

/-- what `triggerData` keeps -/
theorem triggerData_keep {c c' : Chan} {zt : ZT} {recs : List Rec} (h : triggerData c zt = some (c', recs)) :
    c'.buf = c.buf ∧ c'.first = c.first ∧ c'.npre = c.npre ∧ c'.nsamp = c.nsamp ∧ c'.ts = c.ts ∧
      c'.emt.nsamp = c.emt.nsamp ∧ c'.emt.npre = c.emt.npre := by
  obtain ⟨h1, h2, _, _, _, h6, h7, h8⟩ := (triggerData_recs h).1
  refine ⟨h1, h2, h6, h7, h8, ?_, ?_⟩
  all_goals
    unfold triggerData at h
    split at h
    · split at h
      · simp at h
      · rename_i emt' specs hsp
        split at h
        · simp at h
        · simp only [Option.some.injEq, Prod.mk.injEq] at h
          obtain ⟨hc, _⟩ := h
          subst hc
          simp only
          unfold emtSpecs at hsp
          simp only at hsp
          split at hsp
          · simp at hsp
          · simp only [Option.some.injEq, Prod.mk.injEq] at hsp
            obtain ⟨hs, _⟩ := hsp
            subst hs
            split <;> simp [EMT.reset]
    · split at h
      · simp at h
      · split at h
        · simp at h
        · split at h
          · simp at h
          · split at h
            · simp at h
            · split at h
              · simp at h
              · split at h
                · simp at h
                · simp only [Option.some.injEq, Prod.mk.injEq] at h
                  obtain ⟨hc, _⟩ := h
                  subst hc
                  rfl

/-! ### the source invariant -/

/-- every channel is safe on its own, all channels hold the same frame range and the same record
lengths, the broker invariant holds.  `F` = the frame the next block must start at once an
edge-multi channel is running. -/
structure SrcSafe (NP NS F : Int) (s : Src) : Prop where
  good : C09.Good s.broker
  bn : s.broker.n = s.chans.length
  valid : 3 ≤ NP ∧ NP < NS
  lens : ∃ L : Nat, ∀ c ∈ s.chans, c.buf.length = L
  cfg : ∀ c ∈ s.chans, c.npre = NP ∧ c.nsamp = NS ∧ c.emt.nsamp = NS
  firsts : ∀ c ∈ s.chans, c.buf = [] ∨ (0 ≤ c.first ∧ c.first + c.buf.length = F)
  emt : ∀ c ∈ s.chans, c.ts.edgeMulti = true →
    EmtSafe c ∧ c.emt.npre = NP ∧ (c.emt.next ≠ 0 → c.first + c.buf.length = F)

theorem trim_keep (c : Chan) : (trim c).npre = c.npre ∧ (trim c).nsamp = c.nsamp ∧ (trim c).emt = c.emt ∧
    (trim c).ts = c.ts := by
  unfold trim; simp only; split <;> exact ⟨rfl, rfl, rfl, rfl⟩

/-- where a frame may lie so that EVERY channel of the (aligned) source can cut a full record there -/
def FullG (NP NS first : Int) (L n : Nat) (f : Int) : Prop :=
  (first - L) + NP ≤ f ∧ f + (NS - NP) ≤ first + n

set_option maxHeartbeats 3200000 in
/-- **one block never crashes** and re-establishes the invariant -/
theorem opBlock_safe {NP NS F : Int} {s : Src} (hs : SrcSafe NP NS F s)
    (first t0 per : Int) (signed : List Bool) (data : List (List Nat)) (zts : List (List (Int × Int)))
    (hzt : ∀ (j : Nat) (p : Int), -1 ≤ ztOf (zts[j]?.getD []) p ∧ ztOf (zts[j]?.getD []) p ≤ 1)
    (hdl : data.length = s.chans.length) (n : Nat) (hdn : ∀ d ∈ data, d.length = n)
    (hf0 : 0 ≤ first)
    (hcont : first = F ∨ ∀ c ∈ s.chans, c.buf = [] ∧ (c.ts.edgeMulti = true → c.emt.next = 0)) :
    ∃ s' rs, opBlock s first t0 per signed data zts = some (s', rs) ∧ SrcSafe NP NS (first + n) s' ∧
      s'.chans.length = s.chans.length := by
  obtain ⟨hg, hbn, hv, ⟨L, hL⟩, hcfg, hfirsts, hemt⟩ := hs
  -- every channel on its own
  have PC : ∀ (j : Nat) (c : Chan) (d : List Nat), s.chans[j]? = some c → data[j]? = some d →
      ∃ c2 recs, triggerData (append c d first t0 per (signed[j]?.getD false)) (ztOf (zts[j]?.getD [])) = some (c2, recs) ∧
        (∀ r ∈ recs, FullG NP NS first L n r.frame) ∧
        c2.buf.length = L + n ∧ c2.first = first - L ∧ c2.npre = NP ∧ c2.nsamp = NS ∧ c2.emt.nsamp = NS ∧
        c2.ts = c.ts ∧ 0 ≤ first - (L : Int) ∧
        (c.ts.edgeMulti = true → EmtSafe (trim c2) ∧ (trim c2).emt.npre = NP ∧ (trim c2).emt.next ≠ 0 ∧
          (trim c2).first + (trim c2).buf.length = first + n) := by
    intro j c d hc hd
    have hcm : c ∈ s.chans := List.mem_of_getElem? hc
    have hfL : 0 ≤ first - (L : Int) := by
      have hcl := hL c hcm
      rcases hfirsts c hcm with hb | ⟨h1, h2⟩
      · rw [hb] at hcl; simp at hcl; omega
      · rcases hcont with h | h
        · omega
        · have := (h c hcm).1; rw [this] at hcl; simp at hcl; omega
    have hdm : d ∈ data := List.mem_of_getElem? hd
    have hdlen := hdn d hdm
    have hcl := hL c hcm
    obtain ⟨cnp, cns, cen⟩ := hcfg c hcm
    generalize hca : append c d first t0 per (signed[j]?.getD false) = ca
    have ca_len : ca.buf.length = L + n := by rw [← hca]; simp [append, hcl, hdlen]
    have ca_first : ca.first = first - L := by rw [← hca]; simp [append, hcl]
    have ca_npre : ca.npre = NP := by rw [← hca]; exact cnp
    have ca_nsamp : ca.nsamp = NS := by rw [← hca]; exact cns
    have ca_en : ca.emt.nsamp = NS := by rw [← hca]; exact cen
    have ca_emt : ca.emt = c.emt := by rw [← hca]; rfl
    have ca_ts : ca.ts = c.ts := by rw [← hca]; rfl
    by_cases hem : c.ts.edgeMulti = true
    · obtain ⟨hsafe, hnp, hF⟩ := hemt c hcm hem
      have hc' : (c.emt.next = 0 ∧ 0 ≤ first - c.buf.length) ∨ (c.emt.next ≠ 0 ∧ first = c.first + c.buf.length) := by
        by_cases hn0 : c.emt.next = 0
        · exact Or.inl ⟨hn0, by rw [hcl]; exact hfL⟩
        · right
          refine ⟨hn0, ?_⟩
          rcases hcont with h | h
          · rw [h]; exact (hF hn0).symm
          · exact absurd ((h c hcm).2 hem) hn0
      obtain ⟨c', recs, htd, hs', hnz, hend, hfr⟩ := emtSafe_step c (ztOf (zts[j]?.getD [])) (hzt j) hsafe d first t0 per
        (signed[j]?.getD false) hc'
      rw [hca] at htd
      obtain ⟨k1, k2, k3, k4, k5, k6, k7⟩ := triggerData_keep htd
      refine ⟨c', recs, htd, ?_, by rw [k1, ca_len], by rw [k2, ca_first], by rw [k3, ca_npre], by rw [k4, ca_nsamp],
        by rw [k6, ca_en], by rw [k5, ca_ts], hfL, ?_⟩
      · intro r hr
        have := hfr r hr
        rw [hnp, hcl, hdlen] at this
        have hen : c.emt.nsamp = NS := cen
        rw [hen] at this
        exact this
      · intro _
        refine ⟨hs', ?_, hnz, ?_⟩
        · rw [(trim_keep c').2.2.1, k7, ca_emt]; exact hnp
        · rw [hend, hdlen]
    · have hem' : c.ts.edgeMulti = false := by simpa using hem
      have hval : ValidLen ca := by unfold ValidLen; rw [ca_npre, ca_nsamp]; exact hv
      obtain ⟨c', recs, htd⟩ := triggerData_nonEMT_some ca (ztOf (zts[j]?.getD [])) hval (by rw [ca_ts]; exact hem')
      obtain ⟨k1, k2, k3, k4, k5, k6, k7⟩ := triggerData_keep htd
      have hrange := triggerData_nonEMT_range hval (by rw [ca_ts]; exact hem') htd
      refine ⟨c', recs, htd, ?_, by rw [k1, ca_len], by rw [k2, ca_first], by rw [k3, ca_npre], by rw [k4, ca_nsamp],
        by rw [k6, ca_en], by rw [k5, ca_ts], hfL, fun h => absurd h hem⟩
      intro r hr
      obtain ⟨h1, h2⟩ := hrange r hr
      rw [ca_first, ca_npre] at h1
      rw [ca_first, ca_npre, ca_nsamp, ca_len] at h2
      exact ⟨h1, by push_cast at h2; omega⟩
  -- phase 1
  obtain ⟨p1, hp1⟩ := phase1_some first t0 per s.chans signed data zts hdl (by
    intro j c d hc hd
    obtain ⟨c2, recs, htd, _⟩ := PC j c d hc hd
    exact ⟨_, htd⟩)
  obtain ⟨hl1, g1⟩ := phase1_get first t0 per s.chans signed data zts p1 hp1
  -- facts about the entries of p1
  have P1 : ∀ (j : Nat) (c2 : Chan) (recs : List Rec), p1[j]? = some (c2, recs) →
      ∃ c, s.chans[j]? = some c ∧ (∀ r ∈ recs, FullG NP NS first L n r.frame) ∧
        c2.buf.length = L + n ∧ c2.first = first - L ∧ c2.npre = NP ∧ c2.nsamp = NS ∧ c2.emt.nsamp = NS ∧
        c2.ts = c.ts ∧ 0 ≤ first - (L : Int) ∧
        (c.ts.edgeMulti = true → EmtSafe (trim c2) ∧ (trim c2).emt.npre = NP ∧ (trim c2).emt.next ≠ 0 ∧
          (trim c2).first + (trim c2).buf.length = first + n) := by
    intro j c2 recs hj
    obtain ⟨c, d, hc, hd, htd⟩ := g1 j c2 recs hj
    obtain ⟨c2', recs', htd', rest⟩ := PC j c d hc hd
    have : (c2', recs') = (c2, recs) := by
      have := htd'.symm.trans htd
      simpa using this
    simp only [Prod.mk.injEq] at this
    obtain ⟨rfl, rfl⟩ := this
    exact ⟨c, hc, rest⟩
  -- the broker
  generalize hprim : (p1.map fun x => x.2.map (·.frame)) = prim
  have hpl : prim.length = s.broker.n := by rw [← hprim, hbn]; simp [hl1]
  have hnp := C09.C09_no_oob s.broker hg prim hpl
  have hb' := C09.distribute_conns s.broker prim
  -- frames in the secondary map are primary frames of some channel
  have hprimG : ∀ (k : Nat) (l : List Int), prim[k]? = some l → ∀ f ∈ l, FullG NP NS first L n f := by
    intro k l hk f hf
    rw [← hprim, List.getElem?_map] at hk
    cases hpk : p1[k]? with
    | none => simp [hpk] at hk
    | some pr =>
      obtain ⟨c2, recs⟩ := pr
      simp only [hpk, Option.map_some, Option.some.injEq] at hk
      subst hk
      obtain ⟨r, hr, rfl⟩ := List.mem_map.mp hf
      obtain ⟨_, _, hG, _⟩ := P1 k c2 recs hpk
      exact hG r hr
  have hsec : ∀ secMap, (C09.distribute s.broker prim).2 = C09.DistRes.ok secMap →
      ∀ (k : Nat), ∀ f ∈ flOf secMap k, FullG NP NS first L n f := by
    intro secMap hd k f hf
    by_cases hp0 : (prim.map List.length).sum = 0
    · -- no primaries at all: nothing is distributed
      have : secMap = [] := by
        unfold C09.distribute at hd
        simp only [hp0, true_or, if_true] at hd
        simpa using hd.symm
      subst this
      simp [flOf] at hf
    · obtain ⟨m, hm, hmem, _⟩ := C09.C09_distribute_exact s.broker hg prim hpl hp0
      have : m = secMap := by rw [hm] at hd; simpa using hd
      subst this
      unfold flOf at hf
      cases hfind : List.find? (fun x => x.1 == k) m with
      | none => rw [hfind] at hf; simp at hf
      | some pr =>
        obtain ⟨k', fr⟩ := pr
        rw [hfind] at hf
        simp only at hf
        have hin : (k', fr) ∈ m := List.mem_of_find?_eq_some hfind
        obtain ⟨_, _, hsame⟩ := hmem k' fr hin
        have hc1 : 0 < fr.count f := List.count_pos_iff.mpr hf
        rw [hsame f] at hc1
        have hfm := List.count_pos_iff.mp hc1
        obtain ⟨src, _, hfs⟩ := List.mem_flatMap.mp hfm
        cases hps : prim[src.toNat]? with
        | none => rw [hps] at hfs; simp at hfs
        | some l =>
          rw [hps] at hfs
          exact hprimG src.toNat l hps f hfs
  -- the distribution result
  cases hdist : (C09.distribute s.broker prim).2 with
  | panic => exact absurd hdist hnp
  | ok secMap =>
  -- phase 2
  obtain ⟨p2, hp2⟩ := phase2_some secMap p1 0 (by
    intro j c2 recs hj
    obtain ⟨c, _, _, hlen, hfirst, hnpre, hnsamp, _⟩ := P1 j c2 recs hj
    apply secondaries_some (by rw [hnsamp]; omega)
    intro f hf
    obtain ⟨h1, h2⟩ := hsec secMap hdist (0 + j) f hf
    unfold FullRange
    rw [hfirst, hnpre, hnsamp, hlen]
    push_cast
    constructor <;> omega)
  obtain ⟨hl2, g2⟩ := phase2_get secMap p1 0 p2 hp2
  refine ⟨{ s with chans := p2.map (·.1), broker := (C09.distribute s.broker prim).1 }, p2.map (·.2), ?_, ?_⟩
  · unfold opBlock
    simp only [bind, pure, ne_eq, hdl, not_true_eq_false, if_false, Option.bind_some, hp1]
    rw [hprim]
    have : C09.distribute s.broker prim = ((C09.distribute s.broker prim).1, C09.DistRes.ok secMap) := by
      rw [← hdist]
    rw [this]
    simp only [hp2, Option.bind_some]
  · -- the invariant afterwards
    have hchan : ∀ c' ∈ p2.map (·.1), ∃ (j : Nat) (c2 : Chan) (recs : List Rec) (c : Chan), p1[j]? = some (c2, recs) ∧ c' = trim c2 ∧ s.chans[j]? = some c ∧
        c2.buf.length = L + n ∧ c2.npre = NP ∧ c2.nsamp = NS ∧ c2.emt.nsamp = NS ∧ c2.ts = c.ts ∧
        c2.first = first - L ∧ 0 ≤ first - (L : Int) ∧
        (c.ts.edgeMulti = true → EmtSafe (trim c2) ∧ (trim c2).emt.npre = NP ∧ (trim c2).emt.next ≠ 0 ∧
          (trim c2).first + (trim c2).buf.length = first + n) := by
      intro c' hc'
      obtain ⟨pr, hpr, rfl⟩ := List.mem_map.mp hc'
      obtain ⟨j, hj⟩ := List.getElem?_of_mem hpr
      obtain ⟨c2, prim2, fl, sec, h1, _, h3, _⟩ := g2 j pr.1 pr.2 (by simpa using hj)
      obtain ⟨c, hc, _, hlen, hfirst, hnpre, hnsamp, hen, hts, hfl, hE⟩ := P1 j c2 prim2 h1
      exact ⟨j, c2, prim2, c, h1, h3, hc, hlen, hnpre, hnsamp, hen, hts, hfirst, hfl, hE⟩
    refine ⟨⟨?_, ?_, hv, ?_, ?_, ?_, ?_⟩, by simp [hl2, hl1]⟩
    · rw [hb']
      exact ⟨hg.nodup, hg.count_eq, hg.inr⟩
    · rw [hb']
      simp only [List.length_map]
      rw [hl2, hl1]
      exact hbn
    · refine ⟨if ((L + n : Nat) : Int) ≤ 2 * NS + 10 then L + n else (2 * NS + 10).toNat, ?_⟩
      intro c' hc'
      obtain ⟨j, c2, recs, c, _, rfl, _, hlen, _, _, hen, _, _, _, _⟩ := hchan c' hc'
      obtain ⟨_, _, tcase⟩ := trim_cases c2 (by rw [hen]; omega)
      rw [hen, hlen] at tcase
      rcases tcase with ⟨_, tb, tl⟩ | ⟨_, tb, tl⟩
      · rw [if_pos tl, tb]
      · rw [if_neg (by omega)]
        omega
    · intro c' hc'
      obtain ⟨j, c2, recs, c, _, rfl, _, _, hnpre, hnsamp, hen, _, _, _, _⟩ := hchan c' hc'
      obtain ⟨t1, t2, t3, _⟩ := trim_keep c2
      exact ⟨by rw [t1, hnpre], by rw [t2, hnsamp], by rw [t3, hen]⟩
    · intro c' hc'
      obtain ⟨j, c2, recs, c, _, rfl, _, hlen, _, _, hen, _, hfirst, hfl, _⟩ := hchan c' hc'
      obtain ⟨_, _, tcase⟩ := trim_cases c2 (by rw [hen]; omega)
      rw [hen, hlen, hfirst] at tcase
      right
      rcases tcase with ⟨tf, tb, tl⟩ | ⟨tf, tb, tl⟩
      · rw [tf, tb]; push_cast; constructor <;> omega
      · rw [tf]; push_cast at tb tl ⊢; constructor <;> omega
    · intro c' hc' hem
      obtain ⟨j, c2, recs, c, _, rfl, _, _, _, _, _, hts, _, _, hE⟩ := hchan c' hc'
      rw [(trim_keep c2).2.2.2, hts] at hem
      obtain ⟨e1, e2, e3, e4⟩ := hE hem
      exact ⟨e1, e2, fun _ => e4⟩

/-! ### control requests keep the invariant -/

/-- what the invariant says about one channel -/
structure ChanSafe (NP NS F : Int) (L : Nat) (c : Chan) : Prop where
  len : c.buf.length = L
  cfg : c.npre = NP ∧ c.nsamp = NS ∧ c.emt.nsamp = NS
  firsts : c.buf = [] ∨ (0 ≤ c.first ∧ c.first + c.buf.length = F)
  emt : c.ts.edgeMulti = true → EmtSafe c ∧ c.emt.npre = NP ∧ (c.emt.next ≠ 0 → c.first + c.buf.length = F)

theorem srcSafe_iff {NP NS F : Int} {s : Src} :
    SrcSafe NP NS F s ↔ (C09.Good s.broker ∧ s.broker.n = s.chans.length ∧ (3 ≤ NP ∧ NP < NS) ∧
      ∃ L, ∀ c ∈ s.chans, ChanSafe NP NS F L c) := by
  constructor
  · rintro ⟨h1, h2, h3, ⟨L, h4⟩, h5, h6, h7⟩
    exact ⟨h1, h2, h3, L, fun c hc => ⟨h4 c hc, h5 c hc, h6 c hc, h7 c hc⟩⟩
  · rintro ⟨h1, h2, h3, L, h⟩
    exact ⟨h1, h2, h3, ⟨L, fun c hc => (h c hc).len⟩, fun c hc => (h c hc).cfg, fun c hc => (h c hc).firsts,
      fun c hc => (h c hc).emt⟩

/-- `ConfigureTrigger` on one channel keeps it safe: an accepted edge-multi request has passed the
validity rule, and the search restarts (`next = 0`) -/
theorem configureTrigger_safe {NP NS F : Int} {L : Nat} (hv : 3 ≤ NP ∧ NP < NS) {c : Chan} (ts : TS) (emt : EMT)
    (h : ChanSafe NP NS F L c) : ChanSafe NP NS F L (configureTrigger c ts emt).1 := by
  obtain ⟨hl, ⟨h1, h2, h3⟩, hf, he⟩ := h
  unfold configureTrigger
  simp only
  split
  · exact ⟨hl, ⟨h1, h2, h3⟩, hf, he⟩
  · rename_i hguard
    refine ⟨hl, ⟨h1, h2, by simp [EMT.reset, h2]⟩, hf, ?_⟩
    intro hem
    simp only at hem
    have hvalid : ({ emt with nsamp := c.nsamp, npre := c.npre } : EMT).valid = true := by
      simp only [hem, Bool.true_and, Bool.not_eq_true', Bool.not_eq_false] at hguard
      exact hguard
    unfold EMT.valid at hvalid
    simp only [Bool.and_eq_true, Bool.not_eq_true', Bool.and_eq_false_iff, decide_eq_false_iff_not, decide_eq_true_eq] at hvalid
    obtain ⟨⟨hz1, hz2⟩, _⟩ := hvalid
    refine ⟨⟨by simp [EMT.reset, h1]; omega, by simp [EMT.reset, h1, h2]; omega, ?_, hem, ?_, Or.inl (by simp [EMT.reset])⟩,
      by simp [EMT.reset, h1], fun hn => absurd (by simp [EMT.reset]) hn⟩
    · intro hzt
      simp only [EMT.reset] at hzt ⊢
      rcases hz1 with hz1 | hz1
      · rw [hz1] at hzt; cases hzt
      · rcases hz2 with hz2 | hz2
        · rw [hz2] at hzt; cases hzt
        · omega
    · rcases hf with hf | hf
      · exact Or.inr hf
      · exact Or.inl hf.1

theorem modifyChan_mem {cs : List Chan} {i : Nat} {f : Chan → Chan} {c' : Chan} (h : c' ∈ modifyChan cs i f) :
    ∃ c ∈ cs, c' = c ∨ c' = f c := by
  unfold modifyChan at h
  obtain ⟨j, hj⟩ := List.getElem?_of_mem h
  simp only [List.getElem?_mapIdx] at hj
  cases hcs : cs[j]? with
  | none => simp [hcs] at hj
  | some c =>
    simp only [hcs, Option.map_some, Option.some.injEq] at hj
    refine ⟨c, List.mem_of_getElem? hcs, ?_⟩
    split at hj
    · exact Or.inr hj.symm
    · exact Or.inl hj.symm

theorem changeTrig_go_safe (ts : TS) (emt : EMT) (Q : Chan → Prop)
    (hQ : ∀ c, Q c → Q (configureTrigger c ts emt).1) :
    ∀ (idxs : List Int) (cs : List Chan), (∀ i ∈ idxs, 0 ≤ i ∧ i < (cs.length : Int)) → (∀ c ∈ cs, Q c) →
      ∃ cs' e, changeTrig.go ts emt cs idxs = some (cs', e) ∧ cs'.length = cs.length ∧ ∀ c ∈ cs', Q c
  | [], cs, _, hq => ⟨cs, false, by simp [changeTrig.go], rfl, hq⟩
  | i :: rest, cs, hi, hq => by
    obtain ⟨hi0, hi1⟩ := hi i (by simp)
    have hlt : i.toNat < cs.length := by omega
    have hget : cs[i.toNat]? = some cs[i.toNat] := List.getElem?_eq_getElem hlt
    have hq' : ∀ c ∈ modifyChan cs i.toNat (fun _ => (configureTrigger cs[i.toNat] ts emt).1), Q c := by
      intro c' hc'
      obtain ⟨c, hc, h | h⟩ := modifyChan_mem hc'
      · rw [h]; exact hq c hc
      · rw [h]; exact hQ _ (hq _ (List.getElem_mem hlt))
    have hlen' : (modifyChan cs i.toNat (fun _ => (configureTrigger cs[i.toNat] ts emt).1)).length = cs.length := by
      simp [modifyChan]
    unfold changeTrig.go
    have hneg : ¬ i < 0 := by omega
    simp only [hneg, if_false, hget]
    split
    · exact ⟨_, true, rfl, hlen', hq'⟩
    · obtain ⟨cs', e, h1, h2, h3⟩ := changeTrig_go_safe ts emt Q hQ rest _
        (by intro k hk; have := hi k (List.mem_cons_of_mem _ hk); rw [hlen']; exact this) hq'
      exact ⟨cs', e, h1, by rw [h2, hlen'], h3⟩

theorem changeTrig_safe (ts : TS) (emt : EMT) (Q : Chan → Prop)
    (hQ : ∀ c, Q c → Q (configureTrigger c ts emt).1) (idxs : List Int) (cs : List Chan) (hq : ∀ c ∈ cs, Q c) :
    ∃ cs' e, changeTrig cs idxs ts emt = some (cs', e) ∧ cs'.length = cs.length ∧ ∀ c ∈ cs', Q c := by
  unfold changeTrig
  split
  · exact ⟨cs, true, rfl, rfl, hq⟩
  · split
    · exact ⟨cs, true, rfl, rfl, hq⟩
    · rename_i hany
      have hidx : ∀ i ∈ idxs, 0 ≤ i ∧ i < (cs.length : Int) := by
        intro i hi
        simp only [List.any_eq_true, Bool.or_eq_true, decide_eq_true_eq, not_exists, not_and, not_or] at hany
        have := hany i hi
        omega
      exact changeTrig_go_safe ts emt Q hQ idxs cs hidx hq

/-- a `ConfigureTriggers` request never panics and keeps the invariant -/
theorem opTrig_safe {NP NS F : Int} {s : Src} (hs : SrcSafe NP NS F s) (r : TrigReq) :
    ∃ s' e, opTrig s r = some (s', e) ∧ SrcSafe NP NS F s' ∧ s'.chans.length = s.chans.length := by
  obtain ⟨hg, hbn, hv, L, hch⟩ := srcSafe_iff.mp hs
  unfold opTrig
  simp only
  cases hemt : (if r.ts.edgeMulti = true then toEMT r.compat else some {}) with
  | none => exact ⟨s, true, rfl, hs, rfl⟩
  | some emt =>
    simp only
    obtain ⟨cs', e, h1, h2, h3⟩ := changeTrig_safe r.ts emt (ChanSafe NP NS F L)
      (fun c hc => configureTrigger_safe hv r.ts emt hc) r.chans s.chans hch
    rw [h1]
    exact ⟨_, e, rfl, srcSafe_iff.mpr ⟨hg, by rw [hbn]; exact h2.symm, hv, L, h3⟩, h2⟩

/-- `ConfigurePulseLengths` on one channel (accepted request, valid lengths) -/
theorem configureLengths_safe {NP NS F : Int} {L : Nat} {c : Chan} (nsamp npre : Int) (hv : 3 ≤ npre ∧ npre < nsamp)
    (hchk : checkLengths c nsamp npre = false)
    (h : ChanSafe NP NS F L c) : ChanSafe npre nsamp F L (configureLengths c nsamp npre).1 := by
  obtain ⟨hl, ⟨h1, h2, h3⟩, hf, he⟩ := h
  unfold configureLengths
  simp only [hchk, Bool.false_eq_true, if_false]
  refine ⟨hl, ⟨rfl, rfl, rfl⟩, hf, ?_⟩
  intro hem
  simp only at hem
  unfold checkLengths at hchk
  simp only [hem, Bool.true_and, Bool.not_eq_false'] at hchk
  unfold EMT.valid at hchk
  simp only [Bool.and_eq_true, Bool.not_eq_true', Bool.and_eq_false_iff, decide_eq_false_iff_not, decide_eq_true_eq] at hchk
  obtain ⟨⟨hz1, hz2⟩, _⟩ := hchk
  refine ⟨⟨by simp [EMT.reset]; omega, by simp [EMT.reset]; omega, ?_, hem, ?_, Or.inl (by simp [EMT.reset])⟩,
    by simp [EMT.reset], fun hn => absurd (by simp [EMT.reset]) hn⟩
  · intro hzt
    simp only [EMT.reset] at hzt ⊢
    rcases hz1 with hz1 | hz1
    · rw [hz1] at hzt; cases hzt
    · rcases hz2 with hz2 | hz2
      · rw [hz2] at hzt; cases hzt
      · omega
  · rcases hf with hf | hf
    · exact Or.inr hf
    · exact Or.inl hf.1

/-- a `ConfigurePulseLengths` request keeps the invariant (possibly with new lengths) -/
theorem opLen_safe {NP NS F : Int} {s : Src} (hs : SrcSafe NP NS F s) (nsamp npre : Int) :
    ∃ NP' NS', SrcSafe NP' NS' F (opLen s nsamp npre).1 ∧ (opLen s nsamp npre).1.chans.length = s.chans.length := by
  obtain ⟨hg, hbn, hv, L, hch⟩ := srcSafe_iff.mp hs
  unfold opLen
  split
  · exact ⟨NP, NS, hs, rfl⟩
  · split
    · exact ⟨NP, NS, hs, rfl⟩
    · split
      · exact ⟨NP, NS, hs, rfl⟩
      · split
        · exact ⟨NP, NS, hs, rfl⟩
        · rename_i _ _ hvalid hany
          refine ⟨npre, nsamp, srcSafe_iff.mpr ⟨hg, by simpa using hbn, by omega, L, ?_⟩, by simp⟩
          intro c' hc'
          simp only [List.mem_map] at hc'
          obtain ⟨c, hc, rfl⟩ := hc'
          have hchk : checkLengths c nsamp npre = false := by
            simp only [List.any_eq_true, not_exists, not_and, Bool.not_eq_true] at hany
            exact hany c hc
          exact configureLengths_safe nsamp npre (by omega) hchk (hch c hc)

/-! ### any sequence of operations -/

/-- the blocks of `ops` are what a data source delivers: one segment per channel, all of one length,
consecutive in frame number from `F` on (frame numbers ≥ 0); control requests are arbitrary -/
def OpsOK (nch : Nat) : Int → List Op → Prop
  | _, [] => True
  | F, .block first _ _ _ data :: os =>
    data.length = nch ∧ ∃ n : Nat, (∀ d ∈ data, d.length = n) ∧ 0 ≤ first ∧ first = F ∧ OpsOK nch (F + n) os
  | F, _ :: os => OpsOK nch F os

/-- **no operation sequence crashes** -/
theorem runOps_safe (zts : List (List (Int × Int)))
    (hzt : ∀ (j : Nat) (p : Int), -1 ≤ ztOf (zts[j]?.getD []) p ∧ ztOf (zts[j]?.getD []) p ≤ 1) (nch : Nat) :
    ∀ (ops : List Op) (F : Int) (s : Src) (NP NS : Int), SrcSafe NP NS F s → s.chans.length = nch →
      OpsOK nch F ops → ∃ outs, runOps zts s ops = some outs
  | [], _, _, _, _, _, _, _ => ⟨[], rfl⟩
  | o :: os, F, s, NP, NS, hs, hn, hok => by
    cases o with
    | block first t0 per signed data =>
      obtain ⟨hdl, n, hdn, hf0, hfF, hrest⟩ := hok
      obtain ⟨s', rs, hob, hs', hn'⟩ := opBlock_safe hs first t0 per signed data zts hzt (by rw [hdl, hn]) n hdn hf0
        (Or.inl hfF)
      obtain ⟨outs, ho⟩ := runOps_safe zts hzt nch os (F + n) s' NP NS (by rw [← hfF]; exact hs') (by rw [hn', hn]) hrest
      exact ⟨.recs rs :: outs, by simp [runOps, stepOp, bind, pure, hob, ho]⟩
    | trig r =>
      obtain ⟨s', e, h1, hs', hn'⟩ := opTrig_safe hs r
      obtain ⟨outs, ho⟩ := runOps_safe zts hzt nch os F s' NP NS hs' (by rw [hn', hn]) hok
      exact ⟨.err e :: outs, by simp [runOps, stepOp, bind, pure, h1, ho]⟩
    | len a b =>
      obtain ⟨NP', NS', hs', hn'⟩ := opLen_safe hs a b
      obtain ⟨outs, ho⟩ := runOps_safe zts hzt nch os F _ NP' NS' hs' (by rw [hn', hn]) hok
      exact ⟨.err (opLen s a b).2 :: outs, by simp [runOps, stepOp, bind, pure, ho]⟩
    | gadd ps =>
      obtain ⟨hg, hbn, hv, L, hch⟩ := srcSafe_iff.mp hs
      obtain ⟨g1, g2, _⟩ := C09.applyAll_add_spec s.broker hg ps
      obtain ⟨outs, ho⟩ := runOps_safe zts hzt nch os F { s with broker := C09.applyAll C09.add s.broker ps } NP NS
        (srcSafe_iff.mpr ⟨g1, by rw [g2]; exact hbn, hv, L, hch⟩) hn hok
      exact ⟨.err false :: outs, by simp [runOps, stepOp, bind, pure, ho]⟩
    | gdel ps =>
      obtain ⟨hg, hbn, hv, L, hch⟩ := srcSafe_iff.mp hs
      obtain ⟨g1, g2, _⟩ := C09.applyAll_del_spec s.broker hg ps
      obtain ⟨outs, ho⟩ := runOps_safe zts hzt nch os F { s with broker := C09.applyAll C09.del s.broker ps } NP NS
        (srcSafe_iff.mpr ⟨g1, by rw [g2]; exact hbn, hv, L, hch⟩) hn hok
      exact ⟨.err false :: outs, by simp [runOps, stepOp, bind, pure, ho]⟩
    | gstop =>
      obtain ⟨hg, hbn, hv, L, hch⟩ := srcSafe_iff.mp hs
      obtain ⟨g1, _, g2⟩ := C09.stop_spec s.broker
      obtain ⟨outs, ho⟩ := runOps_safe zts hzt nch os F { s with broker := C09.stopAll s.broker } NP NS
        (srcSafe_iff.mpr ⟨g1, by rw [g2]; exact hbn, hv, L, hch⟩) hn hok
      exact ⟨.err false :: outs, by simp [runOps, stepOp, bind, pure, ho]⟩

/-- the source as `PrepareRun` leaves it satisfies the invariant (for any first frame) -/
theorem prepare_safe (nch : Nat) (npre nsamp : Int) (saved : List (Nat × TS)) (hv : 3 ≤ npre ∧ npre < nsamp) (F : Int) :
    SrcSafe npre nsamp F (prepare nch npre nsamp saved) ∧ (prepare nch npre nsamp saved).chans.length = nch := by
  refine ⟨srcSafe_iff.mpr ⟨C09.good_new nch, by simp [prepare, C09.Broker.new], hv, 0, ?_⟩, by simp [prepare]⟩
  intro c hc
  simp only [prepare, List.mem_map, List.mem_range] at hc
  obtain ⟨i, _, rfl⟩ := hc
  refine ⟨rfl, ⟨rfl, rfl, rfl⟩, Or.inl rfl, ?_⟩
  intro hem
  simp only at hem
  split at hem <;> simp at hem

end DastardV.Pipe
