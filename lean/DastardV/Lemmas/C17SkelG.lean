/-
C17 — `skeleton_ok` (Lemmas/C17Skel.lean), part G: the wait-group / start side conditions.  Core Lean only.

All of them talk about `start`, `wgAdd`, `wgDone`, `wgWait` only, so every program is first reduced to the
sublist of these events (`wgEv`), which is a short explicit list.
-/
import DastardV.Lemmas.C17SkelF
set_option linter.unusedSimpArgs false
namespace DastardV.C17
open Sched

/-! ### generic list facts -/

/-- the events the wait-group / start side conditions talk about -/
def wgEv : Ev → Bool
  | .wgAdd _ => true
  | .wgDone _ => true
  | .wgWait _ => true
  | .start => true
  | _ => false

theorem filter_ite {α : Type} (p : α → Bool) (c : Prop) [Decidable c] (a b : List α) :
    (if c then a else b).filter p = if c then a.filter p else b.filter p := by
  split <;> rfl

theorem flatMap_nil_fun {α β : Type} (l : List α) : l.flatMap (fun _ => ([] : List β)) = [] := by
  induction l with
  | nil => rfl
  | cons a l ih => simp

theorem cnt_filter {e : Ev} (he : wgEv e = true) (l : List Ev) : cnt e (l.filter wgEv) = cnt e l := by
  unfold cnt; exact List.count_filter (by simpa using he)

theorem mem_filter_wg {e : Ev} (he : wgEv e = true) (l : List Ev) : e ∈ l.filter wgEv ↔ e ∈ l := by
  rw [List.mem_filter]; exact ⟨fun h => h.1, fun h => ⟨h, he⟩⟩

theorem cnt_eq_zero {e : Ev} {l : List Ev} (h : e ∉ l) : cnt e l = 0 := List.count_eq_zero.2 h

theorem cnt_append (e : Ev) (a b : List Ev) : cnt e (a ++ b) = cnt e a + cnt e b := List.count_append

theorem flatMap_rng_succ {α : Type} (f : Nat → List α) (n : Nat) :
    (rng (n + 1)).flatMap f = (rng n).flatMap f ++ f n := by
  simp only [rng, List.range_succ, List.flatMap_append, List.flatMap_cons, List.flatMap_nil, List.append_nil]

theorem mem_flatMap_rng {α : Type} (f : Nat → List α) (n : Nat) (a : α) :
    a ∈ (rng n).flatMap f ↔ ∃ j, j < n ∧ a ∈ f j := by
  simp only [rng, List.mem_flatMap, List.mem_range]

/-- an event that occurs in round `b` only -/
theorem cnt_flatMap_rng {e : Ev} (f : Nat → List Ev) (n b : Nat)
    (h0 : ∀ j, j < n → j ≠ b → e ∉ f j) :
    cnt e ((rng n).flatMap f) = if b < n then cnt e (f b) else 0 := by
  induction n with
  | zero => rfl
  | succ m ih =>
    rw [flatMap_rng_succ, cnt_append, ih (fun j hj => h0 j (by omega))]
    by_cases hb : b < m
    · rw [if_pos hb, if_pos (by omega), cnt_eq_zero (h0 m (by omega) (by omega))]; rfl
    · rw [if_neg hb]
      by_cases hb' : b = m
      · subst hb'; rw [if_pos (by omega)]; omega
      · rw [if_neg (by omega), cnt_eq_zero (h0 m (by omega) (by omega))]

/-- all `wgAdd w` come before the (only possible) `wgWait w`, and there are `m` of them -/
def AB (w : Obj) (m : Nat) (l : List Ev) : Prop :=
  ∀ pre post, l = pre ++ .wgWait w :: post → cnt (.wgAdd w) pre = m ∧ .wgAdd w ∉ post

theorem AB.of_not_mem {w : Obj} {m : Nat} {l : List Ev} (h : .wgWait w ∉ l) : AB w m l := by
  intro pre post e
  exact absurd (by rw [e]; simp) h

theorem AB.append_left {w : Obj} {m : Nat} {a l : List Ev} (h1 : .wgWait w ∉ a) (h2 : .wgAdd w ∉ a)
    (h : AB w m l) : AB w m (a ++ l) := by
  intro pre post e
  rcases List.append_eq_append_iff.1 e with ⟨a', rfl, e2⟩ | ⟨c', e1, e2⟩
  · obtain ⟨h3, h4⟩ := h a' post e2
    rw [cnt_append, cnt_eq_zero h2, h3]; exact ⟨by omega, h4⟩
  · cases c' with
    | nil =>
      simp only [List.nil_append] at e2
      simp only [List.append_nil] at e1
      obtain ⟨h3, h4⟩ := h [] post e2.symm
      subst e1
      exact ⟨by rw [cnt_eq_zero h2]; exact h3, h4⟩
    | cons x c'' =>
      simp only [List.cons_append, List.cons.injEq] at e2
      exact absurd (by rw [e1, ← e2.1]; simp) h1

theorem AB.append_right {w : Obj} {m : Nat} {l b : List Ev} (h : AB w m l) (h1 : .wgWait w ∉ b)
    (h2 : .wgAdd w ∉ b) : AB w m (l ++ b) := by
  intro pre post e
  rcases List.append_eq_append_iff.1 e with ⟨a', e1, e2⟩ | ⟨c', e1, e2⟩
  · -- pre = l ++ a', b = a' ++ wait :: post
    exact absurd (by rw [e2]; simp) h1
  · -- l = pre ++ c', wait :: post = c' ++ b
    cases c' with
    | nil =>
      simp only [List.nil_append] at e2
      exact absurd (by rw [← e2]; simp) h1
    | cons x c'' =>
      simp only [List.cons_append, List.cons.injEq] at e2
      obtain ⟨hx, e3⟩ := e2
      subst hx
      obtain ⟨h3, h4⟩ := h pre c'' e1
      refine ⟨h3, ?_⟩
      rw [e3, List.mem_append]
      exact fun hh => hh.elim h4 h2

theorem AB.base {w : Obj} {a : List Ev} (h1 : .wgWait w ∉ a) : AB w (cnt (.wgAdd w) a) (a ++ [.wgWait w]) := by
  intro pre post e
  rcases List.append_eq_append_iff.1 e with ⟨a', e1, e2⟩ | ⟨c', e1, e2⟩
  · cases a' with
    | nil =>
      simp only [List.nil_append, List.cons.injEq, true_and] at e2
      simp only [List.append_nil] at e1
      subst e1; subst e2
      exact ⟨rfl, by simp⟩
    | cons x a'' =>
      simp only [List.cons_append, List.cons.injEq] at e2
      have := congrArg List.length e2.2
      simp at this
  · cases c' with
    | nil =>
      simp only [List.nil_append, List.cons.injEq, true_and] at e2
      simp only [List.append_nil] at e1
      subst e1; subst e2
      exact ⟨rfl, by simp⟩
    | cons x c'' =>
      simp only [List.cons_append, List.cons.injEq] at e2
      exact absurd (by rw [e1, ← e2.1]; simp) h1

/-- a wait group used in round `b` only -/
theorem AB.flatMap_rng {w : Obj} {m : Nat} (f : Nat → List Ev) (n b : Nat) (hb : b < n) (h : AB w m (f b))
    (h0 : ∀ j, j < n → j ≠ b → .wgWait w ∉ f j ∧ .wgAdd w ∉ f j) : AB w m ((rng n).flatMap f) := by
  induction n with
  | zero => omega
  | succ k ih =>
    rw [flatMap_rng_succ]
    by_cases hb' : b = k
    · subst hb'
      refine AB.append_left ?_ ?_ h
      · rw [mem_flatMap_rng]; rintro ⟨j, hj, hm⟩; exact (h0 j (by omega) (by omega)).1 hm
      · rw [mem_flatMap_rng]; rintro ⟨j, hj, hm⟩; exact (h0 j (by omega) (by omega)).2 hm
    · exact (ih (by omega) (fun j hj => h0 j (by omega))).append_right (h0 k (by omega) (by omega)).1
        (h0 k (by omega) (by omega)).2

/-- the property transfers from the sublist of wait-group events -/
theorem AB.of_filter {w : Obj} {m : Nat} {l : List Ev} (h : AB w m (l.filter wgEv)) : AB w m l := by
  intro pre post e
  have e' : l.filter wgEv = pre.filter wgEv ++ .wgWait w :: post.filter wgEv := by
    rw [e, List.filter_append, List.filter_cons]; rfl
  obtain ⟨h1, h2⟩ := h _ _ e'
  rw [cnt_filter rfl] at h1
  exact ⟨h1, fun hh => h2 ((mem_filter_wg rfl _).2 hh)⟩

/-! ### the wait-group events of the programs -/

section
variable (s : Sched)

theorem filter_reqBody (b : Nat) : (s.reqBody b).filter wgEv = [] := by
  unfold reqBody
  split <;> simp [perChan, List.filter_flatMap, wgEv, flatMap_nil_fun]

/-- the wait-group events of one block of the core loop -/
def Sched.wgBlock (s : Sched) (b : Nat) : List Ev :=
  (rng s.n).flatMap (fun _ => [.wgAdd (oWgp (2 * b))]) ++ [.wgWait (oWgp (2 * b))]
  ++ (rng s.n).flatMap (fun i => if s.sec b i then [.wgAdd (oWgp (2 * b + 1))] else []) ++ [.wgWait (oWgp (2 * b + 1))]

theorem filter_blockL (b : Nat) : (s.blockL b).filter wgEv = s.wgBlock b := by
  unfold blockL wgBlock
  simp only [List.filter_append, filter_ite, filter_reqBody, List.filter_cons, List.filter_nil, wgEv, perChan,
    List.filter_flatMap, Bool.false_eq_true, if_false, if_true, ite_self, flatMap_nil_fun, List.append_nil,
    List.nil_append]

def Sched.wgL (s : Sched) : List Ev :=
  [.start] ++ (rng (min s.k0 s.k)).flatMap s.wgBlock
  ++ (if s.k0 ≤ s.k then (rng (s.k - s.k0)).flatMap (fun d => s.wgBlock (s.k0 + d)) else [])
  ++ [.wgDone oRund]

theorem filter_progL : s.progL.filter wgEv = s.wgL := by
  unfold progL wgL firstReq
  simp only [List.filter_append, filter_ite, filter_blockL, List.filter_cons, List.filter_nil, wgEv, perChan,
    List.filter_flatMap, Bool.false_eq_true, if_false, if_true, ite_self, flatMap_nil_fun, List.append_nil,
    List.nil_append]

theorem filter_progR : s.progR.filter wgEv = [.wgAdd oRund] := by
  unfold progR
  simp only [List.filter_append, filter_ite, List.filter_cons, List.filter_nil, wgEv, perChan,
    List.filter_flatMap, Bool.false_eq_true, if_false, if_true, ite_self, flatMap_nil_fun, List.append_nil,
    List.nil_append, List.cons_append]

theorem filter_progS : s.progS.filter wgEv = [] := by
  unfold progS
  simp only [List.filter_append, List.filter_cons, List.filter_nil, wgEv,
    List.filter_flatMap, Bool.false_eq_true, if_false, flatMap_nil_fun, List.append_nil]

theorem filter_progP : s.progP.filter wgEv = [.start] := by
  unfold progP
  simp only [List.filter_append, filter_ite, List.filter_cons, List.filter_nil, wgEv, perChan,
    List.filter_flatMap, Bool.false_eq_true, if_false, if_true, ite_self, flatMap_nil_fun, List.append_nil,
    List.nil_append]

def Sched.wgA (s : Sched) (b : Nat) : List Ev :=
  if b < s.k ∧ s.src = 1 then
    [.start] ++ (rng s.n).flatMap (fun _ => [.wgAdd (oWga b)]) ++ [.wgWait (oWga b)]
  else [.start]

theorem filter_progA (b : Nat) : (s.progA b).filter wgEv = s.wgA b := by
  unfold progA wgA
  by_cases hb : b < s.k
  · by_cases h1 : s.src = 1
    · simp only [hb, h1, and_self, if_true, BEq.rfl]
      simp only [List.filter_append, List.filter_cons, List.filter_nil, wgEv, perChan,
        List.filter_flatMap, Bool.false_eq_true, if_false, if_true, List.append_nil, List.nil_append,
        List.cons_append, List.append_assoc]
    · have : (s.src == 1) = false := by simpa using h1
      simp only [hb, h1, and_false, if_false, if_true, this, Bool.false_eq_true]
      simp only [List.filter_append, List.filter_cons, List.filter_nil, wgEv, perChan,
        List.filter_flatMap, Bool.false_eq_true, if_false, if_true, flatMap_nil_fun, List.append_nil, List.nil_append]
  · simp only [hb, false_and, if_false]
    rfl

theorem filter_progAW (b i : Nat) : (s.progAW b i).filter wgEv = [.start, .wgDone (oWga b)] := rfl

theorem filter_progW (b i wave : Nat) : (s.progW b i wave).filter wgEv = [.start, .wgDone (oWgp (2 * b + wave))] := by
  unfold progW
  simp only [List.filter_append, filter_ite, List.filter_cons, List.filter_nil, wgEv,
    Bool.false_eq_true, if_false, if_true, ite_self, List.append_nil, List.nil_append, List.cons_append]

theorem filter_progAR (j : Nat) : (progAR j).filter wgEv = [.start] := rfl

/-! ### every thread id -/

/-- the wait-group events of the program of thread `t` -/
def Sched.wgProg (s : Sched) (t : Tid) : List Ev :=
  match clsOf t with
  | 0 => if t = tR then [.wgAdd oRund] else []
  | 1 => if t = tL then s.wgL else []
  | 2 => if t = tP then [.start] else []
  | 4 => if s.merged = true ∧ idxOf t % s.n = 0 ∧ idxOf t / s.n ≤ s.k then s.wgA (idxOf t / s.n) else []
  | 5 => if s.src = 1 ∧ idxOf t / s.n < s.k then [.start, .wgDone (oWga (idxOf t / s.n))] else []
  | 6 => if idxOf t / s.n < s.k ∧ s.phase (idxOf t / s.n) = 0 then [.start, .wgDone (oWgp (2 * (idxOf t / s.n)))] else []
  | 7 => if idxOf t / s.n < s.k ∧ s.phase (idxOf t / s.n) = 1 then [.start, .wgDone (oWgp (2 * (idxOf t / s.n)))] else []
  | 8 => if idxOf t / s.n < s.k ∧ s.phase (idxOf t / s.n) = 0 ∧ s.sec (idxOf t / s.n) (idxOf t % s.n) = true then
           [.start, .wgDone (oWgp (2 * (idxOf t / s.n) + 1))] else []
  | 9 => if idxOf t / s.n < s.k ∧ s.phase (idxOf t / s.n) = 1 ∧ s.sec (idxOf t / s.n) (idxOf t % s.n) = true then
           [.start, .wgDone (oWgp (2 * (idxOf t / s.n) + 1))] else []
  | 10 => if idxOf t < s.archIdx s.k then [.start] else []
  | _ => []

theorem filter_prog (hn : 0 < s.n) (t : Tid) : (s.prog t).filter wgEv = s.wgProg t := by
  have hn0 : (s.n == 0) = false := by simp; omega
  have hn1 : s.n ≠ 0 := by omega
  unfold prog wgProg
  simp only [hn0, Bool.false_eq_true, if_false]
  split
  next h => simp only [h, beq_iff_eq, filter_ite, filter_progR, List.filter_nil]
  next h => simp only [h, beq_iff_eq, filter_ite, filter_progL, List.filter_nil]
  next h => simp only [h, beq_iff_eq, filter_ite, filter_progP, List.filter_nil]
  next h => simp only [h, filter_ite, filter_progS, List.filter_nil, ite_self]
  next h => simp only [h, beq_iff_eq, filter_ite, filter_progA, List.filter_nil]
  next h => simp only [h, beq_iff_eq, filter_ite, filter_progAW, List.filter_nil, ne_eq, hn1, not_false_eq_true, true_and]
  next h => simp only [h, beq_iff_eq, filter_ite, filter_progW, List.filter_nil, ne_eq, hn1, not_false_eq_true, true_and,
      Nat.add_zero]
  next h => simp only [h, beq_iff_eq, filter_ite, filter_progW, List.filter_nil, ne_eq, hn1, not_false_eq_true, true_and,
      Nat.add_zero]
  next h => simp only [h, beq_iff_eq, filter_ite, filter_progW, List.filter_nil, ne_eq, hn1, not_false_eq_true, true_and]
  next h => simp only [h, beq_iff_eq, filter_ite, filter_progW, List.filter_nil, ne_eq, hn1, not_false_eq_true, true_and]
  next h => simp only [h, filter_ite, filter_progAR, List.filter_nil]
  next h0 h1 h2 h3 h4 h5 h6 h7 h8 h9 h10 =>
    split <;> first | rfl | (rename_i h; exact absurd h (by assumption))

/-! ### wait-group ids and their children -/

theorem oWgp_inj {a b : Nat} : oWgp a = oWgp b ↔ a = b :=
  ⟨fun h => (enc_inj (by decide) (by decide) h).2, fun h => by rw [h]⟩
theorem oWga_inj {a b : Nat} : oWga a = oWga b ↔ a = b :=
  ⟨fun h => (enc_inj (by decide) (by decide) h).2, fun h => by rw [h]⟩
theorem oWgp_ne_oWga (a b : Nat) : oWgp a ≠ oWga b := fun h => by
  have := (enc_inj (by decide) (by decide) h).1; omega
theorem oWgp_ne_oRund (a : Nat) : oWgp a ≠ oRund := fun h => by
  have := (enc_inj (c := 11) (c' := 12) (i' := 0) (by decide) (by decide) h).1; omega
theorem oWga_ne_oRund (a : Nat) : oWga a ≠ oRund := fun h => by
  have := (enc_inj (c := 10) (c' := 12) (i' := 0) (by decide) (by decide) h).1; omega

theorem filter_true' {α : Type} (l : List α) : l.filter (fun _ => true) = l := by
  induction l with
  | nil => rfl
  | cons a l ih => simp

theorem mem_map_enc {n : Nat} (c e : Nat) (hc : c < 16) (q : Nat → Bool) (t : Tid) :
    t ∈ ((rng n).filter q).map (fun i => enc c (e * n + i)) ↔
      clsOf t = c ∧ idxOf t / n = e ∧ idxOf t % n < n ∧ q (idxOf t % n) = true := by
  simp only [List.mem_map, List.mem_filter, rng, List.mem_range]
  constructor
  · rintro ⟨i, ⟨hi, hq⟩, rfl⟩
    rw [clsOf_enc hc, idxOf_enc hc, mul_add_div hi, mul_add_mod hi]
    exact ⟨rfl, rfl, hi, hq⟩
  · rintro ⟨h1, h2, h3, h4⟩
    refine ⟨idxOf t % n, ⟨h3, h4⟩, ?_⟩
    rw [eq_comm, eq_enc_iff hc]
    refine ⟨h1, ?_⟩
    rw [← h2]; exact (div_mul_add_mod _ _).symm

theorem mem_kids (hn : 0 < s.n) (w : Obj) (t : Tid) :
    t ∈ s.kids w ↔
      (w = oWga (idxOf t / s.n) ∧ s.src = 1 ∧ idxOf t / s.n < s.k ∧ clsOf t = 5)
      ∨ (w = oWgp (2 * (idxOf t / s.n)) ∧ idxOf t / s.n < s.k ∧ clsOf t = 6 + s.phase (idxOf t / s.n))
      ∨ (w = oWgp (2 * (idxOf t / s.n) + 1) ∧ idxOf t / s.n < s.k ∧ clsOf t = 8 + s.phase (idxOf t / s.n)
          ∧ s.sec (idxOf t / s.n) (idxOf t % s.n) = true)
      ∨ (w = oRund ∧ t = tL) := by
  have hmod : idxOf t % s.n < s.n := Nat.mod_lt _ hn
  simp only [oWga, oWgp, oRund, eq_enc_iff (c := 10) (by decide), eq_enc_iff (c := 11) (by decide),
    eq_enc_iff (c := 12) (by decide)]
  unfold kids
  simp only []
  split
  next hc =>
    -- assembly workers
    split
    next hg =>
      have e : (rng s.n).map (s.tAW (idxOf w)) = ((rng s.n).filter (fun _ => true)).map (fun i => enc 5 (idxOf w * s.n + i)) := by
        rw [filter_true']; rfl
      rw [e, mem_map_enc 5 _ (by decide)]
      have h1 : s.src = 1 := by simpa using hg.1
      have h2 := hg.2
      constructor
      · rintro ⟨a, b, _, _⟩; left; exact ⟨⟨hc, b.symm⟩, h1, by omega, a⟩
      · rintro (⟨⟨_, b⟩, _, _, a⟩ | ⟨⟨a, _⟩, _⟩ | ⟨⟨a, _⟩, _⟩ | ⟨⟨a, _⟩, _⟩)
        · exact ⟨a, b.symm, hmod, rfl⟩
        all_goals omega
    next hg =>
      simp only [List.not_mem_nil, false_iff]
      rintro (⟨⟨_, b⟩, h1, h2, _⟩ | ⟨⟨a, _⟩, _⟩ | ⟨⟨a, _⟩, _⟩ | ⟨⟨a, _⟩, _⟩)
      · exact hg ⟨by simpa using h1, by omega⟩
      all_goals omega
  next hc =>
    -- per-channel workers
    have hph := phase_le s (idxOf w / 2)
    split
    next hg =>
      split
      next he =>
        have he' : idxOf w % 2 = 0 := by simpa using he
        have e : (rng s.n).map (s.tW1 (idxOf w / 2)) = ((rng s.n).filter (fun _ => true)).map
            (fun i => enc (6 + s.phase (idxOf w / 2)) (idxOf w / 2 * s.n + i)) := by
          rw [filter_true']; rfl
        rw [e, mem_map_enc _ _ (by omega)]
        constructor
        · rintro ⟨a, b, _, _⟩
          right; left
          rw [b]
          exact ⟨⟨hc, by omega⟩, hg, a⟩
        · rintro (⟨⟨a, _⟩, _⟩ | ⟨⟨_, b⟩, _, a⟩ | ⟨⟨_, b⟩, _⟩ | ⟨⟨a, _⟩, _⟩)
          · omega
          · have hb : idxOf w / 2 = idxOf t / s.n := by omega
            rw [hb]; exact ⟨a, rfl, hmod, rfl⟩
          · omega
          · omega
      next he =>
        have he' : idxOf w % 2 = 1 := by
          have : ¬ idxOf w % 2 = 0 := by simpa using he
          omega
        have e : ((rng s.n).filter (s.sec (idxOf w / 2))).map (s.tW2 (idxOf w / 2)) =
            ((rng s.n).filter (s.sec (idxOf w / 2))).map
              (fun i => enc (8 + s.phase (idxOf w / 2)) (idxOf w / 2 * s.n + i)) := rfl
        rw [e, mem_map_enc _ _ (by omega)]
        constructor
        · rintro ⟨a, b, _, q⟩
          right; right; left
          rw [b]
          exact ⟨⟨hc, by omega⟩, hg, a, q⟩
        · rintro (⟨⟨a, _⟩, _⟩ | ⟨⟨_, b⟩, _⟩ | ⟨⟨_, b⟩, _, a, q⟩ | ⟨⟨a, _⟩, _⟩)
          · omega
          · omega
          · have hb : idxOf w / 2 = idxOf t / s.n := by omega
            rw [hb]; exact ⟨a, rfl, hmod, q⟩
          · omega
    next hg =>
      simp only [List.not_mem_nil, false_iff]
      rintro (⟨⟨a, _⟩, _⟩ | ⟨⟨_, b⟩, h, _⟩ | ⟨⟨_, b⟩, h, _⟩ | ⟨⟨a, _⟩, _⟩) <;> omega
  next hc =>
    -- the run's wait group
    have ew : w = enc 12 0 ↔ (clsOf w = 12 ∧ idxOf w = 0) := eq_enc_iff (by decide) w
    split
    next hg =>
      have hg' : w = enc 12 0 := by simpa [oRund] using hg
      simp only [List.mem_singleton]
      constructor
      · intro h; right; right; right; exact ⟨ew.1 hg', h⟩
      · rintro (⟨⟨a, _⟩, _⟩ | ⟨⟨a, _⟩, _⟩ | ⟨⟨a, _⟩, _⟩ | ⟨_, h⟩)
        · omega
        · omega
        · omega
        · exact h
    next hg =>
      have hg' : ¬ w = enc 12 0 := by simpa [oRund] using hg
      simp only [List.not_mem_nil, false_iff]
      rintro (⟨⟨a, _⟩, _⟩ | ⟨⟨a, _⟩, _⟩ | ⟨⟨a, _⟩, _⟩ | ⟨h, _⟩)
      · omega
      · omega
      · omega
      · exact hg' (ew.2 h)
  next h10 h11 h12 =>
    simp only [List.not_mem_nil, false_iff]
    rintro (⟨⟨a, _⟩, _⟩ | ⟨⟨a, _⟩, _⟩ | ⟨⟨a, _⟩, _⟩ | ⟨⟨a, _⟩, _⟩)
    · exact h10 a
    · exact h11 a
    · exact h11 a
    · exact h12 a

/-! ### the wait groups of the core loop -/

theorem flatMap_rng_add {α : Type} (f : Nat → List α) (a c : Nat) :
    (rng (a + c)).flatMap f = (rng a).flatMap f ++ (rng c).flatMap (fun d => f (a + d)) := by
  induction c with
  | zero => simp [rng]
  | succ m ih => rw [← Nat.add_assoc, flatMap_rng_succ, ih, flatMap_rng_succ, List.append_assoc]

theorem wgL_eq : s.wgL = [.start] ++ (rng s.k).flatMap s.wgBlock ++ [.wgDone oRund] := by
  unfold wgL
  split
  next h =>
    have e : s.k = s.k0 + (s.k - s.k0) := by omega
    rw [Nat.min_eq_left h]
    conv => rhs; rw [e, flatMap_rng_add]
    simp only [List.append_assoc]
  next h =>
    rw [Nat.min_eq_right (by omega), List.append_nil]

theorem mem_wgBlock {e : Ev} {b : Nat} (h : e ∈ s.wgBlock b) :
    e = .wgAdd (oWgp (2 * b)) ∨ e = .wgWait (oWgp (2 * b)) ∨ e = .wgAdd (oWgp (2 * b + 1))
      ∨ e = .wgWait (oWgp (2 * b + 1)) := by
  unfold wgBlock at h
  simp only [List.mem_append, mem_flatMap_rng, List.mem_singleton] at h
  rcases h with ((⟨j, _, h⟩ | h) | ⟨j, _, h⟩) | h
  · exact Or.inl h
  · exact Or.inr (Or.inl h)
  · split at h
    · exact Or.inr (Or.inr (Or.inl (List.mem_singleton.1 h)))
    · cases h
  · exact Or.inr (Or.inr (Or.inr h))

/-- a block mentions the wait groups `2b`, `2b+1` only -/
theorem not_mem_wgBlock {b e : Nat} (h : e / 2 ≠ b) :
    .wgWait (oWgp e) ∉ s.wgBlock b ∧ .wgAdd (oWgp e) ∉ s.wgBlock b := by
  constructor <;> intro hm <;> rcases mem_wgBlock s hm with h' | h' | h' | h' <;>
    first
    | cases h'
    | (injection h' with h'; have := oWgp_inj.1 h'; omega)

theorem cnt_const {e : Ev} (n : Nat) : cnt e ((rng n).flatMap (fun _ => [e])) = n := by
  induction n with
  | zero => rfl
  | succ m ih => rw [flatMap_rng_succ, cnt_append, ih]; simp [cnt]

theorem cnt_sec {e : Ev} (q : Nat → Bool) (n : Nat) :
    cnt e ((rng n).flatMap (fun i => if q i then [e] else [])) = ((rng n).filter q).length := by
  induction n with
  | zero => rfl
  | succ m ih =>
    rw [flatMap_rng_succ, cnt_append, ih]
    simp only [rng, List.range_succ, List.filter_append, List.length_append]
    cases hq : q m <;> simp [cnt, hq]

theorem not_mem_adds {e e' : Ev} (n : Nat) (h : e ≠ e') : e ∉ (rng n).flatMap (fun _ => [e']) := by
  rw [mem_flatMap_rng]; rintro ⟨j, _, hm⟩; exact h (List.mem_singleton.1 hm)

theorem not_mem_secs {e e' : Ev} (q : Nat → Bool) (n : Nat) (h : e ≠ e') :
    e ∉ (rng n).flatMap (fun i => if q i then [e'] else []) := by
  rw [mem_flatMap_rng]; rintro ⟨j, _, hm⟩
  split at hm
  · exact h (List.mem_singleton.1 hm)
  · cases hm

theorem ne_add_wait (w w' : Obj) : Ev.wgWait w ≠ Ev.wgAdd w' := fun h => by cases h
theorem ne_wait_add (w w' : Obj) : Ev.wgAdd w ≠ Ev.wgWait w' := fun h => by cases h

theorem wgp_ne0 (b : Nat) : oWgp (2 * b) ≠ oWgp (2 * b + 1) := fun h => by have := oWgp_inj.1 h; omega
theorem wgp_ne1 (b : Nat) : oWgp (2 * b + 1) ≠ oWgp (2 * b) := fun h => by have := oWgp_inj.1 h; omega

theorem AB_wgBlock0 (b : Nat) : AB (oWgp (2 * b)) s.n (s.wgBlock b) := by
  unfold wgBlock
  have h := AB.base (w := oWgp (2 * b)) (a := (rng s.n).flatMap (fun _ => [.wgAdd (oWgp (2 * b))]))
    (not_mem_adds _ (ne_add_wait _ _))
  rw [cnt_const] at h
  refine (h.append_right ?_ ?_).append_right ?_ ?_
  · exact not_mem_secs _ _ (ne_add_wait _ _)
  · exact not_mem_secs _ _ (fun e => by injection e with e; exact wgp_ne0 b e)
  · simp only [List.mem_singleton, Ev.wgWait.injEq]; exact wgp_ne0 b
  · simp

theorem AB_wgBlock1 (b : Nat) : AB (oWgp (2 * b + 1)) ((rng s.n).filter (s.sec b)).length (s.wgBlock b) := by
  unfold wgBlock
  have h := AB.base (w := oWgp (2 * b + 1))
    (a := (rng s.n).flatMap (fun _ => [.wgAdd (oWgp (2 * b))]) ++ [.wgWait (oWgp (2 * b))]
      ++ (rng s.n).flatMap (fun i => if s.sec b i then [.wgAdd (oWgp (2 * b + 1))] else [])) ?_
  · rw [cnt_append, cnt_append, cnt_sec, cnt_eq_zero, cnt_eq_zero] at h
    · simpa using h
    · simp
    · exact not_mem_adds _ (fun e => by injection e with e; exact wgp_ne1 b e)
  · simp only [List.mem_append, not_or]
    refine ⟨⟨not_mem_adds _ (ne_add_wait _ _), ?_⟩, not_mem_secs _ _ (ne_add_wait _ _)⟩
    simp only [List.mem_singleton, Ev.wgWait.injEq]; exact wgp_ne1 b

theorem cnt_wait_wgBlock (b e : Nat) (h : e / 2 = b) : cnt (.wgWait (oWgp e)) (s.wgBlock b) = 1 := by
  unfold wgBlock
  rw [cnt_append, cnt_append, cnt_append, cnt_eq_zero (not_mem_adds _ (ne_add_wait _ _)),
    cnt_eq_zero (not_mem_secs _ _ (ne_add_wait _ _))]
  have : e = 2 * b ∨ e = 2 * b + 1 := by omega
  rcases this with rfl | rfl
  · simp [cnt, oWgp_inj]
  · simp [cnt, oWgp_inj]

end
end DastardV.C17
