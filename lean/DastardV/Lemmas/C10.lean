/-
C10 — invariants of the life-cycle transition system (`Model/C10.lean`), used by Props/C10 and Props/C11.
-/
import DastardV.Model.C10
namespace DastardV.C10

abbrev LPc.alive (l : LPc) : Prop := l ≠ .off
/-- alive and not yet on the way out -/
abbrev LPc.working (l : LPc) : Prop := l ≠ .off ∧ l ≠ .exiting
abbrev PPc.alive (p : PPc) : Prop := p ≠ .off ∧ p ≠ .done
abbrev SPc.inStarting (p : SPc) : Prop :=
  p = .starting ∨ p = .sampled ∨ p = .chans ∨ p = .prepared ∨ p = .failing
abbrev SPc.owner (p : SPc) : Prop := p = .activated ∨ p = .runFailing
/-- in the select or inside a request closure: the moments an acquisition step may be pending -/
def LPc.serving : LPc → Bool
  | .select => true
  | .req _ => true
  | _ => false
abbrev SrcState.running (x : SrcState) : Prop := x = .active ∨ x = .stopping

/-- Invariant of every reachable state (no assumption on the environment). -/
structure Good (s : St) : Prop where
  wg_eq : s.wg = if s.st.running then 1 else 0
  run_owner : s.st.running ↔ (s.lp.alive ∨ s.sp.owner)
  excl : s.sp ≠ .idle → s.lp = .off
  starting_iff : s.st = .starting ↔ s.sp.inStarting
  stopping_abort : s.st = .stopping → s.abortClosed = true
  stopping_waiter : s.st = .stopping → s.kWait > 0
  prod_alive : s.pp.alive → s.nbClosed = false ∧ (s.sp = .activated ∨ s.lp.working)
  loop_prod : (s.lp.working ∨ s.sp = .activated) → s.pp ≠ .off ∧ (s.pp = .done → s.nbClosed = true)
  prepared_open : s.sp = .prepared → s.nbClosed = false
  writing_loop : s.writing = true → s.lp.alive
  res_held : s.res = true → s.opens = true ∧ (s.sp = .sampled ∨ s.sp = .chans ∨ s.sp = .prepared ∨ s.pp.alive)
  over_idle : s.runOver = true → ¬ s.st.running
  started : (s.flag = true ∨ s.rSend > 0) → (s.runOver = true ∨ s.lp.alive ∨ s.sp.owner)
  decided_active : s.kDecided > 0 → s.st = .active
  decided_one : s.kDecided ≤ 1
  asm_le : s.asm ≤ 1
  asm_eq : s.asm = if s.opens = true ∧ s.nbClosed = false ∧ s.lp.serving = true then 1 else 0
  waiting_stopping : s.kWait > 0 → s.st = .stopping
  asm_closed : s.opens = true → s.nbClosed = true → (s.lp ≠ .spawned ∧ s.lp ≠ .block ∧ s.sp ≠ .activated)

theorem good_init (o : Bool) : Good (init o) := by
  constructor <;> simp [init, LPc.alive, LPc.working, PPc.alive, SPc.inStarting, SPc.owner, SrcState.running, LPc.serving]

/-- unfold one step of a fixed event and split its guards -/
macro "lc_open" hs:ident : tactic => `(tactic| (
  unfold step at $hs:ident
  dsimp only at $hs:ident
  split at $hs:ident
  · contradiction
  all_goals try (split at $hs:ident)
  all_goals try (split at $hs:ident)
  all_goals try (simp only [Option.some.injEq, reduceCtorEq] at $hs:ident)
  all_goals try (subst $hs:ident)))

macro "lc_good" : tactic => `(tactic| (
  intro s s' h hs
  obtain ⟨st, sEnter, sp, kEnter, kDecided, kWait, kReady, kClean, lp, pp, abortClosed, nbClosed, wg, writing, res, opens, crashed,
    fuel, flag, rEnter, rSend, rWait, runOver, stopsDone, asm⟩ := s
  obtain ⟨h1, h2, h3, h4, h5, h6, h7, h8, h9, h10, h11, h12, h13, h14, h15, h16, h17, h18, h19⟩ := h
  dsimp only at h1 h2 h3 h4 h5 h6 h7 h8 h9 h10 h11 h12 h13 h14 h15 h16 h17 h18 h19
  lc_open hs
  all_goals (constructor <;> dsimp only <;> (try simp only [deactivate]) <;> (try split) <;>
    simp_all [LPc.alive, LPc.working, PPc.alive, SPc.inStarting, SPc.owner, SrcState.running, LPc.serving] <;> (try omega) <;> (try grind))))

theorem good_callStart : ∀ s s' : St, Good s → step s .callStart = some s' → Good s' := by lc_good
theorem good_startOk : ∀ s s' : St, Good s → step s .startOk = some s' → Good s' := by lc_good
theorem good_startRejected : ∀ s s' : St, Good s → step s .startRejected = some s' → Good s' := by lc_good
theorem good_sampled : ∀ s s' : St, Good s → step s .sampled = some s' → Good s' := by lc_good
theorem good_sampleFailed : ∀ s s' : St, Good s → step s .sampleFailed = some s' → Good s' := by lc_good
theorem good_chans : ∀ s s' : St, Good s → step s .chans = some s' → Good s' := by lc_good
theorem good_chansFailed : ∀ s s' : St, Good s → step s .chansFailed = some s' → Good s' := by lc_good
theorem good_prepareFailed : ∀ s s' : St, Good s → step s .prepareFailed = some s' → Good s' := by lc_good
theorem good_setInactive : ∀ s s' : St, Good s → step s .setInactive = some s' → Good s' := by lc_good
theorem good_activate : ∀ s s' : St, Good s → step s .activate = some s' → Good s' := by lc_good
theorem good_runStarted : ∀ s s' : St, Good s → step s .runStarted = some s' → Good s' := by lc_good
theorem good_startRunFailed : ∀ s s' : St, Good s → step s .startRunFailed = some s' → Good s' := by lc_good
theorem good_starterDeactivate : ∀ s s' : St, Good s → step s .starterDeactivate = some s' → Good s' := by lc_good
theorem good_loopStart : ∀ s s' : St, Good s → step s .loopStart = some s' → Good s' := by lc_good
theorem good_gotBlock : ∀ s s' : St, Good s → step s .gotBlock = some s' → Good s' := by lc_good
theorem good_processed : ∀ s s' : St, Good s → step s .processed = some s' → Good s' := by lc_good
theorem good_processFailed : ∀ s s' : St, Good s → step s .processFailed = some s' → Good s' := by lc_good
theorem good_reply : ∀ s s' : St, Good s → step s .reply = some s' → Good s' := by lc_good
theorem good_requestDone : ∀ s s' : St, Good s → step s .requestDone = some s' → Good s' := by lc_good
theorem good_gotClosed : ∀ s s' : St, Good s → step s .gotClosed = some s' → Good s' := by lc_good
theorem good_gotError : ∀ s s' : St, Good s → step s .gotError = some s' → Good s' := by lc_good
theorem good_loopDeactivate : ∀ s s' : St, Good s → step s .loopDeactivate = some s' → Good s' := by lc_good
theorem good_callStop : ∀ s s' : St, Good s → step s .callStop = some s' → Good s' := by lc_good
theorem good_stopNotActive : ∀ s s' : St, Good s → step s .stopNotActive = some s' → Good s' := by lc_good
theorem good_stopOnStarting : ∀ s s' : St, Good s → step s .stopOnStarting = some s' → Good s' := by lc_good
theorem good_stopAlready : ∀ s s' : St, Good s → step s .stopAlready = some s' → Good s' := by lc_good
theorem good_stopDecide : ∀ s s' : St, Good s → step s .stopDecide = some s' → Good s' := by lc_good
theorem good_stopSwitched : ∀ s s' : St, Good s → step s .stopSwitched = some s' → Good s' := by lc_good
theorem good_stopWaited : ∀ s s' : St, Good s → step s .stopWaited = some s' → Good s' := by lc_good
theorem good_stopCleaned : ∀ s s' : St, Good s → step s .stopCleaned = some s' → Good s' := by lc_good
theorem good_tick : ∀ s s' : St, Good s → step s .tick = some s' → Good s' := by lc_good
theorem good_send : ∀ s s' : St, Good s → step s .send = some s' → Good s' := by lc_good
theorem good_sendError : ∀ s s' : St, Good s → step s .sendError = some s' → Good s' := by lc_good
theorem good_selfClose : ∀ s s' : St, Good s → step s .selfClose = some s' → Good s' := by lc_good
theorem good_abortSeen : ∀ s s' : St, Good s → step s .abortSeen = some s' → Good s' := by lc_good
theorem good_callRpc : ∀ s s' : St, Good s → step s .callRpc = some s' → Good s' := by lc_good
theorem good_rpcNotActive : ∀ s s' : St, Good s → step s .rpcNotActive = some s' → Good s' := by lc_good
theorem good_rpcPass : ∀ s s' : St, Good s → step s .rpcPass = some s' → Good s' := by lc_good
theorem good_rpcSourceGone : ∀ s s' : St, Good s → step s .rpcSourceGone = some s' → Good s' := by lc_good
theorem good_flagOn : ∀ s s' : St, Good s → step s .flagOn = some s' → Good s' := by lc_good
theorem good_flagOff : ∀ s s' : St, Good s → step s .flagOff = some s' → Good s' := by lc_good
theorem good_scStartRefused : ∀ s s' : St, Good s → step s .scStartRefused = some s' → Good s' := by lc_good
theorem good_scStopNotActive : ∀ s s' : St, Good s → step s .scStopNotActive = some s' → Good s' := by lc_good
theorem good_flagRefresh : ∀ s s' : St, Good s → step s .flagRefresh = some s' → Good s' := by lc_good
theorem good_prepared (f : Nat) : ∀ s s' : St, Good s → step s (.prepared f) = some s' → Good s' := by lc_good
theorem good_gotRequest (n : Nat) (w : WEff) : ∀ s s' : St, Good s → step s (.gotRequest n w) = some s' → Good s' := by lc_good

theorem good_step {s s' : St} {e : Ev} (h : Good s) (hs : step s e = some s') : Good s' := by
  cases e with
  | callStart => exact good_callStart s s' h hs
  | startOk => exact good_startOk s s' h hs
  | startRejected => exact good_startRejected s s' h hs
  | sampled => exact good_sampled s s' h hs
  | sampleFailed => exact good_sampleFailed s s' h hs
  | chans => exact good_chans s s' h hs
  | chansFailed => exact good_chansFailed s s' h hs
  | prepareFailed => exact good_prepareFailed s s' h hs
  | setInactive => exact good_setInactive s s' h hs
  | activate => exact good_activate s s' h hs
  | runStarted => exact good_runStarted s s' h hs
  | startRunFailed => exact good_startRunFailed s s' h hs
  | starterDeactivate => exact good_starterDeactivate s s' h hs
  | loopStart => exact good_loopStart s s' h hs
  | gotBlock => exact good_gotBlock s s' h hs
  | processed => exact good_processed s s' h hs
  | processFailed => exact good_processFailed s s' h hs
  | reply => exact good_reply s s' h hs
  | requestDone => exact good_requestDone s s' h hs
  | gotClosed => exact good_gotClosed s s' h hs
  | gotError => exact good_gotError s s' h hs
  | loopDeactivate => exact good_loopDeactivate s s' h hs
  | callStop => exact good_callStop s s' h hs
  | stopNotActive => exact good_stopNotActive s s' h hs
  | stopOnStarting => exact good_stopOnStarting s s' h hs
  | stopAlready => exact good_stopAlready s s' h hs
  | stopDecide => exact good_stopDecide s s' h hs
  | stopSwitched => exact good_stopSwitched s s' h hs
  | stopWaited => exact good_stopWaited s s' h hs
  | stopCleaned => exact good_stopCleaned s s' h hs
  | tick => exact good_tick s s' h hs
  | send => exact good_send s s' h hs
  | sendError => exact good_sendError s s' h hs
  | abortSeen => exact good_abortSeen s s' h hs
  | selfClose => exact good_selfClose s s' h hs
  | callRpc => exact good_callRpc s s' h hs
  | rpcNotActive => exact good_rpcNotActive s s' h hs
  | rpcPass => exact good_rpcPass s s' h hs
  | rpcSourceGone => exact good_rpcSourceGone s s' h hs
  | flagOn => exact good_flagOn s s' h hs
  | flagOff => exact good_flagOff s s' h hs
  | flagRefresh => exact good_flagRefresh s s' h hs
  | scStartRefused => exact good_scStartRefused s s' h hs
  | scStopNotActive => exact good_scStopNotActive s s' h hs
  | prepared f => exact good_prepared f s s' h hs
  | gotRequest n w => exact good_gotRequest n w s s' h hs

/-! ### Invariant under the environment discipline E (`envOK`) -/

structure GoodE (s : St) : Prop where
  serial : stoppers s > 0 → s.sEnter = 0 ∧ s.sp = .idle
  wait_ending : s.kWait > 0 → (s.st = .stopping ∨ s.st = .inactive)
  clean_inactive : s.kClean > 0 → s.st = .inactive
  ready_inactive : s.kReady > 0 → s.st = .inactive
  done_quiet : s.stopsDone > 0 → s.sEnter = 0 ∧ s.sp = .idle ∧ s.st ≠ .active

theorem goodE_init (o : Bool) : GoodE (init o) := by
  constructor <;> simp [init, stoppers]

macro "lc_goodE" : tactic => `(tactic| (
  intro s s' h he hok hs
  obtain ⟨st, sEnter, sp, kEnter, kDecided, kWait, kReady, kClean, lp, pp, abortClosed, nbClosed, wg, writing, res, opens, crashed,
    fuel, flag, rEnter, rSend, rWait, runOver, stopsDone, asm⟩ := s
  obtain ⟨h1, h2, h3, h4, h5, h6, h7, h8, h9, h10, h11, h12, h13, h14, h15, h16, h17, h18, h19⟩ := h
  obtain ⟨e1, e2, e3, e4, e5⟩ := he
  dsimp only [stoppers] at h1 h2 h3 h4 h5 h6 h7 h8 h9 h10 h11 h12 h13 h14 h15 h16 h17 h18 h19 e1 e2 e3 e4 e5
  simp only [envOK, stoppers] at hok
  lc_open hs
  all_goals try (have hser := e1 (by omega))
  all_goals (constructor <;> dsimp only [stoppers] <;> (try simp only [deactivate]) <;> (try split) <;>
    simp_all [LPc.alive, LPc.working, PPc.alive, SPc.inStarting, SPc.owner, SrcState.running, LPc.serving] <;> (try omega) <;> (try grind))))

theorem goodE_callStart : ∀ s s' : St, Good s → GoodE s → envOK s .callStart = true → step s .callStart = some s' → GoodE s' := by lc_goodE
theorem goodE_startOk : ∀ s s' : St, Good s → GoodE s → envOK s .startOk = true → step s .startOk = some s' → GoodE s' := by lc_goodE
theorem goodE_startRejected : ∀ s s' : St, Good s → GoodE s → envOK s .startRejected = true → step s .startRejected = some s' → GoodE s' := by lc_goodE
theorem goodE_sampled : ∀ s s' : St, Good s → GoodE s → envOK s .sampled = true → step s .sampled = some s' → GoodE s' := by lc_goodE
theorem goodE_sampleFailed : ∀ s s' : St, Good s → GoodE s → envOK s .sampleFailed = true → step s .sampleFailed = some s' → GoodE s' := by lc_goodE
theorem goodE_chans : ∀ s s' : St, Good s → GoodE s → envOK s .chans = true → step s .chans = some s' → GoodE s' := by lc_goodE
theorem goodE_chansFailed : ∀ s s' : St, Good s → GoodE s → envOK s .chansFailed = true → step s .chansFailed = some s' → GoodE s' := by lc_goodE
theorem goodE_prepareFailed : ∀ s s' : St, Good s → GoodE s → envOK s .prepareFailed = true → step s .prepareFailed = some s' → GoodE s' := by lc_goodE
theorem goodE_setInactive : ∀ s s' : St, Good s → GoodE s → envOK s .setInactive = true → step s .setInactive = some s' → GoodE s' := by lc_goodE
theorem goodE_activate : ∀ s s' : St, Good s → GoodE s → envOK s .activate = true → step s .activate = some s' → GoodE s' := by lc_goodE
theorem goodE_runStarted : ∀ s s' : St, Good s → GoodE s → envOK s .runStarted = true → step s .runStarted = some s' → GoodE s' := by lc_goodE
theorem goodE_startRunFailed : ∀ s s' : St, Good s → GoodE s → envOK s .startRunFailed = true → step s .startRunFailed = some s' → GoodE s' := by lc_goodE
theorem goodE_starterDeactivate : ∀ s s' : St, Good s → GoodE s → envOK s .starterDeactivate = true → step s .starterDeactivate = some s' → GoodE s' := by lc_goodE
theorem goodE_loopStart : ∀ s s' : St, Good s → GoodE s → envOK s .loopStart = true → step s .loopStart = some s' → GoodE s' := by lc_goodE
theorem goodE_gotBlock : ∀ s s' : St, Good s → GoodE s → envOK s .gotBlock = true → step s .gotBlock = some s' → GoodE s' := by lc_goodE
theorem goodE_processed : ∀ s s' : St, Good s → GoodE s → envOK s .processed = true → step s .processed = some s' → GoodE s' := by lc_goodE
theorem goodE_processFailed : ∀ s s' : St, Good s → GoodE s → envOK s .processFailed = true → step s .processFailed = some s' → GoodE s' := by lc_goodE
theorem goodE_reply : ∀ s s' : St, Good s → GoodE s → envOK s .reply = true → step s .reply = some s' → GoodE s' := by lc_goodE
theorem goodE_requestDone : ∀ s s' : St, Good s → GoodE s → envOK s .requestDone = true → step s .requestDone = some s' → GoodE s' := by lc_goodE
theorem goodE_gotClosed : ∀ s s' : St, Good s → GoodE s → envOK s .gotClosed = true → step s .gotClosed = some s' → GoodE s' := by lc_goodE
theorem goodE_gotError : ∀ s s' : St, Good s → GoodE s → envOK s .gotError = true → step s .gotError = some s' → GoodE s' := by lc_goodE
theorem goodE_loopDeactivate : ∀ s s' : St, Good s → GoodE s → envOK s .loopDeactivate = true → step s .loopDeactivate = some s' → GoodE s' := by lc_goodE
theorem goodE_callStop : ∀ s s' : St, Good s → GoodE s → envOK s .callStop = true → step s .callStop = some s' → GoodE s' := by lc_goodE
theorem goodE_stopNotActive : ∀ s s' : St, Good s → GoodE s → envOK s .stopNotActive = true → step s .stopNotActive = some s' → GoodE s' := by lc_goodE
theorem goodE_stopOnStarting : ∀ s s' : St, Good s → GoodE s → envOK s .stopOnStarting = true → step s .stopOnStarting = some s' → GoodE s' := by lc_goodE
theorem goodE_stopAlready : ∀ s s' : St, Good s → GoodE s → envOK s .stopAlready = true → step s .stopAlready = some s' → GoodE s' := by lc_goodE
theorem goodE_stopDecide : ∀ s s' : St, Good s → GoodE s → envOK s .stopDecide = true → step s .stopDecide = some s' → GoodE s' := by lc_goodE
theorem goodE_stopSwitched : ∀ s s' : St, Good s → GoodE s → envOK s .stopSwitched = true → step s .stopSwitched = some s' → GoodE s' := by lc_goodE
theorem goodE_stopWaited : ∀ s s' : St, Good s → GoodE s → envOK s .stopWaited = true → step s .stopWaited = some s' → GoodE s' := by lc_goodE
theorem goodE_stopCleaned : ∀ s s' : St, Good s → GoodE s → envOK s .stopCleaned = true → step s .stopCleaned = some s' → GoodE s' := by lc_goodE
theorem goodE_tick : ∀ s s' : St, Good s → GoodE s → envOK s .tick = true → step s .tick = some s' → GoodE s' := by lc_goodE
theorem goodE_send : ∀ s s' : St, Good s → GoodE s → envOK s .send = true → step s .send = some s' → GoodE s' := by lc_goodE
theorem goodE_sendError : ∀ s s' : St, Good s → GoodE s → envOK s .sendError = true → step s .sendError = some s' → GoodE s' := by lc_goodE
theorem goodE_selfClose : ∀ s s' : St, Good s → GoodE s → envOK s .selfClose = true → step s .selfClose = some s' → GoodE s' := by lc_goodE
theorem goodE_abortSeen : ∀ s s' : St, Good s → GoodE s → envOK s .abortSeen = true → step s .abortSeen = some s' → GoodE s' := by lc_goodE
theorem goodE_callRpc : ∀ s s' : St, Good s → GoodE s → envOK s .callRpc = true → step s .callRpc = some s' → GoodE s' := by lc_goodE
theorem goodE_rpcNotActive : ∀ s s' : St, Good s → GoodE s → envOK s .rpcNotActive = true → step s .rpcNotActive = some s' → GoodE s' := by lc_goodE
theorem goodE_rpcPass : ∀ s s' : St, Good s → GoodE s → envOK s .rpcPass = true → step s .rpcPass = some s' → GoodE s' := by lc_goodE
theorem goodE_rpcSourceGone : ∀ s s' : St, Good s → GoodE s → envOK s .rpcSourceGone = true → step s .rpcSourceGone = some s' → GoodE s' := by lc_goodE
theorem goodE_flagOn : ∀ s s' : St, Good s → GoodE s → envOK s .flagOn = true → step s .flagOn = some s' → GoodE s' := by lc_goodE
theorem goodE_flagOff : ∀ s s' : St, Good s → GoodE s → envOK s .flagOff = true → step s .flagOff = some s' → GoodE s' := by lc_goodE
theorem goodE_scStartRefused : ∀ s s' : St, Good s → GoodE s → envOK s .scStartRefused = true → step s .scStartRefused = some s' → GoodE s' := by lc_goodE
theorem goodE_scStopNotActive : ∀ s s' : St, Good s → GoodE s → envOK s .scStopNotActive = true → step s .scStopNotActive = some s' → GoodE s' := by lc_goodE
theorem goodE_flagRefresh : ∀ s s' : St, Good s → GoodE s → envOK s .flagRefresh = true → step s .flagRefresh = some s' → GoodE s' := by lc_goodE
theorem goodE_prepared (f : Nat) : ∀ s s' : St, Good s → GoodE s → envOK s (.prepared f) = true → step s (.prepared f) = some s' → GoodE s' := by lc_goodE
theorem goodE_gotRequest (n : Nat) (w : WEff) : ∀ s s' : St, Good s → GoodE s → envOK s (.gotRequest n w) = true → step s (.gotRequest n w) = some s' → GoodE s' := by lc_goodE

theorem goodE_step {s s' : St} {e : Ev} (h : Good s) (he : GoodE s) (hok : envOK s e = true)
    (hs : step s e = some s') : GoodE s' := by
  cases e with
  | callStart => exact goodE_callStart s s' h he hok hs
  | startOk => exact goodE_startOk s s' h he hok hs
  | startRejected => exact goodE_startRejected s s' h he hok hs
  | sampled => exact goodE_sampled s s' h he hok hs
  | sampleFailed => exact goodE_sampleFailed s s' h he hok hs
  | chans => exact goodE_chans s s' h he hok hs
  | chansFailed => exact goodE_chansFailed s s' h he hok hs
  | prepareFailed => exact goodE_prepareFailed s s' h he hok hs
  | setInactive => exact goodE_setInactive s s' h he hok hs
  | activate => exact goodE_activate s s' h he hok hs
  | runStarted => exact goodE_runStarted s s' h he hok hs
  | startRunFailed => exact goodE_startRunFailed s s' h he hok hs
  | starterDeactivate => exact goodE_starterDeactivate s s' h he hok hs
  | loopStart => exact goodE_loopStart s s' h he hok hs
  | gotBlock => exact goodE_gotBlock s s' h he hok hs
  | processed => exact goodE_processed s s' h he hok hs
  | processFailed => exact goodE_processFailed s s' h he hok hs
  | reply => exact goodE_reply s s' h he hok hs
  | requestDone => exact goodE_requestDone s s' h he hok hs
  | gotClosed => exact goodE_gotClosed s s' h he hok hs
  | gotError => exact goodE_gotError s s' h he hok hs
  | loopDeactivate => exact goodE_loopDeactivate s s' h he hok hs
  | callStop => exact goodE_callStop s s' h he hok hs
  | stopNotActive => exact goodE_stopNotActive s s' h he hok hs
  | stopOnStarting => exact goodE_stopOnStarting s s' h he hok hs
  | stopAlready => exact goodE_stopAlready s s' h he hok hs
  | stopDecide => exact goodE_stopDecide s s' h he hok hs
  | stopSwitched => exact goodE_stopSwitched s s' h he hok hs
  | stopWaited => exact goodE_stopWaited s s' h he hok hs
  | stopCleaned => exact goodE_stopCleaned s s' h he hok hs
  | tick => exact goodE_tick s s' h he hok hs
  | send => exact goodE_send s s' h he hok hs
  | sendError => exact goodE_sendError s s' h he hok hs
  | abortSeen => exact goodE_abortSeen s s' h he hok hs
  | selfClose => exact goodE_selfClose s s' h he hok hs
  | callRpc => exact goodE_callRpc s s' h he hok hs
  | rpcNotActive => exact goodE_rpcNotActive s s' h he hok hs
  | rpcPass => exact goodE_rpcPass s s' h he hok hs
  | rpcSourceGone => exact goodE_rpcSourceGone s s' h he hok hs
  | flagOn => exact goodE_flagOn s s' h he hok hs
  | flagOff => exact goodE_flagOff s s' h he hok hs
  | flagRefresh => exact goodE_flagRefresh s s' h he hok hs
  | scStartRefused => exact goodE_scStartRefused s s' h he hok hs
  | scStopNotActive => exact goodE_scStopNotActive s s' h he hok hs
  | prepared f => exact goodE_prepared f s s' h he hok hs
  | gotRequest n w => exact goodE_gotRequest n w s s' h he hok hs

/-! ### Request accounting when every closure replies exactly once (`Ev.wf`) -/

def pendingReplies : LPc → Nat
  | .req n => n
  | _ => 0

def GoodW (s : St) : Prop := s.rWait = pendingReplies s.lp

theorem goodW_init (o : Bool) : GoodW (init o) := by simp [GoodW, init, pendingReplies]

macro "lc_goodW" : tactic => `(tactic| (
  intro s s' hg hw hwf hs
  obtain ⟨st, sEnter, sp, kEnter, kDecided, kWait, kReady, kClean, lp, pp, abortClosed, nbClosed, wg, writing, res, opens, crashed,
    fuel, flag, rEnter, rSend, rWait, runOver, stopsDone, asm⟩ := s
  have hex := hg.excl
  clear hg
  dsimp only at hex
  simp only [GoodW] at hw ⊢
  simp only [Ev.wf] at hwf
  lc_open hs
  all_goals ((try simp only [deactivate]) <;> (try split) <;> simp_all [pendingReplies] <;> (try omega))))

theorem goodW_callStart : ∀ s s' : St, Good s → GoodW s → Ev.wf .callStart = true → step s .callStart = some s' → GoodW s' := by lc_goodW
theorem goodW_startOk : ∀ s s' : St, Good s → GoodW s → Ev.wf .startOk = true → step s .startOk = some s' → GoodW s' := by lc_goodW
theorem goodW_startRejected : ∀ s s' : St, Good s → GoodW s → Ev.wf .startRejected = true → step s .startRejected = some s' → GoodW s' := by lc_goodW
theorem goodW_sampled : ∀ s s' : St, Good s → GoodW s → Ev.wf .sampled = true → step s .sampled = some s' → GoodW s' := by lc_goodW
theorem goodW_sampleFailed : ∀ s s' : St, Good s → GoodW s → Ev.wf .sampleFailed = true → step s .sampleFailed = some s' → GoodW s' := by lc_goodW
theorem goodW_chans : ∀ s s' : St, Good s → GoodW s → Ev.wf .chans = true → step s .chans = some s' → GoodW s' := by lc_goodW
theorem goodW_chansFailed : ∀ s s' : St, Good s → GoodW s → Ev.wf .chansFailed = true → step s .chansFailed = some s' → GoodW s' := by lc_goodW
theorem goodW_prepareFailed : ∀ s s' : St, Good s → GoodW s → Ev.wf .prepareFailed = true → step s .prepareFailed = some s' → GoodW s' := by lc_goodW
theorem goodW_setInactive : ∀ s s' : St, Good s → GoodW s → Ev.wf .setInactive = true → step s .setInactive = some s' → GoodW s' := by lc_goodW
theorem goodW_activate : ∀ s s' : St, Good s → GoodW s → Ev.wf .activate = true → step s .activate = some s' → GoodW s' := by lc_goodW
theorem goodW_runStarted : ∀ s s' : St, Good s → GoodW s → Ev.wf .runStarted = true → step s .runStarted = some s' → GoodW s' := by lc_goodW
theorem goodW_startRunFailed : ∀ s s' : St, Good s → GoodW s → Ev.wf .startRunFailed = true → step s .startRunFailed = some s' → GoodW s' := by lc_goodW
theorem goodW_starterDeactivate : ∀ s s' : St, Good s → GoodW s → Ev.wf .starterDeactivate = true → step s .starterDeactivate = some s' → GoodW s' := by lc_goodW
theorem goodW_loopStart : ∀ s s' : St, Good s → GoodW s → Ev.wf .loopStart = true → step s .loopStart = some s' → GoodW s' := by lc_goodW
theorem goodW_gotBlock : ∀ s s' : St, Good s → GoodW s → Ev.wf .gotBlock = true → step s .gotBlock = some s' → GoodW s' := by lc_goodW
theorem goodW_processed : ∀ s s' : St, Good s → GoodW s → Ev.wf .processed = true → step s .processed = some s' → GoodW s' := by lc_goodW
theorem goodW_processFailed : ∀ s s' : St, Good s → GoodW s → Ev.wf .processFailed = true → step s .processFailed = some s' → GoodW s' := by lc_goodW
theorem goodW_requestDone : ∀ s s' : St, Good s → GoodW s → Ev.wf .requestDone = true → step s .requestDone = some s' → GoodW s' := by lc_goodW
theorem goodW_gotClosed : ∀ s s' : St, Good s → GoodW s → Ev.wf .gotClosed = true → step s .gotClosed = some s' → GoodW s' := by lc_goodW
theorem goodW_gotError : ∀ s s' : St, Good s → GoodW s → Ev.wf .gotError = true → step s .gotError = some s' → GoodW s' := by lc_goodW
theorem goodW_loopDeactivate : ∀ s s' : St, Good s → GoodW s → Ev.wf .loopDeactivate = true → step s .loopDeactivate = some s' → GoodW s' := by lc_goodW
theorem goodW_callStop : ∀ s s' : St, Good s → GoodW s → Ev.wf .callStop = true → step s .callStop = some s' → GoodW s' := by lc_goodW
theorem goodW_stopNotActive : ∀ s s' : St, Good s → GoodW s → Ev.wf .stopNotActive = true → step s .stopNotActive = some s' → GoodW s' := by lc_goodW
theorem goodW_stopOnStarting : ∀ s s' : St, Good s → GoodW s → Ev.wf .stopOnStarting = true → step s .stopOnStarting = some s' → GoodW s' := by lc_goodW
theorem goodW_stopAlready : ∀ s s' : St, Good s → GoodW s → Ev.wf .stopAlready = true → step s .stopAlready = some s' → GoodW s' := by lc_goodW
theorem goodW_stopDecide : ∀ s s' : St, Good s → GoodW s → Ev.wf .stopDecide = true → step s .stopDecide = some s' → GoodW s' := by lc_goodW
theorem goodW_stopSwitched : ∀ s s' : St, Good s → GoodW s → Ev.wf .stopSwitched = true → step s .stopSwitched = some s' → GoodW s' := by lc_goodW
theorem goodW_stopWaited : ∀ s s' : St, Good s → GoodW s → Ev.wf .stopWaited = true → step s .stopWaited = some s' → GoodW s' := by lc_goodW
theorem goodW_stopCleaned : ∀ s s' : St, Good s → GoodW s → Ev.wf .stopCleaned = true → step s .stopCleaned = some s' → GoodW s' := by lc_goodW
theorem goodW_tick : ∀ s s' : St, Good s → GoodW s → Ev.wf .tick = true → step s .tick = some s' → GoodW s' := by lc_goodW
theorem goodW_send : ∀ s s' : St, Good s → GoodW s → Ev.wf .send = true → step s .send = some s' → GoodW s' := by lc_goodW
theorem goodW_sendError : ∀ s s' : St, Good s → GoodW s → Ev.wf .sendError = true → step s .sendError = some s' → GoodW s' := by lc_goodW
theorem goodW_selfClose : ∀ s s' : St, Good s → GoodW s → Ev.wf .selfClose = true → step s .selfClose = some s' → GoodW s' := by lc_goodW
theorem goodW_abortSeen : ∀ s s' : St, Good s → GoodW s → Ev.wf .abortSeen = true → step s .abortSeen = some s' → GoodW s' := by lc_goodW
theorem goodW_callRpc : ∀ s s' : St, Good s → GoodW s → Ev.wf .callRpc = true → step s .callRpc = some s' → GoodW s' := by lc_goodW
theorem goodW_rpcNotActive : ∀ s s' : St, Good s → GoodW s → Ev.wf .rpcNotActive = true → step s .rpcNotActive = some s' → GoodW s' := by lc_goodW
theorem goodW_rpcPass : ∀ s s' : St, Good s → GoodW s → Ev.wf .rpcPass = true → step s .rpcPass = some s' → GoodW s' := by lc_goodW
theorem goodW_rpcSourceGone : ∀ s s' : St, Good s → GoodW s → Ev.wf .rpcSourceGone = true → step s .rpcSourceGone = some s' → GoodW s' := by lc_goodW
theorem goodW_flagOn : ∀ s s' : St, Good s → GoodW s → Ev.wf .flagOn = true → step s .flagOn = some s' → GoodW s' := by lc_goodW
theorem goodW_flagOff : ∀ s s' : St, Good s → GoodW s → Ev.wf .flagOff = true → step s .flagOff = some s' → GoodW s' := by lc_goodW
theorem goodW_scStartRefused : ∀ s s' : St, Good s → GoodW s → Ev.wf .scStartRefused = true → step s .scStartRefused = some s' → GoodW s' := by lc_goodW
theorem goodW_scStopNotActive : ∀ s s' : St, Good s → GoodW s → Ev.wf .scStopNotActive = true → step s .scStopNotActive = some s' → GoodW s' := by lc_goodW
theorem goodW_flagRefresh : ∀ s s' : St, Good s → GoodW s → Ev.wf .flagRefresh = true → step s .flagRefresh = some s' → GoodW s' := by lc_goodW
theorem goodW_prepared (f : Nat) : ∀ s s' : St, Good s → GoodW s → Ev.wf (.prepared f) = true → step s (.prepared f) = some s' → GoodW s' := by lc_goodW
theorem goodW_gotRequest (n : Nat) (w : WEff) : ∀ s s' : St, Good s → GoodW s → Ev.wf (.gotRequest n w) = true → step s (.gotRequest n w) = some s' → GoodW s' := by lc_goodW

theorem goodW_reply : ∀ s s' : St, Good s → GoodW s → Ev.wf .reply = true → step s .reply = some s' → GoodW s' := by
  intro s s' _ hw _ hs
  obtain ⟨st, sEnter, sp, kEnter, kDecided, kWait, kReady, kClean, lp, pp, abortClosed, nbClosed, wg, writing, res, opens, crashed,
    fuel, flag, rEnter, rSend, rWait, runOver, stopsDone, asm⟩ := s
  simp only [GoodW] at hw ⊢
  unfold step at hs
  dsimp only at hs
  split at hs
  · contradiction
  split at hs
  · split at hs
    · simp only [Option.some.injEq] at hs; subst hs
      simp_all [pendingReplies]
    · contradiction
  · contradiction

theorem goodW_step {s s' : St} {e : Ev} (hg : Good s) (hw : GoodW s) (hwf : e.wf = true) (hs : step s e = some s') : GoodW s' := by
  cases e with
  | callStart => exact goodW_callStart s s' hg hw hwf hs
  | startOk => exact goodW_startOk s s' hg hw hwf hs
  | startRejected => exact goodW_startRejected s s' hg hw hwf hs
  | sampled => exact goodW_sampled s s' hg hw hwf hs
  | sampleFailed => exact goodW_sampleFailed s s' hg hw hwf hs
  | chans => exact goodW_chans s s' hg hw hwf hs
  | chansFailed => exact goodW_chansFailed s s' hg hw hwf hs
  | prepareFailed => exact goodW_prepareFailed s s' hg hw hwf hs
  | setInactive => exact goodW_setInactive s s' hg hw hwf hs
  | activate => exact goodW_activate s s' hg hw hwf hs
  | runStarted => exact goodW_runStarted s s' hg hw hwf hs
  | startRunFailed => exact goodW_startRunFailed s s' hg hw hwf hs
  | starterDeactivate => exact goodW_starterDeactivate s s' hg hw hwf hs
  | loopStart => exact goodW_loopStart s s' hg hw hwf hs
  | gotBlock => exact goodW_gotBlock s s' hg hw hwf hs
  | processed => exact goodW_processed s s' hg hw hwf hs
  | processFailed => exact goodW_processFailed s s' hg hw hwf hs
  | reply => exact goodW_reply s s' hg hw hwf hs
  | requestDone => exact goodW_requestDone s s' hg hw hwf hs
  | gotClosed => exact goodW_gotClosed s s' hg hw hwf hs
  | gotError => exact goodW_gotError s s' hg hw hwf hs
  | loopDeactivate => exact goodW_loopDeactivate s s' hg hw hwf hs
  | callStop => exact goodW_callStop s s' hg hw hwf hs
  | stopNotActive => exact goodW_stopNotActive s s' hg hw hwf hs
  | stopOnStarting => exact goodW_stopOnStarting s s' hg hw hwf hs
  | stopAlready => exact goodW_stopAlready s s' hg hw hwf hs
  | stopDecide => exact goodW_stopDecide s s' hg hw hwf hs
  | stopSwitched => exact goodW_stopSwitched s s' hg hw hwf hs
  | stopWaited => exact goodW_stopWaited s s' hg hw hwf hs
  | stopCleaned => exact goodW_stopCleaned s s' hg hw hwf hs
  | tick => exact goodW_tick s s' hg hw hwf hs
  | send => exact goodW_send s s' hg hw hwf hs
  | sendError => exact goodW_sendError s s' hg hw hwf hs
  | abortSeen => exact goodW_abortSeen s s' hg hw hwf hs
  | selfClose => exact goodW_selfClose s s' hg hw hwf hs
  | callRpc => exact goodW_callRpc s s' hg hw hwf hs
  | rpcNotActive => exact goodW_rpcNotActive s s' hg hw hwf hs
  | rpcPass => exact goodW_rpcPass s s' hg hw hwf hs
  | rpcSourceGone => exact goodW_rpcSourceGone s s' hg hw hwf hs
  | flagOn => exact goodW_flagOn s s' hg hw hwf hs
  | flagOff => exact goodW_flagOff s s' hg hw hwf hs
  | flagRefresh => exact goodW_flagRefresh s s' hg hw hwf hs
  | scStartRefused => exact goodW_scStartRefused s s' hg hw hwf hs
  | scStopNotActive => exact goodW_scStopNotActive s s' hg hw hwf hs
  | prepared f => exact goodW_prepared f s s' hg hw hwf hs
  | gotRequest n w => exact goodW_gotRequest n w s s' hg hw hwf hs

end DastardV.C10
