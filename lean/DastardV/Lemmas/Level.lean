/-
The level pass (`levelLoop`): never panics, sound, complete up to one record before/after an
already-found (edge) trigger, separated from the found triggers.
-/
import DastardV.Lemmas.Edge
namespace DastardV.Trig

/-- the level criterion at buffer index `x` -/
def levelAt (c : Chan) (x : Int) : Bool :=
  match rd c.buf x, rd c.buf (x - 1) with
  | some a, some b => levelCrit c a b
  | _, _ => false

structure LevelSpec (c : Chan) (hi i : Int) (found res : List Int) : Prop where
  range : ∀ x ∈ res, i ≤ x ∧ x < hi
  sound : ∀ x ∈ res, levelAt c x = true
  complete : ∀ j, i ≤ j → j < hi → levelAt c j = true →
    j ∈ res ∨ ∃ t ∈ found, t - c.nsamp < j ∧ j < t + c.nsamp
  separated : ∀ x ∈ res, ∀ t ∈ found, x + c.nsamp ≤ t ∨ t + c.nsamp ≤ x
  ascending : res.Pairwise (· < ·)

/-- `found` is ascending with the spacing of the edge pass and does not start before `i` -/
def FoundOK (c : Chan) (i : Int) (found : List Int) : Prop :=
  (∀ t ∈ found, i ≤ t) ∧ found.Pairwise (fun a b => a + c.nsamp + 1 ≤ b)

theorem levelLoop_spec (c : Chan) (hi : Int) (hns : 1 ≤ c.nsamp) (hhi : hi ≤ c.buf.length) :
    ∀ (n : Nat) (i : Int) (found acc : List Int), (hi - i).toNat ≤ n → 1 ≤ i → FoundOK c i found →
      ∃ res, levelLoop c hi i found acc = some (acc ++ res) ∧ LevelSpec c hi i found res := by
  intro n
  induction n with
  | zero =>
    intro i found acc hn h1 _
    have hge : ¬ i < hi := by omega
    refine ⟨[], ?_, ⟨by simp, by simp, ?_, by simp, by simp⟩⟩
    · unfold levelLoop; simp [hge]
    · intro j h1 h2; omega
  | succ n ih =>
    intro i found acc hn h1 hfound
    by_cases hlt : i < hi
    · obtain ⟨a, ha⟩ := rd_some (raw := c.buf) (i := i) (by omega) (by omega)
      obtain ⟨b, hb⟩ := rd_some (raw := c.buf) (i := i - 1) (by omega) (by omega)
      have hat : levelAt c i = levelCrit c a b := by simp [levelAt, ha, hb]
      -- the generic "examine index i" step, with the found list unchanged
      have examine : ∀ (fnd : List Int), FoundOK c (i + 1) fnd →
          (∀ t ∈ fnd, i + c.nsamp ≤ t) →
          ∃ res, (if levelCrit c a b then levelLoop c hi (i + 1) fnd (acc ++ [i])
                  else levelLoop c hi (i + 1) fnd acc) = some (acc ++ res) ∧ LevelSpec c hi i fnd res := by
        intro fnd hf hfar
        by_cases hcrit : levelCrit c a b = true
        · obtain ⟨res, hres, hs⟩ := ih (i + 1) fnd (acc ++ [i]) (by omega) (by omega) hf
          refine ⟨i :: res, by simp [hcrit, hres], ?_⟩
          refine ⟨?_, ?_, ?_, ?_, ?_⟩
          · intro x hx
            rcases List.mem_cons.mp hx with rfl | hx
            · exact ⟨by omega, hlt⟩
            · have := hs.range x hx; omega
          · intro x hx
            rcases List.mem_cons.mp hx with rfl | hx
            · rw [hat]; exact hcrit
            · exact hs.sound x hx
          · intro j hj1 hj2 hj
            by_cases hji : j = i
            · left; simp [hji]
            · rcases hs.complete j (by omega) hj2 hj with h | h
              · left; exact List.mem_cons_of_mem _ h
              · right; exact h
          · intro x hx t ht
            rcases List.mem_cons.mp hx with rfl | hx
            · left; exact hfar t ht
            · exact hs.separated x hx t ht
          · refine List.pairwise_cons.mpr ⟨?_, hs.ascending⟩
            intro x hx; have := hs.range x hx; omega
        · obtain ⟨res, hres, hs⟩ := ih (i + 1) fnd acc (by omega) (by omega) hf
          refine ⟨res, by simp [hcrit, hres], ?_⟩
          refine ⟨?_, hs.sound, ?_, hs.separated, hs.ascending⟩
          · intro x hx; have := hs.range x hx; omega
          · intro j hj1 hj2 hj
            by_cases hji : j = i
            · subst hji; rw [hat] at hj; exact absurd hj hcrit
            · exact hs.complete j (by omega) hj2 hj
      cases found with
      | nil =>
        obtain ⟨res, hres, hs⟩ := examine [] ⟨by simp, by simp⟩ (by simp)
        refine ⟨res, ?_, hs⟩
        rw [levelLoop]
        simp only [hlt, if_true, ha, hb]
        exact hres
      | cons nf rest =>
        obtain ⟨hge, hpw⟩ := hfound
        have hnf : i ≤ nf := hge nf (by simp)
        obtain ⟨hnfrest, hpwrest⟩ := List.pairwise_cons.mp hpw
        by_cases hskip : i + c.nsamp > nf
        · -- skip around the found trigger nf: continue at nf + nsamp
          have hrestOK : FoundOK c (nf + c.nsamp) rest :=
            ⟨fun t ht => by have := hnfrest t ht; omega, hpwrest⟩
          obtain ⟨res, hres, hs⟩ := ih (nf + c.nsamp) rest acc (by omega) (by omega) hrestOK
          refine ⟨res, ?_, ?_⟩
          · rw [levelLoop]
            simp only [hlt, if_true, hskip]
            have h1' : ¬(c.nsamp ≤ 0 ∧ nf + c.nsamp ≤ i) := by omega
            have h2' : ¬(nf + c.nsamp ≤ i) := by omega
            simp only [h2', if_false, hres, and_false]
          · refine ⟨?_, hs.sound, ?_, ?_, hs.ascending⟩
            · intro x hx; have := hs.range x hx; omega
            · intro j hj1 hj2 hj
              by_cases hjs : j < nf + c.nsamp
              · right; exact ⟨nf, by simp, by omega, hjs⟩
              · rcases hs.complete j (by omega) hj2 hj with h | ⟨t, ht, h⟩
                · left; exact h
                · right; exact ⟨t, List.mem_cons_of_mem _ ht, h⟩
            · intro x hx t ht
              rcases List.mem_cons.mp ht with rfl | ht
              · right; have := hs.range x hx; omega
              · exact hs.separated x hx t ht
        · -- nf is at least a record ahead: examine i
          have hfar : ∀ t ∈ nf :: rest, i + c.nsamp ≤ t := by
            intro t ht
            rcases List.mem_cons.mp ht with rfl | ht
            · omega
            · have := hnfrest t ht; omega
          have hf' : FoundOK c (i + 1) (nf :: rest) :=
            ⟨fun t ht => by have := hfar t ht; omega, hpw⟩
          obtain ⟨res, hres, hs⟩ := examine (nf :: rest) hf' hfar
          refine ⟨res, ?_, hs⟩
          rw [levelLoop]
          simp only [hlt, if_true, hskip, if_false, ha, hb]
          exact hres
    · refine ⟨[], ?_, ⟨by simp, by simp, ?_, by simp, by simp⟩⟩
      · unfold levelLoop; simp [hlt]
      · intro j h1 h2; omega

end DastardV.Trig
