/-
Edge-multi never indexes outside: every record specification the search produces can be cut from
the buffer (`SpecOK`), within one call and — through the "pending edge is recent or already
recorded" invariant — across blocks.
-/
import DastardV.Lemmas.EmtRun
import DastardV.Lemmas.Auto
import DastardV.Lemmas.TrigIdx
namespace DastardV.Trig

/-- a record specification that `cut` can serve from a buffer of length `L` whose first frame is `first` -/
def SpecOK (first : Int) (L : Int) (sp : Spec) : Prop :=
  0 ≤ sp.nsamp ∧ 0 ≤ sp.frame - first - sp.npre ∧ sp.frame - first - sp.npre + sp.nsamp ≤ L

/-- extent of any record (all three modes) relative to the configured lengths -/
theorem shouldRecord_bounds {t u v npreIn nsampIn : Int} {mode : EMTMode} {sp : Spec}
    (htu : t ≤ u) (huv : u ≤ v) (hpre : 0 ≤ npreIn) (hlen : npreIn ≤ nsampIn)
    (h : shouldRecord t u v npreIn nsampIn mode = some sp) :
    sp.frame = u ∧ 0 ≤ sp.npre ∧ sp.npre ≤ npreIn ∧ sp.npre ≤ sp.nsamp ∧ sp.nsamp - sp.npre ≤ nsampIn - npreIn := by
  unfold shouldRecord at h
  simp only at h
  split at h
  · simp at h
  · rcases mode with _ | _ | _
    · simp only [Option.some.injEq] at h; subst h
      exact ⟨rfl, hpre, Int.le_refl _, hlen, Int.le_refl _⟩
    · simp only [Option.some.injEq] at h; subst h
      refine ⟨rfl, ?_, ?_, ?_, ?_⟩ <;> simp only [imin] <;> (repeat' split) <;> omega
    · simp only at h
      split at h
      · simp only [Option.some.injEq] at h; subst h
        exact ⟨rfl, hpre, Int.le_refl _, hlen, Int.le_refl _⟩
      · simp at h

theorem specOK_of_bounds {first L u npreIn nsampIn : Int} {sp : Spec}
    (hb : sp.frame = u ∧ 0 ≤ sp.npre ∧ sp.npre ≤ npreIn ∧ sp.npre ≤ sp.nsamp ∧ sp.nsamp - sp.npre ≤ nsampIn - npreIn)
    (h1 : first + npreIn ≤ u) (h2 : u + (nsampIn - npreIn) ≤ first + L) : SpecOK first L sp := by
  obtain ⟨a, b, c, d, e⟩ := hb
  unfold SpecOK
  omega

theorem ztApply_le {raw : List Nat} {first : Int} {zt : ZT} {ezt : Bool} {j t : Int}
    (hzt : ∀ p, zt p ≤ 1) (h : ztApply raw first zt ezt j = some t) : t ≤ j + 1 ∧ (ezt = false → t = j) := by
  unfold ztApply at h
  split at h
  · rename_i he
    simp only [Option.some.injEq] at h
    exact ⟨by omega, fun _ => h.symm⟩
  · rename_i he
    split at h
    · simp only [Option.some.injEq] at h
      have := hzt (first + j)
      refine ⟨by omega, fun hf => ?_⟩
      simp [hf] at he
    · simp at h

/-- the trigger frame of a specification has room for a record of the CONFIGURED lengths around it
(what a group-triggered channel with the same buffer will cut at that frame) -/
def FrameFull (s : EMT) (first L : Int) (sp : Spec) : Prop :=
  first + s.npre ≤ sp.frame ∧ sp.frame + (s.nsamp - s.npre) ≤ first + L

/-- the "pending edge" invariant inside one call: `u ≤ v`, `v` lies before the scan position, and `v`
is already recorded (`u = v`), absent (`v = 0`), or its whole record is inside the buffer -/
structure PendOK (s : EMT) (first L iFirst u v : Int) : Prop where
  ord : u ≤ v
  before : v < first + iFirst
  pend : u = v ∨ v = 0 ∨ (first + s.npre ≤ v ∧ v + (s.nsamp - s.npre) ≤ first + L)

/-- **one call, the loop**: it never panics, every specification can be cut, the pending edge stays OK -/
theorem emtLoop_safe (raw : List Nat) (first : Int) (zt : ZT) (s : EMT)
    (hzt : ∀ p, -1 ≤ zt p ∧ zt p ≤ 1)
    (hnp : 3 ≤ s.npre) (hlt : s.npre < s.nsamp) (hz4 : s.enableZT = true → 4 ≤ s.npre ∧ 4 ≤ s.nsamp - s.npre) :
    ∀ (n : Nat) (iFirst t u v : Int) (acc : List Spec),
      (((raw.length : Int) - 1 - (s.nsamp - s.npre)) + (s.nsamp - s.npre) + 2 - iFirst).toNat ≤ n →
      s.npre ≤ iFirst → (s.enableZT = true → s.npre + 1 ≤ iFirst) →
      PendOK s first raw.length iFirst u v →
      (∀ sp ∈ acc, SpecOK first raw.length sp ∧ FrameFull s first raw.length sp) →
      ∃ r, emtLoop raw first zt s ((raw.length : Int) - 1 - (s.nsamp - s.npre)) (s.nsamp - s.npre) iFirst t u v acc = some r ∧
        iFirst ≤ r.1 ∧ (raw.length : Int) - (s.nsamp - s.npre) ≤ r.1 ∧
        PendOK s first raw.length r.1 r.2.2.1 r.2.2.2.1 ∧
        (∀ sp ∈ r.2.2.2.2, SpecOK first raw.length sp ∧ FrameFull s first raw.length sp) := by
  intro n
  induction n with
  | zero =>
    intro iFirst t u v acc hn h1 h4 hp hacc
    have hpost : 1 ≤ s.nsamp - s.npre := by omega
    obtain ⟨x, hx, hxr⟩ := findNext_some raw first zt iFirst ((raw.length : Int) - 1 - (s.nsamp - s.npre)) s.threshold s.nmonotone
      (s.nsamp - s.npre) s.enableZT hpost (by omega) (fun he => by have := (hz4 he).2; omega) _ iFirst (Nat.le_refl _) (by omega)
      (fun he => by have := h4 he; have := (hz4 he).1; omega)
    rw [emtLoop]
    simp only [hx]
    by_cases hf : x.found = true
    · have := hxr hf; omega
    · have hf' : x.found = false := by simpa using hf
      simp only [hf', Bool.not_false, if_true]
      have hN := findNext_notfound raw first zt iFirst _ s.threshold s.nmonotone (s.nsamp - s.npre) s.enableZT _ iFirst x (Nat.le_refl _) hx hf'
      have hge : iFirst ≤ x.nextI ∧ (raw.length : Int) - (s.nsamp - s.npre) ≤ x.nextI := by rw [hN]; split <;> omega
      have hb' : v < first + x.nextI := by have := hp.before; omega
      exact ⟨(x.nextI, t, u, v, acc), rfl, hge.1, hge.2, ⟨hp.ord, hb', hp.pend⟩, hacc⟩
  | succ n ih =>
    intro iFirst t u v acc hn h1 h4 hp hacc
    have hpost : 1 ≤ s.nsamp - s.npre := by omega
    obtain ⟨x, hx, hxr⟩ := findNext_some raw first zt iFirst ((raw.length : Int) - 1 - (s.nsamp - s.npre)) s.threshold s.nmonotone
      (s.nsamp - s.npre) s.enableZT hpost (by omega) (fun he => by have := (hz4 he).2; omega) _ iFirst (Nat.le_refl _) (by omega)
      (fun he => by have := h4 he; have := (hz4 he).1; omega)
    rw [emtLoop]
    simp only [hx]
    by_cases hf : x.found = true
    · simp only [hf, Bool.not_true, Bool.false_eq_true, if_false]
      obtain ⟨j, hj1, hj2, hj3, hj4, hzj⟩ := (findNext_result raw first zt iFirst _ s.threshold s.nmonotone (s.nsamp - s.npre)
        s.enableZT hpost _ iFirst x (Nat.le_refl _) hx).1 hf
      have g : iFirst < x.nextI ∧ x.nextI ≤ (raw.length : Int) - 1 - (s.nsamp - s.npre) + (s.nsamp - s.npre) + 1 := by omega
      simp only [g, and_self, dite_true]
      have hlo : j - 1 ≤ x.trig := ztApply_ge (fun p => (hzt p).1) hzj
      obtain ⟨hhi, hnozt⟩ := ztApply_le (fun p => (hzt p).2) hzj
      -- the new edge w = x.trig + first lies inside the buffer with room for a whole record
      have hw_lo : first + s.npre ≤ x.trig + first := by
        by_cases he : s.enableZT = true
        · have := h4 he; omega
        · have : x.trig = j := hnozt (by simpa using he); omega
      have hw_hi : x.trig + first + (s.nsamp - s.npre) ≤ first + raw.length := by omega
      have hvw : v ≤ x.trig + first := by have := hp.before; omega
      -- the specification emitted now (for the edge v) can be cut
      have hacc' : ∀ sp ∈ (match shouldRecord u v (x.trig + first) s.npre s.nsamp s.mode with
          | some sp => acc ++ [sp] | none => acc), SpecOK first raw.length sp ∧ FrameFull s first raw.length sp := by
        cases hrec : shouldRecord u v (x.trig + first) s.npre s.nsamp s.mode with
        | none => simpa using hacc
        | some sp0 =>
          intro sp hsp
          simp only [List.mem_append, List.mem_singleton] at hsp
          rcases hsp with hsp | rfl
          · exact hacc sp hsp
          · obtain ⟨_, hu0, huv, hut⟩ := shouldRecord_distinct hrec
            have hb := shouldRecord_bounds hp.ord hvw (by omega) (by omega) hrec
            rcases hp.pend with h0 | h0 | ⟨h0, h0'⟩
            · exact absurd h0 (by omega)
            · exact absurd h0 hu0
            · exact ⟨specOK_of_bounds hb h0 h0', by unfold FrameFull; rw [hb.1]; exact ⟨h0, h0'⟩⟩
      have hp' : PendOK s first raw.length x.nextI v (x.trig + first) :=
        ⟨hvw, by omega, Or.inr (Or.inr ⟨hw_lo, hw_hi⟩)⟩
      obtain ⟨r, hr, hr1, hr2, hr3, hr4⟩ := ih x.nextI u v (x.trig + first) _ (by omega) (by omega)
        (fun he => by have := h4 he; omega) hp' hacc'
      exact ⟨r, hr, by omega, hr2, hr3, hr4⟩
    · have hf' : x.found = false := by simpa using hf
      simp only [hf', Bool.not_false, if_true]
      have hN := findNext_notfound raw first zt iFirst _ s.threshold s.nmonotone (s.nsamp - s.npre) s.enableZT _ iFirst x (Nat.le_refl _) hx hf'
      have hge : iFirst ≤ x.nextI ∧ (raw.length : Int) - (s.nsamp - s.npre) ≤ x.nextI := by rw [hN]; split <;> omega
      have hb' : v < first + x.nextI := by have := hp.before; omega
      exact ⟨(x.nextI, t, u, v, acc), rfl, hge.1, hge.2, ⟨hp.ord, hb', hp.pend⟩, hacc⟩

theorem cutSpecs_some {c : Chan} : ∀ (sps : List Spec), (∀ sp ∈ sps, SpecOK c.first c.buf.length sp) →
    ∃ rs, cutSpecs c sps = some rs
  | [], _ => ⟨[], rfl⟩
  | sp :: sps, h => by
    obtain ⟨h1, h2, h3⟩ := h sp (by simp)
    obtain ⟨rs, hrs⟩ := cutSpecs_some sps (fun x hx => h x (List.mem_cons_of_mem _ hx))
    have hc : ∃ r, cut c (sp.frame - c.first) sp.npre sp.nsamp = some r := by
      unfold cut
      have : ¬ sp.nsamp < 0 := by omega
      simp only [this, if_false]
      unfold sliceI
      have hcond : 0 ≤ sp.frame - c.first - sp.npre ∧ sp.frame - c.first - sp.npre ≤ sp.frame - c.first + sp.nsamp - sp.npre ∧
          sp.frame - c.first + sp.nsamp - sp.npre ≤ (c.buf.length : Int) := by omega
      simp only [hcond, and_self, if_true]
      exact ⟨_, rfl⟩
    obtain ⟨r, hr⟩ := hc
    exact ⟨r :: rs, by simp [cutSpecs, hr, hrs]⟩

/-- the flush specification can be cut too -/
theorem flush_specOK {s : EMT} {first L iF u v : Int} {acc : List Spec}
    (hnp : 3 ≤ s.npre) (hlt : s.npre < s.nsamp)
    (hp : PendOK s first L iF u v) (hacc : ∀ sp ∈ acc, SpecOK first L sp ∧ FrameFull s first L sp) :
    ∀ sp ∈ (flushUV s.npre s.nsamp s.mode (iF + first) u v acc).2, SpecOK first L sp ∧ FrameFull s first L sp := by
  unfold flushUV
  split
  · rename_i hc
    cases hrec : shouldRecord u v (iF + first) s.npre s.nsamp s.mode with
    | none => simpa [optList] using hacc
    | some sp0 =>
      intro sp hsp
      simp only [optList, List.mem_append, List.mem_singleton] at hsp
      rcases hsp with hsp | rfl
      · exact hacc sp hsp
      · obtain ⟨_, hu0, huv, hut⟩ := shouldRecord_distinct hrec
        have hb := shouldRecord_bounds hp.ord (by omega) (by omega) (by omega) hrec
        rcases hp.pend with h0 | h0 | ⟨h0, h0'⟩
        · exact absurd h0 (by omega)
        · exact absurd h0 hu0
        · exact ⟨specOK_of_bounds hb h0 h0', by unfold FrameFull; rw [hb.1]; exact ⟨h0, h0'⟩⟩
  · exact hacc

/-- invariant of an edge-multi channel between blocks (after trimming): either freshly (re)configured
(`next = 0`: the next call resets the search, whatever the buffer holds), or running with the next call
guaranteed not to reset and the pending edge OK w.r.t. the retained buffer -/
structure EmtSafe (c : Chan) : Prop where
  npre3 : 3 ≤ c.emt.npre
  lt : c.emt.npre < c.emt.nsamp
  zt4 : c.emt.enableZT = true → 4 ≤ c.emt.npre ∧ 4 ≤ c.emt.nsamp - c.emt.npre
  emtOn : c.ts.edgeMulti = true
  first0 : 0 ≤ c.first ∨ c.buf = []
  state : c.emt.next = 0 ∨
    (0 ≤ c.first ∧ c.emt.npre ≤ c.emt.next - c.first ∧ (c.emt.enableZT = true → c.emt.npre + 1 ≤ c.emt.next - c.first) ∧
      PendOK c.emt c.first c.buf.length (c.emt.next - c.first) c.emt.u c.emt.v)

theorem trim_cases (c : Chan) (hn : 0 ≤ c.emt.nsamp) :
    (trim c).emt = c.emt ∧ (trim c).ts = c.ts ∧
    (((trim c).first = c.first ∧ (trim c).buf.length = c.buf.length ∧ (c.buf.length : Int) ≤ 2 * c.emt.nsamp + 10) ∨
     ((trim c).first = c.first + ((c.buf.length : Int) - (2 * c.emt.nsamp + 10)) ∧
       ((trim c).buf.length : Int) = 2 * c.emt.nsamp + 10 ∧ 2 * c.emt.nsamp + 10 < (c.buf.length : Int))) := by
  unfold trim
  simp only
  split
  · exact ⟨rfl, rfl, Or.inl ⟨rfl, rfl, by omega⟩⟩
  · rename_i hlt
    refine ⟨rfl, rfl, Or.inr ⟨rfl, ?_, by omega⟩⟩
    simp only [List.length_drop]
    omega

theorem PendOK.mono {s : EMT} {first L L' iF u v : Int} (h : PendOK s first L iF u v) (hL : L ≤ L') :
    PendOK s first L' iF u v := by
  obtain ⟨h1, h2, h3⟩ := h
  refine ⟨h1, h2, ?_⟩
  rcases h3 with h | h | ⟨h, h'⟩
  · exact Or.inl h
  · exact Or.inr (Or.inl h)
  · exact Or.inr (Or.inr ⟨h, by omega⟩)

set_option maxHeartbeats 3200000 in
/-- **C08, no out-of-range access across blocks.**  If the channel satisfies `EmtSafe` and the next block
is contiguous (its first frame is the frame after the retained buffer; for the very first block any
frame ≥ 0), then `TriggerData` on the appended buffer returns — no search read and no record cut leaves
the buffer — and the trimmed channel satisfies `EmtSafe` again. -/
theorem emtSafe_step (c : Chan) (zt : ZT) (hzt : ∀ p, -1 ≤ zt p ∧ zt p ≤ 1) (hs : EmtSafe c)
    (seg : List Nat) (segFirst t0 per : Int) (sg : Bool)
    (hcont : (c.emt.next = 0 ∧ 0 ≤ segFirst - c.buf.length) ∨ (c.emt.next ≠ 0 ∧ segFirst = c.first + c.buf.length)) :
    ∃ c' recs, triggerData (append c seg segFirst t0 per sg) zt = some (c', recs) ∧ EmtSafe (trim c') ∧
      (trim c').emt.next ≠ 0 ∧ (trim c').first + (trim c').buf.length = segFirst + seg.length ∧
      (∀ r ∈ recs, (segFirst - c.buf.length) + c.emt.npre ≤ r.frame ∧
        r.frame + (c.emt.nsamp - c.emt.npre) ≤ segFirst + seg.length) := by
  obtain ⟨hnp, hlt, hz4, hon, _, hstate⟩ := hs
  generalize hca : append c seg segFirst t0 per sg = ca
  have ca_buf : ca.buf = c.buf ++ seg := by rw [← hca]; rfl
  have ca_emt : ca.emt = c.emt := by rw [← hca]; rfl
  have ca_ts : ca.ts = c.ts := by rw [← hca]; rfl
  have ca_first : ca.first = segFirst - c.buf.length := by rw [← hca]; rfl
  have ca_len : (ca.buf.length : Int) = (c.buf.length : Int) + seg.length := by rw [ca_buf]; simp
  -- the call: loop result, safe
  have hcall : ∃ s1 r, emtSpecs ca.buf ca.first zt ca.emt = some (emtFinish s1 ca.first r) ∧
      SameCfg c.emt s1 ∧ 0 ≤ ca.first ∧
      c.emt.npre ≤ r.1 ∧ (c.emt.enableZT = true → c.emt.npre + 1 ≤ r.1) ∧
      (ca.buf.length : Int) - (c.emt.nsamp - c.emt.npre) ≤ r.1 ∧
      PendOK c.emt ca.first ca.buf.length r.1 r.2.2.1 r.2.2.2.1 ∧
      (∀ sp ∈ r.2.2.2.2, SpecOK ca.first ca.buf.length sp ∧ FrameFull c.emt ca.first ca.buf.length sp) := by
    rw [ca_emt]
    rcases hstate with hn0 | ⟨hf0, hnr, hnrz, hpend⟩
    · -- (re)configured: the reset branch
      have hsf : 0 ≤ ca.first := by
        rw [ca_first]
        rcases hcont with ⟨_, h⟩ | ⟨h, _⟩
        · exact h
        · exact absurd hn0 h
      rw [emtSpecs_reset _ _ _ _ (by rw [hn0]; omega)]
      have hcfg1 : SameCfg c.emt { c.emt.reset with sentinel := true } := ⟨rfl, rfl, rfl, rfl, rfl, rfl⟩
      rw [emtLoop_congr ca.buf ca.first zt c.emt _ hcfg1 _ _ _ _ _ _ _ _ (Nat.le_refl _)]
      have hstart1 : c.emt.npre ≤ emtStart c.emt := by unfold emtStart; split <;> omega
      have hstart2 : c.emt.enableZT = true → c.emt.npre + 1 ≤ emtStart c.emt := by
        intro he; unfold emtStart; simp [he]
      obtain ⟨r, hr, hr1, hr2, hr3, hr4⟩ := emtLoop_safe ca.buf ca.first zt c.emt hzt hnp hlt hz4 _ (emtStart c.emt) 0 0 0 []
        (Nat.le_refl _) hstart1 hstart2 ⟨Int.le_refl _, by omega, Or.inl rfl⟩ (by simp)
      rw [hr]
      exact ⟨_, r, rfl, hcfg1, hsf, by omega, fun he => by have := hstart2 he; omega, hr2, hr3, hr4⟩
    · -- running: the non-reset branch
      have hnz : c.emt.next ≠ 0 := by omega
      have hfirst : ca.first = c.first := by
        rcases hcont with ⟨h, _⟩ | ⟨_, h⟩
        · exact absurd h hnz
        · rw [ca_first, h]; omega
      rw [hfirst]
      rw [emtSpecs_nonreset _ _ _ _ hnr]
      have hpend' : PendOK c.emt c.first ca.buf.length (c.emt.next - c.first) c.emt.u c.emt.v :=
        hpend.mono (by rw [ca_len]; omega)
      obtain ⟨r, hr, hr1, hr2, hr3, hr4⟩ := emtLoop_safe ca.buf c.first zt c.emt hzt hnp hlt hz4 _ (c.emt.next - c.first)
        c.emt.t c.emt.u c.emt.v [] (Nat.le_refl _) hnr hnrz hpend' (by simp)
      rw [hr]
      exact ⟨c.emt, r, rfl, SameCfg.refl _, hf0, by omega, fun he => by have := hnrz he; omega, hr2, hr3, hr4⟩
  obtain ⟨s1, r, hspec, hcfg, hfirst0, hrn, hrz, hrL, hrp, hracc⟩ := hcall
  obtain ⟨c1, c2, c3, c4, c5, c6⟩ := hcfg
  -- the specifications of this call, including the flush, can all be cut
  have hspecsOK : ∀ sp ∈ (emtFinish s1 ca.first r).2, SpecOK ca.first ca.buf.length sp ∧
      FrameFull c.emt ca.first ca.buf.length sp := by
    simp only [emtFinish]
    rw [c4, c5, c6]
    exact flush_specOK hnp hlt hrp hracc
  cases hef : emtFinish s1 ca.first r with
  | mk emt' specs =>
  have hemt' : emt' = (emtFinish s1 ca.first r).1 := by rw [hef]
  have hspecs' : specs = (emtFinish s1 ca.first r).2 := by rw [hef]
  rw [hef] at hspec
  obtain ⟨recs, hrecs⟩ := cutSpecs_some (c := ca) specs (by rw [hspecs']; exact fun sp h => (hspecsOK sp h).1)
  have hon' : ca.ts.edgeMulti = true := by rw [ca_ts]; exact hon
  have key : ∀ c' : Chan, c'.emt = emt' → c'.ts = ca.ts → c'.first = ca.first → c'.buf = ca.buf → EmtSafe (trim c') ∧
      (trim c').emt.next ≠ 0 ∧ (trim c').first + (trim c').buf.length = segFirst + seg.length := by
    intro c' hc'e e_ts e_first e_buf
    have e_emt : c'.emt = (emtFinish s1 ca.first r).1 := by rw [hc'e, hemt']
    have e_npre : c'.emt.npre = c.emt.npre := by rw [e_emt]; simp only [emtFinish]; exact c4
    have e_nsamp : c'.emt.nsamp = c.emt.nsamp := by rw [e_emt]; simp only [emtFinish]; exact c5
    have e_zt : c'.emt.enableZT = c.emt.enableZT := by rw [e_emt]; simp only [emtFinish]; exact c3
    have e_next : c'.emt.next = r.1 + ca.first := by rw [e_emt]; simp only [emtFinish]
    have e_v : c'.emt.v = r.2.2.2.1 := by rw [e_emt]; simp only [emtFinish]
    have e_u : c'.emt.u = (flushUV c.emt.npre c.emt.nsamp c.emt.mode (r.1 + ca.first) r.2.2.1 r.2.2.2.1 r.2.2.2.2).1 := by
      rw [e_emt]; simp only [emtFinish]; rw [c4, c5, c6]
    obtain ⟨t_emt, t_ts, tcase⟩ := trim_cases c' (by rw [e_nsamp]; omega)
    rw [e_nsamp, e_first, e_buf] at tcase
    obtain ⟨hpo, hpb, hpp⟩ := hrp
    -- the (u, v) after the flush
    have huv : c'.emt.u ≤ c'.emt.v ∧ (c'.emt.u = c'.emt.v ∨ c'.emt.v = 0 ∨
        (r.1 + ca.first - c.emt.nsamp ≤ c'.emt.v ∧ ca.first + c.emt.npre ≤ c'.emt.v ∧
          c'.emt.v + (c.emt.nsamp - c.emt.npre) ≤ ca.first + ca.buf.length)) := by
      rw [e_u, e_v]
      unfold flushUV
      by_cases hc : 0 < r.2.2.2.1 ∧ r.2.2.2.1 < r.1 + ca.first - c.emt.nsamp
      · rw [if_pos hc]
        exact ⟨Int.le_refl _, Or.inl rfl⟩
      · rw [if_neg hc]
        refine ⟨hpo, ?_⟩
        rcases hpp with h | h | ⟨h, h'⟩
        · exact Or.inl h
        · exact Or.inr (Or.inl h)
        · right; right
          have hpos : 0 < r.2.2.2.1 := by omega
          exact ⟨by omega, h, h'⟩
    refine ⟨⟨by rw [t_emt, e_npre]; exact hnp, by rw [t_emt, e_npre, e_nsamp]; exact hlt,
      by rw [t_emt, e_zt, e_npre, e_nsamp]; exact hz4, by rw [t_ts, e_ts]; exact hon', ?_, ?_⟩, ?_, ?_⟩
    · left
      rcases tcase with ⟨tf, _, _⟩ | ⟨tf, _, tl⟩
      · rw [tf]; exact hfirst0
      · rw [tf]; omega
    · right
      have hcongr : ∀ {f L i u v : Int}, PendOK c.emt f L i u v → PendOK (trim c').emt f L i u v := by
        intro f L i u v h
        obtain ⟨a, b, d⟩ := h
        refine ⟨a, b, ?_⟩
        rw [t_emt, e_npre, e_nsamp]
        exact d
      rw [t_emt, e_npre, e_zt, e_next]
      rw [t_emt] at hcongr
      rcases tcase with ⟨tf, tb, _⟩ | ⟨tf, tb, tl⟩
      · -- not trimmed
        rw [tf, tb]
        refine ⟨hfirst0, by omega, fun he => by have := hrz he; omega, hcongr ?_⟩
        refine ⟨huv.1, ?_, ?_⟩
        · rw [e_v]; omega
        · rcases huv.2 with h | h | ⟨_, h, h'⟩
          · exact Or.inl h
          · exact Or.inr (Or.inl h)
          · exact Or.inr (Or.inr ⟨h, h'⟩)
      · -- trimmed: the buffer now starts `L − keep` later and holds `keep = 2·nsamp+10` samples
        rw [tf, tb]
        refine ⟨by omega, by omega, fun _ => by omega, hcongr ?_⟩
        refine ⟨huv.1, ?_, ?_⟩
        · rw [e_v]; omega
        · rcases huv.2 with h | h | ⟨hrec, h, h'⟩
          · exact Or.inl h
          · exact Or.inr (Or.inl h)
          · exact Or.inr (Or.inr ⟨by omega, by omega⟩)
    · rw [t_emt, e_next]; omega
    · rcases tcase with ⟨tf, tb, _⟩ | ⟨tf, tb, tl⟩
      · rw [tf, tb, ca_first, ca_len]; omega
      · rw [tf, tb, ca_first]; omega
  have htd : ∃ lt, triggerData ca zt = some ({ ca with emt := emt', lastTrig := lt }, recs) := by
    unfold triggerData
    simp only [hon', if_true, hspec, hrecs]
    exact ⟨_, rfl⟩
  obtain ⟨lt, htd⟩ := htd
  obtain ⟨k1, k2, k3⟩ := key ({ ca with emt := emt', lastTrig := lt }) rfl rfl rfl rfl
  refine ⟨_, _, htd, k1, k2, k3, ?_⟩
  intro r0 hr0
  obtain ⟨sp, hsp, hcut⟩ := cutSpecs_mem hrecs r0 hr0
  have hfr := cut_frame hcut
  have hff := (hspecsOK sp (by rw [← hspecs']; exact hsp)).2
  unfold FrameFull at *
  rw [hfr, show ca.first + (sp.frame - ca.first) = sp.frame by omega]
  constructor <;> omega

end DastardV.Trig